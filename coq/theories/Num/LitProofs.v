(* C06 - literal.ParseNum + NumInfo.decimal on every spelling of the grammar:
   what reaches apd's setString, and the resulting decimal. *)
From Coq Require Import NArith ZArith List Bool Lia ZifyN ZifyBool.
From Verif Require Import Num.Decimal Num.NumLit Num.NumLitGrammar Num.ScanProofs
     Num.LitStageProofs Num.LitStartProofs.
Import ListNotations.
Local Open Scope N_scope.

(* ---- lists of digits ---- *)

Lemma split_at_notin : forall c l1 l2, ~ In c l1 -> split_at c (l1 ++ c :: l2) = Some (l1, l2).
Proof.
  induction l1 as [|x l1 IH]; intros l2 H; cbn [app split_at].
  - rewrite N.eqb_refl. reflexivity.
  - destruct (N.eqb_spec x c) as [E|NE]; [exfalso; apply H; left; exact E|].
    rewrite IH by (intro; apply H; right; assumption). reflexivity.
Qed.

Lemma split_at_none : forall c l, ~ In c l -> split_at c l = None.
Proof.
  induction l as [|x l IH]; intros H; cbn [split_at]; [reflexivity|].
  destruct (N.eqb_spec x c) as [E|NE]; [exfalso; apply H; left; exact E|].
  rewrite IH by (intro; apply H; right; assumption). reflexivity.
Qed.

Lemma digits_notin : forall l c, forallb is_digit l = true -> is_digit c = false -> ~ In c l.
Proof.
  intros l c H Hc I. rewrite forallb_forall in H. specialize (H c I). congruence.
Qed.

Lemma forallb_app_digits : forall a b, forallb is_digit (a ++ b) = forallb is_digit a && forallb is_digit b.
Proof. intros. apply forallb_app. Qed.

Lemma digits_value_leading_zero : forall base l, digits_value base (c_0 :: l) 0 = digits_value base l 0.
Proof. intros. reflexivity. Qed.

Lemma ds_chars_digits : forall d, ds_ok 10 d = true -> forallb is_digit (ds_chars d) = true.
Proof.
  intros d H. unfold ds_ok in H. apply andb_prop in H. destruct H as [A B].
  unfold ds_chars. cbn [forallb]. rewrite (dec_digit_is_digit _ A). cbn [andb].
  induction (ds_tail d) as [|[u c] t IH]; [reflexivity|].
  cbn [forallb map snd] in *. apply andb_prop in B. destruct B as [B1 B2].
  rewrite (dec_digit_is_digit _ B1). cbn [andb]. apply IH. exact B2.
Qed.

Lemma opt_chars_digits : forall o, opt_ok o = true -> forallb is_digit (opt_chars o) = true.
Proof. intros [d|] H; [apply ds_chars_digits; exact H|reflexivity]. Qed.

Lemma eff_int_facts : forall ip, opt_ok ip = true ->
  forallb is_digit (eff_int ip) = true /\ eff_int ip <> [] /\
  forall F, digits_value 10 (eff_int ip ++ F) 0 = digits_value 10 (opt_chars ip ++ F) 0.
Proof.
  intros [d|] H; cbn [eff_int opt_chars opt_ok] in *.
  - pose proof (ds_chars_digits d H) as D. unfold pre_int.
    destruct (N.eqb_spec (ds_head d) c_0) as [Z|NZ].
    + unfold ds_chars in *. rewrite Z in *. cbn [forallb] in D.
      destruct (map snd (ds_tail d)) as [|a l] eqn:E.
      * split; [reflexivity|]. split; [discriminate|]. intros; reflexivity.
      * split; [exact D|]. split; [discriminate|]. intros; reflexivity.
    + unfold ds_chars in *. split; [exact D|]. split; [discriminate|]. intros; reflexivity.
  - split; [reflexivity|]. split; [discriminate|]. intros; reflexivity.
Qed.

(* ---- apd setString on what ParseNum collects for a decimal literal ---- *)

Definition exp_part (e : option expo) : list N :=
  match e with None => [] | Some (mkExpo _ s ds) => c_e :: sign_chars s ++ ds_chars ds end.

Definition dot_part (hasdot : bool) (F : list N) : list N := if hasdot then c_dot :: F else [].

Definition int32_ok (z : Z) : bool := ((-2147483648 <=? z) && (z <=? 2147483647))%Z.

Lemma parse_int32_expo : forall s ds,
  ds_ok 10 ds = true ->
  let E := expo_value (Some (mkExpo false s ds)) in
  parse_int32 (sign_chars s ++ ds_chars ds) = if int32_ok E then Some E else None.
Proof.
  intros s ds Hok E. pose proof (ds_chars_digits ds Hok) as HD.
  pose proof (ds_head_range ds Hok) as HH.
  unfold parse_int32, int32_ok. unfold E, expo_value, chars_value in *.
  destruct s as [[|]|]; cbn [sign_chars app].
  - change (c_minus =? c_minus) with true. cbv iota. unfold ds_chars at 1. rewrite HD.
    destruct (Z.ltb_spec (- Z.of_N (digits_value 10 (ds_chars ds) 0)) (-2147483648));
    destruct (Z.ltb_spec 2147483647 (- Z.of_N (digits_value 10 (ds_chars ds) 0)));
    destruct (Z.leb_spec (-2147483648) (- Z.of_N (digits_value 10 (ds_chars ds) 0)));
    destruct (Z.leb_spec (- Z.of_N (digits_value 10 (ds_chars ds) 0)) 2147483647); try lia; reflexivity.
  - change (c_plus =? c_minus) with false. change (c_plus =? c_plus) with true. cbv iota.
    unfold ds_chars at 1. rewrite HD.
    destruct (Z.ltb_spec (Z.of_N (digits_value 10 (ds_chars ds) 0)) (-2147483648));
    destruct (Z.ltb_spec 2147483647 (Z.of_N (digits_value 10 (ds_chars ds) 0)));
    destruct (Z.leb_spec (-2147483648) (Z.of_N (digits_value 10 (ds_chars ds) 0)));
    destruct (Z.leb_spec (Z.of_N (digits_value 10 (ds_chars ds) 0)) 2147483647); try lia; reflexivity.
  - unfold ds_chars at 1.
    replace (ds_head ds =? c_minus) with false by (symmetry; apply N.eqb_neq; unfold c_minus; lia).
    replace (ds_head ds =? c_plus) with false by (symmetry; apply N.eqb_neq; unfold c_plus; lia).
    fold (ds_chars ds). rewrite HD.
    destruct (Z.ltb_spec (Z.of_N (digits_value 10 (ds_chars ds) 0)) (-2147483648));
    destruct (Z.ltb_spec 2147483647 (Z.of_N (digits_value 10 (ds_chars ds) 0)));
    destruct (Z.leb_spec (-2147483648) (Z.of_N (digits_value 10 (ds_chars ds) 0)));
    destruct (Z.leb_spec (Z.of_N (digits_value 10 (ds_chars ds) 0)) 2147483647); try lia; reflexivity.
Qed.

Lemma expo_value_upper : forall u s ds, expo_value (Some (mkExpo u s ds)) = expo_value (Some (mkExpo false s ds)).
Proof. reflexivity. Qed.

Lemma set_string_decimal : forall I F hasdot e,
  I <> [] -> forallb is_digit I = true -> forallb is_digit F = true -> expo_ok e = true ->
  (hasdot = false -> F = []) ->
  set_string (I ++ dot_part hasdot F ++ exp_part e) =
    let c := digits_value 10 (I ++ F) 0 in
    if int32_ok (expo_value e) then
      match set_exponent c ((match e with Some _ => [expo_value e] | None => [] end) ++
                            (if hasdot then [(- Z.of_nat (length F))%Z] else [])) with
      | Some x => DFin (mkDec false c x)
      | None => DNaN
      end
    else DNaN.
Proof.
  intros I F hasdot e HI DI DF He HF.
  destruct I as [|i0 I']; [contradiction|].
  assert (is_digit i0 = true) as Di0 by (cbn [forallb] in DI; apply andb_prop in DI; apply DI).
  assert (48 <= i0 <= 57) as Ri0 by (unfold is_digit in Di0; lia).
  unfold set_string. cbn [app].
  replace (i0 =? c_minus) with false by (symmetry; apply N.eqb_neq; unfold c_minus; lia).
  replace (i0 =? c_plus) with false by (symmetry; apply N.eqb_neq; unfold c_plus; lia).
  cbv iota beta. unfold starts_with_sign.
  replace (i0 =? c_minus) with false by (symmetry; apply N.eqb_neq; unfold c_minus; lia).
  replace (i0 =? c_plus) with false by (symmetry; apply N.eqb_neq; unfold c_plus; lia).
  cbn [orb]. cbv iota.
  assert (forallb is_digit ((i0 :: I') ++ F) = true) as DA by (rewrite forallb_app, DI, DF; reflexivity).
  (* the mantissa has no 'e' *)
  assert (~ In c_e ((i0 :: I') ++ dot_part hasdot F)) as NoE.
  { intro H. apply in_app_or in H. destruct H as [H|H].
    - revert H. apply digits_notin; [exact DI|reflexivity].
    - unfold dot_part in H. destruct hasdot; [|contradiction]. destruct H as [H|H]; [discriminate H|].
      revert H. apply digits_notin; [exact DF|reflexivity]. }
  assert (forall X : unit, split_at c_dot ((i0 :: I') ++ dot_part hasdot F) =
                    if hasdot then Some (i0 :: I', F) else None) as SD.
  { intros _. unfold dot_part. destruct hasdot.
    - apply split_at_notin. apply digits_notin; [exact DI|reflexivity].
    - rewrite app_nil_r. apply split_at_none. apply digits_notin; [exact DI|reflexivity]. }
  change (i0 :: I' ++ dot_part hasdot F ++ exp_part e) with ((i0 :: I') ++ dot_part hasdot F ++ exp_part e).
  rewrite app_assoc.
  destruct e as [[u s ds]|]; cbn [exp_part].
  - (* with exponent *)
    rewrite split_at_notin by exact NoE.
    cbn [expo_ok] in He. rewrite expo_value_upper in *.
    rewrite (parse_int32_expo s ds He). cbv zeta.
    destruct (int32_ok (expo_value (Some (mkExpo false s ds)))); [|reflexivity].
    cbv iota beta. cbn [negb].
    rewrite (SD tt). destruct hasdot.
    + rewrite DA. cbn [negb app]. reflexivity.
    + rewrite (HF eq_refl) in *. unfold dot_part. rewrite !app_nil_r. rewrite DI. cbn [negb app]. reflexivity.
  - (* no exponent *)
    rewrite app_nil_r. rewrite (split_at_none c_e) by exact NoE. cbv iota beta. cbn [negb].
    change (int32_ok (expo_value None)) with true. cbv iota.
    rewrite (SD tt). destruct hasdot.
    + rewrite DA. cbn [negb app]. reflexivity.
    + rewrite (HF eq_refl) in *. unfold dot_part. rewrite !app_nil_r. rewrite DI. cbn [negb app]. reflexivity.
Qed.

(* ---- ParseNum on each production: the NumInfo it returns ---- *)

Lemma expo_render_stops : forall e, stops 10 (expo_render e).
Proof. intros [[u s ds]|]; simpl; [destruct u; vm_compute; discriminate|exact I]. Qed.

Lemma mult_render_stops : forall m, mult_ok m = true -> stops 10 (mult_render m).
Proof. intros m H. unfold mult_render. simpl. apply (mult_char_facts m H). Qed.

Lemma exponent_finish : forall chk e rb,
  expo_ok e = true -> rb <> [] ->
  finish (sn_exponent chk (after (expo_render e) rb false) true) =
    Some (mkInfo (rev rb ++ exp_part e) 10 None true).
Proof.
  intros chk e rb He Hrb. destruct e as [[u s ds]|].
  - cbn [expo_ok] in He. rewrite sn_exponent_expo by exact He. rewrite finish_end.
    destruct (rev (ds_chars ds) ++ rev (sign_chars s) ++ c_e :: rb) as [|x l] eqn:E.
    { apply (f_equal (@length N)) in E. rewrite !app_length in E. simpl in E. lia. }
    rewrite <- E. rewrite !rev_app_distr. cbn [rev]. rewrite !rev_involutive.
    cbn [exp_part]. rewrite <- !app_assoc. reflexivity.
  - cbn [expo_render exp_part]. rewrite sn_exponent_end, finish_end, app_nil_r.
    destruct rb; [contradiction|reflexivity].
Qed.

Lemma mult_finish : forall chk m rb fl,
  mult_ok m = true ->
  finish (sn_exponent chk (after (mult_render m) rb false) fl) =
    let i := mkInfo (match rb with [] => [c_0] | _ => rev rb end) 10 (Some m) false in
    if chk then
      match decimal_of (mkInfo (rev rb) 10 (Some m) false) with
      | None => None
      | Some _ => Some i
      end
    else Some i.
Proof.
  intros chk m rb fl Hm. rewrite sn_exponent_mult by exact Hm. cbv zeta. destruct chk.
  - destruct (decimal_of _); [rewrite finish_end; reflexivity|reflexivity].
  - rewrite finish_end. reflexivity.
Qed.

Definition has_dot (fp : option (option dseq)) : bool := match fp with Some _ => true | None => false end.
Definition fp_chars (fp : option (option dseq)) : list N := opt_chars (fp_flat fp).

(* the integer part, then '.' or an exponent *)
Lemma scan_ip_cont : forall chk d R,
  ds_ok 10 d = true -> cont R ->
  scan_number chk (after (ds_render d ++ R) [] false) false =
  sn_fraction chk (after R (match R with
                            | c :: _ => if c =? c_dot then rev (pre_int d) else rev (eff_int (Some d))
                            | [] => []
                            end) false) false.
Proof.
  intros chk d R Hok HC. destruct (N.eq_dec (ds_head d) c_0) as [Z|NZ].
  - apply scan_number_zero_cont; assumption.
  - rewrite scan_number_nonzero by (auto; apply cont_stops; exact HC).
    assert (pre_int d = ds_chars d) as HP.
    { unfold pre_int. destruct (N.eqb_spec (ds_head d) c_0); [contradiction|reflexivity]. }
    assert (eff_int (Some d) = ds_chars d) as HE.
    { unfold eff_int. rewrite HP. reflexivity. }
    rewrite HP, HE. destruct HC; [change (c_dot =? c_dot) with true|change (c_e =? c_dot) with false|change (c_E =? c_dot) with false]; reflexivity.
Qed.

Lemma rev_nonempty : forall (l : list N), l <> [] -> rev l <> [].
Proof.
  intros l H E. apply H. apply (f_equal (@rev N)) in E. rewrite rev_involutive in E. exact E.
Qed.

Theorem float_scan : forall chk ip fp e,
  lit_ok (GFloat ip fp e) = true ->
  parse_num_gen chk (render (GFloat ip fp e)) =
    Some (mkInfo (eff_int ip ++ dot_part (has_dot fp) (fp_chars fp) ++ exp_part e) 10 None true).
Proof.
  intros chk ip fp e Hok. cbn [lit_ok] in Hok.
  apply andb_prop in Hok. destruct Hok as [Hok H3]. apply andb_prop in Hok. destruct Hok as [Hip He].
  cbn [render].
  destruct ip as [d|]; cbn [opt_ok opt_render] in *.
  - pose proof (ds_head_range d Hip) as HR.
    destruct fp as [f|].
    + (* decimals "." [decimals] [exponent] *)
      unfold ds_render at 1. cbn [app]. rewrite parse_start_digit by exact HR.
      change (ds_head d :: tail_render (ds_tail d) ++ c_dot :: opt_render f ++ expo_render e)
        with (ds_render d ++ c_dot :: opt_render f ++ expo_render e).
      rewrite scan_ip_cont by (auto; constructor). change (c_dot =? c_dot) with true. cbv iota.
      rewrite sn_fraction_dot by (auto; apply expo_render_stops).
      rewrite on_read_dot_pre.
      rewrite exponent_finish; [|exact He|].
      * f_equal. f_equal. rewrite rev_app_distr, !rev_involutive.
        cbn [has_dot dot_part fp_chars]. rewrite <- !app_assoc. cbn [app].
        destruct f; reflexivity.
      * intro E. apply (f_equal (@length N)) in E. repeat (rewrite app_length in E || rewrite rev_length in E). simpl in E. lia.
    + (* decimals exponent *)
      destruct e as [[u s ds]|]; [|discriminate H3].
      unfold ds_render at 1. cbn [app]. rewrite parse_start_digit by exact HR.
      change (ds_head d :: tail_render (ds_tail d) ++ expo_render (Some (mkExpo u s ds)))
        with (ds_render d ++ expo_render (Some (mkExpo u s ds))).
      assert (cont (expo_render (Some (mkExpo u s ds)))) as HC by (cbn [expo_render]; destruct u; constructor).
      rewrite scan_ip_cont by (auto).
      assert (exists ec r, expo_render (Some (mkExpo u s ds)) = ec :: r /\ ec <> c_dot /\ ec <> 0) as (ec & r & EE & N1 & N2).
      { cbn [expo_render]. destruct u; eexists; eexists; split; try reflexivity; split; discriminate. }
      rewrite EE at 2. replace (ec =? c_dot) with false by (symmetry; apply N.eqb_neq; exact N1).
      rewrite sn_fraction_skip.
      2:{ rewrite EE. rewrite after_cons by exact N2. cbn [s_ch]. exact N1. }
      (* sn_exponent is entered with isFloat = false here; the exponent sets it *)
      cbn [expo_ok] in He. rewrite sn_exponent_expo by exact He.
      rewrite <- (sn_exponent_expo chk u s ds (rev (eff_int (Some d))) true He).
      rewrite exponent_finish; [|exact He|].
      * cbn [has_dot dot_part app]. rewrite rev_involutive. reflexivity.
      * apply rev_nonempty. apply (eff_int_facts (Some d) Hip).
  - (* "." decimals [exponent] *)
    destruct fp as [[f|]|]; try discriminate H3.
    cbn [app opt_render]. rewrite parse_start_point. unfold scan_number.
    rewrite (scan_dseq 10) by (auto; try lia; apply expo_render_stops).
    rewrite exponent_finish; [|exact He|].
    + f_equal. f_equal. rewrite rev_app_distr, rev_involutive. reflexivity.
    + intro E. apply (f_equal (@length N)) in E. rewrite app_length in E. simpl in E. lia.
Qed.

Definition si_info (ip fp : option dseq) (m : mult) : numinfo :=
  mkInfo (eff_int ip ++ dot_part (match fp with Some _ => true | None => false end) (opt_chars fp))
         10 (Some m) false.

(* si literals.  "00K", "01K" (decimals with a leading zero directly before the multiplier)
   are rejected by ParseNum although the grammar allows them: they are excluded here. *)
Definition si_no_leading_zero (ip fp : option dseq) : bool :=
  match ip, fp with
  | Some d, None => no_leading_zero d
  | _, _ => true
  end.

Theorem si_scan : forall chk ip fp m,
  lit_ok (GSi ip fp m) = true -> si_no_leading_zero ip fp = true ->
  parse_num_gen chk (render (GSi ip fp m)) =
    if chk then
      match decimal_of (si_info ip fp m) with
      | None => None
      | Some _ => Some (si_info ip fp m)
      end
    else Some (si_info ip fp m).
Proof.
  intros chk ip fp m Hok Hnz. cbn [lit_ok] in Hok.
  apply andb_prop in Hok. destruct Hok as [Hok H3]. apply andb_prop in Hok. destruct Hok as [Hok Hm].
  apply andb_prop in Hok. destruct Hok as [Hip Hfp].
  destruct (mult_char_facts m Hm) as (MZ & MD & ME & MEE & MS).
  cbn [render]. unfold si_info.
  destruct ip as [d|]; cbn [opt_ok opt_render] in *.
  - pose proof (ds_head_range d Hip) as HR.
    destruct fp as [f|]; cbn [opt_ok] in Hfp.
    + (* decimals "." decimals multiplier *)
      unfold ds_render at 1. cbn [app]. rewrite parse_start_digit by exact HR.
      change (ds_head d :: tail_render (ds_tail d) ++ c_dot :: ds_render f ++ mult_render m)
        with (ds_render d ++ c_dot :: opt_render (Some f) ++ mult_render m).
      rewrite scan_ip_cont by (auto; constructor). change (c_dot =? c_dot) with true. cbv iota.
      rewrite sn_fraction_dot by (auto; apply mult_render_stops; exact Hm).
      rewrite on_read_dot_pre. rewrite mult_finish by exact Hm. cbv zeta.
      assert (rev (rev (opt_chars (Some f)) ++ rev (eff_int (Some d) ++ [c_dot])) =
              eff_int (Some d) ++ dot_part true (opt_chars (Some f))) as ER.
      { rewrite rev_app_distr, !rev_involutive. cbn [dot_part]. rewrite <- app_assoc. reflexivity. }
      destruct (rev (opt_chars (Some f)) ++ rev (eff_int (Some d) ++ [c_dot])) as [|x l] eqn:EQ.
      { apply (f_equal (@length N)) in EQ. repeat (rewrite app_length in EQ || rewrite rev_length in EQ). simpl in EQ. lia. }
      rewrite ER. reflexivity.
    + (* decimals multiplier *)
      cbn [si_no_leading_zero] in Hnz. unfold no_leading_zero in Hnz.
      cbn [app dot_part opt_chars]. rewrite app_nil_r.
      destruct (N.eqb_spec (ds_head d) c_0) as [Z|NZ].
      * (* just "0" *)
        cbn [negb orb] in Hnz. destruct (ds_tail d) as [|p t] eqn:ET; [|discriminate Hnz].
        unfold ds_render. rewrite ET, Z. cbn [tail_render flat_map app].
        rewrite parse_start_digit by (unfold c_0; lia).
        assert (scan_number chk (after (c_0 :: mult_render m) [] false) false =
                sn_exponent chk (after (mult_render m) [] false) false) as ->.
        { unfold scan_number. rewrite after_cons by discriminate. cbn [s_ch].
          change (c_0 =? c_0) with true. cbv iota. rewrite on_read_plain by discriminate.
          change (next {| s_src := mult_render m; s_ch := c_0; s_rbuf := []; s_err := false |})
            with (after (mult_render m) [] false).
          assert (s_ch (after (mult_render m) [] false) = mult_char m) as SC.
          { unfold mult_render. rewrite after_cons by exact MZ. reflexivity. }
          assert (s_rbuf (after (mult_render m) [] false) = []) as SR.
          { unfold mult_render. rewrite after_cons by exact MZ. rewrite on_read_plain by exact MD. reflexivity. }
          rewrite SC.
          assert ((mult_char m =? 120) || (mult_char m =? 88) = false /\ (mult_char m =? 98) = false /\
                  (mult_char m =? 111) = false) as (X1 & X2 & X3).
          { destruct m as [idx bin]. unfold mult_ok in Hm. simpl in Hm. unfold mult_char. simpl.
            assert (idx = 1 \/ idx = 2 \/ idx = 3 \/ idx = 4 \/ idx = 5) as C by lia.
            destruct C as [->|[->|[->|[->| ->]]]]; repeat split; reflexivity. }
          rewrite X1, X2, X3.
          rewrite scan_mantissa_stop by (rewrite SC; exact MS). rewrite SC.
          replace (mult_char m =? c_e) with false by (symmetry; apply N.eqb_neq; exact ME).
          replace (mult_char m =? c_E) with false by (symmetry; apply N.eqb_neq; exact MEE).
          replace (mult_char m =? c_dot) with false by (symmetry; apply N.eqb_neq; exact MD).
          replace (mult_char m =? 0) with false by (symmetry; apply N.eqb_neq; exact MZ).
          cbn [orb negb]. rewrite (mul_index_char m Hm). reflexivity. }
        rewrite mult_finish by exact Hm. cbv zeta. cbn [rev].
        assert (eff_int (Some d) = [c_0]) as ->.
        { unfold eff_int, pre_int. rewrite Z, ET. reflexivity. }
        destruct chk; [|reflexivity].
        (* the check inside scanNumber sees an empty buffer, which decimal() reads as "0",
           exactly what the final conversion sees *)
        assert (decimal_of (mkInfo [] 10 (Some m) false) = decimal_of (mkInfo [c_0] 10 (Some m) false)) as ->
          by reflexivity.
        reflexivity.
      * unfold ds_render at 1. cbn [app]. rewrite parse_start_digit by exact HR.
        change (ds_head d :: tail_render (ds_tail d) ++ mult_render m) with (ds_render d ++ mult_render m).
        rewrite scan_number_nonzero by (auto; apply mult_render_stops; exact Hm).
        rewrite sn_fraction_skip.
        2:{ unfold mult_render. rewrite after_cons by exact MZ. cbn [s_ch]. exact MD. }
        rewrite mult_finish by exact Hm. cbv zeta.
        assert (eff_int (Some d) = ds_chars d) as ->.
        { unfold eff_int, pre_int. destruct (N.eqb_spec (ds_head d) c_0); [contradiction|reflexivity]. }
        rewrite rev_involutive.
        destruct (rev (ds_chars d)) eqn:RV.
        { apply (f_equal (@length N)) in RV. rewrite rev_length in RV. discriminate RV. }
        reflexivity.
  - (* "." decimals multiplier *)
    destruct fp as [f|]; [|discriminate H3]. cbn [opt_ok] in Hfp.
    cbn [app]. rewrite parse_start_point. unfold scan_number.
    rewrite (scan_dseq 10) by (auto; try lia; apply mult_render_stops; exact Hm).
    rewrite mult_finish by exact Hm. cbv zeta.
    assert (rev (rev (ds_chars f) ++ [c_dot; c_0]) = eff_int None ++ dot_part true (opt_chars (Some f))) as ER.
    { rewrite rev_app_distr, rev_involutive. reflexivity. }
    destruct (rev (ds_chars f) ++ [c_dot; c_0]) as [|x l] eqn:EQ.
    { apply (f_equal (@length N)) in EQ. rewrite app_length in EQ. simpl in EQ. lia. }
    rewrite ER. reflexivity.
Qed.

Theorem dec_scan : forall chk d,
  lit_ok (GDec d) = true ->
  parse_num_gen chk (render (GDec d)) = Some (mkInfo (ds_chars d) 10 None false).
Proof.
  intros chk d Hok. cbn [lit_ok] in Hok. apply andb_prop in Hok. destruct Hok as [Hd Hnz].
  pose proof (ds_head_range d Hd) as HR. unfold no_leading_zero in Hnz. cbn [render].
  destruct (N.eqb_spec (ds_head d) c_0) as [Z|NZ].
  - cbn [negb orb] in Hnz. destruct (ds_tail d) as [|p t] eqn:ET; [|discriminate Hnz].
    unfold ds_render, ds_chars. rewrite ET, Z. destruct chk; reflexivity.
  - unfold ds_render at 1. rewrite parse_start_digit by exact HR.
    rewrite <- (app_nil_r (tail_render (ds_tail d))).
    change (ds_head d :: tail_render (ds_tail d) ++ []) with (ds_render d ++ []).
    rewrite scan_number_nonzero by (auto; exact I).
    rewrite sn_fraction_skip by (cbn; discriminate).
    rewrite sn_exponent_end, finish_end, rev_involutive.
    destruct (rev (ds_chars d)) eqn:RV; [|reflexivity].
    apply (f_equal (@length N)) in RV. rewrite rev_length in RV. discriminate RV.
Qed.

Theorem based_scan : forall chk p d,
  lit_ok (GBased p d) = true ->
  parse_num_gen chk (render (GBased p d)) = Some (mkInfo (ds_chars d) (prefix_base p) None false).
Proof.
  intros chk p d Hok. cbn [lit_ok] in Hok. cbn [render].
  rewrite parse_start_digit by (unfold c_0; lia).
  unfold scan_number. rewrite after_cons by discriminate. cbn [s_ch]. change (c_0 =? c_0) with true. cbv iota.
  rewrite on_read_plain by discriminate.
  change (next {| s_src := prefix_char p :: ds_render d; s_ch := c_0; s_rbuf := []; s_err := false |})
    with (after (prefix_char p :: ds_render d) [] false).
  assert (prefix_char p <> 0 /\ prefix_char p <> c_dot) as [PZ PD] by (destruct p; split; discriminate).
  rewrite after_cons by exact PZ. rewrite on_read_plain by exact PD. cbn [s_ch].
  assert (forall base, sn_based base {| s_src := ds_render d; s_ch := prefix_char p; s_rbuf := []; s_err := false |}
                       = (let '(s1, has) := scan_mantissa base (after (ds_render d ++ []) [] false) in
                          if has then sn_exit s1 base false else None)) as SB.
  { intros base. unfold sn_based. rewrite app_nil_r. reflexivity. }
  assert (0 < prefix_base p <= 16) as PB by (destruct p; simpl; lia).
  destruct p; cbn [prefix_char prefix_base] in *;
    repeat match goal with
           | |- context [(?a =? ?b)] => let v := eval vm_compute in (a =? b) in change (a =? b) with v
           end;
    cbn [orb]; cbv iota;
    match goal with |- context [sn_based ?b _] => rewrite (SB b) end;
    rewrite (scan_dseq _ d [] []) by (auto; exact I);
    rewrite app_nil_r, sn_exit_end, finish_end, rev_involutive;
    (destruct (rev (ds_chars d)) eqn:RV;
     [apply (f_equal (@length N)) in RV; rewrite rev_length in RV; discriminate RV|reflexivity]).
Qed.
