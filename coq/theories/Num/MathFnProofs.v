(* C06 - pkg/math Floor / Ceil / Trunc / Round / MultipleOf / Abs: what the faithful model
   computes, for every finite decimal. *)
From Coq Require Import NArith ZArith Bool Lia ZifyN ZifyBool List.
From Verif Require Import Num.Decimal Num.MathFn Num.DigitsProofs Num.RoundProofs Num.IntDivProofs.
Import ListNotations.
Local Open Scope Z_scope.

Lemma pow10_Z : forall n, Z.of_N (pow10 n) = 10 ^ Z.of_N n.
Proof. intros n. unfold pow10. rewrite N2Z.inj_pow. reflexivity. Qed.

Lemma pow10_Zpos : forall n, 0 < Z.of_N (pow10 n).
Proof. intros n. pose proof (pow10_pos n). lia. Qed.

Lemma vden_neg : forall d, exp d < 0 -> vden d = Z.of_N (pow10 (Z.to_N (- exp d))).
Proof.
  intros d H. unfold vden. destruct (Z.leb_spec 0 (exp d)); [lia|].
  rewrite pow10_Z, Z2N.id by lia. reflexivity.
Qed.

Lemma vnum_neg : forall d, exp d < 0 -> vnum d = zsc d.
Proof. intros d H. unfold vnum. destruct (Z.leb_spec 0 (exp d)); [lia|reflexivity]. Qed.

Lemma vnum_nonneg : forall d, 0 <= exp d ->
  vnum d = zsc d * Z.of_N (pow10 (Z.to_N (exp d))) /\ vden d = 1.
Proof.
  intros d H. unfold vnum, vden. destruct (Z.leb_spec 0 (exp d)); [|lia].
  rewrite pow10_Z, Z2N.id by lia. split; reflexivity.
Qed.

(* ---- Trunc: exact for every operand, of any size ---- *)
Theorem math_trunc_exact : forall d, math_trunc d = spec_trunc d.
Proof.
  intros d. unfold math_trunc, spec_trunc, to_integral_down.
  destruct (Z.leb_spec 0 (exp d)) as [H|H].
  - destruct (vnum_nonneg d H) as [-> ->]. rewrite Z.quot_1_r.
    unfold to_int, zsc; cbn [fst neg coeff exp]. destruct (neg d); lia.
  - rewrite vnum_neg, vden_neg by lia.
    set (p := pow10 (Z.to_N (- exp d))). pose proof (pow10_Zpos (Z.to_N (- exp d))) as P. fold p in P.
    unfold to_int, zsc; cbn [fst neg coeff exp]. destruct (neg d).
    + rewrite Z.quot_opp_l by lia. rewrite Z.quot_div_nonneg by lia. rewrite N2Z.inj_div. reflexivity.
    + rewrite Z.quot_div_nonneg by lia. rewrite N2Z.inj_div. reflexivity.
Qed.

(* ---- Round: nearest integer, ties away from zero, for every operand ---- *)
Lemma half_up_div : forall c e, 0 <= c -> 0 < e ->
  (2 * c + e) / (2 * e) = if 2 * (c mod e) <? e then c / e else c / e + 1.
Proof.
  intros c e Hc He. pose proof (Z.div_mod c e ltac:(lia)) as DM.
  pose proof (Z.mod_pos_bound c e He) as MB.
  destruct (Z.ltb_spec (2 * (c mod e)) e).
  - symmetry. apply (Z.div_unique _ _ _ (2 * (c mod e) + e)); nia.
  - symmetry. apply (Z.div_unique _ _ _ (2 * (c mod e) - e)); nia.
Qed.

Lemma sgn_abs_id : forall x, Z.sgn x * Z.abs x = x.
Proof. intros x; destruct x; simpl; lia. Qed.

Theorem math_round_exact : forall d, math_round d = spec_round d.
Proof.
  intros d. unfold math_round, spec_round, to_integral.
  destruct (Z.leb_spec 0 (exp d)) as [H|H].
  - rewrite to_integral_nonneg_exp by lia. destruct (vnum_nonneg d H) as [-> ->].
    set (p := pow10 (Z.to_N (exp d))). pose proof (pow10_Zpos (Z.to_N (exp d))) as P. fold p in P.
    unfold to_int, zsc; cbn [fst neg coeff exp].
    replace (2 * 1) with 2 by lia.
    assert (forall n, (2 * Z.abs n + 1) / 2 = Z.abs n) as E.
    { intros n. symmetry. apply (Z.div_unique _ _ _ 1); lia. }
    rewrite E, sgn_abs_id. destruct (neg d); rewrite N2Z.inj_mul; ring.
  - rewrite to_integral_neg_exp by lia. rewrite vnum_neg, vden_neg by lia.
    set (p := pow10 (Z.to_N (- exp d))). pose proof (pow10_Zpos (Z.to_N (- exp d))) as P. fold p in P.
    set (c := coeff d).
    assert (Z.abs (zsc d) = Z.of_N c) as A by (unfold zsc; fold c; destruct (neg d); lia).
    rewrite A, half_up_div by lia.
    assert (Z.of_N (if (2 * (c mod p) <? p)%N then (c / p)%N else (c / p + 1)%N) =
            if 2 * (Z.of_N c mod Z.of_N p) <? Z.of_N p then Z.of_N c / Z.of_N p else Z.of_N c / Z.of_N p + 1) as E.
    { rewrite <- N2Z.inj_mod, <- N2Z.inj_div.
      destruct (N.ltb_spec (2 * (c mod p)) p); destruct (Z.ltb_spec (2 * Z.of_N (c mod p)) (Z.of_N p)); lia. }
    unfold to_int; cbn [fst neg coeff exp]. rewrite E. clear E.
    set (r := if 2 * (Z.of_N c mod Z.of_N p) <? Z.of_N p then _ else _).
    unfold zsc; fold c. destruct (N.eq_dec c 0) as [Z0|NZ].
    + assert (r = 0) as ->.
      { unfold r. rewrite Z0. change (Z.of_N 0) with 0. rewrite Z.mod_0_l, Z.div_0_l by lia.
        destruct (Z.ltb_spec (2 * 0) (Z.of_N p)); lia. }
      destruct (neg d); lia.
    + destruct (neg d).
      * rewrite Z.sgn_neg by lia. lia.
      * rewrite Z.sgn_pos by lia. lia.
Qed.

(* ---- Floor / Ceil: the detour through precision 34 loses every result of more than 34 digits ---- *)
Lemma math_floor_refuted :
  math_floor (mkDec false 1 40) = 0 /\ spec_floor (mkDec false 1 40) = 10 ^ 40 /\
  math_floor (mkDec false 123456789012345678901234567890123455 (-1)) = 0 /\
  spec_floor (mkDec false 123456789012345678901234567890123455 (-1)) = 12345678901234567890123456789012345.
Proof. vm_compute. repeat split. Qed.

Lemma math_ceil_refuted :
  math_ceil (mkDec false 99999999999999999999999999999999995 (-1)) = 0 /\
  spec_ceil (mkDec false 99999999999999999999999999999999995 (-1)) = 10 ^ 34.
Proof. vm_compute. split; reflexivity. Qed.

Lemma math_floor_ceil_examples :
  math_floor (mkDec true 5 (-1)) = -1 /\ spec_floor (mkDec true 5 (-1)) = -1 /\
  math_ceil (mkDec true 5 (-1)) = 0 /\ spec_ceil (mkDec true 5 (-1)) = 0 /\
  math_ceil (mkDec false 1 (-400)) = 1 /\ spec_ceil (mkDec false 1 (-400)) = 1 /\
  math_floor (mkDec false 123 2) = 12300 /\ spec_floor (mkDec false 123 2) = 12300 /\
  math_floor (mkDec false 99999999999999999999999999999999995 (-1)) = 9999999999999999999999999999999999 /\
  math_round (mkDec true 25 (-1)) = -3 /\ math_trunc (mkDec true 25 (-1)) = -2 /\
  math_trunc (mkDec false 1 40) = 10 ^ 40 /\ math_round (mkDec false 1 40) = 10 ^ 40.
Proof. vm_compute. repeat split. Qed.

(* ---- MultipleOf ---- *)
Theorem multiple_of_zero_divisor : forall x y, coeff y = 0%N -> math_multiple_of x y = Err.
Proof. intros x y H. unfold math_multiple_of, is_zero. rewrite H. reflexivity. Qed.

Theorem multiple_of_total : forall x y, coeff y <> 0%N -> exists b, math_multiple_of x y = Ok b.
Proof.
  intros x y H. unfold math_multiple_of, is_zero.
  destruct (N.eqb_spec (coeff y) 0); [contradiction|]. eexists; reflexivity.
Qed.

Lemma multiple_of_examples :
  math_multiple_of (mkDec false 10 0) (mkDec false 25 (-1)) = Ok true /\
  spec_multiple_of (mkDec false 10 0) (mkDec false 25 (-1)) = true /\
  math_multiple_of (mkDec false 10 0) (mkDec false 3 0) = Ok false /\
  spec_multiple_of (mkDec false 10 0) (mkDec false 3 0) = false /\
  math_multiple_of (mkDec true 75 (-1)) (mkDec false 25 (-1)) = Ok true.
Proof. vm_compute. repeat split. Qed.

(* the quotient is rounded to 34 digits first: 10^35 + 5 is "a multiple of" 10 *)
Lemma multiple_of_refuted :
  math_multiple_of (mkDec false 100000000000000000000000000000000005 0) (mkDec false 10 0) = Ok true /\
  spec_multiple_of (mkDec false 100000000000000000000000000000000005 0) (mkDec false 10 0) = false.
Proof. vm_compute. split; reflexivity. Qed.

(* ---- Abs ---- *)
Lemma math_abs_examples :
  math_abs (mkDec true 15 (-1)) = mkNum KFloat (mkDec false 15 (-1)) /\
  math_abs (mkDec true 7 0) = mkNum KInt (mkDec false 7 0) /\
  math_abs (mkDec true 1 3) = mkNum KInt (mkDec false 1000 0) /\
  math_abs (mkDec true 20 (-1)) = mkNum KInt (mkDec false 2 0).
Proof. vm_compute. repeat split. Qed.
