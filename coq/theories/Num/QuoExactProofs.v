(* C06 - Quo is exact whenever the exact quotient is representable with 34 digits
   (in particular integer quotients below 10^34 are never lost). *)
From Coq Require Import NArith ZArith QArith Qabs Bool Lia ZifyN ZifyBool.
From Verif Require Import Num.Decimal Num.DigitsProofs Num.DVal Num.RoundProofs Num.ArithProofs Num.QuoProofs.
Local Open Scope N_scope.

Lemma quo_raw_parts_ext : forall p x y,
  coeff x <> 0 -> coeff y <> 0 -> 1 <= p ->
  exists a b q,
    quo_raw p x y = mkDec (xorb (neg x) (neg y)) q (exp x - exp y - Z.of_N a + Z.of_N b) /\
    let D := coeff x * pow10 a in
    let V := coeff y * pow10 b in
    (q * V <= D -> 2 * (D - q * V) < V) /\ (D <= q * V -> 2 * (q * V - D) <= V) /\
    pow10 (p - 1) <= q /\ pow10 (p - 1) * V <= D.
Proof.
  intros p x y Hx Hy Hp. unfold quo_raw.
  destruct (N.eqb_spec (coeff x) 0) as [|_]; [contradiction|].
  set (ndx := digits (coeff x)). set (ndy := digits (coeff y)).
  set (dividend := if ndx <? ndy then coeff x * pow10 (ndy - ndx) else coeff x).
  set (divisor := if ndy <? ndx then coeff y * pow10 (ndx - ndy) else coeff y).
  set (a0 := if ndx <? ndy then ndy - ndx else 0).
  set (b := if ndy <? ndx then ndx - ndy else 0).
  assert (dividend = coeff x * pow10 a0) as Hdd.
  { unfold dividend, a0. destruct (ndx <? ndy); [reflexivity|]. rewrite pow10_0. lia. }
  assert (divisor = coeff y * pow10 b) as Hdv.
  { unfold divisor, b. destruct (ndy <? ndx); [reflexivity|]. rewrite pow10_0. lia. }
  assert (digits dividend = N.max ndx ndy) as Dd.
  { rewrite Hdd, digits_mul_pow10 by lia. fold ndx. unfold a0. destruct (N.ltb_spec ndx ndy); lia. }
  assert (digits divisor = N.max ndx ndy) as Dv.
  { rewrite Hdv, digits_mul_pow10 by lia. fold ndy. unfold b. destruct (N.ltb_spec ndy ndx); lia. }
  assert (0 < dividend) as Pdd by (rewrite Hdd; pose proof (pow10_pos a0); nia).
  assert (0 < divisor) as Pdv by (rewrite Hdv; pose proof (pow10_pos b); nia).
  set (bump := dividend <? divisor).
  set (a := a0 + (if bump then 1 else 0) + (p - 1)).
  exists a, b.
  destruct (if bump then (dividend * 10, (Z.of_N ndy - Z.of_N ndx + 1)%Z)
            else (dividend, (Z.of_N ndy - Z.of_N ndx)%Z)) as [dividend1 adj] eqn:B.
  assert (dividend1 = dividend * (if bump then 10 else 1) /\
          adj = (Z.of_N ndy - Z.of_N ndx + (if bump then 1 else 0))%Z) as [Hd1 Hadj].
  { destruct bump; inversion B; subst; split; lia. }
  assert (divisor <= dividend1) as GE.
  { rewrite Hd1. unfold bump. destruct (N.ltb_spec dividend divisor) as [L|L]; [|lia].
    pose proof (digits_lower dividend Pdd) as Lo. pose proof (digits_upper divisor) as Up.
    rewrite Dd in Lo. rewrite Dv in Up.
    assert (pow10 (N.max ndx ndy) = 10 * pow10 (N.max ndx ndy - 1)) as E.
    { rewrite <- pow10_succ. f_equal. pose proof (digits_pos (coeff x)). fold ndx in H. lia. }
    lia. }
  set (D := dividend1 * pow10 (p - 1)).
  assert (D = coeff x * pow10 a) as HD.
  { unfold D, a. rewrite Hd1, Hdd, !pow10_add. destruct bump; rewrite ?pow10_0; change (pow10 1) with 10; lia. }
  eexists. split.
  - f_equal. unfold a. rewrite Hadj. unfold a0, b.
    destruct (N.ltb_spec ndx ndy), (N.ltb_spec ndy ndx), bump; lia.
  - cbv zeta. rewrite <- HD, <- Hdv.
    pose proof (half_up_quotient D divisor Pdv) as HQ. cbv zeta in HQ.
    destruct HQ as (H1 & H2 & H3). split; [exact H1|]. split; [exact H2|].
    assert (pow10 (p - 1) * divisor <= D) as H4.
    { unfold D. rewrite (N.mul_comm (pow10 (p - 1))). apply N.mul_le_mono_r. exact GE. }
    split; [|exact H4].
    apply N.le_trans with (D / divisor); [|exact H3].
    apply N.div_le_lower_bound; [lia|]. unfold D. apply N.mul_le_mono_r. exact GE.
Qed.
Local Open Scope Q_scope.

Lemma dval_nonzero : forall d, coeff d <> 0%N -> ~ dval d == 0.
Proof. intros d H E. apply dval_zero_iff in E. contradiction. Qed.

Theorem quo_raw_exact_when_representable : forall x y r,
  coeff x <> 0%N -> coeff y <> 0%N -> (digits (coeff r) <= 34)%N ->
  dval r * dval y == dval x ->
  dval (quo_raw prec x y) == dval r.
Proof.
  intros x y r Hx Hy Hr HR.
  destruct (quo_raw_parts_ext prec x y Hx Hy ltac:(unfold prec; lia)) as (a & b & q' & E & H1 & H2 & H3 & H4).
  rewrite E. clear E.
  set (EE := (exp x - exp y - Z.of_N a + Z.of_N b)%Z).
  set (t := (exp x - Z.of_N a)%Z).
  set (V := (coeff y * pow10 b)%N) in *. set (D := (coeff x * pow10 a)%N) in *.
  assert (dval (mkDec (xorb (neg x) (neg y)) q' EE) * dval y ==
          mkv (sg (neg x) (Z.of_N (q' * V))) t) as L1.
  { rewrite !dval_sg. simpl. rewrite mkv_mul, sg_xor_mul.
    replace (EE + exp y)%Z with (t + Z.of_N b)%Z by (unfold EE, t; lia).
    rewrite mkv_shift' by lia. rewrite sg_mul. apply mkv_eq. f_equal.
    unfold V. rewrite !N2Z.inj_mul. unfold pow10. rewrite N2Z.inj_pow. change (Z.of_N 10) with 10%Z. ring. }
  assert (dval x == mkv (sg (neg x) (Z.of_N D)) t) as L2.
  { rewrite dval_sg. replace (exp x) with (t + Z.of_N a)%Z at 1 by (unfold t; lia).
    rewrite mkv_shift' by lia. rewrite sg_mul. apply mkv_eq. f_equal.
    unfold D. rewrite N2Z.inj_mul. unfold pow10. rewrite N2Z.inj_pow. reflexivity. }
  (* magnitudes: |r| * |y| = |x| written at exponent t *)
  set (m := coeff r). set (k := exp r).
  set (g := (k - EE)%Z).
  assert (mkv (Z.of_N (m * V)) (t + g) == mkv (Z.of_N D) t) as M.
  { assert (Qabs (dval r * dval y) == Qabs (dval x)) as A by (rewrite HR; reflexivity).
    rewrite Qabs_Qmult, !dval_abs, mkv_mul in A. fold m k in A.
    rewrite L2 in HR. clear L1.
    assert (mkv (Z.of_N (coeff x)) (exp x) == mkv (Z.of_N D) t) as B.
    { replace (exp x) with (t + Z.of_N a)%Z by (unfold t; lia). rewrite mkv_shift' by lia.
      apply mkv_eq. unfold D. rewrite N2Z.inj_mul. unfold pow10. rewrite N2Z.inj_pow. reflexivity. }
    rewrite B in A. rewrite <- A.
    replace (k + exp y)%Z with ((t + g) + Z.of_N b)%Z by (unfold t, g, EE; lia).
    rewrite (mkv_shift' (Z.of_N m * Z.of_N (coeff y)) (t + g) (Z.of_N b)) by lia. apply mkv_eq.
    unfold V. rewrite !N2Z.inj_mul. unfold pow10. rewrite N2Z.inj_pow. change (Z.of_N 10) with 10%Z. ring. }
  assert (m < pow10 34)%N as Hm by (apply digits_le_iff; [lia|exact Hr]).
  assert (0 < V)%N as PV by (unfold V; pose proof (pow10_pos b); nia).
  (* the scale difference is non-negative: D >= 10^33 V and m < 10^34 *)
  assert (0 <= g)%Z as Hg.
  { destruct (Z.le_gt_cases 0 g) as [|NG]; [assumption|exfalso].
    assert (mkv (Z.of_N (m * V)) (t + g) == mkv (Z.of_N D * 10 ^ (- g)) (t + g)) as M2.
    { rewrite M. replace t with ((t + g) + (- g))%Z at 1 by lia. rewrite mkv_shift' by lia. reflexivity. }
    apply mkv_eq in M2.
    assert (10 <= 10 ^ (- g))%Z as P10.
    { replace (- g)%Z with (1 + (- g - 1))%Z by lia. rewrite Z.pow_add_r by lia.
      pose proof (Z.pow_pos_nonneg 10 (- g - 1) ltac:(lia) ltac:(lia)). lia. }
    unfold prec in H4. change (34 - 1)%N with 33%N in H4.
    assert (pow10 34 = 10 * pow10 33)%N as E34 by (change 34%N with (33 + 1)%N; apply pow10_succ).
    assert (m * V < pow10 34 * V)%N as LT by (apply N.mul_lt_mono_pos_r; assumption).
    rewrite E34 in LT. remember (pow10 33) as P33.
    assert (Z.of_N D * 10 <= Z.of_N D * 10 ^ (- g))%Z as LE by (apply Z.mul_le_mono_nonneg_l; lia).
    rewrite <- M2 in LE. lia. }
  assert (Z.of_N D = Z.of_N (m * V) * 10 ^ g)%Z as DV.
  { rewrite mkv_shift' in M by exact Hg. apply mkv_eq in M. lia. }
  (* hence V divides D and the rounded quotient is the exact one *)
  assert (exists n, D = (n * V)%N) as (n & Dn).
  { exists (m * Z.to_N (10 ^ g))%N. pose proof (Z.pow_pos_nonneg 10 g ltac:(lia) Hg) as PP.
    apply N2Z.inj. rewrite DV, !N2Z.inj_mul, Z2N.id by lia. ring. }
  assert (q' = n) as ->.
  { rewrite Dn in H1, H2.
    destruct (N.le_ge_cases q' n) as [C|C].
    - assert (q' * V <= n * V)%N as C' by (apply N.mul_le_mono_r; exact C).
      specialize (H1 C').
      destruct (N.eq_dec q' n) as [|NE]; [assumption|exfalso].
      assert (q' + 1 <= n)%N as C2 by lia.
      assert ((q' + 1) * V <= n * V)%N as C3 by (apply N.mul_le_mono_r; exact C2).
      lia.
    - assert (n * V <= q' * V)%N as C' by (apply N.mul_le_mono_r; exact C).
      specialize (H2 C').
      destruct (N.eq_dec q' n) as [|NE]; [assumption|exfalso].
      assert (n + 1 <= q')%N as C2 by lia.
      assert ((n + 1) * V <= q' * V)%N as C3 by (apply N.mul_le_mono_r; exact C2).
      lia. }
  (* q * y = x = r * y, and y <> 0 *)
  assert (dval (mkDec (xorb (neg x) (neg y)) n EE) * dval y == dval r * dval y) as QY.
  { rewrite L1, HR, L2, <- Dn. reflexivity. }
  apply Qmult_inj_r in QY; [exact QY|apply dval_nonzero; exact Hy].
Qed.

(* internal.Context.Quo: no representable quotient is ever lost *)
Theorem dquo_exact_when_representable : forall x y r,
  coeff x <> 0%N -> coeff y <> 0%N -> (digits (coeff r) <= 34)%N ->
  dval r * dval y == dval x ->
  dval (dquo x y) == dval r.
Proof.
  intros. unfold dquo. rewrite reduce_keeping_floats_val.
  apply quo_raw_exact_when_representable; assumption.
Qed.

(* in particular integer division results: x = n * y with |n| < 10^34 *)
Corollary dquo_integer_exact : forall x y (n : Z),
  coeff x <> 0%N -> coeff y <> 0%N -> (Z.abs n < 10 ^ 34)%Z ->
  inject_Z n * dval y == dval x ->
  dval (dquo x y) == inject_Z n.
Proof.
  intros x y n Hx Hy Hn HE.
  set (r := mkDec (n <? 0)%Z (Z.to_N (Z.abs n)) 0).
  assert (dval r == inject_Z n) as R.
  { unfold r, dval, sc, mkv. cbn [neg coeff exp]. rewrite p10_0.
    destruct (Z.ltb_spec n 0); rewrite Z2N.id by lia; rewrite Qmult_1_r; apply inject_Z_injective || idtac;
      [replace (- Z.abs n)%Z with n by lia | replace (Z.abs n) with n by lia]; reflexivity. }
  rewrite <- R. apply dquo_exact_when_representable; auto.
  - unfold r. cbn [coeff]. apply digits_le_iff; [lia|]. unfold pow10. lia.
  - rewrite R. exact HE.
Qed.
