(* C06 - byte-level model of number literals:
     /repo/cue/literal/num.go   ParseNum, NumInfo.next/digitVal/scanMantissa/scanNumber,
                                NumInfo.decimal, IsInt, mulToRat
     apd/decimal.go             Decimal.setString (as reached through UnmarshalText on the
                                bytes ParseNum collects in NumInfo.buf), setExponent limits
   Strings are lists of bytes (N).  The collected buffer is kept reversed (s_rbuf).
   No proofs in this file. *)
From Coq Require Import NArith ZArith Bool List.
From Verif Require Import Num.Decimal.
Import ListNotations.
Local Open Scope N_scope.

Definition c_dot : N := 46.   (* '.' *)
Definition c_minus : N := 45. (* '-' *)
Definition c_plus : N := 43.  (* '+' *)
Definition c_us : N := 95.    (* '_' *)
Definition c_0 : N := 48.     (* '0' *)
Definition c_e : N := 101.    (* 'e' *)
Definition c_E : N := 69.     (* 'E' *)
Definition c_i : N := 105.    (* 'i' *)

(* NumInfo.digitVal; 16 = "larger than any legal digit val" *)
Definition digit_val (ch : N) : N :=
  if (48 <=? ch) && (ch <=? 57) then ch - 48
  else if ch =? c_us then 0
  else if (97 <=? ch) && (ch <=? 102) then ch - 97 + 10
  else if (65 <=? ch) && (ch <=? 70) then ch - 65 + 10
  else 16.

(* scanner state: unread input, current byte (0 at end of input), reversed buf, n.err <> nil *)
Record st : Type := mkSt { s_src : list N; s_ch : N; s_rbuf : list N; s_err : bool }.

(* effect of reading byte c on buf: a '.' is copied, preceded by '0' when buf is empty *)
Definition on_read (c : N) (rbuf : list N) : list N :=
  if c =? c_dot then c_dot :: (match rbuf with [] => [c_0] | _ => rbuf end) else rbuf.

(* NumInfo.next *)
Definition next (s : st) : st :=
  match s_src s with
  | [] => mkSt [] 0 (s_rbuf s) (s_err s)
  | c :: r => mkSt r c (on_read c (s_rbuf s)) (s_err s || (c =? 0))
  end.

Definition push (c : N) (s : st) : st := mkSt (s_src s) (s_ch s) (c :: s_rbuf s) (s_err s).

(* NumInfo.scanMantissa(base): the loop reads with next(); returns the state and hasDigit.
   [last] is the previously consumed byte (0 initially). *)
Fixpoint scan_mant (base : N) (src : list N) (ch last : N) (rbuf : list N) (err has : bool)
  : st * bool :=
  if digit_val ch <? base then
    let err1 := err || ((last =? c_us) && (ch =? c_us)) in
    let rbuf1 := if ch =? c_us then rbuf else ch :: rbuf in
    let has1 := if ch =? c_us then has else true in
    match src with
    | [] => (mkSt [] 0 rbuf1 (err1 || (ch =? c_us)), has1)
    | c :: r => scan_mant base r c ch (on_read c rbuf1) (err1 || (c =? 0)) has1
    end
  else (mkSt src ch rbuf (err || (last =? c_us)), has).

Definition scan_mantissa (base : N) (s : st) : st * bool :=
  scan_mant base (s_src s) (s_ch s) 0 (s_rbuf s) (s_err s) false.

(* Multiplier: index 1..5 for K M G T P, binary (Ki ...) or decimal *)
Record mult : Type := mkMult { m_idx : N; m_bin : bool }.

Definition mul_index (ch : N) : option N :=
  if ch =? 75 then Some 1        (* K *)
  else if ch =? 77 then Some 2   (* M *)
  else if ch =? 71 then Some 3   (* G *)
  else if ch =? 84 then Some 4   (* T *)
  else if ch =? 80 then Some 5   (* P *)
  else None.

(* mulToRat *)
Definition mult_value (m : mult) : N :=
  if m_bin m then 1024 ^ m_idx m else 1000 ^ m_idx m.

(* what ParseNum leaves in NumInfo *)
Record numinfo : Type := mkInfo {
  i_buf : list N;          (* buf, in order *)
  i_base : N;
  i_mul : option mult;
  i_float : bool }.

(* ---- apd Decimal.setString on buf (alphabet: digits . e + -) ---------- *)

Definition is_digit (c : N) : bool := (48 <=? c) && (c <=? 57).

Fixpoint digits_value (base : N) (l : list N) (acc : N) : N :=
  match l with
  | [] => acc
  | c :: r => digits_value base r (acc * base + digit_val c)
  end.

Fixpoint split_at (c : N) (l : list N) : option (list N * list N) :=
  match l with
  | [] => None
  | x :: r => if x =? c then Some ([], r)
              else match split_at c r with
                   | Some (a, b) => Some (x :: a, b)
                   | None => None
                   end
  end.

(* DNaN: Decimal.SetString returns an error (the decimal is then left in NaN form, or Finite with
   a stale exponent; since NumInfo.decimal returns that error the remains are never observed) *)
Inductive dform := DFin (d : dec) | DNaN.

Definition max_exponent : Z := 100000.

(* strconv.ParseInt(s, 10, 32) *)
Definition parse_int32 (s : list N) : option Z :=
  let '(ng, ds) :=
    match s with
    | c :: r => if c =? c_minus then (true, r) else if c =? c_plus then (false, r) else (false, s)
    | [] => (false, s)
    end in
  match ds with
  | [] => None
  | _ =>
    if forallb is_digit ds then
      let v := Z.of_N (digits_value 10 ds 0) in
      let z := if ng then (- v)%Z else v in
      if ((z <? -2147483648) || (2147483647 <? z))%Z then None else Some z
    else None
  end.

(* Decimal.setExponent(c, unknownNumDigits, 0, xs...) as far as BaseContext reaches:
   None = a SystemOverflow/SystemUnderflow condition, which setString turns into an error
   without condition.  (SetString then rounds at precision 0, i.e. calls setExponent once more
   on the summed exponent; that call can only fail with a condition, leaves the decimal as
   written, and NumInfo.decimal ignores it: e.g. 1.5e-100000.) *)
Definition set_exponent (c : N) (xs : list Z) : option Z :=
  if forallb (fun x => (x <=? max_exponent) && (- max_exponent <=? x))%Z xs then
    let sum := fold_left Z.add xs 0%Z in
    let adj := (sum + Z.of_N (digits c) - 1)%Z in
    if ((max_exponent <? adj) || (adj <? - max_exponent))%Z then None else Some sum
  else None.

Definition starts_with_sign (s : list N) : bool :=
  match s with
  | c :: _ => (c =? c_minus) || (c =? c_plus)
  | [] => false
  end.

Definition set_string (b : list N) : dform :=
  let '(ng, s0) :=
    match b with
    | c :: r => if c =? c_minus then (true, r) else if c =? c_plus then (false, r) else (false, b)
    | [] => (false, b)
    end in
  if starts_with_sign s0 then DNaN
  else
    (* exponent part after the first 'e' *)
    let '(mant, exps1, ok1) :=
      match split_at c_e s0 with
      | Some (m, e) =>
        match parse_int32 e with
        | Some z => (m, [z], true)
        | None => (m, [], false)
        end
      | None => (s0, [], true)
      end in
    if negb ok1 then DNaN
    else
      let '(ds, exps2) :=
        match split_at c_dot mant with
        | Some (a, f) => (a ++ f, exps1 ++ [(- Z.of_nat (length f))%Z])
        | None => (mant, exps1)
        end in
      if negb (forallb is_digit ds) then DNaN
      else
        match ds with
        | [] => DNaN                         (* big.Int.SetString("") fails *)
        | _ =>
          let c := digits_value 10 ds 0 in
          match set_exponent c exps2 with
          | Some e => DFin (mkDec ng c e)
          | None => DNaN                     (* exponent out of range *)
          end
        end.

(* ---- NumInfo.decimal --------------------------------------------------- *)

Inductive lit_result :=
| LErr                       (* an error is returned *)
| LNaN (k : kind)            (* no error, but the decimal is left in NaN form (unreachable since
                                UnmarshalText errors are returned: NumLitProofs.lit_parse_never_nan) *)
| LNum (n : num).

Definition kind_of_float (f : bool) : kind := if f then KFloat else KInt.

(* returns the decimal, or None when an error is returned: apd cannot read the number
   (exponent out of range), or "number cannot be represented as int" *)
Definition decimal_of (i : numinfo) : option dform :=
  if negb (i_base i =? 10) then
    let '(ng, b) :=
      match i_buf i with
      | c :: r => if c =? c_minus then (true, r) else (false, i_buf i)
      | [] => (false, [])
      end in
    Some (DFin (mkDec ng (digits_value (i_base i) b 0) 0))
  else
    (* buf := p.buf; if len(buf) == 0 { buf = "0" };
       if _, cond, err := v.SetString(string(buf)); err != nil && cond == 0 { return an error } *)
    match set_string (match i_buf i with [] => [c_0] | b => b end), i_mul i with
    | DNaN, _ => None
    | DFin v, None => Some (DFin v)
    | DFin v, Some m =>
      let p := dmul v (mkDec false (mult_value m) 0) in
      let '(r, inexact) := to_integral_flag p in
      if inexact then None else Some (DFin r)
    end.

(* ---- NumInfo.scanNumber and ParseNum ----------------------------------- *)

(* label exit *)
Definition sn_exit (s : st) (base : N) (fl : bool) : option (st * N * option mult * bool) :=
  if negb (s_ch s =? 0) then None else Some (s, base, None, fl).

(* label exponent *)
Definition sn_exponent (chk : bool) (s : st) (fl : bool) : option (st * N * option mult * bool) :=
  match mul_index (s_ch s) with
  | Some idx =>
    let s1 := next s in
    let '(s2, bin) := if s_ch s1 =? c_i then (next s1, true) else (s1, false) in
    if negb (s_ch s2 =? 0) then None
    else
      let m := mkMult idx bin in
      (* return p.decimal(&v) on the buffer collected so far *)
      if chk then
        match decimal_of (mkInfo (rev (s_rbuf s2)) 10 (Some m) false) with
        | None => None
        | Some _ => Some (s2, 10, Some m, false)
        end
      else Some (s2, 10, Some m, false)
  | None =>
    if (s_ch s =? c_e) || (s_ch s =? c_E) then
      let s1 := push c_e (next s) in
      let s2 := if (s_ch s1 =? c_minus) || (s_ch s1 =? c_plus) then next (push (s_ch s1) s1) else s1 in
      let '(s3, has) := scan_mantissa 10 s2 in
      if has then sn_exit s3 10 true else None
    else sn_exit s 10 fl
  end.

(* label fraction *)
Definition sn_fraction (chk : bool) (s : st) (fl : bool) : option (st * N * option mult * bool) :=
  if s_ch s =? c_dot then
    let '(s1, _) := scan_mantissa 10 (next s) in
    sn_exponent chk s1 true
  else sn_exponent chk s fl.

Definition sn_based (base : N) (s : st) : option (st * N * option mult * bool) :=
  let '(s1, has) := scan_mantissa base (next s) in
  if has then sn_exit s1 base false else None.

Definition scan_number (chk : bool) (s : st) (seen_point : bool) : option (st * N * option mult * bool) :=
  if seen_point then
    let '(s1, has) := scan_mantissa 10 s in
    if has then sn_exponent chk s1 true else None
  else if s_ch s =? c_0 then
    let s1 := next s in
    if (s_ch s1 =? 120) || (s_ch s1 =? 88) then sn_based 16 s1      (* x X *)
    else if s_ch s1 =? 98 then sn_based 2 s1                         (* b *)
    else if s_ch s1 =? 111 then sn_based 8 s1                        (* o *)
    else
      let '(s2, seen_digits) := scan_mantissa 10 s1 in
      if (s_ch s2 =? c_e) || (s_ch s2 =? c_E) then
        sn_fraction chk (match s_rbuf s2 with [] => push c_0 s2 | _ => s2 end) false
      else if s_ch s2 =? c_dot then sn_fraction chk s2 false
      else if seen_digits then None
      else if negb (s_ch s2 =? 0) then
        match mul_index (s_ch s2) with
        | Some _ => sn_exponent chk s2 false
        | None => None
        end
      else sn_exit s2 10 false
  else
    let '(s1, has) := scan_mantissa 10 s in
    if has then sn_fraction chk s1 false else None.

(* ParseNum: None = error.  [chk] = false skips the "number cannot be represented as
   int" check of the multiplier branch (used by the specification layer only). *)
Definition parse_num_gen (chk : bool) (src : list N) : option numinfo :=
  match src with
  | [] => None
  | _ =>
    let s1 := next (mkSt src 0 [] false) in
    let s2 :=
      if s_ch s1 =? c_minus then next (push c_minus s1)
      else if s_ch s1 =? c_plus then next s1
      else s1 in
    let '(s3, seen) := if s_ch s2 =? c_dot then (next s2, true) else (s2, false) in
    match scan_number chk s3 seen with
    | None => None
    | Some (s4, base, m, fl) =>
      if s_err s4 then None
      else if negb (match s_src s4 with [] => true | _ => false end) then None
      else
        let buf := match s_rbuf s4 with [] => [c_0] | r => rev r end in
        Some (mkInfo buf base m fl)
    end
  end.

Definition parse_num := parse_num_gen true.
Definition parse_num_noerr := parse_num_gen false.

(* compile.go parse(BasicLit): ParseNum, IsInt, Decimal *)
Definition lit_parse (src : list N) : lit_result :=
  match parse_num src with
  | None => LErr
  | Some i =>
    let k := kind_of_float (i_float i) in
    match decimal_of i with
    | None => LErr
    | Some DNaN => LNaN k
    | Some (DFin d) => LNum (mkNum k d)
    end
  end.
