(* C06 - quantize-to-integer (RoundToIntegralValue/Exact) and the integer division builtins. *)
From Coq Require Import NArith ZArith QArith Qabs Bool Lia ZifyN ZifyBool.
From Verif Require Import Num.Decimal Num.IntDiv Num.DigitsProofs Num.DVal Num.RoundProofs Num.ArithProofs.

(* ---- math/big: Div/Mod are Euclidean, Quo/Rem truncate ---- *)
Local Open Scope Z_scope.

Theorem big_div_mod_euclid : forall x y, y <> 0 ->
  x = y * big_div x y + big_mod x y /\ 0 <= big_mod x y < Z.abs y.
Proof.
  intros x y Hy. unfold big_div, big_mod.
  pose proof (Z.quot_rem' x y) as QR. pose proof (Z.rem_bound_abs x y Hy) as RB.
  destruct (Z.ltb_spec (Z.rem x y) 0); destruct (Z.ltb_spec y 0); split; lia.
Qed.

Theorem big_quo_rem_trunc : forall x y, y <> 0 ->
  x = y * big_quo x y + big_rem x y /\ Z.abs (big_rem x y) < Z.abs y /\
  (big_rem x y = 0 \/ Z.sgn (big_rem x y) = Z.sgn x) /\
  Z.abs (y * big_quo x y) <= Z.abs x.
Proof.
  intros x y Hy. unfold big_quo, big_rem.
  pose proof (Z.quot_rem' x y) as QR. pose proof (Z.rem_bound_abs x y Hy) as RB.
  pose proof (Z.rem_sign_mul x y Hy) as RS.
  split; [exact QR|]. split; [exact RB|]. split.
  - destruct (Z.eq_dec (Z.rem x y) 0) as [|NZ]; [left; assumption|right].
    assert (x <> 0) as NX by (intros ->; apply NZ; apply Z.rem_0_l; exact Hy).
    destruct (Z.sgn_spec (Z.rem x y)) as [[A ->]|[[A ->]|[A ->]]];
      destruct (Z.sgn_spec x) as [[B ->]|[[B ->]|[B ->]]]; try reflexivity; try lia; nia.
  - destruct (Z.le_ge_cases 0 x) as [P|P].
    + pose proof (Z.mul_quot_le x y P Hy). lia.
    + pose proof (Z.mul_quot_ge x y P Hy). lia.
Qed.

(* the Euclidean pair is unique: it is the mathematical div/mod of the specification *)
Theorem euclid_unique : forall x y q m q' m',
  x = y * q + m -> 0 <= m < Z.abs y -> x = y * q' + m' -> 0 <= m' < Z.abs y -> q = q' /\ m = m'.
Proof. intros. assert (q = q') by nia. subst. lia. Qed.

(* ---- quantize(x, 0) ---- *)

(* integer value of a decimal with a non-negative exponent *)
Definition ival (d : dec) : Z := sc d * 10 ^ exp d.

Lemma ival_dval : forall d, 0 <= exp d -> (dval d == inject_Z (ival d))%Q.
Proof.
  intros d H. unfold dval, ival. rewrite <- (mkv_shift (sc d) (exp d) (exp d) H).
  replace (exp d - exp d) with 0 by lia. unfold mkv. rewrite p10_0. ring.
Qed.

Lemma to_integral_nonneg_exp : forall x, 0 <= exp x ->
  to_integral_flag x = (mkDec (neg x) (coeff x * pow10 (Z.to_N (exp x))) 0, false).
Proof. intros x H. unfold to_integral_flag. destruct (Z.leb_spec 0 (exp x)); [reflexivity|lia]. Qed.

Lemma int_of_dec_ival : forall d, 0 <= exp d -> int_of_dec d = ival d.
Proof.
  intros d H. unfold int_of_dec, to_integral. rewrite to_integral_nonneg_exp by exact H.
  unfold ival, sc. simpl. rewrite N2Z.inj_mul. unfold pow10. rewrite N2Z.inj_pow, Z2N.id by lia.
  change (Z.of_N 10) with 10. destruct (neg d); lia.
Qed.

Lemma to_integral_exp : forall x, exp (to_integral x) = 0.
Proof.
  intros x. unfold to_integral, to_integral_flag.
  destruct (0 <=? exp x); [reflexivity|].
  destruct (digits (coeff x) <? Z.to_N (- exp x))%N.
  - destruct (coeff x =? 0)%N; reflexivity.
  - destruct (round_coeff _ _) as [[y d2] ix]. reflexivity.
Qed.

(* negative exponent: the coefficient divided by e = 10^-exp, rounded half-up;
   Inexact exactly when the division leaves a remainder *)
Lemma to_integral_neg_exp : forall x, exp x < 0 ->
  let e := pow10 (Z.to_N (- exp x)) in
  let c := coeff x in
  to_integral_flag x =
    (mkDec (neg x) (if (2 * (c mod e) <? e)%N then (c / e)%N else (c / e + 1)%N) 0,
     negb (c mod e =? 0)%N).
Proof.
  intros x H e c. unfold to_integral_flag.
  destruct (Z.leb_spec 0 (exp x)); [lia|].
  set (diff := Z.to_N (- exp x)) in *. fold c.
  assert (0 < diff)%N as Hdiff by (unfold diff; lia).
  assert (0 < e)%N as He by apply pow10_pos.
  destruct (N.ltb_spec (digits c) diff) as [L|L].
  - (* fewer digits than the scale: the quotient is 0 *)
    assert (2 * c < e)%N as C2.
    { pose proof (digits_upper c) as U.
      assert (pow10 (digits c) <= pow10 (diff - 1))%N by (apply pow10_le_mono; lia).
      unfold e. replace diff with ((diff - 1) + 1)%N by lia. rewrite pow10_succ. lia. }
    rewrite (N.mod_small c e) by lia. rewrite (N.div_small c e) by lia.
    destruct (N.ltb_spec (2 * c) e); [|lia].
    destruct (N.eqb_spec c 0); subst; reflexivity.
  - destruct (round_coeff (digits c - diff) c) as [[y d2] ix] eqn:R.
    assert (digits c - diff < digits c)%N as G by (pose proof (digits_pos c); lia).
    destruct (round_coeff_big _ _ _ _ _ G R) as (q & V & D & Q1 & Q2 & IX & _).
    replace (digits c - (digits c - diff))%N with diff in * by lia. fold e in V, Q1, Q2, IX.
    f_equal; [|exact IX]. f_equal.
    assert (q = if (2 * (c mod e) <? e)%N then (c / e)%N else (c / e + 1)%N) as <-.
    { destruct (N.ltb_spec (2 * (c mod e)) e); auto. }
    destruct D as [D|D]; subst d2.
    + destruct (Z.ltb_spec 0 (Z.of_N diff - Z.of_N diff)); [lia|]. fold e in V. nia.
    + destruct (Z.ltb_spec 0 (Z.of_N (diff + 1) - Z.of_N diff)); [|lia].
      rewrite pow10_succ in V. fold e in V. nia.
Qed.

(* ---- intDivOp ---- *)

Lemma sc_dec_of_int : forall z, sc (dec_of_int z) = z /\ exp (dec_of_int z) = 0.
Proof.
  intros z. unfold dec_of_int, sc. destruct (Z.ltb_spec z 0); simpl; split; lia.
Qed.

Lemma ival_zero_iff : forall d, 0 <= exp d -> (ival d = 0 <-> coeff d = 0%N).
Proof.
  intros d H. unfold ival, sc. pose proof (Z.pow_pos_nonneg 10 (exp d) ltac:(lia) H).
  destruct (neg d); split; intros; nia.
Qed.

Theorem int_div_op_spec : forall f a b,
  nk a = KInt -> nk b = KInt -> 0 <= exp (nd a) -> 0 <= exp (nd b) ->
  (ival (nd b) = 0 -> int_div_op f a b = Err) /\
  (ival (nd b) <> 0 ->
     exists r, int_div_op f a b = Ok r /\ nk r = KInt /\ exp (nd r) = 0 /\
               ival (nd r) = big_fn f (ival (nd a)) (ival (nd b))).
Proof.
  intros f a b Ka Kb Ea Eb. unfold int_div_op, int_div_dec, is_zero. rewrite Ka, Kb.
  pose proof (ival_zero_iff (nd b) Eb) as Z.
  destruct (N.eqb_spec (coeff (nd b)) 0) as [C|C]; split; intros H.
  - reflexivity.
  - exfalso. apply H. apply Z. exact C.
  - exfalso. apply C. apply Z. exact H.
  - eexists. split; [reflexivity|]. simpl.
    rewrite !int_of_dec_ival by assumption.
    destruct (sc_dec_of_int (big_fn f (ival (nd a)) (ival (nd b)))) as [S E].
    split; [reflexivity|]. split; [exact E|]. unfold ival at 1. rewrite E, S. simpl. lia.
Qed.

Theorem int_div_kind_error : forall f a b, (nk a = KFloat \/ nk b = KFloat) -> int_div_op f a b = Err.
Proof. intros f a b [H|H]; unfold int_div_op; rewrite H; [|destruct (nk a)]; reflexivity. Qed.

(* div and mod: the Euclidean identity with 0 <= mod < |b| *)
Theorem div_mod_euclid : forall a b,
  nk a = KInt -> nk b = KInt -> 0 <= exp (nd a) -> 0 <= exp (nd b) -> ival (nd b) <> 0 ->
  exists q m, int_div_op FDiv a b = Ok q /\ int_div_op FMod a b = Ok m /\
    nk q = KInt /\ nk m = KInt /\
    ival (nd a) = ival (nd b) * ival (nd q) + ival (nd m) /\
    0 <= ival (nd m) < Z.abs (ival (nd b)).
Proof.
  intros a b Ka Kb Ea Eb NZ.
  destruct (int_div_op_spec FDiv a b Ka Kb Ea Eb) as [_ Hq]. destruct (Hq NZ) as (q & Q1 & Q2 & _ & Q4).
  destruct (int_div_op_spec FMod a b Ka Kb Ea Eb) as [_ Hm]. destruct (Hm NZ) as (m & M1 & M2 & _ & M4).
  exists q, m. repeat (split; [assumption|]). rewrite Q4, M4. simpl.
  apply big_div_mod_euclid. exact NZ.
Qed.

(* quo and rem: truncated division, the remainder has the sign of the dividend *)
Theorem quo_rem_trunc : forall a b,
  nk a = KInt -> nk b = KInt -> 0 <= exp (nd a) -> 0 <= exp (nd b) -> ival (nd b) <> 0 ->
  exists q r, int_div_op FQuo a b = Ok q /\ int_div_op FRem a b = Ok r /\
    nk q = KInt /\ nk r = KInt /\
    ival (nd a) = ival (nd b) * ival (nd q) + ival (nd r) /\
    Z.abs (ival (nd r)) < Z.abs (ival (nd b)) /\
    (ival (nd r) = 0 \/ Z.sgn (ival (nd r)) = Z.sgn (ival (nd a))) /\
    Z.abs (ival (nd b) * ival (nd q)) <= Z.abs (ival (nd a)).
Proof.
  intros a b Ka Kb Ea Eb NZ.
  destruct (int_div_op_spec FQuo a b Ka Kb Ea Eb) as [_ Hq]. destruct (Hq NZ) as (q & Q1 & Q2 & _ & Q4).
  destruct (int_div_op_spec FRem a b Ka Kb Ea Eb) as [_ Hr]. destruct (Hr NZ) as (r & R1 & R2 & _ & R4).
  exists q, r. repeat (split; [assumption|]). rewrite Q4, R4. simpl.
  apply big_quo_rem_trunc. exact NZ.
Qed.

Theorem int_div_zero_error : forall f a b,
  nk a = KInt -> nk b = KInt -> 0 <= exp (nd a) -> 0 <= exp (nd b) -> ival (nd b) = 0 ->
  int_div_op f a b = Err.
Proof. intros f a b Ka Kb Ea Eb Z. apply (int_div_op_spec f a b Ka Kb Ea Eb). exact Z. Qed.
