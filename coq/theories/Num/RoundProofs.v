(* C06 - rounding half-up to p significant digits (apd Rounder.Round, roundAddOne). *)
From Coq Require Import NArith ZArith QArith Qabs Bool Lia ZifyN ZifyBool.
From Verif Require Import Num.Decimal Num.DigitsProofs Num.DVal.
Local Open Scope N_scope.

(* a digit count grows by adding one only at 99..9 *)
Lemma digits_succ_grows : forall y, digits y < digits (y + 1) -> y + 1 = pow10 (digits y).
Proof.
  intros y H. pose proof (digits_upper y) as U.
  destruct (N.eq_dec (y + 1) (pow10 (digits y))) as [|NE]; auto.
  assert (y + 1 < pow10 (digits y)) as L by lia.
  apply (digits_le_iff (y + 1) (digits y) (digits_pos y)) in L. lia.
Qed.

Lemma round_add_one_spec : forall y diff y' diff',
  round_add_one y diff = (y', diff') ->
  y' * pow10 diff' = (y + 1) * pow10 diff /\ (diff' = diff \/ diff' = diff + 1) /\
  digits y' <= digits y.
Proof.
  intros y diff y' diff' H. unfold round_add_one in H.
  destruct (N.ltb_spec (digits y) (digits (y + 1))) as [L|L]; inversion H; subst; clear H.
  - apply digits_succ_grows in L. rewrite L.
    pose proof (digits_pos y) as P.
    assert (pow10 (digits y) = 10 * pow10 (digits y - 1)) as E.
    { rewrite <- pow10_succ. f_equal. lia. }
    rewrite E.
    assert (forall X, 10 * X / 10 = X) as D10 by (intros; rewrite N.mul_comm; apply N.div_mul; lia).
    rewrite D10.
    rewrite pow10_succ. split; [lia|]. split; [lia|].
    destruct (N.eq_dec (digits y) 1) as [E1|NE1].
    + rewrite E1. simpl. reflexivity.
    + rewrite digits_pow10. lia.
  - split; [reflexivity|]. split; [left; reflexivity|]. lia.
Qed.

(* Specification of the coefficient rounding.  With e = 10^(digits c - p):
   the result y*10^d equals q*e where q is c/e rounded half-up. *)
Lemma round_coeff_small : forall p c, digits c <= p -> round_coeff p c = (c, 0, false).
Proof. intros p c H. unfold round_coeff. destruct (N.leb_spec (digits c) p); [reflexivity|lia]. Qed.

Lemma round_coeff_big : forall p c y d ix,
  p < digits c -> round_coeff p c = (y, d, ix) ->
  let d0 := digits c - p in
  let e := pow10 d0 in
  exists q,
    y * pow10 d = q * e /\
    (d = d0 \/ d = d0 + 1) /\
    (2 * (c mod e) < e -> q = c / e) /\
    (e <= 2 * (c mod e) -> q = c / e + 1) /\
    ix = negb (c mod e =? 0) /\
    (1 <= p -> digits y <= p).
Proof.
  intros p c y d ix Hp H d0 e. unfold round_coeff in H.
  destruct (N.leb_spec (digits c) p) as [L|_]; [lia|].
  fold d0 in H. fold e in H.
  assert (0 < e) as He by apply pow10_pos.
  assert (c / e < pow10 p) as Hq.
  { apply N.div_lt_upper_bound; [lia|]. unfold e. rewrite <- pow10_add.
    replace (d0 + p) with (digits c) by lia. apply digits_upper. }
  assert (forall z, 1 <= p -> z < pow10 p -> digits z <= p) as Hdig.
  { intros z P1 Z. apply digits_le_iff; auto. }
  pose proof (N.mod_lt c e ltac:(lia)) as Hm.
  destruct (N.eqb_spec (c mod e) 0) as [M0|M0].
  - inversion H; subst; clear H. exists (c / e). rewrite M0. simpl.
    repeat split; auto; try lia.
  - destruct (N.compare_spec (2 * (c mod e)) e) as [E|Lt|Gt].
    + destruct (round_add_one (c / e) d0) as [y' d'] eqn:R. inversion H; subst; clear H.
      apply round_add_one_spec in R. destruct R as (V & D & G).
      exists (c / e + 1). repeat split; auto; try lia.
      intros P1. specialize (Hdig (c / e) P1 Hq). lia.
    + inversion H; subst; clear H. exists (c / e). repeat split; auto; try lia.
    + destruct (round_add_one (c / e) d0) as [y' d'] eqn:R. inversion H; subst; clear H.
      apply round_add_one_spec in R. destruct R as (V & D & G).
      exists (c / e + 1). repeat split; auto; try lia.
      intros P1. specialize (Hdig (c / e) P1 Hq). lia.
Qed.

(* the error of the rounded coefficient, as integers *)
Lemma round_coeff_error : forall p c y d ix,
  p < digits c -> round_coeff p c = (y, d, ix) ->
  let e := pow10 (digits c - p) in
  let Y := y * pow10 d in
  (Y <= c -> 2 * (c - Y) < e) /\ (c <= Y -> 2 * (Y - c) <= e) /\
  (ix = false <-> Y = c) /\
  (exists q, Y = q * e).
Proof.
  intros p c y d ix Hp H e Y.
  destruct (round_coeff_big p c y d ix Hp H) as (q & V & D & Q1 & Q2 & IX & _).
  fold e in V, Q1, Q2, IX. fold Y in V.
  assert (0 < e) as He by apply pow10_pos.
  pose proof (N.div_mod c e ltac:(lia)) as DM.
  pose proof (N.mod_lt c e ltac:(lia)) as Hm.
  assert (ix = false <-> c mod e = 0) as IXF.
  { subst ix. destruct (N.eqb_spec (c mod e) 0); simpl; split; intros; congruence. }
  destruct (N.lt_ge_cases (2 * (c mod e)) e) as [A|A].
  - specialize (Q1 A). subst q.
    split; [intros; nia|]. split; [intros; nia|]. split.
    + rewrite IXF. split; intros; nia.
    + exists (c / e). assumption.
  - specialize (Q2 A). subst q.
    split; [intros; nia|]. split; [intros; nia|]. split.
    + rewrite IXF. split; intros; nia.
    + exists (c / e + 1). assumption.
Qed.

(* ------------------------------------------------------------------ *)
(* decimals *)
Local Open Scope Q_scope.

Definition sg (b : bool) (z : Z) : Z := if b then (- z)%Z else z.

Lemma sc_sg : forall d, sc d = sg (neg d) (Z.of_N (coeff d)).
Proof. reflexivity. Qed.

Lemma sg_sub : forall b x y, (sg b x - sg b y)%Z = sg b (x - y).
Proof. intros. destruct b; simpl; lia. Qed.

Lemma sg_abs : forall b x, Z.abs (sg b x) = Z.abs x.
Proof. intros. destruct b; simpl; lia. Qed.

Lemma sg_mul : forall b x k, (sg b x * k)%Z = sg b (x * k).
Proof. intros. destruct b; simpl; lia. Qed.

Lemma mkv_one : forall e, mkv 1 e == p10 e.
Proof. intros. unfold mkv. ring. Qed.

Lemma mkv_pow : forall n e, mkv (Z.of_N (pow10 n)) e == p10 (e + Z.of_N n).
Proof.
  intros. rewrite <- mkv_one. rewrite mkv_shift' by lia.
  unfold pow10. rewrite N2Z.inj_pow. rewrite Z.mul_1_l. reflexivity.
Qed.

Lemma dec_eta : forall d, mkDec (neg d) (coeff d) (exp d) = d.
Proof. destruct d; reflexivity. Qed.

Lemma round_unfold : forall p d y dd ix,
  round_coeff p (coeff d) = (y, dd, ix) ->
  round p d = mkDec (neg d) y (exp d + Z.of_N dd) /\ snd (round_flag p d) = ix.
Proof. intros. unfold round, round_flag. rewrite H. split; reflexivity. Qed.

Lemma round_neg : forall p d, neg (round p d) = neg d.
Proof.
  intros. destruct (round_coeff p (coeff d)) as [[y dd] ix] eqn:R.
  destruct (round_unfold _ _ _ _ _ R) as [-> _]. reflexivity.
Qed.

Lemma round_small : forall p d, (digits (coeff d) <= p)%N -> round p d = d.
Proof.
  intros p d H. pose proof (round_coeff_small p (coeff d) H) as R.
  destruct (round_unfold _ _ _ _ _ R) as [-> _].
  replace (exp d + Z.of_N 0)%Z with (exp d) by lia. apply dec_eta.
Qed.

Lemma round_small_flag : forall p d, (digits (coeff d) <= p)%N -> snd (round_flag p d) = false.
Proof.
  intros p d H. pose proof (round_coeff_small p (coeff d) H) as R.
  destruct (round_unfold _ _ _ _ _ R) as [_ ->]. reflexivity.
Qed.

Lemma round_digits : forall p d, (1 <= p)%N -> (digits (coeff (round p d)) <= p)%N.
Proof.
  intros p d Hp. destruct (N.le_gt_cases (digits (coeff d)) p) as [L|G].
  - rewrite round_small; assumption.
  - destruct (round_coeff p (coeff d)) as [[y dd] ix] eqn:R.
    destruct (round_unfold _ _ _ _ _ R) as [-> _]. simpl.
    destruct (round_coeff_big _ _ _ _ _ G R) as (q & _ & _ & _ & _ & _ & D). auto.
Qed.

(* value of the rounded decimal at the exponent of the input *)
Lemma round_val : forall p d y dd ix,
  round_coeff p (coeff d) = (y, dd, ix) ->
  dval (round p d) == mkv (sg (neg d) (Z.of_N (y * pow10 dd))) (exp d).
Proof.
  intros p d y dd ix R. destruct (round_unfold _ _ _ _ _ R) as [-> _].
  unfold dval. rewrite sc_sg. simpl.
  rewrite mkv_shift' by lia. rewrite sg_mul.
  rewrite N2Z.inj_mul. unfold pow10. rewrite N2Z.inj_pow. reflexivity.
Qed.

Lemma round_diff : forall p d y dd ix,
  round_coeff p (coeff d) = (y, dd, ix) ->
  Qabs (dval (round p d) - dval d) == mkv (Z.abs (Z.of_N (y * pow10 dd) - Z.of_N (coeff d))) (exp d).
Proof.
  intros p d y dd ix R. rewrite (round_val _ _ _ _ _ R).
  unfold dval at 1. rewrite sc_sg. rewrite mkv_sub, sg_sub, mkv_abs, sg_abs. reflexivity.
Qed.

(* the unit in the last place kept when rounding d to p digits *)
Definition ulp (p : N) (d : dec) : Q := p10 (exp d + Z.of_N (digits (coeff d) - p)).

Theorem round_error : forall p d, (p < digits (coeff d))%N ->
  2 * Qabs (dval (round p d) - dval d) <= ulp p d.
Proof.
  intros p d G. destruct (round_coeff p (coeff d)) as [[y dd] ix] eqn:R.
  rewrite (round_diff _ _ _ _ _ R). unfold ulp. rewrite <- mkv_pow.
  change 2 with (inject_Z 2). rewrite mkv_scale. apply mkv_le.
  destruct (round_coeff_error _ _ _ _ _ G R) as (A & B & _ & _).
  destruct (N.le_ge_cases (y * pow10 dd) (coeff d)) as [L|L].
  - specialize (A L). lia.
  - specialize (B L). lia.
Qed.

Theorem round_multiple : forall p d, (p < digits (coeff d))%N ->
  exists k : Z, dval (round p d) == inject_Z k * ulp p d.
Proof.
  intros p d G. destruct (round_coeff p (coeff d)) as [[y dd] ix] eqn:R.
  destruct (round_coeff_error _ _ _ _ _ G R) as (_ & _ & _ & (q & Q)).
  exists (sg (neg d) (Z.of_N q)).
  rewrite (round_val _ _ _ _ _ R). rewrite Q. unfold ulp.
  rewrite <- mkv_pow, mkv_scale. apply mkv_eq.
  rewrite N2Z.inj_mul. destruct (neg d); simpl; lia.
Qed.

Theorem round_tie_away : forall p d, (p < digits (coeff d))%N ->
  2 * Qabs (dval (round p d) - dval d) == ulp p d -> Qabs (dval d) < Qabs (dval (round p d)).
Proof.
  intros p d G. destruct (round_coeff p (coeff d)) as [[y dd] ix] eqn:R.
  rewrite (round_diff _ _ _ _ _ R). unfold ulp. rewrite <- mkv_pow.
  change 2 with (inject_Z 2). rewrite mkv_scale. intros E. apply mkv_eq in E.
  rewrite (round_val _ _ _ _ _ R), dval_abs, mkv_abs, sg_abs. apply mkv_lt.
  destruct (round_coeff_error _ _ _ _ _ G R) as (A & B & _ & _).
  destruct (N.le_ge_cases (y * pow10 dd) (coeff d)) as [L|L].
  - specialize (A L). lia.
  - specialize (B L). pose proof (pow10_pos (digits (coeff d) - p)). lia.
Qed.

Theorem round_exact_iff : forall p d,
  snd (round_flag p d) = false <-> dval (round p d) == dval d.
Proof.
  intros p d. destruct (N.le_gt_cases (digits (coeff d)) p) as [L|G].
  - rewrite round_small_flag, round_small by assumption. split; reflexivity.
  - destruct (round_coeff p (coeff d)) as [[y dd] ix] eqn:R.
    destruct (round_unfold _ _ _ _ _ R) as [_ ->].
    destruct (round_coeff_error _ _ _ _ _ G R) as (_ & _ & IX & _). rewrite IX.
    rewrite (round_val _ _ _ _ _ R). unfold dval. rewrite sc_sg. rewrite <- mkv_eq.
    destruct (neg d); simpl; split; intros; lia.
Qed.

(* relative error: at most half a unit of the p-th significant digit *)
Theorem round_relative : forall p d, (1 <= p)%N ->
  2 * Qabs (dval (round p d) - dval d) * p10 (Z.of_N p - 1) <= Qabs (dval d).
Proof.
  intros p d Hp. destruct (N.le_gt_cases (digits (coeff d)) p) as [L|G].
  - rewrite round_small by assumption.
    assert (Qabs (dval d - dval d) == 0) as ->.
    { setoid_replace (dval d - dval d) with 0 by ring. reflexivity. }
    rewrite Qmult_0_r, Qmult_0_l. apply Qabs_nonneg.
  - apply Qle_trans with (ulp p d * p10 (Z.of_N p - 1)).
    + apply Qmult_le_compat_r. apply round_error; assumption. apply Qlt_le_weak, p10_pos.
    + unfold ulp. rewrite <- p10_add. rewrite dval_abs.
      replace (exp d + Z.of_N (digits (coeff d) - p) + (Z.of_N p - 1))%Z
        with (exp d + Z.of_N (digits (coeff d) - 1))%Z by lia.
      rewrite <- mkv_pow. apply mkv_le.
      assert (0 < coeff d)%N.
      { destruct (N.eq_dec (coeff d) 0) as [E|]; [|lia]. rewrite E, digits_0 in G. lia. }
      pose proof (digits_lower _ H). lia.
Qed.
