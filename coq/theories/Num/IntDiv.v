(* C06 - model of the integer division builtins div, mod, quo, rem:
     /repo/internal/core/compile/builtin.go  divBuiltin ... remBuiltin (both parameters `int`)
     /repo/internal/core/adt/decimal.go      intDivOp, OpContext.IntDiv/IntMod/IntQuo/IntRem
     math/big (through apd.BigInt)           Int.Div, Int.Mod (Euclidean), Int.Quo, Int.Rem (truncated)
   No proofs in this file. *)
From Coq Require Import NArith ZArith Bool.
From Verif Require Import Num.Decimal.
Local Open Scope Z_scope.

Inductive idiv_fn := FDiv | FMod | FQuo | FRem.

(* big.Int.Quo / big.Int.Rem : T-division (Go's / and %) *)
Definition big_quo (x y : Z) : Z := Z.quot x y.
Definition big_rem (x y : Z) : Z := Z.rem x y.

(* big.Int.Div:  z.QuoRem(x, y, &m); if m < 0 { if y < 0 { z++ } else { z-- } } *)
Definition big_div (x y : Z) : Z :=
  let q := Z.quot x y in
  let m := Z.rem x y in
  if m <? 0 then (if y <? 0 then q + 1 else q - 1) else q.

(* big.Int.Mod:  z.Rem(x, y); if z < 0 { if y < 0 { z -= y } else { z += y } } *)
Definition big_mod (x y : Z) : Z :=
  let m := Z.rem x y in
  if m <? 0 then (if y <? 0 then m - y else m + y) else m.

Definition big_fn (f : idiv_fn) : Z -> Z -> Z :=
  match f with FDiv => big_div | FMod => big_mod | FQuo => big_quo | FRem => big_rem end.

(* x.Coeff after RoundToIntegralValue, negated when x.Negative *)
Definition int_of_dec (d : dec) : Z :=
  let r := to_integral d in
  if neg r then - Z.of_N (coeff r) else Z.of_N (coeff r).

(* d.Coeff := fn(..); if d.Coeff.Sign() < 0 { negate; d.Negative = true } ; exponent 0 *)
Definition dec_of_int (z : Z) : dec :=
  if z <? 0 then mkDec true (Z.to_N (- z)) 0 else mkDec false (Z.to_N z) 0.

(* intDivOp on the decimals *)
Definition int_div_dec (f : idiv_fn) (a b : dec) : result dec :=
  if is_zero b then Err
  else Ok (dec_of_int (big_fn f (int_of_dec a) (int_of_dec b))).

(* the builtin: both arguments must be of kind int (adt.Param intParam) *)
Definition int_div_op (f : idiv_fn) (a b : num) : result num :=
  match nk a, nk b with
  | KInt, KInt =>
    match int_div_dec f (nd a) (nd b) with
    | Ok d => Ok (mkNum KInt d)
    | Err => Err
    end
  | _, _ => Err
  end.
