(* C06 - executable model of number OUTPUT:

     apd/format.go   Decimal.Append(buf, 'G') (= String() = Text('G'); used by
                     cue/types.go appendJSON / MarshalJSON), fmtE, fmtF, the
                     zero-with-negative-exponent padding (lowestZeroNegativeCoefficientCockroach)
     /repo/internal/core/export/value.go  exporter.num for a computed value (no original
                     literal to reproduce): X.String(), and "." appended to a float whose
                     text has none of "eE."

   Texts are byte lists (list N), as in NumLit.v.  No proofs in this file. *)
From Coq Require Import NArith ZArith Bool List.
From Verif Require Import Num.Decimal Num.NumLit.
Import ListNotations.
Local Open Scope N_scope.

(* big.Int.Append(_, 10): decimal digits, most significant first; "0" for 0.
   fuel: the bit size bounds the number of decimal digits *)
Fixpoint dec_digits_aux (fuel : nat) (n : N) (acc : list N) : list N :=
  match fuel with
  | O => acc
  | S f => if n <? 10 then (48 + n) :: acc
           else dec_digits_aux f (n / 10) ((48 + n mod 10) :: acc)
  end.

Definition dec_digits (n : N) : list N := dec_digits_aux (S (N.to_nat (N.size n))) n [].

Definition zeros (k : Z) : list N := repeat 48 (Z.to_nat k).
Definition zlen (l : list N) : Z := Z.of_nat (length l).

(* %e: d.ddddE±d *)
Definition fmt_e (d : dec) (ds : list N) : list N :=
  let adj := (exp d + zlen ds - 1)%Z in
  match ds with
  | [] => []
  | d0 :: rest =>
    d0 :: (match rest with [] => [] | _ => 46 :: rest end)
       ++ [69] ++ [if (adj <? 0)%Z then 45 else 43] ++ dec_digits (Z.abs_N adj)
  end.

(* %f: ddddddd.ddddd *)
Definition fmt_f (d : dec) (ds : list N) : list N :=
  if (exp d <? 0)%Z then
    let left := (- exp d - zlen ds)%Z in
    if (0 <=? left)%Z then [48; 46] ++ zeros left ++ ds
    else
      let offset := Z.to_nat (- left) in
      firstn offset ds ++ [46] ++ skipn offset ds
  else ds ++ zeros (exp d).

(* Decimal.Append(buf, 'G') for the Finite form *)
Definition format_g (d : dec) : list N :=
  let ds := dec_digits (coeff d) in
  let digit_len :=
    if (coeff d =? 0) && (-2000 <=? exp d)%Z && (exp d <? 0)%Z then (zlen ds - exp d)%Z
    else zlen ds in
  let adj := (exp d + (digit_len - 1))%Z in
  (if neg d then [45] else []) ++
  (if (exp d <=? 0)%Z && (-6 <=? adj)%Z then fmt_f d ds else fmt_e d ds).

(* strings.ContainsAny(s, "eE.") *)
Definition has_float_mark (s : list N) : bool :=
  existsb (fun c => (c =? 101) || (c =? 69) || (c =? 46)) s.

(* exporter.num *)
Definition export_num (n : num) : list N :=
  let s := format_g (nd n) in
  match nk n with
  | KFloat => if has_float_mark s then s else s ++ [46]
  | KInt => s
  end.

(* Reading the exported text back: CUE source "-text" is a unary minus applied to the
   literal, so the literal proper is the text without the sign.  The re-read number is
   THE SAME when kind, coefficient and exponent agree (the sign of a zero is dropped by
   the unary minus; a zero is a zero). *)
Definition unsigned_text (s : list N) : list N :=
  match s with 45 :: r => r | _ => s end.

Definition reread_same (n : num) : bool :=
  match lit_parse (unsigned_text (export_num n)) with
  | LNum x => kind_eqb (nk x) (nk n) && (coeff (nd x) =? coeff (nd n)) && (exp (nd x) =? exp (nd n))%Z
              && negb (neg (nd x))
  | _ => false
  end.
