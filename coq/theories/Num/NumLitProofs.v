(* C06 - number literals: witnesses of the deviations from the specified value, and
   (below) correctness of the scanner on the spellings of the grammar. *)
From Coq Require Import NArith ZArith QArith Qabs List Bool Lia ZifyN ZifyBool.
From Verif Require Import Num.Decimal Num.NumLit Num.NumLitSpec Num.DigitsProofs Num.DVal
     Num.RoundProofs Num.ArithProofs Num.IntDivProofs.
Import ListNotations.
Local Open Scope N_scope.

(* ---- F5: "1000000000000000000000000000000000.001K" = 10^36 + 1 is read as 10^36 ---- *)
Definition f5_witness : list N := 49 :: repeat 48 33 ++ [46; 48; 48; 49; 75].

Lemma mult_literal_exact_refuted :
  exists src i n s,
    parse_num src = Some i /\ lit_parse src = LNum n /\ lit_exact i = Some s /\
    nk n = KInt /\ nk s = KInt /\
    (dval (nd s) == inject_Z (10 ^ 36 + 1))%Q /\ (dval (nd n) == inject_Z (10 ^ 36))%Q.
Proof.
  exists f5_witness.
  exists (mkInfo (49 :: repeat 48 33 ++ [46; 48; 48; 49]) 10 (Some (mkMult 1 false)) false).
  exists (mkNum KInt (mkDec false (10 ^ 36) 0)), (mkNum KInt (mkDec false (10 ^ 36 + 1) 0)).
  split; [vm_compute; reflexivity|]. split; [vm_compute; reflexivity|].
  split; [vm_compute; reflexivity|]. split; [reflexivity|]. split; [reflexivity|].
  split; apply Qeq_alt; vm_compute; reflexivity.
Qed.

(* ---- "1.3Ki": the specification says trunc(1331.2) = 1331, ParseNum rejects ---- *)
Definition f8_witness : list N := [49; 46; 51; 75; 105].

Lemma mult_literal_truncation_refuted :
  exists src i,
    lit_parse src = LErr /\ parse_num_noerr src = Some i /\
    lit_exact i = Some (mkNum KInt (mkDec false 1331 0)).
Proof.
  exists f8_witness, (mkInfo [49; 46; 51] 10 (Some (mkMult 1 true)) false).
  split; [vm_compute; reflexivity|]. split; vm_compute; reflexivity.
Qed.

(* ---- exponents apd cannot represent are rejected (fix of finding F9: the error of
        UnmarshalText is returned; before, "1e100001" silently denoted 1 and "1e2147483648"
        left a NaN decimal) ---- *)
Definition f9_witness : list N := [49; 101; 49; 48; 48; 48; 48; 49].
Definition f9_witness_neg : list N := [49; 101; 45; 52; 48; 48; 48; 48; 48].
Definition f9_witness_nan : list N := [49; 101; 50; 49; 52; 55; 52; 56; 51; 54; 52; 56].

Lemma literal_exponent_range_rejected :
  lit_parse f9_witness = LErr /\ lit_parse f9_witness_neg = LErr /\ lit_parse f9_witness_nan = LErr /\
  (* the largest accepted exponent: 1e100000 *)
  lit_parse [49; 101; 49; 48; 48; 48; 48; 48] = LNum (mkNum KFloat (mkDec false 1 100000)) /\
  (* and the specification layer sees no deviation *)
  classify f9_witness = LcSame /\ classify f9_witness_nan = LcSame.
Proof. repeat split; vm_compute; reflexivity. Qed.

(* no literal leaves a NaN decimal behind any more *)
Lemma decimal_of_never_nan : forall i, decimal_of i <> Some DNaN.
Proof.
  intros i. unfold decimal_of. destruct (negb (i_base i =? 10)).
  - destruct (i_buf i) as [|c r]; [discriminate|]. destruct (c =? c_minus); discriminate.
  - destruct (set_string _) as [v|]; [|discriminate].
    destruct (i_mul i); [|discriminate].
    destruct (to_integral_flag _) as [r [|]]; discriminate.
Qed.

Lemma lit_parse_never_nan : forall src k, lit_parse src <> LNaN k.
Proof.
  intros src k. unfold lit_parse. destruct (parse_num src) as [i|]; [|discriminate].
  pose proof (decimal_of_never_nan i) as H.
  destruct (decimal_of i) as [[d|]|]; try discriminate. contradiction.
Qed.

(* ---- the multiplier branch of NumInfo.decimal ---- *)

(* the check made inside scanNumber never disagrees with the final conversion *)
Lemma parse_num_noerr_of_parse_num : forall src i, parse_num src = Some i -> parse_num_noerr src = Some i.
Proof.
  intros src i. unfold parse_num, parse_num_noerr, parse_num_gen.
  destruct src as [|c0 src]; [discriminate|].
  set (s1 := next _).
  set (s2 := if s_ch s1 =? c_minus then _ else _).
  destruct (if s_ch s2 =? c_dot then (next s2, true) else (s2, false)) as [s3 seen].
  assert (forall o, scan_number true s3 seen = Some o -> scan_number false s3 seen = Some o) as H.
  { assert (forall s fl o, sn_exponent true s fl = Some o -> sn_exponent false s fl = Some o) as HE.
    { intros s fl o. unfold sn_exponent. destruct (mul_index (s_ch s)); [|auto].
      destruct (if s_ch (next s) =? c_i then _ else _) as [s2' bin].
      destruct (negb (s_ch s2' =? 0)); [auto|].
      destruct (decimal_of _); [auto|discriminate]. }
    assert (forall s fl o, sn_fraction true s fl = Some o -> sn_fraction false s fl = Some o) as HF.
    { intros s fl o. unfold sn_fraction. destruct (s_ch s =? c_dot).
      - destruct (scan_mantissa 10 (next s)). apply HE.
      - apply HE. }
    intros o. unfold scan_number. destruct seen.
    - destruct (scan_mantissa 10 s3) as [s1' has]. destruct has; [apply HE|auto].
    - destruct (s_ch s3 =? c_0).
      + destruct ((s_ch (next s3) =? 120) || (s_ch (next s3) =? 88)); [auto|].
        destruct (s_ch (next s3) =? 98); [auto|]. destruct (s_ch (next s3) =? 111); [auto|].
        destruct (scan_mantissa 10 (next s3)) as [s2' sd].
        destruct ((s_ch s2' =? c_e) || (s_ch s2' =? c_E)); [apply HF|].
        destruct (s_ch s2' =? c_dot); [apply HF|]. destruct sd; [auto|].
        destruct (negb (s_ch s2' =? 0)); [|auto]. destruct (mul_index (s_ch s2')); [apply HE|auto].
      + destruct (scan_mantissa 10 s3) as [s1' has]. destruct has; [apply HF|auto]. }
  destruct (scan_number true s3 seen) as [o|] eqn:S; [|discriminate].
  rewrite (H o eq_refl). auto.
Qed.
