(* C06 - executable model of the decimal arithmetic CUE performs through
   github.com/cockroachdb/apd/v3 (Finite form only) with
   internal.BaseContext = apd.BaseContext.WithPrecision(34), rounding half-up.

   Follows, function by function:
     apd/decimal.go   NumDigits, upscale, Cmp, Neg, Reduce, Modf-free part of setExponent
     apd/round.go     Rounder.Round (RoundHalfUp), roundAddOne
     apd/context.go   add (Add/Sub), Mul, Quo, quantize/toIntegral
                      (RoundToIntegralValue / RoundToIntegralExact)
     /repo/internal/internal.go          Context.Quo = apd Quo ; reduceKeepingFloats
     /repo/internal/core/adt/decimal.go  numOp (kind of the result, error on a zero divisor),
                                         OpContext.Add/Sub/Mul/Quo
     /repo/internal/core/adt/binop.go    cmpTonode (the six comparison operators)
     /repo/internal/core/adt/expr.go     UnaryExpr.evaluate for '-' (Decimal.Neg)

   Not modelled: NaN/Infinite forms and the exponent limits of apd
   (|adjusted exponent| > 100000 gives an Overflow/Underflow error); the
   correspondence check keeps operands far inside these limits.
   No proofs in this file. *)
From Coq Require Import NArith ZArith Bool List.
Import ListNotations.
Local Open Scope N_scope.

(* apd.Decimal{Form: Finite, Negative, Coeff, Exponent} *)
Record dec : Type := mkDec { neg : bool; coeff : N; exp : Z }.

(* adt.Kind restricted to the two concrete number kinds *)
Inductive kind : Type := KInt | KFloat.

(* adt.Num *)
Record num : Type := mkNum { nk : kind; nd : dec }.

Definition kind_eqb (a b : kind) : bool :=
  match a, b with KInt, KInt | KFloat, KFloat => true | _, _ => false end.

Definition pow10 (n : N) : N := 10 ^ n.

(* apd.NumDigits: the number of decimal digits of the coefficient; 1 for 0.
   (apd computes it from the bit length and one comparison against a power of
   ten; the model is the mathematical digit count.) *)
Fixpoint digits_loop (fuel : nat) (n pw k : N) : N :=
  match fuel with
  | O => k
  | S f => if n <? pw then k else digits_loop f n (pw * 10) (k + 1)
  end.

Definition digits (n : N) : N := digits_loop (N.to_nat (N.size n)) n 10 1.

Definition is_zero (d : dec) : bool := coeff d =? 0.

(* Decimal.Sign *)
Definition sign (d : dec) : Z :=
  if coeff d =? 0 then 0%Z else if neg d then (-1)%Z else 1%Z.

(* ------------------------------------------------------------------ *)
(* round.go: Rounder.Round with RoundHalfUp at precision p.
   Returns the rounded decimal and the Inexact condition bit.          *)

(* roundAddOne *)
Definition round_add_one (y diff : N) : N * N :=
  let y' := y + 1 in
  if digits y <? digits y' then (y' / 10, diff + 1) else (y', diff).

Definition round_coeff (p c : N) : N * N * bool :=
  let n := digits c in
  if n <=? p then (c, 0, false)
  else
    let diff := n - p in
    let e := pow10 diff in
    let y := c / e in
    let m := c mod e in
    if m =? 0 then (y, diff, false)
    else
      (* discard.Cmp(decimalHalf): m * 10^-diff against 0.5 ; half-up adds one on >= *)
      match (2 * m) ?= e with
      | Lt => (y, diff, true)
      | _ => let '(y', diff') := round_add_one y diff in (y', diff', true)
      end.

Definition round_flag (p : N) (d : dec) : dec * bool :=
  let '(y, diff, inexact) := round_coeff p (coeff d) in
  (mkDec (neg d) y (exp d + Z.of_N diff), inexact).

Definition round (p : N) (d : dec) : dec := fst (round_flag p d).

Definition prec : N := 34.
Definition round34 (d : dec) : dec := round prec d.

(* ------------------------------------------------------------------ *)
(* context.go: add (Add and Sub), before the final c.round             *)

(* upscale: both coefficients at the smaller exponent *)
Definition upscale (a b : dec) : N * N * Z :=
  match (exp a ?= exp b)%Z with
  | Eq => (coeff a, coeff b, exp a)
  | Lt => (coeff a, coeff b * pow10 (Z.to_N (exp b - exp a)), exp a)
  | Gt => (coeff a * pow10 (Z.to_N (exp a - exp b)), coeff b, exp b)
  end.

Definition add_exact_gen (subtract : bool) (x y : dec) : dec :=
  let xn := neg x in
  let yn := xorb (neg y) subtract in
  let '(a, b, s) := upscale x y in
  if Bool.eqb xn yn then mkDec xn (a + b) s
  else
    match a ?= b with
    | Gt => mkDec xn (a - b) s
    | Lt => mkDec (negb xn) (b - a) s
    | Eq => mkDec false 0 s          (* Negative = (Rounding == RoundFloor) = false *)
    end.

Definition add_exact := add_exact_gen false.
Definition sub_exact := add_exact_gen true.

(* Mul before the final c.round *)
Definition mul_exact (x y : dec) : dec :=
  mkDec (xorb (neg x) (neg y)) (coeff x * coeff y) (exp x + exp y).

(* internal.BaseContext.Add / Sub / Mul *)
Definition dadd (x y : dec) : dec := round34 (add_exact x y).
Definition dsub (x y : dec) : dec := round34 (sub_exact x y).
Definition dmul (x y : dec) : dec := round34 (mul_exact x y).

(* Decimal.Neg *)
Definition dneg (x : dec) : dec :=
  if is_zero x then mkDec false (coeff x) (exp x) else mkDec (negb (neg x)) (coeff x) (exp x).

(* ------------------------------------------------------------------ *)
(* Decimal.Reduce and internal.reduceKeepingFloats                     *)

(* strip trailing zeros of a non-zero coefficient; fuel = number of digits *)
Fixpoint strip_zeros (fuel : nat) (c : N) (k : N) : N * N :=
  match fuel with
  | O => (c, k)
  | S f => if c mod 10 =? 0 then strip_zeros f (c / 10) (k + 1) else (c, k)
  end.

Definition reduce (x : dec) : dec :=
  if coeff x =? 0 then mkDec false 0 0      (* d.SetInt64(0) *)
  else
    let '(c, k) := strip_zeros (N.to_nat (digits (coeff x))) (coeff x) 0 in
    mkDec (neg x) c (exp x + Z.of_N k).

Definition reduce_keeping_floats (x : dec) : dec :=
  let r := reduce x in
  if ((exp x <? 0) && (0 <=? exp r))%Z then mkDec (neg r) (coeff r * 10) (exp r - 1)
  else r.

(* ------------------------------------------------------------------ *)
(* context.go: Quo at precision p (y <> 0); the zero-divisor specials are in num_quo *)

Definition quo_raw (p : N) (x y : dec) : dec :=
  let ng := xorb (neg x) (neg y) in
  let shift := (exp x - exp y)%Z in
  if coeff x =? 0 then mkDec ng 0 shift
  else
    let ndx := digits (coeff x) in
    let ndy := digits (coeff y) in
    (* make both coefficients the same number of digits *)
    let dividend := if ndx <? ndy then coeff x * pow10 (ndy - ndx) else coeff x in
    let divisor := if ndy <? ndx then coeff y * pow10 (ndx - ndy) else coeff y in
    let adj0 := (Z.of_N ndy - Z.of_N ndx)%Z in              (* adjCoeffs = -ndDiff *)
    let '(dividend1, adj) :=
      if dividend <? divisor then (dividend * 10, (adj0 + 1)%Z) else (dividend, adj0) in
    let adjexp := p - 1 in
    let dividend2 := dividend1 * pow10 adjexp in
    let q := dividend2 / divisor in
    let r := dividend2 mod divisor in
    (* if rem != 0 { half := (2*rem).Cmp(divisor); RoundHalfUp adds one when half >= 0 };
       a zero remainder compares Lt as well *)
    let q' := match (2 * r) ?= divisor with Lt => q | _ => q + 1 end in
    mkDec ng q' (shift - adj - Z.of_N adjexp).

(* internal.Context.Quo *)
Definition dquo (x y : dec) : dec := reduce_keeping_floats (quo_raw prec x y).

(* ------------------------------------------------------------------ *)
(* Decimal.Cmp, branch by branch                                       *)

Definition flip (ng : bool) (c : comparison) : comparison := if ng then CompOpp c else c.

Definition dcmp (d x : dec) : comparison :=
  let ds := sign d in
  let xs := sign x in
  match (ds ?= xs)%Z with
  | Lt => Lt
  | Gt => Gt
  | Eq =>
    if (ds =? 0)%Z then Eq
    else
      let ng := (ds <? 0)%Z in
      if (exp d =? exp x)%Z then flip ng (coeff d ?= coeff x)
      else
        let dn := (Z.of_N (digits (coeff d)) + exp d)%Z in
        let xn := (Z.of_N (digits (coeff x)) + exp x)%Z in
        match (dn ?= xn)%Z with
        | Lt => flip ng Lt
        | Gt => flip ng Gt
        | Eq =>
          if (exp d <? exp x)%Z
          then flip ng (coeff d ?= coeff x * pow10 (Z.to_N (exp x - exp d)))
          else flip ng (coeff d * pow10 (Z.to_N (exp d - exp x)) ?= coeff x)
        end
  end.

(* ------------------------------------------------------------------ *)
(* context.go: quantize(d, x, 0) = toIntegral; returns the Inexact bit  *)

Definition to_integral_flag (x : dec) : dec * bool :=
  if (0 <=? exp x)%Z then
    (* diff <= 0: multiply the coefficient, exact *)
    (mkDec (neg x) (coeff x * pow10 (Z.to_N (exp x))) 0, false)
  else
    let diff := Z.to_N (- exp x) in
    let n := digits (coeff x) in
    if n <? diff then
      if coeff x =? 0 then (mkDec (neg x) 0 0, false) else (mkDec (neg x) 0 0, true)
    else
      let '(y, d2, inexact) := round_coeff (n - diff) (coeff x) in
      (* d.Exponent = -diff; after Round the exponent is -diff + d2, either 0 or 1 (rollover) *)
      let c := if (0 <? Z.of_N d2 - Z.of_N diff)%Z then y * 10 else y in
      (mkDec (neg x) c 0, inexact).

Definition to_integral (x : dec) : dec := fst (to_integral_flag x).

(* ------------------------------------------------------------------ *)
(* adt/decimal.go numOp and binop.go                                   *)

Inductive result (A : Type) : Type := Ok (a : A) | Err.
Arguments Ok {A} a.
Arguments Err {A}.

(* k := x.Kind() & y.Kind(); if k == 0 { k = FloatKind } *)
Definition res_kind (a b : kind) : kind :=
  match a, b with KInt, KInt => KInt | _, _ => KFloat end.

Inductive arith_op := OpAdd | OpSub | OpMul | OpQuo.

Definition num_op (op : arith_op) (x y : num) : result num :=
  match op with
  | OpAdd => Ok (mkNum (res_kind (nk x) (nk y)) (dadd (nd x) (nd y)))
  | OpSub => Ok (mkNum (res_kind (nk x) (nk y)) (dsub (nd x) (nd y)))
  | OpMul => Ok (mkNum (res_kind (nk x) (nk y)) (dmul (nd x) (nd y)))
  | OpQuo =>
    (* quoSpecials: y = 0 gives DivisionByZero / DivisionUndefined, both trapped *)
    if is_zero (nd y) then Err
    else Ok (mkNum KFloat (dquo (nd x) (nd y)))
  end.

(* The exact (specification-layer) result of + - * : same kind rule, no rounding. *)
Definition num_op_exact (op : arith_op) (x y : num) : result num :=
  match op with
  | OpAdd => Ok (mkNum (res_kind (nk x) (nk y)) (add_exact (nd x) (nd y)))
  | OpSub => Ok (mkNum (res_kind (nk x) (nk y)) (sub_exact (nd x) (nd y)))
  | OpMul => Ok (mkNum (res_kind (nk x) (nk y)) (mul_exact (nd x) (nd y)))
  | OpQuo => num_op OpQuo x y
  end.

Definition num_neg (x : num) : num := mkNum (nk x) (dneg (nd x)).

Inductive cmp_op := CEq | CNe | CLt | CLe | CGt | CGe.

(* cmpTonode *)
Definition cmp_to_bool (op : cmp_op) (r : comparison) : bool :=
  match op, r with
  | CLt, Lt => true | CLt, _ => false
  | CLe, Gt => false | CLe, _ => true
  | CEq, Eq => true | CEq, _ => false
  | CNe, Eq => false | CNe, _ => true
  | CGe, Lt => false | CGe, _ => true
  | CGt, Gt => true | CGt, _ => false
  end.

(* BinOp for a comparison of two numbers: kinds are not looked at *)
Definition num_cmp (op : cmp_op) (x y : num) : bool := cmp_to_bool op (dcmp (nd x) (nd y)).

(* strings.Compare / bytes.Compare *)
Fixpoint bytes_cmp (x y : list N) : comparison :=
  match x, y with
  | [], [] => Eq
  | [], _ => Lt
  | _, [] => Gt
  | a :: x', b :: y' => match a ?= b with Eq => bytes_cmp x' y' | r => r end
  end.

Definition bytes_cmp_op (op : cmp_op) (x y : list N) : bool := cmp_to_bool op (bytes_cmp x y).
