(* C02 (sub-development): non-vacuity examples for SanitizeProofs.v / TopoProofs.v
   and refutation witnesses for the side conditions of sanitize_perm. *)
From Coq Require Import List NArith Bool Lia Sorting.Permutation Sorting.Sorted.
From Verif Require Import Base.Order Robust.Sanitize Robust.SanitizeProofs Robust.Topo Robust.TopoProofs.
Import ListNotations.
Local Open Scope N_scope.

(* ------------------------------------------------------------------ *)
(* errors.Sanitize                                                     *)
(* ------------------------------------------------------------------ *)
Definition fa : str := [97; 46; 99; 117; 101].          (* "a.cue" *)
Definition fabs : str := [47; 122; 46; 99; 117; 101].   (* "/z.cue" *)
Definition m : str := [109].
Definition m2 : str := [110].

(* same file name and offset, different RelPos bits: Pos.Compare says 0, == says no *)
Definition p1 := Pos fa 3 65.
Definition p2 := Pos fa 3 66.

Example cmp_npf_coarser_than_eq : cmp_npf p1 p2 = Eq /\ pos_eqb p1 p2 = false.
Proof. split; reflexivity. Qed.

(* NoPos first for Sanitize, last for Pos.Compare; absolute names first *)
Example nopos_first : cmp_npf NoPos p1 = Lt /\ pos_compare NoPos p1 = Gt.
Proof. split; reflexivity. Qed.
Example abs_first : cmp_npf (Pos fabs 9 128) (Pos fa 0 64) = Lt /\ str_cmp fabs fa = Lt.
Proof. split; reflexivity. Qed.
Example rel_before_abs_by_name_only : cmp_npf (Pos [65] 0 64) (Pos [47] 0 64) = Gt /\ str_cmp [65] [47] = Gt.
Proof. split; reflexivity. Qed.

Definition A := Err p1 [] m 2.
Definition B := Err p2 [] m 4.
Definition C := Err p1 [] m 8.

(* Without position coherence Sanitize depends on the order of collection:
   the second occurrence of A survives when B separates the two (the list is
   record-coherent: it is the very same error value twice). *)
Theorem sanitize_perm_refuted :
  exists es es', Permutation es es' /\ rec_coherent es /\
                 sanitize_list es <> sanitize_list es' /\
                 length (sanitize_list es) <> length (sanitize_list es').
Proof.
  exists [A; B; A], [A; A; B]. split; [apply perm_skip; apply perm_swap|]. split.
  - apply rec_coherentb_spec. reflexivity.
  - split; vm_compute; intros H; discriminate H.
Qed.

Example sanitize_perm_refuted_values :
  sanitize_list [A; B; A] = [A; B; A] /\ sanitize_list [A; A; B] = [A; B] /\
  sanitize_list [A; B; C] = [A; B; C] /\ sanitize_list [A; C; B] = [A; B].
Proof. repeat split; reflexivity. Qed.

(* With coherent positions but two different error values of the same key
   (here: different payload, e.g. input positions), the keys that are printed
   are order independent but the surviving VALUE is not. *)
Definition X := Err p1 [[102]] m 3.
Definition Y := Err p1 [[102]] m 9.

Theorem sanitize_payload_refuted :
  exists es es', Permutation es es' /\ pos_coherent es /\
                 map key (sanitize_list es) = map key (sanitize_list es') /\
                 sanitize_list es <> sanitize_list es'.
Proof.
  exists [X; Y], [Y; X]. split; [apply perm_swap|]. split.
  - apply pos_coherentb_spec. reflexivity.
  - split; [reflexivity|]. vm_compute. intros H; discriminate H.
Qed.

(* a coherent list on which Sanitize does something: sorts, groups, drops the
   repeated value, unwraps nothing *)
Definition E1 := Err (Pos fa 7 64) [[98]] m 1.
Definition E2 := Err NoPos [] m2 2.
Definition E3 := Err (Pos fabs 1 128) [] m 3.
Definition E4 := Err (Pos fa 7 64) [[98]] m2 4.
Definition E5 := Err (Pos fa 7 64) [[97]] m2 5.

Example sanitize_coherent_example :
  coherent [E1; E2; E3; E4; E1; E5] /\
  sanitize_list [E1; E2; E3; E4; E1; E5] = [E2; E3; E5; E1; E4] /\
  sanitize_list [E5; E1; E4; E3; E2; E1] = [E2; E3; E5; E1; E4].
Proof.
  split; [split; [apply pos_coherentb_spec | apply rec_coherentb_spec]; reflexivity|].
  split; reflexivity.
Qed.

(* the hypotheses of sanitize_perm are satisfiable together with a non-trivial permutation *)
Example sanitize_perm_instance :
  sanitize_list [E1; E2; E3; E4; E1; E5] = sanitize_list (rev [E1; E2; E3; E4; E1; E5]).
Proof.
  apply sanitize_perm.
  - split; [apply pos_coherentb_spec | apply rec_coherentb_spec]; reflexivity.
  - apply Permutation_rev.
Qed.

(* Sanitize's unwrapping of a one-element result, nil, single errors *)
Example sanitize_shapes :
  sanitize CNil = CNil /\ sanitize (CSingle A) = CSingle A /\
  sanitize (CList []) = CList [] /\ sanitize (CList [A]) = CSingle A /\
  sanitize (CList [A; A]) = CSingle A /\ sanitize (CList [A; B]) = CList [A; B].
Proof. repeat split; reflexivity. Qed.

(* the insertion sort is stable: comparator-equal elements keep their order *)
Example isort_stable : isort err_lt [B; A; C] = [B; A; C] /\ isort err_lt [C; E2; B] = [E2; C; B].
Proof. split; reflexivity. Qed.

(* errors.Append never stores the same value twice *)
Example append_example : append_all [] [A; B; A; C; B] = [A; B; C].
Proof. reflexivity. Qed.

(* ------------------------------------------------------------------ *)
(* toposort                                                            *)
(* ------------------------------------------------------------------ *)
Definition la := LStr [97].
Definition lb := LStr [98].
Definition lc := LStr [99].
Definition ld := LStr [100].
Definition le := LStr [101].
Definition lf := LStr [102].
Definition lg := LStr [103].
Definition lh := LStr [104].

(* graph_test.go TestSort *)
Example merge_simple_two : merge_orders label_cmp [[lc; lb]; [ld; la]] = Some [lc; lb; ld; la].
Proof. reflexivity. Qed.
Example merge_linked_multiple :
  merge_orders label_cmp [[lb; lc; lf; ld; lg]; [lc; la; le; ld]] = Some [lb; lc; la; le; lf; ld; lg].
Proof. reflexivity. Qed.
Example merge_simple_cycle :
  merge_orders label_cmp [[lh; lb; la]; [la; lb]; [lh; lc; ld]; [ld; lc]] = Some [lh; la; lb; lc; ld].
Proof. reflexivity. Qed.
Example merge_nested_cycles :
  merge_orders label_cmp [[lg; lb; lc]; [le; lc; lb; ld]; [ld; lf; la; le]; [la; lh; lf]]
  = Some [lg; la; lb; lc; ld; le; lf; lh].
Proof. vm_compute. reflexivity. Qed.

(* integer labels sort before all others *)
Example int_labels_first :
  topo_sort label_cmp [LStr [48]; LInt 1; LInt 0] [] = Some [LInt 0; LInt 1; LStr [48]].
Proof. reflexivity. Qed.

(* enumeration order is immaterial, also on a cyclic graph *)
Example perm_invariant_cyclic :
  topo_sort label_cmp [la; lb; lc; ld] [(lc, la); (la, lc); (ld, lb); (ld, la)] = Some [ld; la; lc; lb] /\
  topo_sort label_cmp [ld; lc; lb; la] [(ld, la); (ld, lb); (la, lc); (lc, la); (ld, la)] = Some [ld; la; lc; lb].
Proof. split; reflexivity. Qed.

(* consistency is satisfiable, and gives the subsequence property *)
Example consistent_example : consistent [[lb; lc; lf; ld; lg]; [lc; la; le; ld]].
Proof.
  apply (consistent_iff_common_supersequence label_cmp label_cmp_total).
  exists [lb; lc; la; le; lf; ld; lg]. split.
  - repeat constructor; simpl; intuition discriminate.
  - intros o [<- | [<- | []]]; repeat (first [apply sub_nil | apply sub_take | apply sub_skip]).
Qed.

(* a cycle is not consistent; three orders can be pairwise free of opposite
   pairs and still jointly inconsistent *)
Example cycle_not_consistent : ~ consistent [[la; lb]; [lb; lc]; [lc; la]].
Proof.
  intros [rank H].
  assert (H1 := H la lb). assert (H2 := H lb lc). assert (H3 := H lc la).
  simpl in H1, H2, H3. specialize (H1 (or_introl eq_refl)).
  specialize (H2 (or_intror (or_introl eq_refl))).
  specialize (H3 (or_intror (or_intror (or_introl eq_refl)))). lia.
Qed.

(* without consistency an order need not be respected *)
Example inconsistent_not_respected :
  merge_orders label_cmp [[lb; la]; [la; lb]] = Some [la; lb] /\
  ~ subseq [lb; la] [la; lb].
Proof.
  split; [reflexivity|]. intros H.
  inversion H as [| o x l H1 | ]; subst.
  inversion H1 as [| o x l H2 | x o l H2]; subst.
  - inversion H2.
  - inversion H2.
Qed.
