(* Conjunctions of lemmas of SanitizeProofs / TopoProofs in the form stated in Properties/C02.v
   (the property file contains only [exact]). *)
From Coq Require Import List NArith Sorting.Sorted Sorting.Permutation.
From Verif Require Import Base.Order Robust.Sanitize Robust.SanitizeProofs Robust.Topo Robust.TopoProofs.
Import ListNotations.
Local Open Scope nat_scope.

Lemma sanitize_order_independent : forall es es',
  coherent es -> Permutation es es' ->
  sanitize (CList es) = sanitize (CList es') /\ printed (CList es) = printed (CList es').
Proof.
  intros es es' H P. split; [exact (sanitize_top_perm es es' H P) | exact (printed_perm es es' H P)].
Qed.

Lemma field_order_dag : forall nodes edges,
  ranked edges -> NoDup nodes -> closed nodes edges ->
  exists t, topo_sort label_cmp nodes edges = Some t /\ Permutation nodes t /\
    (forall a b, In (a, b) edges -> idx label_cmp t a < idx label_cmp t b) /\
    (forall t', Permutation nodes t' -> topo_ok edges t' -> list_cmp label_cmp t t' <> Gt).
Proof.
  intros nodes edges Hr Hn Hc.
  destruct (topo_sort_dag label_cmp label_cmp_total nodes edges Hr Hn) as [t [E [Hp [_ Hm]]]].
  exists t. split; [exact E|]. split; [exact Hp|]. split; [|exact Hm].
  intros a b Hab. exact (proj1 (topo_sort_respects_edges label_cmp label_cmp_total nodes edges t Hr Hn Hc E a b Hab)).
Qed.
