(* Proofs about the scanner model (Robust/Scan.v):
     - no Go partial operation of the scanner can fail (no [Panic]) from any
       state satisfying the scanner invariant [Inv], which Init establishes and
       every call preserves;
     - the fuel of the model's loops is never exhausted;
     - every Scan call makes progress in the measure 2*(len - offset) + insertEOL
       unless it returns EOF; token offsets are monotone and within [0,len]. *)
From Verif Require Import Utf8.Model Utf8.Proofs Robust.Scan.
From Coq Require Import ZArith List Bool Lia ZifyBool ZifyNat ZifyN.
Import ListNotations.
Local Open Scope Z_scope.

(* weakest-precondition style reading of an outcome: [Ok a] must satisfy [P],
   [Panic] is excluded, [Fuel] is only allowed when [F] (the fuel was short). *)
Definition wp {A} (F : Prop) (P : A -> Prop) (m : outcome A) : Prop :=
  match m with Ok a => P a | Panic => False | Fuel => F end.

Lemma wp_bind {A B} (F1 F : Prop) (P : A -> Prop) (Q : B -> Prop) m (k : A -> outcome B) :
  wp F1 P m -> (F1 -> F) -> (forall a, P a -> wp F Q (k a)) -> wp F Q (bind m k).
Proof. destruct m; simpl; auto. Qed.

Lemma wp_weaken {A} (F F' : Prop) (P Q : A -> Prop) m :
  wp F P m -> (F -> F') -> (forall a, P a -> Q a) -> wp F' Q m.
Proof. destruct m; simpl; auto. Qed.

Lemma wp_ok {A} (F : Prop) (P : A -> Prop) a : P a -> wp F P (Ok a).
Proof. auto. Qed.

Section Proofs.
  Variable src : list N.
  Variables isLetterU isDigitU : Z -> bool.
  Variables scan_comments dont_insert : bool.

  Notation len := (len src).
  Notation lf := (lf src).
  Notation byte_at := (byte_at src).
  Notation slice := (slice src).
  Notation next := (next src).

  Definition qwf (q : quote) : Prop := 0 <= q_char q /\ 0 <= q_numChar q /\ 0 <= q_numHash q.

  (* the scanner invariant *)
  Record Inv (s : st) : Prop := mkInv {
    inv_ch : -1 <= ch s;
    inv_off : 0 <= off s;
    inv_off_rd : off s <= rd s;
    inv_rd : rd s <= len;
    inv_cur : 0 <= ch s -> off s < rd s;     (* the current rune occupies [offset, rdOffset) *)
    inv_eof : ch s < 0 -> off s = len;
    inv_qs : Forall qwf (qs s);
    inv_qs_off : qs s <> [] -> 1 <= off s }.

  (* s' is a later state of the same scan: invariant, offsets and error count
     only grow, insertEOL and the quote stack are untouched *)
  Definition adv (s s' : st) : Prop :=
    Inv s' /\ off s <= off s' /\ ins s' = ins s /\ qs s' = qs s /\ errs s <= errs s'.

  Lemma adv_refl s : Inv s -> adv s s.
  Proof. unfold adv; intuition lia. Qed.

  Lemma adv_trans s1 s2 s3 : adv s1 s2 -> adv s2 s3 -> adv s1 s3.
  Proof. unfold adv; intuition (try congruence; try lia). Qed.

  Lemma adv_errf s s' : adv s s' -> adv s (errf s').
  Proof.
    unfold adv. intros (I & ? & ? & ? & ?). repeat split; simpl; try assumption; try lia;
      destruct I; assumption.
  Qed.

  Lemma adv_errf_if b s s' : adv s s' -> adv s (errf_if b s').
  Proof. destruct b; simpl; auto using adv_errf. Qed.

  Lemma Inv_errf s : Inv s -> Inv (errf s).
  Proof. intros []; constructor; simpl; assumption. Qed.

  Lemma Inv_errf_if b s : Inv s -> Inv (errf_if b s).
  Proof. destruct b; simpl; auto using Inv_errf. Qed.

  Lemma len_nonneg : 0 <= len.
  Proof. unfold Scan.len. lia. Qed.

  (* ---- the partial operations ---- *)
  Lemma byte_at_ok i : 0 <= i < len -> exists b, byte_at i = Ok b /\ 0 <= b.
  Proof.
    intros H. unfold Scan.byte_at.
    replace ((0 <=? i) && (i <? len)) with true by lia.
    eexists; split; [reflexivity | lia].
  Qed.

  Lemma slice_ok lo hi : 0 <= lo -> lo <= hi -> hi <= len -> exists l, slice lo hi = Ok l.
  Proof.
    intros. unfold Scan.slice.
    replace ((0 <=? lo) && (lo <=? hi) && (hi <=? len)) with true by lia.
    eexists; reflexivity.
  Qed.

  Lemma wp_slice (F : Prop) lo hi : 0 <= lo -> lo <= hi -> hi <= len -> wp F (fun _ => True) (slice lo hi).
  Proof. intros. destruct (slice_ok lo hi) as [l ->]; simpl; auto. Qed.

  Lemma wp_byte_at (F : Prop) i : 0 <= i < len -> wp F (fun b => 0 <= b) (byte_at i).
  Proof. intros. destruct (byte_at_ok i) as (b & -> & ?); simpl; auto. Qed.

  Lemma skipn_length_Z (n : Z) : 0 <= n <= len ->
    Z.of_nat (length (skipn (Z.to_nat n) src)) = len - n.
  Proof. intros. rewrite skipn_length. unfold Scan.len in *. lia. Qed.

  (* utf8.DecodeRune on a non-empty slice: width between 1 and the slice length, rune >= 0 *)
  Lemma decode_rune_bounds l r w : l <> [] -> decode_rune l = (r, w) ->
    0 <= r /\ 1 <= w <= Z.of_nat (length l).
  Proof.
    intros Hl. destruct l as [|b t]; [congruence|]. unfold decode_rune.
    pose proof (decode_width b t) as Hw. destruct (utf8_decode (b :: t)) as [r0 w0].
    intros [= <- <-]. lia.
  Qed.

  (* ---- next ---- *)
  (* what next() needs of the state it is called in (weaker than Inv: Init calls
     it with ch = ' ' and both offsets 0) *)
  Definition pre_next (s : st) : Prop :=
    0 <= rd s <= len /\ Forall qwf (qs s) /\ (qs s <> [] -> 1 <= rd s).

  Definition next_frame (s s' : st) : Prop :=
    Inv s' /\ off s' = (if rd s <? len then rd s else len) /\ ins s' = ins s /\ qs s' = qs s /\
    errs s <= errs s'.

  Lemma next_frame_spec (F : Prop) s : pre_next s -> wp F (next_frame s) (next s).
  Proof.
    intros (Hrd0 & Hq & Hqo). unfold Scan.next, next_frame.
    destruct (rd s <? len) eqn:E.
    - assert (Hrd : 0 <= rd s < len) by lia.
      destruct (byte_at_ok (rd s) Hrd) as (b & -> & Hb). cbn [bind].
      destruct (b =? 0) eqn:E0.
      { simpl. repeat split; simpl; try lia; try assumption; intros; lia. }
      destruct (0x80 <=? b) eqn:E1.
      + destruct (slice_ok (rd s) len) as [tl Htl]; try lia.
        rewrite Htl. cbn [bind].
        unfold Scan.slice in Htl.
        replace ((0 <=? rd s) && (rd s <=? len) && (len <=? len)) with true in Htl by lia.
        injection Htl as <-.
        set (tl := firstn (Z.to_nat (len - rd s)) (skipn (Z.to_nat (rd s)) src)).
        assert (Hlen : Z.of_nat (length tl) = len - rd s).
        { unfold tl. rewrite firstn_length, skipn_length. unfold Scan.len in *. lia. }
        assert (Hne : tl <> []).
        { intro Hnil. rewrite Hnil in Hlen. simpl in Hlen. lia. }
        destruct (decode_rune tl) as [r w] eqn:Ed.
        destruct (decode_rune_bounds tl r w Hne Ed) as (Hr & Hw1 & Hw2).
        simpl. repeat split; simpl; try lia; try assumption; intros; try lia.
        destruct ((r =? 65533) && (w =? 1)); [lia|]. destruct ((r =? bom) && (0 <? rd s)); lia.
      + simpl. repeat split; simpl; try lia; try assumption; intros; lia.
    - simpl. pose proof len_nonneg.
      repeat split; simpl; try lia; try assumption; intros; try lia.
  Qed.

  Definition next_post (s s' : st) : Prop :=
    adv s s' /\ (0 <= ch s -> off s < off s').

  Lemma next_spec (F : Prop) s : Inv s -> wp F (next_post s) (next s).
  Proof.
    intros I.
    eapply wp_weaken; [apply (next_frame_spec F s) | auto |].
    - destruct I. unfold pre_next. repeat split; try lia; try assumption; intuition lia.
    - intros s' (I' & Ho & Hi & Hq & He). unfold next_post, adv.
      destruct I. destruct (rd s <? len) eqn:E; repeat (first [assumption | split]); try lia.
  Qed.

  Lemma Inv_init : wp False Inv (init src).
  Proof.
    unfold init.
    eapply wp_bind; [apply (next_frame_spec False) | auto |].
    { pose proof len_nonneg. unfold pre_next; simpl. repeat split; try lia; [constructor | congruence]. }
    intros s (I & _).
    destruct (ch s =? bom).
    - eapply wp_weaken; [apply (next_spec False _ I) | auto |]. intros s' ((I' & _) & _). exact I'.
    - exact I.
  Qed.

  (* ---- the byte-consuming loops ---- *)
  Ltac ivs := repeat (first [assumption | split]).

  Lemma adv_Inv s s' : adv s s' -> Inv s'.
  Proof. intros (I & _); exact I. Qed.

  Lemma adv_off s s' : adv s s' -> off s <= off s'.
  Proof. intros (_ & H & _); exact H. Qed.

  (* one next() followed by a continuation that is specified from the new state *)
  Lemma wp_next_then {A} (F : Prop) (Q : A -> Prop) s (k : st -> outcome A) :
    Inv s ->
    (forall s', adv s s' -> (0 <= ch s -> off s < off s') -> wp F Q (k s')) ->
    wp F Q (bind (next s) k).
  Proof.
    intros I H. eapply wp_bind; [apply (next_spec F _ I) | exact (fun x => x) |].
    intros s' (A1 & L). apply H; assumption.
  Qed.

  Lemma skip_ws_spec f s : Inv s -> wp (Z.of_nat f <= len - off s) (adv s) (skip_ws src f s).
  Proof.
    revert s. induction f as [|f IH]; intros s I.
    { simpl. destruct I; lia. }
    assert (K : forall s', adv s s' -> (off s < off s') ->
                wp (Z.of_nat (S f) <= len - off s) (adv s) (skip_ws src f s')).
    { intros s' A L. eapply wp_weaken; [apply IH; apply A | lia |].
      intros s'' A'. eapply adv_trans; eassumption. }
    cbn [skip_ws].
    destruct ((ch s =? 32) || (ch s =? 9)) eqn:E1.
    { apply wp_next_then; [assumption|]. intros s' A L. apply K; [assumption | lia]. }
    destruct (ch s =? 10) eqn:E2.
    { destruct (ins s); [apply adv_refl; assumption|].
      apply wp_next_then; [assumption|]. intros s' A L. apply K; [assumption | lia]. }
    destruct (ch s =? 13) eqn:E3.
    { apply wp_next_then; [assumption|]. intros s' A L. apply K; [assumption | lia]. }
    apply adv_refl; assumption.
  Qed.

  Lemma lf_enough s : Inv s -> Z.of_nat lf <= len - off s -> False.
  Proof. intros []. unfold Scan.lf, Scan.len. lia. Qed.

  Lemma skip_ws_lf (F : Prop) s : Inv s -> wp F (adv s) (skip_ws src lf s).
  Proof.
    intros I. eapply wp_weaken; [apply skip_ws_spec; assumption | | auto].
    intros H. destruct (lf_enough s I H).
  Qed.

  Lemma comment_loop_spec f s : Inv s ->
    wp (Z.of_nat f <= len - off s) (adv s) (comment_loop src f s).
  Proof.
    revert s. induction f as [|f IH]; intros s I.
    { simpl. destruct I; lia. }
    cbn [comment_loop].
    destruct (negb (ch s =? 10) && (0 <=? ch s)) eqn:E1; [|apply adv_refl; assumption].
    apply wp_next_then; [assumption|]. intros s' A L.
    eapply wp_weaken; [apply IH; apply A | lia |].
    intros s'' A'. eapply adv_trans; eassumption.
  Qed.

  Lemma scan_comment_spec (F : Prop) s : Inv s -> 1 <= off s -> wp F (adv s) (scan_comment src s).
  Proof.
    intros I H1. unfold scan_comment.
    eapply wp_bind with (P := adv s) (F1 := F); [| auto |].
    - destruct (ch s =? 47).
      + apply wp_next_then; [assumption|]. intros s' A L.
        eapply wp_weaken; [apply comment_loop_spec; apply A | |].
        * intros H. destruct (lf_enough s' (adv_Inv _ _ A) H).
        * intros s'' A'. eapply adv_trans; eassumption.
      + simpl. apply adv_errf, adv_refl; assumption.
    - intros s2 A. eapply wp_bind; [apply (wp_slice F) | auto |]; try (intros; exact A).
      + lia.
      + pose proof (adv_off _ _ A). lia.
      + destruct (adv_Inv _ _ A). lia.
  Qed.

  Lemma is_ident_part_nonneg c : is_ident_part isLetterU isDigitU c = true -> 0 <= c.
  Proof. unfold is_ident_part, is_letter, is_digit. lia. Qed.

  Lemma ident_loop_spec f s : Inv s ->
    wp (Z.of_nat f <= len - off s)
       (fun s' => adv s s' /\ (is_ident_part isLetterU isDigitU (ch s) = true -> off s < off s'))
       (ident_loop src isLetterU isDigitU f s).
  Proof.
    revert s. induction f as [|f IH]; intros s I.
    { simpl. destruct I; lia. }
    cbn [ident_loop].
    destruct (is_ident_part isLetterU isDigitU (ch s)) eqn:E1.
    - pose proof (is_ident_part_nonneg _ E1).
      apply wp_next_then; [assumption|]. intros s' A L.
      eapply wp_weaken; [apply IH; apply A | lia |].
      intros s'' (A' & _). split; [eapply adv_trans; eassumption|].
      intros _. pose proof (adv_off _ _ A'). lia.
    - simpl. split; [apply adv_refl; assumption | congruence].
  Qed.

  Lemma ident_loop_lf (F : Prop) s : Inv s ->
    wp F (fun s' => adv s s' /\ (is_ident_part isLetterU isDigitU (ch s) = true -> off s < off s'))
       (ident_loop src isLetterU isDigitU lf s).
  Proof.
    intros I. eapply wp_weaken; [apply ident_loop_spec; assumption | | auto].
    intros H. destruct (lf_enough s I H).
  Qed.

  Definition lit_post (s : st) (p : list N * st) : Prop := adv s (snd p).

  Lemma wp_slice_adv {A} (F : Prop) (Q : A -> Prop) s s' offs (k : list N -> outcome A) :
    adv s s' -> 0 <= offs -> offs <= off s -> (forall l, wp F Q (k l)) ->
    wp F Q (bind (slice offs (off s')) k).
  Proof.
    intros A1 H0 H1 K. eapply wp_bind; [apply (wp_slice F) | auto | intros; apply K].
    - assumption.
    - pose proof (adv_off _ _ A1). lia.
    - destruct (adv_Inv _ _ A1). lia.
  Qed.

  Lemma scan_identifier_spec (F : Prop) s : Inv s ->
    wp F (fun p => adv s (snd p)) (scan_identifier src isLetterU isDigitU s).
  Proof.
    intros I. unfold scan_identifier.
    eapply wp_bind; [apply (ident_loop_lf F s I) | auto |].
    intros s1 (A & _).
    apply wp_slice_adv with (s := s); try assumption; try (destruct I; lia).
    intros l. exact A.
  Qed.

  Lemma scan_field_identifier_spec (F : Prop) s : Inv s ->
    wp F (fun p => adv s (snd p) /\
                   (ch s = 35 \/ is_ident_part isLetterU isDigitU (ch s) = true -> off s < off (snd p)))
       (scan_field_identifier src isLetterU isDigitU s).
  Proof.
    intros I. unfold scan_field_identifier.
    destruct (ch s =? 35) eqn:E.
    - apply wp_next_then; [assumption|]. intros s1 A1 L1.
      destruct (is_digit isDigitU (ch s1)).
      + apply wp_slice_adv with (s := s); try assumption; try (destruct I; lia).
        intros l. simpl. split; [assumption | intros; lia].
      + eapply wp_bind; [apply (ident_loop_lf F s1 (adv_Inv _ _ A1)) | auto |].
        intros s2 (A2 & _).
        assert (A : adv s s2) by (eapply adv_trans; eassumption).
        apply wp_slice_adv with (s := s); try assumption; try (destruct I; lia).
        intros l. simpl. split; [assumption|]. intros _. pose proof (adv_off _ _ A2). lia.
    - eapply wp_bind; [apply (ident_loop_lf F s I) | auto |].
      intros s2 (A2 & L2).
      apply wp_slice_adv with (s := s); try assumption; try (destruct I; lia).
      intros l. simpl. split; [assumption|]. intros [H|H]; [lia | auto].
  Qed.


  (* ---- numbers ---- *)
  Lemma digit_val_nonneg c base : base <= 16 -> digit_val c < base -> 0 <= c.
  Proof.
    unfold digit_val.
    repeat match goal with |- context [if ?b then _ else _] => destruct b eqn:? end; lia.
  Qed.

  Lemma mantissa_loop_spec f base last s : Inv s -> base <= 16 ->
    wp (Z.of_nat f <= len - off s)
       (fun p => adv s (snd p) /\ (digit_val (ch s) < base -> off s < off (snd p)))
       (mantissa_loop src f base last s).
  Proof.
    revert last s. induction f as [|f IH]; intros last s I Hb.
    { simpl. destruct I; lia. }
    cbn [mantissa_loop].
    destruct (digit_val (ch s) <? base) eqn:E1.
    - assert (0 <= ch s) by (apply (digit_val_nonneg _ base); lia).
      set (s0 := errf_if ((last =? 95) && (ch s =? 95)) s).
      assert (A0 : adv s s0) by (apply adv_errf_if, adv_refl; assumption).
      assert (Hc : ch s0 = ch s) by (unfold s0; destruct ((last =? 95) && (ch s =? 95)); reflexivity).
      assert (Ho : off s0 = off s) by (unfold s0; destruct ((last =? 95) && (ch s =? 95)); reflexivity).
      apply wp_next_then; [exact (adv_Inv _ _ A0)|]. intros s' A L.
      eapply wp_weaken; [apply IH; [apply A | assumption] | lia |].
      intros [l s''] (A' & _). simpl in *. split.
      + eapply adv_trans; [exact A0|]. eapply adv_trans; eassumption.
      + intros _. pose proof (adv_off _ _ A'). lia.
    - simpl. split; [apply adv_refl; assumption | lia].
  Qed.

  Lemma scan_mantissa_spec (F : Prop) base s : Inv s -> base <= 16 ->
    wp F (fun s' => adv s s' /\ (digit_val (ch s) < base -> off s < off s')) (scan_mantissa src base s).
  Proof.
    intros I Hb. unfold scan_mantissa.
    eapply wp_bind; [apply (mantissa_loop_spec lf base 0 s I Hb) | |].
    { intros H. destruct (lf_enough s I H). }
    intros [last s1] (A & L). simpl in *. split; [apply adv_errf_if; assumption|].
    intros H. specialize (L H). destruct (last =? 95); simpl; assumption.
  Qed.

  Lemma num_exit_spec (F : Prop) t offs s : Inv s -> 0 <= offs <= off s ->
    wp F (fun p => adv s (snd p)) (num_exit src t offs s).
  Proof.
    intros I H. unfold num_exit.
    apply wp_slice_adv with (s := s); try (apply adv_refl; assumption); try lia.
    intros l. apply adv_refl; assumption.
  Qed.

  (* continue in a later state [s1] and report the result relative to [s] *)
  Lemma wp_adv_then {A} (F : Prop) s s1 (m : outcome (A * st)) :
    adv s s1 -> wp F (fun p => adv s1 (snd p)) m -> wp F (fun p => adv s (snd p)) m.
  Proof.
    intros A1 H. eapply wp_weaken; [exact H | auto |]. intros p Ap. eapply adv_trans; eassumption.
  Qed.

  Lemma num_exponent_spec (F : Prop) t offs s : Inv s -> 0 <= offs <= off s ->
    wp F (fun p => adv s (snd p)) (num_exponent src t offs s).
  Proof.
    intros I H. unfold num_exponent.
    destruct ((ch s =? 75) || (ch s =? 77) || (ch s =? 71) || (ch s =? 84) || (ch s =? 80)).
    { apply wp_next_then; [assumption|]. intros s1 A1 _.
      eapply wp_bind with (P := adv s) (F1 := F); [| auto |].
      - destruct (ch s1 =? 105).
        + eapply wp_weaken; [apply (next_spec F _ (adv_Inv _ _ A1)) | auto |].
          intros s2 (A2 & _). eapply adv_trans; eassumption.
        + exact A1.
      - intros s2 A2. apply (wp_adv_then F s s2); [assumption|].
        apply num_exit_spec; [exact (adv_Inv _ _ A2) | pose proof (adv_off _ _ A2); lia]. }
    destruct ((ch s =? 101) || (ch s =? 69)).
    { apply wp_next_then; [assumption|]. intros s1 A1 _.
      eapply wp_bind with (P := adv s) (F1 := F); [| auto |].
      - destruct ((ch s1 =? 45) || (ch s1 =? 43)).
        + eapply wp_weaken; [apply (next_spec F _ (adv_Inv _ _ A1)) | auto |].
          intros s2 (A2 & _). eapply adv_trans; eassumption.
        + exact A1.
      - intros s2 A2.
        assert (A3 : adv s (errf_if (10 <=? digit_val (ch s2)) s2)) by (apply adv_errf_if; assumption).
        eapply wp_bind; [apply (scan_mantissa_spec F 10 _ (adv_Inv _ _ A3)); lia | auto |].
        intros s4 (A4 & _).
        assert (A5 : adv s s4) by (eapply adv_trans; eassumption).
        apply (wp_adv_then F s s4); [assumption|].
        apply num_exit_spec; [exact (adv_Inv _ _ A5) | pose proof (adv_off _ _ A5); lia]. }
    apply num_exit_spec; assumption.
  Qed.

  Lemma next_is_dot_spec (F : Prop) s : Inv s -> wp F (fun _ => True) (next_is_dot src s).
  Proof.
    intros I. unfold next_is_dot. destruct (off s + 1 <? len) eqn:E; [|exact Logic.I].
    eapply wp_bind; [apply (wp_byte_at F) | auto | intros; exact Logic.I]. destruct I. lia.
  Qed.

  Lemma num_fraction_spec (F : Prop) t offs s : Inv s -> 0 <= offs <= off s ->
    wp F (fun p => adv s (snd p)) (num_fraction src t offs s).
  Proof.
    intros I H. unfold num_fraction.
    destruct (ch s =? 46); [|apply num_exponent_spec; assumption].
    eapply wp_bind; [apply (next_is_dot_spec F s I) | auto |]. intros d _.
    destruct d; [apply num_exit_spec; assumption|].
    apply wp_next_then; [assumption|]. intros s1 A1 _.
    eapply wp_bind; [apply (scan_mantissa_spec F 10 _ (adv_Inv _ _ A1)); lia | auto |].
    intros s2 (A2 & _).
    assert (A : adv s s2) by (eapply adv_trans; eassumption).
    apply (wp_adv_then F s s2); [assumption|].
    apply num_exponent_spec; [exact (adv_Inv _ _ A) | pose proof (adv_off _ _ A); lia].
  Qed.

  Lemma wp_strict {A} (F : Prop) s s1 (m : outcome (A * st)) :
    adv s s1 -> off s < off s1 -> wp F (fun p => adv s1 (snd p)) m ->
    wp F (fun p => adv s (snd p) /\ off s < off (snd p)) m.
  Proof.
    intros A1 L H. eapply wp_weaken; [exact H | auto |]. intros p Ap.
    split; [eapply adv_trans; eassumption | pose proof (adv_off _ _ Ap); lia].
  Qed.

  (* scanNumber(false) is entered on a decimal digit; scanNumber(true) after a consumed '.' *)
  Lemma scan_number_false_spec (F : Prop) s : Inv s -> 48 <= ch s <= 57 ->
    wp F (fun p => adv s (snd p) /\ off s < off (snd p)) (scan_number src false s).
  Proof.
    intros I H. unfold scan_number.
    assert (Hoff : 0 <= off s) by (destruct I; assumption).
    destruct (ch s =? 48) eqn:E0.
    - apply wp_next_then; [assumption|]. intros s1 A1 L1. specialize (L1 ltac:(lia)).
      pose proof (adv_Inv _ _ A1) as I1.
      assert (Based : forall base, base <= 16 ->
        wp F (fun p => adv s (snd p) /\ off s < off (snd p))
          (s2 <- next s1;; s3 <- scan_mantissa src base s2;;
           num_exit src INT (off s) (errf_if (off s3 - off s <=? 2) s3))).
      { intros base Hb. apply wp_next_then; [exact I1|]. intros s2 A2 _.
        eapply wp_bind; [apply (scan_mantissa_spec F base _ (adv_Inv _ _ A2)); lia | auto |].
        intros s3 (A3 & _).
        assert (A : adv s1 (errf_if (off s3 - off s <=? 2) s3)).
        { apply adv_errf_if. eapply adv_trans; eassumption. }
        apply (wp_strict F s _ _ (adv_trans _ _ _ A1 A)); [pose proof (adv_off _ _ A); lia|].
        apply num_exit_spec; [exact (adv_Inv _ _ A) | pose proof (adv_off _ _ A); lia]. }
      destruct ((ch s1 =? 120) || (ch s1 =? 88)); [apply Based; lia|].
      destruct (ch s1 =? 98); [apply Based; lia|].
      destruct (ch s1 =? 111); [apply Based; lia|].
      set (sd := (48 <=? ch s1) && (ch s1 <=? 57)).
      eapply wp_bind with (P := adv s1) (F1 := F); [| auto |].
      { destruct sd.
        - eapply wp_weaken; [apply (scan_mantissa_spec F 10 _ I1); lia | auto |]. intros s2 (A2 & _); exact A2.
        - apply adv_refl; exact I1. }
      intros s2 A2. pose proof (adv_Inv _ _ A2) as I2.
      assert (O2 : 0 <= off s <= off s2) by (pose proof (adv_off _ _ A2); lia).
      eapply wp_bind with (P := fun _ => True) (F1 := F); [| auto |].
      { destruct (ch s2 =? 46); [apply next_is_dot_spec; exact I2 | exact Logic.I]. }
      intros d _.
      assert (A12 : adv s s2) by (eapply adv_trans; eassumption).
      assert (L2 : off s < off s2) by (pose proof (adv_off _ _ A2); lia).
      destruct d.
      { assert (A : adv s2 (errf_if sd s2)) by (apply adv_errf_if, adv_refl; exact I2).
        apply (wp_strict F s _ _ (adv_trans _ _ _ A12 A)); [pose proof (adv_off _ _ A); lia|].
        apply num_exit_spec; [exact (adv_Inv _ _ A) | pose proof (adv_off _ _ A); lia]. }
      destruct ((ch s2 =? 46) || (ch s2 =? 101) || (ch s2 =? 69)).
      { apply (wp_strict F s s2); try assumption. apply num_fraction_spec; [exact I2 | lia]. }
      assert (A : adv s2 (errf_if sd s2)) by (apply adv_errf_if, adv_refl; exact I2).
      apply (wp_strict F s _ _ (adv_trans _ _ _ A12 A)); [pose proof (adv_off _ _ A); lia|].
      apply num_exponent_spec; [exact (adv_Inv _ _ A) | pose proof (adv_off _ _ A); lia].
    - eapply wp_bind; [apply (scan_mantissa_spec F 10 s I); lia | auto |].
      intros s1 (A1 & L1).
      assert (L : off s < off s1).
      { apply L1. unfold digit_val. replace ((48 <=? ch s) && (ch s <=? 57)) with true by lia. lia. }
      apply (wp_strict F s s1); try assumption.
      apply num_fraction_spec; [exact (adv_Inv _ _ A1) | lia].
  Qed.

  Lemma scan_number_true_spec (F : Prop) s : Inv s -> 1 <= off s ->
    wp F (fun p => adv s (snd p)) (scan_number src true s).
  Proof.
    intros I H. unfold scan_number.
    eapply wp_bind; [apply (scan_mantissa_spec F 10 s I); lia | auto |].
    intros s1 (A1 & _).
    apply (wp_adv_then F s s1); [assumption|].
    apply num_exponent_spec; [exact (adv_Inv _ _ A1) | pose proof (adv_off _ _ A1); lia].
  Qed.


  (* the token kind scanNumber returns *)
  Definition ret_tok {A} (P : tok -> Prop) (m : outcome (tok * A)) : Prop :=
    match m with Ok (t, _) => P t | _ => True end.

  Lemma ret_tok_bind {A B} (P : tok -> Prop) (m : outcome B) (k : B -> outcome (tok * A)) :
    (forall b, ret_tok P (k b)) -> ret_tok P (bind m k).
  Proof. destruct m; simpl; auto. Qed.

  Lemma wp_and_ret {A} (F : Prop) (P : tok * A -> Prop) (R : tok -> Prop) m :
    wp F P m -> ret_tok R m -> wp F (fun p => P p /\ R (fst p)) m.
  Proof. destruct m as [[t a]| |]; simpl; auto. Qed.

  Ltac rt :=
    repeat first
      [ apply ret_tok_bind; intros
      | match goal with
        | |- ret_tok _ (if ?b then _ else _) => destruct b
        | |- ret_tok _ (let '(_, _) := ?p in _) => destruct p
        end ].

  Lemma scan_number_tok seen s : ret_tok (fun t => t = INT \/ t = FLOAT) (scan_number src seen s).
  Proof.
    unfold scan_number, num_fraction, num_exponent, num_exit.
    rt; simpl; auto.
  Qed.

  (* ---- strings ---- *)
  (* like adv, but an interpolation may have been pushed on the quote stack *)
  Definition advq (s s' : st) : Prop :=
    Inv s' /\ off s <= off s' /\ ins s' = ins s /\
    (qs s' = qs s \/ exists q, qs s' = q :: qs s) /\ errs s <= errs s'.

  Lemma adv_advq s s' : adv s s' -> advq s s'.
  Proof. unfold adv, advq. intuition. Qed.

  Lemma adv_advq_trans s1 s2 s3 : adv s1 s2 -> advq s2 s3 -> advq s1 s3.
  Proof.
    unfold adv, advq. intros (I2 & O2 & N2 & Q2 & E2) (I3 & O3 & N3 & Q3 & E3).
    ivs; try lia; try congruence. rewrite <- Q2. exact Q3.
  Qed.

  Lemma advq_Inv s s' : advq s s' -> Inv s'.
  Proof. intros (I & _); exact I. Qed.

  Lemma advq_off s s' : advq s s' -> off s <= off s'.
  Proof. intros (_ & H & _); exact H. Qed.

  Lemma esc_hashes_spec (F : Prop) n s : Inv s -> wp F (fun p => adv s (snd p)) (esc_hashes src n s).
  Proof.
    revert s. induction n as [|n IH]; intros s I; cbn [esc_hashes].
    { apply adv_refl; assumption. }
    destruct (ch s =? 35); [|apply adv_refl; assumption].
    apply wp_next_then; [assumption|]. intros s1 A1 _.
    apply (wp_adv_then F s s1); [assumption|]. apply IH. exact (adv_Inv _ _ A1).
  Qed.

  Lemma esc_digits_spec (F : Prop) n base x s : Inv s ->
    wp F (fun p => adv s (snd p)) (esc_digits src n base x s).
  Proof.
    revert x s. induction n as [|n IH]; intros x s I; cbn [esc_digits].
    { apply adv_refl; assumption. }
    destruct ((ch s =? 95) || (base <=? digit_val (ch s))).
    { simpl. apply adv_errf, adv_refl; assumption. }
    apply wp_next_then; [assumption|]. intros s1 A1 _.
    apply (wp_adv_then F s s1); [assumption|]. apply IH. exact (adv_Inv _ _ A1).
  Qed.

  Definition esc_post (s : st) (p : bool * bool * st) : Prop :=
    adv s (snd p) /\ (snd (fst p) = true -> ch (snd p) = 40).

  Lemma scan_escape_spec (F : Prop) q s : Inv s -> wp F (esc_post s) (scan_escape src q s).
  Proof.
    intros I. unfold scan_escape.
    eapply wp_bind; [apply (esc_hashes_spec F _ s I) | auto |].
    intros [all s0] A0. simpl in A0. pose proof (adv_Inv _ _ A0) as I0.
    destruct all; cbn [negb]; [|split; [exact A0 | discriminate]].
    assert (D : forall n base mx s1, adv s s1 ->
      wp F (esc_post s)
        ('(x, s2) <- esc_digits src n base 0 s1 ;;
         match x with
         | None => Ok (false, false, s2)
         | Some v => if mx <? v then Ok (false, false, errf s2) else Ok (true, false, s2)
         end)).
    { intros n base mx s1 A1.
      eapply wp_bind; [apply (esc_digits_spec F n base 0 s1 (adv_Inv _ _ A1)) | auto |].
      intros [x s2] A2. simpl in A2.
      assert (A : adv s s2) by (eapply adv_trans; eassumption).
      destruct x as [v|]; [destruct (mx <? v)|]; (split; [simpl; try apply adv_errf; exact A | discriminate]). }
    assert (N : forall (k : st -> outcome (bool * bool * st)),
      (forall s1, adv s s1 -> wp F (esc_post s) (k s1)) -> wp F (esc_post s) (bind (next s0) k)).
    { intros k Hk. apply wp_next_then; [exact I0|]. intros s1 A1 _. apply Hk.
      eapply adv_trans; eassumption. }
    destruct (ch s0 =? 40) eqn:E40.
    { split; [exact A0 | intros _; simpl; lia]. }
    match goal with |- context [if ?b then _ else _] => destruct b end.
    { apply N. intros s1 A1. split; [exact A1 | discriminate]. }
    destruct ((48 <=? ch s0) && (ch s0 <=? 55)).
    { destruct (q_char q =? 34); [split; [simpl; apply adv_errf; exact A0 | discriminate] | apply D; exact A0]. }
    destruct (ch s0 =? 120).
    { destruct (q_char q =? 34); [split; [simpl; apply adv_errf; exact A0 | discriminate]|].
      apply N. intros s1 A1. apply D; exact A1. }
    destruct (ch s0 =? 117); [apply N; intros s1 A1; apply D; exact A1|].
    destruct (ch s0 =? 85); [apply N; intros s1 A1; apply D; exact A1|].
    split; [simpl; apply adv_errf; exact A0 | discriminate].
  Qed.

  Lemma close_loop_spec (F : Prop) k i q s : Inv s -> qwf q ->
    wp F (fun p => adv s (snd p) /\ (fst p = true -> off s + Z.of_nat k <= off (snd p)))
       (close_loop src k i q s).
  Proof.
    revert i s. induction k as [|k IH]; intros i s I Q; cbn [close_loop].
    { simpl. split; [apply adv_refl; assumption | lia]. }
    set (want := if i <? q_numChar q then q_char q else 35).
    destruct (negb (want =? ch s)) eqn:E.
    { simpl. split; [apply adv_refl; assumption | discriminate]. }
    assert (0 <= ch s).
    { destruct Q as (Q1 & _). unfold want in E. destruct (i <? q_numChar q); lia. }
    apply wp_next_then; [assumption|]. intros s1 A1 L1.
    eapply wp_weaken; [apply (IH (i + 1) s1 (adv_Inv _ _ A1) Q) | auto |].
    intros [c s2] (A2 & C2). simpl in *. split; [eapply adv_trans; eassumption|].
    intros Hc. specialize (C2 Hc). lia.
  Qed.

  Lemma consume_string_close_spec (F : Prop) c q s : Inv s -> qwf q ->
    wp F (fun p => adv s (snd p) /\
                   (fst p = true -> off s + (q_numChar q + q_numHash q - 1) <= off (snd p)))
       (consume_string_close src c q s).
  Proof.
    intros I Q. unfold consume_string_close.
    destruct (negb (q_char q =? c)).
    { simpl. split; [apply adv_refl; assumption | discriminate]. }
    eapply wp_weaken; [apply (close_loop_spec F _ 1 q s I Q) | auto |].
    intros [b s1] (A1 & C1). simpl in *. split; [assumption|]. intros Hb. specialize (C1 Hb). lia.
  Qed.

  Lemma str_finish_spec (F : Prop) t extra offs q ls s : Inv s -> qwf q ->
    0 <= offs -> 0 <= extra -> offs <= off s + extra -> off s + extra <= len ->
    (t = STRING -> q_ws q <> None -> 0 <= ls /\ ls <= off s - q_numChar q - q_numHash q) ->
    wp F (fun p => adv s (snd p) /\ fst p = t) (str_finish src t extra offs q ls s).
  Proof.
    intros I Q H0 He H1 H2 Hws. unfold str_finish.
    eapply wp_bind; [apply (wp_slice F); lia | auto |]. intros _ _.
    assert (R : adv s s) by (apply adv_refl; assumption).
    destruct t; try (split; [exact R | reflexivity]).
    destruct (q_ws q) as [ws|] eqn:Ews; [|split; [exact R | reflexivity]].
    destruct Hws as (Hl0 & Hl1); [reflexivity | congruence |].
    destruct Q as (_ & Q2 & Q3).
    eapply wp_bind; [apply (wp_slice F); try lia; destruct I; lia | auto |].
    intros cws _. split; [apply adv_errf_if; exact R | reflexivity].
  Qed.

  Definition str_post (s : st) (p : tok * st) : Prop :=
    advq s (snd p) /\ (fst p = INTERPOLATION -> qs (snd p) <> []).

  Lemma str_post_adv s s1 p : adv s s1 -> str_post s1 p -> str_post s p.
  Proof. intros A (B & C). split; [eapply adv_advq_trans; eassumption | exact C]. Qed.

  Lemma str_loop_spec f offs q ca ls s : Inv s -> qwf q -> 0 <= offs <= off s -> 0 <= ls <= off s ->
    wp (Z.of_nat f <= len - off s) (str_post s) (str_loop src f offs q ca ls s).
  Proof.
    revert q ca ls s. induction f as [|f IH]; intros q ca ls s I Q Ho Hl.
    { simpl. destruct I; lia. }
    cbn [str_loop].
    set (c := ch s).
    destruct ((negb (q_numChar q =? 3) && (c =? 10)) || (c <? 0)) eqn:Eterm.
    { (* string literal not terminated *)
      eapply wp_bind; [apply (wp_slice _); simpl; try lia; destruct I; lia | exact (fun x => x) |].
      intros _ _. split; [apply adv_advq, adv_errf, adv_refl; assumption | discriminate]. }
    assert (Hc : 0 <= c) by lia.
    apply wp_next_then; [assumption|]. intros s1 A1 L1. specialize (L1 Hc).
    pose proof (adv_Inv _ _ A1) as I1.
    eapply wp_bind with (F1 := Z.of_nat (S f) <= len - off s)
      (P := fun p => adv s1 (snd p) /\
              (fst p = true -> off s1 + (q_numChar q + q_numHash q - 1) <= off (snd p))); [| exact (fun x => x) |].
    { destruct (negb (q_numChar q =? 3) || ca).
      - apply consume_string_close_spec; assumption.
      - simpl. split; [apply adv_refl; assumption | discriminate]. }
    intros [closed s2] (A2 & C2). simpl in A2, C2.
    pose proof (adv_Inv _ _ A2) as I2. pose proof (adv_off _ _ A2) as O2.
    assert (A12 : adv s s2) by (eapply adv_trans; eassumption).
    (* the recursive call, from any later state with any quote *)
    assert (REC : forall q' ca' ls' s3, adv s2 s3 -> qwf q' -> 0 <= ls' <= off s3 ->
              wp (Z.of_nat (S f) <= len - off s) (str_post s) (str_loop src f offs q' ca' ls' s3)).
    { intros q' ca' ls' s3 A3 Q' Hl'. pose proof (adv_off _ _ A3).
      eapply wp_weaken; [apply (IH q' ca' ls' s3 (adv_Inv _ _ A3) Q'); lia | lia |].
      intros p Hp. eapply str_post_adv; [|exact Hp]. eapply adv_trans; eassumption. }
    destruct closed.
    { specialize (C2 eq_refl).
      eapply wp_weaken; [apply (str_finish_spec _ STRING 0 offs q ls s2 I2 Q); try lia | exact (fun x => x) |].
      - destruct I2; lia.
      - intros [t s3] (A3 & Ht). simpl in *. split; [|subst t; discriminate].
        apply adv_advq. eapply adv_trans; eassumption. }
    destruct ((c =? 13) && (q_numChar q =? 3)).
    { apply REC; [apply adv_refl; assumption | assumption | lia]. }
    eapply wp_bind with (F1 := Z.of_nat (S f) <= len - off s) (P := qwf); [| exact (fun x => x) |].
    { destruct (ca && negb (c =? 32) && negb (c =? 9)); [|exact Q].
      eapply wp_bind; [apply (wp_slice _); try lia; destruct I2; lia | exact (fun x => x) |].
      intros ws _. destruct (negb (c =? 10) || (0 <? Z.of_nat (length ws))); [|exact Q].
      simpl. exact Q. }
    intros q' Q'.
    assert (NX : forall ca' ls', 0 <= ls' <= off s2 ->
      wp (Z.of_nat (S f) <= len - off s) (str_post s)
        (if c =? 92
         then '(_, interp, s3) <- scan_escape src q' s2 ;;
              if interp then str_finish src INTERPOLATION 1 offs q' ls' (set_qs s3 (q' :: qs s3))
              else str_loop src f offs q' ca' ls' s3
         else str_loop src f offs q' ca' ls' s2)).
    { intros ca' ls' Hl'. destruct (c =? 92); [|apply REC; [apply adv_refl; assumption | assumption | lia]].
      eapply wp_bind; [apply (scan_escape_spec _ q' s2 I2) | exact (fun x => x) |].
      intros [[ok interp] s3] (A3 & C3). simpl in A3, C3.
      pose proof (adv_off _ _ A3) as O3. pose proof (adv_Inv _ _ A3) as I3.
      destruct interp; [|apply REC; [assumption | assumption | lia]].
      specialize (C3 eq_refl).
      set (s4 := set_qs s3 (q' :: qs s3)).
      assert (I4 : Inv s4).
      { destruct I3. constructor; simpl; try assumption; [constructor; assumption | intros _; lia]. }
      eapply wp_weaken; [apply (str_finish_spec _ INTERPOLATION 1 offs q' ls' s4 I4 Q'); simpl; try lia | exact (fun x => x) |].
      - destruct I3. lia.
      - discriminate.
      - intros [t s5] (A5 & Ht). simpl in *. destruct A5 as (I5 & O5 & N5 & Q5 & E5). simpl in *.
        destruct A12 as (_ & O12 & N12 & Q12 & E12). destruct A3 as (_ & _ & N3 & Q3 & E3).
        split.
        + unfold advq; simpl. split; [exact I5|]. split; [lia|]. split; [congruence|]. split; [|lia].
          right. exists q'. rewrite Q5. congruence.
        + intros _. simpl. rewrite Q5. discriminate. }
    destruct (c =? 10).
    { apply NX. lia. }
    destruct ((q_numChar q =? 3) && ca && ((c =? 32) || (c =? 9))); apply NX; lia.
  Qed.

  Lemma scan_string_spec (F : Prop) offs q cont s : Inv s -> qwf q -> 0 <= offs <= off s ->
    wp F (str_post s) (scan_string src offs q cont s).
  Proof.
    intros I Q Ho. unfold scan_string.
    eapply wp_weaken; [apply str_loop_spec; try assumption | | auto].
    - destruct cont; [exact Q | exact Q].
    - destruct I; lia.
    - intros H. destruct (lf_enough s I H).
  Qed.


  Lemma consume_quotes_spec (F : Prop) c s : Inv s -> 0 <= c ->
    wp F (fun p => adv s (snd p)) (consume_quotes src c s).
  Proof.
    intros I Hc. unfold consume_quotes.
    destruct (negb (ch s =? c)); [apply adv_refl; assumption|].
    apply wp_next_then; [assumption|]. intros s1 A1 _.
    destruct (negb (ch s1 =? c)); [exact A1|].
    apply wp_next_then; [exact (adv_Inv _ _ A1)|]. intros s2 A2 _.
    simpl. eapply adv_trans; eassumption.
  Qed.

  Lemma scan_hashes_spec (F : Prop) k i s : Inv s ->
    wp F (fun p => adv s (snd p)) (scan_hashes src k i s).
  Proof.
    revert i s. induction k as [|k IH]; intros i s I; cbn [scan_hashes].
    { apply adv_refl; assumption. }
    destruct (negb (ch s =? 35)); [apply adv_refl; assumption|].
    apply wp_next_then; [assumption|]. intros s1 A1 _.
    apply (wp_adv_then F s s1); [assumption|]. apply IH. exact (adv_Inv _ _ A1).
  Qed.

  Lemma pop_interp_spec (F : Prop) s : Inv s -> qs s <> [] ->
    wp F (fun p => qwf (fst p) /\ Inv (snd p) /\ off (snd p) = off s /\ ins (snd p) = ins s /\
                   errs (snd p) = errs s /\ 1 <= off s) (pop_interp s).
  Proof.
    intros I Hq. unfold pop_interp. destruct (qs s) as [|q r] eqn:E; [congruence|].
    simpl. destruct I. rewrite E in *. inversion inv_qs0; subst.
    split; [assumption|]. split; [|auto].
    constructor; simpl; try assumption. intros _. apply inv_qs_off0. discriminate.
  Qed.

  (* ResumeInterpolation: total whenever an interpolation is open *)
  Definition resume_post (s s' : st) : Prop :=
    Inv s' /\ off s <= off s' /\ ins s' = ins s /\ errs s <= errs s'.

  Lemma resume_spec (F : Prop) s : Inv s -> qs s <> [] -> wp F (resume_post s) (resume src s).
  Proof.
    intros I Hq. unfold resume.
    eapply wp_bind; [apply (pop_interp_spec F s I Hq) | auto |].
    intros [q s1] (Q & I1 & O1 & N1 & E1 & H1). simpl in *.
    eapply wp_bind; [apply (scan_string_spec F (off s1 - 1) q true s1 I1 Q); lia | auto |].
    intros [t s2] ((I2 & O2 & N2 & _ & E2) & _). simpl in *.
    unfold resume_post. ivs; try lia; congruence.
  Qed.

  Lemma recover_paren_spec f open s : Inv s ->
    wp (Z.of_nat f <= len - off s) (adv s) (recover_paren src f open s).
  Proof.
    revert open s. induction f as [|f IH]; intros open s I.
    { simpl. destruct I; lia. }
    cbn [recover_paren].
    assert (K : forall o, 0 <= ch s ->
      wp (Z.of_nat (S f) <= len - off s) (adv s) (s' <- next s ;; recover_paren src f o s')).
    { intros o Hc. apply wp_next_then; [assumption|]. intros s1 A1 L1. specialize (L1 Hc).
      eapply wp_weaken; [apply (IH o s1 (adv_Inv _ _ A1)) | lia |].
      intros s2 A2. eapply adv_trans; eassumption. }
    pose proof (inv_ch _ I).
    destruct ((ch s =? 10) || (ch s =? -1)) eqn:E1; [apply adv_refl; assumption|].
    destruct (ch s =? 40); [apply K; lia|].
    destruct (ch s =? 41); [|apply K; lia].
    destruct (open - 1 =? 0); [apply adv_refl; assumption | apply K; lia].
  Qed.

  Lemma hash_loop_spec f nh s : Inv s ->
    wp (Z.of_nat f <= len - off s)
       (fun p => adv s (snd p) /\ nh <= fst p /\ fst p - nh <= off (snd p) - off s) (hash_loop src f nh s).
  Proof.
    revert nh s. induction f as [|f IH]; intros nh s I.
    { simpl. destruct I; lia. }
    cbn [hash_loop]. destruct (ch s =? 35) eqn:E.
    - apply wp_next_then; [assumption|]. intros s1 A1 L1. specialize (L1 ltac:(lia)).
      eapply wp_weaken; [apply (IH (nh + 1) s1 (adv_Inv _ _ A1)) | lia |].
      intros [n s2] (A2 & C2). simpl in *. split; [eapply adv_trans; eassumption | lia].
    - simpl. split; [apply adv_refl; assumption | lia].
  Qed.

  Lemma hash_loop_lf (F : Prop) nh s : Inv s ->
    wp F (fun p => adv s (snd p) /\ nh <= fst p /\ fst p - nh <= off (snd p) - off s)
       (hash_loop src lf nh s).
  Proof.
    intros I. eapply wp_weaken; [apply hash_loop_spec; assumption | | auto].
    intros H. destruct (lf_enough s I H).
  Qed.

  Lemma recover_paren_lf (F : Prop) open s : Inv s -> wp F (adv s) (recover_paren src lf open s).
  Proof.
    intros I. eapply wp_weaken; [apply recover_paren_spec; assumption | | auto].
    intros H. destruct (lf_enough s I H).
  Qed.

  (* the quoted-literal case of Scan: the opening quote (and nh hashes) are consumed *)
  Lemma scan_quoted_spec (F : Prop) c nh s : Inv s -> 0 <= c -> 0 <= nh -> nh + 1 <= off s ->
    wp F (str_post s) (scan_quoted src c nh s).
  Proof.
    intros I Hc Hn Ho. unfold scan_quoted.
    set (offs := off s - 1 - nh).
    assert (Q1 : qwf (mkQ c 1 nh 0 None)) by (unfold qwf; simpl; lia).
    assert (Q3 : qwf (mkQ c 3 nh 0 None)) by (unfold qwf; simpl; lia).
    eapply wp_bind; [apply (consume_quotes_spec F c s I Hc) | auto |].
    intros [n s1] A1. simpl in A1. pose proof (adv_Inv _ _ A1) as I1. pose proof (adv_off _ _ A1) as O1.
    assert (STR : forall q s2, adv s s2 -> qwf q ->
              wp F (str_post s) (scan_string src offs q false s2)).
    { intros q s2 A2 Q. pose proof (adv_off _ _ A2).
      eapply wp_weaken; [apply (scan_string_spec F offs q false s2 (adv_Inv _ _ A2) Q); unfold offs; lia | auto |].
      intros p Hp. eapply str_post_adv; eassumption. }
    assert (LIT : forall s2, adv s s2 ->
              wp F (str_post s) (_ <- slice offs (off s2) ;; Ok (STRING, s2))).
    { intros s2 A2. apply wp_slice_adv with (s := s); try assumption; unfold offs; try lia.
      intros l. split; [apply adv_advq; exact A2 | discriminate]. }
    destruct (n =? 0); [apply STR; assumption|].
    destruct (n =? 1).
    { eapply wp_bind; [apply (scan_hashes_spec F _ 0 s1 I1) | auto |].
      intros [h s2] A2. simpl in A2.
      assert (A : adv s s2) by (eapply adv_trans; eassumption).
      destruct (h =? nh); [apply LIT | apply STR]; assumption. }
    eapply wp_bind with (F1 := F) (P := fun p => adv s (snd p)); [| auto |].
    { destruct (0 <? nh); [|exact A1].
      eapply wp_bind; [apply (scan_hashes_spec F _ 0 s1 I1) | auto |].
      intros [h s2] A2. simpl in *. eapply adv_trans; eassumption. }
    intros [done s2] A2. simpl in A2. pose proof (adv_Inv _ _ A2) as I2.
    destruct done; [apply LIT; assumption|].
    assert (BAD : forall s3, adv s s3 ->
      wp F (str_post s) (_ <- slice offs (off s3) ;; _ <- slice offs (off s3) ;; Ok (STRING, errf s3))).
    { intros s3 A3. apply wp_slice_adv with (s := s); try assumption; unfold offs; try lia.
      intros _. apply wp_slice_adv with (s := s); try assumption; unfold offs; try lia.
      intros _. split; [apply adv_advq, adv_errf; exact A3 | discriminate]. }
    destruct (ch s2 =? 10).
    { apply wp_next_then; [assumption|]. intros s3 A3 _.
      apply STR; [eapply adv_trans; eassumption | assumption]. }
    destruct (ch s2 =? 13); [|apply BAD; assumption].
    apply wp_next_then; [assumption|]. intros s3 A3 _.
    assert (A : adv s s3) by (eapply adv_trans; eassumption).
    destruct (ch s3 =? 10); [|apply BAD; assumption].
    apply wp_next_then; [exact (adv_Inv _ _ A3)|]. intros s4 A4 _.
    apply STR; [eapply adv_trans; eassumption | assumption].
  Qed.


  (* ---- Scan ---- *)
  Notation finish := (finish dont_insert).

  (* termination measure of the token loop: bytes left, and a pending comma insertion *)
  Definition mu (s : st) : Z := 2 * (len - off s) + (if ins s then 1 else 0).

  Definition scan_post (s : st) (p : res * st) : Prop :=
    Inv (snd p) /\ off s <= r_start (fst p) /\ r_start (fst p) <= off (snd p) /\
    errs s <= errs (snd p) /\ mu (snd p) <= mu s /\
    (r_tok (fst p) <> EOF -> mu (snd p) < mu s) /\
    (r_tok (fst p) <> EOF -> r_elided (fst p) = false -> r_start (fst p) < off (snd p)) /\
    (r_tok (fst p) = INTERPOLATION -> qs (snd p) <> []) /\
    (r_elided (fst p) = true -> r_tok (fst p) = COMMA).

  Definition attr_post (s s' : st) : Prop :=
    Inv s' /\ off s <= off s' /\ errs s <= errs s' /\ mu s' <= mu s.

  Lemma Inv_set_ins s b : Inv s -> Inv (set_ins s b).
  Proof. intros []; constructor; simpl; assumption. Qed.

  Ltac prj := cbn [wp bind fst snd r_tok r_start r_elided ins off errs qs ch rd set_ins set_qs errf] in *.

  Lemma wp_finish (F : Prop) s t start ie sx :
    Inv sx -> off s <= start -> start < off sx -> errs s <= errs sx ->
    (t = INTERPOLATION -> qs sx <> []) ->
    wp F (scan_post s) (finish t start ie sx).
  Proof.
    intros I H1 H2 H3 H4. unfold Scan.finish, scan_post.
    destruct dont_insert; prj; unfold mu; prj.
    - ivs; try lia; try discriminate; try (destruct (ins s), (ins sx); lia); auto.
    - split; [apply Inv_set_ins; exact I|].
      ivs; try lia; try discriminate; try (destruct (ins s), ie; lia); auto.
  Qed.

  Ltac adv_facts :=
    repeat match goal with
    | H : adv _ _ |- _ =>
      let I := fresh "I" in let O := fresh "O" in let N := fresh "N" in
      let Q := fresh "Q" in let E := fresh "E" in destruct H as (I & O & N & Q & E)
    | H : advq _ _ |- _ =>
      let I := fresh "I" in let O := fresh "O" in let N := fresh "N" in
      let Q := fresh "Q" in let E := fresh "E" in destruct H as (I & O & N & Q & E)
    end.

  Section Body.
    Variable scan_rec : st -> outcome (res * st).
    Variable attr_rec : tok -> st -> outcome st.
    Variable G : Z.     (* the fuel available to the recursive calls *)
    Hypothesis scan_rec_spec : forall s, Inv s -> wp (G < 2 * mu s + 2) (scan_post s) (scan_rec s).
    Hypothesis attr_rec_spec : forall c s, Inv s -> wp (G < 2 * mu s + 3) (attr_post s) (attr_rec c s).

    Notation default_case := (default_case src isLetterU isDigitU scan_comments dont_insert scan_rec attr_rec).
    Notation FS s := (G + 1 < 2 * mu s + 2).

    (* a recursive Scan from a state that is strictly later *)
    Lemma scan_rec_later s s2 : Inv s2 -> off s < off s2 -> ins s2 = false \/ ins s2 = ins s ->
      errs s <= errs s2 -> wp (FS s) (scan_post s) (scan_rec s2).
    Proof.
      intros I2 L N E.
      assert (M : mu s2 + 1 < mu s) by (unfold mu; destruct N as [-> | ->]; destruct (ins s); lia).
      eapply wp_weaken; [apply (scan_rec_spec s2 I2) | lia |].
      intros [r s3] (I3 & P1 & P2 & P3 & P4 & P5 & P6 & P7 & P8). prj.
      unfold scan_post; prj. ivs; try lia; auto.
    Qed.

    Lemma default_case_spec s sd offset nh c :
      Inv s -> adv s sd -> off s <= offset -> offset + nh <= off sd -> 0 <= nh -> c = ch sd ->
      (offset = off sd \/ c = 39 \/ c = 34 \/ c = 35) ->
      wp (FS s) (scan_post s) (default_case offset nh c sd).
    Proof.
      intros Is Ad Ho Hn Hn0 Hc Hcase.
      pose proof (adv_Inv _ _ Ad) as Id.
      pose proof (inv_ch _ Id) as Hch.
      assert (Ho0 : 0 <= offset) by (pose proof (inv_off _ Is); lia).
      unfold Scan.default_case.
      apply wp_next_then; [exact Id|]. intros s1 A1 L1. cbv zeta.
      pose proof (adv_Inv _ _ A1) as I1.
      assert (A : adv s s1) by (eapply adv_trans; eassumption).
      (* the frequent leaf: finish from a state reached by adv from s1 *)
      assert (FIN : forall t ie sx, adv s1 sx -> off sd < off s1 -> t <> INTERPOLATION ->
                wp (FS s) (scan_post s) (finish t offset ie sx)).
      { intros t ie sx Ax L Ht. adv_facts. apply wp_finish; try assumption; try lia. congruence. }
      assert (NXT : forall t ie, off sd < off s1 -> t <> INTERPOLATION ->
                wp (FS s) (scan_post s) (s2 <- next s1 ;; finish t offset ie s2)).
      { intros t ie L Ht. apply wp_next_then; [exact I1|]. intros s2 A2 _. apply FIN; assumption. }
      assert (OP2 : forall t0 t1, off sd < off s1 -> t0 <> INTERPOLATION -> t1 <> INTERPOLATION ->
                wp (FS s) (scan_post s) ('(t, s2) <- op2 src t0 t1 s1 ;; finish t offset false s2)).
      { intros t0 t1 L H0 H1.
        eapply wp_bind with (F1 := FS s) (P := fun p => adv s1 (snd p) /\ fst p <> INTERPOLATION);
          [| exact (fun x => x) |].
        - unfold op2. destruct (ch s1 =? 61).
          + apply wp_next_then; [exact I1|]. intros s2 A2 _. split; assumption.
          + split; [apply adv_refl; exact I1 | assumption].
        - intros [t s2] (A2 & Ht). prj. apply FIN; assumption. }
      assert (QUO : forall cq nq s2, adv s1 s2 -> off sd < off s1 -> 0 <= cq -> 0 <= nq -> nq + 1 <= off s2 ->
                wp (FS s) (scan_post s)
                  ('(t, s3) <- scan_quoted src cq nq s2 ;; finish t offset true s3)).
      { intros cq nq s2 A2 L Hcq Hnq Hoq.
        eapply wp_bind; [apply (scan_quoted_spec _ cq nq s2 (adv_Inv _ _ A2) Hcq Hnq Hoq) | exact (fun x => x) |].
        intros [t s3] (A3 & Hq). prj. adv_facts. apply wp_finish; try assumption; try lia. }
      destruct (c =? -1) eqn:Em1.
      { (* EOF *)
        assert (off sd = len) by (apply (inv_eof _ Id); lia).
        adv_facts.
        assert (off s1 = len) by (pose proof (inv_off_rd _ I1); pose proof (inv_rd _ I1); lia).
        destruct (ins s1) eqn:Ei.
        - unfold scan_post; prj; unfold mu; prj.
          split; [apply Inv_set_ins; assumption|].
          replace (ins s) with true by congruence.
          ivs; try lia; try discriminate; auto.
        - unfold Scan.finish, scan_post.
          destruct dont_insert; prj; unfold mu; prj.
          + rewrite Ei. ivs; try lia; try discriminate; try congruence; try (destruct (ins s); lia).
          + split; [apply Inv_set_ins; assumption|].
            ivs; try lia; try discriminate; try congruence; try (destruct (ins s); lia). }
      assert (L : off sd < off s1) by lia. clear L1.
      destruct (c =? 95).
      { (* '_' *)
        eapply wp_bind with (F1 := FS s) (P := fun _ => True); [| exact (fun x => x) |].
        { destruct (ch s1 =? 124); [|exact Logic.I].
          destruct (rd s1 <? len) eqn:Er; [|exact Logic.I].
          eapply wp_bind; [apply (wp_byte_at _ (rd s1)) | exact (fun x => x) | intros; exact Logic.I].
          pose proof (inv_off_rd _ I1). pose proof (inv_off _ I1). lia. }
        intros b _. destruct b.
        { apply wp_next_then; [exact I1|]. intros s2 A2 _.
          apply wp_next_then; [exact (adv_Inv _ _ A2)|]. intros s3 A3 _.
          apply FIN; [eapply adv_trans; eassumption | assumption | discriminate]. }
        eapply wp_bind; [apply (scan_field_identifier_spec _ s1 I1) | exact (fun x => x) |].
        intros [lit s2] (A2 & _). prj.
        destruct (bytes_eqb lit [95%N] && (ch s2 =? 35)).
        - apply wp_next_then; [exact (adv_Inv _ _ A2)|]. intros s3 A3 _.
          eapply wp_bind; [apply (scan_identifier_spec _ s3 (adv_Inv _ _ A3)) | exact (fun x => x) |].
          intros [l4 s4] A4. prj.
          apply FIN; [|assumption | discriminate].
          apply adv_errf. eapply adv_trans; [exact A2|]. eapply adv_trans; eassumption.
        - apply FIN; [assumption | assumption | discriminate]. }
      destruct (c =? 10).
      { (* newline: insert a comma *)
        eapply wp_bind; [apply (skip_ws_lf _ (set_ins s1 false) (Inv_set_ins _ _ I1)) | exact (fun x => x) |].
        intros s2 A2. destruct A2 as (I2 & O2 & N2 & Q2 & E2). prj. adv_facts.
        destruct ((ch s2 =? 44) || (ch s2 =? 58)).
        - apply scan_rec_later; try assumption; try lia; left; assumption.
        - unfold scan_post; prj; unfold mu; prj. rewrite N2.
          ivs; try lia; try discriminate; auto; try (destruct (ins s); lia). }
      destruct (c =? 35).
      { (* '#': raw string or illegal *)
        eapply wp_bind; [apply (hash_loop_lf _ (nh + 1) s1 I1) | exact (fun x => x) |].
        intros [nh' s2] (A2 & Hh1 & Hh2). prj.
        destruct (negb (ch s2 =? 39) && negb (ch s2 =? 34)) eqn:Eq.
        { apply FIN; [assumption | assumption | discriminate]. }
        apply wp_next_then; [exact (adv_Inv _ _ A2)|]. intros s3 A3 L3.
        apply QUO; try lia; try (eapply adv_trans; eassumption); try (adv_facts; lia). }
      destruct ((c =? 34) || (c =? 39)) eqn:Eq.
      { apply QUO; try lia; try (apply adv_refl; exact I1); try (adv_facts; lia). }
      destruct (c =? 64).
      { (* '@': scanAttribute *)
        eapply wp_bind; [apply (scan_identifier_spec _ s1 I1) | exact (fun x => x) |].
        intros [l2 s2] A2. prj.
        pose proof (adv_Inv _ _ A2) as I2.
        assert (M2 : mu s2 + 1 < mu s).
        { adv_facts. unfold mu. replace (ins s2) with (ins s) by congruence. destruct (ins s); lia. }
        eapply wp_bind; [apply (scan_rec_spec s2 I2) | lia |].
        intros [r s3] (I3 & P1 & P2 & P3 & P4 & _). prj.
        eapply wp_bind with (F1 := FS s) (P := fun s4 => Inv s4 /\ off s3 <= off s4 /\ errs s3 <= errs s4 /\ mu s4 <= mu s3);
          [| exact (fun x => x) |].
        { destruct (tok_beq (r_tok r) LPAREN).
          - eapply wp_weaken; [apply (attr_rec_spec RPAREN s3 I3) | lia | auto].
          - prj. split; [apply Inv_errf; exact I3|]. unfold mu; prj. lia. }
        intros s4 (I4 & O4 & E4 & M4).
        adv_facts.
        eapply wp_bind; [apply (wp_slice _); try lia | exact (fun x => x) |].
        { pose proof (inv_off_rd _ I4). pose proof (inv_rd _ I4). lia. }
        intros _ _. apply wp_finish; try assumption; try lia. discriminate. }
      destruct (c =? 58); [apply FIN; [apply adv_refl; exact I1 | assumption | discriminate]|].
      destruct (c =? 59); [apply FIN; [apply adv_refl; exact I1 | assumption | discriminate]|].
      destruct (c =? 63); [apply FIN; [apply adv_refl; exact I1 | assumption | discriminate]|].
      destruct (c =? 126); [apply FIN; [apply adv_refl; exact I1 | assumption | discriminate]|].
      destruct (c =? 46).
      { destruct ((48 <=? ch s1) && (ch s1 <=? 57)).
        - eapply wp_bind;
            [apply wp_and_ret; [apply (scan_number_true_spec _ s1 I1) | apply scan_number_tok]
            | exact (fun x => x) |].
          { adv_facts. lia. }
          intros [t s2] (A2 & Ht). prj.
          adv_facts. apply wp_finish; try assumption; try lia.
          intros ->. destruct Ht; discriminate.
        - destruct (ch s1 =? 46).
          + apply wp_next_then; [exact I1|]. intros s2 A2 _.
            destruct (ch s2 =? 46).
            * apply wp_next_then; [exact (adv_Inv _ _ A2)|]. intros s3 A3 _.
              apply FIN; [eapply adv_trans; eassumption | assumption | discriminate].
            * apply FIN; [apply adv_errf; assumption | assumption | discriminate].
          + apply FIN; [apply adv_refl; exact I1 | assumption | discriminate]. }
      assert (SIMPLE : forall t ie, t <> INTERPOLATION -> wp (FS s) (scan_post s) (finish t offset ie s1)).
      { intros t ie Ht. apply FIN; [apply adv_refl; exact I1 | assumption | assumption]. }
      destruct (c =? 44); [apply SIMPLE; discriminate|].
      destruct (c =? 40); [apply SIMPLE; discriminate|].
      destruct (c =? 41); [apply SIMPLE; discriminate|].
      destruct (c =? 91); [apply SIMPLE; discriminate|].
      destruct (c =? 93); [apply SIMPLE; discriminate|].
      destruct (c =? 123); [apply SIMPLE; discriminate|].
      destruct (c =? 125); [apply SIMPLE; discriminate|].
      destruct (c =? 43); [apply SIMPLE; discriminate|].
      destruct (c =? 45); [apply SIMPLE; discriminate|].
      destruct (c =? 42); [apply SIMPLE; discriminate|].
      destruct (c =? 47) eqn:E47.
      { (* '/' *)
        destruct (ch s1 =? 47); [|apply SIMPLE; discriminate].
        destruct (ins s1) eqn:Ei.
        - (* a comma is inserted before the comment; the scanner is reset to its start *)
          assert (offset = off sd) by lia. subst offset.
          pose proof (inv_cur _ Id). pose proof (inv_rd _ Id). pose proof (inv_qs_off _ Id).
          adv_facts.
          unfold scan_post; prj; unfold mu; prj.
          split.
          { constructor; prj; try lia. - exact (inv_qs _ I1). - intros Hq. apply H1. congruence. }
          replace (ins s) with true by congruence.
          ivs; try lia; try discriminate; auto.
        - eapply wp_bind; [apply (scan_comment_spec _ s1 I1) | exact (fun x => x) |].
          { adv_facts. lia. }
          intros s2 A2. destruct (negb scan_comments).
          + adv_facts. apply scan_rec_later; prj; try lia; try (apply Inv_set_ins; assumption); try (left; reflexivity).
          + apply FIN; [assumption | assumption | discriminate]. }
      destruct (c =? 60).
      { destruct (ch s1 =? 45); [apply NXT; [assumption | discriminate] | apply OP2; [assumption | discriminate | discriminate]]. }
      destruct (c =? 62); [apply OP2; [assumption | discriminate | discriminate]|].
      destruct (c =? 61).
      { destruct (ch s1 =? 126); [apply NXT; [assumption | discriminate] | apply OP2; [assumption | discriminate | discriminate]]. }
      destruct (c =? 33).
      { destruct (ch s1 =? 126); [apply NXT; [assumption | discriminate] | apply OP2; [assumption | discriminate | discriminate]]. }
      destruct (c =? 38).
      { destruct (ch s1 =? 38); [apply NXT; [assumption | discriminate] | apply SIMPLE; discriminate]. }
      destruct (c =? 124).
      { destruct (ch s1 =? 124); [apply NXT; [assumption | discriminate] | apply SIMPLE; discriminate]. }
      apply FIN; [apply adv_errf_if, adv_refl; exact I1 | assumption | discriminate].
    Qed.

    Notation scan_body := (scan_body src isLetterU isDigitU scan_comments dont_insert scan_rec attr_rec).
    Notation attr_body := (attr_body src scan_rec attr_rec).

    Lemma is_letter_ident c : is_letter isLetterU c = true -> is_ident_part isLetterU isDigitU c = true.
    Proof. unfold is_ident_part. intros ->. reflexivity. Qed.

    Lemma scan_body_spec s : Inv s -> wp (FS s) (scan_post s) (scan_body s).
    Proof.
      intros Is. unfold Scan.scan_body.
      eapply wp_bind; [apply (skip_ws_lf _ s Is) | exact (fun x => x) |].
      intros s0 A0. cbv zeta. pose proof (adv_Inv _ _ A0) as I0.
      destruct ((48 <=? ch s0) && (ch s0 <=? 57)) eqn:Ed.
      { eapply wp_bind;
          [apply wp_and_ret; [apply (scan_number_false_spec _ s0 I0); lia | apply scan_number_tok]
          | exact (fun x => x) |].
        intros [t s1] ((A1 & L1) & Ht). prj. adv_facts.
        apply wp_finish; try assumption; try lia. intros ->. destruct Ht; discriminate. }
      destruct (is_letter isLetterU (ch s0) || (ch s0 =? 36) || (ch s0 =? 35)) eqn:El.
      { eapply wp_bind; [apply (scan_field_identifier_spec _ s0 I0) | exact (fun x => x) |].
        intros [lit s1] (A1 & L1). prj.
        assert (L : off s0 < off s1).
        { apply L1. destruct (ch s0 =? 35) eqn:E35; [left; lia | right].
          destruct (is_letter isLetterU (ch s0)) eqn:E1; [apply is_letter_ident; assumption|].
          unfold is_ident_part. replace (ch s0 =? 36) with true by lia.
          repeat rewrite orb_true_r. reflexivity. }
        assert (FINI : forall t, t <> INTERPOLATION -> wp (FS s) (scan_post s) (finish t (off s0) true s1)).
        { intros t Ht. adv_facts. apply wp_finish; try assumption; try lia. congruence. }
        destruct (1 <? Z.of_nat (length lit)).
        { apply FINI. unfold lookup.
          repeat match goal with |- context [if ?b then _ else _] => destruct b end; discriminate. }
        match goal with |- context [if ?b then _ else _] => destruct b eqn:Eb end.
        { apply FINI. discriminate. }
        apply default_case_spec; try assumption; try reflexivity.
        - eapply adv_trans; eassumption.
        - adv_facts; lia.
        - lia.
        - lia.
        - right. lia. }
      apply default_case_spec; try assumption; try reflexivity; try lia;
        try (adv_facts; lia); try (left; reflexivity).
    Qed.

    Notation FA s := (G + 1 < 2 * mu s + 3).

    Lemma attr_post_trans s s1 s2 : attr_post s s1 -> attr_post s1 s2 -> attr_post s s2.
    Proof. unfold attr_post. intros (I1 & ? & ? & ?) (I2 & ? & ? & ?). ivs; lia. Qed.

    Lemma attr_body_spec close s : Inv s -> wp (FA s) (attr_post s) (attr_body close s).
    Proof.
      intros Is. unfold Scan.attr_body.
      eapply wp_bind; [apply (scan_rec_spec s Is) | lia |].
      intros [r s1] (I1 & P1 & P2 & P3 & P4 & P5 & P6 & P7 & P8). prj.
      assert (A1 : attr_post s s1) by (unfold attr_post; ivs; lia).
      destruct (tok_beq (r_tok r) close); [exact A1|].
      (* continue the loop from a state reached after a non-EOF token *)
      assert (CONT : forall s2, r_tok r <> EOF -> attr_post s1 s2 ->
                wp (FA s) (attr_post s) (attr_rec close s2)).
      { intros s2 Hne (I2 & O2 & E2 & M2). specialize (P5 Hne).
        eapply wp_weaken; [apply (attr_rec_spec close s2 I2) | lia |].
        intros s3 A3. eapply attr_post_trans; [|exact A3]. unfold attr_post; ivs; lia. }
      assert (REFL : attr_post s1 s1) by (unfold attr_post; ivs; lia).
      assert (ERR : attr_post s1 (errf s1)).
      { unfold attr_post, mu; prj. split; [apply Inv_errf; exact I1 | lia]. }
      assert (NEST : forall cl, r_tok r <> EOF ->
                wp (FA s) (attr_post s) (s2 <- attr_rec cl s1 ;; attr_rec close s2)).
      { intros cl Hne. pose proof (P5 Hne).
        eapply wp_bind; [apply (attr_rec_spec cl s1 I1) | lia |].
        intros s2 A2. apply CONT; assumption. }
      destruct (r_tok r) eqn:Et;
        try (apply CONT; [discriminate | exact REFL]);
        try (apply CONT; [discriminate | exact ERR]);
        try (apply NEST; discriminate).
      - (* EOF *) prj. eapply attr_post_trans; [exact A1 | exact ERR].
      - (* INTERPOLATION *)
        assert (Ie : Inv (errf s1)) by (apply Inv_errf; exact I1).
        eapply wp_bind; [apply (pop_interp_spec _ (errf s1) Ie) | exact (fun x => x) |].
        { prj. apply P7. reflexivity. }
        intros [q s2] (_ & I2 & O2 & N2 & E2 & _). prj.
        eapply wp_bind; [apply (recover_paren_lf _ 1 s2 I2) | exact (fun x => x) |].
        intros s3 A3. apply CONT; [discriminate|].
        adv_facts. unfold attr_post, mu. ivs; try lia;
          replace (ins s3) with (ins s1) by congruence; lia.
    Qed.
  End Body.

  (* ---- the recursion: Scan / scanAttributeTokens with fuel ---- *)
  Notation scan := (scan src isLetterU isDigitU scan_comments dont_insert).
  Notation attr_tokens := (attr_tokens src isLetterU isDigitU scan_comments dont_insert).
  Notation scan1 := (scan1 src isLetterU isDigitU scan_comments dont_insert).
  Notation resume := (resume src).

  Lemma mu_bounds s : Inv s -> 0 <= mu s <= 2 * len + 1.
  Proof. intros []. unfold mu. destruct (ins s); lia. Qed.

  Lemma scan_attr_spec f :
    (forall s, Inv s -> wp (Z.of_nat f < 2 * mu s + 2) (scan_post s) (scan f s)) /\
    (forall c s, Inv s -> wp (Z.of_nat f < 2 * mu s + 3) (attr_post s) (attr_tokens f c s)).
  Proof.
    induction f as [|f [IS IA]].
    - split; intros; cbn [Scan.scan Scan.attr_tokens wp]; pose proof (mu_bounds s H); lia.
    - split; intros.
      + cbn [Scan.scan]. eapply wp_weaken;
          [apply (scan_body_spec (scan f) (attr_tokens f) (Z.of_nat f) IS IA s H) | lia | auto].
      + cbn [Scan.attr_tokens]. eapply wp_weaken;
          [apply (attr_body_spec (scan f) (attr_tokens f) (Z.of_nat f) IS IA c s H) | lia | auto].
  Qed.

  (* One Scan call from any state satisfying the invariant: no panic, the fuel
     [scan_fuel] = 4*len+8 is enough, and the postcondition holds. *)
  Theorem scan1_spec s : Inv s -> wp False (scan_post s) (scan1 s).
  Proof.
    intros I. unfold Scan.scan1.
    eapply wp_weaken; [apply (proj1 (scan_attr_spec _) s I) | | auto].
    pose proof (mu_bounds s I). unfold scan_fuel, Scan.len in *. lia.
  Qed.

  Theorem scan_no_panic f s : Inv s -> scan f s <> Panic.
  Proof.
    intros I H. pose proof (proj1 (scan_attr_spec f) s I) as W. rewrite H in W. exact W.
  Qed.

  Theorem scan_fuel_enough f s : Inv s -> (2 * mu s + 2 <= Z.of_nat f) -> scan f s <> Fuel.
  Proof.
    intros I Hf H. pose proof (proj1 (scan_attr_spec f) s I) as W. rewrite H in W. cbn [wp] in W. lia.
  Qed.

  Theorem resume_total s : Inv s -> qs s <> [] -> wp False (resume_post s) (resume s).
  Proof. intros. apply resume_spec; assumption. Qed.

  (* Readable corollaries of [scan1_spec]. *)
  Theorem scan_total s : Inv s -> exists r s', scan1 s = Ok (r, s') /\ Inv s'.
  Proof.
    intros I. pose proof (scan1_spec s I) as W.
    destruct (scan1 s) as [[r s']| |]; cbn [wp] in W; [| destruct W | destruct W].
    exists r, s'. split; [reflexivity | exact (proj1 W)].
  Qed.

  (* scan_progress: a Scan call that does not return EOF strictly decreases
     2*(len - offset) + insertEOL: it consumes at least one byte, or it emits the
     pending inserted comma; a token that is not an inserted comma is not empty. *)
  Theorem scan_progress s r s' : Inv s -> scan1 s = Ok (r, s') -> r_tok r <> EOF ->
    mu s' < mu s /\ (r_elided r = false -> r_start r < off s').
  Proof.
    intros I H Hne. pose proof (scan1_spec s I) as W. rewrite H in W.
    destruct W as (_ & _ & _ & _ & _ & P5 & P6 & _). prj. auto.
  Qed.

  (* position monotonicity of one call *)
  Theorem scan_offsets s r s' : Inv s -> scan1 s = Ok (r, s') ->
    0 <= off s <= r_start r /\ r_start r <= off s' <= len /\ errs s <= errs s'.
  Proof.
    intros I H. pose proof (scan1_spec s I) as W. rewrite H in W.
    destruct W as (I' & P1 & P2 & P3 & _). prj.
    pose proof (inv_off _ I). pose proof (inv_off_rd _ I'). pose proof (inv_rd _ I'). lia.
  Qed.

  (* ---- tokenisation: Init, then Scan until EOF ---- *)
  Notation tokens_from := (tokens_from src isLetterU isDigitU scan_comments dont_insert).
  Notation tokenize := (tokenize src isLetterU isDigitU scan_comments dont_insert).

  (* token starts are non-decreasing and lie in [lo, len] *)
  Fixpoint starts_from (lo : Z) (l : list res) : Prop :=
    match l with
    | [] => True
    | r :: l' => lo <= r_start r <= len /\ starts_from (r_start r) l'
    end.

  (* every token that is not an inserted comma starts strictly before its successor *)
  Fixpoint strict_starts (l : list res) : Prop :=
    match l with
    | r :: ((r2 :: _) as l') => (r_elided r = false -> r_start r < r_start r2) /\ strict_starts l'
    | _ => True
    end.

  (* the sequence ends with its only EOF *)
  Fixpoint eof_last (l : list res) : Prop :=
    match l with
    | [] => False
    | [r] => r_tok r = EOF
    | r :: l' => r_tok r <> EOF /\ eof_last l'
    end.

  Lemma starts_from_weaken lo lo' l : lo' <= lo -> starts_from lo l -> starts_from lo' l.
  Proof. destruct l; simpl; intuition lia. Qed.

  Definition toks_post (s : st) (l : list res) : Prop :=
    starts_from (off s) l /\ strict_starts l /\ eof_last l /\
    Z.of_nat (length l) <= mu s + 1 /\
    (forall r, In r l -> r_elided r = true -> r_tok r = COMMA).

  Lemma tok_beq_EOF t : tok_beq t EOF = true <-> t = EOF.
  Proof. split; [destruct t; (reflexivity || discriminate) | intros ->; reflexivity]. Qed.

  Lemma tokens_from_spec n s : Inv s ->
    wp (Z.of_nat n <= mu s) (toks_post s) (tokens_from n s).
  Proof.
    revert s. induction n as [|n IH]; intros s I.
    { simpl. pose proof (mu_bounds s I). lia. }
    cbn [Scan.tokens_from].
    eapply wp_bind; [apply (scan1_spec s I) | intros [] |].
    intros [r s1] (I1 & P1 & P2 & P3 & P4 & P5 & P6 & P7 & P8). prj.
    pose proof (inv_rd _ I1). pose proof (inv_off_rd _ I1). pose proof (mu_bounds s1 I1).
    destruct (tok_beq (r_tok r) EOF) eqn:Et.
    { apply tok_beq_EOF in Et. unfold toks_post. simpl.
      repeat split; try lia; try assumption. intros r0 [<-|[]]. exact P8. }
    assert (Hne : r_tok r <> EOF).
    { intros Heq. apply tok_beq_EOF in Heq. congruence. }
    specialize (P5 Hne).
    eapply wp_bind; [apply (IH s1 I1) | lia |].
    intros rest (R1 & R2 & R3 & R4 & R5). unfold toks_post. cbn [wp].
    split; [|split; [|split; [|split]]].
    - simpl. split; [lia|]. eapply starts_from_weaken; [|exact R1]. lia.
    - destruct rest as [|r2 rest']; [exact Logic.I|]. split; [|exact R2].
      intros He. specialize (P6 Hne He). simpl in R1. lia.
    - destruct rest as [|r2 rest']; [destruct R3|]. split; [exact Hne | exact R3].
    - simpl length. lia.
    - intros r0 [<-|Hin]; [exact P8 | apply R5; exact Hin].
  Qed.

  (* Tokenising a whole file terminates within 2*len+2 Scan calls (the fuel
     given to [tokenize] is never exhausted), never panics, and yields starts
     that are monotone and within [0, len]. *)
  Theorem tokenize_total :
    wp False (fun l => starts_from 0 l /\ strict_starts l /\ eof_last l /\
                       Z.of_nat (length l) <= 2 * len + 2 /\
                       (forall r, In r l -> r_elided r = true -> r_tok r = COMMA)) tokenize.
  Proof.
    unfold Scan.tokenize.
    eapply wp_bind; [apply Inv_init | auto |].
    intros s I. pose proof (mu_bounds s I).
    eapply wp_weaken; [apply (tokens_from_spec _ s I) | unfold Scan.len in *; lia |].
    intros l (R1 & R2 & R3 & R4 & R5).
    repeat split; try assumption; try lia.
    eapply starts_from_weaken; [|exact R1]. exact (inv_off _ I).
  Qed.

  (* ---- arbitrary client scripts of Scan / ResumeInterpolation calls ---- *)
  Notation run_ops := (run_ops src isLetterU isDigitU scan_comments dont_insert).
  Notation run := (run src isLetterU isDigitU scan_comments dont_insert).

  Definition run_fine (r : run_result) : Prop :=
    match r with RunOk _ | RunMisuse _ => True | RunPanic _ | RunFuel _ => False end.

  Lemma run_ops_total ops : forall s acc, Inv s -> run_fine (run_ops ops s acc).
  Proof.
    induction ops as [|o ops IH]; intros s acc I; cbn [Scan.run_ops]; [exact Logic.I|].
    destruct o.
    - pose proof (scan1_spec s I) as W.
      destruct (scan1 s) as [[t s1]| |]; cbn [wp] in W; [| destruct W | destruct W].
      apply IH. destruct W as (I1 & _). exact I1.
    - destruct (qs s) as [|q r] eqn:Eq; [exact Logic.I|].
      assert (Hq : qs s <> []) by congruence.
      pose proof (resume_total s I Hq) as W.
      destruct (resume s) as [s1| |]; cbn [wp] in W; [| destruct W | destruct W].
      apply IH. destruct W as (I1 & _). exact I1.
  Qed.

  (* From Init, no sequence of Scan / ResumeInterpolation calls can make the
     scanner panic or loop; the only failure is the API misuse of resuming with
     no open interpolation. *)
  Theorem run_total ops : run_fine (run ops).
  Proof.
    unfold Scan.run. pose proof Inv_init as W.
    destruct (init src) as [s| |]; cbn [wp] in W; [| destruct W | destruct W].
    apply run_ops_total. exact W.
  Qed.
End Proofs.
