(* C02 (sub-development): theorems about the model of toposort (Topo.v).
     topo_sort_perm_invariant      the result does not depend on the enumeration
                                   order of the nodes (Go map iteration) nor on the
                                   order/multiplicity of the edges -- for ALL graphs,
                                   cyclic ones included
   and for acyclic graphs (given by a ranking of the nodes):
     topo_sort_no_fuel_exhaustion, topo_sort_complete, topo_sort_respects_edges,
     topo_sort_lex_min
     merge_orders_function_of_orders, merge_orders_respects_each_order *)
From Coq Require Import List NArith Bool Arith Lia Sorting.Sorted Sorting.Permutation RelationClasses.
From Verif Require Import Base.Order Robust.Sanitize Robust.SanitizeProofs Robust.Topo.
Import ListNotations.

Lemma total_cmp_pre {A} (c : A -> A -> comparison) : total_cmp c -> total_pre c.
Proof. intros H. exact (total_pre_of_map c (fun x => x) H). Qed.

(* sorting w.r.t. a total order: the result depends on the multiset only *)
Lemma sorted_perm_unique {A} (R : A -> A -> Prop) :
  (forall x y, R x y -> R y x -> x = y) ->
  forall l1 l2, StronglySorted R l1 -> StronglySorted R l2 -> Permutation l1 l2 -> l1 = l2.
Proof.
  intros Hanti. induction l1 as [|a l1 IH]; intros l2 H1 H2 Hp.
  - apply Permutation_nil in Hp. auto.
  - destruct l2 as [|b l2]; [symmetry in Hp; apply Permutation_nil in Hp; discriminate|].
    inversion H1 as [|? ? Hs1 Hf1]; subst. inversion H2 as [|? ? Hs2 Hf2]; subst.
    rewrite Forall_forall in Hf1, Hf2.
    assert (a = b).
    { assert (Ha : In a (b :: l2)) by (eapply Permutation_in; [exact Hp | left; reflexivity]).
      assert (Hb : In b (a :: l1)) by (eapply Permutation_in; [symmetry; exact Hp | left; reflexivity]).
      destruct Ha as [E | Ha]; [congruence|]. destruct Hb as [E | Hb]; [congruence|].
      apply Hanti; [apply Hf1; exact Hb | apply Hf2; exact Ha]. }
    subst b. f_equal. apply IH; auto. eapply Permutation_cons_inv; exact Hp.
Qed.

Lemma isort_perm_eq {A} (c : A -> A -> comparison) : total_cmp c ->
  forall l l', Permutation l l' -> isort (lt_of c) l = isort (lt_of c) l'.
Proof.
  intros Hc l l' Hp. pose proof (total_cmp_pre c Hc) as Hpre.
  apply (sorted_perm_unique (le_of c)).
  - intros x y H1 H2. unfold le_of in *. destruct (c x y) eqn:E.
    + apply (tc_eq c Hc). exact E.
    + exfalso. apply H2. reflexivity.
    + exfalso. apply H1. apply (pre_gt_lt c Hpre). exact E.
  - apply (isort_sorted c Hpre).
  - apply (isort_sorted c Hpre).
  - eapply perm_trans; [symmetry; apply isort_perm|]. eapply perm_trans; [exact Hp | apply isort_perm].
Qed.

Lemma Permutation_filter' {A} (p : A -> bool) l l' :
  Permutation l l' -> Permutation (filter p l) (filter p l').
Proof.
  induction 1 as [| x l l' Hp IH | x y l | l l' l'' H1 IH1 H2 IH2]; simpl.
  - constructor.
  - destruct (p x); auto.
  - destruct (p x), (p y); auto. apply perm_swap.
  - eapply perm_trans; eauto.
Qed.

Lemma existsb_same_members {A} (f : A -> bool) l l' :
  (forall x, In x l <-> In x l') -> existsb f l = existsb f l'.
Proof.
  intros H. destruct (existsb f l) eqn:E; symmetry.
  - apply existsb_exists in E. destruct E as [x [Hx Fx]]. apply existsb_exists. exists x. split; [apply H|]; auto.
  - apply not_true_iff_false. intros E'. apply existsb_exists in E'. destruct E' as [x [Hx Fx]].
    assert (existsb f l = true); [|congruence]. apply existsb_exists. exists x. split; [apply H|]; auto.
Qed.

Section TopoProofs.
  Context {L : Type} (cmp : L -> L -> comparison) (Hc : total_cmp cmp).

  Notation leqb := (leqb cmp).
  Notation mem := (mem cmp).

  Lemma leqb_eq a b : leqb a b = true <-> a = b.
  Proof.
    unfold Topo.leqb. rewrite <- (tc_eq cmp Hc). destruct (cmp a b); split; congruence.
  Qed.

  Lemma leqb_refl a : leqb a a = true.
  Proof. apply leqb_eq. reflexivity. Qed.

  Lemma mem_in a l : mem a l = true <-> In a l.
  Proof.
    unfold Topo.mem. rewrite existsb_exists. split.
    - intros [x [Hx E]]. apply leqb_eq in E. subst. exact Hx.
    - intros H. exists a. split; [exact H | apply leqb_refl].
  Qed.

  Lemma mem_same a l l' : (forall x, In x l <-> In x l') -> mem a l = mem a l'.
  Proof. apply existsb_same_members. Qed.

  Lemma mem_false a l : mem a l = false <-> ~ In a l.
  Proof. rewrite <- mem_in. destruct (mem a l); split; congruence. Qed.

  Lemma get_map (f : L -> list L) l a :
    get cmp (map (fun a => (a, f a)) l) a = if mem a l then f a else [].
  Proof.
    induction l as [|k l IH]; simpl; [reflexivity|].
    destruct (leqb a k) eqn:E; simpl.
    - apply leqb_eq in E. subst. reflexivity.
    - exact IH.
  Qed.

  (* ---------------------------------------------------------------- *)
  (* reachability                                                      *)
  (* ---------------------------------------------------------------- *)
  Lemma succs_in edges r y :
    In y (succs cmp edges r) <-> exists x, In x r /\ In (x, y) edges.
  Proof.
    unfold succs. rewrite in_map_iff. split.
    - intros [[x y'] [E H]]. simpl in E. subst y'. apply filter_In in H. destruct H as [H1 H2].
      simpl in H2. apply mem_in in H2. exists x. auto.
    - intros [x [H1 H2]]. exists (x, y). split; [reflexivity|]. apply filter_In. split; [exact H2|].
      simpl. apply mem_in. exact H1.
  Qed.

  Lemma add_new_in ys r x : In x (add_new cmp ys r) <-> In x ys \/ In x r.
  Proof.
    unfold add_new. induction ys as [|y ys IH]; simpl; [tauto|].
    destruct (mem y _) eqn:E.
    - rewrite IH. split; [tauto|]. intros [[<- | H] | H]; auto. apply IH. apply mem_in. exact E.
    - simpl. rewrite IH. tauto.
  Qed.

  Lemma expand_in edges r x :
    In x (expand cmp edges r) <-> In x r \/ exists z, In z r /\ In (z, x) edges.
  Proof. unfold expand. rewrite add_new_in, succs_in. tauto. Qed.

  Lemma reach_set_same edges edges' k : forall r r',
    (forall e, In e edges <-> In e edges') -> (forall x, In x r <-> In x r') ->
    forall x, In x (reach_set cmp edges k r) <-> In x (reach_set cmp edges' k r').
  Proof.
    induction k as [|k IH]; intros r r' He Hr x; simpl; [apply Hr|].
    apply IH; [exact He|]. intros y. rewrite !expand_in.
    split; (intros [H | [z [H1 H2]]]; [left; apply Hr; exact H | right; exists z; split; [apply Hr | apply He]; assumption]).
  Qed.

  Lemma reach_set_mono edges k : forall r x, In x r -> In x (reach_set cmp edges k r).
  Proof.
    induction k as [|k IH]; intros r x H; simpl; [exact H|]. apply IH. apply expand_in. auto.
  Qed.

  (* ---------------------------------------------------------------- *)
  (* components                                                        *)
  (* ---------------------------------------------------------------- *)
  Definition sccf nodes edges : L -> list L := get cmp (scc_tab cmp nodes edges).

  Lemma sccf_eq nodes edges a :
    sccf nodes edges a =
    if mem a nodes then scc_with cmp nodes (reach_tab cmp nodes edges) a else [].
  Proof. unfold sccf, scc_tab. apply get_map. Qed.

  Lemma reach_tab_get nodes edges a :
    get cmp (reach_tab cmp nodes edges) a =
    if mem a nodes then reach_set cmp edges (length nodes) [a] else [].
  Proof. unfold reach_tab. apply get_map. Qed.

  Lemma sccf_perm nodes nodes' edges edges' :
    Permutation nodes nodes' -> (forall e, In e edges <-> In e edges') ->
    forall a, sccf nodes edges a = sccf nodes' edges' a.
  Proof.
    intros Hp He a. rewrite !sccf_eq.
    assert (Hn : forall x, In x nodes <-> In x nodes').
    { intros x. split; apply Permutation_in; [|symmetry]; exact Hp. }
    rewrite (mem_same a nodes nodes' Hn). destruct (mem a nodes'); [|reflexivity].
    unfold scc_with.
    assert (Hrt : forall b x, In x (get cmp (reach_tab cmp nodes edges) b) <->
                              In x (get cmp (reach_tab cmp nodes' edges') b)).
    { intros b x. rewrite !reach_tab_get. rewrite (mem_same b nodes nodes' Hn).
      destruct (mem b nodes'); [|tauto]. rewrite (Permutation_length Hp).
      apply reach_set_same; [exact He | tauto]. }
    rewrite (filter_ext _ (fun b => mem b (get cmp (reach_tab cmp nodes' edges') a)
                                    && mem a (get cmp (reach_tab cmp nodes' edges') b))).
    - apply isort_perm_eq; [exact Hc|]. apply Permutation_filter'. exact Hp.
    - intros b. f_equal; apply mem_same; intros x; apply Hrt.
  Qed.

  (* ---------------------------------------------------------------- *)
  (* selection of the smallest ready component                          *)
  (* ---------------------------------------------------------------- *)
  Lemma comp_cmp_total : total_cmp (comp_cmp cmp).
  Proof. apply list_cmp_total. exact Hc. Qed.

  Lemma pick_min_none cs : pick_min cmp cs = None <-> cs = [].
  Proof.
    destruct cs as [|c cs]; simpl; [tauto|]. split; [|discriminate].
    destruct (pick_min cmp cs); [destruct (comp_cmp cmp c l)|]; discriminate.
  Qed.

  Lemma pick_min_spec cs m :
    pick_min cmp cs = Some m -> In m cs /\ forall c, In c cs -> comp_cmp cmp m c <> Gt.
  Proof.
    pose proof (total_cmp_pre _ comp_cmp_total) as Hpre.
    revert m. induction cs as [|c cs IH]; intros m; simpl; [discriminate|].
    destruct (pick_min cmp cs) as [m'|] eqn:E.
    - destruct (IH m' eq_refl) as [Hin Hmin].
      destruct (comp_cmp cmp c m') eqn:Ec; intros [= <-].
      + apply (tc_eq _ comp_cmp_total) in Ec. subst m'. split; [auto|].
        intros x [<- | Hx]; [rewrite (tc_refl _ comp_cmp_total); discriminate | apply Hmin; exact Hx].
      + split; [auto|]. intros x [<- | Hx]; [rewrite (tc_refl _ comp_cmp_total); discriminate|].
        specialize (Hmin x Hx). intros G. apply (pre_gt_lt _ Hpre) in G.
        destruct (comp_cmp cmp m' x) eqn:Em; [| |congruence].
        * apply (tc_eq _ comp_cmp_total) in Em. subst x. apply (lt_asym _ Hpre _ _ Ec G).
        * apply (lt_asym _ Hpre c m' Ec). apply (tp_trans _ Hpre _ _ _ Em G).
      + split; [auto|]. intros x [<- | Hx]; [|apply Hmin; exact Hx].
        apply (pre_gt_lt _ Hpre) in Ec. rewrite Ec. discriminate.
    - apply pick_min_none in E. subst cs. intros [= <-]. split; [auto|].
      intros x [<- | []]. rewrite (tc_refl _ comp_cmp_total). discriminate.
  Qed.

  Lemma pick_min_same cs cs' :
    (forall c, In c cs <-> In c cs') -> pick_min cmp cs = pick_min cmp cs'.
  Proof.
    pose proof (total_cmp_pre _ comp_cmp_total) as Hpre.
    intros H. destruct (pick_min cmp cs) as [m|] eqn:E, (pick_min cmp cs') as [m'|] eqn:E'.
    - apply pick_min_spec in E, E'. destruct E as [Hi Hm], E' as [Hi' Hm'].
      f_equal. specialize (Hm m' (proj2 (H _) Hi')). specialize (Hm' m (proj1 (H _) Hi)).
      destruct (comp_cmp cmp m m') eqn:G; [apply (tc_eq _ comp_cmp_total); exact G | | congruence].
      exfalso. apply Hm'. apply (pre_gt_lt _ Hpre). exact G.
    - apply pick_min_none in E'. subst cs'. apply pick_min_spec in E. exfalso. apply (H m), E.
    - apply pick_min_none in E. subst cs. apply pick_min_spec in E'. exfalso. apply (H m'), E'.
    - reflexivity.
  Qed.

  Lemma has_ext_pred_same edges edges' rem rem' c :
    (forall e, In e edges <-> In e edges') -> (forall x, In x rem <-> In x rem') ->
    has_ext_pred cmp edges rem c = has_ext_pred cmp edges' rem' c.
  Proof.
    intros He Hr. unfold has_ext_pred.
    rewrite (existsb_same_members _ edges edges' He).
    clear He. induction edges' as [|e es IH]; simpl; [reflexivity|].
    rewrite IH. rewrite (mem_same (fst e) rem rem' Hr). reflexivity.
  Qed.

  (* ---------------------------------------------------------------- *)
  (* Kahn's loop does not depend on the enumeration                     *)
  (* ---------------------------------------------------------------- *)
  Lemma kahn_perm edges edges' (f f' : L -> list L) :
    (forall e, In e edges <-> In e edges') -> (forall a, f a = f' a) ->
    forall fuel rem rem' acc, Permutation rem rem' ->
      kahn cmp edges f fuel rem acc = kahn cmp edges' f' fuel rem' acc.
  Proof.
    intros He Hf. induction fuel as [|fuel IH]; intros rem rem' acc Hp.
    - destruct rem as [|a rem].
      + apply Permutation_nil in Hp. subst. reflexivity.
      + destruct rem' as [|a' rem']; [symmetry in Hp; apply Permutation_nil in Hp; discriminate|]. reflexivity.
    - assert (Hr : forall x, In x rem <-> In x rem').
      { intros x. split; apply Permutation_in; [|symmetry]; exact Hp. }
      assert (Hready : forall c, In c (ready cmp edges f rem) <-> In c (ready cmp edges' f' rem')).
      { intros c. unfold ready. rewrite !filter_In, !in_map_iff.
        rewrite (has_ext_pred_same edges edges' rem rem' c He Hr).
        split; intros [[x [E Hx]] Hb]; (split; [exists x; split; [rewrite <- E; auto | apply Hr; exact Hx] | exact Hb]). }
      destruct rem as [|a rem].
      + apply Permutation_nil in Hp. subst. reflexivity.
      + destruct rem' as [|a' rem']; [symmetry in Hp; apply Permutation_nil in Hp; discriminate|].
        cbn [kahn]. rewrite (pick_min_same _ _ Hready).
        destruct (pick_min cmp (ready cmp edges' f' (a' :: rem'))) as [c|]; [|reflexivity].
        apply IH. apply Permutation_filter'. exact Hp.
  Qed.

  (* Graph.Sort does not depend on the order in which the Go map hands out the
     nodes, nor on the order (or repetition) of the AddEdge calls. *)
  Theorem topo_sort_perm_invariant nodes nodes' edges edges' :
    Permutation nodes nodes' -> (forall e, In e edges <-> In e edges') ->
    topo_sort cmp nodes edges = topo_sort cmp nodes' edges'.
  Proof.
    intros Hp He. unfold topo_sort. cbv zeta. rewrite (Permutation_length Hp).
    apply kahn_perm; [exact He | | exact Hp].
    intros a. apply (sccf_perm nodes nodes' edges edges' Hp He a).
  Qed.

  (* ---------------------------------------------------------------- *)
  (* Acyclic graphs                                                     *)
  (* ---------------------------------------------------------------- *)

  (* acyclic: the nodes can be ranked so that every edge goes upwards *)
  Definition ranked (edges : list (L * L)) : Prop :=
    exists rank : L -> nat, forall a b, In (a, b) edges -> rank a < rank b.
  Definition closed (nodes : list L) (edges : list (L * L)) : Prop :=
    forall a b, In (a, b) edges -> In a nodes /\ In b nodes.

  (* t is a topological order: no edge leads from a later to an earlier element *)
  Fixpoint topo_ok (edges : list (L * L)) (t : list L) : Prop :=
    match t with
    | [] => True
    | m :: t' => (forall a, In a t' -> ~ In (a, m) edges) /\ topo_ok edges t'
    end.

  (* position of the first occurrence *)
  Fixpoint idx (t : list L) (x : L) : nat :=
    match t with
    | [] => 0
    | y :: t' => if leqb x y then 0 else S (idx t' x)
    end.

  Lemma filter_none (p : L -> bool) l : (forall b, In b l -> p b = false) -> filter p l = [].
  Proof.
    induction l as [|x l IH]; simpl; intros H; [reflexivity|].
    rewrite (H x (or_introl eq_refl)). apply IH. intros b Hb. apply H. right. exact Hb.
  Qed.

  Lemma filter_all (p : L -> bool) l : (forall b, In b l -> p b = true) -> filter p l = l.
  Proof.
    induction l as [|x l IH]; simpl; intros H; [reflexivity|].
    rewrite (H x (or_introl eq_refl)). f_equal. apply IH. intros b Hb. apply H. right. exact Hb.
  Qed.

  Lemma filter_single (p : L -> bool) l a :
    NoDup l -> In a l -> (forall b, In b l -> (p b = true <-> b = a)) -> filter p l = [a].
  Proof.
    induction l as [|x l IH]; intros Hnd Hin Hp; [destruct Hin|].
    inversion Hnd as [|? ? Hx Hnd']; subst. simpl.
    destruct Hin as [-> | Hin].
    - rewrite (proj2 (Hp a (or_introl eq_refl)) eq_refl). f_equal.
      apply filter_none. intros b Hb. destruct (p b) eqn:E; [|reflexivity].
      exfalso. apply Hx. assert (b = a) by (apply (Hp b); [right; exact Hb | exact E]). subst. exact Hb.
    - destruct (p x) eqn:E.
      + exfalso. apply Hx. assert (x = a) by (apply (Hp x); simpl; auto). subst. exact Hin.
      + apply IH; auto. intros b Hb. apply Hp. right. exact Hb.
  Qed.

  Lemma remove_perm (m : L) R :
    NoDup R -> In m R -> Permutation R (m :: filter (fun x => negb (mem x [m])) R).
  Proof.
    induction R as [|x R IH]; intros Hnd Hin; [destruct Hin|].
    inversion Hnd as [|? ? Hx Hnd']; subst. simpl.
    destruct (leqb x m) eqn:E; simpl.
    - apply leqb_eq in E. subst x. apply perm_skip.
      rewrite filter_all; [apply Permutation_refl|].
      intros y Hy. simpl. rewrite orb_false_r. destruct (leqb y m) eqn:E'; [|reflexivity].
      apply leqb_eq in E'. subst y. contradiction.
    - destruct Hin as [-> | Hin]; [rewrite leqb_refl in E; discriminate|].
      eapply perm_trans; [apply perm_skip; apply IH; assumption|]. apply perm_swap.
  Qed.

  Lemma idx_lt_split t a b :
    idx t a < idx t b -> In b t -> exists l1 l2, t = l1 ++ a :: l2 /\ In b l2.
  Proof.
    induction t as [|y t IH]; simpl; [lia|].
    destruct (leqb a y) eqn:Ea.
    - apply leqb_eq in Ea. subst y. destruct (leqb b a) eqn:Eb; [lia|].
      intros _ [E | Hb]; [subst; rewrite leqb_refl in Eb; discriminate|].
      exists [], t. auto.
    - destruct (leqb b y) eqn:Eb; [lia|]. intros Hlt [E | Hb]; [subst; rewrite leqb_refl in Eb; discriminate|].
      destruct (IH (proj2 (Nat.succ_lt_mono _ _) Hlt) Hb) as [l1 [l2 [-> H2]]].
      exists (y :: l1), l2. auto.
  Qed.

  Lemma topo_ok_idx edges t a b :
    topo_ok edges t -> In (a, b) edges -> In a t -> In b t -> a <> b -> idx t a < idx t b.
  Proof.
    induction t as [|m t IH]; simpl; intros Hok He Ha Hb Hab; [destruct Ha|].
    destruct Hok as [Hm Hok].
    destruct (leqb a m) eqn:Ea.
    - apply leqb_eq in Ea. subst m. destruct (leqb b a) eqn:Eb; [apply leqb_eq in Eb; congruence | lia].
    - destruct (leqb b m) eqn:Eb.
      + apply leqb_eq in Eb. subst m. exfalso. destruct Ha as [-> | Ha]; [congruence|]. apply (Hm a Ha He).
      + apply (proj1 (Nat.succ_lt_mono _ _)).
        destruct Ha as [-> | Ha]; [rewrite leqb_refl in Ea; discriminate|].
        destruct Hb as [-> | Hb]; [rewrite leqb_refl in Eb; discriminate|]. apply IH; assumption.
  Qed.

  Lemma idx_topo_ok edges t :
    NoDup t -> (forall a b, In (a, b) edges -> In a t -> In b t -> idx t a < idx t b) -> topo_ok edges t.
  Proof.
    induction t as [|m t IH]; intros Hnd H; simpl; [exact I|].
    inversion Hnd as [|? ? Hm Hnd']; subst. split.
    - intros a Ha He. specialize (H a m He (or_intror Ha) (or_introl eq_refl)). simpl in H.
      rewrite leqb_refl in H. lia.
    - apply IH; [exact Hnd'|]. intros a b He Ha Hb.
      specialize (H a b He (or_intror Ha) (or_intror Hb)). simpl in H.
      destruct (leqb a m) eqn:Ea; [apply leqb_eq in Ea; subst; contradiction|].
      destruct (leqb b m) eqn:Eb; [apply leqb_eq in Eb; subst; contradiction|]. lia.
  Qed.

  Section Dag.
    Variables (nodes : list L) (edges : list (L * L)) (rank : L -> nat).
    Hypothesis Hrank : forall a b, In (a, b) edges -> rank a < rank b.
    Hypothesis Hnd : NoDup nodes.

    Lemma reach_set_rank k : forall r x,
      In x (reach_set cmp edges k r) -> exists z, In z r /\ (x = z \/ rank z < rank x).
    Proof.
      induction k as [|k IH]; intros r x H; simpl in H; [exists x; auto|].
      apply IH in H. destruct H as [z [Hz Hx]]. apply expand_in in Hz.
      destruct Hz as [Hz | [w [Hw Hwz]]]; [exists z; auto|].
      exists w. split; [exact Hw|]. right. apply Hrank in Hwz. destruct Hx; subst; lia.
    Qed.

    (* in an acyclic graph every component is a single node *)
    Lemma sccf_dag a : In a nodes -> sccf nodes edges a = [a].
    Proof.
      intros Ha. rewrite sccf_eq. rewrite (proj2 (mem_in a nodes) Ha). unfold scc_with.
      rewrite (filter_single _ nodes a Hnd Ha); [reflexivity|].
      intros b Hb. rewrite !reach_tab_get, (proj2 (mem_in a nodes) Ha), (proj2 (mem_in b nodes) Hb).
      rewrite andb_true_iff, !mem_in. split.
      - intros [H1 H2]. apply reach_set_rank in H1, H2.
        destruct H1 as [z [[<- | []] H1]], H2 as [z [[<- | []] H2]].
        destruct H1 as [-> | H1]; [reflexivity|]. destruct H2 as [-> | H2]; [reflexivity | lia].
      - intros ->. split; apply reach_set_mono; left; reflexivity.
    Qed.

    Lemma min_rank (R : list L) : R <> [] -> exists m, In m R /\ forall x, In x R -> rank m <= rank x.
    Proof.
      induction R as [|a R IH]; [congruence|]. intros _. destruct R as [|b R].
      - exists a. split; [left; reflexivity|]. intros x [<- | []]. lia.
      - destruct IH as [m [Hm Hmin]]; [discriminate|].
        destruct (le_lt_dec (rank a) (rank m)).
        + exists a. split; [left; reflexivity|]. intros x [<- | Hx]; [lia|]. specialize (Hmin x Hx). lia.
        + exists m. split; [right; exact Hm|]. intros x [<- | Hx]; [lia | apply Hmin; exact Hx].
    Qed.

    Lemma has_ext_pred_false R m :
      has_ext_pred cmp edges R [m] = false <-> forall a, In a R -> a <> m -> ~ In (a, m) edges.
    Proof.
      unfold has_ext_pred. split.
      - intros H a Ha Hne He.
        assert (existsb (fun e => mem (snd e) [m] && negb (mem (fst e) [m]) && mem (fst e) R) edges = true);
          [|congruence].
        apply existsb_exists. exists (a, m). split; [exact He|]. simpl.
        rewrite leqb_refl. simpl. rewrite (proj2 (mem_in a R) Ha).
        destruct (leqb a m) eqn:E; [apply leqb_eq in E; contradiction | reflexivity].
      - intros H. apply not_true_iff_false. intros E. apply existsb_exists in E.
        destruct E as [[a b] [He E]]. simpl in E. rewrite !andb_true_iff in E. destruct E as [[E1 E2] E3].
        rewrite orb_false_r in E1, E2. apply leqb_eq in E1. subst b. apply mem_in in E3.
        apply (H a E3); [|exact He]. intros ->. rewrite leqb_refl in E2. discriminate.
    Qed.

    (* Kahn's loop on an acyclic graph: never stuck, emits every remaining node
       once, in a topological order, and that order is the lexicographically
       least one *)
    Lemma kahn_dag : forall fuel R acc,
      NoDup R -> (forall a, In a R -> In a nodes) -> length R <= fuel ->
      exists t, kahn cmp edges (sccf nodes edges) fuel R acc = Some (acc ++ t)
                /\ Permutation R t /\ topo_ok edges t
                /\ (forall t', Permutation R t' -> topo_ok edges t' -> list_cmp cmp t t' <> Gt).
    Proof.
      induction fuel as [|fuel IH]; intros R acc HndR Hsub Hlen.
      - destruct R; [|simpl in Hlen; lia]. exists []. rewrite app_nil_r. simpl.
        repeat split; auto. intros t' Hp _. apply Permutation_nil in Hp. subst. simpl. discriminate.
      - destruct R as [|a0 R0] eqn:ER.
        { exists []. rewrite app_nil_r. simpl. repeat split; auto.
          intros t' Hp _. apply Permutation_nil in Hp. subst. simpl. discriminate. }
        rewrite <- ER in *. assert (Hne : R <> []) by (rewrite ER; discriminate).
        (* a node of least rank is ready *)
        destruct (min_rank R Hne) as [m0 [Hm0 Hmin0]].
        assert (Hready0 : In [m0] (ready cmp edges (sccf nodes edges) R)).
        { unfold ready. apply filter_In. split.
          - apply in_map_iff. exists m0. split; [apply sccf_dag; apply Hsub; exact Hm0 | exact Hm0].
          - apply negb_true_iff. apply has_ext_pred_false. intros a Ha _ He.
            apply Hrank in He. specialize (Hmin0 a Ha). lia. }
        destruct (pick_min cmp (ready cmp edges (sccf nodes edges) R)) as [c|] eqn:Epick;
          [|apply pick_min_none in Epick; rewrite Epick in Hready0; destruct Hready0].
        destruct (pick_min_spec _ _ Epick) as [Hc_in Hc_min].
        unfold ready in Hc_in. apply filter_In in Hc_in. destruct Hc_in as [Hc_map Hc_ready].
        apply in_map_iff in Hc_map. destruct Hc_map as [m [Em Hm]].
        rewrite (sccf_dag m (Hsub m Hm)) in Em. subst c.
        apply negb_true_iff in Hc_ready.
        pose proof (proj1 (has_ext_pred_false R m) Hc_ready) as Hnopred.
        set (R' := filter (fun x => negb (mem x [m])) R).
        assert (HpR : Permutation R (m :: R')) by (apply remove_perm; assumption).
        assert (HndR' : NoDup R') by (apply NoDup_filter; exact HndR).
        assert (HsubR' : forall a, In a R' -> In a nodes).
        { intros a Ha. apply Hsub. apply filter_In in Ha. tauto. }
        assert (HlenR' : length R' <= fuel).
        { apply Permutation_length in HpR. simpl in HpR. lia. }
        destruct (IH R' (acc ++ [m]) HndR' HsubR' HlenR') as [t1 [Hk [Hp1 [Hok1 Hmin1]]]].
        exists (m :: t1).
        assert (HR'in : forall a, In a R' -> In a R /\ a <> m).
        { intros a Ha. apply filter_In in Ha. destruct Ha as [Ha Hb]. split; [exact Ha|].
          intros ->. simpl in Hb. rewrite leqb_refl in Hb. discriminate. }
        split; [| split; [| split]].
        + rewrite ER. cbn [kahn]. rewrite <- ER. rewrite Epick. fold R'. rewrite Hk.
          rewrite <- app_assoc. reflexivity.
        + eapply perm_trans; [exact HpR | apply perm_skip; exact Hp1].
        + simpl. split; [|exact Hok1]. intros a Ha.
          apply (Permutation_in _ (Permutation_sym Hp1)) in Ha. apply HR'in in Ha. destruct Ha.
          apply Hnopred; assumption.
        + intros t' Hp' Hok'.
          destruct t' as [|h t1']; [exfalso; apply Hne; apply Permutation_nil; symmetry; exact Hp'|].
          assert (Hh : In h R) by (eapply Permutation_in; [symmetry; exact Hp' | left; reflexivity]).
          assert (Hreadyh : In [h] (ready cmp edges (sccf nodes edges) R)).
          { unfold ready. apply filter_In. split.
            - apply in_map_iff. exists h. split; [apply sccf_dag; apply Hsub; exact Hh | exact Hh].
            - apply negb_true_iff. apply has_ext_pred_false. intros a Ha Hah He.
              simpl in Hok'. destruct Hok' as [Hok' _]. apply (Hok' a); [|exact He].
              apply (Permutation_in _ Hp') in Ha. destruct Ha as [E | Ha]; [congruence | exact Ha]. }
          specialize (Hc_min [h] Hreadyh). unfold comp_cmp in Hc_min. simpl in Hc_min. simpl.
          destruct (cmp m h) eqn:Emh; [| discriminate | exact Hc_min].
          apply (tc_eq cmp Hc) in Emh. subst h. apply Hmin1.
          * apply Permutation_cons_inv with m. eapply perm_trans; [symmetry; exact HpR | exact Hp'].
          * simpl in Hok'. tauto.
    Qed.
  End Dag.

  Lemma topo_sort_dag nodes edges :
    ranked edges -> NoDup nodes ->
    exists t, topo_sort cmp nodes edges = Some t /\ Permutation nodes t /\ topo_ok edges t
              /\ (forall t', Permutation nodes t' -> topo_ok edges t' -> list_cmp cmp t t' <> Gt).
  Proof.
    intros [rank Hrank] Hnd.
    destruct (kahn_dag nodes edges rank Hrank Hnd (length nodes) nodes [] Hnd (fun a H => H) (le_n _))
      as [t [Hk H]].
    exists t. split; [exact Hk | exact H].
  Qed.

  (* on an acyclic graph the loop never runs out of fuel or ready components *)
  Theorem topo_sort_no_fuel_exhaustion nodes edges :
    ranked edges -> NoDup nodes -> topo_sort cmp nodes edges <> None.
  Proof. intros Hr Hnd. destruct (topo_sort_dag nodes edges Hr Hnd) as [t [E _]]. congruence. Qed.

  (* every label exactly once *)
  Theorem topo_sort_complete nodes edges t :
    ranked edges -> NoDup nodes -> topo_sort cmp nodes edges = Some t ->
    Permutation nodes t /\ NoDup t.
  Proof.
    intros Hr Hnd E. destruct (topo_sort_dag nodes edges Hr Hnd) as [t0 [E0 [Hp _]]].
    assert (t0 = t) by congruence. subst. split; [exact Hp | eapply Permutation_NoDup; eauto].
  Qed.

  (* for every edge (a, b), a is printed before b *)
  Theorem topo_sort_respects_edges nodes edges t :
    ranked edges -> NoDup nodes -> closed nodes edges -> topo_sort cmp nodes edges = Some t ->
    forall a b, In (a, b) edges ->
      idx t a < idx t b /\ exists l1 l2, t = l1 ++ a :: l2 /\ In b l2.
  Proof.
    intros Hr Hnd Hcl E a b He. destruct (topo_sort_dag nodes edges Hr Hnd) as [t0 [E0 [Hp [Hok _]]]].
    assert (t0 = t) by congruence. subst t0.
    destruct (Hcl a b He) as [Ha Hb].
    assert (Hab : a <> b). { destruct Hr as [rank Hrank]. intros ->. apply Hrank in He. lia. }
    assert (Hlt : idx t a < idx t b).
    { apply (topo_ok_idx edges); auto; eapply Permutation_in; eauto. }
    split; [exact Hlt|]. apply idx_lt_split; [exact Hlt | eapply Permutation_in; eauto].
  Qed.

  (* among all topological orders of the graph the result is the
     lexicographically least one (by label name) *)
  Theorem topo_sort_lex_min nodes edges t :
    ranked edges -> NoDup nodes -> topo_sort cmp nodes edges = Some t ->
    forall t', Permutation nodes t' -> topo_ok edges t' -> list_cmp cmp t t' <> Gt.
  Proof.
    intros Hr Hnd E. destruct (topo_sort_dag nodes edges Hr Hnd) as [t0 [E0 [_ [_ Hmin]]]].
    assert (t0 = t) by congruence. subst. exact Hmin.
  Qed.

  (* ---------------------------------------------------------------- *)
  (* Merging declaration orders                                         *)
  (* ---------------------------------------------------------------- *)

  Inductive subseq : list L -> list L -> Prop :=
  | sub_nil l : subseq [] l
  | sub_skip o x l : subseq o l -> subseq o (x :: l)
  | sub_take x o l : subseq o l -> subseq (x :: o) (x :: l).

  Lemma subseq_in o l : subseq o l -> forall a, In a o -> In a l.
  Proof.
    induction 1 as [l | o x l H IH | x o l H IH]; intros a Ha; [destruct Ha | right; auto |].
    destruct Ha as [<- | Ha]; [left; reflexivity | right; auto].
  Qed.

  (* the declaration orders are jointly consistent: their chains form an
     acyclic graph *)
  Definition consistent (os : list (list L)) : Prop := ranked (edges_of_orders os).

  Lemma dedup_in l x : In x (dedup cmp l) <-> In x l.
  Proof.
    induction l as [|a l IH]; simpl; [tauto|].
    destruct (mem a l) eqn:E.
    - rewrite IH. split; [auto|]. intros [<- | H]; [apply mem_in; exact E | exact H].
    - simpl. rewrite IH. tauto.
  Qed.

  Lemma dedup_nodup l : NoDup (dedup cmp l).
  Proof.
    induction l as [|a l IH]; simpl; [constructor|].
    destruct (mem a l) eqn:E; [exact IH|]. constructor; [|exact IH].
    rewrite dedup_in. apply mem_false. exact E.
  Qed.

  Lemma chain_edges_in (o : list L) : forall a b, In (a, b) (chain_edges o) -> In a o /\ In b o.
  Proof.
    induction o as [|x o IH]; intros a b H; [destruct H|].
    destruct o as [|y o]; [destruct H|]. destruct H as [[= <- <-] | H]; [simpl; auto|].
    destruct (IH a b H). split; right; assumption.
  Qed.

  Lemma edges_of_orders_in (os : list (list L)) e :
    In e (edges_of_orders os) <-> exists o, In o os /\ In e (chain_edges o).
  Proof. unfold edges_of_orders. apply in_flat_map. Qed.

  Lemma nodes_of_orders_in os x :
    In x (nodes_of_orders cmp os) <-> exists o, In o os /\ In x o.
  Proof.
    unfold nodes_of_orders. rewrite dedup_in, in_concat. split; intros [o H]; exists o; tauto.
  Qed.

  Lemma edges_of_orders_closed os : closed (nodes_of_orders cmp os) (edges_of_orders os).
  Proof.
    intros a b H. apply edges_of_orders_in in H. destruct H as [o [Ho H]].
    apply chain_edges_in in H. rewrite !nodes_of_orders_in. split; exists o; tauto.
  Qed.

  (* the merged order is a function of the SET of declaration orders: the order
     in which the struct literals are met (and repetitions of one) is immaterial *)
  Theorem merge_orders_function_of_orders os os' :
    (forall o, In o os <-> In o os') -> merge_orders cmp os = merge_orders cmp os'.
  Proof.
    intros H. unfold merge_orders. apply topo_sort_perm_invariant.
    - apply NoDup_Permutation; try apply dedup_nodup.
      intros x. rewrite !nodes_of_orders_in. split; intros [o [Ho Hx]]; exists o; (split; [apply H|]; assumption).
    - intros e. rewrite !edges_of_orders_in. split; intros [o [Ho Hx]]; exists o; (split; [apply H|]; assumption).
  Qed.

  Lemma chain_sorted (R : L -> L -> Prop) o :
    (forall a b, In (a, b) (chain_edges o) -> R a b) -> Sorted R o.
  Proof.
    induction o as [|x o IH]; intros H; [constructor|].
    destruct o as [|y o]; [constructor; constructor|].
    constructor.
    - apply IH. intros a b Hab. apply H. right. exact Hab.
    - constructor. apply H. left. reflexivity.
  Qed.

  Lemma SS_shift y t o :
    (forall x, In x o -> leqb x y = false) ->
    StronglySorted (fun a b => idx (y :: t) a < idx (y :: t) b) o ->
    StronglySorted (fun a b => idx t a < idx t b) o.
  Proof.
    intros Hne H. induction H as [|a o Hs IH Hf]; constructor.
    - apply IH. intros x Hx. apply Hne. right. exact Hx.
    - rewrite Forall_forall in *. intros x Hx. specialize (Hf x Hx). simpl in Hf.
      rewrite (Hne a (or_introl eq_refl)), (Hne x (or_intror Hx)) in Hf. lia.
  Qed.

  Lemma idx_sorted_subseq : forall t o,
    (forall x, In x o -> In x t) ->
    StronglySorted (fun a b => idx t a < idx t b) o -> subseq o t.
  Proof.
    induction t as [|y t IH]; intros o Hin Hs.
    - destruct o as [|a o]; [constructor|]. exfalso. apply (Hin a). left; reflexivity.
    - destruct o as [|a o]; [constructor|].
      inversion Hs as [|? ? Hs' Hf]; subst. rewrite Forall_forall in Hf.
      assert (Hne : forall x, In x o -> leqb x y = false).
      { intros x Hx. specialize (Hf x Hx). simpl in Hf. destruct (leqb x y); [|reflexivity].
        destruct (leqb a y); lia. }
      assert (Hin' : forall x, In x o -> In x t).
      { intros x Hx. destruct (Hin x (or_intror Hx)) as [E | H]; [|exact H].
        subst x. specialize (Hne y Hx). rewrite leqb_refl in Hne. discriminate. }
      destruct (leqb a y) eqn:Ea.
      + apply leqb_eq in Ea. subst y. apply sub_take. apply IH; [exact Hin'|].
        apply (SS_shift a); assumption.
      + apply sub_skip. apply IH.
        * intros x [<- | Hx]; [|apply Hin'; exact Hx].
          destruct (Hin a (or_introl eq_refl)) as [E | H]; [|exact H].
          subst. rewrite leqb_refl in Ea. discriminate.
        * apply (SS_shift y); [|exact Hs]. intros x [<- | Hx]; [exact Ea | apply Hne; exact Hx].
  Qed.

  (* If the declaration orders are jointly consistent, the merged order exists,
     lists exactly the declared labels, each once, and every declaration order
     is a subsequence of it. *)
  Theorem merge_orders_respects_each_order os :
    consistent os ->
    exists t, merge_orders cmp os = Some t /\ NoDup t
              /\ (forall x, In x t <-> exists o, In o os /\ In x o)
              /\ forall o, In o os -> subseq o t.
  Proof.
    intros Hcons. unfold merge_orders.
    pose proof (dedup_nodup (concat os)) as Hnd. fold (nodes_of_orders cmp os) in Hnd.
    destruct (topo_sort_dag _ _ Hcons Hnd) as [t [E [Hp [Hok _]]]].
    exists t. split; [exact E|]. split; [eapply Permutation_NoDup; eauto|]. split.
    - intros x. rewrite <- nodes_of_orders_in. split; apply Permutation_in; [symmetry|]; exact Hp.
    - intros o Ho. apply idx_sorted_subseq.
      + intros x Hx. apply (Permutation_in _ Hp). apply nodes_of_orders_in. exists o. auto.
      + apply Sorted_StronglySorted; [intros x y z; apply Nat.lt_trans|].
        apply chain_sorted. intros a b Hab.
        apply (topo_sort_respects_edges _ _ t Hcons Hnd (edges_of_orders_closed os) E).
        apply edges_of_orders_in. exists o. auto.
  Qed.

  (* consistency, spelled out: the orders have a common duplicate-free
     supersequence (and then the merged order is one) *)
  Lemma subseq_idx o t : subseq o t -> NoDup t ->
    forall a b, In (a, b) (chain_edges o) -> idx t a < idx t b.
  Proof.
    induction 1 as [l | o x l H IH | x o l H IH]; intros Hnd a b Hab; [destruct Hab | |].
    - inversion Hnd as [|? ? Hx Hnd']; subst.
      destruct (chain_edges_in o a b Hab) as [Ha Hb].
      apply (subseq_in _ _ H) in Ha, Hb. simpl.
      destruct (leqb a x) eqn:Ea; [apply leqb_eq in Ea; subst; contradiction|].
      destruct (leqb b x) eqn:Eb; [apply leqb_eq in Eb; subst; contradiction|].
      apply (proj1 (Nat.succ_lt_mono _ _)). apply IH; assumption.
    - inversion Hnd as [|? ? Hx Hnd']; subst.
      destruct o as [|y o]; [destruct Hab|].
      destruct Hab as [[= <- <-] | Hab].
      + simpl. rewrite leqb_refl.
        assert (Hy : In y l) by (apply (subseq_in _ _ H); left; reflexivity).
        destruct (leqb y x) eqn:Ey; [apply leqb_eq in Ey; subst; contradiction | lia].
      + destruct (chain_edges_in _ a b Hab) as [Ha Hb].
        apply (subseq_in _ _ H) in Ha, Hb. simpl.
        destruct (leqb a x) eqn:Ea; [apply leqb_eq in Ea; subst; contradiction|].
        destruct (leqb b x) eqn:Eb; [apply leqb_eq in Eb; subst; contradiction|].
        apply (proj1 (Nat.succ_lt_mono _ _)). apply IH; assumption.
  Qed.

  Theorem consistent_iff_common_supersequence os :
    consistent os <-> exists t, NoDup t /\ forall o, In o os -> subseq o t.
  Proof.
    split.
    - intros H. destruct (merge_orders_respects_each_order os H) as [t [_ [Hnd [_ Hs]]]]. exists t. auto.
    - intros [t [Hnd Hs]]. exists (idx t). intros a b Hab.
      apply edges_of_orders_in in Hab. destruct Hab as [o [Ho Hab]].
      apply (subseq_idx o t (Hs o Ho) Hnd). exact Hab.
  Qed.

  (* a single duplicate-free declaration order is reproduced as is *)
  Lemma subseq_length o t : subseq o t -> length o <= length t.
  Proof. induction 1; simpl; lia. Qed.

  Lemma subseq_full o t : subseq o t -> length t <= length o -> o = t.
  Proof.
    induction 1 as [l | o x l H IH | x o l H IH]; simpl; intros Hl.
    - destruct l; [reflexivity | simpl in Hl; lia].
    - apply subseq_length in H. lia.
    - f_equal. apply IH. lia.
  Qed.

  Lemma subseq_refl (o : list L) : subseq o o.
  Proof. induction o; constructor; assumption. Qed.

  Theorem merge_single_chain o : NoDup o -> merge_orders cmp [o] = Some o.
  Proof.
    intros Hnd.
    assert (Hcons : consistent [o]).
    { apply consistent_iff_common_supersequence. exists o. split; [exact Hnd|].
      intros o' [<- | []]. apply subseq_refl. }
    destruct (merge_orders_respects_each_order [o] Hcons) as [t [E [Hndt [Hin Hsub]]]].
    rewrite E. f_equal. symmetry. apply subseq_full; [apply Hsub; left; reflexivity|].
    apply NoDup_incl_length; [exact Hndt|]. intros x Hx. apply Hin in Hx.
    destruct Hx as [o' [[<- | []] Hx]]. exact Hx.
  Qed.

  Lemma first_occ_nodup l : NoDup (first_occ cmp l).
  Proof.
    unfold first_occ. apply (Permutation_NoDup (Permutation_rev _)). apply dedup_nodup.
  Qed.

  Lemma first_occ_in l x : In x (first_occ cmp l) <-> In x l.
  Proof. unfold first_occ. rewrite <- in_rev, dedup_in, <- in_rev. reflexivity. Qed.

  (* implicit unification lists the labels in order of first occurrence *)
  Theorem implicit_orders_spec os : implicit_orders cmp os = Some (first_occ cmp (concat os)).
  Proof. unfold implicit_orders. apply merge_single_chain. apply first_occ_nodup. Qed.
End TopoProofs.

(* the concrete label order of compareNodeByName is a total order *)
Lemma label_cmp_total : total_cmp label_cmp.
Proof.
  constructor.
  - intros [i|s] [j|t]; simpl; split; try congruence.
    + intros H. apply N.compare_eq_iff in H. congruence.
    + intros [= ->]. apply N.compare_refl.
    + intros H. apply (tc_eq _ str_cmp_total) in H. congruence.
    + intros [= ->]. apply (tc_refl _ str_cmp_total).
  - intros [i|s] [j|t]; simpl; try reflexivity.
    + apply N.compare_antisym.
    + apply (tc_opp _ str_cmp_total).
  - intros [i|s] [j|t] [k|u]; simpl; try congruence.
    + apply (tc_trans _ N_compare_total).
    + apply (tc_trans _ str_cmp_total).
Qed.
