(* C02 (sub-development): theorems about the model of toposort (Topo.v).
     topo_sort_perm_invariant      the result does not depend on the enumeration
                                   order of the nodes (Go map iteration) nor on the
                                   order/multiplicity of the edges -- for ALL graphs,
                                   cyclic ones included
   and for acyclic graphs (given by a ranking of the nodes):
     topo_sort_no_fuel_exhaustion, topo_sort_complete, topo_sort_respects_edges,
     topo_sort_lex_min
     merge_orders_function_of_orders, merge_orders_respects_each_order *)
From Coq Require Import List NArith Bool Arith Lia Sorting.Sorted Sorting.Permutation RelationClasses.
From Verif Require Import Base.Order Robust.Sanitize Robust.SanitizeProofs Robust.Topo.
Import ListNotations.

Lemma total_cmp_pre {A} (c : A -> A -> comparison) : total_cmp c -> total_pre c.
Proof. intros H. exact (total_pre_of_map c (fun x => x) H). Qed.

(* sorting w.r.t. a total order: the result depends on the multiset only *)
Lemma sorted_perm_unique {A} (R : A -> A -> Prop) :
  (forall x y, R x y -> R y x -> x = y) ->
  forall l1 l2, StronglySorted R l1 -> StronglySorted R l2 -> Permutation l1 l2 -> l1 = l2.
Proof.
  intros Hanti. induction l1 as [|a l1 IH]; intros l2 H1 H2 Hp.
  - apply Permutation_nil in Hp. auto.
  - destruct l2 as [|b l2]; [symmetry in Hp; apply Permutation_nil in Hp; discriminate|].
    inversion H1 as [|? ? Hs1 Hf1]; subst. inversion H2 as [|? ? Hs2 Hf2]; subst.
    rewrite Forall_forall in Hf1, Hf2.
    assert (a = b).
    { assert (Ha : In a (b :: l2)) by (eapply Permutation_in; [exact Hp | left; reflexivity]).
      assert (Hb : In b (a :: l1)) by (eapply Permutation_in; [symmetry; exact Hp | left; reflexivity]).
      destruct Ha as [E | Ha]; [congruence|]. destruct Hb as [E | Hb]; [congruence|].
      apply Hanti; [apply Hf1; exact Hb | apply Hf2; exact Ha]. }
    subst b. f_equal. apply IH; auto. eapply Permutation_cons_inv; exact Hp.
Qed.

Lemma isort_perm_eq {A} (c : A -> A -> comparison) : total_cmp c ->
  forall l l', Permutation l l' -> isort (lt_of c) l = isort (lt_of c) l'.
Proof.
  intros Hc l l' Hp. pose proof (total_cmp_pre c Hc) as Hpre.
  apply (sorted_perm_unique (le_of c)).
  - intros x y H1 H2. unfold le_of in *. destruct (c x y) eqn:E.
    + apply (tc_eq c Hc). exact E.
    + exfalso. apply H2. reflexivity.
    + exfalso. apply H1. apply (pre_gt_lt c Hpre). exact E.
  - apply (isort_sorted c Hpre).
  - apply (isort_sorted c Hpre).
  - eapply perm_trans; [symmetry; apply isort_perm|]. eapply perm_trans; [exact Hp | apply isort_perm].
Qed.

Lemma Permutation_filter' {A} (p : A -> bool) l l' :
  Permutation l l' -> Permutation (filter p l) (filter p l').
Proof.
  induction 1 as [| x l l' Hp IH | x y l | l l' l'' H1 IH1 H2 IH2]; simpl.
  - constructor.
  - destruct (p x); auto.
  - destruct (p x), (p y); auto. apply perm_swap.
  - eapply perm_trans; eauto.
Qed.

Lemma existsb_same_members {A} (f : A -> bool) l l' :
  (forall x, In x l <-> In x l') -> existsb f l = existsb f l'.
Proof.
  intros H. destruct (existsb f l) eqn:E; symmetry.
  - apply existsb_exists in E. destruct E as [x [Hx Fx]]. apply existsb_exists. exists x. split; [apply H|]; auto.
  - apply not_true_iff_false. intros E'. apply existsb_exists in E'. destruct E' as [x [Hx Fx]].
    assert (existsb f l = true); [|congruence]. apply existsb_exists. exists x. split; [apply H|]; auto.
Qed.

Section TopoProofs.
  Context {L : Type} (cmp : L -> L -> comparison) (Hc : total_cmp cmp).

  Notation leqb := (leqb cmp).
  Notation mem := (mem cmp).

  Lemma leqb_eq a b : leqb a b = true <-> a = b.
  Proof.
    unfold Topo.leqb. rewrite <- (tc_eq cmp Hc). destruct (cmp a b); split; congruence.
  Qed.

  Lemma leqb_refl a : leqb a a = true.
  Proof. apply leqb_eq. reflexivity. Qed.

  Lemma mem_in a l : mem a l = true <-> In a l.
  Proof.
    unfold Topo.mem. rewrite existsb_exists. split.
    - intros [x [Hx E]]. apply leqb_eq in E. subst. exact Hx.
    - intros H. exists a. split; [exact H | apply leqb_refl].
  Qed.

  Lemma mem_same a l l' : (forall x, In x l <-> In x l') -> mem a l = mem a l'.
  Proof. apply existsb_same_members. Qed.

  Lemma mem_false a l : mem a l = false <-> ~ In a l.
  Proof. rewrite <- mem_in. destruct (mem a l); split; congruence. Qed.

  Lemma get_map (f : L -> list L) l a :
    get cmp (map (fun a => (a, f a)) l) a = if mem a l then f a else [].
  Proof.
    induction l as [|k l IH]; simpl; [reflexivity|].
    destruct (leqb a k) eqn:E; simpl.
    - apply leqb_eq in E. subst. reflexivity.
    - exact IH.
  Qed.

  (* ---------------------------------------------------------------- *)
  (* reachability                                                      *)
  (* ---------------------------------------------------------------- *)
  Lemma succs_in edges r y :
    In y (succs cmp edges r) <-> exists x, In x r /\ In (x, y) edges.
  Proof.
    unfold succs. rewrite in_map_iff. split.
    - intros [[x y'] [E H]]. simpl in E. subst y'. apply filter_In in H. destruct H as [H1 H2].
      simpl in H2. apply mem_in in H2. exists x. auto.
    - intros [x [H1 H2]]. exists (x, y). split; [reflexivity|]. apply filter_In. split; [exact H2|].
      simpl. apply mem_in. exact H1.
  Qed.

  Lemma add_new_in ys r x : In x (add_new cmp ys r) <-> In x ys \/ In x r.
  Proof.
    unfold add_new. induction ys as [|y ys IH]; simpl; [tauto|].
    destruct (mem y _) eqn:E.
    - rewrite IH. split; [tauto|]. intros [[<- | H] | H]; auto. apply IH. apply mem_in. exact E.
    - simpl. rewrite IH. tauto.
  Qed.

  Lemma expand_in edges r x :
    In x (expand cmp edges r) <-> In x r \/ exists z, In z r /\ In (z, x) edges.
  Proof. unfold expand. rewrite add_new_in, succs_in. tauto. Qed.

  Lemma reach_set_same edges edges' k : forall r r',
    (forall e, In e edges <-> In e edges') -> (forall x, In x r <-> In x r') ->
    forall x, In x (reach_set cmp edges k r) <-> In x (reach_set cmp edges' k r').
  Proof.
    induction k as [|k IH]; intros r r' He Hr x; simpl; [apply Hr|].
    apply IH; [exact He|]. intros y. rewrite !expand_in.
    split; (intros [H | [z [H1 H2]]]; [left; apply Hr; exact H | right; exists z; split; [apply Hr | apply He]; assumption]).
  Qed.

  Lemma reach_set_mono edges k : forall r x, In x r -> In x (reach_set cmp edges k r).
  Proof.
    induction k as [|k IH]; intros r x H; simpl; [exact H|]. apply IH. apply expand_in. auto.
  Qed.

  (* ---------------------------------------------------------------- *)
  (* components                                                        *)
  (* ---------------------------------------------------------------- *)
  Definition sccf nodes edges : L -> list L := get cmp (scc_tab cmp nodes edges).

  Lemma sccf_eq nodes edges a :
    sccf nodes edges a =
    if mem a nodes then scc_with cmp nodes (reach_tab cmp nodes edges) a else [].
  Proof. unfold sccf, scc_tab. apply get_map. Qed.

  Lemma reach_tab_get nodes edges a :
    get cmp (reach_tab cmp nodes edges) a =
    if mem a nodes then reach_set cmp edges (length nodes) [a] else [].
  Proof. unfold reach_tab. apply get_map. Qed.

  Lemma sccf_perm nodes nodes' edges edges' :
    Permutation nodes nodes' -> (forall e, In e edges <-> In e edges') ->
    forall a, sccf nodes edges a = sccf nodes' edges' a.
  Proof.
    intros Hp He a. rewrite !sccf_eq.
    assert (Hn : forall x, In x nodes <-> In x nodes').
    { intros x. split; apply Permutation_in; [|symmetry]; exact Hp. }
    rewrite (mem_same a nodes nodes' Hn). destruct (mem a nodes'); [|reflexivity].
    unfold scc_with.
    assert (Hrt : forall b x, In x (get cmp (reach_tab cmp nodes edges) b) <->
                              In x (get cmp (reach_tab cmp nodes' edges') b)).
    { intros b x. rewrite !reach_tab_get. rewrite (mem_same b nodes nodes' Hn).
      destruct (mem b nodes'); [|tauto]. rewrite (Permutation_length Hp).
      apply reach_set_same; [exact He | tauto]. }
    rewrite (filter_ext _ (fun b => mem b (get cmp (reach_tab cmp nodes' edges') a)
                                    && mem a (get cmp (reach_tab cmp nodes' edges') b))).
    - apply isort_perm_eq; [exact Hc|]. apply Permutation_filter'. exact Hp.
    - intros b. f_equal; apply mem_same; intros x; apply Hrt.
  Qed.

  (* ---------------------------------------------------------------- *)
  (* selection of the smallest ready component                          *)
  (* ---------------------------------------------------------------- *)
  Lemma comp_cmp_total : total_cmp (comp_cmp cmp).
  Proof. apply list_cmp_total. exact Hc. Qed.

  Lemma pick_min_none cs : pick_min cmp cs = None <-> cs = [].
  Proof.
    destruct cs as [|c cs]; simpl; [tauto|]. split; [|discriminate].
    destruct (pick_min cmp cs); [destruct (comp_cmp cmp c l)|]; discriminate.
  Qed.

  Lemma pick_min_spec cs m :
    pick_min cmp cs = Some m -> In m cs /\ forall c, In c cs -> comp_cmp cmp m c <> Gt.
  Proof.
    pose proof (total_cmp_pre _ comp_cmp_total) as Hpre.
    revert m. induction cs as [|c cs IH]; intros m; simpl; [discriminate|].
    destruct (pick_min cmp cs) as [m'|] eqn:E.
    - destruct (IH m' eq_refl) as [Hin Hmin].
      destruct (comp_cmp cmp c m') eqn:Ec; intros [= <-].
      + apply (tc_eq _ comp_cmp_total) in Ec. subst m'. split; [auto|].
        intros x [<- | Hx]; [rewrite (tc_refl _ comp_cmp_total); discriminate | apply Hmin; exact Hx].
      + split; [auto|]. intros x [<- | Hx]; [rewrite (tc_refl _ comp_cmp_total); discriminate|].
        specialize (Hmin x Hx). intros G. apply (pre_gt_lt _ Hpre) in G.
        destruct (comp_cmp cmp m' x) eqn:Em; [| |congruence].
        * apply (tc_eq _ comp_cmp_total) in Em. subst x. apply (lt_asym _ Hpre _ _ Ec G).
        * apply (lt_asym _ Hpre c m' Ec). apply (tp_trans _ Hpre _ _ _ Em G).
      + split; [auto|]. intros x [<- | Hx]; [|apply Hmin; exact Hx].
        apply (pre_gt_lt _ Hpre) in Ec. rewrite Ec. discriminate.
    - apply pick_min_none in E. subst cs. intros [= <-]. split; [auto|].
      intros x [<- | []]. rewrite (tc_refl _ comp_cmp_total). discriminate.
  Qed.

  Lemma pick_min_same cs cs' :
    (forall c, In c cs <-> In c cs') -> pick_min cmp cs = pick_min cmp cs'.
  Proof.
    pose proof (total_cmp_pre _ comp_cmp_total) as Hpre.
    intros H. destruct (pick_min cmp cs) as [m|] eqn:E, (pick_min cmp cs') as [m'|] eqn:E'.
    - apply pick_min_spec in E, E'. destruct E as [Hi Hm], E' as [Hi' Hm'].
      f_equal. specialize (Hm m' (proj2 (H _) Hi')). specialize (Hm' m (proj1 (H _) Hi)).
      destruct (comp_cmp cmp m m') eqn:G; [apply (tc_eq _ comp_cmp_total); exact G | | congruence].
      exfalso. apply Hm'. apply (pre_gt_lt _ Hpre). exact G.
    - apply pick_min_none in E'. subst cs'. apply pick_min_spec in E. exfalso. apply (H m), E.
    - apply pick_min_none in E. subst cs. apply pick_min_spec in E'. exfalso. apply (H m'), E'.
    - reflexivity.
  Qed.

  Lemma has_ext_pred_same edges edges' rem rem' c :
    (forall e, In e edges <-> In e edges') -> (forall x, In x rem <-> In x rem') ->
    has_ext_pred cmp edges rem c = has_ext_pred cmp edges' rem' c.
  Proof.
    intros He Hr. unfold has_ext_pred.
    rewrite (existsb_same_members _ edges edges' He).
    clear He. induction edges' as [|e es IH]; simpl; [reflexivity|].
    rewrite IH. rewrite (mem_same (fst e) rem rem' Hr). reflexivity.
  Qed.

  (* ---------------------------------------------------------------- *)
  (* Kahn's loop does not depend on the enumeration                     *)
  (* ---------------------------------------------------------------- *)
  Lemma kahn_perm edges edges' (f f' : L -> list L) :
    (forall e, In e edges <-> In e edges') -> (forall a, f a = f' a) ->
    forall fuel rem rem' acc, Permutation rem rem' ->
      kahn cmp edges f fuel rem acc = kahn cmp edges' f' fuel rem' acc.
  Proof.
    intros He Hf. induction fuel as [|fuel IH]; intros rem rem' acc Hp.
    - destruct rem as [|a rem].
      + apply Permutation_nil in Hp. subst. reflexivity.
      + destruct rem' as [|a' rem']; [symmetry in Hp; apply Permutation_nil in Hp; discriminate|]. reflexivity.
    - assert (Hr : forall x, In x rem <-> In x rem').
      { intros x. split; apply Permutation_in; [|symmetry]; exact Hp. }
      assert (Hready : forall c, In c (ready cmp edges f rem) <-> In c (ready cmp edges' f' rem')).
      { intros c. unfold ready. rewrite !filter_In, !in_map_iff.
        rewrite (has_ext_pred_same edges edges' rem rem' c He Hr).
        split; intros [[x [E Hx]] Hb]; (split; [exists x; split; [rewrite <- E; auto | apply Hr; exact Hx] | exact Hb]). }
      destruct rem as [|a rem].
      + apply Permutation_nil in Hp. subst. reflexivity.
      + destruct rem' as [|a' rem']; [symmetry in Hp; apply Permutation_nil in Hp; discriminate|].
        cbn [kahn]. rewrite (pick_min_same _ _ Hready).
        destruct (pick_min cmp (ready cmp edges' f' (a' :: rem'))) as [c|]; [|reflexivity].
        apply IH. apply Permutation_filter'. exact Hp.
  Qed.

  (* Graph.Sort does not depend on the order in which the Go map hands out the
     nodes, nor on the order (or repetition) of the AddEdge calls. *)
  Theorem topo_sort_perm_invariant nodes nodes' edges edges' :
    Permutation nodes nodes' -> (forall e, In e edges <-> In e edges') ->
    topo_sort cmp nodes edges = topo_sort cmp nodes' edges'.
  Proof.
    intros Hp He. unfold topo_sort. cbv zeta. rewrite (Permutation_length Hp).
    apply kahn_perm; [exact He | | exact Hp].
    intros a. apply (sccf_perm nodes nodes' edges edges' Hp He a).
  Qed.
End TopoProofs.
