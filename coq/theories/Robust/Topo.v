(* C02 (sub-development): executable model of the field ordering of
   /repo/internal/core/toposort (graph.go Sort, scc.go, and the chain edges
   that vertex.go addEdges derives from declaration orders).

   Go: GraphBuilder keeps the nodes in a Go map; Build() enumerates that map,
   so the node slice (and with it the order in which Tarjan's algorithm meets
   the nodes, the order of every Outgoing/Incoming slice, ...) is arbitrary.
   Sort = strongly connected components, each component's nodes sorted by
   name, then Kahn's algorithm over the condensation, always entering the
   smallest ready component (components compared lexicographically by their
   name-sorted node lists).

   Model: the graph is a node enumeration and an edge enumeration, both in ANY
   order (edges possibly repeated).  A component is computed as the set of
   nodes mutually reachable with a node (the set of SCCs is canonical, Tarjan's
   traversal order is not modelled), reachability by saturation with fuel
   |nodes|.  `topo_sort` returns None when no component is ready or the fuel
   (number of nodes) runs out; TopoProofs.v shows that this never happens for
   acyclic graphs, and the correspondence harness never observes it.

   No proofs here; see TopoProofs.v. *)
From Coq Require Import List NArith Bool.
From Verif Require Import Base.Order Robust.Sanitize.
Import ListNotations.

Section Topo.
  Context {L : Type} (cmp : L -> L -> comparison).   (* compareNodeByName *)

  Definition leqb (a b : L) : bool := match cmp a b with Eq => true | _ => false end.
  Definition mem (a : L) (l : list L) : bool := existsb (leqb a) l.

  Fixpoint get (tab : list (L * list L)) (a : L) : list L :=
    match tab with
    | [] => []
    | (k, v) :: t => if leqb a k then v else get t a
    end.

  Section Graph.
    Variable nodes : list L.
    Variable edges : list (L * L).

    (* --- reachability by saturation --- *)
    Definition succs (r : list L) : list L :=
      map snd (filter (fun e => mem (fst e) r) edges).
    Definition add_new (ys r : list L) : list L :=
      fold_right (fun y acc => if mem y acc then acc else y :: acc) r ys.
    Definition expand (r : list L) : list L := add_new (succs r) r.
    Fixpoint reach_set (k : nat) (r : list L) : list L :=
      match k with O => r | S k' => reach_set k' (expand r) end.

    (* everything reachable from a (a included), computed once per node *)
    Definition reach_tab : list (L * list L) :=
      map (fun a => (a, reach_set (length nodes) [a])) nodes.

    (* the strongly connected component of a: the nodes mutually reachable
       with a, sorted by name (slices.SortFunc(component.Nodes, compareNodeByName)) *)
    Definition scc_with (rt : list (L * list L)) (a : L) : list L :=
      isort (lt_of cmp) (filter (fun b => mem b (get rt a) && mem a (get rt b)) nodes).
    Definition scc_tab : list (L * list L) :=
      let rt := reach_tab in map (fun a => (a, scc_with rt a)) nodes.

    (* --- Kahn's algorithm over the condensation --- *)
    (* some not yet emitted node outside c has an edge into c: c's Incoming
       contains an unvisited component *)
    Definition has_ext_pred (rem c : list L) : bool :=
      existsb (fun e => mem (snd e) c && negb (mem (fst e) c) && mem (fst e) rem) edges.

    (* compareComponentsByNodes *)
    Definition comp_cmp : list L -> list L -> comparison := list_cmp cmp.

    (* sccReady[0] after slices.SortFunc(sccReady, compareComponentsByNodes) *)
    Fixpoint pick_min (cs : list (list L)) : option (list L) :=
      match cs with
      | [] => None
      | c :: cs' => match pick_min cs' with
                    | None => Some c
                    | Some m => match comp_cmp c m with Gt => Some m | _ => Some c end
                    end
      end.

    Section Kahn.
      Variable sccf : L -> list L.

      Definition ready (rem : list L) : list (list L) :=
        filter (fun c => negb (has_ext_pred rem c)) (map sccf rem).

      Fixpoint kahn (fuel : nat) (rem acc : list L) : option (list L) :=
        match rem with
        | [] => Some acc
        | _ :: _ =>
          match fuel with
          | O => None
          | S f =>
            match pick_min (ready rem) with
            | None => None
            | Some c => kahn f (filter (fun x => negb (mem x c)) rem) (acc ++ c)
            end
          end
        end.
    End Kahn.

    (* Graph.Sort; None = stuck (no ready component / fuel exhausted) *)
    Definition topo_sort : option (list L) :=
      let st := scc_tab in kahn (get st) (length nodes) nodes [].
  End Graph.

  (* --- declaration orders (vertex.go addEdges within one struct literal:
     each new label gets an edge from the previous one) --- *)
  Fixpoint chain_edges (o : list L) : list (L * L) :=
    match o with
    | a :: ((b :: _) as o') => (a, b) :: chain_edges o'
    | _ => []
    end.
  Definition edges_of_orders (os : list (list L)) : list (L * L) := flat_map chain_edges os.

  (* every label once (the enumeration order is immaterial, see topo_sort_perm_invariant) *)
  Fixpoint dedup (l : list L) : list L :=
    match l with
    | [] => []
    | a :: l' => if mem a l' then dedup l' else a :: dedup l'
    end.
  Definition nodes_of_orders (os : list (list L)) : list L := dedup (concat os).

  Definition merge_orders (os : list (list L)) : option (list L) :=
    topo_sort (nodes_of_orders os) (edges_of_orders os).

  (* Implicit unification (x: {..}  x: {..}), embedded literals, x: a  x: b:
     vertex.go walks the struct literals one after the other; a label that was
     already met (same file) is skipped, every new label gets an edge from the
     previously added one.  The graph is the single chain of first occurrences. *)
  Definition first_occ (l : list L) : list L := rev (dedup (rev l)).
  Definition implicit_orders (os : list (list L)) : option (list L) :=
    merge_orders [first_occ (concat os)].
End Topo.

(* --- adt.Feature as far as compareNodeByName looks at it: integer labels
   first, by index; all other labels by RawString --- *)
Inductive label := LInt (i : N) | LStr (s : str).

Definition label_cmp (a b : label) : comparison :=
  match a, b with
  | LInt i, LInt j => N.compare i j
  | LInt _, LStr _ => Lt
  | LStr _, LInt _ => Gt
  | LStr s, LStr t => str_cmp s t
  end.
