(* Control skeleton of /repo/cue/parser/parser.go for the EXPRESSION fragment reached from
   parser.ParseExpr (interface.go): parseRHS, parseExpr, parseBinaryExpr, parseBinaryExprTail,
   parseUnaryExpr (incNestLevel / decNestLevel, maxNestLevel), parsePrimaryExpr,
   parsePrimaryExprTail, parseOperand, parseIdent, parseKeyIdent, wrapOptional, peek,
   parseIndexOrSlice (the index/colons arrays with checked stores), parseCallOrConversion,
   parseList, parseListElements, parseListElement, parseAlias, expect, expectClosing, atComma,
   errorExpected, errf (same-line discard, "too many errors" bail-out after more than 10
   errors), syncExpr (syncPos / syncCnt, token.Pos.Compare with NoPos), next / next0 and the
   recover at the entry point.

   The parser runs over the TOKEN LIST the scanner produced for the source (cue/scanner is
   modelled and proved total in Scan.v / ScanProofs.v).  A token carries what the control flow
   reads: kind (token.Token number), offset, line, one flag (COMMA: literal is "\n";
   STRING: simple double-quoted literal; IDENT: name starts with "__") and the positions of the
   errors the scanner reported while scanning it (they are appended to p.errors by the error
   handler when the token is scanned, i.e. by next0 / peek).

   Outcomes: [Ok] (normal return), [Bail] (panic with p.panicking = true: recovered by the
   deferred function of ParseExpr / ParseFile), [Panic] (any other Go panic: index out of range
   in parseIndexOrSlice, "can only peek one token at a time": NOT recovered, it would escape the
   API) and [Fuel] (the model's fuel ran out).  ParseProofs.v shows that [Panic] and [Fuel] are
   impossible and bounds the recursion depth.

   Every modelled Go function call passes its stack depth [d]; [enter d] records the high-water
   mark [maxd].  Fuel [f] bounds the call depth of the mutual recursion, the loop fuels [lf]
   bound the iterations of each Go [for] loop.

   Outside the fragment (the tie never sends them): struct literals (LBRACE), INTERPOLATION,
   comprehensions (FOR / IF / TRY at the start of a list element), ParseFuncs / ParseComments /
   AllErrors modes, the experiments aliasv2 / explicitopen / structcmp.  Not modelled: comment
   attachment (openComments / closeNode; balanced in this fragment), literals, tracing. *)
From Coq Require Import ZArith List Bool Arith Lia.
Import ListNotations.

Record tk : Type := mkTk {
  kind : N; toff : Z; tline : Z; flag : bool; serr : list (Z * Z) }.

(* token numbers of cue/token/token.go *)
Definition kEOF := 1%N.      Definition kIDENT := 5%N.    Definition kINT := 6%N.
Definition kFLOAT := 7%N.    Definition kSTRING := 8%N.   Definition kBOTTOM := 10%N.
Definition kADD := 13%N.     Definition kSUB := 14%N.     Definition kMUL := 15%N.
Definition kQUO := 17%N.     Definition kAND := 18%N.     Definition kOR := 19%N.
Definition kLAND := 20%N.    Definition kLOR := 21%N.     Definition kBIND := 22%N.
Definition kEQL := 23%N.     Definition kLSS := 24%N.     Definition kGTR := 25%N.
Definition kNOT := 26%N.     Definition kNEQ := 28%N.     Definition kLEQ := 29%N.
Definition kGEQ := 30%N.     Definition kMAT := 31%N.     Definition kNMAT := 32%N.
Definition kLPAREN := 33%N.  Definition kLBRACK := 34%N.  Definition kCOMMA := 36%N.
Definition kPERIOD := 37%N.  Definition kELLIPSIS := 38%N. Definition kRPAREN := 39%N.
Definition kRBRACK := 40%N.  Definition kCOLON := 43%N.   Definition kOPTION := 44%N.
Definition kIF := 48%N.      Definition kFOR := 50%N.     Definition kFUNC := 56%N.
Definition kTRUE := 57%N.    Definition kFALSE := 58%N.   Definition kNULL := 59%N.

Definition is_kind (k : N) (t : tk) : bool := N.eqb (kind t) k.
Definition kind_in (ks : list N) (t : tk) : bool := existsb (N.eqb (kind t)) ks.
(* token.Token.IsKeyword: keywordBeg (47) < tok < keywordEnd (60) *)
Definition is_keyword (t : tk) : bool := (N.ltb 47 (kind t)) && (N.ltb (kind t) 60).
(* token.Token.Precedence *)
Definition precedence (k : N) : Z :=
  if N.eqb k kOR then 1 else if N.eqb k kAND then 2 else if N.eqb k kLOR then 3
  else if N.eqb k kLAND then 4
  else if existsb (N.eqb k) [kEQL; kNEQ; kLSS; kLEQ; kGTR; kGEQ; kMAT; kNMAT] then 5
  else if existsb (N.eqb k) [kADD; kSUB] then 6
  else if existsb (N.eqb k) [kMUL; kQUO] then 7 else 0.
(* the operators of the first switch of parseUnaryExpr (EQL: the structcmp experiment is on by default) *)
Definition unops : list N := [kEQL; kADD; kSUB; kNOT; kMUL; kLSS; kLEQ; kGEQ; kGTR; kNEQ; kMAT; kNMAT].

Inductive ast : Type :=
| ABad | ABottom
| AIdent (dunder : option (Z * Z))          (* position if the name starts with "__" *)
| ALit (k : N)
| AParen (x : ast) | AUnary (op : N) (x : ast) | ABinary (op : N) (x y : ast)
| ASel (x : ast) | AIndex (x : ast) (i : option ast) | ASlice (x : ast) (lo hi : option ast)
| ACall (f : ast) (args : list ast)
| AList (elts : list ast) | AEllipsis (t : option ast)
| AAlias (x : ast) | APostfix (x : ast).

Record pst : Type := mkP {
  toks : list tk;           (* p.tok and what the scanner will return next; [] = EOF *)
  eofp : Z * Z;             (* offset and line of the EOF position *)
  peeked : bool;            (* p.peekToken.scanned *)
  nest : nat;               (* p.nestLevel *)
  errl : list (Z * Z);      (* p.errors as (offset, line), newest first *)
  syncPos : Z;              (* p.syncPos as an offset; -1 = token.NoPos *)
  syncCnt : nat;
  maxd : nat }.             (* deepest modelled call so far *)

Inductive outcome (A : Type) : Type :=
| Ok (a : A) (s : pst)
| Bail (s : pst)     (* panic with p.panicking = true *)
| Panic              (* any other Go panic *)
| Fuel.
Arguments Ok {A} a s.  Arguments Bail {A} s.  Arguments Panic {A}.  Arguments Fuel {A}.

Definition M (A : Type) : Type := pst -> outcome A.
Definition ret {A} (a : A) : M A := fun s => Ok a s.
Definition bind {A B} (m : M A) (k : A -> M B) : M B :=
  fun s => match m s with Ok a s' => k a s' | Bail s' => Bail s' | Panic => Panic | Fuel => Fuel end.
Notation "x <- m ;; k" := (bind m (fun x => k)) (at level 61, m at next level, right associativity).
Notation "m ;;; k" := (bind m (fun _ => k)) (at level 61, right associativity).

Definition eof_tk (s : pst) : tk := mkTk kEOF (fst (eofp s)) (snd (eofp s)) false [].
Definition cur_of (s : pst) : tk := match toks s with t :: _ => t | [] => eof_tk s end.
Definition cur : M tk := fun s => Ok (cur_of s) s.
Definition upd_toks (s : pst) l pk e :=
  mkP l (eofp s) pk (nest s) e (syncPos s) (syncCnt s) (maxd s).
Definition upd_errl (s : pst) e := upd_toks s (toks s) (peeked s) e.
Definition head_serr (l : list tk) : list (Z * Z) := match l with t :: _ => serr t | [] => [] end.

(* next / next0 (no comments): the peeked token was scanned (and its errors reported) by peek *)
Definition next : M unit := fun s =>
  let l := tl (toks s) in
  if peeked s then Ok tt (upd_toks s l false (errl s))
  else Ok tt (upd_toks s l false (rev (head_serr l) ++ errl s)).
(* peek: panics when a token is already peeked *)
Definition peek : M tk := fun s =>
  if peeked s then Panic
  else let l := tl (toks s) in
       Ok (match l with t :: _ => t | [] => eof_tk s end)
          (upd_toks s (toks s) true (rev (head_serr l) ++ errl s)).

Definition enter (d : nat) : M unit := fun s =>
  Ok tt (mkP (toks s) (eofp s) (peeked s) (nest s) (errl s) (syncPos s) (syncCnt s) (Nat.max (maxd s) d)).

(* errf without AllErrors *)
Definition errf (pos : Z * Z) : M unit := fun s =>
  match errl s with
  | (_, l) :: _ =>
      if Z.eqb l (snd pos) then Ok tt s
      else if Nat.ltb 10 (length (errl s)) then Bail s
      else Ok tt (upd_errl s (pos :: errl s))
  | [] => Ok tt (upd_errl s [pos])
  end.
(* p.errors = errors.Append(p.errors, ...) without errf (postfix "..." without explicitopen) *)
Definition err_direct (pos : Z * Z) : M unit := fun s => Ok tt (upd_errl s (pos :: errl s)).
Definition pos_of (t : tk) : Z * Z := (toff t, tline t).
Definition error_expected : M unit := t <- cur ;; errf (pos_of t).

Definition expect (k : N) : M unit :=
  t <- cur ;; (if is_kind k t then ret tt else errf (pos_of t)) ;;; next.
Definition expect_closing (k : N) : M unit :=
  t <- cur ;;
  (if negb (is_kind k t) && is_kind kCOMMA t && flag t then errf (pos_of t) ;;; next else ret tt) ;;;
  expect k.
Definition at_comma (follow : list N) : M bool :=
  t <- cur ;;
  if is_kind kCOMMA t then ret true
  else if kind_in follow t then ret false
  else errf (pos_of t) ;;; ret true.

(* token.Pos.Compare(syncPos, pos) < 0 : NoPos is larger than every valid position *)
Definition pos_lt (a b : Z) : bool := if Z.ltb a 0 then false else Z.ltb a b.
Definition set_sync (p : Z) (c : nat) : M unit := fun s =>
  Ok tt (mkP (toks s) (eofp s) (peeked s) (nest s) (errl s) p c (maxd s)).
Fixpoint sync_loop (lf : nat) : M unit :=
  match lf with
  | O => fun _ => Fuel
  | S lf' =>
      t <- cur ;;
      if is_kind kEOF t then ret tt
      else if is_kind kCOMMA t then
        (fun s =>
           if Z.eqb (toff t) (syncPos s) && Nat.ltb (syncCnt s) 10
           then set_sync (syncPos s) (S (syncCnt s)) s
           else if pos_lt (syncPos s) (toff t) then set_sync (toff t) 0 s
           else (next ;;; sync_loop lf') s)
      else next ;;; sync_loop lf'
  end.

Definition wrap_optional (x : ast) : M ast :=
  t <- cur ;; if is_kind kOPTION t then next ;;; ret (APostfix x) else ret x.

Section WithLimit.
  Variable mx : nat.   (* maxNestLevel *)

  Definition inc_nest : M unit := fun s =>
    let n := S (nest s) in
    let s1 := mkP (toks s) (eofp s) (peeked s) n (errl s) (syncPos s) (syncCnt s) (maxd s) in
    if Nat.ltb mx n then
      match errf (pos_of (cur_of s1)) s1 with Ok _ s2 => Bail s2 | r => r end
    else Ok tt s1.
  Definition dec_nest : M unit := fun s =>
    Ok tt (mkP (toks s) (eofp s) (peeked s) (Nat.pred (nest s)) (errl s) (syncPos s) (syncCnt s) (maxd s)).

  (* checked store into index [N]ast.Expr, N = 2 *)
  Definition store2 (ix : option ast * option ast) (n : nat) (e : ast) : M (option ast * option ast) :=
    match n with
    | 0 => ret (Some e, snd ix) | 1 => ret (fst ix, Some e)
    | _ => fun _ => Panic end.
  Definition check_lt (n m : nat) : M unit := if Nat.ltb n m then ret tt else fun _ => Panic.

  Section Loops.
    Variable rhs' : nat -> M ast.            (* parseRHS at the given depth *)
    Variable binexpr' : nat -> Z -> M ast.   (* parseBinaryExpr *)
    Variable unary' : nat -> M ast.          (* parseUnaryExpr *)
    Variable lf0 : nat.   (* loop fuel: more than the number of tokens still to be read *)
    Definition sync_expr : M unit := sync_loop lf0.

    (* parseBinaryExprTail *)
    Fixpoint bintail (lf : nat) (d : nat) (prec1 : Z) (x : ast) : M ast :=
      match lf with
      | O => fun _ => Fuel
      | S lf' =>
          t <- cur ;;
          let prec := precedence (kind t) in
          if Z.ltb prec prec1 then ret x
          else expect (kind t) ;;; y <- binexpr' (S d) (prec + 1)%Z ;;
               bintail lf' d prec1 (ABinary (kind t) x y)
      end.
    Definition bintail_top (d : nat) (prec1 : Z) (x : ast) : M ast :=
      enter d ;;; bintail lf0 d prec1 x.

    (* the colon loop of parseIndexOrSlice: len(colons) = 1 *)
    Fixpoint colon_loop (lf : nat) (d : nat) (n : nat) (ix : option ast * option ast)
      : M (nat * (option ast * option ast)) :=
      match lf with
      | O => fun _ => Fuel
      | S lf' =>
          t <- cur ;;
          if is_kind kCOLON t && Nat.ltb n 1 then
            check_lt n 1 ;;;                 (* colons[nColons] = p.pos *)
            next ;;; t2 <- cur ;;
            ix' <- (if kind_in [kCOLON; kRBRACK; kEOF] t2 then ret ix
                    else e <- rhs' (S d) ;; store2 ix (S n) e) ;;
            colon_loop lf' d (S n) ix'
          else ret (n, ix)
      end.
    Definition index_or_slice (d : nat) (x : ast) : M ast :=
      enter d ;;; expect kLBRACK ;;; t <- cur ;;
      i0 <- (if is_kind kCOLON t then ret None else e <- rhs' (S d) ;; ret (Some e)) ;;
      r <- colon_loop 3 d 0 (i0, None) ;;
      t2 <- cur ;;
      (if Nat.eqb (fst r) 0 && is_kind kCOMMA t2 then next else ret tt) ;;;
      expect kRBRACK ;;;
      if Nat.ltb 0 (fst r) then ret (ASlice x (fst (snd r)) (snd (snd r)))
      else wrap_optional (AIndex x (fst (snd r))).

    (* parseCallOrConversion *)
    Fixpoint args_loop (lf : nat) (d : nat) (acc : list ast) : M (list ast) :=
      match lf with
      | O => fun _ => Fuel
      | S lf' =>
          t <- cur ;;
          if kind_in [kRPAREN; kEOF] t then ret (rev acc)
          else e <- rhs' (S d) ;; b <- at_comma [kRPAREN] ;;
               if b then next ;;; args_loop lf' d (e :: acc) else ret (rev (e :: acc))
      end.
    Definition call_or_conv (d : nat) (f : ast) : M ast :=
      enter d ;;; expect kLPAREN ;;;
      l <- args_loop lf0 d [] ;;
      expect_closing kRPAREN ;;; ret (ACall f l).

    (* parsePrimaryExprTail *)
    Fixpoint primtail (lf : nat) (d : nat) (x : ast) : M ast :=
      match lf with
      | O => fun _ => Fuel
      | S lf' =>
          t <- cur ;;
          if is_kind kPERIOD t then
            next ;;; t2 <- cur ;;
            x' <- (if is_kind kIDENT t2 then expect kIDENT ;;; wrap_optional (ASel x)
                   else if is_kind kSTRING t2 && flag t2 then next ;;; wrap_optional (ASel x)
                   else if is_keyword t2 then next ;;; wrap_optional (ASel x)
                   else errf (pos_of t2) ;;; next ;;; ret (ASel x)) ;;
            primtail lf' d x'
          else if is_kind kLBRACK t then x' <- index_or_slice (S d) x ;; primtail lf' d x'
          else if is_kind kLPAREN t then x' <- call_or_conv (S d) x ;; primtail lf' d x'
          else if is_kind kELLIPSIS t then
            next ;;; err_direct (pos_of t) ;;; primtail lf' d ABad
          else ret x
      end.
    Definition primtail_top (d : nat) (x : ast) : M ast :=
      enter d ;;; primtail lf0 d x.

    (* parseAlias (no aliasv2) *)
    Definition alias (d : nat) (x : ast) : M ast :=
      t <- cur ;;
      if is_kind kBIND t then
        enter d ;;; next ;;; e <- rhs' (S d) ;;
        match x with
        | AIdent du =>
            (match du with Some p => errf p | None => ret tt end) ;;; ret (AAlias e)
        | _ => error_expected ;;; ret e
        end
      else ret x.

    (* parseListElement (language version >= v0.17.0); comprehensions are outside the fragment *)
    Definition list_element (d : nat) : M (ast * bool) :=
      enter d ;;;
      x <- unary' (S d) ;; x <- bintail_top (S d) 1 x ;; x <- alias (S d) x ;;
      b <- at_comma [kRBRACK; kFOR; kIF] ;;
      if b then next ;;; ret (x, true) else ret (x, false).
    (* parseListElements *)
    Fixpoint elems_loop (lf : nat) (d : nat) (acc : list ast) : M (list ast) :=
      match lf with
      | O => fun _ => Fuel
      | S lf' =>
          t <- cur ;;
          if kind_in [kRBRACK; kELLIPSIS; kEOF] t then ret (rev acc)
          else r <- list_element (S d) ;;
               if snd r then elems_loop lf' d (fst r :: acc) else ret (rev (fst r :: acc))
      end.
    (* parseList *)
    Definition parse_list (d : nat) : M ast :=
      enter d ;;; expect kLBRACK ;;;
      l <- (enter (S d) ;;; elems_loop lf0 (S d) []) ;;
      t <- cur ;;
      l' <- (if is_kind kELLIPSIS t then
               next ;;; t2 <- cur ;;
               ty <- (if kind_in [kCOMMA; kRBRACK] t2 then ret None
                      else e <- rhs' (S d) ;; ret (Some e)) ;;
               b <- at_comma [kRBRACK] ;;
               (if b then next else ret tt) ;;; ret (l ++ [AEllipsis ty])
             else ret l) ;;
      expect_closing kRBRACK ;;; ret (AList l').

    (* parseOperand *)
    Definition operand (d : nat) : M ast :=
      enter d ;;; t <- cur ;;
      if is_kind kIDENT t then
        enter (S d) ;;; expect kIDENT ;;;      (* parseIdent *)
        let id := AIdent (if flag t then Some (pos_of t) else None) in
        t2 <- cur ;;
        if is_kind kOPTION t2 then
          t3 <- peek ;; if is_kind kCOLON t3 then ret id else wrap_optional id
        else ret id
      else if is_kind kLBRACK t then parse_list (S d)
      else if is_kind kBOTTOM t then next ;;; ret ABottom
      else if kind_in [kNULL; kTRUE; kFALSE; kINT; kFLOAT; kSTRING] t then next ;;; ret (ALit (kind t))
      else if is_kind kLPAREN t then
        next ;;; x <- rhs' (S d) ;; expect kRPAREN ;;; ret (AParen x)
      else if is_keyword t then enter (S d) ;;; next ;;; ret (AIdent None)   (* parseKeyIdent, also FUNC *)
      else error_expected ;;; sync_expr ;;; ret ABad.
  End Loops.

  Variable lf0 : nat.
  Definition fuel_out {A} : M A := fun _ => Fuel.

  Fixpoint rhs (f : nat) (d : nat) : M ast :=          (* parseRHS = checkExpr (parseExpr ()) *)
    match f with
    | O => fuel_out
    | S f' => enter d ;;; enter (S d) ;;; binexpr f' (S (S d)) 1
    end
  with binexpr (f : nat) (d : nat) (prec1 : Z) : M ast :=   (* parseBinaryExpr *)
    match f with
    | O => fuel_out
    | S f' => enter d ;;; x <- unary f' (S d) ;; bintail_top (binexpr f') lf0 (S d) prec1 x
    end
  with unary (f : nat) (d : nat) : M ast :=             (* parseUnaryExpr *)
    match f with
    | O => fuel_out
    | S f' =>
        enter d ;;; inc_nest ;;; t <- cur ;;
        r <- (if kind_in unops t then next ;;; x <- unary f' (S d) ;; ret (AUnary (kind t) x)
              else (* parsePrimaryExpr *)
                enter (S d) ;;;
                x <- operand (rhs f') (binexpr f') (unary f') lf0 (S (S d)) ;;
                primtail_top (rhs f') lf0 (S (S d)) x) ;;
        dec_nest ;;; ret r
    end.

  (* parser.ParseExpr: init (scans the first token), parseRHS, optional inserted comma,
     expect(EOF); the deferred function recovers exactly the bail-out panics *)
  Inductive verdict : Type :=
  | Accept (e : ast) | Reject (errs : list (Z * Z)) (bailed : bool) | Escaped | OutOfFuel.

  Definition truncate_eof (l : list tk) : list tk :=
    (fix go l := match l with [] => [] | t :: r => if is_kind kEOF t then [] else t :: go r end) l.
  Definition init_state (l : list tk) (eof : Z * Z) : pst :=
    let l' := truncate_eof l in mkP l' eof false 0 (rev (head_serr l')) (-1) 0 0.
  Definition entry_body (f : nat) : M ast :=
    e <- rhs f 1 ;; t <- cur ;;
    (if is_kind kCOMMA t && flag t then next else ret tt) ;;; expect kEOF ;;; ret e.
  Definition parse_expr (f : nat) (l : list tk) (eof : Z * Z) : verdict * nat :=
    match entry_body f (init_state l eof) with
    | Ok e s => (match errl s with [] => Accept e | es => Reject (rev es) false end, maxd s)
    | Bail s => (Reject (rev (errl s)) true, maxd s)
    | Panic => (Escaped, 0)
    | Fuel => (OutOfFuel, 0)
    end.
  (* fuel that ParseProofs shows sufficient *)
  Definition enough_fuel (l : list tk) : nat := 3 * length l + 4.
End WithLimit.
