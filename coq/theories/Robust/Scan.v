(* Model of /repo/cue/scanner/scanner.go: Scanner.Init, next, Scan, ResumeInterpolation
   and every helper they call (skipWhitespace, scanComment, scanFieldIdentifier,
   scanIdentifier, scanMantissa, scanNumber, scanEscape, scanString, consumeQuotes,
   consumeStringClose, scanHashes, scanAttribute, scanAttributeTokens, recoverParen,
   popInterpolation).

   The model follows the Go code branch by branch.  Offsets and runes are Go ints
   ([Z]); the source is a byte list.  Go's partial operations are explicit:
     s.src[i]      -> [byte_at i]    ([Panic] unless 0 <= i < len)
     s.src[lo:hi]  -> [slice lo hi]  ([Panic] unless 0 <= lo <= hi <= len; Go allows
                                      hi <= cap, so this is the stricter reading)
     s.quoteStack[len-1] -> [pop_interp] ([Panic] on the empty stack)
   Every slice expression of the Go code is evaluated (also those that only feed
   a literal string or an error argument), so "cannot panic" is a theorem about
   these operations (ScanProofs.v) and not an artefact of totalisation.  Go loops
   and the Scan/scanAttribute recursion take explicit fuel; ScanProofs.v shows the
   fuel used below is never exhausted.

   Not modelled (they never feed back into control flow and cannot panic):
   literal strings (only their slice bounds), stripCR, the RelPos/comma/scanned
   bits of token.Pos (linesSinceLast, spacesSinceLast, nextHasComma; File.Pos
   clamps its offset, it has no failing case), File.AddLine (appends under a
   guard), the text of error messages (ErrorCount is modelled: [errs]).
   unicode.IsLetter / unicode.IsDigit for runes >= 0x80 are oracles
   (Section variables); utf8.DecodeRune is Verif.Utf8.Model.utf8_decode. *)
From Verif Require Import Utf8.Model.
From Coq Require Import ZArith List Bool.
Import ListNotations.
Local Open Scope Z_scope.

Inductive outcome (A : Type) : Type :=
| Ok (a : A)
| Panic          (* a Go run-time panic: index or slice bound out of range *)
| Fuel.          (* the model's loop fuel ran out (proved impossible) *)
Arguments Ok {A} a.
Arguments Panic {A}.
Arguments Fuel {A}.

Definition bind {A B} (m : outcome A) (k : A -> outcome B) : outcome B :=
  match m with Ok a => k a | Panic => Panic | Fuel => Fuel end.
Notation "x <- m ;; k" := (bind m (fun x => k)) (at level 61, m at next level, right associativity).
Notation "' p <- m ;; k" := (bind m (fun p => k)) (at level 61, p pattern, m at next level, right associativity).

(* cue/token/token.go: the token kinds Scan can return *)
Inductive tok : Set :=
| ILLEGAL | EOF | COMMENT | ATTRIBUTE | IDENT | INT | FLOAT | STRING | INTERPOLATION | BOTTOM
| ADD | SUB | MUL | QUO | AND | OR | LAND | LOR | BIND | EQL | LSS | GTR | NOT | ARROW
| NEQ | LEQ | GEQ | MAT | NMAT | LPAREN | LBRACK | LBRACE | COMMA | PERIOD | ELLIPSIS
| RPAREN | RBRACK | RBRACE | SEMICOLON | COLON | OPTION | TILDE
| IF | ELSE | FOR | IN | LET | TRY | FALLBACK | OTHERWISE | FUNC | TRUE | FALSE | NULL.

(* token numbering (the iota values of token.go) and the induced equality test *)
Definition tok_code (t : tok) : N :=
  match t with
  | ILLEGAL => 0 | EOF => 1 | COMMENT => 2 | ATTRIBUTE => 3 | IDENT => 5 | INT => 6 | FLOAT => 7
  | STRING => 8 | INTERPOLATION => 9 | BOTTOM => 10 | ADD => 13 | SUB => 14 | MUL => 15 | QUO => 17
  | AND => 18 | OR => 19 | LAND => 20 | LOR => 21 | BIND => 22 | EQL => 23 | LSS => 24 | GTR => 25
  | NOT => 26 | ARROW => 27 | NEQ => 28 | LEQ => 29 | GEQ => 30 | MAT => 31 | NMAT => 32
  | LPAREN => 33 | LBRACK => 34 | LBRACE => 35 | COMMA => 36 | PERIOD => 37 | ELLIPSIS => 38
  | RPAREN => 39 | RBRACK => 40 | RBRACE => 41 | SEMICOLON => 42 | COLON => 43 | OPTION => 44
  | TILDE => 45 | IF => 48 | ELSE => 49 | FOR => 50 | IN => 51 | LET => 52 | TRY => 53
  | FALLBACK => 54 | OTHERWISE => 55 | FUNC => 56 | TRUE => 57 | FALSE => 58 | NULL => 59
  end%N.
Definition tok_beq (a b : tok) : bool := N.eqb (tok_code a) (tok_code b).

(* scanner.quoteInfo *)
Record quote : Type := mkQ {
  q_char : Z; q_numChar : Z; q_numHash : Z;
  q_start : Z;                 (* startOffset *)
  q_ws : option (list N) }.    (* minLineWS; None = nil *)

(* the mutable part of scanner.Scanner *)
Record st : Type := mkSt {
  ch : Z;          (* s.ch, -1 = EOF *)
  off : Z;         (* s.offset *)
  rd : Z;          (* s.rdOffset *)
  ins : bool;      (* s.insertEOL *)
  qs : list quote; (* s.quoteStack, top first *)
  errs : Z }.      (* s.ErrorCount *)

Definition set_ch (s : st) c := mkSt c (off s) (rd s) (ins s) (qs s) (errs s).
Definition set_ins (s : st) b := mkSt (ch s) (off s) (rd s) b (qs s) (errs s).
Definition set_qs (s : st) q := mkSt (ch s) (off s) (rd s) (ins s) q (errs s).
(* s.errf: calls the handler with File.Pos(offs) (total) and counts *)
Definition errf (s : st) := mkSt (ch s) (off s) (rd s) (ins s) (qs s) (errs s + 1).
Definition errf_if (b : bool) (s : st) := if b then errf s else s.

(* what one Scan call returns: token, start offset, and whether a COMMA is an
   inserted one (literal "\n", position Elided) *)
Record res : Type := mkRes { r_tok : tok; r_start : Z; r_elided : bool }.

Definition bom : Z := 0xFEFF.

Definition digit_val (c : Z) : Z :=
  if (48 <=? c) && (c <=? 57) then c - 48
  else if c =? 95 then 0
  else if (97 <=? c) && (c <=? 102) then c - 97 + 10
  else if (65 <=? c) && (c <=? 70) then c - 65 + 10
  else 16.

Fixpoint has_prefix (s p : list N) : bool :=   (* bytes.HasPrefix s p *)
  match p, s with
  | [], _ => true
  | _ :: _, [] => false
  | a :: p', b :: s' => N.eqb a b && has_prefix s' p'
  end.

Fixpoint common_prefix (a b : list N) : list N :=   (* minLineWS[:i] of scanString *)
  match a, b with
  | x :: a', y :: b' => if N.eqb x y then x :: common_prefix a' b' else []
  | _, _ => []
  end.

Definition bytes_eqb (a b : list N) : bool := if list_eq_dec N.eq_dec a b then true else false.

(* token.Lookup *)
Definition lookup (lit : list N) : tok :=
  let is (k : list N) := bytes_eqb lit k in
  if is [105;102]%N then IF
  else if is [101;108;115;101]%N then ELSE
  else if is [102;111;114]%N then FOR
  else if is [105;110]%N then IN
  else if is [108;101;116]%N then LET
  else if is [116;114;121]%N then TRY
  else if is [102;97;108;108;98;97;99;107]%N then FALLBACK
  else if is [111;116;104;101;114;119;105;115;101]%N then OTHERWISE
  else if is [102;117;110;99]%N then FUNC
  else if is [116;114;117;101]%N then TRUE
  else if is [102;97;108;115;101]%N then FALSE
  else if is [110;117;108;108]%N then NULL
  else IDENT.

Section Scanner.
  Variable src : list N.                       (* s.src *)
  Variables isLetterU isDigitU : Z -> bool.    (* unicode.IsLetter / IsDigit on runes >= 0x80 *)
  Variables scan_comments dont_insert : bool.  (* mode & ScanComments, mode & DontInsertCommas *)

  Definition len : Z := Z.of_nat (length src).
  Definition lf : nat := S (length src).       (* fuel of the byte-consuming loops *)

  Definition byte_at (i : Z) : outcome Z :=
    if (0 <=? i) && (i <? len) then Ok (Z.of_N (nth (Z.to_nat i) src 0%N)) else Panic.

  Definition slice (lo hi : Z) : outcome (list N) :=
    if (0 <=? lo) && (lo <=? hi) && (hi <=? len)
    then Ok (firstn (Z.to_nat (hi - lo)) (skipn (Z.to_nat lo) src)) else Panic.

  Definition decode_rune (l : list N) : Z * Z :=
    let '(r, w) := utf8_decode l in (Z.of_N r, Z.of_nat w).

  (* func (s *Scanner) next() *)
  Definition next (s : st) : outcome st :=
    if rd s <? len then
      b <- byte_at (rd s) ;;
      if b =? 0 then Ok (mkSt 0 (rd s) (rd s + 1) (ins s) (qs s) (errs s + 1))
      else if 0x80 <=? b then
        tl <- slice (rd s) len ;;
        let '(r, w) := decode_rune tl in
        let e := if (r =? 0xFFFD) && (w =? 1) then 1
                 else if (r =? bom) && (0 <? rd s) then 1 else 0 in
        Ok (mkSt r (rd s) (rd s + w) (ins s) (qs s) (errs s + e))
      else Ok (mkSt b (rd s) (rd s + 1) (ins s) (qs s) (errs s))
    else Ok (mkSt (-1) len (rd s) (ins s) (qs s) (errs s)).

  (* Scanner.Init: ch = ' ', offsets 0, insertEOL false; next(); skip a leading BOM *)
  Definition init : outcome st :=
    s <- next (mkSt 32 0 0 false [] 0) ;;
    if ch s =? bom then next s else Ok s.

  Definition is_letter (c : Z) : bool :=
    ((97 <=? c) && (c <=? 122)) || ((65 <=? c) && (c <=? 90)) || ((0x80 <=? c) && isLetterU c).
  Definition is_digit (c : Z) : bool :=
    ((48 <=? c) && (c <=? 57)) || ((0x80 <=? c) && isDigitU c).
  Definition is_ident_part (c : Z) : bool :=
    is_letter c || is_digit c || (c =? 95) || (c =? 36).

  (* skipWhitespace *)
  Fixpoint skip_ws (f : nat) (s : st) : outcome st :=
    match f with
    | O => Fuel
    | S f' =>
      if (ch s =? 32) || (ch s =? 9) then s' <- next s ;; skip_ws f' s'
      else if ch s =? 10 then (if ins s then Ok s else s' <- next s ;; skip_ws f' s')
      else if ch s =? 13 then s' <- next s ;; skip_ws f' s'
      else Ok s
    end.

  (* scanComment: the loop `for s.ch != '\n' && s.ch >= 0 { s.next() }` *)
  Fixpoint comment_loop (f : nat) (s : st) : outcome st :=
    match f with
    | O => Fuel
    | S f' => if negb (ch s =? 10) && (0 <=? ch s) then s' <- next s ;; comment_loop f' s' else Ok s
    end.

  Definition scan_comment (s : st) : outcome st :=
    let offs := off s - 1 in
    s2 <- (if ch s =? 47 then s1 <- next s ;; comment_loop lf s1 else Ok (errf s)) ;;
    _ <- slice offs (off s2) ;;
    Ok s2.

  (* the loop of scanFieldIdentifier / scanIdentifier *)
  Fixpoint ident_loop (f : nat) (s : st) : outcome st :=
    match f with
    | O => Fuel
    | S f' => if is_ident_part (ch s) then s' <- next s ;; ident_loop f' s' else Ok s
    end.

  Definition scan_identifier (s : st) : outcome (list N * st) :=
    let offs := off s in
    s1 <- ident_loop lf s ;;
    lit <- slice offs (off s1) ;;
    Ok (lit, s1).

  Definition scan_field_identifier (s : st) : outcome (list N * st) :=
    let offs := off s in
    if ch s =? 35 then
      s1 <- next s ;;
      if is_digit (ch s1) then lit <- slice offs (off s1) ;; Ok (lit, s1)
      else s2 <- ident_loop lf s1 ;; lit <- slice offs (off s2) ;; Ok (lit, s2)
    else s2 <- ident_loop lf s ;; lit <- slice offs (off s2) ;; Ok (lit, s2).

  (* scanMantissa: [last] is the previous rune (0 initially) *)
  Fixpoint mantissa_loop (f : nat) (base last : Z) (s : st) : outcome (Z * st) :=
    match f with
    | O => Fuel
    | S f' =>
      if digit_val (ch s) <? base then
        let s0 := errf_if ((last =? 95) && (ch s =? 95)) s in
        s' <- next s0 ;; mantissa_loop f' base (ch s) s'
      else Ok (last, s)
    end.

  Definition scan_mantissa (base : Z) (s : st) : outcome st :=
    '(last, s1) <- mantissa_loop lf base 0 s ;;
    Ok (errf_if (last =? 95) s1).

  (* scanNumber, label exit *)
  Definition num_exit (t : tok) (offs : Z) (s : st) : outcome (tok * st) :=
    _ <- slice offs (off s) ;; Ok (t, s).

  (* label exponent *)
  Definition num_exponent (t : tok) (offs : Z) (s : st) : outcome (tok * st) :=
    let c := ch s in
    if (c =? 75) || (c =? 77) || (c =? 71) || (c =? 84) || (c =? 80) then   (* K M G T P *)
      s1 <- next s ;;
      s2 <- (if ch s1 =? 105 then next s1 else Ok s1) ;;
      num_exit INT offs s2
    else if (c =? 101) || (c =? 69) then
      s1 <- next s ;;
      s2 <- (if (ch s1 =? 45) || (ch s1 =? 43) then next s1 else Ok s1) ;;
      let s3 := errf_if (10 <=? digit_val (ch s2)) s2 in
      s4 <- scan_mantissa 10 s3 ;;
      num_exit FLOAT offs s4
    else num_exit t offs s.

  (* `p := s.offset + 1; p < len(s.src) && s.src[p] == '.'` *)
  Definition next_is_dot (s : st) : outcome bool :=
    let p := off s + 1 in
    if p <? len then b <- byte_at p ;; Ok (b =? 46) else Ok false.

  (* label fraction *)
  Definition num_fraction (t : tok) (offs : Z) (s : st) : outcome (tok * st) :=
    if ch s =? 46 then
      d <- next_is_dot s ;;
      if d then num_exit t offs s
      else s1 <- next s ;; s2 <- scan_mantissa 10 s1 ;; num_exponent FLOAT offs s2
    else num_exponent t offs s.

  Definition scan_number (seen_point : bool) (s : st) : outcome (tok * st) :=
    let offs := off s in
    if seen_point then
      s1 <- scan_mantissa 10 s ;; num_exponent FLOAT (offs - 1) s1
    else if ch s =? 48 then
      let offs0 := off s in
      s1 <- next s ;;
      let based (base : Z) :=
        s2 <- next s1 ;; s3 <- scan_mantissa base s2 ;;
        num_exit INT offs (errf_if (off s3 - offs0 <=? 2) s3) in
      if (ch s1 =? 120) || (ch s1 =? 88) then based 16
      else if ch s1 =? 98 then based 2
      else if ch s1 =? 111 then based 8
      else
        let seen_digits := (48 <=? ch s1) && (ch s1 <=? 57) in
        s2 <- (if seen_digits then scan_mantissa 10 s1 else Ok s1) ;;
        d <- (if ch s2 =? 46 then next_is_dot s2 else Ok false) ;;
        if d then num_exit INT offs (errf_if seen_digits s2)
        else if (ch s2 =? 46) || (ch s2 =? 101) || (ch s2 =? 69) then num_fraction INT offs s2
        else num_exponent INT offs (errf_if seen_digits s2)
    else
      s1 <- scan_mantissa 10 s ;; num_fraction INT offs s1.

  (* scanEscape: `for range quote.numHash { if s.ch != '#' { return true, false }; s.next() }` *)
  Fixpoint esc_hashes (n : nat) (s : st) : outcome (bool * st) :=   (* bool: all hashes seen *)
    match n with
    | O => Ok (true, s)
    | S n' => if ch s =? 35 then s' <- next s ;; esc_hashes n' s' else Ok (false, s)
    end.

  (* the digit loop of scanEscape; returns ok *)
  Fixpoint esc_digits (n : nat) (base x : Z) (s : st) : outcome (option Z * st) :=
    match n with
    | O => Ok (Some x, s)
    | S n' =>
      let d := digit_val (ch s) in
      if (ch s =? 95) || (base <=? d) then Ok (None, errf s)
      else s' <- next s ;; esc_digits n' base (x * base + d) s'
    end.

  (* returns (ok, interpolation) *)
  Definition scan_escape (q : quote) (s : st) : outcome (bool * bool * st) :=
    '(all, s0) <- esc_hashes (Z.to_nat (q_numHash q)) s ;;
    if negb all then Ok (true, false, s0) else
    let c := ch s0 in
    let digits (n : nat) (base mx : Z) (s1 : st) :=
      '(x, s2) <- esc_digits n base 0 s1 ;;
      match x with
      | None => Ok (false, false, s2)
      | Some v => if mx <? v then Ok (false, false, errf s2) else Ok (true, false, s2)
      end in
    if c =? 40 then Ok (true, true, s0)
    else if (c =? 97) || (c =? 98) || (c =? 102) || (c =? 110) || (c =? 114) || (c =? 116)
            || (c =? 118) || (c =? 92) || (c =? 47) || (c =? q_char q) then
      s1 <- next s0 ;; Ok (true, false, s1)
    else if (48 <=? c) && (c <=? 55) then
      if q_char q =? 34 then Ok (false, false, errf s0) else digits 3%nat 8 255 s0
    else if c =? 120 then
      if q_char q =? 34 then Ok (false, false, errf s0)
      else s1 <- next s0 ;; digits 2%nat 16 255 s1
    else if c =? 117 then s1 <- next s0 ;; digits 4%nat 16 0x10FFFF s1
    else if c =? 85 then s1 <- next s0 ;; digits 8%nat 16 0x10FFFF s1
    else Ok (false, false, errf s0).

  (* consumeStringClose after `quote.char == ch`: `for i := 1; i < n; i++`; [k] = iterations left *)
  Fixpoint close_loop (k : nat) (i : Z) (q : quote) (s : st) : outcome (bool * st) :=
    match k with
    | O => Ok (true, s)
    | S k' =>
      let want := if i <? q_numChar q then q_char q else 35 in
      if negb (want =? ch s) then Ok (false, s)
      else s' <- next s ;; close_loop k' (i + 1) q s'
    end.

  Definition consume_string_close (c : Z) (q : quote) (s : st) : outcome (bool * st) :=
    if negb (q_char q =? c) then Ok (false, s)
    else close_loop (Z.to_nat (q_numChar q + q_numHash q - 1)) 1 q s.

  (* the end of scanString after the loop (break) *)
  Definition str_finish (t : tok) (extra offs : Z) (q : quote) (line_start : Z) (s : st)
    : outcome (tok * st) :=
    _ <- slice offs (off s + extra) ;;
    match t, q_ws q with
    | STRING, Some ws =>
      cws <- slice line_start (off s - q_numChar q - q_numHash q) ;;
      Ok (t, errf_if (negb (has_prefix ws cws)) s)
    | _, _ => Ok (t, s)
    end.

  Fixpoint str_loop (f : nat) (offs : Z) (q : quote) (close_allowed : bool) (line_start : Z) (s : st)
    : outcome (tok * st) :=
    match f with
    | O => Fuel
    | S f' =>
      let c := ch s in
      if (negb (q_numChar q =? 3) && (c =? 10)) || (c <? 0) then
        let s1 := errf s in
        _ <- slice offs (off s1) ;; Ok (STRING, s1)
      else
        s1 <- next s ;;
        '(closed, s2) <- (if negb (q_numChar q =? 3) || close_allowed
                          then consume_string_close c q s1 else Ok (false, s1)) ;;
        if closed then str_finish STRING 0 offs q line_start s2
        else if (c =? 13) && (q_numChar q =? 3) then str_loop f' offs q close_allowed line_start s2
        else
          q' <- (if close_allowed && negb (c =? 32) && negb (c =? 9) then
                   ws <- slice line_start (off s2 - 1) ;;
                   if negb (c =? 10) || (0 <? Z.of_nat (length ws)) then
                     Ok (mkQ (q_char q) (q_numChar q) (q_numHash q) (q_start q)
                             (Some (match q_ws q with None => ws | Some m => common_prefix m ws end)))
                   else Ok q
                 else Ok q) ;;
          let '(ca, ls) :=
            if c =? 10 then (true, off s2)
            else if (q_numChar q =? 3) && close_allowed && ((c =? 32) || (c =? 9)) then (close_allowed, line_start)
            else (false, line_start) in
          if c =? 92 then
            '(_, interp, s3) <- scan_escape q' s2 ;;
            if interp then str_finish INTERPOLATION 1 offs q' ls (set_qs s3 (q' :: qs s3))
            else str_loop f' offs q' ca ls s3
          else str_loop f' offs q' ca ls s2
    end.

  Definition scan_string (offs : Z) (q : quote) (continuation : bool) (s : st) : outcome (tok * st) :=
    let q0 := if continuation then q else mkQ (q_char q) (q_numChar q) (q_numHash q) offs (q_ws q) in
    let ca := negb continuation && (q_numChar q =? 3) in
    str_loop lf offs q0 ca (off s) s.

  (* consumeQuotes(quote, 2): number of quotes consumed *)
  Definition consume_quotes (c : Z) (s : st) : outcome (Z * st) :=
    if negb (ch s =? c) then Ok (0, s)
    else s1 <- next s ;;
         if negb (ch s1 =? c) then Ok (1, s1)
         else s2 <- next s1 ;; Ok (2, s2).

  (* scanHashes(maxHash) *)
  Fixpoint scan_hashes (k : nat) (i : Z) (s : st) : outcome (Z * st) :=
    match k with
    | O => Ok (i, s)
    | S k' => if negb (ch s =? 35) then Ok (i, s) else s' <- next s ;; scan_hashes k' (i + 1) s'
    end.

  (* popInterpolation *)
  Definition pop_interp (s : st) : outcome (quote * st) :=
    match qs s with
    | [] => Panic                      (* s.quoteStack[len(s.quoteStack)-1] with len = 0 *)
    | q :: r => Ok (q, set_qs s r)
    end.

  (* ResumeInterpolation *)
  Definition resume (s : st) : outcome st :=
    '(q, s1) <- pop_interp s ;;
    '(_, s2) <- scan_string (off s1 - 1) q true s1 ;;
    Ok s2.

  (* recoverParen *)
  Fixpoint recover_paren (f : nat) (open : Z) (s : st) : outcome st :=
    match f with
    | O => Fuel
    | S f' =>
      let c := ch s in
      if (c =? 10) || (c =? -1) then Ok s
      else if c =? 40 then s' <- next s ;; recover_paren f' (open + 1) s'
      else if c =? 41 then
        if open - 1 =? 0 then Ok s else s' <- next s ;; recover_paren f' (open - 1) s'
      else s' <- next s ;; recover_paren f' open s'
    end.

  (* the `for quote.numHash++; s.ch == '#'; quote.numHash++ { s.next() }` loop of Scan *)
  Fixpoint hash_loop (f : nat) (nh : Z) (s : st) : outcome (Z * st) :=
    match f with
    | O => Fuel
    | S f' => if ch s =? 35 then s' <- next s ;; hash_loop f' (nh + 1) s' else Ok (nh, s)
    end.

  (* the double-quote / single-quote case of Scan; [c] is the quote character, already consumed *)
  Definition scan_quoted (c nh : Z) (s : st) : outcome (tok * st) :=
    let offs := off s - 1 - nh in
    let q1 := mkQ c 1 nh 0 None in
    '(n, s1) <- consume_quotes c s ;;
    if n =? 0 then scan_string offs q1 false s1
    else if n =? 1 then
      '(h, s2) <- scan_hashes (Z.to_nat nh) 0 s1 ;;
      if h =? nh then _ <- slice offs (off s2) ;; Ok (STRING, s2)
      else scan_string offs q1 false s2
    else
      '(done, s2) <- (if 0 <? nh then
                        '(h, s2) <- scan_hashes (Z.to_nat nh) 0 s1 ;; Ok (h =? nh, s2)
                      else Ok (false, s1)) ;;
      if done then _ <- slice offs (off s2) ;; Ok (STRING, s2)
      else
        let q3 := mkQ c 3 nh 0 None in
        let bad (s3 : st) :=
          _ <- slice offs (off s3) ;;          (* argument of errf *)
          _ <- slice offs (off s3) ;;
          Ok (STRING, errf s3) in
        if ch s2 =? 10 then s3 <- next s2 ;; scan_string offs q3 false s3
        else if ch s2 =? 13 then
          s3 <- next s2 ;;
          if ch s3 =? 10 then s4 <- next s3 ;; scan_string offs q3 false s4 else bad s3
        else bad s2.

  (* `if s.mode&DontInsertCommas == 0 { s.insertEOL = insertEOL }` and return *)
  Definition finish (t : tok) (start : Z) (insert_eol : bool) (s : st) : outcome (res * st) :=
    Ok (mkRes t start false, if dont_insert then s else set_ins s insert_eol).

  Definition op2 (t0 t1 : tok) (s : st) : outcome (tok * st) :=   (* switch2 *)
    if ch s =? 61 then s1 <- next s ;; Ok (t1, s1) else Ok (t0, s).

  (* Scan, scanAttribute and scanAttributeTokens are mutually recursive (one fuel).
     Their bodies are written once, with the recursive calls as parameters:
     [scan_rec] = s.Scan(), [attr_rec close] = s.scanAttributeTokens(close). *)
  (* the `default:` branch of Scan's outer switch (also reached by fallthrough from the
     identifier case with quote.numHash = 1); [offset] is the token start, [c] the
     current rune, [nh] = quote.numHash *)
  Definition default_case (scan_rec : st -> outcome (res * st)) (attr_rec : tok -> st -> outcome st)
             (offset nh c : Z) (sd : st) : outcome (res * st) :=
    s1 <- next sd ;;      (* always make progress *)
    let simple (t : tok) (ie : bool) := finish t offset ie s1 in
    let quoted (c nh : Z) (s2 : st) :=
      '(t, s3) <- scan_quoted c nh s2 ;; finish t offset true s3 in
    if c =? -1 then
      if ins s1 then Ok (mkRes COMMA offset true, set_ins s1 false)
      else simple EOF false
    else if c =? 95 then                                               (* '_' *)
      b <- (if ch s1 =? 124 then
              if rd s1 <? len then x <- byte_at (rd s1) ;; Ok (x =? 95) else Ok false
            else Ok false) ;;
      if b then s2 <- next s1 ;; s3 <- next s2 ;; finish BOTTOM offset true s3
      else
        '(lit, s2) <- scan_field_identifier s1 ;;
        if bytes_eqb lit [95%N] && (ch s2 =? 35) then
          s3 <- next s2 ;;
          '(_, s4) <- scan_identifier s3 ;;
          finish ILLEGAL offset true (errf s4)
        else finish IDENT offset true s2
    else if c =? 10 then                                               (* '\n' *)
      s2 <- skip_ws lf (set_ins s1 false) ;;
      if (ch s2 =? 44) || (ch s2 =? 58) then scan_rec s2                  (* return s.Scan() *)
      else Ok (mkRes COMMA offset true, s2)
    else if c =? 35 then                                               (* '#' *)
      '(nh', s2) <- hash_loop lf (nh + 1) s1 ;;
      let c' := ch s2 in
      if negb (c' =? 39) && negb (c' =? 34) then finish ILLEGAL offset false s2
      else s3 <- next s2 ;; quoted c' nh' s3
    else if (c =? 34) || (c =? 39) then quoted c nh s1
    else if c =? 64 then                                               (* '@': scanAttribute *)
      let offs := off s1 - 1 in
      '(_, s2) <- scan_identifier s1 ;;
      '(r, s3) <- scan_rec s2 ;;
      s4 <- (if tok_beq (r_tok r) LPAREN then attr_rec RPAREN s3 else Ok (errf s3)) ;;
      _ <- slice offs (off s4) ;;
      finish ATTRIBUTE offset true s4
    else if c =? 58 then simple COLON false
    else if c =? 59 then simple SEMICOLON true
    else if c =? 63 then simple OPTION true
    else if c =? 126 then simple TILDE false
    else if c =? 46 then                                               (* '.' *)
      if (48 <=? ch s1) && (ch s1 <=? 57) then
        '(t, s2) <- scan_number true s1 ;; finish t offset true s2
      else if ch s1 =? 46 then
        s2 <- next s1 ;;
        if ch s2 =? 46 then s3 <- next s2 ;; finish ELLIPSIS offset true s3
        else finish ILLEGAL offset false (errf s2)
      else simple PERIOD false
    else if c =? 44 then simple COMMA false
    else if c =? 40 then simple LPAREN false
    else if c =? 41 then simple RPAREN true
    else if c =? 91 then simple LBRACK false
    else if c =? 93 then simple RBRACK true
    else if c =? 123 then simple LBRACE false
    else if c =? 125 then simple RBRACE true
    else if c =? 43 then simple ADD false
    else if c =? 45 then simple SUB false
    else if c =? 42 then simple MUL false
    else if c =? 47 then                                               (* '/' *)
      if ch s1 =? 47 then
        if ins s1 then
          Ok (mkRes COMMA offset true, mkSt 47 offset (offset + 1) false (qs s1) (errs s1))
        else
          s2 <- scan_comment s1 ;;
          if negb scan_comments then scan_rec (set_ins s2 false)     (* goto scanAgain *)
          else finish COMMENT offset false s2
      else simple QUO false
    else if c =? 60 then                                               (* '<' *)
      if ch s1 =? 45 then s2 <- next s1 ;; finish ARROW offset false s2
      else '(t, s2) <- op2 LSS LEQ s1 ;; finish t offset false s2
    else if c =? 62 then '(t, s2) <- op2 GTR GEQ s1 ;; finish t offset false s2
    else if c =? 61 then
      if ch s1 =? 126 then s2 <- next s1 ;; finish MAT offset false s2
      else '(t, s2) <- op2 BIND EQL s1 ;; finish t offset false s2
    else if c =? 33 then
      if ch s1 =? 126 then s2 <- next s1 ;; finish NMAT offset false s2
      else '(t, s2) <- op2 NOT NEQ s1 ;; finish t offset false s2
    else if c =? 38 then
      if ch s1 =? 38 then s2 <- next s1 ;; finish LAND offset false s2 else simple AND false
    else if c =? 124 then
      if ch s1 =? 124 then s2 <- next s1 ;; finish LOR offset false s2 else simple OR false
    else
      finish ILLEGAL offset (ins s1) (errf_if (negb (c =? bom)) s1).

  Definition scan_body (scan_rec : st -> outcome (res * st)) (attr_rec : tok -> st -> outcome st)
             (s : st) : outcome (res * st) :=
      s0 <- skip_ws lf s ;;
      let offset := off s0 in
      let c := ch s0 in
      if (48 <=? c) && (c <=? 57) then
        '(t, s1) <- scan_number false s0 ;; finish t offset true s1
      else if is_letter c || (c =? 36) || (c =? 35) then
        '(lit, s1) <- scan_field_identifier s0 ;;
        if 1 <? Z.of_nat (length lit) then finish (lookup lit) offset true s1
        else if negb (c =? 35) || (negb (ch s1 =? 39) && negb (ch s1 =? 34) && negb (ch s1 =? 35))
        then finish IDENT offset true s1
        else default_case scan_rec attr_rec offset 1 (ch s1) s1
      else default_case scan_rec attr_rec offset 0 c s0.

  (* scanAttributeTokens(close) *)
  Definition attr_body (scan_rec : st -> outcome (res * st)) (attr_rec : tok -> st -> outcome st)
             (close : tok) (s : st) : outcome st :=
      '(r, s1) <- scan_rec s ;;
      let t := r_tok r in
      if tok_beq t close then Ok s1
      else match t with
      | EOF => Ok (errf s1)
      | INTERPOLATION =>
        '(_, s2) <- pop_interp (errf s1) ;;
        s3 <- recover_paren lf 1 s2 ;;
        attr_rec close s3
      | LPAREN => s2 <- attr_rec RPAREN s1 ;; attr_rec close s2
      | LBRACE => s2 <- attr_rec RBRACE s1 ;; attr_rec close s2
      | LBRACK => s2 <- attr_rec RBRACK s1 ;; attr_rec close s2
      | RPAREN | RBRACK | RBRACE => attr_rec close (errf s1)
      | _ => attr_rec close s1
      end.

  Fixpoint scan (f : nat) (s : st) : outcome (res * st) :=
    match f with
    | O => Fuel
    | S f' => scan_body (scan f') (attr_tokens f') s
    end
  with attr_tokens (f : nat) (close : tok) (s : st) : outcome st :=
    match f with
    | O => Fuel
    | S f' => attr_body (scan f') (attr_tokens f') close s
    end.

  (* fuel sufficient for one Scan call from any state (ScanProofs.scan_fuel_enough) *)
  Definition scan_fuel : nat := (4 * length src + 8)%nat.

  Definition scan1 (s : st) : outcome (res * st) := scan scan_fuel s.

  (* Init, then Scan until EOF: the token sequence of the file (no ResumeInterpolation calls) *)
  Fixpoint tokens_from (n : nat) (s : st) : outcome (list res) :=
    match n with
    | O => Fuel
    | S n' =>
      '(r, s1) <- scan1 s ;;
      if tok_beq (r_tok r) EOF then Ok [r]
      else rest <- tokens_from n' s1 ;; Ok (r :: rest)
    end.

  Definition tokenize : outcome (list res) :=
    s <- init ;; tokens_from (2 * length src + 2)%nat s.

  (* A client script: a sequence of Scan / ResumeInterpolation calls.  The Go
     API allows ResumeInterpolation only while an interpolation is open; calling
     it on an empty quote stack is a misuse (it would panic), reported apart. *)
  Inductive op : Set := OScan | OResume.
  Inductive obs : Type :=
  | ObsTok (r : res) (end_off : Z) (nerr : Z) (depth : nat)
  | ObsResume (end_off : Z) (nerr : Z) (depth : nat).
  Inductive run_result : Type :=
  | RunOk (l : list obs)
  | RunMisuse (l : list obs)     (* ResumeInterpolation with no open interpolation *)
  | RunPanic (l : list obs)
  | RunFuel (l : list obs).

  Fixpoint run_ops (ops : list op) (s : st) (acc : list obs) : run_result :=
    match ops with
    | [] => RunOk (rev acc)
    | OScan :: r =>
      match scan1 s with
      | Ok (t, s1) => run_ops r s1 (ObsTok t (off s1) (errs s1) (length (qs s1)) :: acc)
      | Panic => RunPanic (rev acc)
      | Fuel => RunFuel (rev acc)
      end
    | OResume :: r =>
      match qs s with
      | [] => RunMisuse (rev acc)
      | _ =>
        match resume s with
        | Ok s1 => run_ops r s1 (ObsResume (off s1) (errs s1) (length (qs s1)) :: acc)
        | Panic => RunPanic (rev acc)
        | Fuel => RunFuel (rev acc)
        end
      end
    end.

  Definition run (ops : list op) : run_result :=
    match init with
    | Ok s => run_ops ops s []
    | Panic => RunPanic []
    | Fuel => RunFuel []
    end.
End Scanner.
