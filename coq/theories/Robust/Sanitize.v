(* C02 (sub-development): executable model of errors.Sanitize
   (/repo/cue/errors/errors.go) and of the position order it sorts by
   (/repo/cue/token/position.go, Pos.Compare).

   What is abstracted: an error value is a record of exactly the observations
   that Sanitize makes of it (Position(), Path(), Error()) plus a payload that
   Sanitize never looks at (e_aux: everything else the printer shows, e.g.
   InputPositions; the correspondence harness uses it as the identity of the
   Go error value).  A token.Pos is either NoPos or a triple
     (file name, Offset(), bits)
   where `bits` stands for everything that Go's `==` on Pos sees beyond the
   file NAME and the byte offset: the identity of the *token.File (two files
   may carry the same name) and the low 6 bits of Pos.offset (RelPos, comma
   bit, scanned bit).  Pos.Compare looks at name and offset only, so the order
   used for sorting is coarser than the `==` used for grouping.

   No proofs here; see SanitizeProofs.v. *)
From Coq Require Import List NArith Bool.
From Verif Require Import Base.Order.
Import ListNotations.

Definition str := list N.                       (* a Go string as bytes *)
Definition str_cmp : str -> str -> comparison := list_cmp N.compare.       (* cmp.Compare on strings *)
Definition path_cmp : list str -> list str -> comparison := list_cmp str_cmp.  (* slices.Compare on []string *)

Definition str_eqb (a b : str) : bool := match str_cmp a b with Eq => true | _ => false end.
Definition path_eqb (a b : list str) : bool := match path_cmp a b with Eq => true | _ => false end.  (* slices.Equal *)

(* ---- token.Pos ---- *)
Inductive pos := NoPos | Pos (file : str) (off : N) (bits : N).

(* Go's == on token.Pos *)
Definition pos_eqb (p q : pos) : bool :=
  match p, q with
  | NoPos, NoPos => true
  | Pos f o b, Pos f' o' b' => str_eqb f f' && N.eqb o o' && N.eqb b b'
  | _, _ => false
  end.

(* filepath.IsAbs on Unix: the name starts with '/' *)
Definition is_abs (f : str) : bool := match f with 47%N :: _ => true | _ => false end.

(* cmpBool: false < true *)
Definition cmp_bool (x y : bool) : comparison :=
  match x, y with false, true => Lt | true, false => Gt | _, _ => Eq end.

(* token.Pos.Compare: == first; NoPos LAST; absolute file names first, then
   file name, then offset. *)
Definition pos_compare (p q : pos) : comparison :=
  if pos_eqb p q then Eq else
  match p, q with
  | NoPos, _ => Gt
  | _, NoPos => Lt
  | Pos f1 o1 _, Pos f2 o2 _ =>
    match CompOpp (cmp_bool (is_abs f1) (is_abs f2)) with
    | Eq => match str_cmp f1 f2 with
            | Eq => N.compare o1 o2
            | c => c
            end
    | c => c
    end
  end.

(* errors.comparePosWithNoPosFirst *)
Definition cmp_npf (p q : pos) : comparison :=
  if pos_eqb p q then Eq else
  match p with
  | NoPos => Lt
  | _ => match q with
         | NoPos => Gt
         | _ => pos_compare p q
         end
  end.

(* ---- errors ---- *)
Record err := Err {
  e_pos : pos;            (* Position() *)
  e_path : list str;      (* Path() *)
  e_msg : str;            (* Error(), the rendered message *)
  e_aux : N               (* not inspected by Sanitize *)
}.

(* what Sanitize can observe of an error *)
Definition key (e : err) : pos * list str * str := (e_pos e, e_path e, e_msg e).

(* the comparison function given to slices.SortFunc in removeMultiples *)
Definition err_cmp (x y : err) : comparison :=
  match cmp_npf (e_pos x) (e_pos y) with
  | Eq => path_cmp (e_path x) (e_path y)
  | c => c
  end.

Definition lt_of {A} (c : A -> A -> comparison) (x y : A) : bool :=
  match c x y with Lt => true | _ => false end.

Definition err_lt := lt_of err_cmp.
Definition msg_cmp (x y : err) : comparison := str_cmp (e_msg x) (e_msg y).
Definition msg_lt := lt_of msg_cmp.
Definition msg_eqb (x y : err) : bool := str_eqb (e_msg x) (e_msg y).

(* ---- slices.SortFunc for n <= 12: insertionSortCmpFunc ----
     for i := a+1; i < b; i++ { for j := i; j > a && less(data[j], data[j-1]); j-- { swap } }
   The sorted prefix data[a:i] is kept REVERSED in `rp`; data[i] moves left
   past every element it is strictly less than. *)
Section ISort.
  Context {A : Type} (lt : A -> A -> bool).

  Fixpoint ins_rev (x : A) (rp : list A) : list A :=
    match rp with
    | [] => [x]
    | y :: rp' => if lt x y then y :: ins_rev x rp' else x :: rp
    end.

  Fixpoint isort_from (rp : list A) (l : list A) : list A :=
    match l with
    | [] => rev rp
    | x :: l' => isort_from (ins_rev x rp) l'
    end.

  Definition isort (l : list A) : list A := isort_from [] l.
End ISort.

(* ---- slices.CompactFunc(group, msg equal): s[k] is dropped when it equals
   its predecessor s[k-1] in the ORIGINAL slice ---- *)
Fixpoint compact_from (prev : err) (l : list err) : list err :=
  match l with
  | [] => []
  | y :: l' => if msg_eqb y prev then compact_from y l' else y :: compact_from y l'
  end.

Definition compact (l : list err) : list err :=
  match l with [] => [] | x :: l' => x :: compact_from x l' end.

(* a[i].Position() == a[j].Position() && slices.Equal(a[i].Path(), a[j].Path()) *)
Definition same_pp (x y : err) : bool :=
  pos_eqb (e_pos x) (e_pos y) && path_eqb (e_path x) (e_path y).

(* one group a[i:j] of removeMultiples: a lone error is kept as is, otherwise
   sort by message and compact by message *)
Definition emit (g : list err) : list err :=
  match g with
  | [x] => [x]
  | _ => compact (isort msg_lt g)
  end.

(* the grouping loop: `a` is a[i], the first element of the current group,
   `acc` the further members found so far (reversed), `l` = a[j:]. Every
   candidate is compared with a[i], not with its neighbour. *)
Fixpoint grp (a : err) (acc : list err) (l : list err) : list err :=
  match l with
  | [] => emit (a :: rev acc)
  | b :: l' => if same_pp a b then grp a (b :: acc) l'
               else emit (a :: rev acc) ++ grp b [] l'
  end.

Definition group_phase (l : list err) : list err :=
  match l with [] => [] | a :: l' => grp a [] l' end.

(* list.removeMultiples / list.sanitize (the clone is invisible here) *)
Definition sanitize_list (l : list err) : list err :=
  match l with
  | [] | [_] => l
  | _ => group_phase (isort err_lt l)
  end.

(* ---- errors.Sanitize on the Error interface ---- *)
Inductive cue_error :=
| CNil                          (* nil *)
| CSingle (e : err)             (* any Error that is not a list *)
| CList (l : list err).         (* errors.list *)

Definition sanitize (e : cue_error) : cue_error :=
  match e with
  | CNil => CNil
  | CSingle x => CSingle x
  | CList l => match sanitize_list l with
               | [x] => CSingle x
               | a => CList a
               end
  end.

(* the errors Print/Details iterate over: list(Errors(err)).sanitize() *)
Definition errors_of (e : cue_error) : list err :=
  match e with CNil => [] | CSingle x => [x] | CList l => l end.

Definition printed (e : cue_error) : list err := sanitize_list (errors_of e).

(* ---- errors.Append / appendToList for a non-list second argument:
   slices.Contains by interface equality (identity of the error value) ---- *)
Definition err_eqb (x y : err) : bool :=
  pos_eqb (e_pos x) (e_pos y) && path_eqb (e_path x) (e_path y) && str_eqb (e_msg x) (e_msg y)
  && N.eqb (e_aux x) (e_aux y).

Definition append_to_list (a : list err) (e : err) : list err :=
  if existsb (err_eqb e) a then a else a ++ [e].

Definition append_all (a : list err) (es : list err) : list err := fold_left append_to_list es a.

(* ---- specification vocabulary ---- *)
(* the key order: position (NoPos first), then path, then message *)
Definition key_cmp (k1 k2 : pos * list str * str) : comparison :=
  match cmp_npf (fst (fst k1)) (fst (fst k2)) with
  | Eq => match path_cmp (snd (fst k1)) (snd (fst k2)) with
          | Eq => str_cmp (snd k1) (snd k2)
          | c => c
          end
  | c => c
  end.
Definition key_lt (k1 k2 : pos * list str * str) : Prop := key_cmp k1 k2 = Lt.

(* side conditions *)
(* positions that the sort cannot tell apart are == *)
Definition pos_coherent (es : list err) : Prop :=
  forall x y, In x es -> In y es -> cmp_npf (e_pos x) (e_pos y) = Eq -> e_pos x = e_pos y.
(* errors that Sanitize cannot tell apart are the same error *)
Definition rec_coherent (es : list err) : Prop :=
  forall x y, In x es -> In y es -> key x = key y -> x = y.
Definition coherent (es : list err) : Prop := pos_coherent es /\ rec_coherent es.

(* decidable versions of the side conditions (SanitizeProofs.pos_coherentb_spec,
   rec_coherentb_spec) *)
Definition pos_coherentb (es : list err) : bool :=
  forallb (fun x => forallb (fun y =>
    match cmp_npf (e_pos x) (e_pos y) with
    | Eq => pos_eqb (e_pos x) (e_pos y)
    | _ => true
    end) es) es.
Definition rec_coherentb (es : list err) : bool :=
  forallb (fun x => forallb (fun y =>
    if same_pp x y && msg_eqb x y then N.eqb (e_aux x) (e_aux y) else true) es) es.
