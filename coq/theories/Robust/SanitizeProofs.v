(* C02 (sub-development): theorems about the model of errors.Sanitize
   (Sanitize.v).  Main results, for ALL error lists:
     sanitize_subset, sanitize_complete, sanitize_length_le
     sanitize_canon / sanitize_idempotent            (unconditional)
     sanitize_sorted_nodup                           (position-coherent lists)
     sanitize_keys_set_invariant / sanitize_keys_perm (position-coherent lists)
     sanitize_set_invariant / sanitize_perm          (coherent lists)
     sanitize_any_sort_keys                          (any sorting algorithm, e.g. pdqsort for n > 12)
   Refutation witnesses for the side conditions are in SanTopoExamples.v. *)
From Coq Require Import List NArith Bool Arith Lia Sorting.Sorted Sorting.Permutation Relations RelationClasses.
From Verif Require Import Base.Order Robust.Sanitize.
Import ListNotations.

(* ------------------------------------------------------------------ *)
(* Generic facts                                                       *)
(* ------------------------------------------------------------------ *)

Lemma lt_of_true {A} (c : A -> A -> comparison) x y : lt_of c x y = true <-> c x y = Lt.
Proof. unfold lt_of. destruct (c x y); split; congruence. Qed.

Lemma lt_of_false {A} (c : A -> A -> comparison) x y : lt_of c x y = false <-> c x y <> Lt.
Proof. unfold lt_of. destruct (c x y); split; congruence. Qed.

(* "x is not after y": the relation an insertion sort establishes *)
Definition le_of {A} (c : A -> A -> comparison) (x y : A) : Prop := c y x <> Lt.

Section Pre.
  Context {A : Type} (c : A -> A -> comparison) (Hc : total_pre c).

  Lemma pre_gt_lt x y : c x y = Gt <-> c y x = Lt.
  Proof. rewrite (tp_opp c Hc x y). destruct (c y x); simpl; split; congruence. Qed.

  Lemma pre_eq_sym x y : c x y = Eq -> c y x = Eq.
  Proof. rewrite (tp_opp c Hc y x). intros ->. reflexivity. Qed.

  Lemma pre_eq_r x y z : c x y = Eq -> c z x = c z y.
  Proof.
    intros E. rewrite (tp_opp c Hc z x), (tp_opp c Hc z y). f_equal. apply (tp_eq_l c Hc). exact E.
  Qed.

  Lemma le_of_refl x : le_of c x x.
  Proof. unfold le_of. rewrite (tp_refl c Hc). discriminate. Qed.

  Lemma le_of_total x y : le_of c x y \/ le_of c y x.
  Proof.
    unfold le_of. destruct (c y x) eqn:E.
    - left; discriminate.
    - right. rewrite (tp_opp c Hc), E. discriminate.
    - left; discriminate.
  Qed.

  Lemma le_of_trans x y z : le_of c x y -> le_of c y z -> le_of c x z.
  Proof.
    unfold le_of. intros H1 H2 H3.
    (* c z x = Lt.  compare y with x and z *)
    destruct (c y x) eqn:Eyx; [| congruence |].
    - (* y ~ x *) apply H2. rewrite <- H3. symmetry. apply pre_eq_r. apply pre_eq_sym. exact Eyx.
    - (* x < y *) apply pre_gt_lt in Eyx.
      apply H2. exact (tp_trans c Hc _ _ _ H3 Eyx).
  Qed.

  Lemma lt_le_of x y : c x y = Lt -> le_of c x y.
  Proof. unfold le_of. intros E. rewrite (tp_opp c Hc), E. discriminate. Qed.

  Lemma lt_asym x y : c x y = Lt -> c y x = Lt -> False.
  Proof. intros E. rewrite (tp_opp c Hc), E. discriminate. Qed.

  Lemma lt_irrefl x : c x x <> Lt.
  Proof. rewrite (tp_refl c Hc). discriminate. Qed.

  (* ---------------- insertion sort ---------------- *)
  Let lt := lt_of c.

  Lemma ins_rev_perm x rp : Permutation (x :: rp) (ins_rev lt x rp).
  Proof.
    induction rp as [|y rp IH]; simpl; auto.
    destruct (lt x y); auto.
    eapply perm_trans; [apply perm_swap|]. apply perm_skip. exact IH.
  Qed.

  Lemma isort_from_perm l : forall rp, Permutation (rev rp ++ l) (isort_from lt rp l).
  Proof.
    induction l as [|x l IH]; intros rp; simpl.
    - rewrite app_nil_r. apply Permutation_refl.
    - eapply perm_trans; [| apply IH].
      apply Permutation_trans with ((x :: rev rp) ++ l).
      + simpl. symmetry. apply Permutation_middle.
      + apply Permutation_app_tail.
        apply Permutation_trans with (x :: rp); [apply perm_skip; symmetry; apply Permutation_rev|].
        apply Permutation_trans with (ins_rev lt x rp); [apply ins_rev_perm | apply Permutation_rev].
  Qed.

  Lemma isort_perm l : Permutation l (isort lt l).
  Proof. apply (isort_from_perm l []). Qed.

  Lemma isort_in l x : In x (isort lt l) <-> In x l.
  Proof.
    split; apply Permutation_in; [symmetry|]; apply isort_perm.
  Qed.

  Lemma isort_length l : length (isort lt l) = length l.
  Proof. symmetry. apply Permutation_length, isort_perm. Qed.

  (* the reversed prefix is descending: each element is not before its successor *)
  Definition rdesc (rp : list A) : Prop := StronglySorted (fun a b => le_of c b a) rp.

  Lemma ins_rev_rdesc x rp : rdesc rp -> rdesc (ins_rev lt x rp).
  Proof.
    unfold rdesc. induction rp as [|y rp IH]; intros H; simpl.
    - constructor; constructor.
    - inversion H as [|? ? Hs Hf]; subst.
      destruct (lt x y) eqn:E.
      + apply lt_of_true in E. constructor; [apply IH; exact Hs|].
        (* y is >= every element of ins_rev x rp *)
        rewrite Forall_forall. intros z Hz.
        apply (Permutation_in _ (Permutation_sym (ins_rev_perm x rp))) in Hz.
        destruct Hz as [<- | Hz].
        * apply lt_le_of. exact E.
        * rewrite Forall_forall in Hf. apply Hf. exact Hz.
      + apply lt_of_false in E. constructor; [exact H|].
        constructor; [exact E|].
        rewrite Forall_forall in *. intros z Hz.
        apply le_of_trans with y; [apply Hf; exact Hz | exact E].
  Qed.

  Lemma StronglySorted_rev (R : A -> A -> Prop) l :
    StronglySorted R l -> StronglySorted (fun a b => R b a) (rev l).
  Proof.
    induction 1 as [|a l Hs IH Hf]; simpl; [constructor|].
    assert (G : forall l1, StronglySorted (fun a b => R b a) l1 -> Forall (fun z => R a z) l1 ->
                           StronglySorted (fun a b => R b a) (l1 ++ [a])).
    { induction l1 as [|b l1 IH1]; intros H1 H2; simpl.
      - constructor; constructor.
      - inversion H1; subst. inversion H2; subst. constructor; [apply IH1; assumption|].
        rewrite Forall_app. split; [assumption | constructor; [assumption | constructor]]. }
    apply G; [exact IH|]. rewrite Forall_forall in *. intros z Hz. apply Hf. apply in_rev. exact Hz.
  Qed.

  Lemma isort_from_sorted l : forall rp, rdesc rp -> StronglySorted (le_of c) (isort_from lt rp l).
  Proof.
    induction l as [|x l IH]; intros rp H; simpl.
    - apply StronglySorted_rev in H. exact H.
    - apply IH. apply ins_rev_rdesc. exact H.
  Qed.

  Lemma isort_sorted l : StronglySorted (le_of c) (isort lt l).
  Proof. apply isort_from_sorted. constructor. Qed.

  (* a locally sorted list is left untouched (the sort is stable and only
     ever compares an element with its left neighbour first) *)
  Lemma isort_from_fixed l : forall rp,
    Sorted (le_of c) (rev rp ++ l) -> isort_from lt rp l = rev rp ++ l.
  Proof.
    induction l as [|x l IH]; intros rp H; simpl.
    - rewrite app_nil_r. reflexivity.
    - assert (E : ins_rev lt x rp = x :: rp).
      { destruct rp as [|y rp]; simpl; [reflexivity|].
        replace (lt x y) with false; [reflexivity|].
        symmetry. apply lt_of_false.
        (* y is immediately followed by x in rev (y :: rp) ++ x :: l *)
        simpl in H. rewrite <- app_assoc in H. simpl in H.
        clear IH. induction (rev rp) as [|z r IHr]; simpl in H.
        - inversion H as [|? ? ? Hh]; subst. inversion Hh; subst. assumption.
        - inversion H; subst. apply IHr. assumption. }
      rewrite E. rewrite IH; simpl; rewrite <- app_assoc; [reflexivity | exact H].
  Qed.

  Lemma isort_fixed l : Sorted (le_of c) l -> isort lt l = l.
  Proof. intros H. apply (isort_from_fixed l []). exact H. Qed.
End Pre.

(* two strictly sorted lists with the same elements are equal *)
Lemma strict_sorted_unique {A} (R : A -> A -> Prop) :
  (forall x, ~ R x x) -> (forall x y, R x y -> R y x -> False) ->
  forall l1 l2, StronglySorted R l1 -> StronglySorted R l2 ->
  (forall x, In x l1 <-> In x l2) -> l1 = l2.
Proof.
  intros Hirr Hasym. induction l1 as [|a l1 IH]; intros l2 H1 H2 Hm.
  - destruct l2 as [|b l2]; [reflexivity|]. exfalso. apply (Hm b). left; reflexivity.
  - destruct l2 as [|b l2]; [exfalso; apply (Hm a); left; reflexivity|].
    inversion H1 as [|? ? Hs1 Hf1]; subst. inversion H2 as [|? ? Hs2 Hf2]; subst.
    rewrite Forall_forall in Hf1, Hf2.
    assert (a = b).
    { destruct (proj1 (Hm a) (or_introl eq_refl)) as [E | Ha]; [congruence|].
      destruct (proj2 (Hm b) (or_introl eq_refl)) as [E | Hb]; [congruence|].
      exfalso. apply (Hasym a b); [apply Hf1; exact Hb | apply Hf2; exact Ha]. }
    subst b. f_equal. apply IH; try assumption.
    intros x. split; intros Hx.
    + destruct (proj1 (Hm x) (or_intror Hx)) as [E | ?]; [|assumption].
      subst x. exfalso. apply (Hirr a). apply Hf1. exact Hx.
    + destruct (proj2 (Hm x) (or_intror Hx)) as [E | ?]; [|assumption].
      subst x. exfalso. apply (Hirr a). apply Hf2. exact Hx.
Qed.

Lemma map_inj_on {A B} (f : A -> B) : forall l1 l2,
  map f l1 = map f l2 ->
  (forall x y, In x l1 -> In y l2 -> f x = f y -> x = y) -> l1 = l2.
Proof.
  induction l1 as [|a l1 IH]; intros [|b l2] E H; simpl in E; try discriminate; [reflexivity|].
  injection E as E1 E2. f_equal.
  - apply H; simpl; auto.
  - apply IH; [exact E2|]. intros; apply H; simpl; auto.
Qed.

Lemma Sorted_app_l {A} (R : A -> A -> Prop) l1 l2 : Sorted R (l1 ++ l2) -> Sorted R l1.
Proof.
  induction l1 as [|a l1 IH]; intros H; [constructor|].
  simpl in H. inversion H as [|? ? Hs Hh]; subst. constructor; [apply IH; exact Hs|].
  destruct l1; [constructor|]. simpl in Hh. inversion Hh; subst. constructor; assumption.
Qed.

Lemma Sorted_app_r {A} (R : A -> A -> Prop) l1 l2 : Sorted R (l1 ++ l2) -> Sorted R l2.
Proof.
  induction l1 as [|a l1 IH]; intros H; [exact H|].
  simpl in H. inversion H; subst. apply IH; assumption.
Qed.

(* gluing two locally sorted lists: only the junction matters *)
Fixpoint last_opt {A} (l : list A) : option A :=
  match l with [] => None | [x] => Some x | _ :: l' => last_opt l' end.

Lemma last_opt_in {A} (l : list A) x : last_opt l = Some x -> In x l.
Proof.
  induction l as [|a l IH]; simpl; [discriminate|].
  destruct l; [intros [= ->]; auto | intros H; right; apply IH; exact H].
Qed.

Lemma Sorted_app {A} (R : A -> A -> Prop) l1 l2 :
  Sorted R l1 -> Sorted R l2 ->
  (forall x y, last_opt l1 = Some x -> hd_error l2 = Some y -> R x y) ->
  Sorted R (l1 ++ l2).
Proof.
  induction l1 as [|a l1 IH]; intros H1 H2 Hj; [exact H2|].
  inversion H1 as [|? ? Hs Hh]; subst. simpl. constructor.
  - apply IH; [exact Hs | exact H2 |]. intros x y Hx Hy. apply Hj; [|exact Hy].
    simpl. destruct l1; [discriminate | exact Hx].
  - destruct l1 as [|b l1]; simpl.
    + destruct l2 as [|y l2]; constructor. apply Hj; reflexivity.
    + inversion Hh; subst. constructor. assumption.
Qed.

(* ------------------------------------------------------------------ *)
(* The concrete orders of errors.go / position.go                      *)
(* ------------------------------------------------------------------ *)

Lemma cmp_bool_total : total_cmp cmp_bool.
Proof.
  constructor.
  - intros [] []; simpl; split; congruence.
  - intros [] []; reflexivity.
  - intros [] [] []; simpl; congruence.
Qed.

Lemma str_cmp_total : total_cmp str_cmp.
Proof. apply list_cmp_total, N_compare_total. Qed.

Lemma path_cmp_total : total_cmp path_cmp.
Proof. apply list_cmp_total, str_cmp_total. Qed.

Lemma str_eqb_eq a b : str_eqb a b = true <-> a = b.
Proof.
  unfold str_eqb. rewrite <- (tc_eq str_cmp str_cmp_total). destruct (str_cmp a b); split; congruence.
Qed.

Lemma path_eqb_eq a b : path_eqb a b = true <-> a = b.
Proof.
  unfold path_eqb. rewrite <- (tc_eq path_cmp path_cmp_total). destruct (path_cmp a b); split; congruence.
Qed.

Lemma pos_eqb_eq p q : pos_eqb p q = true <-> p = q.
Proof.
  destruct p as [|f o b], q as [|f' o' b']; simpl; split; try congruence; auto.
  - rewrite !andb_true_iff, str_eqb_eq, !N.eqb_eq. intros [[-> ->] ->]. reflexivity.
  - intros [= -> -> ->]. rewrite !andb_true_iff, str_eqb_eq, !N.eqb_eq. auto.
Qed.

(* the part of a position that the order looks at: validity, relative-ness of
   the file name, file name, offset *)
Definition pk (p : pos) : bool * (bool * (str * N)) :=
  match p with
  | NoPos => (false, (false, ([], 0%N)))
  | Pos f o _ => (true, (negb (is_abs f), (f, o)))
  end.
Definition pk_cmp := lex cmp_bool (lex cmp_bool (lex str_cmp N.compare)).

Lemma pk_cmp_total : total_cmp pk_cmp.
Proof.
  repeat apply lex_total; auto using cmp_bool_total, str_cmp_total, N_compare_total.
Qed.

(* comparePosWithNoPosFirst is the order induced by pk: the == shortcut is
   consistent with it *)
Lemma cmp_npf_pk p q : cmp_npf p q = pk_cmp (pk p) (pk q).
Proof.
  unfold cmp_npf. destruct (pos_eqb p q) eqn:E.
  - apply pos_eqb_eq in E. subst q. symmetry. apply (tc_refl _ pk_cmp_total).
  - destruct p as [|f o b], q as [|f' o' b']; try reflexivity.
    + simpl in E. discriminate.
    + unfold pos_compare. rewrite E. unfold pk_cmp, lex; simpl.
      destruct (is_abs f), (is_abs f'); simpl; reflexivity.
Qed.

(* token.Pos.Compare is the same order except that NoPos comes last *)
Definition pk_last (p : pos) : bool * (bool * (str * N)) :=
  match p with
  | NoPos => (true, (false, ([], 0%N)))
  | Pos f o _ => (false, (negb (is_abs f), (f, o)))
  end.
Lemma pos_compare_pk p q : pos_compare p q = pk_cmp (pk_last p) (pk_last q).
Proof.
  unfold pos_compare. destruct (pos_eqb p q) eqn:E.
  - apply pos_eqb_eq in E. subst q. symmetry. apply (tc_refl _ pk_cmp_total).
  - destruct p as [|f o b], q as [|f' o' b']; try reflexivity.
    + simpl in E. discriminate.
    + unfold pk_cmp, lex; simpl. destruct (is_abs f), (is_abs f'); simpl; reflexivity.
Qed.

Lemma cmp_npf_pre : total_pre cmp_npf.
Proof.
  pose proof (total_pre_of_map pk_cmp pk pk_cmp_total) as H.
  destruct H as [h1 h2 h3 h4].
  constructor; intros; rewrite ?cmp_npf_pk in *; eauto.
Qed.

Lemma pos_compare_pre : total_pre pos_compare.
Proof.
  pose proof (total_pre_of_map pk_cmp pk_last pk_cmp_total) as H.
  destruct H as [h1 h2 h3 h4].
  constructor; intros; rewrite ?pos_compare_pk in *; eauto.
Qed.

Definition ek (e : err) := (pk (e_pos e), e_path e).
Definition ek_cmp := lex pk_cmp path_cmp.
Lemma err_cmp_ek x y : err_cmp x y = ek_cmp (ek x) (ek y).
Proof. unfold err_cmp, ek_cmp, lex, ek; simpl. rewrite cmp_npf_pk. reflexivity. Qed.

Lemma err_cmp_pre : total_pre err_cmp.
Proof.
  pose proof (total_pre_of_map ek_cmp ek (lex_total _ _ pk_cmp_total path_cmp_total)) as H.
  destruct H as [h1 h2 h3 h4].
  constructor; intros; rewrite ?err_cmp_ek in *; eauto.
Qed.

Lemma msg_cmp_pre : total_pre msg_cmp.
Proof. apply (total_pre_of_map str_cmp e_msg str_cmp_total). Qed.

Definition kk (k : pos * list str * str) := (pk (fst (fst k)), snd (fst k), snd k).
Definition kk_cmp := lex (lex pk_cmp path_cmp) str_cmp.
Lemma key_cmp_kk k1 k2 : key_cmp k1 k2 = kk_cmp (kk k1) (kk k2).
Proof.
  unfold key_cmp, kk_cmp, lex, kk; simpl. rewrite cmp_npf_pk.
  destruct (pk_cmp (pk (fst (fst k1))) (pk (fst (fst k2)))); reflexivity.
Qed.

Lemma key_cmp_pre : total_pre key_cmp.
Proof.
  pose proof (total_pre_of_map kk_cmp kk
    (lex_total _ _ (lex_total _ _ pk_cmp_total path_cmp_total) str_cmp_total)) as H.
  destruct H as [h1 h2 h3 h4].
  constructor; intros; rewrite ?key_cmp_kk in *; eauto.
Qed.

Lemma key_lt_trans : Transitive key_lt.
Proof. intros x y z. apply (tp_trans _ key_cmp_pre). Qed.
Lemma key_lt_irrefl k : ~ key_lt k k.
Proof. apply (lt_irrefl _ key_cmp_pre). Qed.
Lemma key_lt_asym k1 k2 : key_lt k1 k2 -> key_lt k2 k1 -> False.
Proof. apply (lt_asym _ key_cmp_pre). Qed.

(* the key order refines the sort order by the message *)
Lemma key_cmp_err x y :
  key_cmp (key x) (key y) = match err_cmp x y with Eq => msg_cmp x y | c => c end.
Proof.
  unfold key_cmp, err_cmp, key, msg_cmp; simpl.
  destruct (cmp_npf (e_pos x) (e_pos y)); reflexivity.
Qed.

(* same position (==) and path *)
Lemma same_pp_iff x y : same_pp x y = true <-> e_pos x = e_pos y /\ e_path x = e_path y.
Proof. unfold same_pp. rewrite andb_true_iff, pos_eqb_eq, path_eqb_eq. reflexivity. Qed.

Lemma same_pp_refl x : same_pp x x = true.
Proof. apply same_pp_iff; auto. Qed.
Lemma same_pp_sym x y : same_pp x y = true -> same_pp y x = true.
Proof. rewrite !same_pp_iff. intros [-> ->]; auto. Qed.
Lemma same_pp_trans x y z : same_pp x y = true -> same_pp y z = true -> same_pp x z = true.
Proof. rewrite !same_pp_iff. intros [-> ->] [-> ->]; auto. Qed.

Lemma same_pp_err_cmp x y : same_pp x y = true -> err_cmp x y = Eq.
Proof.
  rewrite same_pp_iff. intros [E1 E2]. unfold err_cmp. rewrite E1, E2.
  rewrite (tp_refl _ cmp_npf_pre). apply (tc_refl _ path_cmp_total).
Qed.

Lemma msg_eqb_iff x y : msg_eqb x y = true <-> e_msg x = e_msg y.
Proof. apply str_eqb_eq. Qed.

Lemma same_key x y : same_pp x y = true -> e_msg x = e_msg y -> key x = key y.
Proof. rewrite same_pp_iff. unfold key. intros [-> ->] ->. reflexivity. Qed.

(* ------------------------------------------------------------------ *)
(* slices.CompactFunc by message                                       *)
(* ------------------------------------------------------------------ *)

Lemma compact_from_in prev l x : In x (compact_from prev l) -> In x l.
Proof.
  revert prev. induction l as [|y l IH]; intros prev; simpl; [auto|].
  destruct (msg_eqb y prev); simpl; intros H.
  - right. eapply IH. exact H.
  - destruct H as [H | H]; [auto | right; eapply IH; exact H].
Qed.

Lemma compact_in l x : In x (compact l) -> In x l.
Proof.
  destruct l as [|a l]; simpl; [auto|]. intros [H | H]; [auto | right; eapply compact_from_in; exact H].
Qed.

Lemma compact_from_repr prev l x :
  In x l -> (exists y, In y (compact_from prev l) /\ e_msg y = e_msg x) \/ e_msg x = e_msg prev.
Proof.
  revert prev. induction l as [|y l IH]; intros prev Hx; [destruct Hx|].
  simpl. destruct (msg_eqb y prev) eqn:E.
  - apply msg_eqb_iff in E. destruct Hx as [<- | Hx]; [right; exact E|].
    destruct (IH y Hx) as [H | H]; [left; exact H | right; congruence].
  - destruct Hx as [<- | Hx]; [left; exists y; simpl; auto|].
    destruct (IH y Hx) as [[z [Hz Ez]] | H].
    + left. exists z. simpl; auto.
    + left. exists y. simpl; auto.
Qed.

Lemma compact_repr l x : In x l -> exists y, In y (compact l) /\ e_msg y = e_msg x.
Proof.
  destruct l as [|a l]; [intros []|]. intros [<- | Hx]; [exists a; simpl; auto|].
  destruct (compact_from_repr a l x Hx) as [[z [Hz Ez]] | H].
  - exists z. simpl; auto.
  - exists a. simpl; auto.
Qed.

Lemma compact_from_length prev l : length (compact_from prev l) <= length l.
Proof.
  revert prev. induction l as [|y l IH]; intros prev; simpl; [lia|].
  destruct (msg_eqb y prev); simpl; specialize (IH y); lia.
Qed.

Lemma compact_length l : length (compact l) <= length l.
Proof. destruct l as [|a l]; simpl; [lia|]. pose proof (compact_from_length a l). lia. Qed.

Definition mlt (x y : err) : Prop := msg_cmp x y = Lt.

Lemma compact_from_fixed prev l : Sorted mlt (prev :: l) -> compact_from prev l = l.
Proof.
  revert prev. induction l as [|y l IH]; intros prev H; [reflexivity|].
  inversion H as [|? ? Hs Hh]; subst. inversion Hh as [|? ? Hlt]; subst.
  simpl. replace (msg_eqb y prev) with false; [f_equal; apply IH; exact Hs|].
  symmetry. apply not_true_iff_false. intros E. apply msg_eqb_iff in E.
  unfold mlt, msg_cmp in Hlt. rewrite E, (tc_refl _ str_cmp_total) in Hlt. discriminate.
Qed.

Lemma compact_fixed l : Sorted mlt l -> compact l = l.
Proof. destruct l as [|a l]; [reflexivity|]. intros H. simpl. f_equal. apply compact_from_fixed. exact H. Qed.

Lemma compact_from_sorted prev l :
  StronglySorted (le_of msg_cmp) (prev :: l) ->
  Sorted mlt (compact_from prev l) /\ HdRel mlt prev (compact_from prev l).
Proof.
  revert prev. induction l as [|y l IH]; intros prev H; simpl; [split; constructor|].
  inversion H as [|? ? Hs Hf]; subst. inversion Hf as [|? ? Hle Hf']; subst.
  destruct (IH y Hs) as [IH1 IH2].
  destruct (msg_eqb y prev) eqn:E.
  - split; [exact IH1|]. apply msg_eqb_iff in E.
    destruct (compact_from y l); constructor. inversion IH2; subst.
    unfold mlt, msg_cmp in *. rewrite <- E. assumption.
  - split; [constructor; assumption|]. constructor.
    unfold le_of in Hle. unfold mlt.
    destruct (msg_cmp y prev) eqn:C; [| congruence |].
    + exfalso. unfold msg_cmp in C. apply (tc_eq _ str_cmp_total) in C.
      apply msg_eqb_iff in C. congruence.
    + apply (pre_gt_lt _ msg_cmp_pre). exact C.
Qed.

Lemma compact_sorted l : StronglySorted (le_of msg_cmp) l -> Sorted mlt (compact l).
Proof.
  destruct l as [|a l]; intros H; simpl; [constructor|].
  destruct (compact_from_sorted a l H). constructor; assumption.
Qed.

(* ------------------------------------------------------------------ *)
(* One group                                                           *)
(* ------------------------------------------------------------------ *)

Lemma emit_eq g : emit g = compact (isort msg_lt g).
Proof. destruct g as [|x [|y g]]; reflexivity. Qed.

Lemma emit_in g x : In x (emit g) -> In x g.
Proof. rewrite emit_eq. intros H. apply compact_in in H. exact (proj1 (isort_in msg_cmp g x) H). Qed.

Lemma emit_repr g x : In x g -> exists y, In y (emit g) /\ e_msg y = e_msg x.
Proof. rewrite emit_eq. intros H. apply compact_repr. exact (proj2 (isort_in msg_cmp g x) H). Qed.

Lemma emit_length g : length (emit g) <= length g.
Proof.
  rewrite emit_eq. pose proof (compact_length (isort msg_lt g)).
  unfold msg_lt in H. rewrite (isort_length msg_cmp) in H. exact H.
Qed.

Lemma emit_sorted g : Sorted mlt (emit g).
Proof. rewrite emit_eq. apply compact_sorted. apply (isort_sorted _ msg_cmp_pre). Qed.

Lemma mlt_le x y : mlt x y -> le_of msg_cmp x y.
Proof. apply (lt_le_of _ msg_cmp_pre). Qed.

Lemma Sorted_impl {A} (R S : A -> A -> Prop) l : (forall x y, R x y -> S x y) -> Sorted R l -> Sorted S l.
Proof.
  intros H. induction 1 as [|a l Hs IH Hh]; constructor; auto.
  destruct Hh; constructor; auto.
Qed.

Lemma emit_fixed g : Sorted mlt g -> emit g = g.
Proof.
  intros H. rewrite emit_eq. unfold msg_lt. rewrite (isort_fixed msg_cmp).
  - apply compact_fixed. exact H.
  - eapply Sorted_impl; [|exact H]. apply mlt_le.
Qed.

Lemma emit_nonempty a g : emit (a :: g) <> [].
Proof.
  intros E. destruct (emit_repr (a :: g) a (or_introl eq_refl)) as [y [Hy _]]. rewrite E in Hy. destruct Hy.
Qed.

(* ------------------------------------------------------------------ *)
(* The grouping loop                                                   *)
(* ------------------------------------------------------------------ *)

Fixpoint tw (p : err -> bool) (l : list err) : list err :=
  match l with [] => [] | b :: l' => if p b then b :: tw p l' else [] end.
Fixpoint dw (p : err -> bool) (l : list err) : list err :=
  match l with [] => [] | b :: l' => if p b then dw p l' else l end.

Lemma tw_dw p l : l = tw p l ++ dw p l.
Proof. induction l as [|b l IH]; simpl; [reflexivity|]. destruct (p b); simpl; congruence. Qed.

Lemma tw_all p l x : In x (tw p l) -> p x = true.
Proof.
  induction l as [|b l IH]; simpl; [intros []|]. destruct (p b) eqn:E; simpl; [|intros []].
  intros [<- | H]; auto.
Qed.

Lemma dw_head p l y : hd_error (dw p l) = Some y -> p y = false.
Proof.
  induction l as [|b l IH]; simpl; [discriminate|]. destruct (p b) eqn:E; simpl; [exact IH|].
  intros [= <-]. exact E.
Qed.

Lemma dw_length p l : length (dw p l) <= length l.
Proof. induction l as [|b l IH]; simpl; [lia|]. destruct (p b); simpl; lia. Qed.

Lemma tw_in p l x : In x (tw p l) -> In x l.
Proof. intros H. rewrite (tw_dw p l). apply in_or_app; auto. Qed.
Lemma dw_in p l x : In x (dw p l) -> In x l.
Proof. intros H. rewrite (tw_dw p l). apply in_or_app; auto. Qed.

(* the accumulator-free reading of the loop: a[i:j] is the longest run of
   elements equal (in position and path) to a[i] *)
Lemma grp_eq l : forall a acc,
  grp a acc l = emit (a :: rev acc ++ tw (same_pp a) l) ++ group_phase (dw (same_pp a) l).
Proof.
  induction l as [|b l IH]; intros a acc; simpl.
  - rewrite !app_nil_r. reflexivity.
  - destruct (same_pp a b).
    + rewrite IH. simpl. rewrite <- app_assoc. reflexivity.
    + rewrite app_nil_r. reflexivity.
Qed.

Lemma group_phase_eq a l :
  group_phase (a :: l) = emit (a :: tw (same_pp a) l) ++ group_phase (dw (same_pp a) l).
Proof. simpl. rewrite grp_eq. reflexivity. Qed.

Lemma gp_ind (P : list err -> list err -> Prop) :
  P [] [] ->
  (forall a l, P (dw (same_pp a) l) (group_phase (dw (same_pp a) l)) ->
               P (a :: l) (emit (a :: tw (same_pp a) l) ++ group_phase (dw (same_pp a) l))) ->
  forall l, P l (group_phase l).
Proof.
  intros H0 Hstep.
  assert (G : forall n l, length l <= n -> P l (group_phase l)).
  { induction n as [|n IH]; intros l Hl.
    - destruct l; [exact H0 | simpl in Hl; lia].
    - destruct l as [|a l]; [exact H0|]. rewrite group_phase_eq. apply Hstep. apply IH.
      pose proof (dw_length (same_pp a) l). simpl in Hl. lia. }
  intros l. apply (G (length l)). lia.
Qed.

Lemma gp_subset : forall l x, In x (group_phase l) -> In x l.
Proof.
  apply (gp_ind (fun l o => forall x, In x o -> In x l)); [auto|].
  intros a l IH x Hx. apply in_app_or in Hx. destruct Hx as [Hx | Hx].
  - apply emit_in in Hx. destruct Hx as [<- | Hx]; [left; reflexivity | right; eapply tw_in; exact Hx].
  - right. eapply dw_in. apply IH. exact Hx.
Qed.

Lemma gp_complete : forall l x, In x l -> exists y, In y (group_phase l) /\ key y = key x.
Proof.
  apply (gp_ind (fun l o => forall x, In x l -> exists y, In y o /\ key y = key x)); [intros x []|].
  intros a l IH x Hx.
  assert (Hx' : In x (a :: tw (same_pp a) l) \/ In x (dw (same_pp a) l)).
  { destruct Hx as [<- | Hx]; [left; left; reflexivity|].
    rewrite (tw_dw (same_pp a) l) in Hx. apply in_app_or in Hx. destruct Hx; [left; right|right]; assumption. }
  destruct Hx' as [Hg | Hd].
  - destruct (emit_repr _ x Hg) as [y [Hy Ey]]. exists y. split; [apply in_or_app; left; exact Hy|].
    apply same_key; [|exact Ey].
    assert (Hall : forall z, In z (a :: tw (same_pp a) l) -> same_pp a z = true).
    { intros z [<- | Hz]; [apply same_pp_refl | eapply tw_all; exact Hz]. }
    apply same_pp_trans with a; [apply same_pp_sym; apply Hall; apply emit_in; exact Hy | apply Hall; exact Hg].
  - destruct (IH x Hd) as [y [Hy Ey]]. exists y. split; [apply in_or_app; right; exact Hy | exact Ey].
Qed.

Lemma gp_length : forall l, length (group_phase l) <= length l.
Proof.
  apply (gp_ind (fun l o => length o <= length l)); [simpl; lia|].
  intros a l IH. rewrite app_length. pose proof (emit_length (a :: tw (same_pp a) l)) as H.
  assert (E : length l = length (tw (same_pp a) l) + length (dw (same_pp a) l)).
  { rewrite (tw_dw (same_pp a) l) at 1. apply app_length. }
  simpl in *. lia.
Qed.

Lemma gp_head b l y r : group_phase (b :: l) = y :: r -> same_pp b y = true.
Proof.
  rewrite group_phase_eq. intros E.
  assert (Hy : In y (emit (b :: tw (same_pp b) l))).
  { destruct (emit (b :: tw (same_pp b) l)) as [|z e] eqn:Ee; [exfalso; eapply emit_nonempty; exact Ee|].
    simpl in E. injection E as -> _. left; reflexivity. }
  apply emit_in in Hy. destruct Hy as [<- | Hy]; [apply same_pp_refl | eapply tw_all; exact Hy].
Qed.

(* ------------------------------------------------------------------ *)
(* The shape of Sanitize's result                                      *)
(* ------------------------------------------------------------------ *)

(* neighbours are in sort order, and neighbours with the same position and
   path have strictly increasing messages *)
Definition canon_adj (x y : err) : Prop :=
  le_of err_cmp x y /\ (same_pp x y = true -> mlt x y).
Definition Canon (l : list err) : Prop := Sorted canon_adj l.

Lemma gp_canon : forall l, StronglySorted (le_of err_cmp) l -> Canon (group_phase l).
Proof.
  apply (gp_ind (fun l o => StronglySorted (le_of err_cmp) l -> Canon o)); [intros _; constructor|].
  intros a l IH Hs.
  set (g := a :: tw (same_pp a) l) in *. set (d := dw (same_pp a) l) in *.
  assert (Hl : a :: l = g ++ d) by (unfold g, d; simpl; f_equal; apply tw_dw).
  assert (Hall : forall z, In z g -> same_pp a z = true).
  { intros z [<- | Hz]; [apply same_pp_refl | eapply tw_all; exact Hz]. }
  assert (Hsd : StronglySorted (le_of err_cmp) d).
  { rewrite Hl in Hs. clear -Hs. induction g as [|z g IHg]; [exact Hs|].
    simpl in Hs. inversion Hs; subst. auto. }
  assert (Hgd : forall x y, In x g -> In y d -> le_of err_cmp x y).
  { rewrite Hl in Hs. clear -Hs. induction g as [|z g IHg]; intros x y Hx Hy; [destruct Hx|].
    simpl in Hs. inversion Hs as [|? ? Hs' Hf]; subst. destruct Hx as [<- | Hx].
    - rewrite Forall_forall in Hf. apply Hf. apply in_or_app; auto.
    - apply IHg; assumption. }
  apply Sorted_app.
  - (* inside one group *)
    eapply Sorted_impl with (R := fun x y => mlt x y /\ In x (emit g) /\ In y (emit g)).
    + intros x y [Hlt [Hx Hy]]. split; [|auto].
      apply emit_in in Hx, Hy. unfold le_of.
      rewrite (same_pp_err_cmp y x); [discriminate|].
      apply same_pp_trans with a; [apply same_pp_sym|]; auto.
    + pose proof (emit_sorted g) as Hse. clear -Hse.
      induction (emit g) as [|z e IHe]; [constructor|].
      inversion Hse as [|? ? Hs' Hh]; subst. constructor.
      * eapply Sorted_impl; [|apply IHe; exact Hs']. intros x y [? [? ?]]. simpl; auto.
      * destruct Hh; constructor. simpl; auto.
  - apply IH. exact Hsd.
  - (* the junction between two groups *)
    intros x y Hx Hy. apply last_opt_in in Hx. apply emit_in in Hx.
    destruct (group_phase d) as [|y' r] eqn:Egp; [discriminate|]. simpl in Hy. injection Hy as ->.
    destruct d as [|b d'] eqn:Ed; [discriminate|].
    assert (Hby : same_pp b y = true) by (eapply gp_head; exact Egp).
    assert (Hab : same_pp a b = false) by (apply (dw_head (same_pp a) l); fold d; rewrite Ed; reflexivity).
    split.
    + apply Hgd; [exact Hx|]. apply gp_subset. rewrite Egp. left; reflexivity.
    + intros Hxy. exfalso. rewrite (same_pp_trans a x b) in Hab; [discriminate | auto |].
      apply same_pp_trans with y; [exact Hxy | apply same_pp_sym; exact Hby].
Qed.

(* a list of that shape is a fixed point of both phases *)
Lemma canon_sorted l : Canon l -> Sorted (le_of err_cmp) l.
Proof. apply Sorted_impl. intros x y [H _]. exact H. Qed.

Lemma Sorted_chain_mlt a l :
  Canon (a :: l) -> (forall z, In z l -> same_pp a z = true) -> Sorted mlt (a :: l).
Proof.
  revert a. induction l as [|b l IH]; intros a H Hall; [constructor; constructor|].
  inversion H as [|? ? Hs Hh]; subst. inversion Hh as [|? ? [_ Hab]]; subst.
  constructor.
  - apply IH; [exact Hs|]. intros z Hz.
    apply same_pp_trans with a; [apply same_pp_sym; apply Hall; left; reflexivity | apply Hall; right; exact Hz].
  - constructor. apply Hab. apply Hall. left; reflexivity.
Qed.

Lemma gp_fixed : forall l, Canon l -> group_phase l = l.
Proof.
  apply (gp_ind (fun l o => Canon l -> o = l)); [reflexivity|].
  intros a l IH H.
  assert (Hl : a :: l = (a :: tw (same_pp a) l) ++ dw (same_pp a) l) by (simpl; f_equal; apply tw_dw).
  rewrite Hl in H. unfold Canon in *.
  rewrite IH; [| eapply Sorted_app_r; exact H].
  rewrite emit_fixed; [symmetry; exact Hl|].
  apply Sorted_chain_mlt; [eapply Sorted_app_l; exact H|]. apply tw_all.
Qed.

(* ------------------------------------------------------------------ *)
(* Theorems about list.sanitize                                        *)
(* ------------------------------------------------------------------ *)

(* the len <= 1 shortcut of removeMultiples is not observable *)
Lemma sanitize_list_gp es : sanitize_list es = group_phase (isort err_lt es).
Proof. destruct es as [|x [|y es]]; reflexivity. Qed.

(* every reported error is one of the collected errors *)
Theorem sanitize_subset es x : In x (sanitize_list es) -> In x es.
Proof.
  rewrite sanitize_list_gp. intros H. apply gp_subset in H.
  exact (proj1 (isort_in err_cmp es x) H).
Qed.

(* no error is lost: every collected (position, path, message) is reported *)
Theorem sanitize_complete es x : In x es -> exists y, In y (sanitize_list es) /\ key y = key x.
Proof.
  rewrite sanitize_list_gp. intros H. apply gp_complete.
  exact (proj2 (isort_in err_cmp es x) H).
Qed.

Theorem sanitize_length_le es : length (sanitize_list es) <= length es.
Proof.
  rewrite sanitize_list_gp. pose proof (gp_length (isort err_lt es)) as H.
  unfold err_lt in H. rewrite (isort_length err_cmp) in H. exact H.
Qed.

Theorem sanitize_canon es : Canon (sanitize_list es).
Proof. rewrite sanitize_list_gp. apply gp_canon. apply (isort_sorted _ err_cmp_pre). Qed.

Lemma canon_fixed l : Canon l -> sanitize_list l = l.
Proof.
  intros H. rewrite sanitize_list_gp. unfold err_lt. rewrite (isort_fixed err_cmp).
  - apply gp_fixed. exact H.
  - apply canon_sorted. exact H.
Qed.

(* sanitizing twice is sanitizing once -- for ALL lists, coherent or not *)
Theorem sanitize_idempotent es : sanitize_list (sanitize_list es) = sanitize_list es.
Proof. apply canon_fixed. apply sanitize_canon. Qed.

Theorem sanitize_top_idempotent e : sanitize (sanitize e) = sanitize e.
Proof.
  destruct e as [| x | l]; try reflexivity. cbn [sanitize].
  destruct (sanitize_list l) as [|x [|y r]] eqn:E; cbn [sanitize]; try reflexivity.
  assert (F : sanitize_list (x :: y :: r) = x :: y :: r) by (rewrite <- E; apply sanitize_idempotent).
  rewrite F. reflexivity.
Qed.

(* Print/Details sanitize what Sanitize returned once more: nothing changes *)
Theorem printed_sanitize e : printed (sanitize e) = printed e.
Proof.
  destruct e as [| x | l]; try reflexivity. unfold printed. cbn [sanitize errors_of].
  assert (F : sanitize_list (sanitize_list l) = sanitize_list l) by apply sanitize_idempotent.
  destruct (sanitize_list l) as [|x [|y r]]; cbn [errors_of]; exact F.
Qed.

(* --- position-coherent lists: the result is strictly sorted by key --- *)

Lemma pos_coherent_incl l l' : (forall x, In x l' -> In x l) -> pos_coherent l -> pos_coherent l'.
Proof. intros Hi H x y Hx Hy. apply H; auto. Qed.

Lemma canon_adj_key_lt x y :
  (cmp_npf (e_pos x) (e_pos y) = Eq -> e_pos x = e_pos y) ->
  canon_adj x y -> key_lt (key x) (key y).
Proof.
  intros Hcoh [Hle Hm]. unfold key_lt. rewrite key_cmp_err.
  destruct (err_cmp x y) eqn:E; [| reflexivity |].
  - apply Hm. apply same_pp_iff. unfold err_cmp in E.
    destruct (cmp_npf (e_pos x) (e_pos y)) eqn:Ep; try discriminate.
    split; [apply Hcoh; reflexivity | apply (tc_eq _ path_cmp_total); exact E].
  - exfalso. apply Hle. apply (pre_gt_lt _ err_cmp_pre). exact E.
Qed.

Lemma Sorted_impl_in {A} (R S : A -> A -> Prop) l :
  (forall x y, In x l -> In y l -> R x y -> S x y) -> Sorted R l -> Sorted S l.
Proof.
  induction l as [|a l IH]; intros H Hs; [constructor|].
  inversion Hs as [|? ? Hs' Hh]; subst. constructor.
  - apply IH; [|exact Hs']. intros; apply H; simpl; auto.
  - destruct Hh; constructor. apply H; simpl; auto.
Qed.

Lemma Sorted_map {A B} (f : A -> B) (R : B -> B -> Prop) l :
  Sorted (fun x y => R (f x) (f y)) l -> Sorted R (map f l).
Proof.
  induction 1 as [|a l Hs IH Hh]; simpl; constructor; auto.
  destruct Hh; simpl; constructor; auto.
Qed.

Lemma canon_keys_sorted l : Canon l -> pos_coherent l -> StronglySorted key_lt (map key l).
Proof.
  intros Hc Hp. apply Sorted_StronglySorted; [exact key_lt_trans|].
  apply Sorted_map. eapply Sorted_impl_in; [|exact Hc].
  intros x y Hx Hy. apply canon_adj_key_lt. apply Hp; assumption.
Qed.

Lemma strict_sorted_nodup {A} (R : A -> A -> Prop) l :
  (forall x, ~ R x x) -> StronglySorted R l -> NoDup l.
Proof.
  intros Hirr. induction 1 as [|a l Hs IH Hf]; constructor; auto.
  intros Hin. rewrite Forall_forall in Hf. apply (Hirr a). apply Hf. exact Hin.
Qed.

(* the printed list is strictly increasing in (position, path, message):
   in particular no two reported errors look the same *)
Theorem sanitize_sorted_nodup es :
  pos_coherent es ->
  StronglySorted key_lt (map key (sanitize_list es)) /\ NoDup (map key (sanitize_list es)).
Proof.
  intros Hp.
  assert (H : StronglySorted key_lt (map key (sanitize_list es))).
  { apply canon_keys_sorted; [apply sanitize_canon|].
    eapply pos_coherent_incl; [|exact Hp]. intros x. apply sanitize_subset. }
  split; [exact H|]. eapply strict_sorted_nodup; [|exact H]. apply key_lt_irrefl.
Qed.

Lemma sanitize_key_set es k : In k (map key (sanitize_list es)) <-> In k (map key es).
Proof.
  rewrite !in_map_iff. split.
  - intros [x [E Hx]]. exists x. split; [exact E | apply sanitize_subset; exact Hx].
  - intros [x [E Hx]]. destruct (sanitize_complete es x Hx) as [y [Hy Ey]]. exists y. split; congruence.
Qed.

Lemma pos_coherent_keys es es' :
  (forall k, In k (map key es') -> In k (map key es)) -> pos_coherent es -> pos_coherent es'.
Proof.
  intros Hk Hp x y Hx Hy E.
  destruct (proj1 (in_map_iff key es (key x)) (Hk _ (in_map key _ _ Hx))) as [x' [Ex Hx']].
  destruct (proj1 (in_map_iff key es (key y)) (Hk _ (in_map key _ _ Hy))) as [y' [Ey Hy']].
  unfold key in Ex, Ey. injection Ex as Ex _ _. injection Ey as Ey _ _.
  rewrite <- Ex, <- Ey in *. apply Hp; assumption.
Qed.

(* The sequence of (position, path, message) that is printed is a function of
   the SET of collected keys: neither the order in which the errors were
   collected nor how often an error was collected matters. *)
Theorem sanitize_keys_set_invariant es es' :
  pos_coherent es ->
  (forall k, In k (map key es) <-> In k (map key es')) ->
  map key (sanitize_list es) = map key (sanitize_list es').
Proof.
  intros Hp Hk.
  assert (Hp' : pos_coherent es') by (eapply pos_coherent_keys; [|exact Hp]; intros k; apply Hk).
  apply (strict_sorted_unique key_lt key_lt_irrefl key_lt_asym).
  - apply sanitize_sorted_nodup; exact Hp.
  - apply sanitize_sorted_nodup; exact Hp'.
  - intros k. rewrite !sanitize_key_set. apply Hk.
Qed.

Theorem sanitize_keys_perm es es' :
  pos_coherent es -> Permutation es es' ->
  map key (sanitize_list es) = map key (sanitize_list es').
Proof.
  intros Hp Hperm. apply sanitize_keys_set_invariant; [exact Hp|].
  intros k. split; apply Permutation_in; [|symmetry]; apply Permutation_map; exact Hperm.
Qed.

(* --- coherent lists: the very same error values, in the same order --- *)

Theorem sanitize_set_invariant es es' :
  coherent es -> (forall x, In x es <-> In x es') -> sanitize_list es = sanitize_list es'.
Proof.
  intros [Hp Hr] Hs. apply (map_inj_on key).
  - apply sanitize_keys_set_invariant; [exact Hp|].
    intros k. rewrite !in_map_iff. split; intros [x [E Hx]]; exists x; (split; [exact E | apply Hs; exact Hx]).
  - intros x y Hx Hy. apply Hr; [apply sanitize_subset; exact Hx|].
    apply Hs. apply sanitize_subset. exact Hy.
Qed.

(* errors.Sanitize does not depend on the order in which the errors were collected *)
Theorem sanitize_perm es es' :
  coherent es -> Permutation es es' -> sanitize_list es = sanitize_list es'.
Proof.
  intros Hc Hperm. apply sanitize_set_invariant; [exact Hc|].
  intros x. split; apply Permutation_in; [|symmetry]; exact Hperm.
Qed.

Theorem sanitize_top_perm es es' :
  coherent es -> Permutation es es' -> sanitize (CList es) = sanitize (CList es').
Proof. intros Hc Hp. simpl. rewrite (sanitize_perm es es' Hc Hp). reflexivity. Qed.

Theorem printed_perm es es' :
  coherent es -> Permutation es es' -> printed (CList es) = printed (CList es').
Proof. intros Hc Hp. apply sanitize_perm; assumption. Qed.

(* --- any sorting algorithm ---
   slices.SortFunc is an insertion sort only up to 12 elements; beyond that it
   is pdqsort, which is not stable.  Whatever sorted permutation the sort
   produces, the grouping phase yields the same keys (and on coherent lists
   the same errors) as the model with the insertion sort. *)
Theorem sanitize_any_sort_keys es s :
  pos_coherent es -> Permutation es s -> StronglySorted (le_of err_cmp) s ->
  map key (group_phase s) = map key (sanitize_list es).
Proof.
  intros Hp Hperm Hs.
  assert (Hps : pos_coherent s).
  { eapply pos_coherent_incl; [|exact Hp]. intros x. apply Permutation_in. symmetry. exact Hperm. }
  apply (strict_sorted_unique key_lt key_lt_irrefl key_lt_asym).
  - apply canon_keys_sorted; [apply gp_canon; exact Hs|].
    eapply pos_coherent_incl; [|exact Hps]. intros x. apply gp_subset.
  - apply sanitize_sorted_nodup; exact Hp.
  - intros k. rewrite sanitize_key_set. rewrite !in_map_iff. split.
    + intros [x [E Hx]]. exists x. split; [exact E|].
      apply gp_subset in Hx. eapply Permutation_in; [symmetry; exact Hperm | exact Hx].
    + intros [x [E Hx]].
      destruct (gp_complete s x (Permutation_in _ Hperm Hx)) as [y [Hy Ey]]. exists y. split; congruence.
Qed.

Theorem sanitize_any_sort es s :
  coherent es -> Permutation es s -> StronglySorted (le_of err_cmp) s ->
  group_phase s = sanitize_list es.
Proof.
  intros [Hp Hr] Hperm Hs. apply (map_inj_on key).
  - apply sanitize_any_sort_keys; assumption.
  - intros x y Hx Hy. apply Hr; [|apply sanitize_subset; exact Hy].
    apply gp_subset in Hx. eapply Permutation_in; [symmetry; exact Hperm | exact Hx].
Qed.

(* --- the side conditions are decidable --- *)
Lemma pos_coherentb_spec es : pos_coherentb es = true <-> pos_coherent es.
Proof.
  unfold pos_coherentb, pos_coherent. rewrite forallb_forall. split.
  - intros H x y Hx Hy E. specialize (H x Hx). rewrite forallb_forall in H. specialize (H y Hy).
    rewrite E in H. apply pos_eqb_eq. exact H.
  - intros H x Hx. rewrite forallb_forall. intros y Hy.
    destruct (cmp_npf (e_pos x) (e_pos y)) eqn:E; auto. apply pos_eqb_eq. apply H; assumption.
Qed.

Lemma rec_coherentb_spec es : rec_coherentb es = true <-> rec_coherent es.
Proof.
  unfold rec_coherentb, rec_coherent. rewrite forallb_forall. split.
  - intros H x y Hx Hy E. specialize (H x Hx). rewrite forallb_forall in H. specialize (H y Hy).
    unfold key in E. injection E as E1 E2 E3.
    replace (same_pp x y && msg_eqb x y) with true in H.
    + apply N.eqb_eq in H. destruct x, y; simpl in *; congruence.
    + symmetry. apply andb_true_iff. split; [apply same_pp_iff; auto | apply msg_eqb_iff; exact E3].
  - intros H x Hx. rewrite forallb_forall. intros y Hy.
    destruct (same_pp x y && msg_eqb x y) eqn:E; auto.
    apply andb_true_iff in E. destruct E as [E1 E2]. apply msg_eqb_iff in E2.
    rewrite (H x y Hx Hy (same_key x y E1 E2)). apply N.eqb_refl.
Qed.

(* --- errors.Append keeps a list free of repeated error values --- *)
Lemma err_eqb_eq x y : err_eqb x y = true <-> x = y.
Proof.
  unfold err_eqb. rewrite !andb_true_iff, pos_eqb_eq, path_eqb_eq, str_eqb_eq, N.eqb_eq.
  destruct x, y; simpl. split; [intros [[[-> ->] ->] ->]; reflexivity | intros [= -> -> -> ->]; auto].
Qed.

Lemma append_to_list_nodup a e : NoDup a -> NoDup (append_to_list a e).
Proof.
  intros H. unfold append_to_list. destruct (existsb (err_eqb e) a) eqn:E; [exact H|].
  apply Permutation_NoDup with (e :: a); [apply Permutation_cons_append|].
  constructor; [|exact H]. intros Hin.
  assert (existsb (err_eqb e) a = true); [|congruence].
  apply existsb_exists. exists e. split; [exact Hin | apply err_eqb_eq; reflexivity].
Qed.

Lemma append_all_nodup es : forall a, NoDup a -> NoDup (append_all a es).
Proof.
  unfold append_all. induction es as [|e es IH]; intros a H; simpl; [exact H|].
  apply IH. apply append_to_list_nodup. exact H.
Qed.

(* a list built by errors.Append is record-coherent iff no two DIFFERENT error
   values share a key; duplicates of the same value never enter the list *)
Lemma append_all_in es : forall a x, In x (append_all a es) <-> In x a \/ In x es.
Proof.
  unfold append_all. induction es as [|e es IH]; intros a x; simpl; [tauto|].
  rewrite IH. unfold append_to_list. destruct (existsb (err_eqb e) a) eqn:E.
  - apply existsb_exists in E. destruct E as [y [Hy Ey]]. apply err_eqb_eq in Ey. subst y.
    split; [tauto|]. intros [H | [<- | H]]; auto.
  - rewrite in_app_iff. simpl. tauto.
Qed.
