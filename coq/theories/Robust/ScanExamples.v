(* Non-vacuity examples for the scanner theorems: concrete runs of the model
   (vm_compute), showing that the hypotheses of the theorems are met by
   non-trivial states and that the side conditions in the statements are needed. *)
From Verif Require Import Utf8.Model Robust.Scan Robust.ScanProofs.
From Coq Require Import ZArith List Bool.
Import ListNotations.
Local Open Scope Z_scope.

Definition no (c : Z) : bool := false.
Definition toks (src : list N) :=
  match tokenize src no no true false with
  | Ok l => Some (map (fun r => (r_tok r, r_start r, r_elided r)) l)
  | _ => None
  end.

(* `a: 1 // c` + newline : the comma is inserted before the comment, at the
   comment's own offset: starts are only weakly monotone around inserted commas *)
Example ex_comment_comma :
  toks [97; 58; 32; 49; 32; 47; 47; 32; 99; 10]%N
  = Some [(IDENT, 0, false); (COLON, 1, false); (INT, 3, false); (COMMA, 5, true);
          (COMMENT, 5, false); (EOF, 10, false)].
Proof. vm_compute. reflexivity. Qed.

(* the token count 2*len+2 is reached: "a" gives IDENT, inserted COMMA, EOF *)
Example ex_len_plus_two : toks [97]%N = Some [(IDENT, 0, false); (COMMA, 1, true); (EOF, 1, false)].
Proof. vm_compute. reflexivity. Qed.

(* `"\(x)"` scanned the way the parser does: INTERPOLATION ( x ) then
   ResumeInterpolation, then the inserted comma and EOF; the quote stack is
   pushed and popped *)
Example ex_interpolation :
  run [34; 92; 40; 120; 41; 34]%N no no true false [OScan; OScan; OScan; OScan; OResume; OScan; OScan]
  = RunOk [ObsTok (mkRes INTERPOLATION 0 false) 2 0 1; ObsTok (mkRes LPAREN 2 false) 3 0 1;
           ObsTok (mkRes IDENT 3 false) 4 0 1; ObsTok (mkRes RPAREN 4 false) 5 0 1;
           ObsResume 6 0 0; ObsTok (mkRes COMMA 6 true) 6 0 0; ObsTok (mkRes EOF 6 false) 6 0 0].
Proof. vm_compute. reflexivity. Qed.

(* resuming with no open interpolation is the one failure a script can have *)
Example ex_misuse : run [97]%N no no true false [OScan; OResume] = RunMisuse [ObsTok (mkRes IDENT 0 false) 1 0 0].
Proof. vm_compute. reflexivity. Qed.

(* ... and in Go it is an index-out-of-range panic: popInterpolation on the empty stack *)
Example ex_pop_empty_panics : pop_interp (mkSt 97 0 1 false [] 0) = Panic.
Proof. reflexivity. Qed.

(* the partial operations do fail outside their bounds: "cannot panic" is not an
   artefact of totalisation *)
Example ex_byte_at_panics : byte_at [97]%N 1 = Panic /\ byte_at [97]%N (-1) = Panic.
Proof. split; reflexivity. Qed.
Example ex_slice_panics : slice [97; 98]%N 2 1 = Panic /\ slice [97; 98]%N 0 3 = Panic /\ slice [97; 98]%N (-1) 1 = Panic.
Proof. repeat split; reflexivity. Qed.

(* without the invariant Scan can panic: a state claiming to be past a consumed
   '/' at offset 0 makes scanComment slice from -1 *)
Example ex_inv_needed : scan_comment [47; 47]%N (mkSt 47 0 1 false [] 0) = Panic.
Proof. vm_compute. reflexivity. Qed.

(* an unterminated raw multi-line string with interpolation, illegal bytes and a
   NUL: errors are counted, nothing panics *)
Example ex_errors :
  run [35; 34; 34; 34; 10; 32; 92; 35; 40; 0; 255]%N no no true false [OScan; OScan; OScan; OScan; OScan]
  = RunOk [ObsTok (mkRes INTERPOLATION 0 false) 8 0 1; ObsTok (mkRes LPAREN 8 false) 9 1 1;
           ObsTok (mkRes ILLEGAL 9 false) 10 3 1; ObsTok (mkRes ILLEGAL 10 false) 11 4 1;
           ObsTok (mkRes EOF 11 false) 11 4 1].
Proof. vm_compute. reflexivity. Qed.

(* the invariant holds initially for a concrete non-empty file (hypothesis of
   scan_total / scan_progress is satisfiable) *)
Example ex_init_inv : exists s, init [123; 125]%N = Ok s /\ Inv [123; 125]%N s.
Proof.
  pose proof (Inv_init [123; 125]%N no no) as W.
  destruct (init [123; 125]%N) as [s| |]; cbn [wp] in W; [| destruct W | destruct W].
  exists s. split; [reflexivity | exact W].
Qed.
