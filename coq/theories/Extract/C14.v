(* Extraction of the executable C14 models (semver + MVS) to OCaml.
   ExtrOcamlBasic only: bool/option/list/prod/unit/sumbool map to OCaml natives;
   N, positive, nat, comparison stay Coq datatypes.  No Extract Constant. *)
From Verif Require Import Semver.Model MVS.Model.
From Coq Require Import List NArith.
Require Import ExtrOcamlBasic.
Import ListNotations.

Definition str_eq_dec : forall a b : str, {a = b} + {a <> b} := list_eq_dec N.eq_dec.
Definition pleb (a b : str) : bool := match str_compare a b with Gt => false | _ => true end.
Definition snode : Type := (str * str)%type.

Fixpoint reqs_of (tbl : list (snode * list snode)) (m : snode) : list snode :=
  match tbl with
  | [] => []
  | (k, v) :: r =>
    if str_eq_dec (fst k) (fst m) then
      if str_eq_dec (snd k) (snd m) then v else reqs_of r m
    else reqs_of r m
  end.

Definition c14_build_list (fuel : nat) (tbl : list (snode * list snode)) (targets : list snode) :=
  mvs_build_list str str str_eq_dec str_eq_dec mvs_cmp s_none pleb (reqs_of tbl) fuel targets.

Definition c14_accept (fuel : nat) (tbl : list (snode * list snode)) (targets : list snode)
           (evs : list (event str str)) :=
  accept_trace str str str_eq_dec str_eq_dec mvs_cmp s_none pleb (reqs_of tbl) fuel targets evs.

Definition c14_compare := compare.
Definition c14_is_valid := is_valid.
Definition c14_canonical := canonical.
Definition c14_major := major.
Definition c14_vmax := vmax.
