(* Executable instantiation of the C09 models (UTF-8 codec, literal quote/unquote)
   for extraction.  ExtrOcamlBasic only; N/Z/nat/positive stay Coq datatypes.
   The Unicode-table oracles (strconv.IsPrint / IsGraphic for runes > 0xFF) are
   instantiated per case from an association list supplied by the harness. *)
From Verif Require Import Utf8.Model Lit.Quote Lit.Unquote Lit.Indent.
From Coq Require Import List NArith ZArith.
Require Import ExtrOcamlBasic.
Import ListNotations.

Definition tbl := list (N * (bool * bool)).

Fixpoint tbl_find (t : tbl) (r : N) : bool * bool :=
  match t with
  | [] => (false, false)
  | (k, v) :: t' => if N.eqb k r then v else tbl_find t' r
  end.

Definition c09_quote (t : tbl) (f : form) (s : str) : str :=
  quote (fun r => fst (tbl_find t r)) (fun r => snd (tbl_find t r)) f s.

Definition c09_mk_form (dq ml auto ah ascii graphic : bool) (indent : nat) : form :=
  mkForm 0 (if dq then ch_dq else ch_sq) ml auto ah (negb dq) ascii graphic indent.

Definition c09_unquote_impl (s : str) : outcome str := unquote_impl s.
(* regression layer: the int32 accumulator of the code before fix unquote-U *)
Definition c09_unquote_int32 (s : str) : outcome str := unquote_int32 s.
(* literal.IndentTabs(s, n): Panic for n < 0 *)
Definition c09_indent_tabs (s : str) (n : Z) : outcome str := indent_tabs_go s n.
Definition c09_set_indent (f : form) (n : nat) : form := set_indent f n.
Definition c09_sanitize (s : str) : str := sanitize s.
Definition c09_decode (s : str) : N * nat := utf8_decode s.
Definition c09_decode_last (s : str) : N * nat := utf8_decode_last_rev (rev s).
Definition c09_encode (r : N) : str := utf8_encode r.
Definition c09_required_hash_count (dq : bool) (s : str) : nat :=
  required_hash_count (if dq then ch_dq else ch_sq) s.

(* decidable equality of results, used by the vm_compute cross-check of the
   extraction (build/<run>/xcheck.v): the extracted OCaml model and the Coq
   kernel's evaluation of the same definitions must agree *)
Definition err_code (e : err) : N :=
  match e with
  | ESyntax => 0 | EMissingOpeningNewline => 1 | EMissingClosingNewline => 2 | EUnmatchedQuote => 3
  | ESurrogate => 4 | EInvalidUTF8 => 5 | EEscapedLastNewline => 6 | EInvalidWhitespace => 7
  end.

Fixpoint str_eqb (a b : str) : bool :=
  match a, b with
  | [], [] => true
  | x :: a', y :: b' => N.eqb x y && str_eqb a' b'
  | _, _ => false
  end.

Definition outcome_eqb (a b : outcome str) : bool :=
  match a, b with
  | Ok x, Ok y => str_eqb x y
  | Err e1, Err e2 => N.eqb (err_code e1) (err_code e2)
  | Panic, Panic => true
  | OutOfFuel, OutOfFuel => true
  | _, _ => false
  end.

Definition c09_xcheck_unquote (cases : list (str * outcome str)) : bool :=
  forallb (fun c => outcome_eqb (c09_unquote_impl (fst c)) (snd c)) cases.

Definition c09_xcheck_quote (cases : list (tbl * form * str * str)) : bool :=
  forallb (fun c => match c with (t, f, s, q) => str_eqb (c09_quote t f s) q end) cases.

Definition c09_xcheck_indent (cases : list (str * Z * outcome str)) : bool :=
  forallb (fun c => match c with (s, n, r) => outcome_eqb (c09_indent_tabs s n) r end) cases.
