(* Executable instance of the C11 model (Yaml/Scalar.v) for the OCaml driver.
   The oracles are instantiated per case with the verdicts the harness obtained
   from the implementation's own libraries. *)
From Verif Require Import Yaml.Scalar.
Require Import ExtrOcamlBasic.

Definition style_code (st : style) : N :=
  match st with Plain => 0 | SingleCue => 1 | SingleGo => 2 | Double => 3 | Literal => 4 end.

(* np: the runes of the case for which unicode.IsPrint is false.
   num_t: token.ToNumber(rtrim s) != nil; num_s: ToNumber(s) != nil; isnum: token.isNumber(s);
   ts: token.isTimestamp(s); lit_ok: literal.Unquote(literal...Quote(s)) == s.
   Result: style, emitted text, value read from [text] under the YAML semantics,
   known reader deviation that applies (0 none, 1 dots, 2 merge, 3 tab, 4 cue literal,
   5 blank literal followed by a node). *)
Definition c11_probe (np : list N) (num_t num_s isnum ts lit_ok : bool)
           (is_key multi col0 root followed : bool) (p n : nat) (suffix s text : str)
  : N * str * option str * N :=
  let is_print := fun c => negb (mem_chr c np) in
  let tok_number := fun t => if str_eqb t s then num_s else num_t in
  let st := choose_style tok_number (fun _ => isnum) (fun _ => ts) is_key multi s in
  let plain := match st with Plain => true | _ => false end in
  let lit := match st with Literal => true | _ => false end in
  let q : N := if quirk_dots col0 plain s then 1
           else if quirk_merge is_key plain s then 2
           else if lit && negb (match goccy_literal text, parse_literal p root text with
                               | Some a, Some b => str_eqb a b
                               | None, None => true
                               | _, _ => false
                               end) then 3
           else if quirk_cuelit is_key lit_ok s then 4
           else if quirk_blank_followed followed lit s then 5 else 0 in
  (style_code st,
   emit is_print st n s,
   read_any tok_number p root col0 suffix text, q).
