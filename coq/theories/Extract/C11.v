(* Executable instance of the C11 model (Yaml/Scalar.v) for the OCaml driver.
   The oracles are instantiated per case with the verdicts the harness obtained
   from the implementation's own libraries. *)
From Verif Require Import Yaml.Scalar.
Require Import ExtrOcamlBasic.

Definition style_code (st : style) : N :=
  match st with Plain => 0 | SingleCue => 1 | SingleGo => 2 | Double => 3 | Literal => 4 end.

(* np: the runes of the case for which unicode.IsPrint is false.
   num_t: token.ToNumber(rtrim s) != nil; num_s: ToNumber(s) != nil; isnum: token.isNumber(s);
   ts: token.isTimestamp(s); lit_ok: literal.Unquote(literal...Quote(s)) == s.
   Result: style, emitted text, value read from [text] under the YAML semantics,
   known reader deviation that applies (0 none, 1 dots, 2 merge, 3 tab, 4 cue literal,
   5 blank literal followed by a node). *)
Definition c11_probe (np : list N) (num_t num_s isnum ts lit_ok : bool)
           (is_key multi col0 root followed : bool) (p n : nat) (suffix s text : str)
  : N * str * option str * N :=
  let is_print := fun c => negb (mem_chr c np) in
  let tok_number := fun t => if str_eqb t s then num_s else num_t in
  let st := choose_style tok_number (fun _ => isnum) (fun _ => ts) is_key multi s in
  let plain := match st with Plain => true | _ => false end in
  let lit := match st with Literal => true | _ => false end in
  let q : N := if quirk_dots col0 plain s then 1
           else if quirk_merge is_key plain s then 2
           else if lit && negb (match goccy_literal text, parse_literal p root text with
                               | Some a, Some b => str_eqb a b
                               | None, None => true
                               | _, _ => false
                               end) then 3
           else if quirk_cuelit is_key lit_ok s then 4
           else if quirk_blank_followed followed lit s then 5 else 0 in
  (style_code st,
   emit is_print st n s,
   read_any tok_number p root col0 suffix text, q).

(* ------------------------------------------------------------------ *)
(* whole documents (Yaml/Doc.v) *)
From Verif Require Import Yaml.Doc Yaml.Style.

Definition oracle_tbl := list (str * (bool * (bool * bool))).
Definition lookup (tbl : oracle_tbl) (sel : bool * (bool * bool) -> bool) (s : str) : bool :=
  match find (fun e => str_eqb (fst e) s) tbl with
  | Some e => sel (snd e)
  | None => false
  end.

Section DocRisk.
  Variable is_print : N -> bool.
  Variable tok_number tok_isnumber tok_timestamp : str -> bool.
  Variable lm : bool.

  (* the string, written at this place, is in one of the classes in which the
     encoder's choice or the pinned reader is known not to round-trip (style_gap,
     quirk_merge, the literal-block reader deviations); over-approximated w.r.t.
     the position.  Second component: the layout of the key is not modelled. *)
  Definition str_risky (is_key multi : bool) (n : nat) (s : str) : bool * bool :=
    let st := choose_style tok_number tok_isnumber tok_timestamp is_key multi s in
    let plain := match st with Plain => true | _ => false end in
    let lit := match st with Literal => true | _ => false end in
    let sc := match st with SingleCue => true | _ => false end in
    (style_gap is_print false st s || quirk_merge is_key plain s ||
     (lit && (forallb (N.eqb c_nl) s ||
              negb (match goccy_literal (emit_literal n s), parse_literal (n - 2) false (emit_literal n s) with
                    | Some a, Some b => str_eqb a b
                    | None, None => true
                    | _, _ => false
                    end))),
     sc && existsb is_break s).

  Definition orb2 (a b : bool * bool) : bool * bool := (fst a || fst b, snd a || snd b).

  Fixpoint risky (in_list : bool) (c : nat) (d : data) : bool * bool :=
    match d with
    | DStr s => str_risky false (if in_list then lm else has_nl s) c s
    | DSeq l => fold_right (fun e acc => orb2 (risky true (c + 2) e) acc) (false, false) l
    | DMap l => fold_right (fun kv acc => orb2 (orb2 (str_risky true false 0 (fst kv)) (risky false (c + 2) (snd kv))) acc) (false, false) l
    | _ => (false, false)
    end.
  Definition doc_risky (d : data) : bool * bool := if inline d then risky false 2 d else risky false 0 d.
End DocRisk.

(* [stream]: d is the list of the documents of a stream.
   Result: the text the model writes, what the model reader makes of [text] (the
   implementation's output), known-class flag, unmodelled-layout flag. *)
Definition c11_doc (np : list N) (tbl : oracle_tbl) (lm stream : bool) (d : data) (text : str)
  : str * option data * (bool * bool) :=
  let is_print := fun c => negb (mem_chr c np) in
  let tn := lookup tbl fst in
  let ti := lookup tbl (fun x => fst (snd x)) in
  let tt := lookup tbl (fun x => snd (snd x)) in
  match stream, d with
  | true, DSeq ds =>
    (emit_stream is_print tn ti tt lm ds,
     match read_stream tn text with
     | Some [x] => Some x
     | Some l => Some (DSeq l)
     | None => None
     end,
     fold_right (fun e acc => orb2 (doc_risky is_print tn ti tt lm e) acc) (false, false) ds)
  | _, _ =>
    (Doc.emit_doc is_print tn ti tt lm d, read_doc tn text, doc_risky is_print tn ti tt lm d)
  end.
