(* Executable entry points of the C20 model (trim on top of CoreCUE) for the harness. *)
From Verif Require Import Core.Syntax Core.Eval Trim.Model.
From Coq Require Import List.
Import ListNotations.

Definition c20_final (labs : list label) (atoms : list atom) (fuel : nat) (P : pkg) : res :=
  final_value labs atoms fuel P.
Definition c20_err := res_err_aux.
Definition c20_keepm := keepm.
Definition c20_accepts_mask := accepts_mask.
Definition c20_trim_mask (P : pkg) : list bool := trim_pass_mask [] P.
Definition c20_trim_model := trim_model.
