(* Executable entry points of the C20 model (trim on top of CoreCUE) for the harness. *)
From Verif Require Import Core.Syntax Core.Eval Trim.Model.
From Coq Require Import List.
Import ListNotations.

Definition c20_final (labs : list label) (atoms : list atom) (fuel : nat) (P : pkg) : res :=
  final_value labs atoms fuel P.
Definition c20_err := res_err_aux.
Definition c20_keepm := keepm.
Definition c20_accepts_mask := accepts_mask.
Definition c20_trim_mask (P : pkg) : list bool := trim_pass_mask [] P.
Definition c20_trim_model := trim_model.

(* a flat fingerprint of a result tree: the extracted model and vm_compute inside Coq are
   compared on it for a sub-sample of the cases (guards extraction and driver glue) *)
Definition pres_bits (p : fpres) : list bool :=
  match p with
  | PAbsent => [false; false]
  | POptional => [false; true]
  | PRequired => [true; false]
  | PRegular => [true; true]
  end.

Fixpoint res_bits (r : res) : list bool :=
  match r with
  | RBot => [true; false; false]
  | RFuel => [true; false; true]
  | RVal k a p => [false; true; false] ++ k ++ a ++ p
  | RStruct fs o =>
    [false; false; true] ++ flat_map (fun pr => pres_bits (fst pr) ++ res_bits (snd pr)) fs ++ o
  end.

Definition c20_fingerprint (labs : list label) (atoms : list atom) (m : list bool) (P : pkg) :=
  (c20_accepts_mask m P, c20_trim_mask P,
   res_bits (c20_final labs atoms 40 P), res_bits (c20_final labs atoms 40 (c20_keepm m P))).
