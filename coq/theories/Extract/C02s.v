(* Executable entry points of the C02 sub-models (errors.Sanitize, toposort)
   for extraction to OCaml.  ExtrOcamlBasic only; N/nat stay Coq datatypes. *)
From Verif Require Import Base.Order Robust.Sanitize Robust.Topo.
From Coq Require Import List NArith Bool.
Import ListNotations.

Definition c02s_sanitize : cue_error -> cue_error := sanitize.
Definition c02s_printed : cue_error -> list err := printed.

(* decidable versions of the side conditions (reflection lemmas:
   SanitizeProofs.pos_coherentb_spec, rec_coherentb_spec) *)
Definition pos_coherentb (es : list err) : bool :=
  forallb (fun x => forallb (fun y =>
    match cmp_npf (e_pos x) (e_pos y) with
    | Eq => pos_eqb (e_pos x) (e_pos y)
    | _ => true
    end) es) es.
Definition rec_coherentb (es : list err) : bool :=
  forallb (fun x => forallb (fun y =>
    if same_pp x y && msg_eqb x y then N.eqb (e_aux x) (e_aux y) else true) es) es.
Definition c02s_coherent (es : list err) : bool * bool := (pos_coherentb es, rec_coherentb es).

Definition c02s_topo (nodes : list label) (edges : list (label * label)) : option (list label) :=
  topo_sort label_cmp nodes edges.
Definition c02s_merge (os : list (list label)) : option (list label) :=
  merge_orders label_cmp os.
