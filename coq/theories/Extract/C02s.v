(* Executable entry points of the C02 sub-models (errors.Sanitize, toposort)
   for extraction to OCaml.  ExtrOcamlBasic only; N/nat stay Coq datatypes. *)
From Verif Require Import Base.Order Robust.Sanitize Robust.Topo.
From Coq Require Import List NArith Bool.
Import ListNotations.

Definition c02s_sanitize : cue_error -> cue_error := sanitize.
Definition c02s_printed : cue_error -> list err := printed.

Definition c02s_coherent (es : list err) : bool * bool := (pos_coherentb es, rec_coherentb es).

Definition c02s_topo (nodes : list label) (edges : list (label * label)) : option (list label) :=
  topo_sort label_cmp nodes edges.
Definition c02s_merge (os : list (list label)) : option (list label) :=
  merge_orders label_cmp os.
Definition c02s_implicit (os : list (list label)) : option (list label) :=
  implicit_orders label_cmp os.
