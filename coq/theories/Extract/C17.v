(* Executable instance of the C17 model for extraction.  ExtrOcamlBasic only. *)
From Verif Require Import Tidy.Model.
From Coq Require Import List NArith.
Import ListNotations.

Definition c17_tidy := tidy_model.
Definition c17_check := check_model.
Definition c17_mkU := mkU.
Definition c17_mkM := mkM.
