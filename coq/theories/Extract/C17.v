(* Executable instance of the C17 model for extraction.  ExtrOcamlBasic only. *)
From Verif Require Import Tidy.Model.
From Coq Require Import List NArith.
Import ListNotations.

Definition c17_tidy := tidy_model.
Definition c17_check := check_model.
Definition c17_mkU := mkU.
Definition c17_mkM := mkM.

(* module file codec (Tidy/ModFile.v): everything the tie compares for one data tree *)
From Verif Require Import Tidy.ModFile.
Definition c17_mc (cur : Semver.Model.str) (t : tree) :=
  let view (r : res (file * views)) :=
      match r with POk (f, w) => POk (render f, w) | PErr e => PErr e end in
  let p := parse_strict cur t in
  (view p, view (parse_nonstrict cur t), parse_legacy t,
   match p with POk (f, _) => Some (format cur f, dropped_fields t f) | PErr _ => None end).
