(* Executable entry points of the C16 cache-protocol model for extraction.
   ExtrOcamlBasic only; nat stays a Coq datatype. *)
From Verif Require Import Cache.Model.
From Coq Require Import List.
Import ListNotations.

Definition c16_cfg (z m : nat) (fs : list nat) : cfg :=
  {| zsize := z; msize := m; fsizes := fs; allow_io := false;
     v_marker_late := false; v_marker_early := false; v_no_recheck := false; v_stat_swapped := false |}.

Definition c16_world0 := world0.
Definition c16_accept1 := accept1.
Definition c16_settle := settle.
Definition c16_step := step.

(* result of thread i: 0 ok, 1 err, 2 notfound, 3 dead, 4 still live *)
Definition c16_result (w : world) (i : nat) : nat :=
  match nth_error (threads w) i with
  | Some t => match tpc t with
              | Done ROk => 0 | Done RErr => 1 | Done RNotFound => 2 | Dead => 3 | _ => 4 end
  | None => 4
  end.

Definition c16_nthreads (w : world) := length (threads w).
Definition c16_gz (w : world) (p : nat) := gz (ps w p).
Definition c16_store (w : world) := st w.
Definition c16_completeb := completeb.

(* a clean fetch by a fresh process after the observed history *)
Definition c16_recover (c : cfg) (w : world) (p : nat) : option world :=
  match step c w (Spawn p KFetch) with
  | Some w1 => run_clean c (clean_fuel c (st w1)) w1 (length (threads w))
  | None => None
  end.
