(* Executable entry points of the C16 cache-protocol model for extraction.
   ExtrOcamlBasic only; nat stays a Coq datatype. *)
From Verif Require Import Cache.Model.
From Coq Require Import List Bool Arith.
Import ListNotations.

Definition c16_cfg (z m : nat) (fs : list nat) : cfg :=
  {| zsize := z; msize := m; fsizes := fs; allow_io := false;
     v_marker_late := false; v_marker_early := false; v_no_recheck := false; v_stat_swapped := false |}.

Definition c16_world0 := world0.
Definition c16_accept1 := accept1.
Definition c16_settle := settle.
Definition c16_step := step.

(* result of thread i: 0 ok, 1 err, 2 notfound, 3 dead, 4 still live *)
Definition c16_result (w : world) (i : nat) : nat :=
  match nth_error (threads w) i with
  | Some t => match tpc t with
              | Done ROk => 0 | Done RErr => 1 | Done RNotFound => 2 | Dead => 3 | _ => 4 end
  | None => 4
  end.

Definition c16_nthreads (w : world) := length (threads w).
Definition c16_gz (w : world) (p : nat) := gz (ps w p).
Definition c16_store (w : world) := st w.
Definition c16_completeb := completeb.

(* a clean fetch by a fresh process after the observed history *)
Definition c16_recover (c : cfg) (w : world) (p : nat) : option world :=
  match step c w (Spawn p KFetch) with
  | Some w1 => run_clean c (clean_fuel c (st w1)) w1 (length (threads w))
  | None => None
  end.

(* ---- the acceptance loop of the driver, in Coq (so that it can also be run by vm_compute) ---- *)

(* labels come with a flag: stat-like observations the model does not expect at the current pc
   (MkdirAll's pre-stats, the child's own verification reads) are skipped and counted *)
Fixpoint c16_accept (c : cfg) (ws : list world) (ls : list (label * bool)) (k skipped : nat)
  : (list world * nat) + nat :=
  match ls with
  | [] => inl (ws, skipped)
  | (l, optional) :: r =>
      match firstn 8 (flat_map (fun w => accept1 c w l) ws) with
      | [] => if optional then c16_accept c ws r (S k) (S skipped) else inr k
      | ws' => c16_accept c ws' r (S k) skipped
      end
  end.

Fixpoint ins_pair (x : nat * nat) (l : list (nat * nat)) : list (nat * nat) :=
  match l with
  | [] => [x]
  | y :: r =>
      if Nat.ltb (fst x) (fst y) || (Nat.eqb (fst x) (fst y) && Nat.leb (snd x) (snd y))
      then x :: l else y :: ins_pair x r
  end.
Definition sort_pairs (l : list (nat * nat)) : list (nat * nat) := fold_right ins_pair [] l.
Definition flat_pairs (l : list (nat * nat)) : list nat := flat_map (fun p => [fst p; snd p]) (sort_pairs l).
Definition optl (o : option nat) : list nat := match o with Some n => [n] | None => [] end.

Fixpoint settle_all (c : cfg) (w : world) (n : nat) : world :=
  match n with O => w | S m => settle c 3 (settle_all c w m) m end.

(* canonical observable summary of a final world: zip, ztmp, modf, mtmp, marker, dir,
   per-thread results, per-process GetZip counts, [complete?; recovery outcome] *)
Definition c16_summary (c : cfg) (w0 : world) (npids : nat) : list (list nat) :=
  let n := length (threads w0) in
  let w := settle_all c w0 n in
  let s := st w in
  let res := map (c16_result w) (seq 0 n) in
  let quiet := forallb (fun r => negb (Nat.eqb r 4)) res in
  let recov := if quiet then
                 match c16_recover c w (S npids) with
                 | Some w' => if completeb c (st w') && Nat.eqb (c16_result w' n) 0 then 1 else 2
                 | None => 3
                 end
               else 0 in
  [ optl (zip s); flat_pairs (ztmp s); optl (modf s); flat_pairs (mtmp s); [if marker s then 1 else 0];
    match dir s with None => [0] | Some l => 1 :: flat_pairs l end;
    res; map (fun p => gz (ps w p)) (seq 0 npids); [if completeb c s then 1 else 0; recov] ].

Definition c16_run (c : cfg) (ls : list (label * bool)) (npids : nat) : (list (list (list nat)) * nat) + nat :=
  match c16_accept c [world0] ls 0 0 with
  | inl (ws, skipped) => inl (map (fun w => c16_summary c w npids) ws, skipped)
  | inr k => inr k
  end.
