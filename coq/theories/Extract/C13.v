(* Executable instances of the C13 models for extraction.  The regexp oracle is
   instantiated by a finite table of verdicts computed by Go's regexp package
   (pattern id, subject, verdict); anything outside the table is "no match"
   (the harness puts every (pattern, string) pair a case can ask for into the
   table). *)
From Verif Require Import Schema.Json Schema.Sem Schema.Encode Schema.Refs.
From Coq Require Import List NArith ZArith Bool.
Import ListNotations.

Definition re_table := list (pat * str * bool).

Fixpoint table_re (t : re_table) (p : pat) (s : str) : bool :=
  match t with
  | [] => false
  | (p', s', b) :: r => if N.eqb p p' && str_eqb s s' then b else table_re r p s
  end.

Definition c13_valid (t : re_table) (s : schema) (j : json) : bool := valid (table_re t) s j.
Definition c13_encode (t : re_table) (s : schema) (j : json) : bool := encode (table_re t) s j.
Definition c13_unsupported (t : re_table) (s : schema) : bool := unsupported (table_re t) s.

(* the import is computed once per case; [c13_enc_ev r j] is then the verdict *)
Definition c13_enc (t : re_table) (s : schema) : result := enc (table_re t) s mall.
Definition c13_enc_ev (r : result) (j : json) : bool := ev (r_e r) j.
Definition c13_poisoned (t : re_table) (s : schema) : bool := poisoned (table_re t) s.
Definition c13_dev (r : result) : list nat := r_dev r.

(* documents with named references (Schema/Refs.v) *)
Definition c13_doc_ok (defs : list rschema) (s : rschema) : bool := doc_ok defs s.
Definition c13_resolve_doc (defs : list rschema) (s : rschema) : schema := resolve_doc defs s.
Definition c13_valid_r (t : re_table) (defs : list rschema) (s : rschema) (j : json) : bool :=
  valid_r (table_re t) (length defs) defs s j.
