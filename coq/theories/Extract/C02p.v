(* Executable entry point of the C02 parser-skeleton model (Robust/Parse.v) for extraction.
   ExtrOcamlBasic only; Z, N, nat stay Coq datatypes. *)
From Verif Require Import Robust.Parse.
From Coq Require Import ZArith List.
Require Import ExtrOcamlBasic.

(* parser.ParseExpr over the scanner's token list, maxNestLevel = mx, with the fuel that
   ParseProofs.parse_expr_total shows sufficient *)
Definition c02p_parse (mx : nat) (l : list tk) (eof : Z * Z) : verdict * nat :=
  parse_expr mx (S (length l)) (enough_fuel l) l eof.
