(* Executable entry points of the C07 model for the harness. *)
From Verif Require Import Core.Syntax Core.Eval Core.Disj Print.Model Print.Impl Print.DisjModel.
From Coq Require Import List.
Import ListNotations.

Definition c07_eval (labs : list label) (atoms : list atom) (fuel : nat) (cs : list conj) : res :=
  evalNode labs atoms fuel cs.
Definition c07_err := res_err.
Definition c07_project_res := project_res.
Definition c07_normalize := normalize_conjs.
Definition c07_project_value := project_value.
Definition c07_nf_ok := nf_ok.
Definition c07_nf_concrete := nf_concrete.
Definition c07_print := print_nf.
Definition c07_range_rewrite := range_rewrite.
Definition c07_impl_def := impl_def.

(* disjunctions with defaults: the evaluated disjunction, adt.Default, the printed disjuncts, and
   the value/default pair of a printed disjunction *)
Definition c07_norm_sdisj := normalize_sdisj.
Definition c07_take_defaults := take_defaults.
Definition c07_print_sdisj := print_sdisj.
Definition c07_pair (labs : list label) (atoms : list atom) (fuel : nat) (plain : list expr) (ds : list disj) :=
  pair_of labs atoms fuel plain ds.
Definition c07_pair_accepts := pair_accepts.
Definition c07_resolve := resolve.
Definition c07_fold_sensitive := fold_sensitive.
Definition c07_sres := sres.
