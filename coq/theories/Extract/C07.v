(* Executable entry points of the C07 model for the harness. *)
From Verif Require Import Core.Syntax Core.Eval Print.Model Print.Impl.
From Coq Require Import List.
Import ListNotations.

Definition c07_eval (labs : list label) (atoms : list atom) (fuel : nat) (cs : list conj) : res :=
  evalNode labs atoms fuel cs.
Definition c07_err := res_err.
Definition c07_project_res := project_res.
Definition c07_normalize := normalize_conjs.
Definition c07_project_value := project_value.
Definition c07_nf_ok := nf_ok.
Definition c07_nf_concrete := nf_concrete.
Definition c07_print := print_nf.
Definition c07_range_rewrite := range_rewrite.
Definition c07_impl_def := impl_def.
