(* Executable instances of the C15 model: the Unicode oracles are finite tables
   supplied with each case (computed by Go's unicode package in the harness). *)
From Coq Require Import List NArith ZArith Bool.
From Verif Require Import Zip.Bytes Zip.Model.
Import ListNotations.

Definition tbl := list (N * (bool * N)).

Fixpoint tbl_find (t : tbl) (r : N) : option (bool * N) :=
  match t with
  | [] => None
  | (k, v) :: rest => if N.eqb k r then Some v else tbl_find rest r
  end.

Definition o_letter (t : tbl) (r : N) : bool :=
  match tbl_find t r with Some (b, _) => b | None => false end.
Definition o_fold (t : tbl) (r : N) : N :=
  match tbl_find t r with Some (_, m) => m | None => r end.

Definition c15_check_path (t : tbl) (p : str) : bool := check_path (o_letter t) p.
Definition c15_is_clean (p : str) : bool := str_eqb (clean p) p.
Definition c15_fold (t : tbl) (p : str) : str := str_to_fold (o_fold t) p.
Definition c15_split_cue_mod (p : str) : str * str := split_cue_mod p.
Definition c15_check_files (t : tbl) (l : list file) : checked := check_files (o_letter t) (o_fold t) l.
Definition c15_check_zip (t : tbl) (zs : Z) (l : list entry) : checked := check_zip (o_letter t) (o_fold t) zs l.
Definition c15_create (t : tbl) (l : list file) : option (list entry) := create (o_letter t) (o_fold t) l.
Definition c15_unzip (t : tbl) (dir : fpath) (fs : fsys) (zs : Z) (l : list entry) : fsys * unzip_result :=
  unzip (o_letter t) (o_fold t) dir fs zs l.
Definition c15_files_verdicts (t : tbl) (l : list file) : list verdict :=
  fst (check_files_verdicts (o_letter t) (o_fold t) l).
Definition c15_zip_verdicts (t : tbl) (l : list entry) : list verdict :=
  fst (check_zip_verdicts (o_letter t) (o_fold t) l).
Definition c15_check_dir (t : tbl) (l : list file) : checked := check_dir (o_letter t) (o_fold t) l.
Definition c15_create_from_dir (t : tbl) (l : list file) : option (list entry) := create_from_dir (o_letter t) (o_fold t) l.
