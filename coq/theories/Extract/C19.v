(* Executable instances of the C19 models for the correspondence (strings are
   byte lists).  ExtrOcamlBasic only; N, nat stay Coq datatypes. *)
From Verif Require Import Conc.Index Conc.Once.
From Coq Require Import List NArith.
Import ListNotations.

Definition str : Type := list N.
Definition str_eq_dec : forall a b : str, {a = b} + {a <> b} := list_eq_dec N.eq_dec.

(* sequential getKey calls on a snapshot of the real table *)
Definition c19_index_seq (lbls : list str) (m : list (str * nat)) (ss : list str) : list nat :=
  snd (seq_keys str str_eq_dec {| lmap := m; labels := lbls |} ss).

(* acceptance of an observed concurrent history of getKey results *)
Definition c19_index_check (init_labels : list str) (logs : list (list (str * nat)))
           (final : list str) (final_map : list (str * nat)) : bool :=
  check_history str str_eq_dec init_labels logs final final_map.

(* the index machine on an explicit schedule (used for the vm_compute cross-check
   and for exhibiting the duplicate of the variant without the re-check) *)
Definition c19_index_run (recheck : bool) (lbls : list str) (m : list (str * nat))
           (n : nat) (sched : list (Index.label str)) : option (list str * list (list (str * nat))) :=
  match Index.run str str_eq_dec recheck (Index.init str {| lmap := m; labels := lbls |}) sched with
  | Some st => Some (labels str (tb str st), map (logs str st) (seq 0 n))
  | None => None
  end.

(* acceptance of an observed history of Cache.Do: executions of f and returns *)
Definition c19_once_check (execs : list (str * nat)) (returns : list (str * option nat)) : bool :=
  check_once str str_eq_dec execs returns.

Definition c19_once_run (use_lock : bool) (sched : list (Once.label str)) : option (list (str * nat) * list (str * option nat)) :=
  match Once.run str str_eq_dec use_lock (Once.init str) sched with
  | Some st => Some (execs str st, returns_of str st)
  | None => None
  end.
