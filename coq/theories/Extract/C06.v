(* Entry points of the C06 models for extraction (ExtrOcamlBasic only; N, Z, positive
   stay Coq datatypes; no Extract Constant). *)
From Verif Require Import Num.Decimal Num.IntDiv Num.Eval Num.NumLit Num.NumLitSpec.
From Coq Require Import List NArith ZArith.
Import ListNotations.

(* implementation-faithful result, specification-layer result, do they agree *)
Definition c06_eval (e : expr) : result value * result value * bool :=
  let i := eval true e in
  let s := eval false e in
  (i, s, same_result i s).

Definition c06_lit (src : list N) : lit_result * lit_class := (lit_parse src, classify src).

Definition c06_bytes_cmp (op : cmp_op) (a b : list N) : bool := bytes_cmp_op op a b.
