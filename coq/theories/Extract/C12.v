(* Executable instance of the C12 model (Toml/Decode.v) for the OCaml driver. *)
From Verif Require Import Toml.Decode.
Require Import ExtrOcamlBasic.

(* decode the events and evaluate the tree: Ok (Some data) | Ok None (CUE conflict) | Err *)
Definition c12_decode (fuel : nat) (es : list event) : result (option data) :=
  match decode es with
  | Ok t => Ok (eval fuel t)
  | Err e => Err e
  end.
