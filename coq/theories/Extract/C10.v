(* Executable entry points of the C10 models for the OCaml driver.
   ExtrOcamlBasic only; N, Z, positive, nat stay Coq datatypes. *)
From Verif Require Import Json.Model Json.Cue Json.Data.

Definition c10_spec_decode (s : bytes) : option data := spec_decode s.
Definition c10_cue_decode (s : bytes) : option data := cue_decode s.

(* deviation classes of a document the Std reader accepts:
   (strict reader accepts, Cue-mode reader accepts, duplicate member names, numbers in apd range) *)
Definition c10_classify (s : bytes) : option (bool * bool * bool * bool) :=
  match json_parse s with
  | None => None
  | Some v =>
    Some (match json_parse_gen Strict s with Some _ => true | None => false end,
          match json_parse_gen Cue s with Some _ => true | None => false end,
          dup_keys v, nums_in_range v)
  end.

(* model printer applied to the model reader: used to cross-validate the
   implementation's decoder against the model's encoder *)
Definition c10_reprint (s : bytes) : option bytes := option_map json_print (json_parse s).

Definition c10_unquote (t : bytes) : ures := cue_unquote t.
Definition c10_unescape (t : bytes) : option bytes := option_map utf8_encode_all (json_unescape t).
Definition c10_parse_num (t : bytes) : pnres := parse_num t.
Definition c10_read_number (t : bytes) : option (bool * dec) := cue_read_number t.
Definition c10_apd (buf : bytes) : option dec := apd_set_string buf.
Definition c10_format_G (neg : bool) (coeff : N) (e : Z) : bytes :=
  format_G {| dneg := neg; dcoeff := coeff; dexp := e |}.
Definition c10_go_string (s : bytes) : bytes := go_json_string s.
Definition c10_utf8 (cs : list N) : bytes := utf8_encode_all cs.
Definition c10_N_digits (n : N) : bytes := N_digits n.
Definition c10_digits_val (ds : bytes) : N := digits_val ds.

(* the sign of zero is not an observable of the canonical text the driver prints *)
Fixpoint c10_norm (d : data) : data :=
  match d with
  | DNum i x => DNum i {| dneg := if dcoeff x =? 0 then false else dneg x; dcoeff := dcoeff x; dexp := dexp x |}
  | DList l => DList (map c10_norm l)
  | DObj l => DObj (map (fun kv => (fst kv, c10_norm (snd kv))) l)
  | _ => d
  end.
