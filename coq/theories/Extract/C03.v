(* Executable instances of the C03 model and specification for extraction.
   ExtrOcamlBasic only; N, Z, positive stay Coq datatypes; the regexp oracle
   is passed as an OCaml closure built from the verdict table of each case. *)
From Verif Require Import Scalar.Spec Scalar.Model Scalar.DecProofs Scalar.Theorems.
From Coq Require Import List ZArith NArith Bool.
Open Scope bool_scope.
Import ListNotations.

Definition c03_simplify (re : str -> str -> bool) (k : N) (x y : bound) : sres := simplify re k x y.
Definition c03_run (re : str -> str -> bool) (cs : list constr) : verdict := run re cs.
Definition c03_run_with (re : str -> str -> bool) (cs : list constr) (a : atom) : verdict := run_with re cs a.
Definition c03_sat_all (re : str -> str -> bool) (a : atom) (cs : list constr) : bool := sat_all re a cs.

Definition c03_all_safe (cs : list constr) : bool := all_safe cs.

(* driver helpers: decimal text <-> Z without OCaml bignums *)
Definition c03_zpush (acc d : Z) : Z := (acc * 10 + d)%Z.
Definition c03_zneg (z : Z) : Z := (- z)%Z.
Definition c03_z_to_n (z : Z) : N := Z.to_N z.

(* ---- vm_compute cross-check of the extraction and the OCaml driver ----
   (used only by the generated file build/C03-*/vmcheck.v; codes: -2 bottom,
   -3 incomplete, otherwise the index of the result atom among the case's atoms) *)
Fixpoint str_same (s t : str) : bool :=
  match s, t with
  | [], [] => true
  | a :: s', b :: t' => N.eqb a b && str_same s' t'
  | _, _ => false
  end.
Definition atom_same (a b : atom) : bool :=
  match a, b with
  | ANull, ANull => true
  | ABool x, ABool y => Bool.eqb x y
  | AInt x, AInt y => Z.eqb x y
  | AFloat x, AFloat y => Bool.eqb (dneg x) (dneg y) && N.eqb (dcoef x) (dcoef y) && Z.eqb (dexp x) (dexp y)
  | AStr s, AStr t => str_same s t
  | ABytes s, ABytes t => str_same s t
  | _, _ => false
  end.
Fixpoint index_of (a : atom) (l : list atom) (i : Z) : Z :=
  match l with
  | [] => (-1)%Z
  | b :: r => if atom_same a b then i else index_of a r (i + 1)%Z
  end.
Definition c03_code (atoms : list atom) (v : verdict) : Z :=
  match v with
  | RBottom => (-2)%Z
  | RIncomplete => (-3)%Z
  | RAtom a => index_of a atoms 0%Z
  end.
Definition c03_re_of_table (tbl : list (str * str * bool)) : str -> str -> bool :=
  fun p s => existsb (fun e => let '(p', s', v) := e in str_same p p' && str_same s s' && v) tbl.
Definition c03_ev_codes (tbl : list (str * str * bool)) (atoms : list atom) (cs : list constr) (probes : list atom) : list Z :=
  let re := c03_re_of_table tbl in
  c03_code atoms (run re cs) :: (if all_safe cs then 1 else 0)%Z ::
  map (fun a => c03_code atoms (run_with re cs a)) probes ++
  map (fun a => if sat_all re a cs then 1 else 0)%Z probes.
Definition c03_sb_code (tbl : list (str * str * bool)) (k : N) (x y : bound) : Z :=
  match simplify (c03_re_of_table tbl) k x y with SKeepX => 0 | SKeepY => 1 | SNone => 2 | SBottom => 3 end%Z.
