(* Executable instances of the C03 model and specification for extraction.
   ExtrOcamlBasic only; N, Z, positive stay Coq datatypes; the regexp oracle
   is passed as an OCaml closure built from the verdict table of each case. *)
From Verif Require Import Scalar.Spec Scalar.Model.
From Coq Require Import List ZArith NArith.
Import ListNotations.

Definition c03_simplify (re : str -> str -> bool) (k : N) (x y : bound) : sres := simplify re k x y.
Definition c03_run (re : str -> str -> bool) (cs : list constr) : verdict := run re cs.
Definition c03_run_with (re : str -> str -> bool) (cs : list constr) (a : atom) : verdict := run_with re cs a.
Definition c03_sat_all (re : str -> str -> bool) (a : atom) (cs : list constr) : bool := sat_all re a cs.

(* driver helpers: decimal text <-> Z without OCaml bignums *)
Definition c03_zpush (acc d : Z) : Z := (acc * 10 + d)%Z.
Definition c03_zneg (z : Z) : Z := (- z)%Z.
Definition c03_z_to_n (z : Z) : N := Z.to_N z.
