(* Executable instantiation of the C18 (tools/flow) model for the correspondence
   check: replay an observed label sequence through [step] and produce the
   observables the Go harness records (task states and dependency sets after every
   controller update, which dependency results a task could NOT see when it was
   started, the outcome of Run, the results merged into the configuration).
   ExtrOcamlBasic only; nat stays a Coq datatype.  No Extract Constant. *)
From Verif Require Import Flow.Model Flow.Spec Flow.Discover.
From Coq Require Import List Bool Arith.
Import ListNotations.

Inductive obs :=
| OSnap (l : list (nat * (tstate * list nat)))   (* UpdateFunc: every known task, its state, its depTasks *)
| ODisp (t : nat) (miss : list nat)               (* Run(t) called; dependencies whose result is not in t.v *)
| OComp (t : nat) (ok : bool)
| OCancel
| OReject.                                        (* the label is not enabled in the model *)

Definition snap (w : workflow) (s : cstate) : list (nat * (tstate * list nat)) :=
  map (fun t => (t, (ti_state (info s t), ti_deps (info s t)))) (known s).

Definition missing (w : workflow) (s : cstate) (t : nat) : list nat :=
  filter (fun d => negb (mem d (view_of s t))) (ti_deps (info s t)).

Fixpoint observe (w : workflow) (s : cstate) (ls : list label) : list obs * option cstate :=
  match ls with
  | [] => ([], Some s)
  | l :: r =>
    match step w s l with
    | None => ([OReject], None)
    | Some s' =>
      let o := match l with
               | Dispatch t => [ODisp t (missing w s' t)]
               | Complete t true => [OComp t true; OSnap (snap w s')]
               | Complete t false => [OComp t false]
               | Cancel => [OCancel]
               end in
      let (os, fin) := observe w s' r in (o ++ os, fin)
    end
  end.

Definition c18_observe (w : workflow) (ls : list label)
  : list obs * option (outcome * list nat) :=
  let s0 := init w in
  let (os, fin) := observe w s0 ls in
  (OSnap (snap w s0) :: os,
   match fin with Some s => Some (outcome_of s, results s) | None => None end).

(* checkCycle on tasks 0..n-1 whose depTasks are given as a table *)
Definition c18_check_cycle (n : nat) (tbl : list (list nat)) : option bool :=
  check_cycle (fun i => nth i tbl []) (seq 0 n).

(* boolean summary used for the vm_compute cross-check of the extraction *)
Definition c18_accepts (w : workflow) (ls : list label) : bool :=
  match run w ls with Some _ => true | None => false end.

(* the decidable hypotheses of the C18 theorems, evaluated on a generated workflow:
   (wf_known, wf_trig, wf_closed, acyclic) *)
Definition c18_hyps (w : workflow) : bool * bool * bool * bool :=
  (wf_known_b w, wf_trig_b w, wf_closed_b w, acyclic_b w).

(* ------------------------------------------------------------------ *)
(* configuration-driven replay (Flow/Discover.v): the dependency graph is not given
   but DISCOVERED by the model from the task-graph configuration, along the
   completion order of the observed label sequence (kdeps_wf_of_run:
   the workflow of the run reproduces the accumulated discoveries). *)
Definition c18_observe_cfg (cfg : config) (ls : list label)
  : list obs * option (outcome * list nat) :=
  c18_observe (wf_of_run cfg (completions ls)) ls.

(* markTaskDependencies in the configuration containing the results [res]: every task
   of that configuration with its discovered dependencies (Impl) and with what the
   Spec reading of the property asks for *)
Definition c18_discover (cfg : config) (res : list nat) : list (nat * (list nat * list nat)) :=
  map (fun t => (t, (discover (dfuel cfg) cfg res t, discover_spec (dfuel cfg) cfg res t)))
      (tasks_at cfg res).

Definition c18_cfg_hyps (cfg : config) (ls : list label) : bool * bool * bool * bool :=
  c18_hyps (wf_of_run cfg (completions ls)).
