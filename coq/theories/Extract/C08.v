(* Executable instances of the C08 models for extraction (ExtrOcamlBasic only). *)
From Coq Require Import List NArith Bool.
From Verif Require Import Syn.Lex Syn.Expr.
Import ListNotations.

(* tokens of a printed expression with the spacing decision before each token
   and whether the scanner needs a blank there *)
Fixpoint mark_from (prev : tok) (l : list (sp * tok)) : list ((sp * bool) * tok) :=
  match l with
  | [] => []
  | (s, t) :: r => ((s, needs_sep prev t), t) :: mark_from t r
  end.

Definition mark (l : list (sp * tok)) : list ((sp * bool) * tok) :=
  match l with
  | [] => []
  | (s, t) :: r => ((s, false), t) :: mark_from t r
  end.

Definition c08_sp1 (e : expr) := mark (sp1 e 0).
Definition c08_sp2 (e : expr) := mark (sp2 MDisp e).

(* what reading the printed text back gives: render with the modelled blanks
   (layout choices resolved to "blank"), scan, parse *)
Definition reread (l : list (sp * tok)) : option expr :=
  match scan (render (resolve (fun _ => true) 0 l)) with
  | Some ts => parse ts
  | None => None
  end.

Definition rescan (l : list (sp * tok)) : option (list tok) :=
  scan (render (resolve (fun _ => true) 0 l)).
Definition c08_rescan1 (e : expr) := rescan (sp1 e 0).
Definition c08_rescan2 (e : expr) := rescan (sp2 MDisp e).
Definition c08_right_nested_chain := right_nested_chain.

Definition c08_reread1 (e : expr) := reread (sp1 e 0).
Definition c08_reread2 (e : expr) := reread (sp2 MDisp e).
Definition c08_print1 := print1.
Definition c08_print2 := print2.
Definition c08_parse := parse.
Definition c08_scan := scan.
Definition c08_unparen := unparen.
Definition c08_collapse := collapse.
Definition c08_needs_sep := needs_sep.
