(* Executable entry points of the C02 scanner model for extraction.
   ExtrOcamlBasic only; Z, N, positive, nat stay Coq datatypes; no Extract Constant.
   The unicode oracles are instantiated per case from tables of the runes >= 0x80
   that occur in the input (computed by Go's unicode.IsLetter / IsDigit). *)
From Verif Require Import Robust.Scan.
From Coq Require Import ZArith List Bool.
Require Import ExtrOcamlBasic.
Import ListNotations.

Definition in_table (tbl : list Z) (c : Z) : bool := existsb (Z.eqb c) tbl.

Definition c02_run (src : list N) (letters digits : list Z) (comments noins : bool) (ops : list op)
  : run_result :=
  run src (in_table letters) (in_table digits) comments noins ops.

Definition c02_tokenize (src : list N) (letters digits : list Z) (comments noins : bool)
  : outcome (list res) :=
  tokenize src (in_table letters) (in_table digits) comments noins.
