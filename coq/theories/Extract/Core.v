(* Executable entry points of the CoreCUE model for the harness (C01, C04, C05). *)
From Verif Require Import Core.Syntax Core.Eval.
From Coq Require Import List.
Import ListNotations.

Definition core_eval (labs : list label) (atoms : list atom) (fuel : nat) (cs : list conj) : res :=
  evalNode labs atoms fuel cs.
Definition core_err := res_err.
Definition core_concrete := res_concrete.

From Verif Require Import Core.Disj.
Definition core_eval_disj := eval_disj.
From Verif Require Import Core.DisjGen Core.Nest.
Definition core_eval_nest := eval_nest.
