(* C11 - whole YAML documents: the structural decisions of the encoder
   (internal/encoding/yaml/goccy/encode.go encode / encodeDecls / encodeExprs /
   encodeScalar + goccy's block printer with yaml.Indent(2), IndentSequence(true))
   and an indentation-based reader for what it writes.

   Layers:
     data  --emit_toks-->  tokens with columns (block entry "- ", key, inline value)
     data  --emit_doc--->  the document text (lines), byte for byte what yaml.Encode writes
     text  --lex_lines-->  tokens  --parse_node-->  data        (= read_doc)

   [emit_toks]/[parse_node] carry the block structure (which column a nested
   sequence / mapping / compact "- - x" / "- k: v" entry sits in, when a
   collection is written inline as [] / {}); the scalar layer is Yaml/Scalar.v. *)
From Verif Require Import Yaml.Scalar.
From Coq Require Import List NArith Bool Lia.
Import ListNotations.
Open Scope N_scope.

Inductive data :=
| DNull
| DBool (b : bool)
| DInt (t : str)            (* the number text as written (a CUE literal YAML accepts) *)
| DFloat (t : str)
| DStr (s : str)
| DBytes (b64 : str)        (* bytes, as their standard base64 text *)
| DSeq (l : list data)
| DMap (l : list (str * data)).

(* written on the line of its key / dash: scalars and empty collections *)
Definition inline (d : data) : bool :=
  match d with DSeq (_ :: _) | DMap (_ :: _) => false | _ => true end.

(* block tokens; columns count from 0 *)
Inductive tok :=
| TDash (c : nat)            (* "- " in column c *)
| TKey (c : nat) (k : str)   (* a mapping key starting in column c, followed by ':' *)
| TVal (d : data).           (* an inline value: scalar, [] or {} *)

(* goccy printer: the entries of a block sequence / mapping at indentation c sit in
   column c; the node of an entry (sequence element, mapping value) is at c + 2:
   "- " is two columns wide, and Indent(2) / IndentSequence(true) put a nested
   collection two columns right of its key. *)
Fixpoint emit_toks (c : nat) (d : data) : list tok :=
  match d with
  | DSeq ((_ :: _) as l) => flat_map (fun e => TDash c :: emit_toks (c + 2) e) l
  | DMap ((_ :: _) as l) => flat_map (fun kv => TKey c (fst kv) :: emit_toks (c + 2) (snd kv)) l
  | _ => [TVal d]
  end.

(* ------------------------------------------------------------------ *)
(* block parser over tokens                                           *)

Fixpoint parse_node (fuel : nat) (cmin : nat) (ts : list tok) {struct fuel} : option (data * list tok) :=
  match fuel with
  | O => None
  | S f =>
    match ts with
    | [] => None
    | TVal d :: r => Some (d, r)
    | TDash k :: _ =>
      if Nat.leb cmin k then
        match parse_seq f k ts with Some (l, r) => Some (DSeq l, r) | None => None end
      else None
    | TKey k _ :: _ =>
      if Nat.leb cmin k then
        match parse_map f k ts with Some (l, r) => Some (DMap l, r) | None => None end
      else None
    end
  end
with parse_seq (fuel : nat) (k : nat) (ts : list tok) {struct fuel} : option (list data * list tok) :=
  match fuel with
  | O => None
  | S f =>
    match ts with
    | TDash k' :: r =>
      if Nat.eqb k' k then
        match parse_node f (S k) r with
        | Some (d, r') =>
          match parse_seq f k r' with Some (l, r'') => Some (d :: l, r'') | None => None end
        | None => None
        end
      else Some ([], ts)
    | _ => Some ([], ts)
    end
  end
with parse_map (fuel : nat) (k : nat) (ts : list tok) {struct fuel} : option (list (str * data) * list tok) :=
  match fuel with
  | O => None
  | S f =>
    match ts with
    | TKey k' key :: r =>
      if Nat.eqb k' k then
        match parse_node f (S k) r with
        | Some (d, r') =>
          match parse_map f k r' with Some (l, r'') => Some ((key, d) :: l, r'') | None => None end
        | None => None
        end
      else Some ([], ts)
    | _ => Some ([], ts)
    end
  end.

(* a whole token stream is one node *)
Definition parse_toks (ts : list tok) : option data :=
  match parse_node (3 * List.length ts) 0 ts with
  | Some (d, []) => Some d
  | _ => None
  end.

(* ------------------------------------------------------------------ *)
(* the document text                                                  *)

Definition indent (n : nat) (l : str) : str := repeat c_sp n ++ l.
Definition prefix_first (p : str) (ls : list str) : list str :=
  match ls with [] => [p] | l :: r => (p ++ l) :: r end.
(* the first line of a node at indentation c + 2 goes after "- " in column c *)
Definition dash_first (c : nat) (ls : list str) : list str :=
  match ls with
  | [] => []
  | l :: r => (repeat c_sp c ++ c_minus :: c_sp :: skipn (c + 2) l) :: r
  end.

Section DocEmit.
  Variable is_print : N -> bool.
  Variable tok_number tok_isnumber tok_timestamp : str -> bool.
  (* list elements keep the source form of their CUE literal (export extractBasic);
     [lm]: they are written as multi-line literals.  Field values and the root are
     multi-line literals iff they contain a newline (cue/literal Form.Append). *)
  Variable lm : bool.

  Let choose := choose_style tok_number tok_isnumber tok_timestamp.

  (* the lines of a string scalar; the first one follows "key: " / "- "; [n] is
     the indentation of literal block content *)
  Definition str_lines (is_key multi : bool) (n : nat) (s : str) : list str :=
    match choose is_key multi s with
    | Literal => chomp_text (literal_chomp s) :: literal_lines n s
    | st => [emit is_print st n s]
    end.

  (* encodeScalar *)
  Definition scalar_lines (in_list : bool) (n : nat) (d : data) : list str :=
    match d with
    | DNull => [s_ "null"]
    | DBool b => [if b then s_ "true" else s_ "false"]
    | DInt t | DFloat t => [t]
    | DStr s => str_lines false (if in_list then lm else has_nl s) n s
    | DBytes b => [s_ "!!binary " ++ match b with [] => [c_dq; c_dq] | _ => b end]
    | DSeq _ => [s_ "[]"]
    | DMap _ => [s_ "{}"]
    end.

  (* encodeDecls: quoteScalar(name) / double quotes for a newline / goccy *)
  Definition key_text (k : str) : str := emit is_print (choose true false k) 0 k.

  (* the lines of node d at indentation c, every line fully indented *)
  Fixpoint emit_node (in_list : bool) (c : nat) (d : data) : list str :=
    match d with
    | DSeq ((_ :: _) as l) => flat_map (fun e => dash_first c (emit_node true (c + 2) e)) l
    | DMap ((_ :: _) as l) =>
      flat_map (fun kv =>
        if inline (snd kv)
        then prefix_first (indent c (key_text (fst kv) ++ [c_colon; c_sp])) (scalar_lines false (c + 2) (snd kv))
        else indent c (key_text (fst kv) ++ [c_colon]) :: emit_node false (c + 2) (snd kv)) l
    | _ => prefix_first (repeat c_sp c) (scalar_lines in_list c d)
    end.

  (* a root scalar's literal block content is indented by 2 *)
  Definition doc_lines (d : data) : list str :=
    if inline d then scalar_lines false 2 d else emit_node false 0 d.
  Definition emit_doc (d : data) : str := flat_map (fun l => l ++ [c_nl]) (doc_lines d).
End DocEmit.

(* ------------------------------------------------------------------ *)
(* reading the text                                                   *)

Section DocRead.
  Variable tok_number : str -> bool.

  Definition no_us (v : str) : str := filter (fun c => negb (c =? c_us)) v.
  (* decode.go scalar typing of a plain scalar *)
  Definition plain_data (v : str) : data :=
    match resolve_plain tok_number v with
    | TStr => DStr v
    | TNull => DNull
    | TBool => DBool (mem_str v (map s_ ["true"; "True"; "TRUE"]%string))
    | TInt | TFloat => if rx_yaml_int (no_us v) then DInt v else DFloat v
    end.

  Definition b64_char (c : N) : bool :=
    is_digit c || ((65 <=? c) && (c <=? 90)) || ((97 <=? c) && (c <=? 122)) || (c =? 43) || (c =? 47) || (c =? 61).

  (* an inline value: the text [t] up to the end of its line (not a literal block) *)
  Definition read_value (t : str) : option data :=
    match read_any tok_number 0 false false [c_nl] (t ++ [c_nl]) with
    | Some v => Some (DStr v)
    | None =>
      if str_eqb t (s_ "[]") then Some (DSeq [])
      else if str_eqb t (s_ "{}") then Some (DMap [])
      else if is_prefix (s_ "!!binary ") t then
        let b := skipn 9 t in
        if str_eqb b [c_dq; c_dq] then Some (DBytes [])
        else if nonempty_all b64_char b then Some (DBytes b) else None
      else if plain_first_ok t then
        let (v, rest) := parse_plain t in
        match rest with
        | [] => if plain_first_ok v && negb (is_tstr (resolve_plain tok_number v)) then Some (plain_data v) else None
        | _ => None
        end
      else None
    end.

  (* after a key or at the start of a line: is the text a key followed by ':' ?
     Result: key, text after ": " (empty: the value is the nested block below). *)
  Definition split_key (t : str) : option (str * str) :=
    match t with
    | [] => None
    | c :: r =>
      let res :=
        if (c =? c_dq) || (c =? c_sq) then read_flow_rest tok_number t
        else let (v, rest) := parse_plain t in
             if plain_first_ok v then Some (v, rest) else None in
      match res with
      | Some (k, 58 :: []) => Some (k, [])
      | Some (k, 58 :: 32 :: v) => Some (k, v)
      | _ => None
      end
    end.

  (* one line after its indentation: block tokens, the remaining value text and the
     column of the innermost token (the parent of a literal block) *)
  Fixpoint lex_line (fuel col : nat) (p : option nat) (t : str) : list tok * str * option nat :=
    match fuel with
    | O => ([], t, p)
    | S f =>
      match t with
      | 45 :: 32 :: r =>
        let '(ts, v, p') := lex_line f (col + 2) (Some col) r in (TDash col :: ts, v, p')
      | _ =>
        match split_key t with
        | Some (k, v) => ([TKey col k], v, Some col)
        | None => ([], t, p)
        end
      end
    end.

  Fixpoint span_lines (keep : str -> bool) (ls : list str) : list str * list str :=
    match ls with
    | l :: r => if keep l then let (a, b) := span_lines keep r in (l :: a, b) else ([], ls)
    | [] => ([], [])
    end.

  Fixpoint lex_lines (fuel : nat) (ls : list str) : option (list tok) :=
    match fuel with
    | O => None
    | S f =>
      match ls with
      | [] => Some []
      | l :: rest =>
        let c := count_sp l in
        let t := skipn c l in
        let '(ts, v, p) := lex_line (S (List.length t)) c None t in
        match v with
        | [] => match ts with
                | [] => None
                | _ => match lex_lines f rest with Some more => Some (ts ++ more) | None => None end
                end
        | 124 :: _ =>
          let pc := match p with Some x => x | None => O end in
          let root := match p with Some _ => false | None => true end in
          let (body, rest') :=
            span_lines (fun l' => all_spaces l' || (if root then true else Nat.ltb pc (count_sp l'))) rest in
          match parse_literal pc root (v ++ c_nl :: flat_map (fun x => x ++ [c_nl]) body) with
          | Some s => match lex_lines f rest' with Some more => Some (ts ++ TVal (DStr s) :: more) | None => None end
          | None => None
          end
        | _ =>
          match read_value v with
          | Some d => match lex_lines f rest with Some more => Some (ts ++ TVal d :: more) | None => None end
          | None => None
          end
        end
      end
    end.

  Definition read_doc (text : str) : option data :=
    match text_lines text with
    | None => None
    | Some ls =>
      match lex_lines (S (List.length ls)) ls with
      | Some ts => parse_toks ts
      | None => None
      end
    end.
End DocRead.

(* ------------------------------------------------------------------ *)
(* document streams: yaml.EncodeStream writes the documents separated by
   a "---" line; yaml.Extract returns them in order. *)

Definition doc_sep : str := [c_minus; c_minus; c_minus].

Section Stream.
  Variable is_print : N -> bool.
  Variable tok_number tok_isnumber tok_timestamp : str -> bool.
  Variable lm : bool.

  Fixpoint emit_stream (ds : list data) : str :=
    match ds with
    | [] => []
    | [d] => emit_doc is_print tok_number tok_isnumber tok_timestamp lm d
    | d :: r => emit_doc is_print tok_number tok_isnumber tok_timestamp lm d ++ doc_sep ++ c_nl :: emit_stream r
    end.

  (* the groups of lines between "---" lines *)
  Fixpoint split_docs (ls : list str) : list (list str) :=
    match ls with
    | [] => [[]]
    | l :: r =>
      if str_eqb l doc_sep then [] :: split_docs r
      else match split_docs r with
           | g :: gs => (l :: g) :: gs
           | [] => [[l]]
           end
    end.

  Fixpoint all_some {A} (l : list (option A)) : option (list A) :=
    match l with
    | [] => Some []
    | Some x :: r => match all_some r with Some xs => Some (x :: xs) | None => None end
    | None :: _ => None
    end.

  Definition read_lines (ls : list str) : option data :=
    match lex_lines tok_number (S (List.length ls)) ls with
    | Some ts => parse_toks ts
    | None => None
    end.

  Definition read_stream (text : str) : option (list data) :=
    match text_lines text with
    | None => None
    | Some ls => all_some (map read_lines (split_docs ls))
    end.
End Stream.
