(* C11 - proofs about whole documents (Yaml/Doc.v). *)
From Verif Require Import Yaml.Scalar Yaml.Proofs Yaml.Literal Yaml.Style Yaml.Doc.
From Coq Require Import List NArith Bool Lia Arith PeanoNat.
Import ListNotations.
Open Scope N_scope.

(* induction over data with the nested lists *)
Section DataInd.
  Variable P : data -> Prop.
  Hypothesis HNull : P DNull.
  Hypothesis HBool : forall b, P (DBool b).
  Hypothesis HInt : forall t, P (DInt t).
  Hypothesis HFloat : forall t, P (DFloat t).
  Hypothesis HStr : forall s, P (DStr s).
  Hypothesis HBytes : forall b, P (DBytes b).
  Hypothesis HSeq : forall l, Forall P l -> P (DSeq l).
  Hypothesis HMap : forall l, Forall (fun kv => P (snd kv)) l -> P (DMap l).

  Fixpoint data_ind' (d : data) : P d :=
    match d with
    | DNull => HNull
    | DBool b => HBool b
    | DInt t => HInt t
    | DFloat t => HFloat t
    | DStr s => HStr s
    | DBytes b => HBytes b
    | DSeq l =>
      HSeq l ((fix go (l : list data) : Forall P l :=
                 match l with
                 | [] => Forall_nil _
                 | x :: r => Forall_cons x (data_ind' x) (go r)
                 end) l)
    | DMap l =>
      HMap l ((fix go (l : list (str * data)) : Forall (fun kv => P (snd kv)) l :=
                 match l with
                 | [] => Forall_nil _
                 | kv :: r => Forall_cons kv (data_ind' (snd kv)) (go r)
                 end) l)
    end.
End DataInd.

(* fuel the parser needs for the tokens of d *)
Fixpoint need (d : data) : nat :=
  match d with
  | DSeq l => S (fold_right (fun e n => S (need e + n)) 1%nat l)
  | DMap l => S (fold_right (fun kv n => S (need (snd kv) + n)) 1%nat l)
  | _ => 1%nat
  end.

(* what follows the tokens of a block at column c: nothing, or a token of an
   enclosing block (column < c) *)
Definition rest_lt (c : nat) (rest : list tok) : Prop :=
  match rest with
  | [] => True
  | TDash k :: _ => (k < c)%nat
  | TKey k _ :: _ => (k < c)%nat
  | TVal _ :: _ => False
  end.

Definition node_ok (d : data) : Prop :=
  forall fuel cmin c rest, (need d <= fuel)%nat -> (cmin <= c)%nat -> rest_lt c rest ->
    parse_node fuel cmin (emit_toks c d ++ rest) = Some (d, rest).

Lemma emit_toks_seq : forall c l, l <> [] ->
  emit_toks c (DSeq l) = flat_map (fun e => TDash c :: emit_toks (c + 2) e) l.
Proof. intros c [|x r] H; [congruence|reflexivity]. Qed.
Lemma emit_toks_map : forall c l, l <> [] ->
  emit_toks c (DMap l) = flat_map (fun kv => TKey c (fst kv) :: emit_toks (c + 2) (snd kv)) l.
Proof. intros c [|x r] H; [congruence|reflexivity]. Qed.

Lemma parse_seq_stop : forall f c rest, rest_lt c rest ->
  parse_seq (S f) c rest = Some ([], rest).
Proof.
  intros f c rest H. cbn [parse_seq]. destruct rest as [|[k|k key|d] r]; try reflexivity.
  cbn [rest_lt] in H. destruct (Nat.eqb k c) eqn:E; [apply Nat.eqb_eq in E; lia|reflexivity].
Qed.
Lemma parse_map_stop : forall f c rest, rest_lt c rest ->
  parse_map (S f) c rest = Some ([], rest).
Proof.
  intros f c rest H. cbn [parse_map]. destruct rest as [|[k|k key|d] r]; try reflexivity.
  cbn [rest_lt] in H. destruct (Nat.eqb k c) eqn:E; [apply Nat.eqb_eq in E; lia|reflexivity].
Qed.

Lemma parse_seq_emit : forall l, Forall node_ok l ->
  forall fuel c rest,
    (fold_right (fun e n => S (need e + n)) 1%nat l <= fuel)%nat -> rest_lt c rest ->
    parse_seq fuel c (flat_map (fun e => TDash c :: emit_toks (c + 2) e) l ++ rest) = Some (l, rest).
Proof.
  induction 1 as [|x l Hx Hl IH]; intros fuel c rest Hf Hr.
  - cbn [fold_right] in Hf. destruct fuel as [|f]; [lia|]. cbn [flat_map app]. apply parse_seq_stop; exact Hr.
  - cbn [fold_right] in Hf. destruct fuel as [|f]; [lia|].
    cbn [flat_map]. rewrite <- app_assoc. cbn [app parse_seq]. rewrite Nat.eqb_refl.
    rewrite (Hx f (S c) (c + 2)%nat); [|lia|lia|].
    + rewrite IH; [reflexivity|lia|exact Hr].
    + destruct l as [|y l'].
      * cbn [flat_map app]. destruct rest as [|[k|k key|d] r]; cbn [rest_lt] in *; auto; lia.
      * cbn [flat_map app rest_lt]. lia.
Qed.

Lemma parse_map_emit : forall l, Forall (fun kv => node_ok (snd kv)) l ->
  forall fuel c rest,
    (fold_right (fun kv n => S (need (snd kv) + n)) 1%nat l <= fuel)%nat -> rest_lt c rest ->
    parse_map fuel c (flat_map (fun kv => TKey c (fst kv) :: emit_toks (c + 2) (snd kv)) l ++ rest) = Some (l, rest).
Proof.
  induction 1 as [|x l Hx Hl IH]; intros fuel c rest Hf Hr.
  - cbn [fold_right] in Hf. destruct fuel as [|f]; [lia|]. cbn [flat_map app]. apply parse_map_stop; exact Hr.
  - cbn [fold_right] in Hf. destruct fuel as [|f]; [lia|].
    cbn [flat_map]. rewrite <- app_assoc. cbn [app parse_map]. rewrite Nat.eqb_refl.
    rewrite (Hx f (S c) (c + 2)%nat); [|lia|lia|].
    + rewrite IH; [destruct x; reflexivity|lia|exact Hr].
    + destruct l as [|y l'].
      * cbn [flat_map app]. destruct rest as [|[k|k key|d] r]; cbn [rest_lt] in *; auto; lia.
      * cbn [flat_map app rest_lt]. lia.
Qed.

Lemma leaf_ok : forall d, inline d = true -> emit_toks 0 d = [TVal d] -> need d = 1%nat \/ True ->
  (forall c, emit_toks c d = [TVal d]) -> node_ok d.
Proof.
  intros d _ _ _ He fuel cmin c rest Hf _ _. rewrite He.
  destruct fuel as [|f]; [destruct d; cbn in Hf; try lia; destruct l; cbn in Hf; lia|]. reflexivity.
Qed.

(* the block parser inverts the token layout, for every document and every column *)
Theorem parse_node_emit : forall d, node_ok d.
Proof.
  induction d using data_ind'; try (apply leaf_ok; auto; fail).
  - (* sequence *)
    destruct l as [|x l]; [apply leaf_ok; auto|].
    intros fuel cmin c rest Hf Hc Hr.
    rewrite emit_toks_seq by discriminate.
    destruct fuel as [|f]; [cbn in Hf; lia|].
    assert (Hhd : exists ts, flat_map (fun e => TDash c :: emit_toks (c + 2) e) (x :: l) ++ rest = TDash c :: ts).
    { cbn [flat_map app]. eexists. reflexivity. }
    destruct Hhd as [ts Ets]. cbn [parse_node]. rewrite Ets.
    replace (Nat.leb cmin c) with true by (symmetry; apply Nat.leb_le; lia).
    rewrite <- Ets. rewrite parse_seq_emit; auto. cbn [need] in Hf. lia.
  - (* mapping *)
    destruct l as [|x l]; [apply leaf_ok; auto|].
    intros fuel cmin c rest Hf Hc Hr.
    rewrite emit_toks_map by discriminate.
    destruct fuel as [|f]; [cbn in Hf; lia|].
    assert (Hhd : exists ts, flat_map (fun kv => TKey c (fst kv) :: emit_toks (c + 2) (snd kv)) (x :: l) ++ rest = TKey c (fst x) :: ts).
    { cbn [flat_map app]. eexists. reflexivity. }
    destruct Hhd as [ts Ets]. cbn [parse_node]. rewrite Ets.
    replace (Nat.leb cmin c) with true by (symmetry; apply Nat.leb_le; lia).
    rewrite <- Ets. rewrite parse_map_emit; auto. cbn [need] in Hf. lia.
Qed.

(* the fuel [parse_toks] gives is enough *)
Lemma need_le_toks : forall d c, (need d <= 3 * List.length (emit_toks c d))%nat.
Proof.
  induction d using data_ind'; intros c; try (cbn; lia).
  - destruct l as [|x l]; [cbn; lia|].
    rewrite emit_toks_seq by discriminate. cbn [need].
    assert (G : forall l, Forall (fun d => forall c, (need d <= 3 * List.length (emit_toks c d))%nat) l ->
              (fold_right (fun e n => S (need e + n)) 1%nat l
               <= 1 + 3 * List.length (flat_map (fun e => TDash c :: emit_toks (c + 2) e) l) - 2 * List.length l)%nat).
    { induction 1 as [|y l' Hy Hl' IH']; [cbn; lia|].
      cbn [fold_right flat_map]. rewrite app_length. cbn [List.length].
      specialize (Hy (c + 2)%nat).
      assert (2 * List.length l' <= 3 * List.length (flat_map (fun e => TDash c :: emit_toks (c + 2) e) l'))%nat.
      { clear. induction l'; cbn [flat_map List.length]; [lia|]. rewrite app_length. cbn [List.length]. lia. }
      lia. }
    specialize (G (x :: l) H). cbn [List.length] in G.
    assert (1 <= List.length (flat_map (fun e => TDash c :: emit_toks (c + 2) e) (x :: l)))%nat.
    { cbn [flat_map]. rewrite app_length. cbn [List.length]. lia. }
    assert (2 * List.length (x :: l) <= 3 * List.length (flat_map (fun e => TDash c :: emit_toks (c + 2) e) (x :: l)))%nat.
    { clear. induction (x :: l); cbn [flat_map List.length]; [lia|]. rewrite app_length. cbn [List.length]. lia. }
    cbn [List.length] in *. lia.
  - destruct l as [|x l]; [cbn; lia|].
    rewrite emit_toks_map by discriminate. cbn [need].
    assert (G : forall l, Forall (fun kv => forall c, (need (snd kv) <= 3 * List.length (emit_toks c (snd kv)))%nat) l ->
              (fold_right (fun kv n => S (need (snd kv) + n)) 1%nat l
               <= 1 + 3 * List.length (flat_map (fun kv => TKey c (fst kv) :: emit_toks (c + 2) (snd kv)) l) - 2 * List.length l)%nat).
    { induction 1 as [|y l' Hy Hl' IH']; [cbn; lia|].
      cbn [fold_right flat_map]. rewrite app_length. cbn [List.length].
      specialize (Hy (c + 2)%nat).
      assert (2 * List.length l' <= 3 * List.length (flat_map (fun kv => TKey c (fst kv) :: emit_toks (c + 2) (snd kv)) l'))%nat.
      { clear. induction l'; cbn [flat_map List.length]; [lia|]. rewrite app_length. cbn [List.length]. lia. }
      lia. }
    specialize (G (x :: l) H). cbn [List.length] in G.
    assert (1 <= List.length (flat_map (fun kv => TKey c (fst kv) :: emit_toks (c + 2) (snd kv)) (x :: l)))%nat.
    { cbn [flat_map]. rewrite app_length. cbn [List.length]. lia. }
    assert (2 * List.length (x :: l) <= 3 * List.length (flat_map (fun kv => TKey c (fst kv) :: emit_toks (c + 2) (snd kv)) (x :: l)))%nat.
    { clear. induction (x :: l); cbn [flat_map List.length]; [lia|]. rewrite app_length. cbn [List.length]. lia. }
    cbn [List.length] in *. lia.
Qed.

(* block structure round trip: for EVERY document *)
Theorem parse_emit_toks : forall d, parse_toks (emit_toks 0 d) = Some d.
Proof.
  intros d. unfold parse_toks.
  pose proof (parse_node_emit d (3 * List.length (emit_toks 0 d))%nat 0%nat 0%nat [] (need_le_toks d 0%nat) (le_n _) I) as H.
  rewrite app_nil_r in H. rewrite H. reflexivity.
Qed.

(* ... and in any column, in front of any continuation of an enclosing block
   (compositionality: a document embedded as a sub-node reads back in place) *)
Theorem parse_emit_toks_embedded : forall d c rest,
  rest_lt c rest ->
  parse_node (need d) 0 (emit_toks c d ++ rest) = Some (d, rest).
Proof.
  intros d c rest H. apply parse_node_emit; auto. lia.
Qed.

(* ------------------------------------------------------------------ *)
(* inline string values: what [read_value] makes of the encoder's text *)

Section Values.
  Variable is_print : N -> bool.
  Variable tok_number tok_isnumber tok_timestamp : str -> bool.
  Hypothesis print_not_break : forall c, is_print c = true -> is_break c = false.
  Hypothesis number_isnumber : forall t, tok_number t = true -> tok_isnumber t = true.

  Let choose := choose_style tok_number tok_isnumber tok_timestamp.

  (* a string written in a flow style (plain / single / double quoted) after
     "key: " or "- " reads back as that string, outside the classes of style_gap *)
  Theorem read_value_string_when : forall multi n s,
    Forall rune32 s ->
    choose false multi s <> Literal ->
    style_gap is_print false (choose false multi s) s = false ->
    read_value tok_number (emit is_print (choose false multi s) n s) = Some (DStr s).
  Proof.
    intros multi n s Hr Hl Hg. unfold read_value.
    pose proof (style_choice_safe_when is_print tok_number tok_isnumber tok_timestamp print_not_break
                  number_isnumber false multi false false 0%nat 1%nat s [c_nl] Hr (le_n _) (or_introl eq_refl) Hg) as R.
    unfold Style.emit_doc in R. fold choose in R.
    destruct (choose false multi s) eqn:E; try congruence;
      unfold emit in *; rewrite R; reflexivity.
  Qed.

  (* type preservation: whatever the string, its flow-style text never reads as
     null / bool / number / bytes / a collection *)
  Theorem read_value_string_type : forall multi n s d,
    Forall rune32 s ->
    choose false multi s <> Literal ->
    read_value tok_number (emit is_print (choose false multi s) n s) = Some d ->
    exists s', d = DStr s'.
  Proof.
    intros multi n s d Hr Hl H.
    destruct (choose false multi s) eqn:E; try congruence.
    - (* plain: no gap *)
      pose proof (read_value_string_when multi n s Hr) as R. fold choose in R. rewrite E in R.
      rewrite R in H by (congruence || reflexivity). inversion H. eauto.
    - unfold emit, emit_single_cue, read_value in H.
      destruct (read_any _ _ _ _ _ _) as [v|]; [inversion H; eauto|].
      cbn in H. discriminate.
    - unfold emit, emit_single_go, read_value in H.
      destruct (read_any _ _ _ _ _ _) as [v|]; [inversion H; eauto|].
      cbn in H. discriminate.
    - unfold emit, emit_double, read_value in H.
      destruct (read_any _ _ _ _ _ _) as [v|]; [inversion H; eauto|].
      cbn in H. discriminate.
  Qed.
End Values.

(* a literal block can only read as a string: [lex_lines] wraps the result of
   [parse_literal] in DStr (by construction); the token of any other line is
   produced by [read_value]. *)

Example doc_structure_example :
  emit_toks 0 (DMap [([97], DSeq [DSeq [DInt [49]]; DMap [([98], DSeq [])]]); ([99], DMap [])])
  = [TKey 0 [97]; TDash 2; TDash 4; TVal (DInt [49]); TDash 2; TKey 4 [98]; TVal (DSeq []); TKey 0 [99]; TVal (DMap [])].
Proof. vm_compute. reflexivity. Qed.
