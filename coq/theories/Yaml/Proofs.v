(* Proofs about the C11 model (Yaml/Scalar.v). *)
From Verif Require Import Yaml.Scalar.
From Coq Require Import List NArith Bool Lia ZifyBool ZifyN ZifyNat Arith.
Import ListNotations.
Open Scope N_scope.

(* ------------------------------------------------------------------ *)
(* basics                                                             *)

Lemma str_eqb_refl : forall a, str_eqb a a = true.
Proof. induction a; simpl; auto. rewrite N.eqb_refl. auto. Qed.

Lemma str_eqb_eq : forall a b, str_eqb a b = true <-> a = b.
Proof.
  induction a; destruct b; simpl; split; intro H; try congruence; auto.
  - apply andb_true_iff in H. destruct H as [H1 H2]. apply N.eqb_eq in H1. apply IHa in H2. congruence.
  - inversion H; subst. rewrite N.eqb_refl. simpl. apply IHa. auto.
Qed.

Lemma mem_chr_in : forall c l, mem_chr c l = true <-> In c l.
Proof.
  unfold mem_chr. intros. rewrite existsb_exists. split.
  - intros [x [Hin He]]. apply N.eqb_eq in He. subst. auto.
  - intro. exists c. split; auto. apply N.eqb_refl.
Qed.

(* ------------------------------------------------------------------ *)
(* hexadecimal escapes                                                *)

Lemma unhex_hex_digit : forall d, d < 16 -> unhex_digit (hex_digit d) = Some d.
Proof.
  intros d H. unfold hex_digit, unhex_digit, is_digit.
  destruct (d <? 10) eqn:E.
  - apply N.ltb_lt in E.
    assert (H0 : 48 <=? 48 + d = true) by (apply N.leb_le; lia).
    assert (H1 : 48 + d <=? 57 = true) by (apply N.leb_le; lia).
    rewrite H0, H1. cbn [andb]. f_equal. lia.
  - apply N.ltb_ge in E.
    assert (H0 : 48 <=? 87 + d = true) by (apply N.leb_le; lia).
    assert (H1 : 87 + d <=? 57 = false) by (apply N.leb_gt; lia).
    rewrite H0, H1. cbn [andb].
    assert (H2 : 97 <=? 87 + d = true) by (apply N.leb_le; lia).
    assert (H3 : 87 + d <=? 102 = true) by (apply N.leb_le; lia).
    rewrite H2, H3. cbn [andb]. f_equal. lia.
Qed.

Lemma unhex_hex_digits : forall k c r acc,
  unhex k (hex_digits k c ++ r) acc = Some (acc * 16 ^ N.of_nat k + c mod 16 ^ N.of_nat k, r).
Proof.
  induction k; intros c r acc.
  - simpl. rewrite N.mod_1_r. f_equal. f_equal. lia.
  - cbn [hex_digits unhex app].
    rewrite unhex_hex_digit by (apply N.mod_lt; lia).
    rewrite IHk. f_equal. f_equal.
    rewrite Nat2N.inj_succ, N.pow_succ_r'.
    set (b := 16 ^ N.of_nat k).
    assert (Hb : b <> 0) by (unfold b; apply N.pow_nonzero; lia).
    rewrite (N.mul_comm 16 b).
    rewrite (N.mod_mul_r c b 16) by lia.
    lia.
Qed.

Lemma unhex_hex_digits_lt : forall k c r,
  c < 16 ^ N.of_nat k -> unhex k (hex_digits k c ++ r) 0 = Some (c, r).
Proof.
  intros. rewrite unhex_hex_digits. rewrite N.mod_small by auto. f_equal.
Qed.

Lemma hex_digits_length : forall k c, List.length (hex_digits k c) = k.
Proof. induction k; simpl; auto. Qed.

(* ------------------------------------------------------------------ *)
(* double-quoted scalars                                              *)

Definition rune32 (c : N) : Prop := c < 4294967296.

Section Double.
  Variable is_print : N -> bool.
  (* printable runes are not line breaks (true of unicode.IsPrint) *)
  Hypothesis print_not_break : forall c, is_print c = true -> is_break c = false.

  Lemma esc_double_length : forall c, (1 <= List.length (esc_double is_print c))%nat.
  Proof.
    intro c. unfold esc_double.
    destruct ((c =? c_dq) || (c =? c_bs)); simpl; try lia.
    destruct (is_print c); simpl; try lia.
    unfold esc_common.
    repeat match goal with |- context [if ?b then _ else _] => destruct b; simpl; try lia end.
  Qed.

  Ltac const_case c H :=
    apply N.eqb_eq in H; subst c; reflexivity.

  (* one iteration of the reader consumes one escaped rune *)
  Lemma pd_loop_step : forall c tail acc f,
    rune32 c ->
    pd_loop (S f) (esc_double is_print c ++ tail) acc = pd_loop f tail (c :: acc).
  Proof.
    intros c tail acc f Hc.
    unfold esc_double.
    destruct ((c =? c_dq) || (c =? c_bs)) eqn:E1.
    - apply orb_true_iff in E1. destruct E1 as [E|E]; const_case c E.
    - apply orb_false_iff in E1. destruct E1 as [Ea Eb].
      destruct (is_print c) eqn:E2.
      + cbn [app pd_loop]. rewrite Ea, (print_not_break c E2), Eb. reflexivity.
      + unfold esc_common.
        destruct (c =? 7) eqn:C7; [const_case c C7|].
        destruct (c =? 8) eqn:C8; [const_case c C8|].
        destruct (c =? 12) eqn:C12; [const_case c C12|].
        destruct (c =? 10) eqn:C10; [const_case c C10|].
        destruct (c =? 13) eqn:C13; [const_case c C13|].
        destruct (c =? 9) eqn:C9; [const_case c C9|].
        destruct (c =? 11) eqn:C11; [const_case c C11|].
        destruct ((c <? 32) || (c =? 127)) eqn:Elow.
        * cbn [app pd_loop].
          change (c_bs =? c_dq) with false. change (is_break c_bs) with false.
          change (c_bs =? c_bs) with true. cbv iota.
          change (120 =? 120) with true. cbv iota.
          rewrite unhex_hex_digits_lt; [reflexivity|].
          change (16 ^ N.of_nat 2) with 256. apply orb_true_iff in Elow. destruct Elow; lia.
        * destruct (c <? 65536) eqn:E16.
          -- cbn [app pd_loop].
             change (c_bs =? c_dq) with false. change (is_break c_bs) with false.
             change (c_bs =? c_bs) with true. cbv iota.
             change (117 =? 120) with false. change (117 =? 117) with true. cbv iota.
             rewrite unhex_hex_digits_lt; [reflexivity|].
             change (16 ^ N.of_nat 4) with 65536. lia.
          -- cbn [app pd_loop].
             change (c_bs =? c_dq) with false. change (is_break c_bs) with false.
             change (c_bs =? c_bs) with true. cbv iota.
             change (85 =? 120) with false. change (85 =? 117) with false. change (85 =? 85) with true. cbv iota.
             rewrite unhex_hex_digits_lt; [reflexivity|].
             change (16 ^ N.of_nat 8) with 4294967296. exact Hc.
  Qed.

  Lemma pd_loop_emit : forall s rest acc f,
    Forall rune32 s ->
    (List.length (flat_map (esc_double is_print) s ++ c_dq :: rest) <= f)%nat ->
    pd_loop f (flat_map (esc_double is_print) s ++ c_dq :: rest) acc = Some (rev acc ++ s, rest).
  Proof.
    induction s as [|c s IH]; intros rest acc f Hs Hf.
    - cbn [flat_map app] in *. cbn [List.length] in Hf.
      destruct f as [|f]; [lia|]. cbn [pd_loop]. change (c_dq =? c_dq) with true. cbv iota.
      rewrite app_nil_r. reflexivity.
    - inversion Hs as [|? ? Hc Hs']; subst.
      cbn [flat_map] in *. rewrite <- app_assoc in *.
      rewrite app_length in Hf. pose proof (esc_double_length c).
      destruct f as [|f]; [lia|].
      rewrite pd_loop_step by assumption.
      rewrite IH; [|assumption|lia].
      cbn [rev]. rewrite <- app_assoc. reflexivity.
  Qed.

  (* every string (of runes below 2^32) written by strconv.Quote reads back *)
  Theorem double_roundtrip : forall s,
    Forall rune32 s -> parse_double (emit_double is_print s) = Some s.
  Proof.
    intros s Hs. unfold parse_double, emit_double.
    change (c_dq =? c_dq) with true. cbv iota.
    rewrite (pd_loop_emit s [] []); [reflexivity|assumption|lia].
  Qed.
End Double.
