(* C11: literal block scalars - the text written by the emitter reads back as
   the string exactly when [literal_ok] holds. *)
From Verif Require Import Yaml.Scalar Yaml.Proofs.
From Coq Require Import List NArith Bool Lia Arith.
Import ListNotations.
Open Scope N_scope.

Definition nl_free (l : str) : Prop := ~ In c_nl l.

Lemma split_nl_nonnil : forall s, split_nl s <> [].
Proof.
  induction s as [|c r IH]; simpl; try discriminate.
  destruct (c =? c_nl); try discriminate.
  destruct (split_nl r); discriminate.
Qed.

Lemma split_nl_cons_nl : forall r, split_nl (c_nl :: r) = [] :: split_nl r.
Proof. reflexivity. Qed.

Lemma split_nl_cons_other : forall c r, c <> c_nl ->
  exists l ls, split_nl r = l :: ls /\ split_nl (c :: r) = (c :: l) :: ls.
Proof.
  intros c r Hc. simpl. apply N.eqb_neq in Hc. rewrite Hc.
  destruct (split_nl r) as [|l ls] eqn:E.
  - exfalso. eapply split_nl_nonnil; eauto.
  - exists l, ls. auto.
Qed.

Lemma split_nl_nlfree : forall s, Forall nl_free (split_nl s).
Proof.
  induction s as [|c r IH].
  - simpl. constructor; [intro H; inversion H|constructor].
  - destruct (N.eq_dec c c_nl) as [->|Hc].
    + rewrite split_nl_cons_nl. constructor; auto. intro H; inversion H.
    + destruct (split_nl_cons_other c r Hc) as [l [ls [E1 E2]]]. rewrite E2. rewrite E1 in IH.
      inversion IH; subst. constructor; auto.
      intros [H|H]; [congruence|]. auto.
Qed.

Lemma join_nl_cons : forall l x xs, join_nl (l :: x :: xs) = l ++ c_nl :: join_nl (x :: xs).
Proof. reflexivity. Qed.

Lemma join_split : forall s, join_nl (split_nl s) = s.
Proof.
  induction s as [|c r IH].
  - reflexivity.
  - destruct (N.eq_dec c c_nl) as [->|Hc].
    + rewrite split_nl_cons_nl. destruct (split_nl r) as [|x xs] eqn:E.
      * exfalso. eapply split_nl_nonnil; eauto.
      * rewrite join_nl_cons. rewrite IH. reflexivity.
    + destruct (split_nl_cons_other c r Hc) as [l [ls [E1 E2]]]. rewrite E2. rewrite E1 in IH.
      destruct ls as [|x xs].
      * simpl in *. congruence.
      * rewrite join_nl_cons in *. cbn [app]. f_equal. exact IH.
Qed.

Lemma split_nl_single : forall l, nl_free l -> split_nl l = [l].
Proof.
  induction l as [|c r IH]; intro H.
  - reflexivity.
  - assert (Hc : c <> c_nl) by (intro; subst; apply H; left; auto).
    destruct (split_nl_cons_other c r Hc) as [l [ls [E1 E2]]]. rewrite E2.
    rewrite IH in E1 by (intro; apply H; right; auto). inversion E1; subst. reflexivity.
Qed.

Lemma split_nl_app : forall a b, split_nl (a ++ c_nl :: b) = split_nl a ++ split_nl b.
Proof.
  induction a as [|c r IH]; intro b.
  - reflexivity.
  - destruct (N.eq_dec c c_nl) as [->|Hc].
    + cbn [app]. rewrite !split_nl_cons_nl. rewrite IH. reflexivity.
    + cbn [app].
      destruct (split_nl_cons_other c r Hc) as [l [ls [E1 E2]]].
      destruct (split_nl_cons_other c (r ++ c_nl :: b) Hc) as [l' [ls' [E1' E2']]].
      rewrite E2, E2'. rewrite IH, E1 in E1'. cbn [app] in E1'. inversion E1'; subst. reflexivity.
Qed.

Lemma join_nl_snoc : forall L x, L <> [] -> join_nl (L ++ [x]) = join_nl L ++ c_nl :: x.
Proof.
  induction L as [|l L IH]; intros x H; [congruence|].
  destruct L as [|y ys].
  - reflexivity.
  - cbn [app]. rewrite join_nl_cons. change (y :: ys ++ [x]) with ((y :: ys) ++ [x]).
    rewrite IH by discriminate. rewrite join_nl_cons. rewrite <- app_assoc. reflexivity.
Qed.

Lemma split_join : forall L, L <> [] -> Forall nl_free L -> split_nl (join_nl L) = L.
Proof.
  induction L as [|l L IH]; intros Hne HF; [congruence|].
  inversion HF; subst.
  destruct L as [|y ys].
  - simpl. apply split_nl_single. auto.
  - rewrite join_nl_cons. rewrite split_nl_app. rewrite split_nl_single by auto.
    rewrite IH by (auto; discriminate). reflexivity.
Qed.

Lemma text_lines_join : forall L, L <> [] -> Forall nl_free L ->
  text_lines (join_nl L ++ [c_nl]) = Some L.
Proof.
  intros L Hne HF. unfold text_lines.
  rewrite split_nl_app. rewrite split_join by auto.
  cbn [split_nl]. rewrite rev_app_distr. cbn [rev app]. rewrite rev_involutive. reflexivity.
Qed.

(* ------------------------------------------------------------------ *)
(* blank handling                                                     *)

Lemma all_spaces_app : forall a b, all_spaces (a ++ b) = all_spaces a && all_spaces b.
Proof. intros. unfold all_spaces. apply forallb_app. Qed.

Lemma all_spaces_repeat : forall n, all_spaces (repeat c_sp n) = true.
Proof. induction n; simpl; auto. Qed.

Lemma count_sp_repeat : forall n l, count_sp (repeat c_sp n ++ l) = (n + count_sp l)%nat.
Proof. induction n; intro l; simpl; auto. Qed.

Lemma skipn_repeat : forall n (l : str), skipn n (repeat c_sp n ++ l) = l.
Proof. induction n; intro l; simpl; auto. Qed.

Lemma pad_line_blank : forall n l, all_spaces l = true -> pad_line n l = [].
Proof. intros. unfold pad_line. rewrite H. reflexivity. Qed.

Lemma pad_line_real : forall n l, all_spaces l = false -> pad_line n l = repeat c_sp n ++ l.
Proof. intros. unfold pad_line. rewrite H. reflexivity. Qed.

Lemma all_spaces_pad_real : forall n l, all_spaces l = false -> all_spaces (pad_line n l) = false.
Proof.
  intros. rewrite pad_line_real by auto. rewrite all_spaces_app, H. apply andb_false_r.
Qed.

Lemma nl_free_pad : forall n l, nl_free l -> nl_free (pad_line n l).
Proof.
  intros n l H. unfold pad_line. destruct (all_spaces l).
  - intro X; inversion X.
  - intro X. apply in_app_or in X. destruct X as [X|X]; auto.
    apply repeat_spec in X. discriminate.
Qed.

(* ------------------------------------------------------------------ *)
(* the reader on the lines written by the emitter                     *)

Lemma fci_pad : forall n L c l0,
  first_real L = Some (c :: l0) -> c <> c_sp ->
  first_content_indent (map (pad_line n) L) = Some n.
Proof.
  induction L as [|l L IH]; intros c l0 H Hc; [discriminate|].
  cbn [first_real map first_content_indent] in *.
  destruct (all_spaces l) eqn:E.
  - rewrite pad_line_blank by auto. cbn. eapply IH; eauto.
  - inversion H; subst. rewrite all_spaces_pad_real by auto.
    rewrite pad_line_real by auto. rewrite count_sp_repeat.
    cbn [count_sp]. apply N.eqb_neq in Hc. rewrite Hc. f_equal. lia.
Qed.

Lemma fci_pad_none : forall n L, first_real L = None ->
  first_content_indent (map (pad_line n) L) = None.
Proof.
  induction L as [|l L IH]; intro H; [reflexivity|].
  cbn [first_real map first_content_indent] in *.
  destruct (all_spaces l) eqn:E; [|discriminate].
  rewrite pad_line_blank by auto. cbn. auto.
Qed.

Lemma max_blank_pad : forall n L, max_blank_prefix (map (pad_line n) L) = O.
Proof.
  induction L as [|l L IH]; [reflexivity|].
  cbn [map max_blank_prefix].
  destruct (all_spaces l) eqn:E.
  - rewrite pad_line_blank by auto. cbn. auto.
  - rewrite all_spaces_pad_real by auto. reflexivity.
Qed.

Lemma lit_lines_pad : forall n L, lines_clean L = true ->
  lit_lines n (map (pad_line n) L) = Some L.
Proof.
  induction L as [|l L IH]; intro H; [reflexivity|].
  cbn [lines_clean forallb] in H. apply andb_true_iff in H. destruct H as [H1 H2].
  cbn [map lit_lines]. fold (lines_clean L) in H2. rewrite (IH H2).
  unfold lit_line.
  destruct (all_spaces l) eqn:E.
  - cbn [negb orb] in H1. destruct l; [|discriminate].
    rewrite pad_line_blank by auto. cbn. destruct n; reflexivity.
  - rewrite all_spaces_pad_real by auto. rewrite pad_line_real by auto.
    rewrite count_sp_repeat.
    replace (Nat.leb n (n + count_sp l)) with true by (symmetry; apply Nat.leb_le; lia).
    rewrite skipn_repeat. reflexivity.
Qed.

(* ------------------------------------------------------------------ *)
(* last lines and the chomping indicator                              *)

Lemma last_chr_app_cons : forall a c, last_chr (a ++ [c]) = Some c.
Proof. intros. unfold last_chr. rewrite rev_app_distr. reflexivity. Qed.

Lemma snoc_cases : forall (A : Type) (l : list A), l = [] \/ exists l' x, l = l' ++ [x].
Proof.
  intros A l. destruct (rev l) as [|x r] eqn:E.
  - left. apply (f_equal (@rev A)) in E. rewrite rev_involutive in E. auto.
  - right. exists (rev r), x. apply (f_equal (@rev A)) in E. rewrite rev_involutive in E. auto.
Qed.

Lemma ends_nl_snoc : forall s c, ends_nl (s ++ [c]) = (c =? c_nl).
Proof. intros. unfold ends_nl, ends_with_chr. rewrite last_chr_app_cons. reflexivity. Qed.

Lemma ends_nlnl_snoc : forall s c, ends_nlnl (s ++ [c]) = (c =? c_nl) && ends_nl s.
Proof.
  intros. unfold ends_nlnl, ends_nl, ends_with_chr, last_chr. rewrite rev_app_distr. cbn [rev app].
  destruct (rev s); [rewrite andb_false_r|]; reflexivity.
Qed.

Lemma split_nl_snoc_nl : forall s, split_nl (s ++ [c_nl]) = split_nl s ++ [[]].
Proof. intro. rewrite split_nl_app. reflexivity. Qed.

Lemma split_nl_snoc_other : forall s c, c <> c_nl ->
  exists L x, split_nl s = L ++ [x] /\ split_nl (s ++ [c]) = L ++ [x ++ [c]].
Proof.
  induction s as [|d r IH]; intros c Hc.
  - exists [], []. split; [reflexivity|]. cbn [app]. apply split_nl_single.
    intros [H|H]; [congruence|inversion H].
  - destruct (IH c Hc) as [L [x [E1 E2]]].
    destruct (N.eq_dec d c_nl) as [->|Hd].
    + cbn [app]. rewrite !split_nl_cons_nl. rewrite E1, E2. exists ([] :: L), x. split; reflexivity.
    + cbn [app].
      destruct (split_nl_cons_other d r Hd) as [l [ls [F1 F2]]].
      destruct (split_nl_cons_other d (r ++ [c]) Hd) as [l' [ls' [F1' F2']]].
      rewrite F2, F2'. rewrite E1 in F1. rewrite E2 in F1'.
      destruct L as [|y ys].
      * cbn [app] in *. injection F1 as <- <-. injection F1' as <- <-. exists [], (d :: x). split; reflexivity.
      * cbn [app] in *. injection F1 as <- <-. injection F1' as <- <-. exists ((d :: y) :: ys), x. split; reflexivity.
Qed.

Definition is_last_empty (y : str) (r : list str) : bool :=
  match y, r with [], [] => true | _, _ => false end.

Lemma dle_cons : forall x y r,
  drop_last_empty (x :: y :: r) =
  if is_last_empty y r then [x] else x :: drop_last_empty (y :: r).
Proof. intros. destruct y; destruct r; reflexivity. Qed.

Lemma is_last_empty_snoc : forall y ys x, is_last_empty y (ys ++ [x]) = false.
Proof. intros. destruct y; [destruct ys|]; reflexivity. Qed.

Lemma dle_snoc_empty : forall L, L <> [] -> drop_last_empty (L ++ [[]]) = L.
Proof.
  induction L as [|l L IH]; intro H; [congruence|].
  destruct L as [|y ys].
  - reflexivity.
  - change ((l :: y :: ys) ++ [[]]) with (l :: y :: (ys ++ [[]])).
    rewrite dle_cons, is_last_empty_snoc.
    change (y :: ys ++ [[]]) with ((y :: ys) ++ [[]]).
    rewrite IH by discriminate. reflexivity.
Qed.

Lemma dle_snoc_real : forall L x, x <> [] -> drop_last_empty (L ++ [x]) = L ++ [x].
Proof.
  induction L as [|l L IH]; intros x H.
  - reflexivity.
  - destruct L as [|y ys].
    + cbn. destruct x; [congruence|reflexivity].
    + change ((l :: y :: ys) ++ [x]) with (l :: y :: (ys ++ [x])).
      rewrite dle_cons, is_last_empty_snoc.
      change (y :: ys ++ [x]) with ((y :: ys) ++ [x]).
      rewrite IH by auto. reflexivity.
Qed.

Lemma first_real_snoc_empty : forall L, first_real (L ++ [[]]) = first_real L.
Proof.
  induction L as [|l L IH]; [reflexivity|].
  cbn [app first_real]. destruct (all_spaces l); auto.
Qed.

Lemma lines_clean_app : forall A B, lines_clean (A ++ B) = lines_clean A && lines_clean B.
Proof. intros. unfold lines_clean. apply forallb_app. Qed.

Lemma strip_trailing_real : forall L x, x <> [] -> strip_trailing_empty (L ++ [x]) = L ++ [x].
Proof.
  intros. unfold strip_trailing_empty. rewrite rev_app_distr. cbn [rev app].
  destruct x; [congruence|]. cbn [drop_trailing_empty_rev].
  change ((n :: x) :: rev L) with (rev [n :: x] ++ rev L). rewrite <- rev_app_distr. apply rev_involutive.
Qed.

Lemma keep_lines : forall t, flat_map (fun l => l ++ [c_nl]) (split_nl t) = t ++ [c_nl].
Proof.
  induction t as [|c r IH].
  - reflexivity.
  - destruct (N.eq_dec c c_nl) as [->|Hc].
    + rewrite split_nl_cons_nl. cbn [flat_map app]. rewrite IH. reflexivity.
    + destruct (split_nl_cons_other c r Hc) as [l [ls [E1 E2]]]. rewrite E2. rewrite E1 in IH.
      cbn [flat_map] in *. cbn [app]. rewrite <- app_assoc in *. cbn [app] in *. rewrite IH. reflexivity.
Qed.

(* ------------------------------------------------------------------ *)
(* carriage returns                                                   *)

Lemma in_join_nl : forall c L, In c (join_nl L) -> c = c_nl \/ exists l, In l L /\ In c l.
Proof.
  induction L as [|l L IH]; intro H; [inversion H|].
  destruct L as [|y ys].
  - right. exists l. split; [left; auto|auto].
  - rewrite join_nl_cons in H. apply in_app_or in H. destruct H as [H|[H|H]].
    + right. exists l. split; [left; auto|auto].
    + left. auto.
    + destruct (IH H) as [E|[l' [H1 H2]]]; [left; auto|]. right. exists l'. split; [right; auto|auto].
Qed.

Lemma in_split_nl : forall s l c, In l (split_nl s) -> In c l -> In c s.
Proof.
  intros s l c Hl Hc. rewrite <- (join_split s).
  revert Hl. generalize (split_nl s). induction l0 as [|x L IH]; intro Hl; [inversion Hl|].
  destruct L as [|y ys].
  - destruct Hl as [->|[]]. exact Hc.
  - rewrite join_nl_cons. apply in_or_app. destruct Hl as [->|Hl]; [left; auto|].
    right. right. apply IH. auto.
Qed.

Lemma in_dle : forall L l, In l (drop_last_empty L) -> In l L.
Proof.
  induction L as [|x L IH]; intros l H; [inversion H|].
  cbn [drop_last_empty] in H. destruct L as [|y ys]; [exact H|].
  destruct y as [|a y'].
  - destruct ys.
    + destruct H as [->|[]]. left; auto.
    + destruct H as [->|H]; [left; auto|right; apply IH; exact H].
  - destruct H as [->|H]; [left; auto|right; apply IH; exact H].
Qed.

Lemma no_cr_emit : forall n s, mem_chr c_cr s = false -> mem_chr c_cr (emit_literal n s) = false.
Proof.
  intros n s H.
  destruct (mem_chr c_cr (emit_literal n s)) eqn:E; [|reflexivity].
  exfalso. apply mem_chr_in in E.
  assert (Hs : ~ In c_cr s) by (intro X; apply mem_chr_in in X; congruence).
  unfold emit_literal in E. apply in_app_or in E. destruct E as [E|E].
  - destruct (literal_chomp s); cbn in E; intuition discriminate.
  - destruct E as [E|E]; [discriminate|].
    apply in_app_or in E. destruct E as [E|E]; [|destruct E as [E|[]]; discriminate].
    apply in_join_nl in E. destruct E as [E|[l [H1 H2]]]; [discriminate|].
    unfold literal_lines in H1. apply in_map_iff in H1. destruct H1 as [l0 [<- H1]].
    apply in_dle in H1.
    unfold pad_line in H2. destruct (all_spaces l0); [inversion H2|].
    apply in_app_or in H2. destruct H2 as [H2|H2].
    + apply repeat_spec in H2. discriminate.
    + apply Hs. eapply in_split_nl; eauto.
Qed.

(* ------------------------------------------------------------------ *)
(* reading the emitted block                                          *)

Lemma parse_header_chomp : forall ch body,
  parse_header (chomp_text ch ++ c_nl :: body) = Some (ch, body).
Proof. intros [] body; reflexivity. Qed.

Lemma all_empty_of_none : forall L, lines_clean L = true -> first_real L = None ->
  Forall (fun l => l = []) L.
Proof.
  induction L as [|l L IH]; intros H1 H2; [constructor|].
  cbn [lines_clean forallb first_real] in *. apply andb_true_iff in H1. destruct H1 as [Ha Hb].
  destruct (all_spaces l) eqn:E; [|discriminate].
  cbn in Ha. destruct l; [|discriminate]. constructor; auto.
Qed.

Lemma map_const_empty : forall (L : list str) (M : list str),
  Forall (fun l => l = []) L -> List.length M = List.length L -> map (fun _ : str => ([] : str)) M = L.
Proof.
  induction L as [|l L IH]; intros M H Hl; destruct M; try discriminate; [reflexivity|].
  inversion H; subst. cbn. f_equal. apply IH; auto.
Qed.

(* the lines L written at indentation n read back as L *)
Lemma read_block : forall n p root ch L t,
  L <> [] -> Forall nl_free L -> lines_clean L = true ->
  mem_chr c_cr t = false ->
  t = chomp_text ch ++ c_nl :: join_nl (map (pad_line n) L) ++ [c_nl] ->
  (p < n)%nat ->
  match first_real L with
  | Some (c :: _) => c <> c_sp
  | Some [] => False
  | None => True
  end ->
  parse_literal p root t = Some (apply_chomp ch L).
Proof.
  intros n p root ch L t Hne Hfree Hclean Hcr -> Hpn Hfirst.
  unfold parse_literal. rewrite Hcr. rewrite parse_header_chomp.
  rewrite text_lines_join.
  2:{ destruct L; [congruence|discriminate]. }
  2:{ apply Forall_forall. intros x Hx. apply in_map_iff in Hx. destruct Hx as [l [<- Hl]].
      apply nl_free_pad. eapply Forall_forall in Hfree; eauto. }
  destruct (first_real L) as [[|c l0]|] eqn:E.
  - contradiction.
  - rewrite (fci_pad n L c l0 E Hfirst).
    replace (if root then Nat.leb p n else Nat.ltb p n) with true.
    2:{ destruct root; symmetry; [apply Nat.leb_le|apply Nat.ltb_lt]; lia. }
    cbn [negb]. rewrite max_blank_pad.
    replace (Nat.ltb n 0) with false by (symmetry; apply Nat.ltb_ge; lia).
    rewrite lit_lines_pad by auto. reflexivity.
  - rewrite fci_pad_none by auto.
    rewrite (map_const_empty L); [reflexivity| |apply map_length].
    apply all_empty_of_none; auto.
Qed.

(* ------------------------------------------------------------------ *)
(* main theorem                                                       *)

Lemma literal_chomp_cases : forall s,
  literal_chomp s = if ends_nlnl s then Keep else if ends_nl s then Clip else Strip.
Proof. reflexivity. Qed.

Lemma first_cond : forall L e,
  match first_real L with
  | Some (c :: _) => negb (c =? c_sp)
  | Some [] => false
  | None => e
  end = true ->
  match first_real L with
  | Some (c :: _) => c <> c_sp
  | Some [] => False
  | None => True
  end.
Proof.
  intros L e H. destruct (first_real L) as [[|c l]|]; auto; try discriminate.
  apply negb_true_iff in H. apply N.eqb_neq in H. auto.
Qed.

Theorem literal_roundtrip_when : forall n p root s,
  literal_ok s = true -> (p < n)%nat ->
  parse_literal p root (emit_literal n s) = Some s.
Proof.
  intros n p root s Hok Hpn.
  unfold literal_ok in Hok. apply andb_true_iff in Hok. destruct Hok as [Hok Hfirst].
  apply andb_true_iff in Hok. destruct Hok as [Hcr Hclean].
  apply negb_true_iff in Hcr.
  pose proof (no_cr_emit n s Hcr) as Hcr'.
  destruct (snoc_cases _ s) as [->|[s' [c ->]]].
  - (* empty string: not literal_ok *)
    cbn in Hfirst. discriminate.
  - destruct (N.eq_dec c c_nl) as [->|Hc].
    + (* s ends with a newline *)
      assert (Hsplit : split_nl (s' ++ [c_nl]) = split_nl s' ++ [[]]) by apply split_nl_snoc_nl.
      assert (Hdle : drop_last_empty (split_nl (s' ++ [c_nl])) = split_nl s').
      { rewrite Hsplit. apply dle_snoc_empty. apply split_nl_nonnil. }
      rewrite Hsplit in Hclean, Hfirst.
      rewrite lines_clean_app in Hclean. apply andb_true_iff in Hclean. destruct Hclean as [Hclean _].
      rewrite first_real_snoc_empty in Hfirst.
      rewrite ends_nlnl_snoc in Hfirst. change (c_nl =? c_nl) with true in Hfirst. cbn [andb] in Hfirst.
      destruct (ends_nl s') eqn:E.
      * (* "|+" *)
        rewrite (read_block n p root Keep (split_nl s') (emit_literal n (s' ++ [c_nl]))); auto.
        -- cbn [apply_chomp]. rewrite keep_lines. reflexivity.
        -- apply split_nl_nonnil.
        -- apply split_nl_nlfree.
        -- unfold emit_literal, literal_lines. rewrite Hdle.
           rewrite literal_chomp_cases, ends_nlnl_snoc, E. reflexivity.
        -- eapply first_cond; eauto.
      * (* "|" *)
        assert (Hreal : exists L2 y, split_nl s' = L2 ++ [y] /\ y <> []).
        { destruct (snoc_cases _ s') as [->|[s2 [d ->]]].
          - cbn in Hfirst. discriminate.
          - rewrite ends_nl_snoc in E. apply N.eqb_neq in E.
            destruct (split_nl_snoc_other s2 d E) as [L2 [x [_ E2]]].
            exists L2, (x ++ [d]). split; auto. destruct x; discriminate. }
        destruct Hreal as [L2 [y [HL Hy]]].
        rewrite (read_block n p root Clip (split_nl s') (emit_literal n (s' ++ [c_nl]))); auto.
        -- cbn [apply_chomp]. rewrite HL. rewrite strip_trailing_real by auto.
           assert (Hj : join_nl (L2 ++ [y]) = s') by (rewrite <- HL; apply join_split).
           destruct L2 as [|a L2']; cbn [app] in *; (f_equal; f_equal; exact Hj).
        -- apply split_nl_nonnil.
        -- apply split_nl_nlfree.
        -- unfold emit_literal, literal_lines. rewrite Hdle.
           rewrite literal_chomp_cases, ends_nlnl_snoc, E, ends_nl_snoc. reflexivity.
        -- eapply first_cond; eauto.
    + (* s does not end with a newline: "|-" *)
      destruct (split_nl_snoc_other s' c Hc) as [L [x [_ E2]]].
      assert (Hx : x ++ [c] <> []) by (destruct x; discriminate).
      assert (Hdle : drop_last_empty (split_nl (s' ++ [c])) = split_nl (s' ++ [c])).
      { rewrite E2. apply dle_snoc_real. auto. }
      assert (Enl : ends_nl (s' ++ [c]) = false) by (rewrite ends_nl_snoc; apply N.eqb_neq; auto).
      assert (Enn : ends_nlnl (s' ++ [c]) = false).
      { rewrite ends_nlnl_snoc. apply N.eqb_neq in Hc. rewrite Hc. reflexivity. }
      rewrite (read_block n p root Strip (split_nl (s' ++ [c])) (emit_literal n (s' ++ [c]))); auto.
      * cbn [apply_chomp]. rewrite E2. rewrite strip_trailing_real by auto.
        assert (Hj : join_nl (L ++ [x ++ [c]]) = s' ++ [c]) by (rewrite <- E2; apply join_split).
        f_equal. exact Hj.
      * apply split_nl_nonnil.
      * apply split_nl_nlfree.
      * unfold emit_literal, literal_lines. rewrite Hdle.
        rewrite literal_chomp_cases, Enn, Enl. reflexivity.
      * eapply first_cond; eauto.
Qed.

(* ------------------------------------------------------------------ *)
(* what blockLiteralSafe guarantees, and what it does not             *)

Lemma last_chr_cons : forall c r,
  last_chr (c :: r) = match last_chr r with Some d => Some d | None => Some c end.
Proof. intros. unfold last_chr. cbn [rev]. destruct (rev r); reflexivity. Qed.

Lemma last_chr_none : forall r, last_chr r = None -> r = [].
Proof.
  intros r H. unfold last_chr in H. destruct (rev r) eqn:E; [|discriminate].
  apply (f_equal (@rev N)) in E. rewrite rev_involutive in E. exact E.
Qed.

Lemma all_spaces_last : forall l, all_spaces l = true -> l <> [] -> last_chr l = Some c_sp.
Proof.
  induction l as [|c r IH]; intros H Hne; [congruence|].
  cbn [all_spaces forallb] in H. apply andb_true_iff in H. destruct H as [H1 H2].
  apply N.eqb_eq in H1. subst c. rewrite last_chr_cons.
  destruct r as [|d r'].
  - reflexivity.
  - rewrite IH; auto. discriminate.
Qed.

Lemma no_trailing_space_lines : forall s,
  contains [c_sp; c_nl] s = false -> ends_with_chr c_sp s = false ->
  Forall (fun l => last_chr l <> Some c_sp) (split_nl s).
Proof.
  induction s as [|c r IH]; intros Hc He.
  - constructor; [discriminate|constructor].
  - cbn [contains] in Hc. apply orb_false_iff in Hc. destruct Hc as [Hp Hc].
    assert (Her : ends_with_chr c_sp r = false).
    { unfold ends_with_chr in *. rewrite last_chr_cons in He. destruct (last_chr r); auto. }
    specialize (IH Hc Her).
    destruct (N.eq_dec c c_nl) as [->|Hnl].
    + rewrite split_nl_cons_nl. constructor; auto. discriminate.
    + destruct (split_nl_cons_other c r Hnl) as [l [ls [E1 E2]]]. rewrite E2. rewrite E1 in IH.
      inversion IH as [|? ? Hl Hls]; subst. constructor; auto.
      rewrite last_chr_cons. destruct (last_chr l) eqn:El.
      * exact Hl.
      * apply last_chr_none in El. subst l.
        intro Hsp. injection Hsp as ->.
        destruct r as [|d r'].
        -- unfold ends_with_chr in He. cbn in He. discriminate.
        -- destruct (N.eq_dec d c_nl) as [->|Hd].
           ++ cbn in Hp. discriminate.
           ++ destruct (split_nl_cons_other d r' Hd) as [l2 [ls2 [_ F2]]]. rewrite F2 in E1. discriminate.
Qed.

Lemma lines_clean_of_safe : forall s,
  contains [c_sp; c_nl] s = false -> ends_with_chr c_sp s = false ->
  lines_clean (split_nl s) = true.
Proof.
  intros s H1 H2. pose proof (no_trailing_space_lines s H1 H2) as HF.
  unfold lines_clean. apply forallb_forall. intros l Hl.
  eapply Forall_forall in HF; eauto.
  destruct (all_spaces l) eqn:E; [|reflexivity]. cbn [negb orb].
  destruct l; [reflexivity|]. exfalso. apply HF. apply all_spaces_last; auto. discriminate.
Qed.

Lemma first_real_not_blank : forall L l, first_real L = Some l -> all_spaces l = false.
Proof.
  induction L as [|x L IH]; intros l H; [discriminate|].
  cbn [first_real] in H. destruct (all_spaces x) eqn:E; [auto|]. injection H as <-. exact E.
Qed.

Lemma join_all_empty : forall L, Forall (fun l : str => l = []) L ->
  join_nl L = repeat c_nl (List.length L - 1).
Proof.
  induction L as [|l L IH]; intro H; [reflexivity|].
  inversion H; subst. destruct L as [|y ys].
  - reflexivity.
  - rewrite join_nl_cons. rewrite IH by auto. cbn [List.length]. cbn [app].
    replace (S (S (List.length ys)) - 1)%nat with (S (S (List.length ys) - 1))%nat by lia.
    reflexivity.
Qed.

Lemma repeat_snoc : forall (c : N) k, repeat c (S k) = repeat c k ++ [c].
Proof. induction k; [reflexivity|]. cbn [repeat app] in *. rewrite <- IHk. reflexivity. Qed.

Lemma unprintable_cr : forall s, yaml_unprintable s = false -> mem_chr c_cr s = false.
Proof.
  intros s H. destruct (mem_chr c_cr s) eqn:E; [|reflexivity].
  apply mem_chr_in in E. unfold yaml_unprintable in H.
  assert (existsb rune_unprintable s = true) by (apply existsb_exists; exists c_cr; split; [auto|reflexivity]).
  congruence.
Qed.

(* blockLiteralSafe implies literal_ok except for the two classes of literal_gap *)
Theorem literal_safe_gap : forall s,
  block_literal_safe s = true -> literal_ok s = false -> literal_gap s = true.
Proof.
  intros s Hsafe Hnok.
  unfold block_literal_safe in Hsafe. destruct s as [|c0 r0]; [discriminate|].
  set (s := c0 :: r0) in *.
  apply andb_true_iff in Hsafe. destruct Hsafe as [Hsafe Hunp].
  apply andb_true_iff in Hsafe. destruct Hsafe as [_ Hsp].
  apply negb_true_iff in Hunp. apply negb_true_iff in Hsp.
  apply orb_false_iff in Hsp. destruct Hsp as [Hc He].
  unfold literal_ok in Hnok.
  rewrite (unprintable_cr s Hunp) in Hnok. rewrite (lines_clean_of_safe s Hc He) in Hnok.
  cbn [negb andb] in Hnok.
  unfold literal_gap.
  destruct (first_real (split_nl s)) as [[|c l]|] eqn:E.
  - apply first_real_not_blank in E. discriminate.
  - apply negb_false_iff in Hnok. rewrite Hnok. apply orb_true_r.
  - (* only empty lines *)
    assert (Hall : Forall (fun l : str => l = []) (split_nl s)).
    { apply all_empty_of_none; auto. apply lines_clean_of_safe; auto. }
    pose proof (join_all_empty _ Hall) as Hj. rewrite join_split in Hj.
    destruct (List.length (split_nl s) - 1)%nat as [|[|k]] eqn:Ek.
    + discriminate.
    + rewrite Hj. reflexivity.
    + exfalso. rewrite Hj in Hnok.
      rewrite (repeat_snoc c_nl (S k)) in Hnok. rewrite ends_nlnl_snoc in Hnok.
      rewrite (repeat_snoc c_nl k) in Hnok. rewrite ends_nl_snoc in Hnok. discriminate.
Qed.
