(* Witnesses (refutations) and non-vacuity examples for the C11 model.
   The oracles are instantiated with the values the implementation's libraries
   give on the witness strings (checked on every run: the witnesses are part of
   the harness corpus): no witness is a number or a timestamp, and the only
   non-printable rune used is U+00A0. *)
From Verif Require Import Yaml.Scalar Yaml.Proofs Yaml.Literal Yaml.Style.
From Coq Require Import List NArith Bool String.
Import ListNotations.
Open Scope N_scope.

Definition ex_print (c : N) : bool := (32 <=? c) && (c <? 127) || (161 <=? c).
Definition ex_no (_ : str) : bool := false.
Definition ex_choose := choose_style ex_no ex_no ex_no.
Definition ex_read := read_any ex_no.
Definition ex_doc := emit_doc ex_print.

Lemma ex_print_not_break : forall c, ex_print c = true -> is_break c = false.
Proof.
  intros c H. unfold is_break. destruct (c =? c_nl) eqn:E1; [apply N.eqb_eq in E1; subst; discriminate|].
  destruct (c =? c_cr) eqn:E2; [apply N.eqb_eq in E2; subst; discriminate|]. reflexivity.
Qed.

Lemma ex_number_isnumber : forall t, ex_no t = true -> ex_no t = true.
Proof. auto. Qed.

Lemma oracle_hypotheses_inhabited :
  (forall c, ex_print c = true -> is_break c = false) /\ (forall t, ex_no t = true -> ex_no t = true).
Proof. exact (conj ex_print_not_break ex_number_isnumber). Qed.

Definition nl1 : str := [c_nl].
Definition val_suffix : str := [c_nl].
Definition key_suffix : str := s_ ": 1
".

(* F4: the string "\n" as a map value: literal style with header "|", reads back as "" *)
Lemma literal_refuted_newline :
  block_literal_safe nl1 = true /\
  ex_choose false true nl1 = Literal /\
  ex_doc Literal 2 nl1 val_suffix = s_ "|

" /\
  ex_read 0 false false val_suffix (ex_doc Literal 2 nl1 val_suffix) = Some [] /\
  literal_ok nl1 = false /\ literal_gap nl1 = true.
Proof. repeat split; vm_compute; reflexivity. Qed.

(* "\n a": the first content line starts with a blank; the reader takes the
   block's indentation from it *)
Definition nl_sp_a : str := s_ "
 a".
Lemma literal_refuted_space :
  block_literal_safe nl_sp_a = true /\
  ex_choose false true nl_sp_a = Literal /\
  ex_read 0 false false val_suffix (ex_doc Literal 2 nl_sp_a val_suffix) = Some (s_ "
a") /\
  literal_ok nl_sp_a = false /\ literal_gap nl_sp_a = true.
Proof. repeat split; vm_compute; reflexivity. Qed.

(* C11-dots-root / C11-reader-dots (fixed): a string starting with the document
   end marker is double quoted in every position and reads back *)
Definition dots : str := s_ "...".
Lemma dots_quoted :
  ex_choose false false dots = Double /\ ex_choose true false dots = Double /\
  ex_choose true false (s_ "...a") = Double /\ ex_choose false false (s_ "... x") = Double /\
  ex_read 0 true true val_suffix (ex_doc Double 2 dots val_suffix) = Some dots /\
  ex_read 0 false true key_suffix (ex_doc Double 2 (s_ "...a") key_suffix) = Some (s_ "...a").
Proof. repeat split; vm_compute; reflexivity. Qed.

(* "#" followed by U+00A0: goccy quotes with single quotes and Go escapes *)
Definition hash_nbsp : str := [c_hash; 160].
Lemma style_choice_refuted_nbsp :
  ex_choose false false hash_nbsp = SingleGo /\
  style_gap ex_print false SingleGo hash_nbsp = true /\
  ex_doc SingleGo 2 hash_nbsp val_suffix = s_ "'#\u00a0'
" /\
  ex_read 0 false false val_suffix (ex_doc SingleGo 2 hash_nbsp val_suffix) = Some (s_ "#\u00a0").
Proof. repeat split; vm_compute; reflexivity. Qed.

(* "? " followed by a carriage return: cue's singleQuoted writes the break raw *)
Definition qm_cr : str := [c_qm; c_sp; c_cr].
Lemma style_choice_refuted_cr :
  ex_choose false false qm_cr = SingleCue /\
  style_gap ex_print false SingleCue qm_cr = true /\
  ex_read 0 false false val_suffix (ex_doc SingleCue 2 qm_cr val_suffix) = None.
Proof. repeat split; vm_compute; reflexivity. Qed.

(* non-vacuity: the hypotheses of the conditional theorems are met by ordinary strings *)
Definition multi_ex : str := s_ "key: value
  indented # not a comment

last".
Example literal_ok_example :
  literal_ok multi_ex = true /\ ex_choose false true multi_ex = Literal /\
  ex_read 2 false false val_suffix (ex_doc Literal 4 multi_ex val_suffix) = Some multi_ex.
Proof. repeat split; vm_compute; reflexivity. Qed.

Example literal_keep_example :
  literal_ok (s_ "a

") = true /\ literal_ok [c_nl; c_nl] = true /\
  ex_read 0 true false val_suffix (ex_doc Literal 2 [c_nl; c_nl] val_suffix) = Some [c_nl; c_nl].
Proof. repeat split; vm_compute; reflexivity. Qed.

Example plain_ok_example :
  plain_ok true (s_ "http://a.b/c?d=e#f") = true /\
  ex_choose true false (s_ "-a:b") = Plain /\ plain_ok true (s_ "-a:b") = true /\
  ex_read 0 false true key_suffix (ex_doc Plain 2 (s_ "-a:b") key_suffix) = Some (s_ "-a:b").
Proof. repeat split; vm_compute; reflexivity. Qed.

Example styles_example :
  ex_choose false false (s_ "yes") = Double /\ ex_choose false false (s_ "1e3") = Double /\
  ex_choose false false (s_ "2001-12-14") = Double /\ ex_choose false false (s_ "a: b") = SingleGo /\
  ex_choose false false (s_ "? x") = SingleCue /\ ex_choose true false (s_ "a
b") = Double /\
  ex_choose false false (s_ "plain text") = Plain /\ ex_choose false false [] = Double.
Proof. repeat split; vm_compute; reflexivity. Qed.

Example gap_false_example :
  style_gap ex_print true (ex_choose true false (s_ "a b")) (s_ "a b") = false /\
  style_gap ex_print false (ex_choose false false (s_ "it's")) (s_ "it's") = false.
Proof. split; vm_compute; reflexivity. Qed.

(* reader deviations of the pinned tree (Yaml/Scalar.v): the YAML reading is right, the
   implementation's reader differs *)
Example deviation_examples :
  ex_read 0 false true key_suffix (s_ "...: 1
") = Some (s_ "...") /\ quirk_dots true true (s_ "...") = true /\
  ex_read 0 false true key_suffix (s_ "...a: 1
") = Some (s_ "...a") /\ quirk_dots true true (s_ "...a") = true /\
  ex_read 0 false true key_suffix (s_ "a<<: 1
") = Some (s_ "a<<") /\ quirk_merge true true (s_ "a<<") = true /\
  parse_literal 0 false (s_ "|-

  	a
  b
") = Some (s_ "
	a
b") /\ goccy_literal (s_ "|-

  	a
  b
") = None /\
  quirk_blank_followed true true [c_nl; c_nl] = true.
Proof. repeat split; vm_compute; reflexivity. Qed.

(* JSON scalars under the YAML reading *)
Definition json_simple_escape (c : N) : option N :=
  if c =? 34 then Some 34 else if c =? 92 then Some 92 else if c =? 47 then Some 47
  else if c =? 98 then Some 8 else if c =? 102 then Some 12 else if c =? 110 then Some 10
  else if c =? 114 then Some 13 else if c =? 116 then Some 9 else None.

Lemma json_escapes_same : forall e v, json_simple_escape e = Some v -> simple_escape e = Some v.
Proof.
  intros e v H. unfold json_simple_escape in H.
  repeat match type of H with
         | (if ?b then _ else _) = _ =>
           let E := fresh "E" in destruct b eqn:E; [apply N.eqb_eq in E; subst e; exact H|]
         end.
  discriminate.
Qed.

Lemma json_literals_resolve : forall tok_number,
  resolve_plain tok_number (s_ "true") = TBool /\ resolve_plain tok_number (s_ "false") = TBool /\
  resolve_plain tok_number (s_ "null") = TNull.
Proof. intro. repeat split; reflexivity. Qed.
