(* Witnesses and non-vacuity examples for the C11 model. *)
From Verif Require Import Yaml.Scalar.
From Coq Require Import List NArith Bool String.
Import ListNotations.
Open Scope N_scope.

Section Ex.
  (* any oracles *)
  Variable is_print : N -> bool.
  Variable tok_number tok_isnumber tok_timestamp : str -> bool.

  (* F4: the string "\n" is written as a clip-chomped literal block and reads back empty *)
  Lemma literal_refuted_newline :
    block_literal_safe [c_nl] = true /\
    value_style tok_number tok_isnumber tok_timestamp true [c_nl] = Literal /\
    emit_literal 2 [c_nl] = s_ "|

" /\
    parse_literal 0 false (emit_literal 2 [c_nl]) = Some [].
  Proof. repeat split; vm_compute; reflexivity. Qed.
End Ex.
