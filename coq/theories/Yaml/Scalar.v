(* C11 - YAML scalars: how cue's YAML encoder picks a scalar style, what text the
   emitter writes for it, and what a YAML reader makes of that text.

   Strings are lists of Unicode code points ([list N]); the domain of the
   property is valid UTF-8 (CUE strings), so bytes that are not UTF-8 are not
   modelled.

   Implementation modelled (the default encoder of the pinned tree, selected by
   cueexperiment.Flags.YAMLGoccy):
     /repo/internal/encoding/yaml/goccy/encode.go
         encodeScalar, quoteScalar, needsSingleQuoting, shouldQuote, yamlUnprintable,
         blockLiteralSafe, decodesAsNonString, legacyStrings, useQuote, rxAnyOctalYaml11,
         key handling of encodeDecls, stripBlankLinePadding
     /repo/internal/encoding/yaml/goccy/decode.go
         scalarString, numberKind, rxYamlInt, rxYamlFloat, specialFloats
     /repo/cue/literal/quote.go  (Form.Append: a string is written as a
         multi-line literal iff it contains a newline)
   third party, modelled and validated by the correspondence only:
     github.com/goccy/go-yaml  token.IsNeedQuoted, token.New (reserved words),
         token.LiteralBlockHeader, ast.StringNode.String (literal layout),
         quoteWith (single quotes with Go escapes), strconv.Quote
   Oracles (Section variables, instantiated per case from the implementation's
   own libraries): unicode.IsPrint, token.ToNumber(..) != nil, token.isNumber,
   token.isTimestamp.

   The reading side ([parse_double], [parse_single], [parse_literal],
   [scan_plain]) is the YAML 1.2 presentation semantics of the four scalar
   styles restricted to what the emitter produces: single-line flow scalars
   (no folding) and literal blocks without explicit indentation indicator. *)
From Coq Require Export List NArith Bool String Ascii.
Export ListNotations.
Open Scope N_scope.

Definition str := list N.

(* string literals for tables *)
Definition s_ (x : string) : str := map N_of_ascii (list_ascii_of_string x).

Fixpoint str_eqb (a b : str) : bool :=
  match a, b with
  | [], [] => true
  | x :: a', y :: b' => (x =? y) && str_eqb a' b'
  | _, _ => false
  end.

Definition mem_str (s : str) (l : list str) : bool := existsb (str_eqb s) l.
Definition mem_chr (c : N) (l : str) : bool := existsb (N.eqb c) l.

Fixpoint is_prefix (p s : str) : bool :=
  match p, s with
  | [], _ => true
  | x :: p', y :: s' => (x =? y) && is_prefix p' s'
  | _ :: _, [] => false
  end.

(* strings.Contains *)
Fixpoint contains (p s : str) : bool :=
  is_prefix p s || match s with [] => false | _ :: r => contains p r end.

Definition last_chr (s : str) : option N :=
  match rev s with [] => None | c :: _ => Some c end.

Definition ends_with_chr (c : N) (s : str) : bool :=
  match last_chr s with Some d => d =? c | None => false end.

Definition c_tab := 9. Definition c_nl := 10. Definition c_cr := 13. Definition c_sp := 32.
Definition c_dq := 34. Definition c_hash := 35. Definition c_sq := 39. Definition c_plus := 43.
Definition c_minus := 45. Definition c_dot := 46. Definition c_colon := 58. Definition c_qm := 63.
Definition c_bs := 92. Definition c_us := 95. Definition c_bar := 124.

Definition is_digit (c : N) : bool := (48 <=? c) && (c <=? 57).
Definition is_hex (c : N) : bool :=
  is_digit c || ((97 <=? c) && (c <=? 102)) || ((65 <=? c) && (c <=? 70)).
Definition is_white (c : N) : bool := (c =? c_sp) || (c =? c_tab).
Definition is_break (c : N) : bool := (c =? c_nl) || (c =? c_cr).

Definition has_nl (s : str) : bool := mem_chr c_nl s.

(* strings.Split(s, "\n") *)
Fixpoint split_nl (s : str) : list str :=
  match s with
  | [] => [[]]
  | c :: r =>
    if c =? c_nl then [] :: split_nl r
    else match split_nl r with
         | l :: ls => (c :: l) :: ls
         | [] => [[c]]
         end
  end.

(* strings.Join(ls, "\n") *)
Fixpoint join_nl (ls : list str) : str :=
  match ls with
  | [] => []
  | [l] => l
  | l :: r => l ++ c_nl :: join_nl r
  end.

Definition all_spaces (l : str) : bool := forallb (N.eqb c_sp) l.

Fixpoint rtrim_rev (r : str) : str :=
  match r with c :: r' => if c =? c_sp then rtrim_rev r' else r | [] => [] end.
(* strings.TrimRight(s, " ") *)
Definition rtrim_spaces (s : str) : str := rev (rtrim_rev (rev s)).

(* ------------------------------------------------------------------ *)
(* cue: goccy/encode.go                                               *)

(* legacyStrings *)
Definition legacy_strings : list str := map s_
  ["y"; "Y"; "yes"; "Yes"; "YES"; "n"; "N"; "t"; "T"; "f"; "F"; "no"; "No"; "NO";
   "true"; "True"; "TRUE"; "false"; "False"; "FALSE"; "on"; "On"; "ON"; "off"; "Off"; "OFF";
   ".Nan"]%string.

(* yamlUnprintable, on valid UTF-8 *)
Definition rune_unprintable (r : N) : bool :=
  negb ((r =? c_tab) || (r =? c_nl)) &&
  ((r <? 32) || (r =? 127) || (r =? 133) || (r =? 8232) || (r =? 8233) || (r =? 65534) || (r =? 65535)).
Definition yaml_unprintable (s : str) : bool := existsb rune_unprintable s.

(* blockLiteralSafe *)
Definition block_literal_safe (s : str) : bool :=
  match s with
  | [] => false
  | c :: _ =>
    negb (is_white c) &&
    negb (contains [c_sp; c_nl] s || ends_with_chr c_sp s) &&
    negb (yaml_unprintable s)
  end.

Definition nonempty_all (p : N -> bool) (l : str) : bool :=
  match l with [] => false | _ => forallb p l end.

(* needsSingleQuoting *)
Definition needs_single_quoting (s : str) : bool :=
  str_eqb s [c_qm] || is_prefix [c_qm; c_sp] s || str_eqb s [60; 60].

(* useQuote: ^[\-+0-9:\. \t]+([-:]|[tT])[\-+0-9:\. \t]+[zZ]?$|^0x[a-fA-F0-9]+$ *)
Definition uq_class (c : N) : bool :=
  (c =? c_minus) || (c =? c_plus) || is_digit c || (c =? c_colon) || (c =? c_dot) || is_white c.
Definition uq_sep (c : N) : bool := (c =? c_minus) || (c =? c_colon) || (c =? 116) || (c =? 84).
Definition uq_z (c : N) : bool := (c =? 122) || (c =? 90).
(* [\-+0-9:\. \t]+[zZ]?$ *)
Fixpoint uq_suffix (l : str) : bool :=
  match l with
  | [] => false
  | c :: r => uq_class c && (match r with [] => true | [z] => uq_z z || uq_class z | _ => uq_suffix r end)
  end.
(* after at least one class character: [\-+0-9:\. \t]* sep suffix *)
Fixpoint uq_tail (l : str) : bool :=
  match l with
  | [] => false
  | c :: r => (uq_sep c && uq_suffix r) || (uq_class c && uq_tail r)
  end.
Definition use_quote_re1 (s : str) : bool :=
  match s with c :: r => uq_class c && uq_tail r | [] => false end.
Definition use_quote_re2 (s : str) : bool :=
  match s with
  | a :: b :: r => (a =? 48) && (b =? 120) && nonempty_all is_hex r
  | _ => false
  end.
Definition use_quote (s : str) : bool := use_quote_re1 s || use_quote_re2 s.

(* rxAnyOctalYaml11: ^[-+]?0[0-9_]+$ *)
Definition any_octal11 (s : str) : bool :=
  let body := match s with c :: r => if (c =? c_minus) || (c =? c_plus) then r else s | [] => s end in
  match body with
  | a :: r => (a =? 48) && nonempty_all (fun c => is_digit c || (c =? c_us)) r
  | _ => false
  end.

(* decode.go specialFloats *)
Definition special_floats : list str := map s_
  [".inf"; ".Inf"; ".INF"; "+.inf"; "+.Inf"; "+.INF"; "-.inf"; "-.Inf"; "-.INF"; ".nan"; ".NaN"; ".NAN"]%string.

(* decode.go rxYamlInt: ^[-+]?(0|[1-9][0-9]*|0b[01]+|0o?[0-7]+|0x[0-9a-fA-F]+)$ *)
Definition strip_sign (s : str) : str :=
  match s with c :: r => if (c =? c_minus) || (c =? c_plus) then r else s | [] => s end.
Definition is_oct (c : N) : bool := (48 <=? c) && (c <=? 55).
Definition is_bin (c : N) : bool := (c =? 48) || (c =? 49).
Definition rx_yaml_int (s : str) : bool :=
  match strip_sign s with
  | [] => false
  | c :: r =>
    if c =? 48 then
      match r with
      | [] => true
      | d :: r' =>
        if d =? 98 then nonempty_all is_bin r'
        else if d =? 111 then nonempty_all is_oct r'
        else if d =? 120 then nonempty_all is_hex r'
        else nonempty_all is_oct r
      end
    else is_digit c && forallb is_digit r
  end.

(* decode.go rxYamlFloat:
   ^[-+]?((\.[0-9]+|[0-9]+\.[0-9]* )([eE][-+]?[0-9]+)?|[0-9]+[eE][-+]?[0-9]+)$  (blank after the star added) *)
Fixpoint span (p : N -> bool) (l : str) : str * str :=
  match l with
  | c :: r => if p c then let (a, b) := span p r in (c :: a, b) else ([], l)
  | [] => ([], [])
  end.
Definition is_e (c : N) : bool := (c =? 101) || (c =? 69).
(* [eE][-+]?[0-9]+$ *)
Definition rx_exp (l : str) : bool :=
  match l with
  | c :: r => is_e c && nonempty_all is_digit (strip_sign r)
  | [] => false
  end.
Definition rx_opt_exp (l : str) : bool := match l with [] => true | _ => rx_exp l end.
Definition rx_yaml_float (s : str) : bool :=
  let b := strip_sign s in
  let (d1, r1) := span is_digit b in
  match r1 with
  | [] => false
  | d :: r2 =>
    if d =? c_dot then
      let (d2, r3) := span is_digit r2 in
      match d1, d2 with
      | [], [] => false
      | _, _ => rx_opt_exp r3
      end
    else match d1 with [] => false | _ :: _ => rx_exp r1 end
  end.

(* decode.go numberKind != ILLEGAL *)
Definition number_kind (s : str) : bool :=
  match s with
  | [] => false
  | c :: _ =>
    if c =? c_us then false
    else let plain := filter (fun c => negb (c =? c_us)) s in
         rx_yaml_int plain || rx_yaml_float plain
  end.

(* goccy token: reservedKeywordMap (null, bool, inf, nan) *)
Definition reserved_null : list str := map s_ ["null"; "Null"; "NULL"; "~"]%string.
Definition reserved_bool : list str := map s_ ["true"; "True"; "TRUE"; "false"; "False"; "FALSE"]%string.
Definition reserved_inf : list str := map s_ [".inf"; ".Inf"; ".INF"; "-.inf"; "-.Inf"; "-.INF"]%string.
Definition reserved_nan : list str := map s_ [".nan"; ".NaN"; ".NAN"]%string.
Definition reserved_legacy_bool : list str := map s_
  ["y"; "Y"; "yes"; "Yes"; "YES"; "n"; "N"; "no"; "No"; "NO"; "on"; "On"; "ON"; "off"; "Off"; "OFF"]%string.
Definition reserved_keyword (s : str) : bool :=
  mem_str s reserved_null || mem_str s reserved_bool || mem_str s reserved_inf || mem_str s reserved_nan.
(* reservedEncKeywordMap: null, bool, legacy bool *)
Definition reserved_enc_keyword (s : str) : bool :=
  mem_str s reserved_null || mem_str s reserved_bool || mem_str s reserved_legacy_bool.

Definition non_string_starts : str := s_ "0123456789+-.~<tTfFnN".

Inductive tag := TStr | TNull | TBool | TInt | TFloat.

Section Oracles.
  (* unicode.IsPrint (= strconv.IsPrint on the runes used) *)
  Variable is_print : N -> bool.
  (* token.ToNumber(t) != nil *)
  Variable tok_number : str -> bool.
  (* token.isNumber(s): ToNumber ok or a strconv range error *)
  Variable tok_isnumber : str -> bool.
  (* token.isTimestamp(s) *)
  Variable tok_timestamp : str -> bool.

  (* How the goccy scanner types a plain scalar with text [t] (token.New):
     reserved word, number, or string. *)
  Definition classify_token (t : str) : tag :=
    if mem_str t reserved_null then TNull
    else if mem_str t reserved_bool then TBool
    else if mem_str t reserved_inf || mem_str t reserved_nan then TFloat
    else if tok_number t then TInt (* int or float; only "not a string" matters *)
    else TStr.

  (* decode.go: what a plain scalar with text [t] becomes (scanner type, then
     scalarString for the ones lexed as strings). *)
  Definition resolve_plain (t : str) : tag :=
    match classify_token t with
    | TStr => if mem_str t special_floats then TFloat
              else if number_kind t then TInt else TStr
    | k => k
    end.
  Definition is_tstr (k : tag) : bool := match k with TStr => true | _ => false end.

  (* decodesAsNonString.  singleToken(s) lexes s on its own; the scanner drops
     trailing blanks of a plain scalar before typing it, and a token lexed as a
     string with a different value does not count. *)
  Definition decodes_as_non_string (s : str) : bool :=
    match s with
    | [] => false
    | c :: _ =>
      mem_chr c non_string_starts &&
      (negb (is_tstr (classify_token (rtrim_spaces s))) ||
       mem_str s special_floats || number_kind s)
    end.

  (* shouldQuote *)
  Definition should_quote (s : str) : bool :=
    match s with
    | [] => true
    | c :: _ =>
      mem_str s legacy_strings ||
      (mem_chr c (s_ "-+0123456789:. " ++ [c_tab]) && (use_quote s || any_octal11 s)) ||
      is_prefix [c_dot; c_dot; c_dot] s ||    (* the document end marker *)
      decodes_as_non_string s || mem_chr c_tab s || yaml_unprintable s
    end.

  (* token.IsNeedQuoted *)
  Fixpoint nq_scan (l : str) : bool :=
    match l with
    | [] => false
    | c :: r =>
      (c =? c_hash) || (c =? c_bs) ||
      (((c =? c_colon) || (c =? c_minus)) && match r with d :: _ => d =? c_sp | [] => false end) ||
      nq_scan r
    end.
  Definition nq_first : str := s_ "*&[{}],!|>%'""@ `".
  Definition is_need_quoted (s : str) : bool :=
    match s with
    | [] => true
    | first :: _ =>
      reserved_enc_keyword s || tok_isnumber s || str_eqb s [c_minus] ||
      mem_chr first nq_first ||
      ends_with_chr c_colon s || ends_with_chr c_sp s ||
      tok_timestamp s || nq_scan s
    end.

  (* ---------------------------------------------------------------- *)
  (* style decision                                                   *)

  Inductive style :=
  | Plain
  | SingleCue       (* cue singleQuoted: only ' is doubled *)
  | SingleGo        (* goccy quoteWith(v, '\''): Go escapes for non-printables *)
  | Double          (* strconv.Quote *)
  | Literal.        (* literal block, header from token.LiteralBlockHeader *)

  (* encodeScalar for a string value whose CUE literal is multi-line iff
     [multi] (v.Syntax(): multi = has_nl s), followed by goccy's encodeString. *)
  Definition goccy_string_style (s : str) : style :=
    if is_need_quoted s then SingleGo else Plain.

  Definition value_style (multi : bool) (s : str) : style :=
    if has_nl s then
      (if multi && block_literal_safe s then Literal else Double)
    else if multi && block_literal_safe s then Literal
    else if needs_single_quoting s then SingleCue
    else if should_quote s then Double
    else goccy_string_style s.

  (* encodeDecls: quoteScalar(name), else double quotes for a key containing a
     newline, else goccy's encodeString *)
  Definition key_style (s : str) : style :=
    if needs_single_quoting s then SingleCue
    else if should_quote s then Double
    else if has_nl s then Double
    else goccy_string_style s.

  (* [multi]: the CUE literal handed to the encoder is a multi-line literal.
     v.Syntax() writes struct field values and the root value as multi-line
     literals iff they contain a newline; list elements keep their source form. *)
  Definition choose_style (is_key : bool) (multi : bool) (s : str) : style :=
    if is_key then key_style s else value_style multi s.

  (* ---------------------------------------------------------------- *)
  (* emitters                                                         *)

  Definition hex_digit (d : N) : N := if d <? 10 then 48 + d else 87 + d.
  (* the k low hex digits of c, most significant first *)
  Fixpoint hex_digits (k : nat) (c : N) : str :=
    match k with
    | O => []
    | S k' => hex_digit ((c / 16 ^ N.of_nat k') mod 16) :: hex_digits k' c
    end.

  (* strconv.appendEscapedRune for the double quote *)
  Definition esc_common (r : N) : str :=
    if r =? 7 then [c_bs; 97] else if r =? 8 then [c_bs; 98] else if r =? 12 then [c_bs; 102]
    else if r =? 10 then [c_bs; 110] else if r =? 13 then [c_bs; 114] else if r =? 9 then [c_bs; 116]
    else if r =? 11 then [c_bs; 118]
    else [].
  Definition esc_double (r : N) : str :=
    if (r =? c_dq) || (r =? c_bs) then [c_bs; r]
    else if is_print r then [r]
    else match esc_common r with
         | a :: e => a :: e
         | [] => if (r <? 32) || (r =? 127) then c_bs :: 120 :: hex_digits 2 r
                 else if r <? 65536 then c_bs :: 117 :: hex_digits 4 r
                 else c_bs :: 85 :: hex_digits 8 r
         end.
  Definition emit_double (s : str) : str := c_dq :: flat_map esc_double s ++ [c_dq].

  (* cue singleQuoted *)
  Definition esc_single_cue (r : N) : str := if r =? c_sq then [c_sq; c_sq] else [r].
  Definition emit_single_cue (s : str) : str := c_sq :: flat_map esc_single_cue s ++ [c_sq].

  (* goccy quoteWith(v, '\'') : the standard library's escapes are kept for
     everything that is not printable *)
  Definition esc_single_go (r : N) : str :=
    if r =? c_sq then [c_sq; c_sq]
    else if is_print r then [r]
    else match esc_common r with
         | a :: e => a :: e
         | [] => if r <? 32 then c_bs :: 120 :: hex_digits 2 r
                 else if r <? 65536 then c_bs :: 117 :: hex_digits 4 r
                 else c_bs :: 85 :: hex_digits 8 r
         end.
  Definition emit_single_go (s : str) : str := c_sq :: flat_map esc_single_go s ++ [c_sq].

  (* token.LiteralBlockHeader: "|+" / "|" / "|-" *)
  Inductive chomp := Strip | Clip | Keep.
  Definition ends_nl (s : str) : bool := ends_with_chr c_nl s.
  Definition ends_nlnl (s : str) : bool :=
    match rev s with a :: b :: _ => (a =? c_nl) && (b =? c_nl) | _ => false end.
  Definition literal_chomp (s : str) : chomp :=
    if ends_nlnl s then Keep else if ends_nl s then Clip else Strip.
  Definition chomp_text (c : chomp) : str :=
    match c with Strip => [c_bar; c_minus] | Clip => [c_bar] | Keep => [c_bar; c_plus] end.

  (* ast.StringNode.String + printer + stripBlankLinePadding: the lines of the
     value, each indented by [n] blanks unless blank, the line after a final
     newline dropped; the block is followed by one newline. *)
  Definition pad_line (n : nat) (l : str) : str :=
    if all_spaces l then [] else repeat c_sp n ++ l.
  Fixpoint drop_last_empty (ls : list str) : list str :=
    match ls with
    | x :: r =>
      match r with
      | [] => ls
      | [[]] => [x]
      | _ => x :: drop_last_empty r
      end
    | [] => []
    end.
  Definition literal_lines (n : nat) (s : str) : list str :=
    map (pad_line n) (drop_last_empty (split_nl s)).
  Definition emit_literal (n : nat) (s : str) : str :=
    chomp_text (literal_chomp s) ++ c_nl :: join_nl (literal_lines n s) ++ [c_nl].

  Definition emit (st : style) (n : nat) (s : str) : str :=
    match st with
    | Plain => s
    | SingleCue => emit_single_cue s
    | SingleGo => emit_single_go s
    | Double => emit_double s
    | Literal => emit_literal n s
    end.

  (* ---------------------------------------------------------------- *)
  (* readers: YAML 1.2 presentation semantics                         *)

  Definition unhex_digit (c : N) : option N :=
    if is_digit c then Some (c - 48)
    else if (97 <=? c) && (c <=? 102) then Some (c - 87)
    else if (65 <=? c) && (c <=? 70) then Some (c - 55)
    else None.
  Fixpoint unhex (k : nat) (l : str) (acc : N) : option (N * str) :=
    match k with
    | O => Some (acc, l)
    | S k' => match l with
              | c :: r => match unhex_digit c with
                          | Some d => unhex k' r (acc * 16 + d)
                          | None => None
                          end
              | [] => None
              end
    end.

  (* c-ns-esc-char *)
  Definition simple_escape (c : N) : option N :=
    if c =? 48 then Some 0 else if c =? 97 then Some 7 else if c =? 98 then Some 8
    else if (c =? 116) || (c =? 9) then Some 9 else if c =? 110 then Some 10
    else if c =? 118 then Some 11 else if c =? 102 then Some 12 else if c =? 114 then Some 13
    else if c =? 101 then Some 27 else if c =? 32 then Some 32 else if c =? 34 then Some 34
    else if c =? 47 then Some 47 else if c =? 92 then Some 92 else if c =? 78 then Some 133
    else if c =? 95 then Some 160 else if c =? 76 then Some 8232 else if c =? 80 then Some 8233
    else None.

  (* body of a single-line double-quoted scalar after the opening quote;
     [fuel] bounds the number of steps (length of the text suffices). *)
  Fixpoint pd_loop (fuel : nat) (l : str) (acc : str) : option (str * str) :=
    match fuel with
    | O => None
    | S f =>
      match l with
      | [] => None
      | c :: r =>
        if c =? c_dq then Some (rev acc, r)
        else if is_break c then None          (* line folding is not modelled *)
        else if c =? c_bs then
          match r with
          | [] => None
          | e :: r' =>
            if e =? 120 then match unhex 2 r' 0 with Some (v, r'') => pd_loop f r'' (v :: acc) | None => None end
            else if e =? 117 then match unhex 4 r' 0 with Some (v, r'') => pd_loop f r'' (v :: acc) | None => None end
            else if e =? 85 then match unhex 8 r' 0 with Some (v, r'') => pd_loop f r'' (v :: acc) | None => None end
            else match simple_escape e with
                 | Some v => pd_loop f r' (v :: acc)
                 | None => None
                 end
          end
        else pd_loop f r (c :: acc)
      end
    end.
  (* the whole text must be one double-quoted scalar *)
  Definition parse_double (t : str) : option str :=
    match t with
    | c :: r => if c =? c_dq then
                  match pd_loop (S (List.length r)) r [] with
                  | Some (v, []) => Some v
                  | _ => None
                  end
                else None
    | [] => None
    end.

  Fixpoint ps_loop (l : str) (acc : str) : option (str * str) :=
    match l with
    | [] => None
    | c :: r =>
      if c =? c_sq then
        match r with
        | d :: r' => if d =? c_sq then ps_loop r' (c_sq :: acc) else Some (rev acc, r)
        | [] => Some (rev acc, [])
        end
      else if is_break c then None
      else ps_loop r (c :: acc)
    end.
  Definition parse_single (t : str) : option str :=
    match t with
    | c :: r => if c =? c_sq then
                  match ps_loop r [] with
                  | Some (v, []) => Some v
                  | _ => None
                  end
                else None
    | [] => None
    end.

  (* literal block: [t] is the text from '|' to the end of the scalar's last
     line (newline included); [p] is the indentation of the parent node (the
     block's lines must be indented by more than that; at the document root
     p = 0 and the comparison is >=, expressed by [root]). *)
  Fixpoint count_sp (l : str) : nat :=
    match l with c :: r => if c =? c_sp then S (count_sp r) else O | [] => O end.
  Fixpoint first_content_indent (ls : list str) : option nat :=
    match ls with
    | [] => None
    | l :: r => if all_spaces l then first_content_indent r else Some (count_sp l)
    end.
  Fixpoint max_blank_prefix (ls : list str) : nat :=
    match ls with
    | [] => O
    | l :: r => if all_spaces l then Nat.max (List.length l) (max_blank_prefix r) else O
    end.
  (* one line of content at indentation n *)
  Definition lit_line (n : nat) (l : str) : option str :=
    if all_spaces l then Some (skipn n l)
    else if Nat.leb n (count_sp l) then Some (skipn n l) else None.
  Fixpoint lit_lines (n : nat) (ls : list str) : option (list str) :=
    match ls with
    | [] => Some []
    | l :: r => match lit_line n l, lit_lines n r with
                | Some a, Some b => Some (a :: b)
                | _, _ => None
                end
    end.
  Fixpoint drop_trailing_empty_rev (r : list str) : list str :=
    match r with [] :: r' => drop_trailing_empty_rev r' | _ => r end.
  Definition strip_trailing_empty (ls : list str) : list str := rev (drop_trailing_empty_rev (rev ls)).
  Definition apply_chomp (c : chomp) (ls : list str) : str :=
    match c with
    | Keep => flat_map (fun l => l ++ [c_nl]) ls
    | Clip => match strip_trailing_empty ls with
              | [] => []
              | k => join_nl k ++ [c_nl]
              end
    | Strip => join_nl (strip_trailing_empty ls)
    end.
  Definition parse_header (t : str) : option (chomp * str) :=
    match t with
    | 124 :: 10 :: r => Some (Clip, r)
    | 124 :: 45 :: 10 :: r => Some (Strip, r)
    | 124 :: 43 :: 10 :: r => Some (Keep, r)
    | _ => None
    end.
  (* lines of a text that ends with a newline *)
  Definition text_lines (t : str) : option (list str) :=
    match rev (split_nl t) with
    | [] :: r => Some (rev r)
    | _ => None
    end.
  Definition parse_literal (p : nat) (root : bool) (t : str) : option str :=
    if mem_chr c_cr t then None else
    match parse_header t with
    | None => None
    | Some (c, body) =>
      match text_lines body with
      | None => None
      | Some ls =>
        match first_content_indent ls with
        | None => (* no content: every line is blank *)
          Some (apply_chomp c (map (fun _ => []) ls))
        | Some n =>
          if negb (if root then Nat.leb p n else Nat.ltb p n) then None
          else if Nat.ltb n (max_blank_prefix ls) then None
          else match lit_lines n ls with
               | Some cs => Some (apply_chomp c cs)
               | None => None
               end
        end
      end
    end.

  (* plain scalar on one line: the scanner stops at a line break, at " #"
     (a '#' preceded by white space, or first) and at ':' followed by white
     space / line break / end; trailing white space is not content.
     Result: (content, rest of the line from the stop position, possibly
     preceded by the white space not taken). *)
  Definition white_or_end (l : str) : bool :=
    match l with [] => true | c :: _ => is_white c || is_break c end.
  Fixpoint scan_plain (l : str) (acc pend : str) (prev_white : bool) : str * str :=
    match l with
    | [] => (rev acc, rev pend)
    | c :: r =>
      if is_break c then (rev acc, rev pend ++ l)
      else if (c =? c_hash) && prev_white then (rev acc, rev pend ++ l)
      else if (c =? c_colon) && white_or_end r then (rev acc, rev pend ++ l)
      else if is_white c then scan_plain r acc (c :: pend) true
      else scan_plain r (c :: pend ++ acc) [] false
    end.
  Definition parse_plain (l : str) : str * str := scan_plain l [] [] true.

  (* c-indicator *)
  Definition indicators : str := s_ "-?:,[]{}#&*!|>'""%@`".
  Definition plain_first_ok (s : str) : bool :=
    match s with
    | [] => false
    | c :: r =>
      if (c =? c_minus) || (c =? c_qm) || (c =? c_colon)
      then negb (white_or_end r)
      else negb (mem_chr c indicators)
    end.
  (* "---" / "..." followed by white space or the end of the line, in column 0 *)
  Definition doc_marker (s : str) : bool :=
    match s with
    | a :: b :: c :: r =>
      (((a =? c_minus) && (b =? c_minus) && (c =? c_minus)) ||
       ((a =? c_dot) && (b =? c_dot) && (c =? c_dot))) && white_or_end r
    | _ => false
    end.
  Fixpoint colon_white (l : str) : bool :=
    match l with
    | [] => false
    | c :: r => ((c =? c_colon) && white_or_end r) || colon_white r
    end.
  Fixpoint white_hash (l : str) : bool :=
    match l with
    | c :: ((d :: _) as r) => (is_white c && (d =? c_hash)) || white_hash r
    | _ => false
    end.
  (* [col0]: the scalar starts in column 0 (root scalar, top-level key) *)
  Definition plain_ok (col0 : bool) (s : str) : bool :=
    plain_first_ok s &&
    negb (existsb is_break s) &&
    negb (match s with c :: _ => is_white c | [] => true end) &&
    negb (match last_chr s with Some c => is_white c | None => true end) &&
    negb (colon_white s) && negb (white_hash s) &&
    negb (col0 && doc_marker s).

  (* what a reader makes of text [t] written in style [st] *)
  Definition read (st : style) (p : nat) (root : bool) (t : str) : option str :=
    match st with
    | Plain => match parse_plain t with
               | (v, []) => if is_tstr (resolve_plain v) then Some v else None
               | _ => None
               end
    | SingleCue | SingleGo => parse_single t
    | Double => parse_double t
    | Literal => parse_literal p root t
    end.

End Oracles.

(* A reader that recognises the style from the first character, as a YAML
   processor does, and returns the value together with the rest of the text. *)
Section Reader.
  Variable tok_number : str -> bool.

  Definition read_flow_rest (t : str) : option (str * str) :=
    match t with
    | c :: r =>
      if c =? c_dq then pd_loop (S (List.length r)) r []
      else if c =? c_sq then ps_loop r []
      else
        let (v, rest) := parse_plain t in
        if is_tstr (resolve_plain tok_number v) && plain_first_ok v then Some (v, rest) else None
    | [] => None
    end.

  (* [suffix]: what must follow the scalar (": 1" ++ newline for the key
     probes, a newline for values). *)
  Definition read_any (p : nat) (root : bool) (col0 : bool) (suffix : str) (t : str) : option str :=
    match t with
    | [] => None
    | c0 :: _ =>
      if c0 =? c_bar then parse_literal p root t
      else if col0 && doc_marker t then None
      else match read_flow_rest t with
           | Some (v, rest) => if str_eqb rest suffix then Some v else None
           | None => None
           end
    end.
End Reader.

(* ------------------------------------------------------------------ *)
(* Known deviations of the reading side of the pinned tree from the
   semantics above (third-party scanner, CUE literal writer).  A probe
   round-trips in the implementation iff it round-trips under the semantics
   above and none of these applies (validated by the correspondence). *)

(* goccy scanner.scanDocumentEnd: three dots in column 0 end the document
   whatever follows them, unless that is a fourth dot (YAML: only before white
   space / end of line). *)
Definition quirk_dots (col0 : bool) (plain : bool) (s : str) : bool :=
  col0 && plain &&
  match s with
  | 46 :: 46 :: 46 :: r => negb (match r with d :: _ => d =? c_dot | [] => false end)
  | _ => false
  end.

(* goccy scanner.isMergeKey: "<<" followed by blanks and ": " is a merge key
   even at the end of a longer plain scalar. *)
Definition ends_with (suf s : str) : bool := is_prefix (rev suf) (rev s).
Definition quirk_merge (is_key : bool) (plain : bool) (s : str) : bool :=
  is_key && plain && ends_with [60; 60] s.

(* goccy scanner.scanMultiLine (literal blocks without indentation indicator).
   Until a character other than blank and tab has been seen, leading blanks of
   a line are dropped and leading tabs are kept; the column of that first
   character becomes the block's indentation column F.  Afterwards leading
   blanks in columns >= F are content, a leading tab in a column < F is an
   error, and a line whose first other character is in a column < F ends the
   block (what follows is then not part of the scalar: reported as failure).
   YAML instead takes the indentation from the first non-empty line, tabs
   included. *)
Fixpoint g_lead1 (l : str) (col : nat) (kept : str) : option (str * option (nat * str)) :=
  match l with
  | [] => Some (rev kept, None)
  | c :: r =>
    if c =? c_sp then g_lead1 r (S col) kept
    else if c =? c_tab then (if Nat.eqb col 1 then None else g_lead1 r (S col) (c :: kept))
    else Some (rev kept, Some (col, l))
  end.
Fixpoint g_lead2 (F : nat) (l : str) (col : nat) (kept : str) : option (option str) :=
  match l with
  | [] => Some (Some (rev kept))
  | c :: r =>
    if c =? c_sp then g_lead2 F r (S col) (if Nat.leb F col then c :: kept else kept)
    else if c =? c_tab then (if Nat.ltb col F then None else g_lead2 F r (S col) (c :: kept))
    else if Nat.ltb col F then Some None
    else Some (Some (rev kept ++ l))
  end.
Fixpoint g_lines (F : option nat) (ls : list str) : option (list str) :=
  match ls with
  | [] => Some []
  | l :: r =>
    match F with
    | None =>
      match g_lead1 l 1 [] with
      | None => None
      | Some (kept, None) =>
        match g_lines None r with Some cs => Some (kept :: cs) | None => None end
      | Some (kept, Some (col, rest)) =>
        match g_lines (Some col) r with Some cs => Some ((kept ++ rest) :: cs) | None => None end
      end
    | Some f =>
      match g_lead2 f l 1 [] with
      | Some (Some c) => match g_lines F r with Some cs => Some (c :: cs) | None => None end
      | _ => None
      end
    end
  end.
Definition goccy_literal (t : str) : option str :=
  if mem_chr c_cr t then None else
  match parse_header t with
  | None => None
  | Some (c, body) =>
    match text_lines body with
    | None => None
    | Some ls => match g_lines None ls with
                 | Some cs => Some (apply_chomp c cs)
                 | None => None
                 end
    end
  end.

(* cue/literal Form.Append with WithOptionalHashes (decode.go quotedString):
   a single-line string starting with two double quotes is written as
   #"""..."#, which the CUE scanner reads as the opening of a multi-line
   string.  [lit_ok] is the verdict of literal.Unquote(Quote(s)) == s. *)
Definition quirk_cuelit (is_key : bool) (lit_ok : bool) (s : str) : bool :=
  negb is_key && negb lit_ok && is_prefix [c_dq; c_dq] s && negb (has_nl s).

(* goccy parser: a literal block without any content line must be the last
   node of the document ("could not find multi-line content" otherwise). *)
Definition quirk_blank_followed (followed : bool) (literal : bool) (s : str) : bool :=
  followed && literal && forallb (N.eqb c_nl) s.

(* ------------------------------------------------------------------ *)
(* Conditions used by the theorems (Yaml/Proofs.v, Yaml/Literal.v).   *)

(* first line that is not made of blanks only *)
Fixpoint first_real (ls : list str) : option str :=
  match ls with
  | [] => None
  | l :: r => if all_spaces l then first_real r else Some l
  end.
(* no line consists of blanks only, unless it is empty *)
Definition lines_clean (ls : list str) : bool :=
  forallb (fun l => negb (all_spaces l) || match l with [] => true | _ => false end) ls.
(* exact condition under which the literal block written for s reads back as s:
   no carriage return, no blank-only line, and either the first non-empty line
   does not start with a blank, or there are only empty lines and at least two
   of them are terminated (the header is then "|+"). *)
Definition literal_ok (s : str) : bool :=
  negb (mem_chr c_cr s) && lines_clean (split_nl s) &&
  match first_real (split_nl s) with
  | Some (c :: _) => negb (c =? c_sp)
  | Some [] => false
  | None => ends_nlnl s
  end.
(* what the encoder's blockLiteralSafe lets through although literal_ok fails *)
Definition literal_gap (s : str) : bool :=
  str_eqb s [c_nl] ||
  match first_real (split_nl s) with Some (c :: _) => c =? c_sp | _ => false end.
