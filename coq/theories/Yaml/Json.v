(* C11: JSON numbers under the YAML decoder: every JSON number text is a plain
   scalar that the decoder resolves as a number (never as a string). *)
From Verif Require Import Yaml.Scalar Yaml.Proofs.
From Coq Require Import List NArith Bool Lia Arith.
Import ListNotations.
Open Scope N_scope.

(* RFC 8259 number: optional minus, 0 or a non-zero digit followed by digits, optional fraction, optional exponent *)
Definition json_number (s : str) : bool :=
  let b := match s with c :: r => if c =? c_minus then r else s | [] => s end in
  let (d1, r1) := span is_digit b in
  (match d1 with
   | [] => false
   | [c] => true
   | c :: _ => negb (c =? 48)
   end) &&
  match r1 with
  | [] => true
  | d :: r2 =>
    if d =? c_dot then
      let (d2, r3) := span is_digit r2 in
      (match d2 with [] => false | _ :: _ => rx_opt_exp r3 end)
    else rx_exp r1
  end.

Lemma span_spec : forall p l a b, span p l = (a, b) -> l = a ++ b /\ forallb p a = true.
Proof.
  induction l as [|c r IH]; intros a b H.
  - cbn in H. injection H as <- <-. split; reflexivity.
  - cbn in H. destruct (p c) eqn:E.
    + destruct (span p r) as [a2 b2] eqn:E2. injection H as <- <-.
      destruct (IH a2 b2 eq_refl) as [-> Ha]. split; [reflexivity|]. cbn. rewrite E, Ha. reflexivity.
    + injection H as <- <-. split; reflexivity.
Qed.

Definition no_us (l : str) : bool := forallb (fun c => negb (c =? c_us)) l.

Lemma digits_no_us : forall l, forallb is_digit l = true -> no_us l = true.
Proof.
  induction l as [|c r IH]; intro H; [reflexivity|].
  cbn in H. apply andb_true_iff in H. destruct H as [Hc Hr]. unfold no_us. cbn [forallb]. fold (no_us r). rewrite (IH Hr).
  rewrite andb_true_r. unfold is_digit in Hc. apply andb_true_iff in Hc. destruct Hc as [_ H2]. apply N.leb_le in H2.
  destruct (c =? c_us) eqn:E; [apply N.eqb_eq in E; subst; unfold c_us in H2; lia|reflexivity].
Qed.

Lemma no_us_cons : forall c r, no_us (c :: r) = negb (c =? c_us) && no_us r.
Proof. reflexivity. Qed.

Lemma no_us_app : forall a b, no_us (a ++ b) = no_us a && no_us b.
Proof. intros. unfold no_us. apply forallb_app. Qed.

Lemma filter_no_us : forall l, no_us l = true -> filter (fun c => negb (c =? c_us)) l = l.
Proof.
  induction l as [|c r IH]; intro H; [reflexivity|].
  rewrite no_us_cons in H. apply andb_true_iff in H. destruct H as [Hc Hr]. cbn [filter]. rewrite Hc, (IH Hr). reflexivity.
Qed.

Lemma nonempty_all_digits_no_us : forall l, nonempty_all is_digit l = true -> no_us l = true.
Proof. intros l H. destruct l; [discriminate|]. apply digits_no_us. exact H. Qed.

Lemma strip_sign_no_us : forall l, no_us (strip_sign l) = true -> no_us l = true.
Proof.
  intros l H. destruct l as [|c r]; [reflexivity|]. unfold strip_sign in H.
  destruct ((c =? c_minus) || (c =? c_plus)) eqn:E; [|exact H].
  rewrite no_us_cons. rewrite H. rewrite andb_true_r.
  apply orb_true_iff in E. destruct E as [E|E]; apply N.eqb_eq in E; subst; reflexivity.
Qed.

Lemma rx_exp_no_us : forall l, rx_exp l = true -> no_us l = true.
Proof.
  intros l H. destruct l as [|c r]; [discriminate|]. cbn in H. apply andb_true_iff in H. destruct H as [He Hd].
  rewrite no_us_cons. rewrite (strip_sign_no_us r (nonempty_all_digits_no_us _ Hd)). rewrite andb_true_r.
  unfold is_e in He. apply orb_true_iff in He. destruct He as [E|E]; apply N.eqb_eq in E; subst; reflexivity.
Qed.

Lemma rx_opt_exp_no_us : forall l, rx_opt_exp l = true -> no_us l = true.
Proof. intros l H. destruct l; [reflexivity|]. apply rx_exp_no_us. exact H. Qed.

(* the part after the optional minus *)
Definition json_body (b : str) : bool :=
  let (d1, r1) := span is_digit b in
  (match d1 with [] => false | [c] => true | c :: _ => negb (c =? 48) end) &&
  match r1 with
  | [] => true
  | d :: r2 =>
    if d =? c_dot then
      let (d2, r3) := span is_digit r2 in
      (match d2 with [] => false | _ :: _ => rx_opt_exp r3 end)
    else rx_exp r1
  end.

Lemma json_number_body : forall s, json_number s = true ->
  exists b, json_body b = true /\ (s = b \/ s = c_minus :: b) /\
            match b with c :: _ => is_digit c = true | [] => False end.
Proof.
  intros s H. unfold json_number in H.
  set (b := match s with c :: r => if c =? c_minus then r else s | [] => s end) in *.
  exists b. split; [exact H|]. split.
  - destruct s as [|c r]; [left; reflexivity|]. subst b. destruct (c =? c_minus) eqn:E.
    + apply N.eqb_eq in E. subst. right. reflexivity.
    + left. reflexivity.
  - unfold json_body in *. destruct (span is_digit b) as [d1 r1] eqn:Es.
    destruct (span_spec _ _ _ _ Es) as [Hb Hd]. apply andb_true_iff in H. destruct H as [H1 _].
    destruct d1 as [|c d1]; [discriminate|]. rewrite Hb. cbn in Hd. apply andb_true_iff in Hd. tauto.
Qed.

Lemma json_body_no_us : forall b, json_body b = true -> no_us b = true.
Proof.
  intros b H. unfold json_body in H. destruct (span is_digit b) as [d1 r1] eqn:Es.
  destruct (span_spec _ _ _ _ Es) as [-> Hd]. apply andb_true_iff in H. destruct H as [_ H2].
  rewrite no_us_app, (digits_no_us _ Hd). cbn [andb].
  destruct r1 as [|d r2]; [reflexivity|].
  destruct (d =? c_dot) eqn:E.
  - apply N.eqb_eq in E. subst d. destruct (span is_digit r2) as [d2 r3] eqn:Es2.
    destruct (span_spec _ _ _ _ Es2) as [-> Hd2]. destruct d2 as [|x d2]; [discriminate|].
    rewrite no_us_cons. change (negb (c_dot =? c_us)) with true. cbn [andb].
    rewrite no_us_app, (digits_no_us _ Hd2), (rx_opt_exp_no_us _ H2). reflexivity.
  - apply rx_exp_no_us. exact H2.
Qed.

(* a JSON number body matches rxYamlInt or rxYamlFloat *)
Lemma json_body_rx : forall b, json_body b = true ->
  match b with c :: _ => is_digit c = true | [] => False end ->
  rx_yaml_int b = true \/ rx_yaml_float b = true.
Proof.
  intros b H Hfirst. unfold json_body in H. destruct (span is_digit b) as [d1 r1] eqn:Es.
  destruct (span_spec _ _ _ _ Es) as [Hb Hd]. apply andb_true_iff in H. destruct H as [H1 H2].
  assert (Hss : strip_sign b = b).
  { destruct b as [|c r]; [reflexivity|]. unfold strip_sign.
    unfold is_digit in Hfirst. apply andb_true_iff in Hfirst. destruct Hfirst as [F1 F2].
    apply N.leb_le in F1. apply N.leb_le in F2.
    destruct (c =? c_minus) eqn:E1; [apply N.eqb_eq in E1; subst; unfold c_minus in *; lia|].
    destruct (c =? c_plus) eqn:E2; [apply N.eqb_eq in E2; subst; unfold c_plus in *; lia|]. reflexivity. }
  destruct r1 as [|d r2].
  - (* integer *)
    left. rewrite app_nil_r in Hb. subst b. unfold rx_yaml_int. rewrite Hss.
    destruct d1 as [|c d1]; [discriminate|].
    cbn in Hd. apply andb_true_iff in Hd. destruct Hd as [Hc Hr].
    destruct (c =? 48) eqn:E0.
    + destruct d1 as [|c2 d1]; [reflexivity|]. cbn in H1. discriminate.
    + rewrite Hc, Hr. reflexivity.
  - right. unfold rx_yaml_float. rewrite Hss, Es.
    destruct (d =? c_dot) eqn:E.
    + destruct (span is_digit r2) as [d2 r3]. destruct d2 as [|x d2]; [discriminate|].
      destruct d1; exact H2.
    + destruct d1 as [|c d1]; [discriminate|]. exact H2.
Qed.

Lemma number_kind_of_rx : forall s, no_us s = true -> s <> [] ->
  rx_yaml_int s = true \/ rx_yaml_float s = true -> number_kind s = true.
Proof.
  intros s Hus Hne H. destruct s as [|c r]; [congruence|].
  unfold number_kind.
  assert (Hc : (c =? c_us) = false).
  { rewrite no_us_cons in Hus. apply andb_true_iff in Hus. destruct Hus as [Hc _]. apply negb_true_iff in Hc. exact Hc. }
  rewrite Hc. rewrite filter_no_us by exact Hus.
  destruct H as [H|H]; rewrite H; [reflexivity|apply orb_true_r].
Qed.

Lemma strip_sign_digit : forall b, match b with c :: _ => is_digit c = true | [] => False end -> strip_sign b = b.
Proof.
  intros b Hfirst. destruct b as [|c r]; [reflexivity|]. unfold strip_sign.
  unfold is_digit in Hfirst. apply andb_true_iff in Hfirst. destruct Hfirst as [F1 F2].
  apply N.leb_le in F1. apply N.leb_le in F2.
  destruct (c =? c_minus) eqn:E1; [apply N.eqb_eq in E1; subst; unfold c_minus in *; lia|].
  destruct (c =? c_plus) eqn:E2; [apply N.eqb_eq in E2; subst; unfold c_plus in *; lia|]. reflexivity.
Qed.

Lemma strip_sign_minus : forall b, strip_sign (c_minus :: b) = b.
Proof. reflexivity. Qed.

(* every JSON number text is resolved as a number by the YAML decoder *)
Theorem json_number_is_number : forall s, json_number s = true -> number_kind s = true.
Proof.
  intros s H. destruct (json_number_body s H) as [b [Hb [Hs Hfirst]]].
  pose proof (json_body_no_us b Hb) as Hus.
  pose proof (json_body_rx b Hb Hfirst) as Hrx.
  pose proof (strip_sign_digit b Hfirst) as Hss.
  destruct Hs as [->| ->].
  - apply number_kind_of_rx; auto. destruct b; [contradiction|discriminate].
  - apply number_kind_of_rx.
    + rewrite no_us_cons. exact Hus.
    + discriminate.
    + unfold rx_yaml_int, rx_yaml_float in *. rewrite strip_sign_minus. rewrite Hss in Hrx. exact Hrx.
Qed.

(* hence never a string, whatever the scanner's number test says *)
Theorem json_number_not_string : forall tok_number s,
  json_number s = true -> is_tstr (resolve_plain tok_number s) = false.
Proof.
  intros tok_number s H. apply json_number_is_number in H. unfold resolve_plain.
  destruct (classify_token tok_number s); try reflexivity.
  destruct (mem_str s special_floats); [reflexivity|]. rewrite H. reflexivity.
Qed.

Lemma json_number_example :
  json_number [45; 49; 46; 53; 101; 43; 51] = true /\ json_number [48] = true /\ json_number [48; 49] = false.
Proof. repeat split; reflexivity. Qed.
