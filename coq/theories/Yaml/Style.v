(* C11: single-quoted and plain scalars, and the encoder's style choice. *)
From Verif Require Import Yaml.Scalar Yaml.Proofs Yaml.Literal.
From Coq Require Import List NArith Bool Lia Arith.
Import ListNotations.
Open Scope N_scope.

(* ------------------------------------------------------------------ *)
(* single-quoted scalars                                              *)

Lemma ps_loop_cue : forall s rest acc,
  existsb is_break s = false ->
  match rest with d :: _ => d <> c_sq | [] => True end ->
  ps_loop (flat_map esc_single_cue s ++ c_sq :: rest) acc = Some (rev acc ++ s, rest).
Proof.
  induction s as [|c s IH]; intros rest acc Hb Hr.
  - cbn [flat_map app ps_loop]. change (c_sq =? c_sq) with true. cbv iota.
    rewrite app_nil_r. destruct rest as [|d r]; [reflexivity|].
    apply N.eqb_neq in Hr. rewrite Hr. reflexivity.
  - cbn [existsb] in Hb. apply orb_false_iff in Hb. destruct Hb as [Hc Hb].
    cbn [flat_map]. rewrite <- app_assoc. unfold esc_single_cue at 1.
    destruct (c =? c_sq) eqn:E.
    + apply N.eqb_eq in E. subst c. cbn [app ps_loop].
      change (c_sq =? c_sq) with true. cbv iota.
      rewrite IH by auto. cbn [rev]. rewrite <- app_assoc. reflexivity.
    + cbn [app ps_loop]. rewrite E, Hc.
      rewrite IH by auto. cbn [rev]. rewrite <- app_assoc. reflexivity.
Qed.

Theorem single_cue_roundtrip_when : forall s,
  existsb is_break s = false -> parse_single (emit_single_cue s) = Some s.
Proof.
  intros s H. unfold parse_single, emit_single_cue.
  change (c_sq =? c_sq) with true. cbv iota.
  rewrite (ps_loop_cue s [] []); auto.
Qed.

Section SingleGo.
  Variable is_print : N -> bool.
  Hypothesis print_not_break : forall c, is_print c = true -> is_break c = false.

  Definition sq_safe (c : N) : bool := (c =? c_sq) || is_print c.

  Lemma esc_go_eq : forall c, sq_safe c = true -> esc_single_go is_print c = esc_single_cue c.
  Proof.
    intros c H. unfold esc_single_go, esc_single_cue, sq_safe in *.
    destruct (c =? c_sq); [reflexivity|]. cbn [orb] in H. rewrite H. reflexivity.
  Qed.

  Lemma flat_go_eq : forall s, forallb sq_safe s = true ->
    flat_map (esc_single_go is_print) s = flat_map esc_single_cue s.
  Proof.
    induction s as [|c s IH]; intro H; [reflexivity|].
    cbn [forallb] in H. apply andb_true_iff in H. destruct H.
    cbn [flat_map]. rewrite esc_go_eq, IH; auto.
  Qed.

  Lemma sq_safe_no_break : forall s, forallb sq_safe s = true -> existsb is_break s = false.
  Proof.
    induction s as [|c s IH]; intro H; [reflexivity|].
    cbn [forallb] in H. apply andb_true_iff in H. destruct H as [H1 H2].
    cbn [existsb]. rewrite IH by auto. rewrite orb_false_r.
    unfold sq_safe in H1. apply orb_true_iff in H1. destruct H1 as [H1|H1].
    - apply N.eqb_eq in H1. subst. reflexivity.
    - auto.
  Qed.

  (* goccy's quoteWith(v, '\'') reads back when every rune is printable (or the quote itself) *)
  Theorem single_go_roundtrip_when : forall s,
    forallb sq_safe s = true -> parse_single (emit_single_go is_print s) = Some s.
  Proof.
    intros s H. unfold emit_single_go. rewrite flat_go_eq by auto.
    apply single_cue_roundtrip_when. apply sq_safe_no_break. auto.
  Qed.
End SingleGo.

(* ------------------------------------------------------------------ *)
(* plain scalars: the scanner stops exactly after the scalar          *)

Fixpoint feed (s acc pend : str) : str * str :=
  match s with
  | [] => (acc, pend)
  | c :: r => if is_white c then feed r acc (c :: pend) else feed r (c :: pend ++ acc) []
  end.

Fixpoint pw_after (s : str) (pw : bool) : bool :=
  match s with [] => pw | c :: r => pw_after r (is_white c) end.

Fixpoint scan_ok (s : str) (pw : bool) (tail : str) : Prop :=
  match s with
  | [] => True
  | c :: r =>
    is_break c = false /\ ((c =? c_hash) && pw = false) /\
    ((c =? c_colon) && white_or_end (r ++ tail) = false) /\ scan_ok r (is_white c) tail
  end.

Lemma scan_plain_feed : forall s tail acc pend pw,
  scan_ok s pw tail ->
  scan_plain (s ++ tail) acc pend pw =
  scan_plain tail (fst (feed s acc pend)) (snd (feed s acc pend)) (pw_after s pw).
Proof.
  induction s as [|c r IH]; intros tail acc pend pw H.
  - reflexivity.
  - cbn [scan_ok] in H. destruct H as [Hb [Hh [Hc Hr]]].
    cbn [app scan_plain feed pw_after]. rewrite Hb, Hh, Hc.
    destruct (is_white c); apply IH; auto.
Qed.

Lemma feed_spec : forall s acc pend,
  snd (feed s acc pend) ++ fst (feed s acc pend) = rev s ++ pend ++ acc.
Proof.
  induction s as [|c r IH]; intros acc pend.
  - reflexivity.
  - cbn [feed rev]. destruct (is_white c); rewrite IH; rewrite <- !app_assoc; reflexivity.
Qed.

Lemma feed_pend_nil : forall s acc pend,
  match last_chr s with Some c => is_white c = false | None => pend = [] end ->
  snd (feed s acc pend) = [].
Proof.
  induction s as [|c r IH]; intros acc pend H.
  - exact H.
  - cbn [feed]. rewrite last_chr_cons in H.
    destruct (is_white c) eqn:E.
    + apply IH. destruct (last_chr r); auto. congruence.
    + apply IH. destruct (last_chr r); auto.
Qed.

Lemma scan_ok_of : forall s pw tail,
  existsb is_break s = false -> colon_white s = false -> white_hash s = false ->
  (pw = true -> match s with c :: _ => c <> c_hash | [] => True end) ->
  scan_ok s pw tail.
Proof.
  induction s as [|c r IH]; intros pw tail Hb Hc Hw Hp.
  - exact I.
  - cbn [existsb] in Hb. apply orb_false_iff in Hb. destruct Hb as [Hb1 Hb2].
    cbn [colon_white] in Hc. apply orb_false_iff in Hc. destruct Hc as [Hc1 Hc2].
    cbn [scan_ok]. split; [exact Hb1|]. split; [|split].
    + destruct (c =? c_hash) eqn:E; [|reflexivity]. destruct pw; [|reflexivity].
      apply N.eqb_eq in E. exfalso. apply (Hp eq_refl). exact E.
    + destruct (c =? c_colon) eqn:E; [|reflexivity]. cbn [andb] in *.
      destruct r as [|d r']; [discriminate|]. exact Hc1.
    + apply IH; auto.
      * destruct r as [|d r']; [reflexivity|].
        cbn [white_hash] in Hw. apply orb_false_iff in Hw. destruct Hw. auto.
      * intro Hwc. destruct r as [|d r']; [exact I|].
        cbn [white_hash] in Hw. apply orb_false_iff in Hw. destruct Hw as [Hw1 _].
        rewrite Hwc in Hw1. cbn [andb] in Hw1. apply N.eqb_neq. exact Hw1.
Qed.

Definition stops_scan (tail : str) : Prop :=
  tail = [] \/ (exists c r, tail = c :: r /\ is_break c = true) \/
  (exists r, tail = c_colon :: r /\ white_or_end r = true).

Lemma scan_plain_stop : forall tail acc pend pw,
  stops_scan tail -> scan_plain tail acc pend pw = (rev acc, rev pend ++ tail).
Proof.
  intros tail acc pend pw [->|[[c [r [-> Hb]]]|[r [-> Hw]]]].
  - cbn. rewrite app_nil_r. reflexivity.
  - cbn [scan_plain]. rewrite Hb. reflexivity.
  - cbn [scan_plain]. change (is_break c_colon) with false. change (c_colon =? c_hash) with false.
    cbn [andb]. change (c_colon =? c_colon) with true. rewrite Hw. reflexivity.
Qed.

Lemma plain_ok_parts : forall col0 s, plain_ok col0 s = true ->
  plain_first_ok s = true /\ existsb is_break s = false /\
  match s with c :: _ => is_white c = false | [] => False end /\
  match last_chr s with Some c => is_white c = false | None => False end /\
  colon_white s = false /\ white_hash s = false /\ (col0 && doc_marker s = false).
Proof.
  intros col0 s H. unfold plain_ok in H.
  repeat (apply andb_true_iff in H; destruct H as [H ?]).
  repeat match goal with X : negb _ = true |- _ => apply negb_true_iff in X end.
  repeat split; auto.
  - destruct s; [discriminate|]. auto.
  - destruct (last_chr s); [auto|discriminate].
Qed.

(* a string that satisfies plain_ok, followed by what ends a plain scalar, is
   scanned as exactly that string *)
Theorem plain_roundtrip_when : forall col0 s tail,
  plain_ok col0 s = true -> stops_scan tail -> parse_plain (s ++ tail) = (s, tail).
Proof.
  intros col0 s tail H Ht.
  destruct (plain_ok_parts col0 s H) as [Hf [Hb [H1 [Hl [Hc [Hw _]]]]]].
  unfold parse_plain. rewrite scan_plain_feed.
  2:{ apply scan_ok_of; auto. intros _. destruct s as [|c r]; [exact I|].
      unfold plain_first_ok in Hf. intro E. subst c. discriminate. }
  rewrite scan_plain_stop by auto.
  pose proof (feed_spec s [] []) as Hs.
  rewrite feed_pend_nil in *.
  2:{ destruct (last_chr s); [auto|contradiction]. }
  2:{ destruct (last_chr s); [auto|contradiction]. }
  cbn [app rev] in *. rewrite !app_nil_r in Hs. rewrite Hs. rewrite rev_involutive. reflexivity.
Qed.

(* ------------------------------------------------------------------ *)
(* the encoder's choice of the plain style                            *)

Lemma mem_str_forall : forall (P : str -> bool) L s,
  forallb P L = true -> mem_str s L = true -> P s = true.
Proof.
  intros P L s HF H. unfold mem_str in H. apply existsb_exists in H. destruct H as [w [Hin He]].
  apply str_eqb_eq in He. subst w. eapply forallb_forall in HF; eauto.
Qed.

Definition starts_ok (s : str) : bool :=
  match s with c :: _ => mem_chr c non_string_starts | [] => false end.

Lemma rtrim_id : forall s, ends_with_chr c_sp s = false -> rtrim_spaces s = s.
Proof.
  intros s H. unfold rtrim_spaces. unfold ends_with_chr, last_chr in H.
  destruct (rev s) as [|d t] eqn:E.
  - cbn. apply (f_equal (@rev N)) in E. rewrite rev_involutive in E. auto.
  - cbn [rtrim_rev]. rewrite H. rewrite <- E. apply rev_involutive.
Qed.

Definition first_numeric (c : N) : bool :=
  is_digit c || (c =? c_plus) || (c =? c_minus) || (c =? c_dot).

Lemma first_numeric_starts : forall c, first_numeric c = true -> mem_chr c non_string_starts = true.
Proof.
  intros c H. unfold first_numeric in H.
  apply orb_true_iff in H. destruct H as [H|H]; [|apply N.eqb_eq in H; subst; reflexivity].
  apply orb_true_iff in H. destruct H as [H|H]; [|apply N.eqb_eq in H; subst; reflexivity].
  apply orb_true_iff in H. destruct H as [H|H]; [|apply N.eqb_eq in H; subst; reflexivity].
  unfold is_digit in H. apply andb_true_iff in H. destruct H as [H1 H2].
  apply N.leb_le in H1. apply N.leb_le in H2.
  assert (E : c = 48 \/ c = 49 \/ c = 50 \/ c = 51 \/ c = 52 \/ c = 53 \/ c = 54 \/ c = 55 \/ c = 56 \/ c = 57) by lia.
  repeat (destruct E as [->|E]; [reflexivity|]). subst. reflexivity.
Qed.

Lemma rx_int_first : forall c r, rx_yaml_int (c :: r) = true -> first_numeric c = true.
Proof.
  intros c r H. unfold first_numeric.
  destruct ((c =? c_minus) || (c =? c_plus)) eqn:Es.
  - apply orb_true_iff in Es. destruct Es as [E|E]; rewrite E; repeat rewrite orb_true_r; reflexivity.
  - unfold rx_yaml_int, strip_sign in H. rewrite Es in H.
    destruct (c =? 48) eqn:E0.
    + apply N.eqb_eq in E0. subst. reflexivity.
    + apply andb_true_iff in H. destruct H as [H _]. rewrite H. reflexivity.
Qed.

Lemma rx_float_first : forall c r, rx_yaml_float (c :: r) = true -> first_numeric c = true.
Proof.
  intros c r H. unfold first_numeric.
  destruct ((c =? c_minus) || (c =? c_plus)) eqn:Es.
  - apply orb_true_iff in Es. destruct Es as [E|E]; rewrite E; repeat rewrite orb_true_r; reflexivity.
  - destruct (is_digit c) eqn:Ed; [reflexivity|].
    unfold rx_yaml_float, strip_sign in H. rewrite Es in H.
    cbn [span] in H. rewrite Ed in H.
    destruct (c =? c_dot) eqn:E; [repeat rewrite orb_true_r; reflexivity|discriminate].
Qed.

Lemma number_kind_starts : forall s, number_kind s = true -> starts_ok s = true.
Proof.
  intros s H. destruct s as [|c r]; [discriminate|].
  unfold number_kind in H. destruct (c =? c_us) eqn:E; [discriminate|].
  cbn [filter] in H. rewrite E in H. cbn [negb] in H.
  apply first_numeric_starts.
  apply orb_true_iff in H. destruct H as [H|H]; [eapply rx_int_first|eapply rx_float_first]; eauto.
Qed.

Lemma indicators_covered : forall c, mem_chr c indicators = true ->
  ((c =? c_minus) || (c =? c_qm) || (c =? c_colon) || (c =? c_hash) || mem_chr c nq_first) = true.
Proof.
  intros c H. apply mem_chr_in in H. vm_compute in H.
  repeat (destruct H as [<-|H]; [reflexivity|]). contradiction.
Qed.

Lemma in_last_chr : forall s c, last_chr s = Some c -> In c s.
Proof.
  intros s c H. unfold last_chr in H. destruct (rev s) eqn:E; [discriminate|].
  injection H as ->. apply in_rev. rewrite E. left. reflexivity.
Qed.

Lemma nq_scan_cons : forall c r, nq_scan (c :: r) = false ->
  (c =? c_hash) = false /\ (c =? c_bs) = false /\
  (((c =? c_colon) || (c =? c_minus)) && match r with d :: _ => d =? c_sp | [] => false end) = false /\
  nq_scan r = false.
Proof.
  intros c r H. cbn [nq_scan] in H.
  apply orb_false_iff in H. destruct H as [H H4].
  apply orb_false_iff in H. destruct H as [H H3].
  apply orb_false_iff in H. destruct H as [H1 H2]. auto.
Qed.

Lemma nq_scan_hash : forall s, nq_scan s = false -> mem_chr c_hash s = false.
Proof.
  induction s as [|c r IH]; intro H; [reflexivity|].
  cbn [nq_scan] in H. repeat (apply orb_false_iff in H; destruct H as [H ?]).
  unfold mem_chr. cbn [existsb]. fold (mem_chr c_hash r). rewrite IH by auto.
  rewrite N.eqb_sym. rewrite H. reflexivity.
Qed.

Lemma white_hash_cons2 : forall c d r,
  white_hash (c :: d :: r) = (is_white c && (d =? c_hash)) || white_hash (d :: r).
Proof. reflexivity. Qed.

Lemma no_hash_white_hash : forall s, mem_chr c_hash s = false -> white_hash s = false.
Proof.
  induction s as [|c r IH]; intro H; [reflexivity|].
  unfold mem_chr in H. cbn [existsb] in H. apply orb_false_iff in H. destruct H as [_ H].
  fold (mem_chr c_hash r) in H.
  destruct r as [|d r']; [reflexivity|].
  rewrite white_hash_cons2. rewrite IH by auto.
  unfold mem_chr in H. cbn [existsb] in H. apply orb_false_iff in H. destruct H as [H _].
  rewrite N.eqb_sym in H. rewrite H. rewrite andb_false_r. reflexivity.
Qed.

Lemma ends_with_cons : forall x c d r, ends_with_chr x (c :: d :: r) = ends_with_chr x (d :: r).
Proof.
  intros. unfold ends_with_chr. rewrite last_chr_cons.
  destruct (last_chr (d :: r)) eqn:E; [reflexivity|]. apply last_chr_none in E. discriminate.
Qed.

Lemma colon_white_of : forall s,
  nq_scan s = false -> mem_chr c_tab s = false -> existsb is_break s = false ->
  ends_with_chr c_colon s = false -> colon_white s = false.
Proof.
  induction s as [|c r IH]; intros Hn Ht Hb He; [reflexivity|].
  cbn [nq_scan] in Hn. repeat (apply orb_false_iff in Hn; destruct Hn as [Hn ?]).
  unfold mem_chr in Ht. cbn [existsb] in Ht. apply orb_false_iff in Ht. destruct Ht as [Ht1 Ht2].
  fold (mem_chr c_tab r) in Ht2.
  cbn [existsb] in Hb. apply orb_false_iff in Hb. destruct Hb as [Hb1 Hb2].
  cbn [colon_white].
  destruct r as [|d r'].
  - cbn [colon_white white_or_end]. rewrite orb_false_r, andb_true_r.
    unfold ends_with_chr in He. cbn in He. exact He.
  - rewrite ends_with_cons in He. rewrite IH by auto. rewrite orb_false_r.
    destruct (c =? c_colon) eqn:E; [|reflexivity]. cbn [andb white_or_end].
    cbn [orb andb] in H0.
    unfold mem_chr in Ht2. cbn [existsb] in Ht2. apply orb_false_iff in Ht2. destruct Ht2 as [Ht2 _].
    cbn [existsb] in Hb2. apply orb_false_iff in Hb2. destruct Hb2 as [Hb2 _].
    unfold is_white. rewrite H0. rewrite (N.eqb_sym d c_tab), Ht2, Hb2. reflexivity.
Qed.

Definition dots_marker (s : str) : bool :=
  match s with
  | a :: b :: c :: r => (a =? c_dot) && (b =? c_dot) && (c =? c_dot) && white_or_end r
  | _ => false
  end.

Section Choice.
  Variable tok_number tok_isnumber tok_timestamp : str -> bool.
  (* token.isNumber holds whenever token.ToNumber succeeds *)
  Hypothesis number_isnumber : forall t, tok_number t = true -> tok_isnumber t = true.

  Let choose := choose_style tok_number tok_isnumber tok_timestamp.
  Let inq := is_need_quoted tok_isnumber tok_timestamp.
  Let shq := should_quote tok_number.

  Lemma choose_plain_inv : forall is_key multi s,
    choose is_key multi s = Plain ->
    inq s = false /\ shq s = false /\ needs_single_quoting s = false /\ has_nl s = false.
  Proof.
    intros is_key multi s H. unfold choose, choose_style in H.
    destruct is_key.
    - unfold key_style in H.
      destruct (needs_single_quoting s); [discriminate|].
      destruct (should_quote tok_number s) eqn:E1; [discriminate|].
      destruct (has_nl s); [discriminate|].
      unfold goccy_string_style in H.
      destruct (is_need_quoted tok_isnumber tok_timestamp s) eqn:E2; [discriminate|].
      unfold inq, shq. auto.
    - unfold value_style in H.
      destruct (has_nl s).
      + destruct (multi && block_literal_safe s); discriminate.
      + destruct (multi && block_literal_safe s); [discriminate|].
        destruct (needs_single_quoting s); [discriminate|].
        destruct (should_quote tok_number s) eqn:E1; [discriminate|].
        unfold goccy_string_style in H.
        destruct (is_need_quoted tok_isnumber tok_timestamp s) eqn:E2; [discriminate|].
        unfold inq, shq. auto.
  Qed.

  Record plain_facts (s : str) : Prop := {
    pf_ne : s <> [];
    pf_tab : mem_chr c_tab s = false;
    pf_unp : yaml_unprintable s = false;
    pf_dec : decodes_as_non_string tok_number s = false;
    pf_uq : match s with c :: _ => mem_chr c (s_ "-+0123456789:. " ++ [c_tab]) && (use_quote s || any_octal11 s) = false | [] => True end;
    pf_dots : is_prefix [c_dot; c_dot; c_dot] s = false;
    pf_enc : reserved_enc_keyword s = false;
    pf_isnum : tok_isnumber s = false;
    pf_dash : str_eqb s [c_minus] = false;
    pf_first : match s with c :: _ => mem_chr c nq_first = false | [] => True end;
    pf_colon : ends_with_chr c_colon s = false;
    pf_sp : ends_with_chr c_sp s = false;
    pf_scan : nq_scan s = false;
    pf_nsq : needs_single_quoting s = false;
    pf_nl : has_nl s = false }.

  Lemma plain_facts_of : forall is_key multi s, choose is_key multi s = Plain -> plain_facts s.
  Proof.
    intros is_key multi s H. destruct (choose_plain_inv _ _ _ H) as [Hq [Hs [Hn Hl]]].
    unfold inq, is_need_quoted in Hq. unfold shq, should_quote in Hs.
    destruct s as [|c r]; [discriminate|].
    do 7 (apply orb_false_iff in Hq; destruct Hq as [Hq ?]).
    do 5 (apply orb_false_iff in Hs; destruct Hs as [Hs ?]).
    constructor; auto. discriminate.
  Qed.

  Lemma plain_no_break : forall s, plain_facts s -> existsb is_break s = false.
  Proof.
    intros s F. destruct (existsb is_break s) eqn:E; [|reflexivity]. exfalso.
    apply existsb_exists in E. destruct E as [c [Hin Hc]].
    unfold is_break in Hc. apply orb_true_iff in Hc. destruct Hc as [Hc|Hc]; apply N.eqb_eq in Hc; subst c.
    - pose proof (pf_nl s F) as Hl. unfold has_nl in Hl. apply mem_chr_in in Hin. congruence.
    - pose proof (pf_unp s F) as Hu. unfold yaml_unprintable in Hu.
      assert (existsb rune_unprintable s = true) by (apply existsb_exists; exists c_cr; split; [auto|reflexivity]).
      congruence.
  Qed.

  (* a scalar the encoder leaves plain is read back as a string, not as a number, bool or null *)
  Theorem plain_choice_resolves_str : forall is_key multi s,
    choose is_key multi s = Plain -> resolve_plain tok_number s = TStr.
  Proof.
    intros is_key multi s H. pose proof (plain_facts_of _ _ _ H) as F.
    pose proof (pf_dec s F) as Hd. pose proof (pf_enc s F) as He.
    unfold reserved_enc_keyword in He. apply orb_false_iff in He. destruct He as [He Hleg].
    apply orb_false_iff in He. destruct He as [Hnull Hbool].
    unfold decodes_as_non_string in Hd. destruct s as [|c r]; [exfalso; apply (pf_ne _ F); reflexivity|].
    rewrite (rtrim_id _ (pf_sp _ F)) in Hd.
    unfold resolve_plain.
    assert (Hst : forall w, starts_ok (c :: r) = true ->
              (negb (is_tstr (classify_token tok_number (c :: r))) || mem_str (c :: r) special_floats || number_kind (c :: r)) = w ->
              w = false).
    { intros w Hs Hw. cbn [starts_ok] in Hs. rewrite Hs in Hd. cbn [andb] in Hd. congruence. }
    unfold classify_token in *. rewrite Hnull, Hbool in *.
    destruct (mem_str (c :: r) reserved_inf || mem_str (c :: r) reserved_nan) eqn:Einf.
    - exfalso.
      assert (Hok : starts_ok (c :: r) = true).
      { apply orb_true_iff in Einf. destruct Einf as [E|E];
          (eapply (mem_str_forall starts_ok); [|exact E]); vm_compute; reflexivity. }
      specialize (Hst _ Hok eq_refl). discriminate.
    - destruct (tok_number (c :: r)) eqn:En.
      + exfalso. apply number_isnumber in En. rewrite (pf_isnum _ F) in En. discriminate.
      + cbn [is_tstr negb orb] in *.
        destruct (mem_str (c :: r) special_floats) eqn:Esf.
        * exfalso.
          assert (Hok : starts_ok (c :: r) = true).
          { eapply (mem_str_forall starts_ok); [|exact Esf]. vm_compute. reflexivity. }
          specialize (Hst _ Hok eq_refl). discriminate.
        * destruct (number_kind (c :: r)) eqn:Enk; [|reflexivity].
          exfalso. specialize (Hst _ (number_kind_starts _ Enk) eq_refl). discriminate.
  Qed.

  Lemma plain_first : forall s, plain_facts s -> plain_first_ok s = true.
  Proof.
    intros s F. pose proof (plain_no_break s F) as Hb.
    destruct s as [|c r]; [exfalso; apply (pf_ne _ F); reflexivity|].
    pose proof (pf_first _ F) as Hf. pose proof (pf_scan _ F) as Hs. pose proof (pf_tab _ F) as Ht.
    apply nq_scan_cons in Hs. destruct Hs as [Hs [_ [H0 _]]].
    unfold plain_first_ok.
    destruct ((c =? c_minus) || (c =? c_qm) || (c =? c_colon)) eqn:E.
    - (* - ? : must be followed by a non-space character *)
      destruct r as [|d r'].
      + exfalso. apply orb_true_iff in E. destruct E as [E|E]; [apply orb_true_iff in E; destruct E as [E|E]|];
          apply N.eqb_eq in E; subst c.
        * pose proof (pf_dash _ F). discriminate.
        * pose proof (pf_nsq _ F). discriminate.
        * pose proof (pf_colon _ F). discriminate.
      + cbn [white_or_end].
        unfold mem_chr in Ht. cbn [existsb] in Ht.
        apply orb_false_iff in Ht. destruct Ht as [_ Ht]. apply orb_false_iff in Ht. destruct Ht as [Ht _].
        cbn [existsb] in Hb. apply orb_false_iff in Hb. destruct Hb as [_ Hb].
        apply orb_false_iff in Hb. destruct Hb as [Hb _].
        unfold is_white. rewrite (N.eqb_sym d c_tab), Ht, Hb. rewrite !orb_false_r.
        destruct (d =? c_sp) eqn:Ed; [|reflexivity]. exfalso.
        apply orb_true_iff in E. destruct E as [E|E]; [apply orb_true_iff in E; destruct E as [E|E]|].
        * rewrite E in H0. rewrite orb_true_r in H0. discriminate.
        * apply N.eqb_eq in E. apply N.eqb_eq in Ed. subst. pose proof (pf_nsq _ F). discriminate.
        * rewrite E in H0. discriminate.
    - destruct (mem_chr c indicators) eqn:Ei; [|reflexivity]. exfalso.
      apply indicators_covered in Ei.
      apply orb_false_iff in E. destruct E as [E E3]. apply orb_false_iff in E. destruct E as [E1 E2].
      rewrite E1, E2, E3, Hs, Hf in Ei. discriminate.
  Qed.

  Lemma plain_doc_marker : forall s, plain_facts s -> doc_marker s = true -> False.
  Proof.
    intros s F H. pose proof (plain_no_break s F) as Hb.
    unfold doc_marker in H. destruct s as [|a [|b [|c r]]]; try discriminate.
    apply andb_true_iff in H. destruct H as [H Hw].
    apply orb_true_iff in H. destruct H as [H|H].
    - apply andb_true_iff in H. destruct H as [H Hc]. apply andb_true_iff in H. destruct H as [Ha Hb'].
      apply N.eqb_eq in Ha. apply N.eqb_eq in Hb'. apply N.eqb_eq in Hc. subst.
      destruct r as [|d r'].
      + pose proof (pf_uq _ F) as Hu. vm_compute in Hu. discriminate.
      + pose proof (pf_scan _ F) as Hs. pose proof (pf_tab _ F) as Ht.
        cbn [white_or_end] in Hw.
        apply nq_scan_cons in Hs. destruct Hs as [_ [_ [_ Hs]]].
        apply nq_scan_cons in Hs. destruct Hs as [_ [_ [_ Hs]]].
        apply nq_scan_cons in Hs. destruct Hs as [_ [_ [H3 _]]].
        assert (Htd : (c_tab =? d) = false).
        { unfold mem_chr in Ht. cbn [existsb] in Ht.
          do 3 (apply orb_false_iff in Ht; destruct Ht as [_ Ht]).
          apply orb_false_iff in Ht. destruct Ht as [Ht _]. exact Ht. }
        assert (Hbd : is_break d = false).
        { cbn [existsb] in Hb. do 3 (apply orb_false_iff in Hb; destruct Hb as [_ Hb]).
          apply orb_false_iff in Hb. destruct Hb as [Hb _]. exact Hb. }
        change (c_minus =? c_colon) with false in H3. change (c_minus =? c_minus) with true in H3.
        cbn [orb andb] in H3.
        unfold is_white in Hw. rewrite H3 in Hw. rewrite (N.eqb_sym d c_tab) in Hw.
        rewrite Htd, Hbd in Hw. discriminate.
    - pose proof (pf_dots _ F) as Hd. cbn [is_prefix] in Hd. rewrite andb_true_r in Hd.
      apply andb_true_iff in H. destruct H as [H Hc]. apply andb_true_iff in H. destruct H as [Ha Hb'].
      rewrite (N.eqb_sym c_dot a), (N.eqb_sym c_dot b), (N.eqb_sym c_dot c), Ha, Hb', Hc in Hd. discriminate.
  Qed.

  (* a scalar the encoder leaves plain is syntactically a plain scalar *)
  Theorem plain_choice_ok : forall is_key multi col0 s,
    choose is_key multi s = Plain -> plain_ok col0 s = true.
  Proof.
    intros is_key multi col0 s H. pose proof (plain_facts_of _ _ _ H) as F.
    pose proof (plain_no_break s F) as Hb.
    destruct (col0 && doc_marker s) eqn:Ed.
    - exfalso. apply andb_true_iff in Ed. destruct Ed as [_ Hd].
      eapply plain_doc_marker; eauto.
    - unfold plain_ok. rewrite Ed, Hb. rewrite (plain_first s F).
      rewrite (colon_white_of s (pf_scan _ F) (pf_tab _ F) Hb (pf_colon _ F)).
      rewrite (no_hash_white_hash s (nq_scan_hash s (pf_scan _ F))).
      cbn [negb andb].
      assert (H1 : match s with c :: _ => is_white c | [] => true end = false).
      { destruct s as [|c r]; [exfalso; apply (pf_ne _ F); reflexivity|].
        pose proof (pf_first _ F) as Hf. pose proof (pf_tab _ F) as Ht.
        unfold mem_chr in Ht. cbn [existsb] in Ht. apply orb_false_iff in Ht. destruct Ht as [Ht _].
        unfold is_white. rewrite (N.eqb_sym c c_tab), Ht. rewrite orb_false_r.
        destruct (c =? c_sp) eqn:E; [|reflexivity]. apply N.eqb_eq in E. subst. vm_compute in Hf. discriminate. }
      assert (H2 : match last_chr s with Some c => is_white c | None => true end = false).
      { destruct (last_chr s) as [c|] eqn:El.
        - pose proof (pf_sp _ F) as Hs. unfold ends_with_chr in Hs. rewrite El in Hs.
          unfold is_white. rewrite Hs. cbn [orb].
          destruct (c =? c_tab) eqn:E; [|reflexivity]. apply N.eqb_eq in E. subst.
          apply in_last_chr in El. apply mem_chr_in in El. rewrite (pf_tab _ F) in El. discriminate.
        - apply last_chr_none in El. exfalso. apply (pf_ne _ F). auto. }
      rewrite H1, H2. reflexivity.
  Qed.
End Choice.

(* ------------------------------------------------------------------ *)
(* the style choice as a whole                                        *)

Lemma doc_marker_first : forall a r,
  (a =? c_minus) = false -> (a =? c_dot) = false -> doc_marker (a :: r) = false.
Proof.
  intros a r H1 H2. destruct r as [|b [|c r]]; try reflexivity.
  cbn [doc_marker]. rewrite H1, H2. reflexivity.
Qed.

Definition suffix_ok (suffix : str) : Prop :=
  suffix = [c_nl] \/ exists r, suffix = c_colon :: c_sp :: r.

Lemma suffix_stops : forall suffix, suffix_ok suffix -> stops_scan suffix.
Proof.
  intros suffix [->|[r ->]].
  - right. left. exists c_nl, []. split; reflexivity.
  - right. right. exists (c_sp :: r). split; reflexivity.
Qed.

Lemma suffix_not_sq : forall suffix, suffix_ok suffix ->
  match suffix with d :: _ => d <> c_sq | [] => True end.
Proof. intros suffix [->|[r ->]]; discriminate. Qed.

Lemma doc_marker_app : forall s suffix, s <> [] -> suffix_ok suffix ->
  doc_marker (s ++ suffix) = true -> doc_marker s = true.
Proof.
  intros s suffix Hne Hs H.
  destruct s as [|a [|b [|c r]]]; [congruence| | |].
  - exfalso. destruct Hs as [->|[r ->]]; cbn in H.
    + discriminate.
    + rewrite !andb_false_r in H. discriminate.
  - exfalso. destruct Hs as [->|[r ->]]; cbn in H; rewrite !andb_false_r in H; discriminate.
  - cbn [app doc_marker] in *. apply andb_true_iff in H. destruct H as [H Hw]. rewrite H. cbn [andb].
    destruct r as [|d r']; [reflexivity|exact Hw].
Qed.

Lemma plain_first_not_quote : forall c r, plain_first_ok (c :: r) = true ->
  (c =? c_bar) = false /\ (c =? c_dq) = false /\ (c =? c_sq) = false.
Proof.
  intros c r H. unfold plain_first_ok in H.
  destruct ((c =? c_minus) || (c =? c_qm) || (c =? c_colon)) eqn:E.
  - apply orb_true_iff in E. destruct E as [E|E]; [apply orb_true_iff in E; destruct E as [E|E]|];
      apply N.eqb_eq in E; subst c; repeat split; reflexivity.
  - apply negb_true_iff in H. clear E.
    split; [|split].
    + destruct (c =? c_bar) eqn:Ec; [apply N.eqb_eq in Ec; subst c; vm_compute in H; discriminate|reflexivity].
    + destruct (c =? c_dq) eqn:Ec; [apply N.eqb_eq in Ec; subst c; vm_compute in H; discriminate|reflexivity].
    + destruct (c =? c_sq) eqn:Ec; [apply N.eqb_eq in Ec; subst c; vm_compute in H; discriminate|reflexivity].
Qed.

Section Final.
  Variable is_print : N -> bool.
  Variable tok_number tok_isnumber tok_timestamp : str -> bool.
  Hypothesis print_not_break : forall c, is_print c = true -> is_break c = false.
  Hypothesis number_isnumber : forall t, tok_number t = true -> tok_isnumber t = true.

  Let choose := choose_style tok_number tok_isnumber tok_timestamp.

  (* the document text of one scalar: flow scalars are followed by [suffix]
     (the end of the line, or ": " and the value for keys) *)
  Definition emit_doc (st : style) (n : nat) (s suffix : str) : str :=
    match st with
    | Literal => emit_literal n s
    | _ => emit is_print st n s ++ suffix
    end.

  (* the cases in which the chosen style cannot express the string *)
  Definition style_gap (col0 : bool) (st : style) (s : str) : bool :=
    match st with
    | Plain => false
    | SingleGo => negb (forallb (sq_safe is_print) s)
    | SingleCue => existsb is_break s
    | Literal => negb (literal_ok s)
    | Double => false
    end.

  Theorem style_choice_safe_when : forall is_key multi col0 root p n s suffix,
    Forall rune32 s -> (p < n)%nat -> suffix_ok suffix ->
    style_gap col0 (choose is_key multi s) s = false ->
    read_any tok_number p root col0 suffix (emit_doc (choose is_key multi s) n s suffix) = Some s.
  Proof.
    intros is_key multi col0 root p n s suffix Hr Hpn Hsuf Hgap.
    destruct (choose is_key multi s) eqn:Est; cbn [style_gap] in Hgap; unfold emit_doc, emit.
    - (* plain *)
      pose proof (plain_choice_ok tok_number tok_isnumber tok_timestamp is_key multi col0 s Est) as Hok.
      pose proof (plain_choice_resolves_str tok_number tok_isnumber tok_timestamp number_isnumber is_key multi s Est) as Hstr.
      destruct (plain_ok_parts col0 s Hok) as [Hf [_ [_ [_ [_ [_ Hdm]]]]]].
      destruct s as [|c r]; [discriminate|].
      destruct (plain_first_not_quote c r Hf) as [Hbar [Hdq Hsq]].
      cbn [app]. unfold read_any. rewrite Hbar.
      change (c :: r ++ suffix) with ((c :: r) ++ suffix).
      assert (Hdoc : col0 && doc_marker ((c :: r) ++ suffix) = false).
      { destruct col0; [|reflexivity]. cbn [andb] in *.
        destruct (doc_marker ((c :: r) ++ suffix)) eqn:E; [|reflexivity].
        apply doc_marker_app in E; auto; [congruence|discriminate]. }
      rewrite Hdoc.
      unfold read_flow_rest. cbn [app]. rewrite Hdq, Hsq.
      change (c :: r ++ suffix) with ((c :: r) ++ suffix).
      rewrite (plain_roundtrip_when col0 (c :: r) suffix Hok (suffix_stops _ Hsuf)).
      rewrite Hstr, Hf. cbn [is_tstr andb]. rewrite str_eqb_refl. reflexivity.
    - (* cue single quotes *)
      unfold emit_single_cue, read_any. cbn [app]. change (c_sq =? c_bar) with false. cbv iota.
      rewrite doc_marker_first by reflexivity. rewrite andb_false_r.
      unfold read_flow_rest. change (c_sq =? c_dq) with false. change (c_sq =? c_sq) with true. cbv iota.
      rewrite <- app_assoc. cbn [app].
      rewrite ps_loop_cue; [|exact Hgap|apply suffix_not_sq; exact Hsuf]. cbn [rev app]. rewrite str_eqb_refl. reflexivity.
    - (* goccy single quotes *)
      apply negb_false_iff in Hgap.
      unfold emit_single_go, read_any. cbn [app]. change (c_sq =? c_bar) with false. cbv iota.
      rewrite doc_marker_first by reflexivity. rewrite andb_false_r.
      unfold read_flow_rest. change (c_sq =? c_dq) with false. change (c_sq =? c_sq) with true. cbv iota.
      rewrite <- app_assoc. cbn [app]. rewrite flat_go_eq by auto.
      rewrite ps_loop_cue; [|eapply sq_safe_no_break; eauto|apply suffix_not_sq; exact Hsuf].
      cbn [rev app]. rewrite str_eqb_refl. reflexivity.
    - (* double quotes *)
      unfold emit_double, read_any. cbn [app]. change (c_dq =? c_bar) with false. cbv iota.
      rewrite doc_marker_first by reflexivity. rewrite andb_false_r.
      unfold read_flow_rest. change (c_dq =? c_dq) with true. cbv iota.
      rewrite <- app_assoc. cbn [app].
      rewrite (pd_loop_emit is_print print_not_break s suffix []); auto.
      cbn [rev app]. rewrite str_eqb_refl. reflexivity.
    - (* literal block *)
      apply negb_false_iff in Hgap.
      unfold read_any.
      assert (Hhd : exists r, emit_literal n s = c_bar :: r).
      { unfold emit_literal. destruct (literal_chomp s); cbn; eexists; reflexivity. }
      destruct Hhd as [r Er]. rewrite Er. change (c_bar =? c_bar) with true. cbv iota. rewrite <- Er.
      apply literal_roundtrip_when; auto.
  Qed.

  (* for a literal block the encoder's own test leaves exactly the classes of literal_gap *)
  Theorem literal_choice_gap : forall is_key multi s,
    choose is_key multi s = Literal -> literal_ok s = false -> literal_gap s = true.
  Proof.
    intros is_key multi s H Hn. apply literal_safe_gap; auto.
    unfold choose, choose_style in H. destruct is_key.
    - unfold key_style, goccy_string_style in H.
      repeat match type of H with (if ?b then _ else _) = _ => destruct b; try discriminate end.
    - unfold value_style, goccy_string_style in H.
      destruct (has_nl s).
      + destruct (multi && block_literal_safe s) eqn:E; [|discriminate].
        apply andb_true_iff in E. tauto.
      + destruct (multi && block_literal_safe s) eqn:E.
        * apply andb_true_iff in E. tauto.
        * repeat match type of H with (if ?b then _ else _) = _ => destruct b; try discriminate end.
  Qed.
End Final.
