(* C10 - the readers only produce well-formed values; hence the document-level
   statement: Impl = Spec under the exact side condition. *)
From Verif Require Import Json.Model Json.Cue Json.Data Json.Utf8Proofs Json.StringProofs Json.NumProofs
  Json.RoundTrip Json.CueNumProofs Json.DataProofs Json.Refine.
From Coq Require Import Lia ZifyN ZifyNat ZifyBool.

Lemma parse_number_wf : forall t n r, parse_number t = Some (n, r) -> wf_num n = true.
Proof.
  intros t n r H. unfold parse_number in H.
  destruct (match t with [] => (false, t) | c :: r0 => if c =? 45 then (true, r0) else (false, t) end) as [neg s1].
  destruct (span_digits s1) as [ip s2] eqn:Es.
  destruct ip as [|d ds]; [discriminate|].
  destruct ((d =? 48) && negb match ds with [] => true | _ => false end) eqn:Elz; [discriminate|].
  destruct (parse_frac s2) as [[fp s3]|] eqn:Ef; [|discriminate].
  destruct (parse_exp s3) as [[e s4]|]; [|discriminate].
  inversion H; subst; clear H. unfold wf_num. cbn [jint jfrac].
  destruct (span_digits_inv _ _ _ Es) as (_ & Hd & _). rewrite Hd.
  destruct (parse_frac_inv _ _ _ Ef) as (ftxt & _ & Hfs & _).
  assert (Hfd : forallb is_digit fp = true) by (inversion Hfs; subst; [reflexivity|assumption]).
  rewrite Hfd, Elz. reflexivity.
Qed.

Lemma hexval_lt16 : forall a x, hexval a = Some x -> x < 16.
Proof.
  intros a x H. unfold hexval in H.
  destruct ((48 <=? a) && (a <=? 57)) eqn:E1; [inversion H; lia|].
  destruct ((97 <=? a) && (a <=? 102)) eqn:E2; [inversion H; lia|].
  destruct ((65 <=? a) && (a <=? 70)) eqn:E3; [inversion H; lia|discriminate].
Qed.

Lemma hex4_lt : forall s u r, hex4 s = Some (u, r) -> u < 65536.
Proof.
  intros [|a [|b [|c [|d r']]]] u r H; cbn [hex4] in H; try discriminate.
  destruct (hexval a) eqn:Ea; [|discriminate]. destruct (hexval b) eqn:Eb; [|discriminate].
  destruct (hexval c) eqn:Ec; [|discriminate]. destruct (hexval d) eqn:Ed; [|discriminate].
  inversion H; subst.
  pose proof (hexval_lt16 _ _ Ea). pose proof (hexval_lt16 _ _ Eb).
  pose proof (hexval_lt16 _ _ Ec). pose proof (hexval_lt16 _ _ Ed). lia.
Qed.

Lemma scons_scalar : forall c o v t, scons c o = Some (v, t) -> is_scalar c = true ->
  (forall v' t', o = Some (v', t') -> forallb is_scalar v' = true) -> forallb is_scalar v = true.
Proof.
  intros c [[l t']|] v t H Hc Ho; cbn in H; [|discriminate]. inversion H; subst.
  cbn [forallb]. rewrite Hc. apply (Ho l t eq_refl).
Qed.

Lemma parse_str_scalar : forall m f s v t, parse_str m f s = Some (v, t) -> forallb is_scalar v = true.
Proof.
  intros m. induction f as [|f IH]; intros s v t H; [discriminate|].
  cbn [parse_str] in H. destruct s as [|c r]; [discriminate|].
  destruct (c =? 34); [inversion H; reflexivity|].
  destruct (N.eqb_spec c 92) as [Ec|Ec].
  - destruct r as [|e r1]; [discriminate|].
    destruct (e =? 117).
    + destruct (hex4 r1) as [[u r2]|] eqn:Eh; [|discriminate].
      pose proof (hex4_lt _ _ _ Eh) as Hu.
      destruct (is_high u) eqn:Ehi.
      * destruct (low_escape r2) as [[l r3]|] eqn:El.
        -- apply (scons_scalar _ _ _ _ H); [|intros; eapply IH; eassumption].
           unfold low_escape in El. destruct r2 as [|c1 [|c2 r2']]; try discriminate.
           destruct ((c1 =? 92) && (c2 =? 117)); [|discriminate].
           destruct (hex4 r2') as [[l' r']|] eqn:Eh2; [|discriminate].
           destruct (is_low l') eqn:Elo; [|discriminate]. inversion El; subst.
           unfold is_scalar, is_surrogate, combine_surr, is_high, is_low in *. lia.
        -- destruct (rej_lone m); [discriminate|].
           apply (scons_scalar _ _ _ _ H); [reflexivity|intros; eapply IH; eassumption].
      * destruct (is_low u) eqn:Elo.
        -- destruct (rej_lone m); [discriminate|].
           apply (scons_scalar _ _ _ _ H); [reflexivity|intros; eapply IH; eassumption].
        -- apply (scons_scalar _ _ _ _ H); [|intros; eapply IH; eassumption].
           unfold is_scalar, is_surrogate, is_high, is_low in *. lia.
    + destruct (simple_escape e) as [x|] eqn:Es; [|discriminate].
      apply (scons_scalar _ _ _ _ H); [|intros; eapply IH; eassumption].
      unfold simple_escape in Es.
      repeat match type of Es with
      | (if ?a then _ else _) = _ => destruct a; [inversion Es; reflexivity|]
      end. discriminate.
  - destruct (N.ltb_spec c 32); [discriminate|].
    destruct (N.ltb_spec c 128).
    + apply (scons_scalar _ _ _ _ H); [|intros; eapply IH; eassumption].
      apply is_scalar_spec. lia.
    + destruct (utf8_decode (c :: r)) as [[cp r']|] eqn:Ed; [|discriminate].
      destruct (rej_bom m && (cp =? 65279)); [discriminate|].
      apply (scons_scalar _ _ _ _ H); [|intros; eapply IH; eassumption].
      apply (decode_inv _ _ _ Ed).
Qed.

Lemma parse_wf_all : forall m f,
  (forall s v t, parse_value m f s = Some (v, t) -> wf_value v = true) /\
  (forall s l t, parse_elems m f s = Some (l, t) -> forallb wf_value l = true) /\
  (forall s l t, parse_members m f s = Some (l, t) ->
     forallb (fun kv => forallb is_scalar (fst kv) && wf_value (snd kv)) l = true).
Proof.
  intros m. induction f as [|f (IHv & IHe & IHm)]; [repeat split; intros; discriminate|].
  repeat split.
  - intros s v t H. cbn [parse_value] in H. destruct (skip_ws s) as [|c r]; [discriminate|].
    destruct (c =? 123).
    { destruct (skip_ws r) as [|c' r']; [discriminate|]. destruct (c' =? 125); [inversion H; reflexivity|].
      destruct (parse_members m f (c' :: r')) as [[l u]|] eqn:E; [|discriminate].
      inversion H; subst. cbn [wf_value]. eapply IHm; eassumption. }
    destruct (c =? 91).
    { destruct (skip_ws r) as [|c' r']; [discriminate|]. destruct (c' =? 93); [inversion H; reflexivity|].
      destruct (parse_elems m f (c' :: r')) as [[l u]|] eqn:E; [|discriminate].
      inversion H; subst. cbn [wf_value]. eapply IHe; eassumption. }
    destruct (c =? 34).
    { destruct (parse_str m (length r) r) as [[x u]|] eqn:E; [|discriminate].
      inversion H; subst. cbn [wf_value]. eapply parse_str_scalar; eassumption. }
    destruct (c =? 116).
    { destruct (strip_prefix [114; 117; 101] r); [inversion H; reflexivity|discriminate]. }
    destruct (c =? 102).
    { destruct (strip_prefix [97; 108; 115; 101] r); [inversion H; reflexivity|discriminate]. }
    destruct (c =? 110).
    { destruct (strip_prefix [117; 108; 108] r); [inversion H; reflexivity|discriminate]. }
    destruct ((c =? 45) || is_digit c); [|discriminate].
    destruct (parse_number (c :: r)) as [[n u]|] eqn:E; [|discriminate].
    inversion H; subst. cbn [wf_value]. eapply parse_number_wf; eassumption.
  - intros s l t H. cbn [parse_elems] in H.
    destruct (parse_value m f s) as [[v u]|] eqn:E; [|discriminate].
    destruct (skip_ws u) as [|c r]; [discriminate|].
    destruct (c =? 44).
    + destruct (parse_elems m f r) as [[l' t']|] eqn:E2; [|discriminate]. inversion H; subst.
      cbn [forallb]. rewrite (IHv _ _ _ E), (IHe _ _ _ E2). reflexivity.
    + destruct (c =? 93); [|discriminate]. inversion H; subst. cbn [forallb]. rewrite (IHv _ _ _ E). reflexivity.
  - intros s l t H. cbn [parse_members] in H. destruct (skip_ws s) as [|c r]; [discriminate|].
    destruct (c =? 34); [|discriminate].
    destruct (parse_str m (length r) r) as [[k u]|] eqn:Ek; [|discriminate].
    destruct (skip_ws u) as [|c2 r2]; [discriminate|]. destruct (c2 =? 58); [|discriminate].
    destruct (parse_value m f r2) as [[v t2]|] eqn:E; [|discriminate].
    destruct (skip_ws t2) as [|c3 r3]; [discriminate|].
    destruct (c3 =? 44).
    + destruct (parse_members m f r3) as [[l' t']|] eqn:E3; [|discriminate]. inversion H; subst.
      cbn [forallb fst snd]. rewrite (parse_str_scalar _ _ _ _ _ Ek), (IHv _ _ _ E), (IHm _ _ _ E3). reflexivity.
    + destruct (c3 =? 125); [|discriminate]. inversion H; subst.
      cbn [forallb fst snd]. rewrite (parse_str_scalar _ _ _ _ _ Ek), (IHv _ _ _ E). reflexivity.
Qed.

(* THEOREM: every value a reader returns is well-formed, so print . parse is a normal form *)
Theorem parse_wf : forall m s v, json_parse_gen m s = Some v -> wf_value v = true.
Proof.
  intros m s v H. unfold json_parse_gen in H.
  destruct (parse_value m (S (length s)) s) as [[v' t]|] eqn:E; [|discriminate].
  destruct (skip_ws t); [|discriminate]. inversion H; subst.
  destruct (parse_wf_all m (S (length s))) as (Hv & _ & _). eapply Hv; eassumption.
Qed.

Theorem parse_print_parse : forall s v, json_parse s = Some v -> json_parse (json_print v) = Some v.
Proof. intros s v H. apply json_parse_print. eapply parse_wf; eassumption. Qed.

(* THEOREM (document level, Impl = Spec under the exact side condition): if the Cue-mode
   reader accepts a text, no object repeats a name and every number is inside apd's range,
   then what /repo makes of the text is what RFC 8259 / encoding/json make of it. *)
Theorem cue_decode_is_spec_when : forall s v, json_parse_gen Cue s = Some v ->
  dup_keys v = false -> nums_in_range v = true ->
  cue_decode s = spec_decode s /\ spec_decode s = Some (spec_data v).
Proof.
  intros s v H Hd Hr. unfold cue_decode, spec_decode.
  rewrite H, (cue_parse_refines_std _ _ H). cbn [option_map].
  rewrite (cue_data_spec_when v (parse_wf _ _ _ H) Hd Hr). auto.
Qed.
