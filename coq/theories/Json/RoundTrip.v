(* C10 - json_parse (json_print v) = Some v for every well-formed value, by
   induction on the value with explicit fuel sufficiency. *)
From Verif Require Import Json.Model Json.Utf8Proofs Json.StringProofs Json.NumProofs.
From Coq Require Import Lia ZifyN ZifyNat ZifyBool.

(* ------------------------------------------------ induction principle ---- *)
Section JInd.
  Variable P : jvalue -> Prop.
  Hypothesis Hnull : P JNull.
  Hypothesis Hbool : forall b, P (JBool b).
  Hypothesis Hnum : forall n, P (JNum n).
  Hypothesis Hstr : forall s, P (JStr s).
  Hypothesis Harr : forall l, Forall P l -> P (JArr l).
  Hypothesis Hobj : forall l, Forall (fun kv => P (snd kv)) l -> P (JObj l).
  Fixpoint jvalue_ind' (v : jvalue) : P v :=
    match v with
    | JNull => Hnull
    | JBool b => Hbool b
    | JNum n => Hnum n
    | JStr s => Hstr s
    | JArr l => Harr l ((fix go (l : list jvalue) : Forall P l :=
                           match l with
                           | [] => Forall_nil _
                           | x :: r => Forall_cons _ (jvalue_ind' x) (go r)
                           end) l)
    | JObj l => Hobj l ((fix go (l : list (list N * jvalue)) : Forall (fun kv => P (snd kv)) l :=
                           match l with
                           | [] => Forall_nil _
                           | x :: r => Forall_cons _ (jvalue_ind' (snd x)) (go r)
                           end) l)
    end.
End JInd.

(* ------------------------------------------------ printer, unfolded ---- *)
Definition print_rest (l : list jvalue) : bytes := flat_map (fun w => 44 :: json_print w) l.
Definition print_member (kv : list N * jvalue) : bytes :=
  json_escape (fst kv) ++ 58 :: json_print (snd kv).
Definition print_mrest (l : list (list N * jvalue)) : bytes :=
  flat_map (fun kv => 44 :: print_member kv) l.

Lemma print_arr_cons : forall v0 l0,
  json_print (JArr (v0 :: l0)) = 91 :: json_print v0 ++ print_rest l0 ++ [93].
Proof.
  intros v0 l0. cbn [json_print]. f_equal. rewrite <- app_assoc. reflexivity.
Qed.

Lemma print_obj_cons : forall kv0 l0,
  json_print (JObj (kv0 :: l0)) = 123 :: print_member kv0 ++ print_mrest l0 ++ [125].
Proof.
  intros [k0 v0] l0. cbn [json_print]. f_equal. unfold print_member. cbn [fst snd].
  rewrite <- !app_assoc. f_equal. cbn [app]. f_equal. rewrite <- app_assoc. f_equal. f_equal.
  induction l0 as [|[k w] l IH]; [reflexivity|].
  unfold print_mrest, print_member. cbn [flat_map app fst snd]. f_equal.
  rewrite <- !app_assoc. f_equal. cbn [app]. f_equal. f_equal. apply IH.
Qed.

(* ------------------------------------------------------------- fuel ---- *)
Fixpoint jfuel (v : jvalue) : nat :=
  match v with
  | JArr l => S (fold_right (fun w acc => S (jfuel w + acc)) 0%nat l)
  | JObj l => S (fold_right (fun kv acc => S (jfuel (snd kv) + acc)) 0%nat l)
  | _ => 1%nat
  end.

Definition elems_fuel (l : list jvalue) : nat := fold_right (fun w acc => S (jfuel w + acc)) 0%nat l.
Definition members_fuel (l : list (list N * jvalue)) : nat :=
  fold_right (fun kv acc => S (jfuel (snd kv) + acc)) 0%nat l.

(* values without U+FEFF in any string or key: needed in Cue mode only *)
Fixpoint bom_free (v : jvalue) : bool :=
  match v with
  | JStr s => negb (existsb (N.eqb 0xFEFF) s)
  | JArr l => forallb bom_free l
  | JObj l => forallb (fun kv => negb (existsb (N.eqb 0xFEFF) (fst kv)) && bom_free (snd kv)) l
  | _ => true
  end.

Lemma existsb_In_FEFF : forall s, negb (existsb (N.eqb 0xFEFF) s) = true -> ~ In 0xFEFF s.
Proof.
  intros s H Hin. apply negb_true_iff in H.
  assert (existsb (N.eqb 0xFEFF) s = true); [|congruence].
  apply existsb_exists. exists 0xFEFF. split; [assumption|reflexivity].
Qed.

(* ------------------------------------------------- first characters ---- *)
Lemma json_escape_head : forall s, exists t, json_escape s = 34 :: t.
Proof. intro s. eexists. reflexivity. Qed.

Definition head_ok (c : N) : Prop :=
  is_ws c = false /\ c <> 93 /\ c <> 125 /\ c <> 44 /\ c <> 58.

Lemma print_head : forall v, wf_value v = true ->
  exists c t, json_print v = c :: t /\ head_ok c.
Proof.
  intros v H. destruct v as [| [|] | n | s | l | l].
  - eexists; eexists; split; [reflexivity|]. repeat split; cbn; congruence.
  - eexists; eexists; split; [reflexivity|]. repeat split; cbn; congruence.
  - eexists; eexists; split; [reflexivity|]. repeat split; cbn; congruence.
  - cbn [wf_value] in H. destruct (print_num_head n H) as (c & t & E & Hc).
    exists c, t. split; [exact E|]. unfold head_ok, is_ws, is_digit in *. lia.
  - eexists; eexists; split; [reflexivity|]. repeat split; cbn; congruence.
  - eexists; eexists; split; [reflexivity|]. repeat split; cbn; congruence.
  - eexists; eexists; split; [reflexivity|]. repeat split; cbn; congruence.
Qed.

Lemma skip_ws_head : forall c t, is_ws c = false -> skip_ws (c :: t) = c :: t.
Proof. intros c t H. cbn [skip_ws]. rewrite H. reflexivity. Qed.

(* what follows a printed value inside a printed document *)
Definition follow_ok (s : bytes) : bool := num_follow_ok s.

Lemma follow_44 : forall t, follow_ok (44 :: t) = true. Proof. reflexivity. Qed.
Lemma follow_93 : forall t, follow_ok (93 :: t) = true. Proof. reflexivity. Qed.
Lemma follow_125 : forall t, follow_ok (125 :: t) = true. Proof. reflexivity. Qed.

Lemma print_rest_follow : forall l tail, follow_ok (print_rest l ++ 93 :: tail) = true.
Proof. intros [|w l] tail; reflexivity. Qed.
Lemma print_mrest_follow : forall l tail, follow_ok (print_mrest l ++ 125 :: tail) = true.
Proof. intros [|w l] tail; reflexivity. Qed.

(* ------------------------------------------------------ the round trip ---- *)
Definition RT (m : mode) (v : jvalue) : Prop :=
  wf_value v = true -> (rej_bom m = true -> bom_free v = true) ->
  forall fuel tail, (jfuel v <= fuel)%nat -> follow_ok tail = true ->
  parse_value m fuel (json_print v ++ tail) = Some (v, tail).

Lemma parse_key : forall m k tail, forallb is_scalar k = true ->
  (rej_bom m = true -> ~ In 0xFEFF k) ->
  exists body, json_escape k ++ tail = 34 :: body /\
               parse_str m (length body) body = Some (k, tail).
Proof.
  intros m k tail Hs Hb. rewrite json_escape_eq by assumption.
  eexists. split; [cbn [app]; reflexivity|].
  rewrite <- app_assoc. cbn [app]. apply parse_str_escaped; try assumption.
  rewrite app_length. pose proof (flat_map_esc_length k). cbn [length]. lia.
Qed.

Lemma RT_elems : forall m l, Forall (RT m) l ->
  forallb wf_value l = true -> (rej_bom m = true -> forallb bom_free l = true) ->
  forall v0 l0, l = v0 :: l0 ->
  forall fuel tail, (elems_fuel l <= fuel)%nat ->
  parse_elems m fuel (json_print v0 ++ print_rest l0 ++ 93 :: tail) = Some (l, tail).
Proof.
  intros m l HF. induction HF as [|v l Hv HF IH]; intros Hwf Hb v0 l0 E fuel tail Hfuel.
  - discriminate.
  - inversion E; subst v0 l0; clear E.
    cbn [forallb] in Hwf. apply andb_true_iff in Hwf. destruct Hwf as [Hwv Hwl].
    assert (Hbv : rej_bom m = true -> bom_free v = true).
    { intro H. specialize (Hb H). cbn [forallb] in Hb. apply andb_true_iff in Hb. tauto. }
    assert (Hbl : rej_bom m = true -> forallb bom_free l = true).
    { intro H. specialize (Hb H). cbn [forallb] in Hb. apply andb_true_iff in Hb. tauto. }
    unfold elems_fuel in Hfuel. cbn [fold_right] in Hfuel. fold (elems_fuel l) in Hfuel.
    destruct fuel as [|f]; [lia|]. cbn [parse_elems].
    rewrite (Hv Hwv Hbv f _ ltac:(lia) (print_rest_follow l tail)).
    destruct l as [|w l'].
    + cbn [print_rest flat_map app skip_ws]. change (is_ws 93) with false. cbv iota.
      change (93 =? 44) with false. change (93 =? 93) with true. reflexivity.
    + unfold print_rest. cbn [flat_map app skip_ws]. change (is_ws 44) with false. cbv iota.
      change (44 =? 44) with true. cbv iota. rewrite <- app_assoc.
      fold (print_rest l').
      rewrite (IH Hwl Hbl w l' eq_refl f tail ltac:(lia)). reflexivity.
Qed.

Lemma RT_members : forall m l, Forall (fun kv => RT m (snd kv)) l ->
  forallb (fun kv => forallb is_scalar (fst kv) && wf_value (snd kv)) l = true ->
  (rej_bom m = true ->
   forallb (fun kv => negb (existsb (N.eqb 0xFEFF) (fst kv)) && bom_free (snd kv)) l = true) ->
  forall kv0 l0, l = kv0 :: l0 ->
  forall fuel tail, (members_fuel l <= fuel)%nat ->
  parse_members m fuel (print_member kv0 ++ print_mrest l0 ++ 125 :: tail) = Some (l, tail).
Proof.
  intros m l HF. induction HF as [|[k v] l Hv HF IH]; intros Hwf Hb kv0 l0 E fuel tail Hfuel.
  - discriminate.
  - inversion E; subst kv0 l0; clear E. cbn [snd] in Hv.
    cbn [forallb fst snd] in Hwf. apply andb_true_iff in Hwf. destruct Hwf as [Hwkv Hwl].
    apply andb_true_iff in Hwkv. destruct Hwkv as [Hwk Hwv].
    assert (Hbk : rej_bom m = true -> ~ In 0xFEFF k).
    { intro H. specialize (Hb H). cbn [forallb fst snd] in Hb. apply andb_true_iff in Hb.
      destruct Hb as [Hb _]. apply andb_true_iff in Hb. apply existsb_In_FEFF. tauto. }
    assert (Hbv : rej_bom m = true -> bom_free v = true).
    { intro H. specialize (Hb H). cbn [forallb fst snd] in Hb. apply andb_true_iff in Hb.
      destruct Hb as [Hb _]. apply andb_true_iff in Hb. tauto. }
    assert (Hbl : rej_bom m = true ->
      forallb (fun kv => negb (existsb (N.eqb 0xFEFF) (fst kv)) && bom_free (snd kv)) l = true).
    { intro H. specialize (Hb H). cbn [forallb] in Hb. apply andb_true_iff in Hb. tauto. }
    unfold members_fuel in Hfuel. cbn [fold_right snd] in Hfuel. fold (members_fuel l) in Hfuel.
    destruct fuel as [|f]; [lia|]. cbn [parse_members].
    unfold print_member at 1. cbn [fst snd]. rewrite <- app_assoc.
    destruct (parse_key m k ((58 :: json_print v) ++ print_mrest l ++ 125 :: tail) Hwk Hbk)
      as (body & Ebody & Hparse).
    rewrite Ebody. rewrite skip_ws_head by reflexivity.
    change (34 =? 34) with true. cbv iota. rewrite Hparse.
    cbn [app skip_ws]. change (is_ws 58) with false. cbv iota. change (58 =? 58) with true. cbv iota.
    rewrite (Hv Hwv Hbv f _ ltac:(lia) (print_mrest_follow l tail)).
    destruct l as [|[k' w] l'].
    + cbn [print_mrest flat_map app skip_ws]. change (is_ws 125) with false. cbv iota.
      change (125 =? 44) with false. change (125 =? 125) with true. reflexivity.
    + unfold print_mrest. cbn [flat_map app skip_ws]. change (is_ws 44) with false. cbv iota.
      change (44 =? 44) with true. cbv iota. rewrite <- app_assoc.
      fold (print_mrest l').
      rewrite (IH Hwl Hbl (k', w) l' eq_refl f tail ltac:(lia)). reflexivity.
Qed.

Lemma strip_prefix_app : forall p t, strip_prefix p (p ++ t) = Some t.
Proof.
  induction p as [|a p IH]; intro t; [reflexivity|]. cbn [app strip_prefix].
  rewrite N.eqb_refl. apply IH.
Qed.

Lemma RT_all : forall m v, RT m v.
Proof.
  intro m. apply jvalue_ind'.
  - intros _ _ [|f] tail Hf Ht; [cbn in Hf; lia|]. reflexivity.
  - intros [|] _ _ [|f] tail Hf Ht; try (cbn in Hf; lia); reflexivity.
  - intros n Hwf _ [|f] tail Hf Ht; [cbn in Hf; lia|].
    cbn [wf_value] in Hwf. cbn [json_print parse_value].
    destruct (print_num_head n Hwf) as (c & t & E & Hc).
    assert (Hws : is_ws c = false) by (unfold is_ws, is_digit in *; lia).
    pose proof (parse_number_print n tail Hwf Ht) as Hp.
    rewrite E in Hp |- *. cbn [app] in Hp |- *. rewrite skip_ws_head by assumption.
    assert (c =? 123 = false) by (unfold is_digit in *; lia).
    assert (c =? 91 = false) by (unfold is_digit in *; lia).
    assert (c =? 34 = false) by (unfold is_digit in *; lia).
    assert (c =? 116 = false) by (unfold is_digit in *; lia).
    assert (c =? 102 = false) by (unfold is_digit in *; lia).
    assert (c =? 110 = false) by (unfold is_digit in *; lia).
    rewrite H, H0, H1, H2, H3, H4, Hc, Hp. reflexivity.
  - intros s Hwf Hb [|f] tail Hf Ht; [cbn in Hf; lia|].
    cbn [wf_value] in Hwf. cbn [json_print parse_value].
    assert (Hbs : rej_bom m = true -> ~ In 0xFEFF s).
    { intro H. apply existsb_In_FEFF. apply (Hb H). }
    destruct (parse_key m s tail Hwf Hbs) as (body & Ebody & Hparse).
    rewrite Ebody. rewrite skip_ws_head by reflexivity.
    change (34 =? 123) with false. change (34 =? 91) with false. change (34 =? 34) with true.
    cbv iota. rewrite Hparse. reflexivity.
  - intros l HF Hwf Hb [|f] tail Hf Ht; [cbn in Hf; lia|].
    cbn [wf_value] in Hwf. destruct l as [|v0 l0]; [reflexivity|].
    rewrite print_arr_cons. cbn [app parse_value]. rewrite skip_ws_head by reflexivity.
    change (91 =? 123) with false. change (91 =? 91) with true. cbv iota.
    assert (Hw0 : wf_value v0 = true) by (cbn in Hwf; apply andb_true_iff in Hwf; tauto).
    destruct (print_head v0 Hw0) as (c & t & E & Hws & H93 & _).
    rewrite E. cbn [app]. rewrite skip_ws_head by assumption.
    destruct (N.eqb_spec c 93); [contradiction|].
    match goal with |- context [parse_elems m f ?x] =>
      replace x with (json_print v0 ++ print_rest l0 ++ 93 :: tail)
        by (rewrite E; cbn [app]; rewrite <- !app_assoc; reflexivity) end.
    cbn [jfuel] in Hf. fold (elems_fuel (v0 :: l0)) in Hf.
    rewrite (RT_elems m (v0 :: l0) HF Hwf Hb v0 l0 eq_refl f tail ltac:(lia)). reflexivity.
  - intros l HF Hwf Hb [|f] tail Hf Ht; [cbn in Hf; lia|].
    cbn [wf_value] in Hwf. destruct l as [|kv0 l0]; [reflexivity|].
    rewrite print_obj_cons. cbn [app parse_value]. rewrite skip_ws_head by reflexivity.
    change (123 =? 123) with true. cbv iota.
    unfold print_member at 1. destruct (json_escape_head (fst kv0)) as (t & E).
    rewrite E. cbn [app]. rewrite skip_ws_head by reflexivity.
    change (34 =? 125) with false. cbv iota.
    match goal with |- context [parse_members m f ?x] =>
      replace x with (print_member kv0 ++ print_mrest l0 ++ 125 :: tail)
        by (unfold print_member; rewrite E; cbn [app]; rewrite <- !app_assoc; reflexivity) end.
    cbn [jfuel] in Hf. fold (members_fuel (kv0 :: l0)) in Hf.
    rewrite (RT_members m (kv0 :: l0) HF Hwf Hb kv0 l0 eq_refl f tail ltac:(lia)). reflexivity.
Qed.

(* ------------------------------------------------ fuel sufficiency ---- *)
Lemma json_escape_length : forall s, (2 <= length (json_escape s))%nat.
Proof.
  intro s. unfold json_escape, go_json_string. cbn [length]. rewrite app_length. cbn [length]. lia.
Qed.

Lemma jfuel_le_length : forall v, wf_value v = true -> (jfuel v <= length (json_print v))%nat.
Proof.
  apply (jvalue_ind' (fun v => wf_value v = true -> (jfuel v <= length (json_print v))%nat)).
  - intros _. cbn. lia.
  - intros [|] _; cbn; lia.
  - intros n H. cbn [wf_value] in H. cbn [jfuel json_print]. apply print_num_length. assumption.
  - intros s _. cbn [jfuel json_print]. pose proof (json_escape_length s). lia.
  - intros l HF Hwf. cbn [wf_value] in Hwf. destruct l as [|v0 l0]; [cbn; lia|].
    rewrite print_arr_cons. cbn [jfuel fold_right length]. rewrite !app_length. cbn [length].
    inversion HF as [|? ? H0 HF0]; subst.
    cbn [forallb] in Hwf. apply andb_true_iff in Hwf. destruct Hwf as [Hw0 Hwl].
    specialize (H0 Hw0).
    assert (fold_right (fun w acc => S (jfuel w + acc)) 0%nat l0 <= length (print_rest l0))%nat.
    { clear H0 Hw0 HF. induction HF0 as [|w l Hw HF IH]; [cbn; lia|].
      cbn [forallb] in Hwl. apply andb_true_iff in Hwl. destruct Hwl as [Hww Hwl].
      unfold print_rest. cbn [fold_right flat_map]. rewrite app_length. cbn [length].
      fold (print_rest l). specialize (Hw Hww). specialize (IH Hwl). lia. }
    lia.
  - intros l HF Hwf. cbn [wf_value] in Hwf. destruct l as [|[k0 v0] l0]; [cbn; lia|].
    rewrite print_obj_cons. cbn [jfuel fold_right length snd]. rewrite !app_length. cbn [length].
    inversion HF as [|? ? H0 HF0]; subst. cbn [snd] in H0.
    cbn [forallb fst snd] in Hwf. apply andb_true_iff in Hwf. destruct Hwf as [Hw0 Hwl].
    apply andb_true_iff in Hw0. destruct Hw0 as [_ Hw0].
    specialize (H0 Hw0). unfold print_member. cbn [fst snd]. rewrite app_length. cbn [length].
    pose proof (json_escape_length k0).
    assert (fold_right (fun kv acc => S (jfuel (snd kv) + acc)) 0%nat l0 <= length (print_mrest l0))%nat.
    { clear H0 Hw0 HF. induction HF0 as [|[k w] l Hw HF IH]; [cbn; lia|].
      cbn [forallb fst snd] in Hwl. apply andb_true_iff in Hwl. destruct Hwl as [Hww Hwl].
      apply andb_true_iff in Hww. destruct Hww as [_ Hww]. cbn [snd] in Hw.
      unfold print_mrest. cbn [fold_right flat_map snd]. rewrite app_length. cbn [length].
      fold (print_mrest l). unfold print_member. cbn [fst snd]. rewrite app_length. cbn [length].
      specialize (Hw Hww). specialize (IH Hwl). lia. }
    lia.
Qed.

(* THEOREM json_parse_print: every well-formed value (scalar strings and keys,
   well-formed numbers; duplicate keys allowed) is read back exactly from its
   compact printing. *)
Theorem json_parse_print_gen : forall m v, wf_value v = true ->
  (rej_bom m = true -> bom_free v = true) ->
  json_parse_gen m (json_print v) = Some v.
Proof.
  intros m v Hwf Hb. unfold json_parse_gen.
  pose proof (jfuel_le_length v Hwf) as Hl.
  pose proof (RT_all m v Hwf Hb (S (length (json_print v))) [] ltac:(lia) eq_refl) as H.
  rewrite app_nil_r in H. rewrite H. reflexivity.
Qed.

Theorem json_parse_print : forall v, wf_value v = true -> json_parse (json_print v) = Some v.
Proof. intros v H. apply json_parse_print_gen; [assumption|discriminate]. Qed.

Theorem cue_parse_print : forall v, wf_value v = true -> bom_free v = true ->
  json_parse_gen Cue (json_print v) = Some v.
Proof. intros v H Hb. apply json_parse_print_gen; auto. Qed.

(* surrounding whitespace and a following delimiter do not matter: the value is
   read back from any context in which it is followed by a non-number character *)
Theorem parse_value_print_context : forall m v tail, wf_value v = true ->
  (rej_bom m = true -> bom_free v = true) -> follow_ok tail = true ->
  parse_value m (jfuel v) (json_print v ++ tail) = Some (v, tail).
Proof. intros m v tail Hwf Hb Ht. apply RT_all; auto. Qed.
