(* C10 - the string layer: Go's escaper followed by the JSON string reader is
   the identity on every sequence of Unicode scalar values. *)
From Verif Require Import Json.Model Json.Utf8Proofs.
From Coq Require Import Lia ZifyN ZifyNat ZifyBool.
Ltac Zify.zify_post_hook ::= Z.div_mod_to_equations.

(* the escaper seen at code point level *)
Definition esc_cp (c : N) : bytes :=
  if c <? 128 then esc_byte c
  else if (c =? 0x2028) || (c =? 0x2029) then [92; 117; 50; 48; 50; hexdig (c mod 16)]
  else utf8_encode c.

Lemma hexval_hexdig : forall n, n < 16 -> hexval (hexdig n) = Some n.
Proof.
  intros n H. unfold hexval, hexdig. bd_all; f_equal; lia.
Qed.

Lemma hex4_00 : forall c r, c < 256 ->
  hex4 (48 :: 48 :: hexdig (c / 16) :: hexdig (c mod 16) :: r) = Some (c, r).
Proof.
  intros c r H. unfold hex4.
  rewrite !hexval_hexdig by lia. cbn. f_equal. f_equal. lia.
Qed.

Lemma hex4_202 : forall c r, c = 0x2028 \/ c = 0x2029 ->
  hex4 (50 :: 48 :: 50 :: hexdig (c mod 16) :: r) = Some (c, r).
Proof. intros c r [H|H]; subst; reflexivity. Qed.

Lemma go_escape_step_ascii : forall f c r, c < 128 ->
  go_escape (S f) (c :: r) = esc_byte c ++ go_escape f r.
Proof. intros f c r H. cbn [go_escape]. destruct (N.ltb_spec c 128); [reflexivity|lia]. Qed.

Lemma go_escape_encode_all : forall cs, forallb is_scalar cs = true ->
  forall fuel, (length (utf8_encode_all cs) <= fuel)%nat ->
  go_escape fuel (utf8_encode_all cs) = flat_map esc_cp cs.
Proof.
  induction cs as [|c cs IH]; intros Hs fuel Hf.
  - destruct fuel; reflexivity.
  - cbn [forallb] in Hs. apply andb_true_iff in Hs. destruct Hs as [Hc Hs].
    unfold utf8_encode_all in *. cbn [flat_map] in *. rewrite app_length in Hf.
    pose proof (encode_length c) as Hl.
    destruct fuel as [|f]; [lia|].
    unfold esc_cp at 1.
    destruct (N.ltb_spec c 128) as [Hlt|Hge].
    + rewrite encode_ascii by assumption. cbn [app].
      rewrite go_escape_step_ascii by assumption.
      rewrite encode_ascii in Hf by assumption. cbn [length] in Hf.
      rewrite IH by (assumption || lia). reflexivity.
    + destruct (encode_high c Hge) as (b & t & Eb & Hb1 & Hb2).
      assert (Hdec := decode_encode c (flat_map utf8_encode cs) Hc).
      rewrite Eb in Hdec |- *. cbn [app] in Hdec |- *.
      cbn [go_escape]. destruct (N.ltb_spec b 128); [lia|].
      rewrite Hdec. rewrite Eb in Hf. cbn [length] in Hf.
      rewrite IH by (assumption || lia).
      destruct ((c =? 0x2028) || (c =? 0x2029)); [reflexivity|].
      rewrite Eb. reflexivity.
Qed.

Lemma scalar_not_surr : forall c, is_scalar c = true -> is_high c = false /\ is_low c = false.
Proof. intros c H. apply is_scalar_spec in H. unfold is_high, is_low. lia. Qed.

(* one escaped code point is read back as that code point, in one iteration *)
Lemma parse_str_step : forall m c f tail, is_scalar c = true ->
  (rej_bom m = true -> c <> 0xFEFF) ->
  parse_str m (S f) (esc_cp c ++ tail) = scons c (parse_str m f tail).
Proof.
  intros m c f tail Hs Hbom. unfold esc_cp.
  destruct (N.ltb_spec c 128) as [Hlt|Hge].
  - unfold esc_byte.
    destruct (N.eqb_spec c 34) as [->|N34]; [reflexivity|].
    destruct (N.eqb_spec c 92) as [->|N92]; [reflexivity|]. cbn [orb].
    destruct (N.eqb_spec c 8) as [->|N8]; [reflexivity|].
    destruct (N.eqb_spec c 12) as [->|N12]; [reflexivity|].
    destruct (N.eqb_spec c 10) as [->|N10]; [reflexivity|].
    destruct (N.eqb_spec c 13) as [->|N13]; [reflexivity|].
    destruct (N.eqb_spec c 9) as [->|N9]; [reflexivity|].
    destruct (N.ltb_spec c 32) as [L32|G32].
    + cbn [app parse_str]. change (92 =? 34) with false. change (92 =? 92) with true.
      change (117 =? 117) with true. cbv iota.
      rewrite hex4_00 by lia.
      destruct (scalar_not_surr c Hs) as [-> ->]. reflexivity.
    + cbn [app parse_str].
      destruct (N.eqb_spec c 34); [contradiction|].
      destruct (N.eqb_spec c 92); [contradiction|].
      destruct (N.ltb_spec c 32); [lia|].
      destruct (N.ltb_spec c 128); [|lia]. reflexivity.
  - destruct ((c =? 0x2028) || (c =? 0x2029)) eqn:E.
    + cbn [app parse_str]. change (92 =? 34) with false. change (92 =? 92) with true.
      change (117 =? 117) with true. cbv iota.
      rewrite hex4_202 by lia.
      destruct (scalar_not_surr c Hs) as [-> ->]. reflexivity.
    + destruct (encode_high c Hge) as (b & t & Eb & Hb1 & Hb2).
      assert (Hdec := decode_encode c tail Hs).
      rewrite Eb in Hdec |- *. cbn [app] in Hdec |- *. cbn [parse_str].
      destruct (N.eqb_spec b 34); [lia|].
      destruct (N.eqb_spec b 92); [lia|].
      destruct (N.ltb_spec b 32); [lia|].
      destruct (N.ltb_spec b 128); [lia|].
      rewrite Hdec.
      destruct (rej_bom m) eqn:Eb'; cbn [andb]; [|reflexivity].
      destruct (N.eqb_spec c 0xFEFF) as [Hc|_]; [exfalso; apply Hbom; auto|reflexivity].
Qed.

Lemma parse_str_escaped : forall m cs, forallb is_scalar cs = true ->
  (rej_bom m = true -> ~ In 0xFEFF cs) ->
  forall fuel tail, (length cs < fuel)%nat ->
  parse_str m fuel (flat_map esc_cp cs ++ 34 :: tail) = Some (cs, tail).
Proof.
  induction cs as [|c cs IH]; intros Hs Hb fuel tail Hf.
  - destruct fuel; [cbn in Hf; lia|]. reflexivity.
  - cbn [forallb] in Hs. apply andb_true_iff in Hs. destruct Hs as [Hc Hs].
    destruct fuel as [|f]; [lia|]. cbn [flat_map]. rewrite <- app_assoc.
    rewrite parse_str_step; [|assumption|intros H E; apply (Hb H); left; auto].
    rewrite IH; [reflexivity|assumption| |cbn [length] in Hf; lia].
    intros H Hin. apply (Hb H). right. assumption.
Qed.

Lemma esc_cp_nonempty : forall c, (1 <= length (esc_cp c))%nat.
Proof.
  intro c. unfold esc_cp, esc_byte. pose proof (encode_length c).
  repeat match goal with |- context [if ?b then _ else _] => destruct b end; cbn [length]; lia.
Qed.

Lemma flat_map_esc_length : forall cs, (length cs <= length (flat_map esc_cp cs))%nat.
Proof.
  induction cs as [|c cs IH]; [cbn; lia|]. cbn [flat_map length]. rewrite app_length.
  pose proof (esc_cp_nonempty c). lia.
Qed.

(* json_escape in terms of esc_cp *)
Lemma json_escape_eq : forall cs, forallb is_scalar cs = true ->
  json_escape cs = 34 :: flat_map esc_cp cs ++ [34].
Proof.
  intros cs H. unfold json_escape, go_json_string.
  rewrite go_escape_encode_all by (assumption || lia). reflexivity.
Qed.

(* reading an escaped string in any context *)
Lemma parse_str_json_escape : forall m cs tail fuel, forallb is_scalar cs = true ->
  (rej_bom m = true -> ~ In 0xFEFF cs) ->
  (length cs < fuel)%nat ->
  exists body, json_escape cs ++ tail = 34 :: body /\
               parse_str m fuel body = Some (cs, tail).
Proof.
  intros m cs tail fuel Hs Hb Hf. rewrite json_escape_eq by assumption.
  eexists. split; [cbn [app]; reflexivity|].
  rewrite <- app_assoc. cbn [app]. apply parse_str_escaped; assumption.
Qed.

(* THEOREM escape_valid_and_inverse: for every string of Unicode scalar values,
   unescaping what Go's escaper wrote returns the string. *)
Theorem escape_valid_and_inverse : forall cs, forallb is_scalar cs = true ->
  json_unescape (json_escape cs) = Some cs.
Proof.
  intros cs Hs. unfold json_unescape, json_unescape_gen.
  rewrite json_escape_eq by assumption. change (34 =? 34) with true. cbv iota.
  rewrite parse_str_escaped; [reflexivity|assumption|discriminate|].
  rewrite app_length. pose proof (flat_map_esc_length cs). cbn [length]. lia.
Qed.

(* same in Cue mode when the string has no U+FEFF *)
Theorem escape_inverse_cue : forall cs, forallb is_scalar cs = true -> ~ In 0xFEFF cs ->
  json_unescape_gen Cue (json_escape cs) = Some cs.
Proof.
  intros cs Hs Hb. unfold json_unescape_gen.
  rewrite json_escape_eq by assumption. change (34 =? 34) with true. cbv iota.
  rewrite parse_str_escaped; [reflexivity|assumption|auto|].
  rewrite app_length. pose proof (flat_map_esc_length cs). cbn [length]. lia.
Qed.
