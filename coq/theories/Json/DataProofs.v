(* C10 - Spec vs Impl at the data level: without repeated member names and inside
   apd's exponent range, what /repo makes of a JSON value is the JSON value. *)
From Verif Require Import Json.Model Json.Cue Json.Data Json.Utf8Proofs Json.NumProofs Json.RoundTrip
  Json.CueNumProofs.
From Coq Require Import Lia ZifyN ZifyNat ZifyBool.

Lemma key_eqb_spec : forall a b, key_eqb a b = true <-> a = b.
Proof.
  induction a as [|x a IH]; intros [|y b]; cbn [key_eqb]; split; intro H; try discriminate; try reflexivity.
  - apply andb_true_iff in H. destruct H as [Hx H]. apply N.eqb_eq in Hx. apply IH in H. subst. reflexivity.
  - inversion H; subst. rewrite N.eqb_refl. cbn [andb]. apply IH. reflexivity.
Qed.

Lemma key_eqb_false : forall a b, key_eqb a b = false -> a <> b.
Proof. intros a b H E. apply key_eqb_spec in E. congruence. Qed.

Definition fresh (k : list N) (l : list (list N * data)) : Prop :=
  forall kv, In kv l -> key_eqb k (fst kv) = false.

Lemma merge_in_fresh : forall k d l, fresh k l -> merge_in k d l = Some (l ++ [(k, d)]).
Proof.
  induction l as [|[k' d'] l IH]; intro H; [reflexivity|].
  cbn [merge_in]. pose proof (H (k', d') (or_introl eq_refl)) as Hk. cbn [fst] in Hk. rewrite Hk.
  rewrite IH; [reflexivity|]. intros kv Hi. apply H. right. assumption.
Qed.

Lemma set_last_fresh : forall k d l, fresh k l -> set_last k d l = l ++ [(k, d)].
Proof.
  induction l as [|[k' d'] l IH]; intro H; [reflexivity|].
  cbn [set_last]. pose proof (H (k', d') (or_introl eq_refl)) as Hk. cbn [fst] in Hk. rewrite Hk.
  rewrite IH; [reflexivity|]. intros kv Hi. apply H. right. assumption.
Qed.

Lemma existsb_key_false : forall k r, existsb (key_eqb k) r = false ->
  forall k', In k' r -> key_eqb k k' = false.
Proof.
  intros k r H k' Hi. destruct (key_eqb k k') eqn:E; [|reflexivity].
  assert (existsb (key_eqb k) r = true); [|congruence].
  apply existsb_exists. exists k'. auto.
Qed.

Lemma key_eqb_sym : forall a b, key_eqb a b = key_eqb b a.
Proof.
  intros a b. destruct (key_eqb a b) eqn:E1, (key_eqb b a) eqn:E2; try reflexivity.
  - apply key_eqb_spec in E1. subst. assert (key_eqb b b = true) by (apply key_eqb_spec; reflexivity). congruence.
  - apply key_eqb_spec in E2. subst. assert (key_eqb a a = true) by (apply key_eqb_spec; reflexivity). congruence.
Qed.

(* both folds are the identity on lists without repeated names *)
Lemma folds_nodup : forall ps acc,
  has_dup (map fst ps) = false ->
  (forall p, In p ps -> fresh (fst p) acc) ->
  fold_left (fun a p => match a with Some l => merge_in (fst p) (snd p) l | None => None end) ps (Some acc)
    = Some (acc ++ ps) /\
  fold_left (fun a p => set_last (fst p) (snd p) a) ps acc = acc ++ ps.
Proof.
  induction ps as [|[k d] ps IH]; intros acc Hd Hf.
  - cbn. rewrite app_nil_r. auto.
  - cbn [map fst has_dup] in Hd. apply orb_false_iff in Hd. destruct Hd as [Hk Hd].
    cbn [fold_left fst snd].
    assert (Hfk : fresh k acc) by (apply (Hf (k, d)); left; reflexivity).
    rewrite merge_in_fresh, set_last_fresh by assumption.
    assert (Hf' : forall p, In p ps -> fresh (fst p) (acc ++ [(k, d)])).
    { intros p Hp kv Hi. apply in_app_or in Hi. destruct Hi as [Hi|[<-|[]]].
      - apply (Hf p (or_intror Hp)). assumption.
      - cbn [fst]. rewrite key_eqb_sym. apply (existsb_key_false k (map fst ps) Hk).
        apply in_map. assumption. }
    destruct (IH (acc ++ [(k, d)]) Hd Hf') as [H1 H2].
    rewrite H1, H2, <- !app_assoc. auto.
Qed.

Lemma opt_all_map_some : forall (A B : Type) (f : A -> option B) (g : A -> B) l,
  Forall (fun x => f x = Some (g x)) l -> opt_all (map f l) = Some (map g l).
Proof.
  intros A B f g l H. induction H as [|x l Hx H IH]; [reflexivity|].
  cbn [map opt_all]. rewrite Hx, IH. reflexivity.
Qed.

Lemma cue_num_spec : forall n, wf_num n = true -> num_in_range n = true -> cue_num n = Some (spec_num n).
Proof.
  intros n Hwf Hr. unfold cue_num.
  pose proof (parse_number_print n [] Hwf eq_refl) as Hp. rewrite app_nil_r in Hp.
  rewrite (json_number_is_cue_number _ _ Hp Hr). reflexivity.
Qed.

(* THEOREM cue_data_spec_when: the Impl reading of a JSON value is the Spec reading
   when no object repeats a member name and every number is inside apd's range *)
Theorem cue_data_spec_when : forall v, wf_value v = true -> dup_keys v = false ->
  nums_in_range v = true -> cue_data v = Some (spec_data v).
Proof.
  apply (jvalue_ind' (fun v => wf_value v = true -> dup_keys v = false -> nums_in_range v = true ->
                               cue_data v = Some (spec_data v))); try (intros; reflexivity).
  - intros n Hwf _ Hr. cbn [wf_value nums_in_range] in *. cbn [cue_data spec_data].
    apply cue_num_spec; assumption.
  - intros l HF Hwf Hd Hr. cbn [wf_value dup_keys nums_in_range] in *. cbn [cue_data spec_data].
    rewrite (opt_all_map_some _ _ cue_data spec_data); [reflexivity|].
    rewrite Forall_forall in *. intros x Hx. apply (HF x Hx).
    + rewrite forallb_forall in Hwf. auto.
    + destruct (dup_keys x) eqn:E; [|reflexivity].
      assert (existsb dup_keys l = true) by (apply existsb_exists; eauto). congruence.
    + rewrite forallb_forall in Hr. auto.
  - intros l HF Hwf Hd Hr. cbn [wf_value dup_keys nums_in_range] in *. cbn [cue_data spec_data].
    apply orb_false_iff in Hd. destruct Hd as [Hdk Hdv].
    rewrite (opt_all_map_some _ _ (fun kv => option_map (pair (fst kv)) (cue_data (snd kv)))
               (fun kv => (fst kv, spec_data (snd kv)))).
    + set (ps := map (fun kv => (fst kv, spec_data (snd kv))) l).
      assert (Hk : map fst ps = map fst l).
      { subst ps. rewrite map_map. apply map_ext. reflexivity. }
      assert (Hnd : has_dup (map fst ps) = false) by (rewrite Hk; assumption).
      destruct (folds_nodup ps [] Hnd ltac:(intros p _ kv [])) as [H1 H2].
      unfold merge_all, dedup_last. rewrite H1, H2. reflexivity.
    + rewrite Forall_forall in *. intros kv Hkv. rewrite (HF kv Hkv); [reflexivity| | |].
      * rewrite forallb_forall in Hwf. specialize (Hwf kv Hkv). apply andb_true_iff in Hwf. tauto.
      * destruct (dup_keys (snd kv)) eqn:E; [|reflexivity].
        assert (existsb (fun kv => dup_keys (snd kv)) l = true) by (apply existsb_exists; eauto). congruence.
      * rewrite forallb_forall in Hr. auto.
Qed.

(* F12: repeated member names - the faithful model rejects or merges *)
Definition doc_dup_conflict : bytes := [123; 34; 97; 34; 58; 49; 44; 34; 97; 34; 58; 50; 125].
Definition doc_dup_merge : bytes :=
  [123; 34; 97; 34; 58; 123; 34; 98; 34; 58; 49; 125; 44; 34; 97; 34; 58; 123; 34; 99; 34; 58; 50; 125; 125].

Theorem dup_keys_refuted :
  (exists d, spec_decode doc_dup_conflict = Some d /\ cue_decode doc_dup_conflict = None) /\
  (exists d1 d2, spec_decode doc_dup_merge = Some d1 /\ cue_decode doc_dup_merge = Some d2 /\ d1 <> d2).
Proof.
  split.
  - eexists. split; vm_compute; reflexivity.
  - eexists. eexists. split; [vm_compute; reflexivity|]. split; [vm_compute; reflexivity|]. discriminate.
Qed.

(* F10: a raw U+FEFF inside a string *)
Theorem raw_bom_refuted :
  exists doc d, spec_decode doc = Some d /\ cue_decode doc = None.
Proof. exists [34; 0xEF; 0xBB; 0xBF; 34]. eexists. split; vm_compute; reflexivity. Qed.

(* ... which json_print emits raw: the Impl reader rejects the printer's own output *)
Theorem bom_reprint_refuted :
  exists v, wf_value v = true /\ json_parse (json_print v) = Some v /\ json_parse_gen Cue (json_print v) = None.
Proof. exists (JStr [0xFEFF]). split; [reflexivity|]. split; vm_compute; reflexivity. Qed.
