(* C10 - malformed documents are rejected: json_parse_gen m returns None on the
   classes below, for every mode m (hence by the Std, Strict and Cue readers). *)
From Verif Require Import Json.Model Json.Utf8Proofs Json.StringProofs Json.NumProofs Json.RoundTrip.
From Coq Require Import Lia ZifyN ZifyNat ZifyBool.

(* ------------------------------------------------------------ top level ---- *)
Lemma skip_ws_all : forall ws, forallb is_ws ws = true -> skip_ws ws = [].
Proof.
  induction ws as [|c ws IH]; intro H; [reflexivity|].
  cbn [forallb] in H. apply andb_true_iff in H. destruct H as [Hc H].
  cbn [skip_ws]. rewrite Hc. auto.
Qed.

Lemma skip_ws_app : forall ws s, forallb is_ws ws = true -> skip_ws (ws ++ s) = skip_ws s.
Proof.
  induction ws as [|c ws IH]; intros s H; [reflexivity|].
  cbn [forallb] in H. apply andb_true_iff in H. destruct H as [Hc H].
  cbn [app skip_ws]. rewrite Hc. auto.
Qed.

(* empty or blank text *)
Theorem reject_blank : forall m ws, forallb is_ws ws = true -> json_parse_gen m ws = None.
Proof.
  intros m ws H. unfold json_parse_gen. cbn [parse_value]. rewrite skip_ws_all by assumption. reflexivity.
Qed.

(* a byte that cannot start a value: + . ' ] } , : letters other than t f n ... *)
Definition value_start (c : N) : bool :=
  (c =? 123) || (c =? 91) || (c =? 34) || (c =? 116) || (c =? 102) || (c =? 110) || (c =? 45) || is_digit c.

Lemma parse_value_bad_start : forall m f c rest, is_ws c = false -> value_start c = false ->
  parse_value m f (c :: rest) = None.
Proof.
  intros m [|f] c rest Hws Hs; [reflexivity|]. cbn [parse_value]. rewrite skip_ws_head by assumption.
  unfold value_start in Hs.
  destruct (c =? 123); [discriminate|]. destruct (c =? 91); [discriminate|].
  destruct (c =? 34); [discriminate|]. destruct (c =? 116); [discriminate|].
  destruct (c =? 102); [discriminate|]. destruct (c =? 110); [discriminate|].
  cbn [orb] in Hs. rewrite Hs. reflexivity.
Qed.

Theorem reject_bad_start : forall m ws c rest, forallb is_ws ws = true ->
  is_ws c = false -> value_start c = false -> json_parse_gen m (ws ++ c :: rest) = None.
Proof.
  intros m ws c rest Hws Hc Hs. unfold json_parse_gen.
  destruct (S (length (ws ++ c :: rest))) as [|f]; [reflexivity|].
  cbn [parse_value]. rewrite skip_ws_app by assumption. rewrite skip_ws_head by assumption.
  unfold value_start in Hs.
  destruct (c =? 123); [discriminate|]. destruct (c =? 91); [discriminate|].
  destruct (c =? 34); [discriminate|]. destruct (c =? 116); [discriminate|].
  destruct (c =? 102); [discriminate|]. destruct (c =? 110); [discriminate|].
  cbn [orb] in Hs. rewrite Hs. reflexivity.
Qed.

(* anything but white space after a complete value: 1 2, []], {}x, "a""b" ... *)
Theorem reject_trailing_garbage : forall m v c rest, wf_value v = true ->
  (rej_bom m = true -> bom_free v = true) ->
  is_ws c = false -> follow_ok (c :: rest) = true ->
  json_parse_gen m (json_print v ++ c :: rest) = None.
Proof.
  intros m v c rest Hwf Hb Hc Hf. unfold json_parse_gen.
  pose proof (jfuel_le_length v Hwf) as Hl.
  rewrite (RT_all m v Hwf Hb _ (c :: rest)); [|rewrite app_length; lia|assumption].
  rewrite skip_ws_head by assumption. reflexivity.
Qed.

(* ------------------------------------------------------------ numbers ---- *)
Lemma doc_number_none : forall m c r, (c =? 45) || is_digit c = true ->
  parse_number (c :: r) = None -> json_parse_gen m (c :: r) = None.
Proof.
  intros m c r Hc Hn. unfold json_parse_gen. cbn [parse_value].
  assert (Hws : is_ws c = false) by (unfold is_ws, is_digit in *; lia).
  rewrite skip_ws_head by assumption.
  assert (c =? 123 = false) by (unfold is_digit in *; lia).
  assert (c =? 91 = false) by (unfold is_digit in *; lia).
  assert (c =? 34 = false) by (unfold is_digit in *; lia).
  assert (c =? 116 = false) by (unfold is_digit in *; lia).
  assert (c =? 102 = false) by (unfold is_digit in *; lia).
  assert (c =? 110 = false) by (unfold is_digit in *; lia).
  rewrite H, H0, H1, H2, H3, H4, Hc, Hn. reflexivity.
Qed.

(* leading zeros: 01, -007, 00 *)
Theorem reject_leading_zero : forall m d rest, is_digit d = true ->
  json_parse_gen m (48 :: d :: rest) = None /\ json_parse_gen m (45 :: 48 :: d :: rest) = None.
Proof.
  intros m d rest Hd.
  assert (Hs : span_digits (48 :: d :: rest) = (48 :: d :: fst (span_digits rest), snd (span_digits rest))).
  { cbn [span_digits]. change (is_digit 48) with true. cbv iota. rewrite Hd.
    destruct (span_digits rest). reflexivity. }
  split; apply doc_number_none; try reflexivity; unfold parse_number.
  - change (48 =? 45) with false. cbv iota. rewrite Hs. reflexivity.
  - change (45 =? 45) with true. cbv iota. rewrite Hs. reflexivity.
Qed.

Lemma span_no_digit : forall rest, no_digit_head rest = true -> span_digits rest = ([], rest).
Proof.
  intros [|c r] H; [reflexivity|]. cbn in H |- *. destruct (is_digit c); [discriminate|reflexivity].
Qed.

(* the integer part of a number, then something: the reader is at [tail] after the digits *)
Lemma parse_number_after_int : forall d ds tail, forallb is_digit (d :: ds) = true ->
  no_digit_head tail = true ->
  (parse_frac tail = None \/ exists fp s3, parse_frac tail = Some (fp, s3) /\ parse_exp s3 = None) ->
  parse_number ((d :: ds) ++ tail) = None.
Proof.
  intros d ds tail Hd Ht Hcases.
  assert (Hd0 : is_digit d = true) by (cbn in Hd; apply andb_true_iff in Hd; tauto).
  assert (Hdm : d =? 45 = false) by (unfold is_digit in Hd0; lia).
  unfold parse_number. cbn [app]. rewrite Hdm.
  change (d :: ds ++ tail) with ((d :: ds) ++ tail). rewrite span_digits_app by assumption.
  destruct ((d =? 48) && negb match ds with [] => true | _ => false end); [reflexivity|].
  destruct Hcases as [->|(fp & s3 & -> & ->)]; reflexivity.
Qed.

(* a decimal point must be followed by a digit: 1.  1.e3  2.x *)
Theorem reject_point_without_digits : forall m d ds rest, forallb is_digit (d :: ds) = true ->
  no_digit_head rest = true -> json_parse_gen m ((d :: ds) ++ 46 :: rest) = None.
Proof.
  intros m d ds rest Hd Hr. cbn [app]. apply doc_number_none.
  - cbn in Hd. apply andb_true_iff in Hd. destruct Hd as [Hd _]. rewrite Hd. apply orb_true_r.
  - change (d :: ds ++ 46 :: rest) with ((d :: ds) ++ 46 :: rest).
    apply parse_number_after_int; [assumption|reflexivity|]. left.
    unfold parse_frac. change (46 =? 46) with true. cbv iota. rewrite span_no_digit by assumption. reflexivity.
Qed.

(* an exponent marker must be followed by [sign] digit: 1e  1E+  1e-x  1ex *)
Theorem reject_exponent_without_digits : forall m d ds ee sg rest, forallb is_digit (d :: ds) = true ->
  (ee = 101 \/ ee = 69) -> (sg = [] \/ sg = [43] \/ sg = [45]) ->
  no_digit_head rest = true -> (sg = [] -> match rest with c :: _ => c <> 43 /\ c <> 45 | [] => True end) ->
  json_parse_gen m ((d :: ds) ++ ee :: sg ++ rest) = None.
Proof.
  intros m d ds ee sg rest Hd Hee Hsg Hr Hs. cbn [app]. apply doc_number_none.
  - cbn in Hd. apply andb_true_iff in Hd. destruct Hd as [Hd _]. rewrite Hd. apply orb_true_r.
  - change (d :: ds ++ ee :: sg ++ rest) with ((d :: ds) ++ ee :: sg ++ rest).
    apply parse_number_after_int; [assumption|destruct Hee; subst; reflexivity|]. right.
    exists [], (ee :: sg ++ rest). split.
    + unfold parse_frac. destruct Hee; subst; reflexivity.
    + unfold parse_exp. assert (E : (ee =? 101) || (ee =? 69) = true) by (destruct Hee; subst; reflexivity).
      rewrite E. destruct Hsg as [->|[->| ->]]; cbn [app].
      * destruct rest as [|c1 r1]; [reflexivity|]. destruct (Hs eq_refl) as [N43 N45].
        destruct (N.eqb_spec c1 43); [contradiction|]. destruct (N.eqb_spec c1 45); [contradiction|].
        rewrite span_no_digit by assumption. reflexivity.
      * change (43 =? 43) with true. cbv iota. rewrite span_no_digit by assumption. reflexivity.
      * change (45 =? 43) with false. change (45 =? 45) with true. cbv iota.
        rewrite span_no_digit by assumption. reflexivity.
Qed.

(* ------------------------------------------------------------ strings ---- *)
Definition plain (c : N) : bool := (32 <=? c) && (c <? 128) && negb (c =? 34) && negb (c =? 92).

Lemma parse_str_plain_prefix_none : forall m pre s, forallb plain pre = true ->
  (forall f, parse_str m f s = None) -> forall f, parse_str m f (pre ++ s) = None.
Proof.
  induction pre as [|c pre IH]; intros s Hp Hs f; [apply Hs|].
  cbn [forallb] in Hp. apply andb_true_iff in Hp. destruct Hp as [Hc Hp].
  destruct f as [|f]; [reflexivity|]. cbn [app parse_str]. unfold plain in Hc.
  destruct (N.eqb_spec c 34); [lia|]. destruct (N.eqb_spec c 92); [lia|].
  destruct (N.ltb_spec c 32); [lia|]. destruct (N.ltb_spec c 128); [|lia].
  rewrite (IH s Hp Hs f). reflexivity.
Qed.

Lemma doc_string_none : forall m body, (forall f, parse_str m f body = None) ->
  json_parse_gen m (34 :: body) = None.
Proof.
  intros m body H. unfold json_parse_gen. cbn [parse_value skip_ws]. change (is_ws 34) with false. cbv iota.
  change (34 =? 123) with false. change (34 =? 91) with false. change (34 =? 34) with true. cbv iota.
  rewrite H. reflexivity.
Qed.

(* the bad continuations of a string body *)
Inductive bad_string_tail (m : mode) : bytes -> Prop :=
| BT_end : bad_string_tail m []                                         (* unterminated *)
| BT_control : forall c rest, c < 32 -> bad_string_tail m (c :: rest)   (* bare control character *)
| BT_lone_backslash : bad_string_tail m [92]
| BT_escape : forall e rest, e <> 117 -> simple_escape e = None ->
    bad_string_tail m (92 :: e :: rest)                                  (* \a \v \x \U \( \' \0 ... *)
| BT_hex : forall rest, hex4 rest = None -> bad_string_tail m (92 :: 117 :: rest)
| BT_utf8 : forall c rest, 128 <= c -> utf8_decode (c :: rest) = None ->
    bad_string_tail m (c :: rest).                                       (* not UTF-8 *)

Lemma bad_tail_none : forall m s, bad_string_tail m s -> forall f, parse_str m f s = None.
Proof.
  intros m s H [|f]; [reflexivity|]. destruct H; cbn [parse_str]; try reflexivity.
  - destruct (N.eqb_spec c 34); [lia|]. destruct (N.eqb_spec c 92); [lia|].
    destruct (N.ltb_spec c 32); [reflexivity|lia].
  - change (92 =? 34) with false. change (92 =? 92) with true. cbv iota.
    destruct (N.eqb_spec e 117); [contradiction|]. rewrite H0. reflexivity.
  - change (92 =? 34) with false. change (92 =? 92) with true. change (117 =? 117) with true. cbv iota.
    rewrite H. reflexivity.
  - destruct (N.eqb_spec c 34); [lia|]. destruct (N.eqb_spec c 92); [lia|].
    destruct (N.ltb_spec c 32); [lia|]. destruct (N.ltb_spec c 128); [lia|]. rewrite H0. reflexivity.
Qed.

Theorem reject_bad_string : forall m pre tail, forallb plain pre = true -> bad_string_tail m tail ->
  json_parse_gen m (34 :: pre ++ tail) = None.
Proof.
  intros m pre tail Hp Ht. apply doc_string_none. apply parse_str_plain_prefix_none; [assumption|].
  apply bad_tail_none. assumption.
Qed.

(* ---------------------------------------------------------- structure ---- *)
Definition ok_for (m : mode) (v : jvalue) : Prop :=
  wf_value v = true /\ (rej_bom m = true -> bom_free v = true).

Lemma elems_trailing_comma : forall m l v f tail, Forall (ok_for m) (v :: l) ->
  (elems_fuel (v :: l) + 1 <= f)%nat ->
  parse_elems m f (json_print v ++ print_rest l ++ 44 :: 93 :: tail) = None.
Proof.
  intros m l. induction l as [|w l IH]; intros v f tail HF Hf;
    inversion HF as [|? ? [Hv Hbv] HF']; subst;
    unfold elems_fuel in Hf; cbn [fold_right] in Hf.
  - destruct f as [|f1]; [lia|]. cbn [parse_elems print_rest flat_map app].
    rewrite (RT_all m v Hv Hbv f1 _ ltac:(lia) (follow_44 _)).
    cbn [skip_ws]. change (is_ws 44) with false. cbv iota. change (44 =? 44) with true. cbv iota.
    destruct f1 as [|f2]; [lia|]. cbn [parse_elems].
    rewrite parse_value_bad_start by reflexivity. reflexivity.
  - fold (elems_fuel l) in Hf. destruct f as [|f1]; [lia|]. cbn [parse_elems].
    unfold print_rest at 1. cbn [flat_map]. fold (print_rest l). rewrite <- !app_assoc. cbn [app].
    rewrite (RT_all m v Hv Hbv f1 _ ltac:(lia) (follow_44 _)).
    cbn [skip_ws]. change (is_ws 44) with false. cbv iota. change (44 =? 44) with true. cbv iota.
    rewrite (IH w f1 tail HF'); [reflexivity|].
    unfold elems_fuel. cbn [fold_right]. fold (elems_fuel l). lia.
Qed.

(* trailing comma in an array: [1,]  [[],{},] ... *)
Theorem reject_trailing_comma_array : forall m v0 l0, Forall (ok_for m) (v0 :: l0) ->
  json_parse_gen m (91 :: json_print v0 ++ print_rest l0 ++ [44; 93]) = None.
Proof.
  intros m v0 l0 HF. unfold json_parse_gen.
  assert (Hwf : wf_value (JArr (v0 :: l0)) = true).
  { cbn [wf_value]. apply forallb_forall. intros x Hx. rewrite Forall_forall in HF. apply (HF x Hx). }
  pose proof (jfuel_le_length _ Hwf) as Hl. rewrite print_arr_cons in Hl.
  cbn [jfuel length] in Hl. fold (elems_fuel (v0 :: l0)) in Hl. rewrite !app_length in Hl. cbn [length] in Hl.
  inversion HF as [|? ? [Hw0 _] _]; subst.
  destruct (print_head v0 Hw0) as (c & t & E & Hws & H93 & _).
  cbn [length parse_value]. rewrite skip_ws_head by reflexivity.
  change (91 =? 123) with false. change (91 =? 91) with true. cbv iota.
  rewrite E. cbn [app]. rewrite skip_ws_head by assumption.
  destruct (N.eqb_spec c 93); [contradiction|].
  change (c :: t ++ print_rest l0 ++ [44; 93]) with ((c :: t) ++ print_rest l0 ++ 44 :: 93 :: []).
  rewrite <- E. rewrite elems_trailing_comma; [reflexivity|assumption|].
  rewrite !app_length. cbn [length]. lia.
Qed.

(* an object member must start with a string: {,}  {a:1}  {1:2}  {"a":1,} *)
Theorem reject_member_without_name : forall m c rest, is_ws c = false -> c <> 34 -> c <> 125 ->
  json_parse_gen m (123 :: c :: rest) = None.
Proof.
  intros m c rest Hws H34 H125. unfold json_parse_gen. cbn [length parse_value].
  rewrite skip_ws_head by reflexivity. change (123 =? 123) with true. cbv iota.
  rewrite skip_ws_head by assumption. destruct (N.eqb_spec c 125); [contradiction|].
  cbn [parse_members]. rewrite skip_ws_head by assumption.
  destruct (N.eqb_spec c 34); [contradiction|]. reflexivity.
Qed.

(* after a member name a colon is required: {"a" 1}  {"a"}  {"a",1} *)
Theorem reject_member_without_colon : forall m k c rest, forallb is_scalar k = true ->
  (rej_bom m = true -> ~ In 0xFEFF k) -> is_ws c = false -> c <> 58 ->
  json_parse_gen m (123 :: json_escape k ++ c :: rest) = None.
Proof.
  intros m k c rest Hk Hb Hws H58. unfold json_parse_gen.
  destruct (parse_key m k (c :: rest) Hk Hb) as (body & Ebody & Hparse).
  cbn [length parse_value]. rewrite skip_ws_head by reflexivity. change (123 =? 123) with true. cbv iota.
  rewrite Ebody. rewrite skip_ws_head by reflexivity. change (34 =? 125) with false. cbv iota.
  cbn [parse_members]. rewrite skip_ws_head by reflexivity. change (34 =? 34) with true. cbv iota.
  rewrite Hparse. rewrite skip_ws_head by assumption. destruct (N.eqb_spec c 58); [contradiction|]. reflexivity.
Qed.

(* ------------------------------------------------ Cue-mode deviations ---- *)
(* raw U+FEFF in a string is rejected by the Cue-mode reader only (finding F10) *)
Theorem cue_rejects_raw_bom : forall pre rest, forallb plain pre = true ->
  json_parse_gen Cue (34 :: pre ++ [0xEF; 0xBB; 0xBF] ++ rest) = None.
Proof.
  intros pre rest Hp. apply doc_string_none. apply parse_str_plain_prefix_none; [assumption|].
  intros [|f]; reflexivity.
Qed.

(* an unpaired low surrogate escape is rejected by the Strict and Cue readers (finding F6) *)
Theorem strict_rejects_lone_low : forall m pre u rest r2, rej_lone m = true -> forallb plain pre = true ->
  hex4 rest = Some (u, r2) -> is_low u = true ->
  json_parse_gen m (34 :: pre ++ 92 :: 117 :: rest) = None.
Proof.
  intros m pre u rest r2 Hm Hp Hh Hl. apply doc_string_none. apply parse_str_plain_prefix_none; [assumption|].
  intros [|f]; [reflexivity|]. cbn [parse_str]. change (92 =? 34) with false. change (92 =? 92) with true.
  change (117 =? 117) with true. cbv iota. rewrite Hh.
  assert (is_high u = false) by (unfold is_high, is_low in *; lia). rewrite H, Hl, Hm. reflexivity.
Qed.
