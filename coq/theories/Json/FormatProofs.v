(* C10 - apd's 'G' formatting (what Value.MarshalJSON writes for numbers) is a JSON
   number that denotes exactly the decimal: same sign, coefficient and exponent. *)
From Verif Require Import Json.Model Json.Cue Json.Utf8Proofs Json.NumProofs.
From Coq Require Import Lia ZifyN ZifyNat ZifyBool.

(* the JSON number format_G writes *)
Definition format_G_num (d : dec) : jnum :=
  let digits := N_digits (dcoeff d) in
  let e := dexp d in
  let pad := if (dcoeff d =? 0) && (-2000 <=? e)%Z && (e <? 0)%Z then (- e)%Z else 0%Z in
  let adj := (e + (Z.of_nat (length digits) + pad - 1))%Z in
  if (e <=? 0)%Z && (-6 <=? adj)%Z then
    if (e <? 0)%Z then
      let left := (- e - Z.of_nat (length digits))%Z in
      if (0 <=? left)%Z
      then {| jneg := dneg d; jint := [48]; jfrac := zeros (Z.to_nat left) ++ digits; jexp := None |}
      else {| jneg := dneg d; jint := firstn (Z.to_nat (- left)) digits;
              jfrac := skipn (Z.to_nat (- left)) digits; jexp := None |}
    else {| jneg := dneg d; jint := digits; jfrac := []; jexp := None |}
  else
    {| jneg := dneg d; jint := firstn 1 digits; jfrac := skipn 1 digits;
       jexp := Some (e + Z.of_nat (length digits) - 1)%Z |}.

Lemma zeros_digits : forall k, forallb is_digit (zeros k) = true.
Proof. induction k; [reflexivity|]. cbn [zeros forallb]. rewrite IHk. reflexivity. Qed.

Lemma zeros_length : forall k, length (zeros k) = k.
Proof. induction k; [reflexivity|]. cbn [zeros length]. rewrite IHk. reflexivity. Qed.

Lemma digits_val_zeros : forall k l, digits_val (zeros k ++ l) = digits_val l.
Proof.
  intros k l. rewrite digits_val_app.
  assert (H : digits_val (zeros k) = 0).
  { induction k; [reflexivity|]. cbn [zeros]. change (48 :: zeros k) with ([48] ++ zeros k).
    rewrite digits_val_app. exact IHk. }
  rewrite H. reflexivity.
Qed.

Lemma digits_val_cons0 : forall l, digits_val (48 :: l) = digits_val l.
Proof. intro l. apply (digits_val_zeros 1 l). Qed.

Lemma forallb_firstn : forall (f : N -> bool) k l, forallb f l = true -> forallb f (firstn k l) = true.
Proof.
  intros f k. induction k as [|k IH]; intros [|x l] H; try reflexivity.
  cbn [forallb firstn] in *. apply andb_true_iff in H. destruct H as [-> H]. rewrite (IH l H). reflexivity.
Qed.

Lemma forallb_skipn : forall (f : N -> bool) k l, forallb f l = true -> forallb f (skipn k l) = true.
Proof.
  intros f k. induction k as [|k IH]; intros [|x l] H; try reflexivity; try assumption.
  cbn [forallb skipn] in *. apply andb_true_iff in H. destruct H as [_ H]. apply (IH l H).
Qed.

(* facts about the digits of the coefficient *)
Lemma digits_facts : forall c, exists d ds,
  N_digits c = d :: ds /\ forallb is_digit (d :: ds) = true /\ digits_val (d :: ds) = c /\
  (d = 48 -> ds = [] /\ c = 0).
Proof.
  intro c. destruct (N_digits_spec c) as (Hall & Hv & H0 & Hnz).
  destruct (N.eq_dec c 0) as [->|Hc].
  - rewrite (H0 eq_refl) in *. exists 48, []. auto.
  - destruct (Hnz Hc) as (d & t & E & Hd). rewrite E in *. exists d, t. repeat split; auto; contradiction.
Qed.

Lemma parse_exp_E : forall sg a, (sg = 43 \/ sg = 45) ->
  parse_exp (69 :: sg :: N_digits a) =
  Some (Some (if sg =? 45 then (- Z.of_N a)%Z else Z.of_N a), []).
Proof.
  intros sg a Hsg. unfold parse_exp. change ((69 =? 101) || (69 =? 69)) with true. cbv iota.
  destruct (N_digits_spec a) as (Hall & Hv & _ & _).
  destruct (N_digits_nonempty a) as (d & t & E & _).
  pose proof (span_digits_app (N_digits a) [] Hall eq_refl) as Hs. rewrite app_nil_r in Hs.
  destruct Hsg as [->| ->].
  - change (43 =? 43) with true. cbv iota. rewrite Hs. rewrite E at 1. rewrite Hv. reflexivity.
  - change (45 =? 43) with false. change (45 =? 45) with true. cbv iota. rewrite Hs. rewrite E at 1.
    rewrite Hv. reflexivity.
Qed.

(* THEOREM format_G_is_json_number *)
Theorem format_G_is_json_number : forall d,
  parse_number (format_G d) = Some (format_G_num d, []) /\
  wf_num (format_G_num d) = true /\
  jnum_dec (format_G_num d) = d.
Proof.
  intros [neg c e]. unfold format_G, format_G_num. cbn [dneg dcoeff dexp].
  destruct (digits_facts c) as (d0 & ds & E & Hall & Hv & Hz). rewrite E.
  set (pad := if (c =? 0) && (-2000 <=? e)%Z && (e <? 0)%Z then (- e)%Z else 0%Z).
  set (adj := (e + (Z.of_nat (length (d0 :: ds)) + pad - 1))%Z).
  assert (Hd0 : is_digit d0 = true) by (cbn in Hall; apply andb_true_iff in Hall; tauto).
  assert (Hds : forallb is_digit ds = true) by (cbn in Hall; apply andb_true_iff in Hall; tauto).
  destruct ((e <=? 0)%Z && (-6 <=? adj)%Z) eqn:Ef.
  - (* fmtF *)
    unfold fmt_f. destruct (Z.ltb_spec e 0) as [Hneg|Hpos].
    + destruct (Z.leb_spec 0 (- e - Z.of_nat (length (d0 :: ds)))) as [Hleft|Hleft].
      * (* 0.000ddd *)
        set (k := Z.to_nat (- e - Z.of_nat (length (d0 :: ds)))).
        set (n := {| jneg := neg; jint := [48]; jfrac := zeros k ++ d0 :: ds; jexp := None |}).
        assert (Hwf : wf_num n = true).
        { unfold wf_num, n. cbn [jint jfrac]. rewrite forallb_app, zeros_digits, Hall. reflexivity. }
        split; [|split; [exact Hwf|]].
        -- pose proof (parse_number_print n [] Hwf eq_refl) as Hp. rewrite app_nil_r in Hp.
           etransitivity; [|exact Hp]. f_equal. unfold print_num, n. cbn [jneg jint jfrac jexp].
           destruct (zeros k ++ d0 :: ds) eqn:Ez; [destruct (zeros k); discriminate|].
           rewrite app_nil_r. reflexivity.
        -- unfold jnum_dec, n. cbn [jneg jint jfrac jexp]. f_equal.
           ++ change ([48] ++ zeros k ++ d0 :: ds) with (48 :: zeros k ++ d0 :: ds).
              rewrite digits_val_cons0, digits_val_zeros. exact Hv.
           ++ rewrite app_length, zeros_length. subst k. cbn [length] in *. lia.
      * (* dd.ddd *)
        set (off := Z.to_nat (- (- e - Z.of_nat (length (d0 :: ds))))).
        assert (Hoff : (1 <= off < length (d0 :: ds))%nat) by (subst off; cbn [length] in *; lia).
        set (n := {| jneg := neg; jint := firstn off (d0 :: ds); jfrac := skipn off (d0 :: ds); jexp := None |}).
        assert (Hfirst : exists t, firstn off (d0 :: ds) = d0 :: t).
        { destruct off as [|o]; [lia|]. cbn [firstn]. eexists. reflexivity. }
        destruct Hfirst as (t & Et).
        assert (Hsk : skipn off (d0 :: ds) <> []).
        { intro Hs. pose proof (firstn_skipn off (d0 :: ds)) as Hfs. rewrite Hs, app_nil_r in Hfs.
          pose proof (firstn_length off (d0 :: ds)) as Hl. rewrite Hfs in Hl. lia. }
        assert (Hwf : wf_num n = true).
        { unfold wf_num, n. cbn [jint jfrac]. rewrite forallb_firstn, forallb_skipn by assumption.
          rewrite Et. cbn [andb]. destruct (N.eqb_spec d0 48) as [->|]; [|reflexivity].
          destruct (Hz eq_refl) as [-> _]. cbn [length] in Hoff. lia. }
        split; [|split; [exact Hwf|]].
        -- pose proof (parse_number_print n [] Hwf eq_refl) as Hp. rewrite app_nil_r in Hp.
           etransitivity; [|exact Hp]. f_equal. unfold print_num, n. cbn [jneg jint jfrac jexp].
           destruct (skipn off (d0 :: ds)) eqn:Es; [contradiction|].
           rewrite app_nil_r. reflexivity.
        -- unfold jnum_dec, n. cbn [jneg jint jfrac jexp]. f_equal.
           ++ rewrite firstn_skipn. exact Hv.
           ++ rewrite skipn_length. subst off. cbn [length] in *. lia.
    + (* integer *)
      assert (e = 0%Z) by lia. subst e. cbn [zeros Z.to_nat]. rewrite app_nil_r.
      set (n := {| jneg := neg; jint := d0 :: ds; jfrac := []; jexp := None |}).
      assert (Hwf : wf_num n = true).
      { unfold wf_num, n. cbn [jint jfrac]. rewrite Hall. cbn [forallb andb].
        destruct (N.eqb_spec d0 48) as [->|]; [|reflexivity]. destruct (Hz eq_refl) as [-> _]. reflexivity. }
      split; [|split; [exact Hwf|]].
      * pose proof (parse_number_print n [] Hwf eq_refl) as Hp. rewrite app_nil_r in Hp.
        etransitivity; [|exact Hp]. f_equal. unfold print_num, n. cbn [jneg jint jfrac jexp]. rewrite !app_nil_r. reflexivity.
      * unfold jnum_dec, n. cbn [jneg jint jfrac jexp length]. rewrite app_nil_r, Hv. reflexivity.
  - (* fmtE *)
    unfold fmt_e. cbn [firstn skipn].
    set (a := (e + Z.of_nat (length (d0 :: ds)) - 1)%Z).
    set (n := {| jneg := neg; jint := [d0]; jfrac := ds; jexp := Some a |}).
    assert (Hwf : wf_num n = true).
    { unfold wf_num, n. cbn [jint jfrac forallb]. rewrite Hd0, Hds. cbn [andb negb]. rewrite andb_false_r. reflexivity. }
    split; [|split; [exact Hwf|]].
    + assert (Hdm : d0 =? 45 = false) by (unfold is_digit in Hd0; lia).
      set (sg := if (a <? 0)%Z then 45 else 43).
      assert (Hsg : sg = 43 \/ sg = 45) by (subst sg; destruct (a <? 0)%Z; auto).
      assert (Hexp : parse_exp (69 :: sg :: N_digits (Z.abs_N a)) = Some (Some a, [])).
      { rewrite (parse_exp_E sg (Z.abs_N a) Hsg). f_equal. f_equal. f_equal. subst sg.
        destruct (Z.ltb_spec a 0); [change (45 =? 45) with true|change (43 =? 45) with false]; cbv iota; lia. }
      assert (Hbody : parse_number (d0 :: match ds with [] => [] | _ => 46 :: ds end ++ 69 :: sg :: N_digits (Z.abs_N a))
                      = Some ({| jneg := false; jint := [d0]; jfrac := ds; jexp := Some a |}, [])).
      { unfold parse_number. rewrite Hdm.
        assert (Hspan : forall tail, no_digit_head tail = true -> span_digits (d0 :: tail) = ([d0], tail)).
        { intros tail Ht. change (d0 :: tail) with ([d0] ++ tail). apply span_digits_app; [cbn; rewrite Hd0; reflexivity|assumption]. }
        destruct ds as [|f0 fs].
        - cbn [app]. rewrite Hspan by reflexivity. rewrite andb_false_r.
          change (parse_frac (69 :: sg :: N_digits (Z.abs_N a))) with (Some (@nil N, 69 :: sg :: N_digits (Z.abs_N a))).
          cbv iota. rewrite Hexp. reflexivity.
        - rewrite Hspan by reflexivity. rewrite andb_false_r.
          change (46 :: f0 :: fs) with (46 :: (f0 :: fs)).
          change ((46 :: (f0 :: fs)) ++ 69 :: sg :: N_digits (Z.abs_N a))
            with (46 :: (f0 :: fs) ++ 69 :: sg :: N_digits (Z.abs_N a)).
          rewrite parse_frac_some by (assumption || reflexivity). rewrite Hexp. reflexivity. }
      unfold n. destruct neg.
      * cbn [app]. unfold parse_number. change (45 =? 45) with true. cbv iota.
        unfold parse_number in Hbody. rewrite Hdm in Hbody.
        destruct (span_digits (d0 :: match ds with [] => [] | _ => 46 :: ds end ++ 69 :: sg :: N_digits (Z.abs_N a))) as [ip s2].
        destruct ip as [|x xs]; [discriminate|].
        destruct ((x =? 48) && negb match xs with [] => true | _ => false end); [discriminate|].
        destruct (parse_frac s2) as [[fp s3]|]; [|discriminate].
        destruct (parse_exp s3) as [[ex s4]|]; [|discriminate].
        inversion Hbody; subst. reflexivity.
      * cbn [app]. exact Hbody.
    + unfold jnum_dec, n. cbn [jneg jint jfrac jexp]. f_equal.
      * exact Hv.
      * subst a. cbn [length]. lia.
Qed.
