(* C10 - facts about the UTF-8 codec of Json/Model.v: both round trips, by range
   case analysis + lia (no sweep over the 1.1M scalar values). *)
From Verif Require Import Json.Model.
From Coq Require Import Lia ZifyN ZifyNat ZifyBool.
Ltac Zify.zify_post_hook ::= Z.div_mod_to_equations.

Ltac bd1 :=
  match goal with
  | |- context [?a =? ?b] => destruct (N.eqb_spec a b)
  | |- context [?a <? ?b] => destruct (N.ltb_spec a b)
  | |- context [?a <=? ?b] => destruct (N.leb_spec a b)
  end.
Ltac bd_all := repeat (bd1; cbn [andb orb negb]; try lia).

Lemma is_scalar_spec : forall c,
  is_scalar c = true <-> (c <= 0x10FFFF /\ ~ (0xD800 <= c <= 0xDFFF)).
Proof. intro c. unfold is_scalar, is_surrogate. lia. Qed.

Lemma encode_ascii : forall c, c < 0x80 -> utf8_encode c = [c].
Proof. intros c H. unfold utf8_encode. bd_all. reflexivity. Qed.

(* first byte of the encoding of a non-ASCII code point is >= 0xC2 *)
Lemma encode_high : forall c, 0x80 <= c ->
  exists b t, utf8_encode c = b :: t /\ 0xC2 <= b /\ b < 0xF5.
Proof.
  intros c H. unfold utf8_encode, is_scalar, is_surrogate.
  bd_all; eexists; eexists; (split; [reflexivity|lia]).
Qed.

Lemma encode_nonempty : forall c, utf8_encode c <> [].
Proof.
  intro c. unfold utf8_encode, is_scalar, is_surrogate. bd_all; discriminate.
Qed.

Lemma encode_length : forall c, (1 <= length (utf8_encode c) <= 4)%nat.
Proof.
  intro c. unfold utf8_encode, is_scalar, is_surrogate. bd_all; cbn; lia.
Qed.

Lemma encode_bytes : forall c, Forall (fun b => b < 256) (utf8_encode c).
Proof.
  intro c. unfold utf8_encode, is_scalar, is_surrogate.
  bd_all; repeat constructor; lia.
Qed.

(* decoding what AppendRune wrote for a scalar value gives that value, whatever follows *)
Lemma decode_encode : forall c r, is_scalar c = true ->
  utf8_decode (utf8_encode c ++ r) = Some (c, r).
Proof.
  intros c r H. apply is_scalar_spec in H. destruct H as [Hm Hs].
  unfold utf8_encode, is_scalar, is_surrogate.
  bd_all; cbn [app utf8_decode]; unfold is_cont, is_surrogate;
    bd_all; try reflexivity; f_equal; f_equal; lia.
Qed.

(* a successful strict decode consumed exactly the canonical encoding of a scalar value *)
Lemma decode_inv : forall s c r, utf8_decode s = Some (c, r) ->
  is_scalar c = true /\ s = utf8_encode c ++ r.
Proof.
  intros s c r H. destruct s as [|b0 s]; [discriminate|].
  cbn [utf8_decode] in H.
  destruct (N.ltb_spec b0 0x80).
  { inversion H; subst. split.
    - apply is_scalar_spec. lia.
    - rewrite encode_ascii by lia. reflexivity. }
  destruct (N.ltb_spec b0 0xC2); [discriminate|].
  destruct (N.ltb_spec b0 0xE0).
  { destruct s as [|b1 s]; [discriminate|].
    unfold is_cont in H.
    destruct (N.leb_spec 0x80 b1); cbn [andb] in H; [|discriminate].
    destruct (N.leb_spec b1 0xBF); [|discriminate].
    inversion H; subst; clear H. split.
    - apply is_scalar_spec. lia.
    - unfold utf8_encode. bd_all; cbn [app]; (f_equal; [lia|]); f_equal; lia. }
  destruct (N.ltb_spec b0 0xF0).
  { destruct s as [|b1 [|b2 s]]; try discriminate.
    unfold is_cont in H.
    destruct (N.leb_spec 0x80 b1); cbn [andb] in H; [|discriminate].
    destruct (N.leb_spec b1 0xBF); cbn [andb] in H; [|discriminate].
    destruct (N.leb_spec 0x80 b2); cbn [andb] in H; [|discriminate].
    destruct (N.leb_spec b2 0xBF); cbn [andb] in H; [|discriminate].
    unfold is_surrogate in H.
    match type of H with (if ?x then _ else _) = _ => destruct x eqn:E end; [discriminate|].
    inversion H; subst; clear H. split.
    - apply is_scalar_spec. lia.
    - unfold utf8_encode, is_scalar, is_surrogate. bd_all; cbn [app];
        (f_equal; [lia|]); (f_equal; [lia|]); f_equal; lia. }
  destruct (N.ltb_spec b0 0xF5); [|discriminate].
  destruct s as [|b1 [|b2 [|b3 s]]]; try discriminate.
  unfold is_cont in H.
  destruct (N.leb_spec 0x80 b1); cbn [andb] in H; [|discriminate].
  destruct (N.leb_spec b1 0xBF); cbn [andb] in H; [|discriminate].
  destruct (N.leb_spec 0x80 b2); cbn [andb] in H; [|discriminate].
  destruct (N.leb_spec b2 0xBF); cbn [andb] in H; [|discriminate].
  destruct (N.leb_spec 0x80 b3); cbn [andb] in H; [|discriminate].
  destruct (N.leb_spec b3 0xBF); cbn [andb] in H; [|discriminate].
  match type of H with (if ?x then _ else _) = _ => destruct x eqn:E end; [discriminate|].
  inversion H; subst; clear H. split.
  - apply is_scalar_spec. lia.
  - unfold utf8_encode, is_scalar, is_surrogate. bd_all; cbn [app];
      (f_equal; [lia|]); (f_equal; [lia|]); (f_equal; [lia|]); f_equal; lia.
Qed.

Lemma decode_high_first : forall b r c t, 0x80 <= b ->
  utf8_decode (b :: r) = Some (c, t) -> 0x80 <= c.
Proof.
  intros b r c t Hb H. apply decode_inv in H. destruct H as [Hs H].
  destruct (N.ltb_spec c 0x80); [|assumption].
  rewrite encode_ascii in H by assumption. cbn in H. inversion H. lia.
Qed.

(* strict decoding consumes between 1 and 4 bytes *)
Lemma decode_shorter : forall s c r, utf8_decode s = Some (c, r) -> (length r < length s)%nat.
Proof.
  intros s c r H. apply decode_inv in H. destruct H as [_ H]. subst s.
  rewrite app_length. pose proof (encode_length c). lia.
Qed.
