(* C10 - the number layer: decimal digit printing/reading, and
   parse_number (print_num n ++ rest) = Some (n, rest). *)
From Verif Require Import Json.Model Json.Utf8Proofs.
From Coq Require Import Lia ZifyN ZifyNat ZifyBool.
Ltac Zify.zify_post_hook ::= Z.div_mod_to_equations.

Definition dstep (acc d : N) : N := acc * 10 + (d - 48).

Lemma digits_val_app : forall a b, digits_val (a ++ b) = fold_left dstep b (digits_val a).
Proof. intros a b. unfold digits_val. rewrite fold_left_app. reflexivity. Qed.

Lemma digits_val_snoc : forall a d, digits_val (a ++ [d]) = digits_val a * 10 + (d - 48).
Proof. intros a d. rewrite digits_val_app. reflexivity. Qed.

Lemma forallb_snoc : forall (f : N -> bool) l x, forallb f (l ++ [x]) = forallb f l && f x.
Proof. intros f l x. rewrite forallb_app. cbn. rewrite andb_true_r. reflexivity. Qed.

(* what N_digits_aux computes *)
Lemma N_digits_aux_spec : forall fuel n acc, n < 2 ^ N.of_nat fuel -> (0 < fuel)%nat ->
  exists ds, N_digits_aux fuel n acc = ds ++ acc /\
             forallb is_digit ds = true /\ digits_val ds = n /\
             (n = 0 -> ds = [48]) /\
             (n <> 0 -> exists d t, ds = d :: t /\ d <> 48).
Proof.
  induction fuel as [|f IH]; intros n acc Hn Hf.
  - lia.
  - cbn [N_digits_aux].
    assert (Hd : is_digit (48 + n mod 10) = true) by (unfold is_digit; lia).
    destruct (N.eqb_spec (n / 10) 0) as [Hz|Hnz].
    + exists [48 + n mod 10]. split; [reflexivity|]. split; [cbn [forallb]; rewrite Hd; reflexivity|].
      split; [unfold digits_val; cbn [fold_left]; lia|]. split.
      * intros ->. reflexivity.
      * intros Hn0. eexists; eexists; split; [reflexivity|]. lia.
    + assert (Hn' : n / 10 < 2 ^ N.of_nat f).
      { rewrite Nat2N.inj_succ, N.pow_succ_r' in Hn. lia. }
      assert (Hf' : (0 < f)%nat).
      { destruct f; [cbn in Hn'; lia|lia]. }
      destruct (IH (n / 10) ((48 + n mod 10) :: acc) Hn' Hf') as (ds & E & Hall & Hv & _ & Hnz').
      exists (ds ++ [48 + n mod 10]). split; [rewrite E, <- app_assoc; reflexivity|].
      split; [rewrite forallb_snoc, Hall, Hd; reflexivity|].
      split; [rewrite digits_val_snoc, Hv; lia|].
      split; [intros ->; cbn in Hnz; congruence|].
      intros _. destruct (Hnz' Hnz) as (d & t & -> & Hd48).
      exists d, (t ++ [48 + n mod 10]). split; [reflexivity|assumption].
Qed.

Lemma N_digits_spec : forall n,
  forallb is_digit (N_digits n) = true /\ digits_val (N_digits n) = n /\
  (n = 0 -> N_digits n = [48]) /\
  (n <> 0 -> exists d t, N_digits n = d :: t /\ d <> 48).
Proof.
  intro n. unfold N_digits.
  assert (Hn : n < 2 ^ N.of_nat (S (N.to_nat (N.log2 n)))).
  { rewrite Nat2N.inj_succ, N2Nat.id.
    destruct (N.eq_dec n 0) as [->|Hnz]; [reflexivity|].
    apply N.log2_spec. lia. }
  destruct (N_digits_aux_spec _ n [] Hn ltac:(lia)) as (ds & E & H1 & H2 & H3 & H4).
  rewrite app_nil_r in E. rewrite E. auto.
Qed.

Lemma N_digits_nonempty : forall n, exists d t, N_digits n = d :: t /\ is_digit d = true.
Proof.
  intro n. destruct (N_digits_spec n) as (Hall & _ & H0 & Hnz).
  destruct (N.eq_dec n 0) as [->|Hn].
  - rewrite (H0 eq_refl). eexists; eexists; split; reflexivity.
  - destruct (Hnz Hn) as (d & t & E & _). rewrite E in *. cbn in Hall.
    apply andb_true_iff in Hall. exists d, t. tauto.
Qed.

(* ---------------------------------------------------------------- span ---- *)

Definition no_digit_head (s : bytes) : bool :=
  match s with c :: _ => negb (is_digit c) | [] => true end.

Lemma span_digits_app : forall ds rest, forallb is_digit ds = true -> no_digit_head rest = true ->
  span_digits (ds ++ rest) = (ds, rest).
Proof.
  induction ds as [|d ds IH]; intros rest Hd Hr.
  - cbn [app]. destruct rest as [|c r]; [reflexivity|]. cbn in Hr |- *.
    destruct (is_digit c); [discriminate|reflexivity].
  - cbn [forallb] in Hd. apply andb_true_iff in Hd. destruct Hd as [H1 H2].
    cbn [app span_digits]. rewrite H1, IH by assumption. reflexivity.
Qed.

(* what may follow a printed number without being swallowed by the number reader *)
Definition num_follow_ok (s : bytes) : bool :=
  match s with
  | c :: _ => negb (is_digit c || (c =? 46) || (c =? 101) || (c =? 69))
  | [] => true
  end.

Lemma num_follow_no_digit : forall s, num_follow_ok s = true -> no_digit_head s = true.
Proof.
  intros [|c r] H; [reflexivity|]. cbn in *. destruct (is_digit c); [discriminate|reflexivity].
Qed.

Lemma parse_exp_print : forall e rest, no_digit_head rest = true ->
  parse_exp (101 :: print_Z e ++ rest) = Some (Some e, rest).
Proof.
  intros e rest Hr. unfold parse_exp. change ((101 =? 101) || (101 =? 69)) with true. cbv iota.
  unfold print_Z. destruct (N_digits_spec (Z.abs_N e)) as (Hall & Hv & _ & _).
  destruct (N_digits_nonempty (Z.abs_N e)) as (d & t & E & Hd).
  destruct (Z.ltb_spec e 0) as [Hneg|Hpos].
  - cbn [app]. change (45 =? 43) with false. change (45 =? 45) with true. cbv iota.
    rewrite span_digits_app by assumption. rewrite E at 1. rewrite Hv.
    f_equal. f_equal. f_equal. lia.
  - rewrite E. cbn [app].
    assert (d =? 43 = false) by (unfold is_digit in Hd; lia).
    assert (d =? 45 = false) by (unfold is_digit in Hd; lia).
    rewrite H, H0. change (d :: t ++ rest) with ((d :: t) ++ rest). rewrite <- E.
    rewrite span_digits_app by assumption. rewrite E at 1. rewrite Hv.
    f_equal. f_equal. f_equal. lia.
Qed.

Lemma parse_exp_none : forall rest, num_follow_ok rest = true ->
  parse_exp rest = Some (None, rest).
Proof.
  intros [|c r] H; [reflexivity|]. cbn in H |- *.
  destruct ((c =? 101) || (c =? 69)) eqn:E; [|reflexivity].
  exfalso. destruct (is_digit c), (c =? 46), (c =? 101), (c =? 69); cbn in *; discriminate.
Qed.

Lemma parse_frac_none : forall rest, num_follow_ok rest = true ->
  parse_frac rest = Some ([], rest).
Proof.
  intros [|c r] H; [reflexivity|]. cbn in H |- *.
  destruct (c =? 46) eqn:E; [|reflexivity].
  exfalso. destruct (is_digit c), (c =? 101), (c =? 69); cbn in *; discriminate.
Qed.

Lemma parse_frac_e : forall rest, parse_frac (101 :: rest) = Some ([], 101 :: rest).
Proof. reflexivity. Qed.

Lemma parse_frac_some : forall d ds rest, forallb is_digit (d :: ds) = true ->
  no_digit_head rest = true ->
  parse_frac (46 :: (d :: ds) ++ rest) = Some (d :: ds, rest).
Proof.
  intros d ds rest Hd Hr. unfold parse_frac. change (46 =? 46) with true. cbv iota.
  rewrite span_digits_app by assumption. reflexivity.
Qed.

Definition wf_numP (n : jnum) : Prop := wf_num n = true.

(* THE number round trip *)
Lemma parse_number_print : forall n rest, wf_num n = true -> num_follow_ok rest = true ->
  parse_number (print_num n ++ rest) = Some (n, rest).
Proof.
  intros [neg ip fp ex] rest Hwf Hr. unfold wf_num in Hwf. cbn [jint jfrac jneg jexp] in Hwf.
  apply andb_true_iff in Hwf. destruct Hwf as [Hwf Hlz].
  apply andb_true_iff in Hwf. destruct Hwf as [Hip Hfp].
  destruct ip as [|d ds]; [discriminate|].
  unfold print_num. cbn [jint jfrac jneg jexp].
  (* the tail after the integer part *)
  set (tl := (match fp with [] => [] | _ :: _ => 46 :: fp end ++
              match ex with None => [] | Some e => 101 :: print_Z e end) ++ rest).
  assert (Htl : no_digit_head tl = true).
  { unfold tl. destruct fp; [|reflexivity]. destruct ex; [reflexivity|].
    cbn [app]. apply num_follow_no_digit. assumption. }
  assert (Hd : is_digit d = true) by (cbn in Hip; apply andb_true_iff in Hip; tauto).
  assert (Hm : d =? 45 = false) by (unfold is_digit in Hd; lia).
  assert (Hbody : forall s1, s1 = (d :: ds) ++ tl ->
     (let '(ip, s2) := span_digits s1 in
      match ip with
      | [] => None
      | d :: ds =>
        if (d =? 48) && negb (match ds with [] => true | _ => false end) then None
        else match parse_frac s2 with
             | None => None
             | Some (fp, s3) =>
               match parse_exp s3 with
               | None => None
               | Some (e, s4) => Some ({| jneg := neg; jint := ip; jfrac := fp; jexp := e |}, s4)
               end
             end
      end) = Some ({| jneg := neg; jint := d :: ds; jfrac := fp; jexp := ex |}, rest)).
  { intros s1 ->. rewrite span_digits_app by assumption.
    destruct ((d =? 48) && negb match ds with [] => true | _ :: _ => false end); [discriminate|].
    unfold tl. destruct fp as [|f0 fp].
    - cbn [app]. destruct ex as [e|].
      + cbn [app]. rewrite parse_frac_e. rewrite parse_exp_print by (apply num_follow_no_digit; assumption).
        reflexivity.
      + cbn [app]. rewrite parse_frac_none by assumption. rewrite parse_exp_none by assumption.
        reflexivity.
    - destruct ex as [e|].
      + rewrite <- app_assoc. cbn [app].
        change (46 :: f0 :: fp ++ 101 :: print_Z e ++ rest)
          with (46 :: (f0 :: fp) ++ (101 :: print_Z e ++ rest)).
        rewrite parse_frac_some by (assumption || reflexivity).
        rewrite parse_exp_print by (apply num_follow_no_digit; assumption). reflexivity.
      + rewrite app_nil_r. cbn [app].
        change (46 :: f0 :: fp ++ rest) with (46 :: (f0 :: fp) ++ rest).
        rewrite parse_frac_some by (assumption || apply num_follow_no_digit; assumption).
        rewrite parse_exp_none by assumption. reflexivity. }
  unfold parse_number. destruct neg.
  - cbn [app]. change (45 =? 45) with true. cbv iota.
    apply Hbody. unfold tl. destruct fp; cbn [app]; rewrite <- ?app_assoc; cbn [app]; rewrite <- ?app_assoc; reflexivity.
  - cbn [app]. rewrite Hm.
    apply Hbody. unfold tl. destruct fp; cbn [app]; rewrite <- ?app_assoc; cbn [app]; rewrite <- ?app_assoc; reflexivity.
Qed.

(* a printed number starts with '-' or a digit *)
Lemma print_num_head : forall n, wf_num n = true ->
  exists c t, print_num n = c :: t /\ ((c =? 45) || is_digit c = true).
Proof.
  intros [neg ip fp ex] H. unfold wf_num in H. cbn [jint jfrac] in H.
  destruct ip as [|d ds]; [rewrite andb_false_r in H; discriminate|].
  apply andb_true_iff in H. destruct H as [H _]. apply andb_true_iff in H. destruct H as [H _].
  cbn in H. apply andb_true_iff in H. destruct H as [Hd _].
  unfold print_num. cbn [jneg jint]. destruct neg.
  - eexists; eexists; split; [reflexivity|reflexivity].
  - eexists; eexists; split; [reflexivity|]. rewrite Hd. apply orb_true_r.
Qed.

Lemma print_num_length : forall n, wf_num n = true -> (1 <= length (print_num n))%nat.
Proof.
  intros n H. destruct (print_num_head n H) as (c & t & -> & _). cbn. lia.
Qed.
