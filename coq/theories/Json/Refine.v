(* C10 - the stricter readers refine the standard one: whatever the Cue-mode (or
   Strict) reader accepts, the RFC 8259 reader accepts with the same value. *)
From Verif Require Import Json.Model.
From Coq Require Import Lia.

Definition mode_le (m1 m2 : mode) : Prop :=
  (rej_lone m2 = true -> rej_lone m1 = true) /\ (rej_bom m2 = true -> rej_bom m1 = true).

Lemma parse_str_mono : forall m1 m2, mode_le m1 m2 ->
  forall f s r, parse_str m1 f s = Some r -> parse_str m2 f s = Some r.
Proof.
  intros m1 m2 [Hl Hb]. induction f as [|f IH]; intros s r H; [discriminate|].
  cbn [parse_str] in *. destruct s as [|c t]; [discriminate|].
  destruct (c =? 34); [assumption|].
  destruct (c =? 92).
  - destruct t as [|e t1]; [discriminate|].
    destruct (e =? 117).
    + destruct (hex4 t1) as [[u t2]|]; [|discriminate].
      destruct (is_high u).
      * destruct (low_escape t2) as [[l t3]|].
        -- destruct (parse_str m1 f t3) as [p|] eqn:E; [|cbn [scons] in H; discriminate]. rewrite (IH _ _ E). assumption.
        -- destruct (rej_lone m1) eqn:E1; [discriminate|].
           destruct (rej_lone m2) eqn:E2; [discriminate (Hl eq_refl)|].
           destruct (parse_str m1 f t2) as [p|] eqn:E; [|cbn [scons] in H; discriminate]. rewrite (IH _ _ E). assumption.
      * destruct (is_low u).
        -- destruct (rej_lone m1) eqn:E1; [discriminate|].
           destruct (rej_lone m2) eqn:E2; [discriminate (Hl eq_refl)|].
           destruct (parse_str m1 f t2) as [p|] eqn:E; [|cbn [scons] in H; discriminate]. rewrite (IH _ _ E). assumption.
        -- destruct (parse_str m1 f t2) as [p|] eqn:E; [|cbn [scons] in H; discriminate]. rewrite (IH _ _ E). assumption.
    + destruct (simple_escape e); [|discriminate].
      destruct (parse_str m1 f t1) as [p|] eqn:E; [|cbn [scons] in H; discriminate]. rewrite (IH _ _ E). assumption.
  - destruct (c <? 32); [discriminate|].
    destruct (c <? 128).
    + destruct (parse_str m1 f t) as [p|] eqn:E; [|cbn [scons] in H; discriminate]. rewrite (IH _ _ E). assumption.
    + destruct (utf8_decode (c :: t)) as [[cp t']|]; [|discriminate].
      destruct (rej_bom m1 && (cp =? 65279)) eqn:E1; [discriminate|].
      assert (E2 : rej_bom m2 && (cp =? 65279) = false).
      { destruct (rej_bom m2) eqn:Eb; [|reflexivity]. rewrite (Hb eq_refl) in E1. exact E1. }
      rewrite E2.
      destruct (parse_str m1 f t') as [p|] eqn:E; [|cbn [scons] in H; discriminate]. rewrite (IH _ _ E). assumption.
Qed.

Lemma parse_mono : forall m1 m2, mode_le m1 m2 -> forall f,
  (forall s r, parse_value m1 f s = Some r -> parse_value m2 f s = Some r) /\
  (forall s r, parse_elems m1 f s = Some r -> parse_elems m2 f s = Some r) /\
  (forall s r, parse_members m1 f s = Some r -> parse_members m2 f s = Some r).
Proof.
  intros m1 m2 Hm. induction f as [|f (IHv & IHe & IHm)]; [repeat split; intros; discriminate|].
  repeat split; intros s r H.
  - cbn [parse_value] in *. destruct (skip_ws s) as [|c t]; [discriminate|].
    destruct (c =? 123).
    { destruct (skip_ws t) as [|c' t']; [discriminate|]. destruct (c' =? 125); [assumption|].
      destruct (parse_members m1 f (c' :: t')) as [[l u]|] eqn:E; [|discriminate].
      rewrite (IHm _ _ E). assumption. }
    destruct (c =? 91).
    { destruct (skip_ws t) as [|c' t']; [discriminate|]. destruct (c' =? 93); [assumption|].
      destruct (parse_elems m1 f (c' :: t')) as [[l u]|] eqn:E; [|discriminate].
      rewrite (IHe _ _ E). assumption. }
    destruct (c =? 34).
    { destruct (parse_str m1 (length t) t) as [[v u]|] eqn:E; [|discriminate].
      rewrite (parse_str_mono m1 m2 Hm _ _ _ E). assumption. }
    assumption.
  - cbn [parse_elems] in *. destruct (parse_value m1 f s) as [[v t]|] eqn:E; [|discriminate].
    rewrite (IHv _ _ E). destruct (skip_ws t) as [|c u]; [discriminate|].
    destruct (c =? 44); [|assumption].
    destruct (parse_elems m1 f u) as [[l t']|] eqn:E2; [|discriminate]. rewrite (IHe _ _ E2). assumption.
  - cbn [parse_members] in *. destruct (skip_ws s) as [|c t]; [discriminate|].
    destruct (c =? 34); [|discriminate].
    destruct (parse_str m1 (length t) t) as [[k u]|] eqn:E; [|discriminate].
    rewrite (parse_str_mono m1 m2 Hm _ _ _ E).
    destruct (skip_ws u) as [|c2 r2]; [discriminate|]. destruct (c2 =? 58); [|discriminate].
    destruct (parse_value m1 f r2) as [[v t2]|] eqn:E2; [|discriminate]. rewrite (IHv _ _ E2).
    destruct (skip_ws t2) as [|c3 r3]; [discriminate|].
    destruct (c3 =? 44); [|assumption].
    destruct (parse_members m1 f r3) as [[l t']|] eqn:E3; [|discriminate]. rewrite (IHm _ _ E3). assumption.
Qed.

(* THEOREM: the Cue-mode reader never accepts more than RFC 8259, and never reads a
   different value: its deviations are rejections only *)
Theorem cue_parse_refines_std : forall s v, json_parse_gen Cue s = Some v -> json_parse s = Some v.
Proof.
  intros s v H. unfold json_parse, json_parse_gen in *.
  destruct (parse_value Cue (S (length s)) s) as [[v' t]|] eqn:E; [|discriminate].
  assert (Hm : mode_le Cue Std) by (split; discriminate).
  destruct (parse_mono Cue Std Hm (S (length s))) as (Hv & _ & _).
  rewrite (Hv _ _ E). assumption.
Qed.

Theorem strict_parse_refines_std : forall s v, json_parse_gen Strict s = Some v -> json_parse s = Some v.
Proof.
  intros s v H. unfold json_parse, json_parse_gen in *.
  destruct (parse_value Strict (S (length s)) s) as [[v' t]|] eqn:E; [|discriminate].
  assert (Hm : mode_le Strict Std) by (split; discriminate).
  destruct (parse_mono Strict Std Hm (S (length s))) as (Hv & _ & _).
  rewrite (Hv _ _ E). assumption.
Qed.
