(* C10 - the data a JSON document denotes.

     spec_data   what the property demands (RFC 8259 value; for duplicate member
                 names the reading of Go's encoding/json: the last one wins, at the
                 position of the first; numbers exact).
     cue_data    what /repo does with the document once it is CUE source (Impl layer):
                 numbers go through literal.ParseNum and apd (Json/Cue.v; a number outside
                 apd's exponent range is an error -> the document is rejected), members with
                 the same name are UNIFIED (equal scalars and numerically equal numbers
                 of one kind are accepted, structs merge, lists unify element-wise,
                 anything else is a conflict -> the document is rejected).
   No proofs in this file. *)
From Verif Require Import Json.Model Json.Cue.

Inductive data :=
| DNull
| DBool (b : bool)
| DNum (isint : bool) (d : dec)
| DStr (s : list N)
| DList (l : list data)
| DObj (l : list (list N * data)).

Fixpoint key_eqb (a b : list N) : bool :=
  match a, b with
  | [], [] => true
  | x :: a', y :: b' => (x =? y) && key_eqb a' b'
  | _, _ => false
  end.

(* ---------------------------------------------------------------- Spec ---- *)
Fixpoint set_last (k : list N) (d : data) (l : list (list N * data)) : list (list N * data) :=
  match l with
  | [] => [(k, d)]
  | (k', d') :: r => if key_eqb k k' then (k, d) :: r else (k', d') :: set_last k d r
  end.
Definition dedup_last (ps : list (list N * data)) : list (list N * data) :=
  fold_left (fun acc p => set_last (fst p) (snd p) acc) ps [].

(* the value of a number: -0 and 0 are the same number *)
Definition norm0 (d : dec) : dec :=
  {| dneg := dneg d && negb (dcoeff d =? 0); dcoeff := dcoeff d; dexp := dexp d |}.
Definition spec_num (n : jnum) : data := DNum (jnum_is_int n) (norm0 (jnum_dec n)).

Fixpoint spec_data (v : jvalue) : data :=
  match v with
  | JNull => DNull
  | JBool b => DBool b
  | JNum n => spec_num n
  | JStr s => DStr s
  | JArr l => DList (map spec_data l)
  | JObj l => DObj (dedup_last (map (fun kv => (fst kv, spec_data (snd kv))) l))
  end.

(* ---------------------------------------------------------------- Impl ---- *)
Definition cue_num (n : jnum) : option data :=
  match cue_read_number (print_num n) with
  | Some (isint, d) => Some (DNum isint d)
  | None => None
  end.

(* numeric equality of two decimals (the sign of zero is irrelevant) *)
Definition dec_eqb (a b : dec) : bool :=
  let m := Z.min (dexp a) (dexp b) in
  let va := dcoeff a * 10 ^ Z.to_N (dexp a - m) in
  let vb := dcoeff b * 10 ^ Z.to_N (dexp b - m) in
  (va =? vb) && ((va =? 0) || Bool.eqb (dneg a) (dneg b)).

Fixpoint opt_all {A : Type} (l : list (option A)) : option (list A) :=
  match l with
  | [] => Some []
  | Some x :: r => match opt_all r with Some t => Some (x :: t) | None => None end
  | None :: _ => None
  end.

(* unification of two data values (CUE's & on concrete data); fuel bounds the depth *)
Fixpoint dunify (fuel : nat) (a b : data) : option data :=
  match fuel with
  | O => None
  | S f =>
    match a, b with
    | DNull, DNull => Some DNull
    | DBool x, DBool y => if Bool.eqb x y then Some a else None
    | DStr x, DStr y => if key_eqb x y then Some a else None
    | DNum i x, DNum j y => if Bool.eqb i j && dec_eqb x y then Some a else None
    | DList x, DList y =>
      option_map DList ((fix go (x y : list data) : option (list data) :=
         match x, y with
         | [], [] => Some []
         | p :: x', q :: y' =>
           match dunify f p q, go x' y' with
           | Some r, Some t => Some (r :: t)
           | _, _ => None
           end
         | _, _ => None
         end) x y)
    | DObj x, DObj y =>
      option_map DObj
        (fold_left (fun acc kv =>
           match acc with
           | None => None
           | Some l =>
             (fix ins (l : list (list N * data)) : option (list (list N * data)) :=
                match l with
                | [] => Some [kv]
                | (k', d') :: r =>
                  if key_eqb (fst kv) k' then
                    match dunify f d' (snd kv) with Some u => Some ((k', u) :: r) | None => None end
                  else match ins r with Some t => Some ((k', d') :: t) | None => None end
                end) l
           end) y (Some x))
    | _, _ => None
    end
  end.

Fixpoint dsize (d : data) : nat :=
  match d with
  | DList l => S (fold_right (fun x acc => dsize x + acc)%nat 0%nat l)
  | DObj l => S (fold_right (fun kv acc => dsize (snd kv) + acc)%nat 0%nat l)
  | _ => 1%nat
  end.

Fixpoint merge_in (k : list N) (d : data) (l : list (list N * data)) : option (list (list N * data)) :=
  match l with
  | [] => Some [(k, d)]
  | (k', d') :: r =>
    if key_eqb k k' then
      match dunify (dsize d' + dsize d) d' d with Some u => Some ((k', u) :: r) | None => None end
    else match merge_in k d r with Some t => Some ((k', d') :: t) | None => None end
  end.
Definition merge_all (ps : list (list N * data)) : option (list (list N * data)) :=
  fold_left (fun acc p => match acc with Some l => merge_in (fst p) (snd p) l | None => None end)
            ps (Some []).

Fixpoint cue_data (v : jvalue) : option data :=
  match v with
  | JNull => Some DNull
  | JBool b => Some (DBool b)
  | JNum n => cue_num n
  | JStr s => Some (DStr s)
  | JArr l => option_map DList (opt_all (map cue_data l))
  | JObj l =>
    match opt_all (map (fun kv => option_map (pair (fst kv)) (cue_data (snd kv))) l) with
    | Some ps => option_map DObj (merge_all ps)
    | None => None
    end
  end.

(* what /repo does with a JSON text: the Cue-mode reader, then cue_data *)
Definition cue_decode (s : bytes) : option data :=
  match json_parse_gen Cue s with
  | Some v => cue_data v
  | None => None
  end.
Definition spec_decode (s : bytes) : option data := option_map spec_data (json_parse s).

(* -------------------------------------------------- deviation classes ---- *)
Fixpoint has_dup (l : list (list N)) : bool :=
  match l with
  | [] => false
  | k :: r => existsb (key_eqb k) r || has_dup r
  end.

Fixpoint dup_keys (v : jvalue) : bool :=
  match v with
  | JArr l => existsb dup_keys l
  | JObj l => has_dup (map fst l) || existsb (fun kv => dup_keys (snd kv)) l
  | _ => false
  end.

(* the number is inside what apd.SetString represents: the exponent text, the
   fraction length and the adjusted exponent stay within [-100000, 100000]; outside,
   NumInfo.decimal reports an error and the document is rejected *)
Definition num_in_range (n : jnum) : bool :=
  let e := match jexp n with Some e => e | None => 0%Z end in
  let fl := Z.of_nat (length (jfrac n)) in
  let nd := Z.of_nat (length (N_digits (digits_val (jint n ++ jfrac n)))) in
  let adj := (e - fl + nd - 1)%Z in
  ((e <=? max_exponent) && (- max_exponent <=? e) && (fl <=? max_exponent) &&
   (adj <=? max_exponent) && (- max_exponent <=? adj))%Z.

Fixpoint nums_in_range (v : jvalue) : bool :=
  match v with
  | JNum n => num_in_range n
  | JArr l => forallb nums_in_range l
  | JObj l => forallb (fun kv => nums_in_range (snd kv)) l
  | _ => true
  end.
