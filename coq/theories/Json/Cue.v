(* C10 - transcriptions of the Go code through which /repo reads JSON scalars:

     cue_unquote      cue/literal/string.go  Unquote -> ParseQuotes, QuoteInfo.Unquote,
                      isSimple, unquoteChar, for a literal that starts with ONE double
                      quote and no hashes (what a JSON string literal is); the multi-line
                      and hash forms answer UOther (outside this model).
     parse_num        cue/literal/num.go  ParseNum / next / scanMantissa / scanNumber
                      (decimal path complete; other bases accepted without value; the
                      multiplier suffixes K M G T P answer PNOther).
     apd_set_string   NumInfo.decimal over cockroachdb/apd Context.SetString (setString +
                      setExponent under BaseContext; third-party, modelled): an exponent outside
                      [-100000, 100000] or an exponent text outside int32 is an error.
     cue_neg          apd Decimal.Neg (adt.UnaryExpr SubtractOp).
     format_G         apd Decimal.Append(buf, 'G') (cue/types.go appendJSON for numbers).
   Go's partial operations: the only index that could be out of range on this
   path is s[0] in unquoteChar on an empty string (UPanic).
   No proofs in this file. *)
From Verif Require Import Json.Model.

(* ------------------------------------------------------- Unquote ---- *)

Inductive ures := UOk (v : bytes) | UErr | UPanic | UOther.

(* result of unquoteChar *)
Inductive uc :=
| UCRune (c : N) (multibyte : bool) (tail : bytes)
| UCQuote                      (* terminatedByQuote *)
| UCExpr                       (* terminatedByExpr *)
| UCEscNL (tail : bytes)       (* escapedNewline *)
| UCErr
| UCOther.                     (* int32 wrap-around of \U escapes: not modelled *)

Fixpoint hexn (n : nat) (s : bytes) (acc : N) : option (N * bytes) :=
  match n with
  | O => Some (acc, s)
  | S n' =>
    match s with
    | c :: r => match hexval c with Some x => hexn n' r (acc * 16 + x) | None => None end
    | [] => None
    end
  end.

(* unquoteChar(s, info) with info.char = double quote, numChar = 1, numHash = 0; s non-empty *)
Definition unquote_char (s : bytes) : uc :=
  match s with
  | [] => UCOther (* not called: callers test emptiness; see cue_uq_loop *)
  | c :: r =>
    if c =? 34 then
      match r with [] => UCQuote | _ => UCErr end
    else if 128 <=? c then
      match utf8_decode s with
      | Some (rn, t) => UCRune rn true t
      | None => UCErr
      end
    else if negb (c =? 92) then
      if c =? 0 then UCErr else UCRune c false r
    else
      match r with
      | [] => UCRune 92 false r
      | e :: t =>
        if e =? 97 then UCRune 7 false t
        else if e =? 98 then UCRune 8 false t
        else if e =? 102 then UCRune 12 false t
        else if e =? 110 then UCRune 10 false t
        else if e =? 114 then UCRune 13 false t
        else if e =? 116 then UCRune 9 false t
        else if e =? 118 then UCRune 11 false t
        else if e =? 47 then UCRune 47 false t
        else if e =? 120 then UCErr            (* \x: errSyntax at the latest at the quote check *)
        else if e =? 117 then
          match hexn 4 t 0 with
          | Some (v, t') => UCRune v true t'
          | None => UCErr
          end
        else if e =? 85 then
          match hexn 8 t 0 with
          | Some (v, t') =>
            if 0x80000000 <=? v then UCOther
            else if 0x10FFFF <? v then UCErr else UCRune v true t'
          | None => UCErr
          end
        else if (48 <=? e) && (e <=? 55) then UCErr   (* octal: not in a double-quoted string *)
        else if e =? 92 then UCRune 92 false t
        else if e =? 39 then UCErr                    (* the other quote character *)
        else if e =? 34 then UCRune 34 false t
        else if e =? 40 then match t with [] => UCExpr | _ => UCErr end
        else if e =? 13 then
          match t with
          | c2 :: t2 => if c2 =? 10 then UCEscNL t2 else UCErr
          | [] => UCErr
          end
        else if e =? 10 then UCEscNL t
        else UCErr
      end
  end.

(* isSimple(s, quote): range over the runes of s *)
Fixpoint is_simple (fuel : nat) (s : bytes) : bool :=
  match fuel with
  | O => true
  | S f =>
    match s with
    | [] => true
    | c :: r =>
      if c <? 128 then
        if (c =? 34) || (c =? 92) || (c =? 0) then false else is_simple f r
      else
        match utf8_decode s with
        | None => false                      (* RuneError *)
        | Some (rn, t) => if rn =? 0xFFFD then false else is_simple f t
        end
    end
  end.

(* the loop of QuoteInfo.Unquote, single-line double-quoted form; acc is buf *)
Fixpoint cue_uq_loop (fuel : nat) (s : bytes) (acc : bytes) : ures :=
  match fuel with
  | O => UErr
  | S f =>
    match s with
    | [] => UErr                                (* errUnmatchedQuote *)
    | c :: r =>
      if c =? 13 then cue_uq_loop f r acc
      else if c =? 10 then UErr                 (* skipWhitespaceAfterNewline, not multiline *)
      else
        match unquote_char s with
        | UCOther => UOther
        | UCErr => UErr
        | UCEscNL _ => UErr                     (* skipWhitespaceAfterNewline, not multiline *)
        | UCQuote => UOk acc
        | UCExpr => UOk acc
        | UCRune c1 mb ss =>
          if is_high c1 || is_low c1 then
            if is_low c1 then UErr              (* errSurrogate *)
            else
              match ss with
              | [] => UPanic                    (* unquoteChar(ss): ss[0] *)
              | _ =>
                match unquote_char ss with
                | UCOther => UOther
                | UCRune cl _ ss2 =>
                  if is_low cl
                  then cue_uq_loop f ss2 (acc ++ utf8_encode (combine_surr c1 cl))
                  else UErr
                | _ => UErr
                end
              end
          else if mb then cue_uq_loop f ss (acc ++ utf8_encode c1)
          else cue_uq_loop f ss (acc ++ [c1])
        end
    end
  end.

Definition last_is (c : N) (s : bytes) : bool :=
  match rev s with x :: _ => x =? c | [] => false end.

(* literal.Unquote(t) *)
Definition cue_unquote (t : bytes) : ures :=
  match t with
  | [] => UErr
  | c :: s =>
    if c =? 35 then UOther                      (* hashes *)
    else if c =? 39 then UOther                 (* single quotes: bytes *)
    else if negb (c =? 34) then UErr
    else
      match s with
      | c1 :: c2 :: c3 :: _ =>
        if (c1 =? 34) && (c2 =? 34) && negb (c3 =? 35) then UOther else (* multi-line *)
        if negb (last_is 34 t) then UErr else
        if existsb (N.eqb 10) s then UErr else
        if is_simple (length s) (removelast s) then UOk (removelast s)
        else cue_uq_loop (S (length s)) s []
      | _ =>
        if negb (last_is 34 t) then UErr else
        match s with
        | [] => UErr                            (* the literal is a single quote character *)
        | _ =>
          if existsb (N.eqb 10) s then UErr else
          if is_simple (length s) (removelast s) then UOk (removelast s)
          else cue_uq_loop (S (length s)) s []
        end
      end
  end.

(* ------------------------------------------------------- ParseNum ---- *)

Record pst := { p_src : bytes; p_ch : N; p_buf : bytes; p_err : bool }.

(* NumInfo.next: false at the end of the text *)
Definition pn_next (s : pst) : pst * bool :=
  match p_src s with
  | [] => ({| p_src := []; p_ch := 0; p_buf := p_buf s; p_err := p_err s |}, false)
  | c :: r =>
    let buf' :=
      if c =? 46 then (match p_buf s with [] => [48] | b => b end) ++ [46] else p_buf s in
    ({| p_src := r; p_ch := c; p_buf := buf'; p_err := p_err s || (c =? 0) |}, true)
  end.
Definition pn_step (s : pst) : pst := fst (pn_next s).

Definition digit_val (c : N) : N :=
  if (48 <=? c) && (c <=? 57) then c - 48
  else if c =? 95 then 0
  else if (97 <=? c) && (c <=? 102) then c - 87
  else if (65 <=? c) && (c <=? 70) then c - 55
  else 16.

Definition set_err (s : pst) : pst :=
  {| p_src := p_src s; p_ch := p_ch s; p_buf := p_buf s; p_err := true |}.
Definition push (c : N) (s : pst) : pst :=
  {| p_src := p_src s; p_ch := p_ch s; p_buf := p_buf s ++ [c]; p_err := p_err s |}.

(* scanMantissa: result state and hasDigit.  fuel = 2 + length (p_src s) suffices:
   every iteration reads one byte (the current one plus the unread ones), at the end
   of the text ch = 0 stops the loop, and the last round performs the final check. *)
Fixpoint scan_mantissa (fuel : nat) (base : N) (s : pst) (last : N) (has : bool) : pst * bool :=
  match fuel with
  | O => (s, has)
  | S f =>
    if digit_val (p_ch s) <? base then
      let s1 := if (last =? 95) && (p_ch s =? 95) then set_err s else s in
      let '(s2, has') := if negb (p_ch s =? 95) then (push (p_ch s) s1, true) else (s1, has) in
      scan_mantissa f base (pn_step s2) (p_ch s) has'
    else ((if last =? 95 then set_err s else s), has)
  end.
Definition scan_m (base : N) (s : pst) : pst * bool :=
  scan_mantissa (S (S (length (p_src s)))) base s 0 false.

Inductive pnres :=
| PNErr
| PNOther                                  (* multiplier suffix: value not modelled *)
| PNOk (base : N) (isfloat : bool) (buf : bytes).

Definition is_mul (c : N) : bool := (c =? 75) || (c =? 77) || (c =? 71) || (c =? 84) || (c =? 80).

(* labels exit / exponent / fraction of scanNumber *)
Definition pn_exit (base : N) (isf : bool) (s : pst) : option (N * bool * pst) :=
  if p_ch s =? 0 then Some (base, isf, s) else None.

Inductive scanres := SErr | SOther | SOk (base : N) (isf : bool) (s : pst).
Definition of_exit (o : option (N * bool * pst)) : scanres :=
  match o with Some (b, i, s) => SOk b i s | None => SErr end.

Definition pn_exponent (isf : bool) (s : pst) : scanres :=
  if is_mul (p_ch s) then SOther
  else if (p_ch s =? 101) || (p_ch s =? 69) then
    let s1 := push 101 (pn_step s) in
    let s2 := if (p_ch s1 =? 45) || (p_ch s1 =? 43) then pn_step (push (p_ch s1) s1) else s1 in
    let '(s3, has) := scan_m 10 s2 in
    if has then of_exit (pn_exit 10 true s3) else SErr
  else of_exit (pn_exit 10 isf s).

Definition pn_fraction (isf : bool) (s : pst) : scanres :=
  if p_ch s =? 46 then
    let '(s1, _) := scan_m 10 (pn_step s) in pn_exponent true s1
  else pn_exponent isf s.

Definition scan_number (seen_dot : bool) (s : pst) : scanres :=
  if seen_dot then
    let '(s1, has) := scan_m 10 s in
    if has then pn_exponent true s1 else SErr
  else if p_ch s =? 48 then
    let s1 := pn_step s in
    if (p_ch s1 =? 120) || (p_ch s1 =? 88) then
      let '(s2, has) := scan_m 16 (pn_step s1) in
      if has then of_exit (pn_exit 16 false s2) else SErr
    else if p_ch s1 =? 98 then
      let '(s2, has) := scan_m 2 (pn_step s1) in
      if has then of_exit (pn_exit 2 false s2) else SErr
    else if p_ch s1 =? 111 then
      let '(s2, has) := scan_m 8 (pn_step s1) in
      if has then of_exit (pn_exit 8 false s2) else SErr
    else
      let '(s2, seen) := scan_m 10 s1 in
      if (p_ch s2 =? 101) || (p_ch s2 =? 69) then
        pn_fraction false (match p_buf s2 with [] => push 48 s2 | _ => s2 end)
      else if p_ch s2 =? 46 then pn_fraction false s2
      else if seen then SErr
      else if negb (p_ch s2 =? 0) then
        if is_mul (p_ch s2) then pn_exponent false s2 else SErr
      else of_exit (pn_exit 10 false s2)
  else
    let '(s1, has) := scan_m 10 s in
    if has then pn_fraction false s1 else SErr.

(* literal.ParseNum *)
Definition parse_num (t : bytes) : pnres :=
  let '(s0, ok) := pn_next {| p_src := t; p_ch := 0; p_buf := []; p_err := false |} in
  if negb ok then PNErr else
  let s1 :=
    if p_ch s0 =? 45 then pn_step (push 45 s0)
    else if p_ch s0 =? 43 then pn_step s0 else s0 in
  let '(s2, seen_dot) := if p_ch s1 =? 46 then (pn_step s1, true) else (s1, false) in
  match scan_number seen_dot s2 with
  | SErr => PNErr
  | SOther => PNOther
  | SOk base isf s3 =>
    if p_err s3 then PNErr
    else match p_src s3 with
         | _ :: _ => PNErr
         | [] => PNOk base isf (match p_buf s3 with [] => [48] | b => b end)
         end
  end.

(* ------------------------------------------------------------ apd ---- *)

Fixpoint split_at (c : N) (s : bytes) : bytes * option bytes :=
  match s with
  | [] => ([], None)
  | x :: r => if x =? c then ([], Some r)
              else let '(a, b) := split_at c r in (x :: a, b)
  end.

(* strconv.ParseInt(s, 10, 32) *)
Definition parse_int32 (s : bytes) : option Z :=
  let '(neg, ds) :=
    match s with
    | c :: r => if c =? 45 then (true, r) else if c =? 43 then (false, r) else (false, s)
    | [] => (false, s)
    end in
  match ds with
  | [] => None
  | _ =>
    if forallb is_digit ds then
      let v := Z.of_N (digits_val ds) in
      let z := if neg then (- v)%Z else v in
      if ((-2147483648 <=? z) && (z <=? 2147483647))%Z then Some z else None
    else None
  end.

Definition max_exponent : Z := 100000.

(* Decimal.setExponent(c, unknownNumDigits, 0, xs...) inside setString under BaseContext:
   None = SystemOverflow/SystemUnderflow (an exponent, or the adjusted exponent, is outside
   [-100000, 100000]); Context.SetString turns that into an error WITHOUT condition. *)
Definition set_exponent (coeff : N) (xs : list Z) : option Z :=
  if forallb (fun x => (x <=? max_exponent)%Z && (- max_exponent <=? x)%Z) xs then
    let sum := fold_left Z.add xs 0%Z in
    let nd := Z.of_nat (length (N_digits coeff)) in
    let adj := (sum + nd - 1)%Z in
    if ((adj <=? max_exponent) && (- max_exponent <=? adj))%Z then Some sum else None
  else None.

(* NumInfo.decimal, base 10, no multiplier (after the fix of finding C10-exponent-range):
   v.SetString(buf); an error without condition - the text is not a number for apd, the
   exponent text does not fit int32, or an exponent is out of apd's range - is returned
   (None); an error WITH a condition (the rounding step at precision 0 complaining about the
   summed exponent field) is ignored as before and the decimal holds the number as written. *)
Definition apd_set_string (buf : bytes) : option dec :=
  let '(neg, s) :=
    match buf with
    | c :: r => if c =? 45 then (true, r) else if c =? 43 then (false, r) else (false, buf)
    | [] => (false, buf)
    end in
  if match s with c :: _ => (c =? 45) || (c =? 43) | [] => false end then None else
  let '(mant, eopt) := split_at 101 s in
  match (match eopt with
         | None => Some []
         | Some et => match parse_int32 et with Some z => Some [z] | None => None end
         end) with
  | None => None
  | Some exps1 =>
    let '(ip, fopt) := split_at 46 mant in
    let digits := ip ++ match fopt with Some f => f | None => [] end in
    let exps := exps1 ++ match fopt with Some f => [(- Z.of_nat (length f))%Z] | None => [] end in
    match digits with
    | [] => None
    | _ =>
      if forallb is_digit digits then
        let coeff := digits_val digits in
        match set_exponent coeff exps with
        | Some e => Some {| dneg := neg; dcoeff := coeff; dexp := e |}
        | None => None
        end
      else None
    end
  end.

(* Decimal.Neg *)
Definition cue_neg (x : dec) : dec :=
  {| dneg := if dcoeff x =? 0 then false else negb (dneg x); dcoeff := dcoeff x; dexp := dexp x |}.

(* how a JSON number text is read once it is CUE source: an optional unary
   minus applied to a number literal.  Result: (is_int, value); None = the
   compiler reports an error (not a literal, or NumInfo.decimal failed). *)
Definition cue_read_number (t : bytes) : option (bool * dec) :=
  let '(minus, u) :=
    match t with
    | c :: r => if c =? 45 then (true, r) else (false, t)
    | [] => (false, t)
    end in
  match parse_num u with
  | PNOk base isf buf =>
    if base =? 10 then
      match apd_set_string buf with
      | Some d => Some (negb isf, if minus then cue_neg d else d)
      | None => None
      end
    else None
  | _ => None
  end.

(* --------------------------------------------------------- format G ---- *)

Fixpoint zeros (n : nat) : bytes := match n with O => [] | S k => 48 :: zeros k end.

(* fmtF *)
Definition fmt_f (digits : bytes) (e : Z) : bytes :=
  if (e <? 0)%Z then
    let left := (- e - Z.of_nat (length digits))%Z in
    if (0 <=? left)%Z then [48; 46] ++ zeros (Z.to_nat left) ++ digits
    else let off := Z.to_nat (- left) in firstn off digits ++ 46 :: skipn off digits
  else digits ++ zeros (Z.to_nat e).

(* fmtE with 'E' *)
Definition fmt_e (digits : bytes) (e : Z) : bytes :=
  let adj := (e + Z.of_nat (length digits) - 1)%Z in
  match digits with
  | [] => []
  | d0 :: ds =>
    d0 :: (match ds with [] => [] | _ => 46 :: ds end) ++
    69 :: (if (adj <? 0)%Z then 45 else 43) :: N_digits (Z.abs_N adj)
  end.

(* Decimal.Append(buf, 'G') for a Finite decimal *)
Definition format_G (d : dec) : bytes :=
  let digits := N_digits (dcoeff d) in
  let e := dexp d in
  let pad := if (dcoeff d =? 0) && (-2000 <=? e)%Z && (e <? 0)%Z then (- e)%Z else 0%Z in
  let dlen := (Z.of_nat (length digits) + pad)%Z in
  let adj := (e + (dlen - 1))%Z in
  (if dneg d then [45] else []) ++
  (if (e <=? 0)%Z && (-6 <=? adj)%Z then fmt_f digits e else fmt_e digits e).
