(* C10 - JSON (RFC 8259) codec model.

   Texts and string values:
     - a JSON text is a list of bytes ([list N], every element < 256);
     - a JSON string VALUE is a list of Unicode code points ([list N]); a
       well-formed value contains scalar values only (no surrogates).
   What is modelled:
     json_parse_gen m : bytes -> option jvalue
        recursive descent over the RFC 8259 grammar (ws, literals, numbers,
        strings with all escapes incl. \uXXXX and surrogate pairs, arrays,
        objects in member order, duplicate keys kept), fuel = S (length text).
        Mode [Std]   : the reading of Go's encoding/json on valid UTF-8 input
                       (an unpaired surrogate escape denotes U+FFFD);
        mode [Strict]: unpaired surrogate escapes are rejected;
        mode [Cue]   : Strict + a raw U+FEFF inside a string is rejected
                       (what /repo/encoding/json does, see Json/Cue.v).
        Raw bytes that are not valid UTF-8 are rejected in every mode (RFC 8259
        section 8.1; Go's json.Valid accepts them, the CUE scanner does not).
     json_print : jvalue -> bytes
        compact output; strings escaped the way Go's encoding/json appendString
        does with escapeHTML=false (go1.22+): backslash-quote \\ \b \f \n \r \t, other
        controls as \u00XX, U+2028/U+2029 as \u2028 / \u2029, invalid UTF-8 as
        \ufffd, everything else verbatim.  [go_escape] is the byte level
        transcription of that function (third-party code, modelled).
   No proofs in this file. *)
From Coq Require Export List NArith ZArith Bool.
Export ListNotations.
Open Scope N_scope.

Definition bytes := list N.

(* ------------------------------------------------------------ UTF-8 ---- *)

Definition is_surrogate (c : N) : bool := (0xD800 <=? c) && (c <=? 0xDFFF).
Definition is_scalar (c : N) : bool := (c <=? 0x10FFFF) && negb (is_surrogate c).
Definition is_cont (b : N) : bool := (0x80 <=? b) && (b <=? 0xBF).

(* utf8.AppendRune: surrogates and values above U+10FFFF are written as U+FFFD *)
Definition utf8_encode (c : N) : bytes :=
  if c <? 0x80 then [c]
  else if c <? 0x800 then [0xC0 + c / 64; 0x80 + c mod 64]
  else if negb (is_scalar c) then [0xEF; 0xBF; 0xBD]
  else if c <? 0x10000 then [0xE0 + c / 4096; 0x80 + (c / 64) mod 64; 0x80 + c mod 64]
  else [0xF0 + c / 262144; 0x80 + (c / 4096) mod 64; 0x80 + (c / 64) mod 64; 0x80 + c mod 64].

Definition utf8_encode_all (cs : list N) : bytes := flat_map utf8_encode cs.

(* utf8.DecodeRune, strict: [None] where Go returns (RuneError, 1) - truncated,
   overlong, surrogate, above U+10FFFF, stray continuation byte - or on []. *)
Definition utf8_decode (s : bytes) : option (N * bytes) :=
  match s with
  | [] => None
  | b0 :: r =>
    if b0 <? 0x80 then Some (b0, r)
    else if b0 <? 0xC2 then None
    else if b0 <? 0xE0 then
      match r with
      | b1 :: r1 => if is_cont b1 then Some ((b0 - 0xC0) * 64 + (b1 - 0x80), r1) else None
      | _ => None
      end
    else if b0 <? 0xF0 then
      match r with
      | b1 :: b2 :: r2 =>
        if is_cont b1 && is_cont b2 then
          let c := (b0 - 0xE0) * 4096 + (b1 - 0x80) * 64 + (b2 - 0x80) in
          if (c <? 0x800) || is_surrogate c then None else Some (c, r2)
        else None
      | _ => None
      end
    else if b0 <? 0xF5 then
      match r with
      | b1 :: b2 :: b3 :: r3 =>
        if is_cont b1 && is_cont b2 && is_cont b3 then
          let c := (b0 - 0xF0) * 262144 + (b1 - 0x80) * 4096 + (b2 - 0x80) * 64 + (b3 - 0x80) in
          if (c <? 0x10000) || (0x10FFFF <? c) then None else Some (c, r3)
        else None
      | _ => None
      end
    else None
  end.

(* ------------------------------------------------------------- hex ---- *)

Definition hexval (c : N) : option N :=
  if (48 <=? c) && (c <=? 57) then Some (c - 48)
  else if (97 <=? c) && (c <=? 102) then Some (c - 87)
  else if (65 <=? c) && (c <=? 70) then Some (c - 55)
  else None.

(* Go: const hex = "0123456789abcdef" *)
Definition hexdig (n : N) : N := if n <? 10 then 48 + n else 87 + n.

Definition hex4 (s : bytes) : option (N * bytes) :=
  match s with
  | a :: b :: c :: d :: r =>
    match hexval a, hexval b, hexval c, hexval d with
    | Some x, Some y, Some z, Some w => Some (((x * 16 + y) * 16 + z) * 16 + w, r)
    | _, _, _, _ => None
    end
  | _ => None
  end.

(* --------------------------------------------------------- strings ---- *)

Record mode := { rej_lone : bool; rej_bom : bool }.
Definition Std := {| rej_lone := false; rej_bom := false |}.
Definition Strict := {| rej_lone := true; rej_bom := false |}.
Definition Cue := {| rej_lone := true; rej_bom := true |}.

Definition is_high (u : N) : bool := (0xD800 <=? u) && (u <? 0xDC00).
Definition is_low (u : N) : bool := (0xDC00 <=? u) && (u <? 0xE000).
Definition combine_surr (h l : N) : N := 0x10000 + (h - 0xD800) * 0x400 + (l - 0xDC00).

(* the two-character escapes of RFC 8259 section 7 (without \u) *)
Definition simple_escape (e : N) : option N :=
  if e =? 34 then Some 34          (* quote *)
  else if e =? 92 then Some 92     (* \\ *)
  else if e =? 47 then Some 47     (* \/ *)
  else if e =? 98 then Some 8      (* \b *)
  else if e =? 102 then Some 12    (* \f *)
  else if e =? 110 then Some 10    (* \n *)
  else if e =? 114 then Some 13    (* \r *)
  else if e =? 116 then Some 9     (* \t *)
  else None.

Definition scons (c : N) (o : option (list N * bytes)) : option (list N * bytes) :=
  match o with Some (l, t) => Some (c :: l, t) | None => None end.

(* the low half of a surrogate pair, if the text continues with one *)
Definition low_escape (s : bytes) : option (N * bytes) :=
  match s with
  | c1 :: c2 :: r =>
    if (c1 =? 92) && (c2 =? 117) then
      match hex4 r with
      | Some (l, r') => if is_low l then Some (l, r') else None
      | None => None
      end
    else None
  | _ => None
  end.

(* [parse_str m fuel s]: s is the text after the opening quote; result: the
   code points of the string and the text after the closing quote.  Every
   iteration consumes at least one byte: fuel = length s suffices. *)
Fixpoint parse_str (m : mode) (fuel : nat) (s : bytes) : option (list N * bytes) :=
  match fuel with
  | O => None
  | S f =>
    match s with
    | [] => None
    | c :: r =>
      if c =? 34 then Some ([], r)
      else if c =? 92 then
        match r with
        | [] => None
        | e :: r1 =>
          if e =? 117 then
            match hex4 r1 with
            | None => None
            | Some (u, r2) =>
              if is_high u then
                match low_escape r2 with
                | Some (l, r3) => scons (combine_surr u l) (parse_str m f r3)
                | None => if rej_lone m then None else scons 0xFFFD (parse_str m f r2)
                end
              else if is_low u then
                if rej_lone m then None else scons 0xFFFD (parse_str m f r2)
              else scons u (parse_str m f r2)
            end
          else
            match simple_escape e with
            | Some v => scons v (parse_str m f r1)
            | None => None
            end
        end
      else if c <? 32 then None
      else if c <? 128 then scons c (parse_str m f r)
      else
        match utf8_decode s with
        | None => None
        | Some (cp, r') =>
          if rej_bom m && (cp =? 0xFEFF) then None else scons cp (parse_str m f r')
        end
    end
  end.

(* [json_unescape_gen m t]: t is a complete string literal, quotes included *)
Definition json_unescape_gen (m : mode) (t : bytes) : option (list N) :=
  match t with
  | c :: r =>
    if c =? 34 then
      match parse_str m (length r) r with
      | Some (v, []) => Some v
      | _ => None
      end
    else None
  | [] => None
  end.
Definition json_unescape := json_unescape_gen Std.

(* encoding/json appendString, escapeHTML=false: one ASCII byte *)
Definition esc_byte (b : N) : bytes :=
  if (b =? 34) || (b =? 92) then [92; b]
  else if b =? 8 then [92; 98]
  else if b =? 12 then [92; 102]
  else if b =? 10 then [92; 110]
  else if b =? 13 then [92; 114]
  else if b =? 9 then [92; 116]
  else if b <? 32 then [92; 117; 48; 48; hexdig (b / 16); hexdig (b mod 16)]
  else [b].

(* encoding/json appendString body (without the surrounding quotes) over the
   BYTES of a Go string; fuel = length s suffices. *)
Fixpoint go_escape (fuel : nat) (s : bytes) : bytes :=
  match fuel with
  | O => []
  | S f =>
    match s with
    | [] => []
    | b :: r =>
      if b <? 128 then esc_byte b ++ go_escape f r
      else
        match utf8_decode s with
        | None => [92; 117; 102; 102; 102; 100] ++ go_escape f r
        | Some (c, r') =>
          if (c =? 0x2028) || (c =? 0x2029)
          then [92; 117; 50; 48; 50; hexdig (c mod 16)] ++ go_escape f r'
          else utf8_encode c ++ go_escape f r'
        end
    end
  end.

Definition go_json_string (s : bytes) : bytes := 34 :: go_escape (length s) s ++ [34].

(* escaping of a string VALUE (code points): its UTF-8 bytes through Go's escaper *)
Definition json_escape (cs : list N) : bytes := go_json_string (utf8_encode_all cs).

(* --------------------------------------------------------- numbers ---- *)

Definition is_digit (c : N) : bool := (48 <=? c) && (c <=? 57).

(* number = [ minus ] int [ frac ] [ exp ]; digits are kept as ASCII bytes.
   jfrac = [] means "no fraction" (a '.' needs at least one digit);
   jexp = None means "no exponent part". *)
Record jnum := { jneg : bool; jint : bytes; jfrac : bytes; jexp : option Z }.

Fixpoint span_digits (s : bytes) : bytes * bytes :=
  match s with
  | c :: r => if is_digit c then let '(d, t) := span_digits r in (c :: d, t) else ([], s)
  | [] => ([], [])
  end.

Definition digits_val (ds : bytes) : N := fold_left (fun acc d => acc * 10 + (d - 48)) ds 0.

Definition parse_frac (s : bytes) : option (bytes * bytes) :=
  match s with
  | c :: r =>
    if c =? 46 then
      let '(fp, t) := span_digits r in
      match fp with [] => None | _ => Some (fp, t) end
    else Some ([], s)
  | [] => Some ([], s)
  end.

Definition parse_exp (s : bytes) : option (option Z * bytes) :=
  match s with
  | c :: r =>
    if (c =? 101) || (c =? 69) then
      let '(sg, r1) :=
        match r with
        | c1 :: r1 => if c1 =? 43 then (false, r1) else if c1 =? 45 then (true, r1) else (false, r)
        | [] => (false, r)
        end in
      let '(ds, t) := span_digits r1 in
      match ds with
      | [] => None
      | _ => Some (Some (if sg then (- Z.of_N (digits_val ds))%Z else Z.of_N (digits_val ds)), t)
      end
    else Some (None, s)
  | [] => Some (None, s)
  end.

Definition parse_number (s : bytes) : option (jnum * bytes) :=
  let '(neg, s1) :=
    match s with
    | c :: r => if c =? 45 then (true, r) else (false, s)
    | [] => (false, s)
    end in
  let '(ip, s2) := span_digits s1 in
  match ip with
  | [] => None
  | d :: ds =>
    if (d =? 48) && negb (match ds with [] => true | _ => false end) then None
    else
      match parse_frac s2 with
      | None => None
      | Some (fp, s3) =>
        match parse_exp s3 with
        | None => None
        | Some (e, s4) => Some ({| jneg := neg; jint := ip; jfrac := fp; jexp := e |}, s4)
        end
      end
  end.

(* decimal digits of n, most significant first, as ASCII *)
Fixpoint N_digits_aux (fuel : nat) (n : N) (acc : bytes) : bytes :=
  match fuel with
  | O => acc
  | S f =>
    let acc' := (48 + n mod 10) :: acc in
    if n / 10 =? 0 then acc' else N_digits_aux f (n / 10) acc'
  end.
Definition N_digits (n : N) : bytes := N_digits_aux (S (N.to_nat (N.log2 n))) n [].

Definition print_Z (e : Z) : bytes :=
  if (e <? 0)%Z then 45 :: N_digits (Z.abs_N e) else N_digits (Z.abs_N e).

Definition print_num (n : jnum) : bytes :=
  (if jneg n then [45] else []) ++ jint n ++
  (match jfrac n with [] => [] | f => 46 :: f end) ++
  (match jexp n with None => [] | Some e => 101 :: print_Z e end).

(* the kind rule: no fraction and no exponent <-> integer *)
Definition jnum_is_int (n : jnum) : bool :=
  match jfrac n, jexp n with [], None => true | _, _ => false end.

(* the exact decimal a number denotes: (-1)^neg * coeff * 10^exp *)
Record dec := { dneg : bool; dcoeff : N; dexp : Z }.
Definition jnum_dec (n : jnum) : dec :=
  {| dneg := jneg n;
     dcoeff := digits_val (jint n ++ jfrac n);
     dexp := (match jexp n with Some e => e | None => 0 end - Z.of_nat (length (jfrac n)))%Z |}.

(* ---------------------------------------------------------- values ---- *)

Inductive jvalue :=
| JNull
| JBool (b : bool)
| JNum (n : jnum)
| JStr (s : list N)
| JArr (l : list jvalue)
| JObj (l : list (list N * jvalue)).

Definition is_ws (c : N) : bool := (c =? 32) || (c =? 9) || (c =? 10) || (c =? 13).
Fixpoint skip_ws (s : bytes) : bytes :=
  match s with
  | c :: r => if is_ws c then skip_ws r else s
  | [] => []
  end.

Fixpoint strip_prefix (p s : bytes) : option bytes :=
  match p with
  | [] => Some s
  | a :: p' => match s with b :: s' => if a =? b then strip_prefix p' s' else None | [] => None end
  end.

Fixpoint parse_value (m : mode) (fuel : nat) (s : bytes) {struct fuel} : option (jvalue * bytes) :=
  match fuel with
  | O => None
  | S f =>
    match skip_ws s with
    | [] => None
    | c :: r =>
      if c =? 123 then                                     (* { *)
        match skip_ws r with
        | [] => None
        | c' :: r' =>
          if c' =? 125 then Some (JObj [], r')
          else match parse_members m f (c' :: r') with
               | Some (l, t) => Some (JObj l, t)
               | None => None
               end
        end
      else if c =? 91 then                                 (* [ *)
        match skip_ws r with
        | [] => None
        | c' :: r' =>
          if c' =? 93 then Some (JArr [], r')
          else match parse_elems m f (c' :: r') with
               | Some (l, t) => Some (JArr l, t)
               | None => None
               end
        end
      else if c =? 34 then
        match parse_str m (length r) r with
        | Some (v, t) => Some (JStr v, t)
        | None => None
        end
      else if c =? 116 then
        match strip_prefix [114; 117; 101] r with Some t => Some (JBool true, t) | None => None end
      else if c =? 102 then
        match strip_prefix [97; 108; 115; 101] r with Some t => Some (JBool false, t) | None => None end
      else if c =? 110 then
        match strip_prefix [117; 108; 108] r with Some t => Some (JNull, t) | None => None end
      else if (c =? 45) || is_digit c then
        match parse_number (c :: r) with
        | Some (n, t) => Some (JNum n, t)
        | None => None
        end
      else None
    end
  end
with parse_elems (m : mode) (fuel : nat) (s : bytes) {struct fuel} : option (list jvalue * bytes) :=
  match fuel with
  | O => None
  | S f =>
    match parse_value m f s with
    | None => None
    | Some (v, t) =>
      match skip_ws t with
      | [] => None
      | c :: r =>
        if c =? 44 then
          match parse_elems m f r with
          | Some (l, t') => Some (v :: l, t')
          | None => None
          end
        else if c =? 93 then Some ([v], r)
        else None
      end
    end
  end
with parse_members (m : mode) (fuel : nat) (s : bytes) {struct fuel}
  : option (list (list N * jvalue) * bytes) :=
  match fuel with
  | O => None
  | S f =>
    match skip_ws s with
    | [] => None
    | c :: r =>
      if c =? 34 then
        match parse_str m (length r) r with
        | None => None
        | Some (k, t) =>
          match skip_ws t with
          | [] => None
          | c2 :: r2 =>
            if c2 =? 58 then
              match parse_value m f r2 with
              | None => None
              | Some (v, t2) =>
                match skip_ws t2 with
                | [] => None
                | c3 :: r3 =>
                  if c3 =? 44 then
                    match parse_members m f r3 with
                    | Some (l, t') => Some ((k, v) :: l, t')
                    | None => None
                    end
                  else if c3 =? 125 then Some ([(k, v)], r3)
                  else None
                end
              end
            else None
          end
        end
      else None
    end
  end.

Definition json_parse_gen (m : mode) (s : bytes) : option jvalue :=
  match parse_value m (S (length s)) s with
  | Some (v, t) => match skip_ws t with [] => Some v | _ => None end
  | None => None
  end.
Definition json_parse := json_parse_gen Std.

(* ----------------------------------------------------------- print ---- *)

Fixpoint json_print (v : jvalue) : bytes :=
  match v with
  | JNull => [110; 117; 108; 108]
  | JBool true => [116; 114; 117; 101]
  | JBool false => [102; 97; 108; 115; 101]
  | JNum n => print_num n
  | JStr s => json_escape s
  | JArr l =>
    91 :: match l with
          | [] => []
          | v0 :: l0 =>
            json_print v0 ++
            (fix rest (l : list jvalue) : bytes :=
               match l with
               | [] => []
               | w :: l' => 44 :: json_print w ++ rest l'
               end) l0
          end ++ [93]
  | JObj l =>
    123 :: match l with
           | [] => []
           | (k0, v0) :: l0 =>
             json_escape k0 ++ 58 :: json_print v0 ++
             (fix rest (l : list (list N * jvalue)) : bytes :=
                match l with
                | [] => []
                | (k, w) :: l' => 44 :: json_escape k ++ 58 :: json_print w ++ rest l'
                end) l0
           end ++ [125]
  end.

(* well-formedness of values: what the printer needs to be invertible *)
Definition wf_num (n : jnum) : bool :=
  forallb is_digit (jint n) && forallb is_digit (jfrac n) &&
  match jint n with
  | [] => false
  | d :: ds => negb ((d =? 48) && negb (match ds with [] => true | _ => false end))
  end.

Fixpoint wf_value (v : jvalue) : bool :=
  match v with
  | JNull | JBool _ => true
  | JNum n => wf_num n
  | JStr s => forallb is_scalar s
  | JArr l => forallb wf_value l
  | JObj l => forallb (fun kv => forallb is_scalar (fst kv) && wf_value (snd kv)) l
  end.
