(* C10 - every JSON number text is a CUE number literal (optionally preceded by
   a unary minus) with the same coefficient, exponent and int/float kind. *)
From Verif Require Import Json.Model Json.Cue Json.Data Json.Utf8Proofs Json.NumProofs.
From Coq Require Import Lia ZifyN ZifyNat ZifyBool.

(* ------------------------------------------------ shape of a JSON number ---- *)
Lemma span_digits_inv : forall s ds r, span_digits s = (ds, r) ->
  s = ds ++ r /\ forallb is_digit ds = true /\ no_digit_head r = true.
Proof.
  induction s as [|c s IH]; intros ds r H; cbn [span_digits] in H.
  - inversion H; subst. auto.
  - destruct (is_digit c) eqn:Ed.
    + destruct (span_digits s) as [d t] eqn:E. inversion H; subst.
      destruct (IH _ _ eq_refl) as (-> & Hd & Hr). cbn [forallb]. rewrite Ed. auto.
    + inversion H; subst. cbn. rewrite Ed. auto.
Qed.

(* the three optional parts of a number text *)
Inductive frac_shape : bytes -> bytes -> Prop :=
| FS_none : frac_shape [] []
| FS_some : forall d ds, forallb is_digit (d :: ds) = true -> frac_shape (46 :: d :: ds) (d :: ds).

Inductive exp_shape : bytes -> option Z -> Prop :=
| ES_none : exp_shape [] None
| ES_some : forall ee sg d ds, (ee = 101 \/ ee = 69) ->
    (sg = [] \/ sg = [43] \/ sg = [45]) -> forallb is_digit (d :: ds) = true ->
    exp_shape (ee :: sg ++ d :: ds)
              (Some (if match sg with [45] => true | _ => false end
                     then (- Z.of_N (digits_val (d :: ds)))%Z else Z.of_N (digits_val (d :: ds)))).

Lemma parse_frac_inv : forall s fp t, parse_frac s = Some (fp, t) ->
  exists ftxt, s = ftxt ++ t /\ frac_shape ftxt fp /\
               (fp = [] -> match t with c :: _ => c <> 46 | [] => True end) /\
               (fp <> [] -> no_digit_head t = true).
Proof.
  intros s fp t H. unfold parse_frac in H. destruct s as [|c r].
  - inversion H; subst. exists []. split; [reflexivity|]. split; [constructor|]. split; [auto|congruence].
  - destruct (N.eqb_spec c 46) as [->|Hc].
    + destruct (span_digits r) as [d t'] eqn:E. destruct d as [|d0 ds]; [discriminate|].
      inversion H; subst. destruct (span_digits_inv _ _ _ E) as (-> & Hd & Hr).
      exists (46 :: d0 :: ds). split; [reflexivity|]. split; [constructor; assumption|].
      split; [discriminate|auto].
    + inversion H; subst. exists []. split; [reflexivity|]. split; [constructor|].
      split; [auto|congruence].
Qed.

Lemma parse_exp_inv : forall s e t, parse_exp s = Some (e, t) ->
  exists etxt, s = etxt ++ t /\ exp_shape etxt e /\
    (e = None -> match t with c :: _ => c <> 101 /\ c <> 69 | [] => True end).
Proof.
  intros s e t H. unfold parse_exp in H. destruct s as [|c r].
  - inversion H; subst. exists []. split; [reflexivity|]. split; [constructor|auto].
  - destruct ((c =? 101) || (c =? 69)) eqn:Ec.
    + assert (Hee : c = 101 \/ c = 69) by lia.
      destruct r as [|c1 r1].
      * cbn in H. discriminate.
      * destruct (N.eqb_spec c1 43) as [->|N43].
        { destruct (span_digits r1) as [ds t'] eqn:E. destruct ds as [|d ds]; [discriminate|].
          inversion H; subst. destruct (span_digits_inv _ _ _ E) as (-> & Hd & Hr).
          exists (c :: [43] ++ d :: ds). split; [reflexivity|]. split; [|discriminate].
          apply (ES_some c [43] d ds); auto. }
        destruct (N.eqb_spec c1 45) as [->|N45].
        { destruct (span_digits r1) as [ds t'] eqn:E. destruct ds as [|d ds]; [discriminate|].
          inversion H; subst. destruct (span_digits_inv _ _ _ E) as (-> & Hd & Hr).
          exists (c :: [45] ++ d :: ds). split; [reflexivity|]. split; [|discriminate].
          apply (ES_some c [45] d ds); auto. }
        destruct (span_digits (c1 :: r1)) as [ds t'] eqn:E. destruct ds as [|d ds]; [discriminate|].
        inversion H; subst. destruct (span_digits_inv _ _ _ E) as (E' & Hd & Hr).
        exists (c :: [] ++ d :: ds). split; [cbn [app]; f_equal; exact E'|]. split; [|discriminate].
        apply (ES_some c [] d ds); auto.
    + inversion H; subst. exists []. split; [reflexivity|]. split; [constructor|].
      intros _. lia.
Qed.

(* a JSON number text, decomposed *)
Lemma parse_number_inv : forall t n, parse_number t = Some (n, []) ->
  exists ftxt etxt,
    t = (if jneg n then [45] else []) ++ jint n ++ ftxt ++ etxt /\
    wf_num n = true /\ frac_shape ftxt (jfrac n) /\ exp_shape etxt (jexp n).
Proof.
  intros t n H. unfold parse_number in H.
  set (p := match t with
            | [] => (false, t)
            | c :: r => if c =? 45 then (true, r) else (false, t)
            end) in H.
  destruct p as [neg s1] eqn:Ep.
  destruct (span_digits s1) as [ip s2] eqn:Es.
  destruct ip as [|d ds]; [discriminate|].
  destruct ((d =? 48) && negb match ds with [] => true | _ => false end) eqn:Elz; [discriminate|].
  destruct (parse_frac s2) as [[fp s3]|] eqn:Ef; [|discriminate].
  destruct (parse_exp s3) as [[e s4]|] eqn:Ee; [|discriminate].
  inversion H; subst; clear H. cbn [jneg jint jfrac jexp].
  destruct (span_digits_inv _ _ _ Es) as (-> & Hd & _).
  destruct (parse_frac_inv _ _ _ Ef) as (ftxt & -> & Hfs & _ & _).
  destruct (parse_exp_inv _ _ _ Ee) as (etxt & -> & Hes & _).
  exists ftxt, etxt. rewrite !app_nil_r in Ep. split; [|split; [|split; assumption]].
  - subst p. destruct t as [|c r].
    + inversion Ep.
    + destruct (N.eqb_spec c 45) as [->|]; inversion Ep; subst; reflexivity.
  - unfold wf_num. cbn [jint jfrac]. rewrite Hd. cbn [andb].
    assert (Hfd : forallb is_digit fp = true) by (inversion Hfs; subst; [reflexivity|assumption]).
    rewrite Hfd. cbn [andb]. rewrite Elz. reflexivity.
Qed.

(* --------------------------------------- symbolic execution of ParseNum ---- *)
(* the scanner state after reading the first byte of s, with buffer b *)
Definition rd (b : bytes) (e : bool) (s : bytes) : pst :=
  pn_step {| p_src := s; p_ch := 0; p_buf := b; p_err := e |}.

Lemma step_rd : forall st, pn_step st = rd (p_buf st) (p_err st) (p_src st).
Proof. intros [s c b e]. reflexivity. Qed.

Lemma step_push : forall c st, pn_step (push c st) = rd (p_buf st ++ [c]) (p_err st) (p_src st).
Proof. intros c [s ch b e]. reflexivity. Qed.

Lemma rd_nil : forall b e, rd b e [] = {| p_src := []; p_ch := 0; p_buf := b; p_err := e |}.
Proof. reflexivity. Qed.

Lemma rd_plain : forall b c s, c <> 46 -> c <> 0 ->
  rd b false (c :: s) = {| p_src := s; p_ch := c; p_buf := b; p_err := false |}.
Proof.
  intros b c s H1 H2. unfold rd, pn_step, pn_next. cbn [p_src p_buf p_err fst].
  destruct (N.eqb_spec c 46); [contradiction|]. destruct (N.eqb_spec c 0); [contradiction|]. reflexivity.
Qed.

Lemma rd_dot : forall b s,
  rd b false (46 :: s) =
  {| p_src := s; p_ch := 46; p_buf := match b with [] => [48] | _ => b end ++ [46]; p_err := false |}.
Proof. intros [|x b] s; reflexivity. Qed.

Lemma push_rd_plain : forall b c x s, x <> 46 -> x <> 0 ->
  push c (rd b false (x :: s)) = rd (b ++ [c]) false (x :: s).
Proof. intros. rewrite !rd_plain by assumption. reflexivity. Qed.

Definition stop_head (s : bytes) : bool :=
  match s with c :: _ => negb (is_digit c) && negb (c =? 95) && negb (c =? 0) | [] => true end.

Lemma digit_val_digit : forall d, is_digit d = true -> digit_val d <? 10 = true.
Proof. intros d H. unfold is_digit in H. unfold digit_val. rewrite H. lia. Qed.

Lemma digit_val_stop : forall c, is_digit c = false -> c <> 95 -> digit_val c <? 10 = false.
Proof.
  intros c H H'. unfold is_digit in H. unfold digit_val. rewrite H.
  destruct (N.eqb_spec c 95); [contradiction|].
  destruct ((97 <=? c) && (c <=? 102)) eqn:E1; [lia|].
  destruct ((65 <=? c) && (c <=? 70)) eqn:E2; [lia|reflexivity].
Qed.

Lemma p_ch_rd : forall b s, stop_head s = true ->
  digit_val (p_ch (rd b false s)) <? 10 = false.
Proof.
  intros b [|c s] H; [reflexivity|]. cbn [stop_head] in H.
  assert (Hc : p_ch (rd b false (c :: s)) = c) by reflexivity. rewrite Hc.
  apply digit_val_stop; unfold is_digit in *; lia.
Qed.

Lemma scan_digits : forall ds fuel tail b last has,
  (length ds < fuel)%nat -> last <> 95 -> forallb is_digit ds = true -> stop_head tail = true ->
  scan_mantissa fuel 10 (rd b false (ds ++ tail)) last has =
  (rd (b ++ ds) false tail, has || negb (match ds with [] => true | _ => false end)).
Proof.
  induction ds as [|d ds IH]; intros fuel tail b last has Hf Hl Hd Ht.
  - destruct fuel as [|f]; [cbn in Hf; lia|]. cbn [app scan_mantissa].
    rewrite p_ch_rd by assumption. destruct (N.eqb_spec last 95); [contradiction|].
    rewrite app_nil_r, orb_false_r. reflexivity.
  - cbn [forallb] in Hd. apply andb_true_iff in Hd. destruct Hd as [Hd Hds].
    destruct fuel as [|f]; [cbn in Hf; lia|].
    assert (d <> 46 /\ d <> 0 /\ d <> 95) as (N46 & N0 & N95) by (unfold is_digit in Hd; lia).
    cbn [app]. rewrite rd_plain by assumption. cbn [scan_mantissa p_ch].
    rewrite digit_val_digit by assumption.
    destruct (N.eqb_spec d 95); [contradiction|]. rewrite andb_false_r. cbn [negb].
    rewrite step_push. cbn [p_buf p_err p_src].
    rewrite IH; [|cbn [length] in Hf; lia|assumption|assumption|assumption].
    rewrite <- app_assoc. cbn [app negb]. rewrite orb_true_r. reflexivity.
Qed.

Lemma scan_m_digits : forall ds tail b, forallb is_digit ds = true -> stop_head tail = true ->
  scan_m 10 (rd b false (ds ++ tail)) =
  (rd (b ++ ds) false tail, negb (match ds with [] => true | _ => false end)).
Proof.
  intros ds tail b Hd Ht. unfold scan_m.
  rewrite scan_digits; [reflexivity| |discriminate|assumption|assumption].
  destruct ds as [|d ds].
  - cbn [app length]. lia.
  - cbn [forallb] in Hd. apply andb_true_iff in Hd. destruct Hd as [Hd _].
    cbn [app]. rewrite rd_plain by (unfold is_digit in Hd; lia). cbn [p_src length].
    rewrite app_length. lia.
Qed.

Lemma scan_m_digits_end : forall ds b, forallb is_digit ds = true ->
  scan_m 10 (rd b false ds) =
  (rd (b ++ ds) false [], negb (match ds with [] => true | _ => false end)).
Proof.
  intros ds b Hd. pose proof (scan_m_digits ds [] b Hd eq_refl) as H.
  rewrite app_nil_r in H. exact H.
Qed.

(* the final scanner state *)
Definition fin (b : bytes) : pst := {| p_src := []; p_ch := 0; p_buf := b; p_err := false |}.

Definition exp_buf (etxt : bytes) : bytes := match etxt with [] => [] | _ :: r => 101 :: r end.
Definition is_someZ (e : option Z) : bool := match e with Some _ => true | None => false end.

Lemma pn_exponent_shape : forall etxt e b isf, exp_shape etxt e ->
  pn_exponent isf (rd b false etxt) = SOk 10 (isf || is_someZ e) (fin (b ++ exp_buf etxt)).
Proof.
  intros etxt e b isf H. inversion H as [|ee sg d ds Hee Hsg Hd]; subst.
  - rewrite rd_nil. unfold pn_exponent, pn_exit. cbn [p_ch is_mul]. cbn.
    rewrite app_nil_r, orb_false_r. reflexivity.
  - cbn [is_someZ]. rewrite orb_true_r.
    assert (Hd' := Hd). cbn [forallb] in Hd'. apply andb_true_iff in Hd'. destruct Hd' as [Hd0 _].
    assert (d <> 46 /\ d <> 0 /\ d <> 45 /\ d <> 43) as (N46 & N0 & N45 & N43)
      by (unfold is_digit in Hd0; lia).
    unfold pn_exponent.
    assert (Hch : p_ch (rd b false (ee :: sg ++ d :: ds)) = ee) by (destruct Hee; subst; reflexivity).
    rewrite Hch.
    assert (Hm : is_mul ee = false) by (destruct Hee; subst; reflexivity). rewrite Hm.
    assert (He : (ee =? 101) || (ee =? 69) = true) by (destruct Hee; subst; reflexivity). rewrite He.
    rewrite step_rd.
    assert (Hsrc : p_src (rd b false (ee :: sg ++ d :: ds)) = sg ++ d :: ds)
      by (destruct Hee; subst; reflexivity).
    assert (Hbuf : p_buf (rd b false (ee :: sg ++ d :: ds)) = b) by (destruct Hee; subst; reflexivity).
    assert (Herr : p_err (rd b false (ee :: sg ++ d :: ds)) = false) by (destruct Hee; subst; reflexivity).
    rewrite Hsrc, Hbuf, Herr. cbn [exp_buf].
    destruct Hsg as [->|[->| ->]].
    + cbn [app]. rewrite push_rd_plain by assumption.
      assert (Hc : p_ch (rd (b ++ [101]) false (d :: ds)) = d) by (rewrite rd_plain by assumption; reflexivity).
      rewrite Hc. destruct (N.eqb_spec d 45); [contradiction|]. destruct (N.eqb_spec d 43); [contradiction|].
      cbn [orb].
      rewrite scan_m_digits_end by assumption. cbn [negb].
      rewrite rd_nil. unfold pn_exit. cbn [p_ch]. cbn [N.eqb of_exit]. unfold fin.
      rewrite <- app_assoc. reflexivity.
    + cbn [app]. rewrite rd_plain by lia. unfold push. cbn [p_ch p_src p_buf p_err].
      change ((43 =? 45) || (43 =? 43)) with true. cbv iota.
      rewrite step_rd. cbn [p_buf p_err p_src].
      rewrite scan_m_digits_end by assumption. cbn [negb].
      rewrite rd_nil. unfold pn_exit. cbn [p_ch]. cbn [N.eqb of_exit]. unfold fin.
      rewrite <- !app_assoc. reflexivity.
    + cbn [app]. rewrite rd_plain by lia. unfold push. cbn [p_ch p_src p_buf p_err].
      change ((45 =? 45) || (45 =? 43)) with true. cbv iota.
      rewrite step_rd. cbn [p_buf p_err p_src].
      rewrite scan_m_digits_end by assumption. cbn [negb].
      rewrite rd_nil. unfold pn_exit. cbn [p_ch]. cbn [N.eqb of_exit]. unfold fin.
      rewrite <- !app_assoc. reflexivity.
Qed.

Lemma exp_shape_stop : forall etxt e, exp_shape etxt e -> stop_head etxt = true.
Proof. intros etxt e H. inversion H as [|ee sg d ds [->| ->]]; subst; reflexivity. Qed.

Lemma exp_shape_not_dot : forall etxt e b, exp_shape etxt e -> p_ch (rd b false etxt) =? 46 = false.
Proof. intros etxt e b H. inversion H as [|ee sg d ds [->| ->]]; subst; reflexivity. Qed.

Definition nonnil (l : bytes) : bool := match l with [] => false | _ => true end.

Lemma pn_fraction_shape : forall ftxt fp etxt e b isf, b <> [] ->
  frac_shape ftxt fp -> exp_shape etxt e ->
  pn_fraction isf (rd b false (ftxt ++ etxt)) =
  SOk 10 (isf || nonnil fp || is_someZ e) (fin (b ++ ftxt ++ exp_buf etxt)).
Proof.
  intros ftxt fp etxt e b isf Hb Hf He. inversion Hf as [|d ds Hd]; subst.
  - cbn [app nonnil]. unfold pn_fraction. rewrite (exp_shape_not_dot _ _ _ He).
    rewrite (pn_exponent_shape _ _ _ _ He). rewrite orb_false_r. reflexivity.
  - cbn [app nonnil]. unfold pn_fraction. rewrite rd_dot. cbn [p_ch]. change (46 =? 46) with true. cbv iota.
    rewrite step_rd. cbn [p_buf p_err p_src].
    destruct b as [|b0 b']; [contradiction|].
    change (d :: ds ++ etxt) with ((d :: ds) ++ etxt).
    rewrite scan_m_digits by (assumption || apply (exp_shape_stop _ _ He)).
    rewrite (pn_exponent_shape _ _ _ _ He). cbn [orb]. rewrite orb_true_r. cbn [orb].
    rewrite <- !app_assoc. reflexivity.
Qed.

Lemma scan_m_stop : forall base s, digit_val (p_ch s) <? base = false -> scan_m base s = (s, false).
Proof.
  intros base s H. unfold scan_m. cbn [scan_mantissa]. rewrite H. reflexivity.
Qed.

(* ParseNum on the unsigned text of a JSON number: accepted, decimal, float iff a
   fraction or an exponent is present, and the buffer is the text with e lower-cased *)
Lemma parse_num_json : forall ip ftxt fp etxt e,
  wf_num {| jneg := false; jint := ip; jfrac := fp; jexp := e |} = true ->
  frac_shape ftxt fp -> exp_shape etxt e ->
  parse_num (ip ++ ftxt ++ etxt) = PNOk 10 (nonnil fp || is_someZ e) (ip ++ ftxt ++ exp_buf etxt).
Proof.
  intros ip ftxt fp etxt e Hwf Hf He. unfold wf_num in Hwf. cbn [jint jfrac] in Hwf.
  apply andb_true_iff in Hwf. destruct Hwf as [Hwf Hlz].
  apply andb_true_iff in Hwf. destruct Hwf as [Hip _].
  destruct ip as [|d ds]; [discriminate|].
  assert (Hip' := Hip). cbn [forallb] in Hip'. apply andb_true_iff in Hip'. destruct Hip' as [Hd _].
  destruct (N.eqb_spec d 48) as [->|N48].
  - destruct ds as [|d1 ds]; [|cbn in Hlz; discriminate].
    inversion Hf as [|f0 fs Hfd]; subst.
    + inversion He as [|ee sg x xs Hee Hsg Hx]; subst.
      * reflexivity.
      * destruct Hee; subst ee.
        -- unfold parse_num. cbn -[scan_m pn_fraction pn_exponent].
           rewrite scan_m_stop by reflexivity. cbn -[pn_fraction pn_exponent].
           change (push 48 {| p_src := sg ++ x :: xs; p_ch := 101; p_buf := []; p_err := false |})
             with (rd [48] false (101 :: sg ++ x :: xs)).
           unfold pn_fraction. change (p_ch (rd [48] false (101 :: sg ++ x :: xs)) =? 46) with false.
           cbv iota. rewrite (pn_exponent_shape _ _ [48] false He). reflexivity.
        -- unfold parse_num. cbn -[scan_m pn_fraction pn_exponent].
           rewrite scan_m_stop by reflexivity. cbn -[pn_fraction pn_exponent].
           change (push 48 {| p_src := sg ++ x :: xs; p_ch := 69; p_buf := []; p_err := false |})
             with (rd [48] false (69 :: sg ++ x :: xs)).
           unfold pn_fraction. change (p_ch (rd [48] false (69 :: sg ++ x :: xs)) =? 46) with false.
           cbv iota. rewrite (pn_exponent_shape _ _ [48] false He). reflexivity.
    + (* 0.ddd *)
      unfold parse_num. cbn -[scan_m pn_fraction pn_exponent].
      rewrite scan_m_stop by reflexivity. cbn -[pn_fraction pn_exponent scan_m].
      unfold pn_fraction. cbn -[pn_exponent scan_m].
      change (scan_m 10 _) with (scan_m 10 (rd [48; 46] false ((f0 :: fs) ++ etxt))).
      rewrite scan_m_digits by (assumption || apply (exp_shape_stop _ _ He)).
      rewrite (pn_exponent_shape _ _ _ _ He). reflexivity.
  - (* non-zero integer part *)
    assert (d <> 46 /\ d <> 0 /\ d <> 45 /\ d <> 43) as (N46 & N0 & N45 & N43) by (unfold is_digit in Hd; lia).
    assert (Hstop : stop_head (ftxt ++ etxt) = true).
    { inversion Hf; subst; [apply (exp_shape_stop _ _ He)|reflexivity]. }
    unfold parse_num. cbn [app pn_next p_src p_buf p_err].
    destruct (N.eqb_spec d 46); [contradiction|]. destruct (N.eqb_spec d 0); [contradiction|].
    cbn [negb orb p_ch]. destruct (N.eqb_spec d 45); [contradiction|]. destruct (N.eqb_spec d 43); [contradiction|].
    destruct (N.eqb_spec d 46); [contradiction|].
    cbn [p_ch]. destruct (N.eqb_spec d 46); [contradiction|]. cbv beta iota zeta.
    rewrite <- (rd_plain [] d (ds ++ ftxt ++ etxt) N46 N0).
    unfold scan_number.
    assert (Hch : p_ch (rd [] false (d :: ds ++ ftxt ++ etxt)) = d) by (rewrite rd_plain by assumption; reflexivity).
    rewrite Hch. destruct (N.eqb_spec d 48); [contradiction|].
    change (d :: ds ++ ftxt ++ etxt) with ((d :: ds) ++ ftxt ++ etxt).
    rewrite scan_m_digits by assumption. cbn [negb app].
    rewrite (pn_fraction_shape ftxt fp etxt e (d :: ds) false ltac:(discriminate) Hf He).
    reflexivity.
Qed.

(* ------------------------------------------------- apd.SetString on it ---- *)
Lemma split_at_app : forall c a b, ~ In c a -> split_at c (a ++ c :: b) = (a, Some b).
Proof.
  induction a as [|x a IH]; intros b H.
  - cbn [app split_at]. rewrite N.eqb_refl. reflexivity.
  - cbn [app split_at]. destruct (N.eqb_spec x c) as [->|].
    + exfalso. apply H. left. reflexivity.
    + rewrite IH; [reflexivity|]. intro Hi. apply H. right. assumption.
Qed.

Lemma split_at_none : forall c a, ~ In c a -> split_at c a = (a, None).
Proof.
  induction a as [|x a IH]; intros H; [reflexivity|].
  cbn [split_at]. destruct (N.eqb_spec x c) as [->|].
  - exfalso. apply H. left. reflexivity.
  - rewrite IH; [reflexivity|]. intro Hi. apply H. right. assumption.
Qed.

Lemma digits_not_in : forall c ds, forallb is_digit ds = true -> is_digit c = false -> ~ In c ds.
Proof.
  intros c ds H Hc Hi. rewrite forallb_forall in H. specialize (H _ Hi). congruence.
Qed.

Lemma parse_int32_shape : forall sg d ds,
  (sg = [] \/ sg = [43] \/ sg = [45]) -> forallb is_digit (d :: ds) = true ->
  parse_int32 (sg ++ d :: ds) =
  let z := if match sg with [45] => true | _ => false end
           then (- Z.of_N (digits_val (d :: ds)))%Z else Z.of_N (digits_val (d :: ds)) in
  if ((-2147483648 <=? z) && (z <=? 2147483647))%Z then Some z else None.
Proof.
  intros sg d ds Hsg Hd.
  assert (Hd0 : is_digit d = true) by (cbn in Hd; apply andb_true_iff in Hd; tauto).
  assert (d <> 45 /\ d <> 43) as [N45 N43] by (unfold is_digit in Hd0; lia).
  unfold parse_int32. destruct Hsg as [->|[->| ->]]; cbn [app].
  - destruct (N.eqb_spec d 45); [contradiction|]. destruct (N.eqb_spec d 43); [contradiction|].
    rewrite Hd. reflexivity.
  - change (43 =? 45) with false. change (43 =? 43) with true. cbv iota. rewrite Hd. reflexivity.
  - change (45 =? 45) with true. cbv iota. rewrite Hd. reflexivity.
Qed.

Ltac zb_all :=
  repeat match goal with
  | |- context [(?a <=? ?b)%Z] => destruct (Z.leb_spec a b)
  end; cbn [andb].

Lemma apd_json : forall ip ftxt fp etxt e,
  wf_num {| jneg := false; jint := ip; jfrac := fp; jexp := e |} = true ->
  frac_shape ftxt fp -> exp_shape etxt e ->
  apd_set_string (ip ++ ftxt ++ exp_buf etxt) =
  if num_in_range {| jneg := false; jint := ip; jfrac := fp; jexp := e |}
  then Some {| dneg := false; dcoeff := digits_val (ip ++ fp);
               dexp := (match e with Some z => z | None => 0 end - Z.of_nat (length fp))%Z |}
  else None.
Proof.
  intros ip ftxt fp etxt e Hwf Hf He. unfold wf_num in Hwf. cbn [jint jfrac] in Hwf.
  apply andb_true_iff in Hwf. destruct Hwf as [Hwf Hlz].
  apply andb_true_iff in Hwf. destruct Hwf as [Hip Hfp].
  destruct ip as [|d ds]; [discriminate|]. clear Hlz.
  assert (Hd : is_digit d = true) by (cbn in Hip; apply andb_true_iff in Hip; tauto).
  assert (d <> 45 /\ d <> 43) as [N45 N43] by (unfold is_digit in Hd; lia).
  unfold num_in_range. cbn [jint jfrac jexp].
  set (ez := match e with Some z => z | None => 0%Z end).
  assert (Hmant101 : ~ In 101 ((d :: ds) ++ ftxt)).
  { intro Hi. apply in_app_or in Hi. destruct Hi as [Hi|Hi].
    - apply (digits_not_in 101 _ Hip eq_refl Hi).
    - inversion Hf; subst; [destruct Hi|]. destruct Hi as [Hi|Hi]; [discriminate|].
      apply (digits_not_in 101 _ Hfp eq_refl Hi). }
  assert (H46 : ~ In 46 (d :: ds)) by (apply digits_not_in; [assumption|reflexivity]).
  (* the mantissa part, common to all cases; exps1 is [] (then ez = 0) or [ez] *)
  assert (Hm : forall exps1, (exps1 = [] /\ ez = 0%Z) \/ exps1 = [ez] ->
     (let '(ipp, fopt) := split_at 46 ((d :: ds) ++ ftxt) in
      let digits := ipp ++ match fopt with Some f => f | None => [] end in
      let exps := exps1 ++ match fopt with Some f => [(- Z.of_nat (length f))%Z] | None => [] end in
      match digits with
      | [] => None
      | _ => if forallb is_digit digits
             then match set_exponent (digits_val digits) exps with
                  | Some e0 => Some {| dneg := false; dcoeff := digits_val digits; dexp := e0 |}
                  | None => None
                  end
             else None
      end) =
     (if ((ez <=? max_exponent) && (- max_exponent <=? ez) && (Z.of_nat (length fp) <=? max_exponent) &&
          (ez - Z.of_nat (length fp) + Z.of_nat (length (N_digits (digits_val ((d :: ds) ++ fp)))) - 1 <=? max_exponent) &&
          (- max_exponent <=? ez - Z.of_nat (length fp) + Z.of_nat (length (N_digits (digits_val ((d :: ds) ++ fp)))) - 1))%Z
      then Some {| dneg := false; dcoeff := digits_val ((d :: ds) ++ fp); dexp := (ez - Z.of_nat (length fp))%Z |}
      else None)).
  { intros exps1 Hex. inversion Hf as [|f0 fs Hfd]; subst.
    - rewrite !app_nil_r. rewrite split_at_none by assumption. cbn [app]. rewrite app_nil_r.
      rewrite Hip. unfold set_exponent. rewrite app_nil_r. cbn [length]. unfold max_exponent.
      destruct Hex as [[-> Hz]| ->]; cbn [forallb fold_left andb].
      + rewrite Hz. zb_all; try lia; try reflexivity.
      + zb_all; try lia; try reflexivity; f_equal; f_equal; lia.
    - rewrite split_at_app by assumption.
      assert (Hall' : forallb is_digit ((d :: ds) ++ f0 :: fs) = true) by (rewrite forallb_app, Hip, Hfd; reflexivity).
      cbn [app] in Hall' |- *. rewrite Hall'.
      unfold set_exponent. unfold max_exponent.
      set (fl := Z.of_nat (length (f0 :: fs))). set (nd := Z.of_nat (length (N_digits (digits_val (d :: ds ++ f0 :: fs))))).
      destruct Hex as [[-> Hz]| ->]; cbn [app forallb fold_left andb].
      + rewrite Hz. zb_all; try lia; try reflexivity; f_equal; f_equal; lia.
      + zb_all; try lia; try reflexivity; f_equal; f_equal; lia. }
  assert (E45 : d =? 45 = false) by lia. assert (E43 : d =? 43 = false) by lia.
  unfold apd_set_string. cbn [app]. rewrite E45, E43. cbn [orb]. rewrite E45, E43. cbn [orb].
  inversion He as [|ee sg x xs Hee Hsg Hx]; subst.
  - cbn [exp_buf]. rewrite app_nil_r.
    change (d :: ds ++ ftxt) with ((d :: ds) ++ ftxt).
    rewrite split_at_none by assumption.
    apply (Hm []). left. split; reflexivity.
  - cbn [exp_buf]. change (d :: ds ++ ftxt ++ 101 :: sg ++ x :: xs) with ((d :: ds) ++ ftxt ++ 101 :: sg ++ x :: xs).
    rewrite app_assoc. rewrite split_at_app by assumption.
    rewrite (parse_int32_shape sg x xs Hsg Hx). fold ez. cbv zeta.
    destruct ((-2147483648 <=? ez) && (ez <=? 2147483647))%Z eqn:E32.
    + apply (Hm [ez]). right. reflexivity.
    + unfold max_exponent. zb_all; try lia; reflexivity.
Qed.

(* THEOREM json_number_is_cue_number: a JSON number text is a CUE number (a decimal
   literal after an optional unary minus); ParseNum says int exactly when there is
   neither fraction nor exponent; inside apd's exponent range the decimal has the
   same coefficient and exponent; outside it the literal is an error (no silent value). *)
Theorem json_number_is_cue_literal : forall t n, parse_number t = Some (n, []) ->
  exists u buf, t = (if jneg n then [45] else []) ++ u /\
    parse_num u = PNOk 10 (negb (jnum_is_int n)) buf.
Proof.
  intros t n H. destruct (parse_number_inv _ _ H) as (ftxt & etxt & -> & Hwf & Hf & He).
  exists (jint n ++ ftxt ++ etxt), (jint n ++ ftxt ++ exp_buf etxt). split; [reflexivity|].
  assert (Hwf' : wf_num {| jneg := false; jint := jint n; jfrac := jfrac n; jexp := jexp n |} = true) by exact Hwf.
  rewrite (parse_num_json _ _ _ _ _ Hwf' Hf He). f_equal.
  unfold jnum_is_int. destruct (jfrac n), (jexp n); reflexivity.
Qed.

Definition cue_dec_of (n : jnum) : dec :=
  {| dneg := jneg n && negb (dcoeff (jnum_dec n) =? 0);
     dcoeff := dcoeff (jnum_dec n); dexp := dexp (jnum_dec n) |}.

(* the complete description of how cue reads a JSON number *)
Theorem cue_read_json_number : forall t n, parse_number t = Some (n, []) ->
  cue_read_number t = if num_in_range n then Some (jnum_is_int n, cue_dec_of n) else None.
Proof.
  intros t n H. destruct (parse_number_inv _ _ H) as (ftxt & etxt & -> & Hwf & Hf & He).
  assert (Hwf' : wf_num {| jneg := false; jint := jint n; jfrac := jfrac n; jexp := jexp n |} = true) by exact Hwf.
  pose proof (parse_num_json _ _ _ _ _ Hwf' Hf He) as Hp.
  pose proof (apd_json _ _ _ _ _ Hwf' Hf He) as Ha.
  change (num_in_range {| jneg := false; jint := jint n; jfrac := jfrac n; jexp := jexp n |})
    with (num_in_range n) in Ha.
  assert (Hhead : exists d r, jint n ++ ftxt ++ etxt = d :: r /\ d <> 45).
  { unfold wf_num in Hwf. destruct (jint n) as [|d ds]; [rewrite andb_false_r in Hwf; discriminate|].
    exists d, (ds ++ ftxt ++ etxt). split; [reflexivity|].
    apply andb_true_iff in Hwf. destruct Hwf as [Hwf _]. apply andb_true_iff in Hwf. destruct Hwf as [Hwf _].
    cbn in Hwf. apply andb_true_iff in Hwf. destruct Hwf as [Hd _]. unfold is_digit in Hd. lia. }
  assert (Hint : negb (nonnil (jfrac n) || is_someZ (jexp n)) = jnum_is_int n).
  { unfold jnum_is_int. destruct (jfrac n), (jexp n); reflexivity. }
  unfold cue_read_number, cue_dec_of, jnum_dec. cbn [dcoeff dexp]. destruct (jneg n).
  - cbn [app]. change (45 =? 45) with true. cbv iota. rewrite Hp. change (10 =? 10) with true. cbv iota.
    rewrite Ha. destruct (num_in_range n); [|reflexivity]. rewrite Hint.
    unfold cue_neg. cbn [dcoeff dneg dexp].
    destruct (digits_val (jint n ++ jfrac n) =? 0); reflexivity.
  - cbn [app]. destruct Hhead as (d & r & E & Nd). rewrite E.
    destruct (N.eqb_spec d 45); [contradiction|]. rewrite <- E. rewrite Hp.
    change (10 =? 10) with true. cbv iota. rewrite Ha. destruct (num_in_range n); [|reflexivity].
    rewrite Hint. reflexivity.
Qed.

Theorem json_number_is_cue_number : forall t n,
  parse_number t = Some (n, []) -> num_in_range n = true ->
  cue_read_number t = Some (jnum_is_int n, cue_dec_of n).
Proof. intros t n H Hr. rewrite (cue_read_json_number _ _ H), Hr. reflexivity. Qed.

(* outside apd's range the literal is an error: never a silently different value, never NaN *)
Theorem json_number_out_of_range_rejected : forall t n,
  parse_number t = Some (n, []) -> num_in_range n = false -> cue_read_number t = None.
Proof. intros t n H Hr. rewrite (cue_read_json_number _ _ H), Hr. reflexivity. Qed.

(* hence: whenever cue reads a JSON number at all, it reads the number that is written *)
Theorem cue_read_number_exact : forall t n k d,
  parse_number t = Some (n, []) -> cue_read_number t = Some (k, d) ->
  k = jnum_is_int n /\ d = cue_dec_of n.
Proof.
  intros t n k d H Hc. rewrite (cue_read_json_number _ _ H) in Hc.
  destruct (num_in_range n); inversion Hc; auto.
Qed.

(* C10-exponent-range-rejected: valid JSON numbers that the faithful model refuses *)
Theorem number_exponent_refuted :
  (exists t n, parse_number t = Some (n, []) /\ dexp (jnum_dec n) = 100001%Z /\ cue_read_number t = None) /\
  (exists t n, parse_number t = Some (n, []) /\ cue_read_number t = None /\
               jexp n = Some 2147483648%Z).
Proof.
  split.
  - exists [49; 101; 49; 48; 48; 48; 48; 49]. eexists. split; [vm_compute; reflexivity|].
    split; vm_compute; reflexivity.
  - exists [49; 101; 50; 49; 52; 55; 52; 56; 51; 54; 52; 56]. eexists. split; [vm_compute; reflexivity|].
    split; vm_compute; reflexivity.
Qed.
