(* C10 - a JSON string literal (without unpaired surrogate escapes) read by the
   transcription of cue/literal.Unquote denotes the JSON string. *)
From Verif Require Import Json.Model Json.Cue Json.Utf8Proofs Json.StringProofs.
From Coq Require Import Lia ZifyN ZifyNat ZifyBool.

Lemma hexn4_hex4 : forall s, hexn 4 s 0 = hex4 s.
Proof.
  intros [|a [|b [|c [|d r]]]]; cbn [hexn hex4];
    repeat match goal with |- context [hexval ?x] => destruct (hexval x) end;
    reflexivity.
Qed.

Lemma scons_inv : forall c o v t, scons c o = Some (v, t) ->
  exists v', v = c :: v' /\ o = Some (v', t).
Proof.
  intros c [[l t']|] v t H; cbn in H; [|discriminate].
  inversion H; subst. eexists; split; reflexivity.
Qed.

Lemma simple_escape_cue : forall e x t, simple_escape e = Some x -> e <> 117 ->
  unquote_char (92 :: e :: t) = UCRune x false t /\ x < 128.
Proof.
  intros e x t H Hu. unfold simple_escape in H. cbn [unquote_char].
  change (92 =? 34) with false. change (128 <=? 92) with false. change (negb (92 =? 92)) with false.
  cbv iota.
  repeat match type of H with
  | (if ?a =? ?b then _ else _) = _ => destruct (N.eqb_spec a b); [subst; inversion H; subst; split; [reflexivity|lia]|]
  end. discriminate.
Qed.

Lemma high_not_low : forall u, is_high u = true -> is_low u = false.
Proof. intros u H. unfold is_high, is_low in *. lia. Qed.

Lemma low_escape_inv : forall s l r3, low_escape s = Some (l, r3) ->
  exists r, s = 92 :: 117 :: r /\ hex4 r = Some (l, r3) /\ is_low l = true.
Proof.
  intros [|c1 [|c2 r]] l r3 H; cbn [low_escape] in H; try discriminate.
  destruct (N.eqb_spec c1 92); cbn [andb] in H; [|discriminate].
  destruct (N.eqb_spec c2 117); [|discriminate]. subst.
  destruct (hex4 r) as [[l' r']|] eqn:E; [|discriminate].
  destruct (is_low l') eqn:El; [|discriminate]. inversion H; subst.
  exists r. auto.
Qed.

Lemma unquote_char_u : forall r u r2, hex4 r = Some (u, r2) ->
  unquote_char (92 :: 117 :: r) = UCRune u true r2.
Proof.
  intros r u r2 H. cbn [unquote_char].
  change (92 =? 34) with false. change (128 <=? 92) with false. change (negb (92 =? 92)) with false.
  cbv iota. change (117 =? 97) with false. change (117 =? 98) with false.
  change (117 =? 102) with false. change (117 =? 110) with false. change (117 =? 114) with false.
  change (117 =? 116) with false. change (117 =? 118) with false. change (117 =? 47) with false.
  change (117 =? 120) with false. change (117 =? 117) with true. cbv iota.
  rewrite hexn4_hex4, H. reflexivity.
Qed.

(* the slow path: the loop of QuoteInfo.Unquote follows the JSON string reader *)
Lemma cue_loop_parse : forall fuel s v, parse_str Strict fuel s = Some (v, []) ->
  forall fuel2 acc, (fuel <= fuel2)%nat ->
  cue_uq_loop fuel2 s acc = UOk (acc ++ utf8_encode_all v).
Proof.
  induction fuel as [|f IH]; intros s v H fuel2 acc Hf; [discriminate|].
  destruct fuel2 as [|f2]; [lia|]. assert (Hf' : (f <= f2)%nat) by lia.
  cbn [parse_str] in H. destruct s as [|c r]; [discriminate|].
  destruct (N.eqb_spec c 34) as [->|N34].
  { inversion H; subst. cbn [cue_uq_loop]. change (34 =? 13) with false. change (34 =? 10) with false.
    cbv iota. cbn [unquote_char]. change (34 =? 34) with true. cbv iota.
    cbn [utf8_encode_all flat_map]. rewrite app_nil_r. reflexivity. }
  destruct (N.eqb_spec c 92) as [->|N92].
  { destruct r as [|e r1]; [discriminate|].
    cbn [cue_uq_loop]. change (92 =? 13) with false. change (92 =? 10) with false. cbv iota.
    destruct (N.eqb_spec e 117) as [->|N117].
    - destruct (hex4 r1) as [[u r2]|] eqn:Eh; [|discriminate].
      rewrite (unquote_char_u r1 u r2 Eh).
      destruct (is_high u) eqn:Ehi.
      + destruct (low_escape r2) as [[l r3]|] eqn:El; [|cbn in H; discriminate].
        apply scons_inv in H. destruct H as (v' & -> & H).
        apply low_escape_inv in El. destruct El as (r' & -> & Eh2 & Elow).
        cbn [orb]. rewrite (high_not_low u Ehi).
        rewrite (unquote_char_u r' l r3 Eh2). rewrite Elow.
        rewrite (IH _ _ H f2 _ Hf'). cbn [utf8_encode_all flat_map]. rewrite app_assoc. reflexivity.
      + destruct (is_low u) eqn:Elo; [cbn in H; discriminate|].
        apply scons_inv in H. destruct H as (v' & -> & H). cbn [orb].
        rewrite (IH _ _ H f2 _ Hf'). cbn [utf8_encode_all flat_map]. rewrite app_assoc. reflexivity.
    - destruct (N.eqb_spec e 117); [contradiction|].
      destruct (simple_escape e) as [x|] eqn:Es; [|discriminate].
      apply scons_inv in H. destruct H as (v' & -> & H).
      destruct (simple_escape_cue e x r1 Es N117) as [-> Hx].
      assert (Hh : is_high x = false) by (unfold is_high; lia).
      assert (Hl : is_low x = false) by (unfold is_low; lia).
      rewrite Hh, Hl. cbn [orb].
      rewrite (IH _ _ H f2 _ Hf'). cbn [utf8_encode_all flat_map].
      rewrite encode_ascii by assumption. rewrite app_assoc. reflexivity. }
  destruct (N.ltb_spec c 32) as [L32|G32]; [discriminate|].
  destruct (N.ltb_spec c 128) as [L128|G128].
  { apply scons_inv in H. destruct H as (v' & -> & H).
    cbn [cue_uq_loop].
    destruct (N.eqb_spec c 13); [lia|]. destruct (N.eqb_spec c 10); [lia|].
    cbn [unquote_char].
    destruct (N.eqb_spec c 34); [contradiction|].
    destruct (N.leb_spec 128 c); [lia|].
    destruct (N.eqb_spec c 92); [contradiction|]. cbn [negb].
    destruct (N.eqb_spec c 0); [lia|].
    assert (Hh : is_high c = false) by (unfold is_high; lia).
    assert (Hl : is_low c = false) by (unfold is_low; lia).
    rewrite Hh, Hl. cbn [orb].
    rewrite (IH _ _ H f2 _ Hf'). cbn [utf8_encode_all flat_map].
    rewrite encode_ascii by assumption. rewrite app_assoc. reflexivity. }
  destruct (utf8_decode (c :: r)) as [[cp r']|] eqn:Ed; [|discriminate].
  cbn [rej_bom Strict andb] in H.
  apply scons_inv in H. destruct H as (v' & -> & H).
  cbn [cue_uq_loop].
  destruct (N.eqb_spec c 13); [lia|]. destruct (N.eqb_spec c 10); [lia|].
  cbn [unquote_char].
  destruct (N.eqb_spec c 34); [contradiction|].
  destruct (N.leb_spec 128 c); [|lia].
  rewrite Ed.
  destruct (decode_inv _ _ _ Ed) as [Hsc _].
  destruct (scalar_not_surr cp Hsc) as [-> ->]. cbn [orb].
  rewrite (IH _ _ H f2 _ Hf'). cbn [utf8_encode_all flat_map]. rewrite app_assoc. reflexivity.
Qed.

(* ------------------------------------------ shape of an accepted string ---- *)
Definition no_nl (s : bytes) : Prop := ~ In 10 s.

Lemma hexval_not_nl : forall a x, hexval a = Some x -> a <> 10.
Proof. intros a x H ->. discriminate. Qed.

Lemma hex4_inv : forall s u r, hex4 s = Some (u, r) ->
  exists a b c d, s = a :: b :: c :: d :: r /\ no_nl [a; b; c; d].
Proof.
  intros [|a [|b [|c [|d r']]]] u r H; cbn [hex4] in H; try discriminate.
  destruct (hexval a) eqn:Ea; [|discriminate]. destruct (hexval b) eqn:Eb; [|discriminate].
  destruct (hexval c) eqn:Ec; [|discriminate]. destruct (hexval d) eqn:Ed; [|discriminate].
  inversion H; subst. exists a, b, c, d. split; [reflexivity|].
  intros [Hi|[Hi|[Hi|[Hi|[]]]]]; subst;
    [apply (hexval_not_nl _ _ Ea)|apply (hexval_not_nl _ _ Eb)|apply (hexval_not_nl _ _ Ec)|apply (hexval_not_nl _ _ Ed)];
    reflexivity.
Qed.

Lemma simple_escape_not_nl : forall e x, simple_escape e = Some x -> e <> 10.
Proof. intros e x H ->. discriminate. Qed.

(* one iteration of the reader, inverted *)
Lemma parse_str_step_inv : forall m f s v, parse_str m (S f) s = Some (v, []) ->
  (s = [34] /\ v = []) \/
  (exists pre r' x v', s = pre ++ r' /\ v = x :: v' /\ parse_str m f r' = Some (v', []) /\
     no_nl pre /\
     ((exists t, pre = 92 :: t) \/
      (pre = utf8_encode x /\ is_scalar x = true /\ 32 <= x /\ x <> 34 /\ x <> 92))).
Proof.
  intros m f s v H. cbn [parse_str] in H. destruct s as [|c r]; [discriminate|].
  destruct (N.eqb_spec c 34) as [->|N34]; [left; inversion H; subst; auto|]. right.
  destruct (N.eqb_spec c 92) as [->|N92].
  { destruct r as [|e r1]; [discriminate|].
    destruct (N.eqb_spec e 117) as [->|N117].
    - destruct (hex4 r1) as [[u r2]|] eqn:Eh; [|discriminate].
      destruct (hex4_inv _ _ _ Eh) as (a & b & c & d & -> & Hnl).
      assert (Hpre : no_nl [92; 117; a; b; c; d]).
      { intros [Hi|[Hi|Hi]]; try discriminate. apply Hnl. exact Hi. }
      assert (Hlone : forall x v', v = x :: v' -> parse_str m f r2 = Some (v', []) ->
        exists pre r' x v', 92 :: 117 :: a :: b :: c :: d :: r2 = pre ++ r' /\ v = x :: v' /\
          parse_str m f r' = Some (v', []) /\ no_nl pre /\
          ((exists t, pre = 92 :: t) \/
           (pre = utf8_encode x /\ is_scalar x = true /\ 32 <= x /\ x <> 34 /\ x <> 92))).
      { intros x v' -> Hp. exists [92; 117; a; b; c; d], r2, x, v'.
        split; [reflexivity|]. split; [reflexivity|]. split; [assumption|]. split; [assumption|].
        left. eexists. reflexivity. }
      destruct (is_high u).
      + destruct (low_escape r2) as [[l r3]|] eqn:El.
        * apply scons_inv in H. destruct H as (v' & -> & H).
          apply low_escape_inv in El. destruct El as (r' & -> & Eh2 & _).
          destruct (hex4_inv _ _ _ Eh2) as (a2 & b2 & c2 & d2 & -> & Hnl2).
          exists [92; 117; a; b; c; d; 92; 117; a2; b2; c2; d2], r3, (combine_surr u l), v'.
          split; [reflexivity|]. split; [reflexivity|]. split; [assumption|]. split.
          { intros Hi. cbn [In] in Hi.
            destruct Hi as [Hi|[Hi|[Hi|[Hi|[Hi|[Hi|[Hi|[Hi|Hi]]]]]]]]; try discriminate;
              try (apply Hnl; cbn [In]; tauto); apply Hnl2; exact Hi. }
          left. eexists. reflexivity.
        * destruct (rej_lone m); [discriminate|].
          apply scons_inv in H. destruct H as (v' & Hv & H). apply (Hlone _ _ Hv H).
      + destruct (is_low u).
        * destruct (rej_lone m); [discriminate|].
          apply scons_inv in H. destruct H as (v' & Hv & H). apply (Hlone _ _ Hv H).
        * apply scons_inv in H. destruct H as (v' & Hv & H). apply (Hlone _ _ Hv H).
    - destruct (simple_escape e) as [x|] eqn:Es; [|discriminate].
      apply scons_inv in H. destruct H as (v' & -> & H).
      exists [92; e], r1, x, v'. split; [reflexivity|]. split; [reflexivity|].
      split; [assumption|]. split.
      { intros [Hi|[Hi|[]]]; [discriminate|]. apply (simple_escape_not_nl _ _ Es). auto. }
      left. eexists. reflexivity. }
  destruct (N.ltb_spec c 32) as [L32|G32]; [discriminate|].
  destruct (N.ltb_spec c 128) as [L128|G128].
  { apply scons_inv in H. destruct H as (v' & -> & H).
    exists [c], r, c, v'. split; [reflexivity|]. split; [reflexivity|]. split; [assumption|].
    split; [intros [Hi|[]]; lia|]. right.
    rewrite encode_ascii by assumption. split; [reflexivity|].
    split; [apply is_scalar_spec; lia|]. auto. }
  destruct (utf8_decode (c :: r)) as [[cp r']|] eqn:Ed; [|discriminate].
  destruct (rej_bom m && (cp =? 65279)); [discriminate|].
  apply scons_inv in H. destruct H as (v' & -> & H).
  destruct (decode_inv _ _ _ Ed) as [Hsc Heq].
  pose proof (decode_high_first _ _ _ _ G128 Ed) as Hcp.
  exists (utf8_encode cp), r', cp, v'. split; [exact Heq|]. split; [reflexivity|].
  split; [assumption|]. split.
  { intro Hi. destruct (encode_high cp Hcp) as (b & t & Eb & _).
    assert (Hall : Forall (fun b => 0x80 <= b) (utf8_encode cp)).
    { clear -Hcp. unfold utf8_encode, is_scalar, is_surrogate.
      repeat match goal with
      | |- context [?a <? ?b] => destruct (N.ltb_spec a b)
      | |- context [?a <=? ?b] => destruct (N.leb_spec a b)
      end; cbn [andb negb]; repeat constructor; lia. }
    rewrite Forall_forall in Hall. specialize (Hall _ Hi). lia. }
  right. split; [reflexivity|]. split; [assumption|]. lia.
Qed.

Lemma parse_str_nonempty : forall m f v, parse_str m f [] = Some (v, []) -> False.
Proof. intros m [|f] v H; discriminate. Qed.

Lemma removelast_app_ne : forall (a b : bytes), b <> [] -> removelast (a ++ b) = a ++ removelast b.
Proof. intros a b H. apply removelast_app. assumption. Qed.

(* (A) the closing quote is the last byte; (B) no raw newline *)
Lemma parse_str_shape : forall m f s v, parse_str m f s = Some (v, []) ->
  (exists body, s = body ++ [34]) /\ no_nl s.
Proof.
  induction f as [|f IH]; intros s v H; [discriminate|].
  destruct (parse_str_step_inv _ _ _ _ H) as [[-> _]|(pre & r' & x & v' & -> & _ & Hp & Hnl & _)].
  - split; [exists []; reflexivity|]. intros [Hi|[]]. discriminate.
  - destruct (IH _ _ Hp) as [[body ->] Hnl']. split.
    + exists (pre ++ body). rewrite app_assoc. reflexivity.
    + intro Hi. apply in_app_or in Hi. destruct Hi; [apply Hnl|apply Hnl']; assumption.
Qed.

(* (D) the fast path: a simple body is the UTF-8 text of the value *)
Lemma parse_str_simple : forall m f s v, parse_str m f s = Some (v, []) ->
  forall f2, is_simple f2 (removelast s) = true -> (length s <= f2)%nat ->
  removelast s = utf8_encode_all v.
Proof.
  induction f as [|f IH]; intros s v H f2 Hs Hf; [discriminate|].
  destruct (parse_str_step_inv _ _ _ _ H) as [[-> ->]|(pre & r' & x & v' & -> & -> & Hp & Hnl & Hpre)].
  - reflexivity.
  - assert (Hr' : r' <> []) by (intros ->; apply (parse_str_nonempty _ _ _ Hp)).
    rewrite removelast_app_ne in Hs |- * by assumption.
    destruct Hpre as [[t ->]|(-> & Hsc & H32 & H34 & H92)].
    + exfalso. cbn [app] in Hs. destruct f2; [cbn in Hf; lia|]. cbn [is_simple] in Hs.
      change (92 <? 128) with true in Hs. cbv iota in Hs.
      change ((92 =? 34) || (92 =? 92) || (92 =? 0)) with true in Hs. discriminate.
    + cbn [utf8_encode_all flat_map]. f_equal.
      rewrite app_length in Hf. pose proof (encode_length x) as Hl.
      destruct f2 as [|f2']; [lia|].
      destruct (N.ltb_spec x 128) as [Lx|Gx].
      * rewrite encode_ascii in Hs, Hf by assumption. cbn [app is_simple length] in Hs, Hf.
        destruct (N.ltb_spec x 128); [|lia].
        destruct ((x =? 34) || (x =? 92) || (x =? 0)); [discriminate|].
        apply (IH _ _ Hp f2' Hs). lia.
      * destruct (encode_high x Gx) as (b & t & Eb & Hb1 & Hb2).
        pose proof (decode_encode x (removelast r') Hsc) as Hd.
        rewrite Eb in Hs, Hd, Hf. cbn [app is_simple length] in Hs, Hd, Hf.
        destruct (N.ltb_spec b 128); [lia|]. rewrite Hd in Hs.
        destruct (x =? 65533); [discriminate|].
        eapply (IH _ _ Hp f2'); [|lia].
        (* is_simple is monotone in fuel is not needed: same fuel f2' *)
        exact Hs.
Qed.

(* THEOREM json_string_is_cue_string: every JSON string literal text t that the
   strict reader accepts (no unpaired surrogate escape) is read by literal.Unquote
   as exactly the UTF-8 text of the JSON string value. *)
Theorem json_string_is_cue_string : forall t v,
  json_unescape_gen Strict t = Some v -> cue_unquote t = UOk (utf8_encode_all v).
Proof.
  intros t v H. unfold json_unescape_gen in H.
  destruct t as [|c s]; [discriminate|].
  destruct (N.eqb_spec c 34) as [->|]; [|discriminate].
  destruct (parse_str Strict (length s) s) as [[v0 rest]|] eqn:Ep; [|discriminate].
  destruct rest; [|discriminate]. inversion H; subst v0; clear H.
  destruct (parse_str_shape _ _ _ _ Ep) as [[body Hbody] Hnl].
  assert (Hlast : last_is 34 (34 :: s) = true).
  { unfold last_is. rewrite Hbody. change (34 :: body ++ [34]) with ((34 :: body) ++ [34]).
    rewrite rev_app_distr. reflexivity. }
  assert (Hnonl : existsb (N.eqb 10) s = false).
  { destruct (existsb (N.eqb 10) s) eqn:E; [|reflexivity]. exfalso.
    apply existsb_exists in E. destruct E as (x & Hin & Hx). apply N.eqb_eq in Hx. subst.
    apply Hnl. assumption. }
  assert (Hfinal : (if is_simple (length s) (removelast s) then UOk (removelast s)
                    else cue_uq_loop (S (length s)) s []) = UOk (utf8_encode_all v)).
  { destruct (is_simple (length s) (removelast s)) eqn:Es.
    - f_equal. apply (parse_str_simple _ _ _ _ Ep (length s) Es). lia.
    - rewrite (cue_loop_parse _ _ _ Ep (S (length s)) []) by lia. reflexivity. }
  unfold cue_unquote. change (34 =? 35) with false. change (34 =? 39) with false.
  change (negb (34 =? 34)) with false. cbv iota.
  destruct s as [|c1 [|c2 [|c3 s3]]].
  - exfalso. apply (parse_str_nonempty _ _ _ Ep).
  - rewrite Hlast. cbn [negb]. rewrite Hnonl. exact Hfinal.
  - rewrite Hlast. cbn [negb]. rewrite Hnonl. exact Hfinal.
  - assert (Hc1 : c1 =? 34 = false).
    { destruct (N.eqb_spec c1 34) as [->|]; [|reflexivity]. exfalso.
      cbn [length parse_str] in Ep. change (34 =? 34) with true in Ep. cbv iota in Ep. discriminate. }
    rewrite Hc1. cbn [andb]. rewrite Hlast. cbn [negb]. rewrite Hnonl. exact Hfinal.
Qed.

(* and the strict reader refines the standard one: same value *)
Lemma strict_refines_std_str : forall f s r, parse_str Strict f s = Some r -> parse_str Std f s = Some r.
Proof.
  induction f as [|f IH]; intros s r H; [discriminate|].
  cbn [parse_str] in *. destruct s as [|c t]; [discriminate|].
  destruct (c =? 34); [assumption|].
  destruct (c =? 92).
  - destruct t as [|e t1]; [discriminate|].
    destruct (e =? 117).
    + destruct (hex4 t1) as [[u t2]|]; [|discriminate].
      cbn [rej_lone Strict Std] in *.
      destruct (is_high u).
      * destruct (low_escape t2) as [[l t3]|]; [|discriminate].
        destruct (parse_str Strict f t3) as [p|] eqn:E; [|discriminate].
        rewrite (IH _ _ E). assumption.
      * destruct (is_low u); [discriminate|].
        destruct (parse_str Strict f t2) as [p|] eqn:E; [|discriminate].
        rewrite (IH _ _ E). assumption.
    + destruct (simple_escape e); [|discriminate].
      destruct (parse_str Strict f t1) as [p|] eqn:E; [|discriminate].
      rewrite (IH _ _ E). assumption.
  - destruct (c <? 32); [discriminate|].
    destruct (c <? 128).
    + destruct (parse_str Strict f t) as [p|] eqn:E; [|discriminate].
      rewrite (IH _ _ E). assumption.
    + destruct (utf8_decode (c :: t)) as [[cp t']|]; [|discriminate].
      cbn [rej_bom Strict Std andb] in *.
      destruct (parse_str Strict f t') as [p|] eqn:E; [|discriminate].
      rewrite (IH _ _ E). assumption.
Qed.

Theorem strict_refines_std : forall t v,
  json_unescape_gen Strict t = Some v -> json_unescape t = Some v.
Proof.
  intros t v H. unfold json_unescape, json_unescape_gen in *.
  destruct t as [|c s]; [discriminate|]. destruct (c =? 34); [|discriminate].
  destruct (parse_str Strict (length s) s) as [p|] eqn:E; [|discriminate].
  rewrite (strict_refines_std_str _ _ _ E). assumption.
Qed.

(* so: for JSON string literals without unpaired surrogates, handing the text to
   CUE preserves the string value *)
Corollary json_string_cue_same_value : forall t v,
  json_unescape_gen Strict t = Some v ->
  json_unescape t = Some v /\ cue_unquote t = UOk (utf8_encode_all v).
Proof.
  intros t v H. split; [apply strict_refines_std|apply json_string_is_cue_string]; assumption.
Qed.

(* F6: the witness on which the faithful model rejects a valid JSON string *)
Theorem lone_surrogate_refuted :
  exists t, json_unescape t = Some [0xFFFD] /\ cue_unquote t = UErr.
Proof. exists [34; 92; 117; 100; 56; 48; 48; 34]. split; vm_compute; reflexivity. Qed.
