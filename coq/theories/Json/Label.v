(* C10 - label_ident_safe: when internal/encoding/json.PatchExpr turns the string
   label of a JSON member into an identifier.

   Model of cue/ast.IsValidIdent, cue/ast.StringLabelNeedsQuoting (ident.go) and of
   the identifier branches of cue/scanner.Scanner.Scan (scanFieldIdentifier, the
   '_' branch, token.Lookup) on a source that starts with the label.  Strings are
   lists of code points.  unicode.IsLetter / unicode.IsDigit for code points
   >= 0x80 are Section variables (tables of the Go runtime); the one fact used is
   that no code point is both (general categories L* and Nd are disjoint). *)
From Coq Require Import List NArith Bool Lia.
Import ListNotations.
Local Open Scope N_scope.

Section Label.
  Variable uni_letter uni_digit : N -> bool.
  Hypothesis letter_not_digit : forall c, uni_letter c = true -> uni_digit c = false.

  Definition ascii_letter (c : N) : bool := (97 <=? c) && (c <=? 122) || (65 <=? c) && (c <=? 90).
  Definition ascii_digit (c : N) : bool := (48 <=? c) && (c <=? 57).
  (* isLetter, isDigit (cue/ast/ident.go = cue/scanner/scanner.go) *)
  Definition is_letter (c : N) : bool := ascii_letter c || (128 <=? c) && uni_letter c.
  Definition is_digit (c : N) : bool := ascii_digit c || (128 <=? c) && uni_digit c.
  Definition ident_part (c : N) : bool := is_letter c || is_digit c || (c =? 95) || (c =? 36).

  (* strings.HasPrefix(s, string(c)) / strings.CutPrefix *)
  Definition has_prefix (c : N) (s : list N) : bool :=
    match s with x :: _ => x =? c | [] => false end.
  Definition cut_prefix (c : N) (s : list N) : list N * bool :=
    match s with
    | x :: r => if x =? c then (r, true) else (s, false)
    | [] => ([], false)
    end.

  (* IsValidIdent; utf8.DecodeRuneInString("") is RuneError, not a digit *)
  Definition is_valid_ident (s : list N) : bool :=
    match s with
    | [] => false
    | _ =>
      let (s1, consumed) := cut_prefix 95 s in
      match s1 with
      | [] => true
      | _ =>
        let (s2, hash) := cut_prefix 35 s1 in
        let consumed := if hash then false else consumed in
        if negb consumed && match s2 with c :: _ => is_digit c | [] => false end
        then false
        else forallb ident_part s2
      end
    end.

  (* StringLabelNeedsQuoting: PatchExpr keeps the string label iff this holds *)
  Definition needs_quoting (s : list N) : bool :=
    has_prefix 35 s || has_prefix 95 s || negb (is_valid_ident s).

  (* ---- scanner ---- *)
  Fixpoint span (p : N -> bool) (s : list N) : list N * list N :=
    match s with
    | c :: r => if p c then let (a, b) := span p r in (c :: a, b) else ([], s)
    | [] => ([], [])
    end.

  (* scanFieldIdentifier / scanIdentifier: (literal, rest) *)
  Definition scan_field_ident (s : list N) : list N * list N :=
    match s with
    | c :: r =>
      if c =? 35 then
        match r with
        | d :: _ => if is_digit d then ([35], r) else let (a, b) := span ident_part r in (35 :: a, b)
        | [] => ([35], [])
        end
      else span ident_part s
    | [] => ([], [])
    end.

  Fixpoint list_eqb (a b : list N) : bool :=
    match a, b with
    | [], [] => true
    | x :: a', y :: b' => (x =? y) && list_eqb a' b'
    | _, _ => false
    end.

  (* token.Lookup: if else for in let try fallback otherwise func true false null *)
  Definition keywords : list (list N) :=
    [[105;102]; [101;108;115;101]; [102;111;114]; [105;110]; [108;101;116]; [116;114;121];
     [102;97;108;108;98;97;99;107]; [111;116;104;101;114;119;105;115;101]; [102;117;110;99];
     [116;114;117;101]; [102;97;108;115;101]; [110;117;108;108]].
  Definition is_keyword (s : list N) : bool := existsb (list_eqb s) keywords.

  Inductive tok := TIdent | TKeyword | TOther.

  (* Scanner.Scan on a source that starts with s (no leading white space): the token
     class, its literal and the unread rest.  TOther: any token that is neither an
     identifier nor a keyword (numbers, strings, operators, _|_, ILLEGAL, EOF). *)
  Definition scan_tok (s : list N) : tok * list N * list N :=
    match s with
    | [] => (TOther, [], [])
    | ch :: r =>
      if ascii_digit ch then (TOther, [], s)
      else if is_letter ch || (ch =? 36) || (ch =? 35) then
        let (lit, rest) := scan_field_ident s in
        if (1 <? N.of_nat (length lit)) then ((if is_keyword lit then TKeyword else TIdent), lit, rest)
        else if negb (ch =? 35) ||
                negb (match rest with q :: _ => (q =? 39) || (q =? 34) || (q =? 35) | [] => false end)
             then (TIdent, lit, rest)
             else (TOther, lit, rest)
      else if ch =? 95 then
        match r with
        | 124 :: 95 :: r2 => (TOther, [95; 124; 95], r2)
        | _ =>
          let (lit, rest) := scan_field_ident r in
          if list_eqb lit [95] && has_prefix 35 rest then (TOther, 95 :: lit, rest)
          else (TIdent, 95 :: lit, rest)
        end
      else (TOther, [], s)
    end.

  (* ---- proofs ---- *)

  Lemma span_all : forall p s, span p s = (s, []) <-> forallb p s = true.
  Proof.
    induction s as [|c s IH]; cbn; [tauto|].
    destruct (p c); cbn.
    - destruct (span p s) as [a b]. split.
      + intro H. injection H as -> ->. apply IH. reflexivity.
      + intro H. apply IH in H. injection H as -> ->. reflexivity.
    - split; [discriminate|discriminate].
  Qed.

  Lemma letter_digit_disjoint : forall c, is_letter c = true -> is_digit c = false.
  Proof.
    intros c H. unfold is_letter, is_digit, ascii_letter, ascii_digit in *.
    destruct (128 <=? c) eqn:E128.
    - apply N.leb_le in E128.
      assert (H1 : ((48 <=? c) && (c <=? 57)) = false).
      { apply andb_false_iff. right. apply N.leb_gt. lia. }
      rewrite H1. cbn [orb andb].
      apply orb_true_iff in H. destruct H as [H|H].
      + exfalso. apply orb_true_iff in H. destruct H as [H|H]; apply andb_true_iff in H; destruct H as [_ H];
          apply N.leb_le in H; lia.
      + cbn [andb] in H. apply letter_not_digit. exact H.
    - rewrite !andb_false_l, !orb_false_r in *.
      apply N.leb_gt in E128.
      apply andb_false_iff.
      apply orb_true_iff in H. destruct H as [H|H]; apply andb_true_iff in H; destruct H as [H1 H2];
        apply N.leb_le in H1; apply N.leb_le in H2.
      + right. apply N.leb_gt. lia.
      + right. apply N.leb_gt. lia.
  Qed.

  Lemma dollar_not_digit : is_digit 36 = false.
  Proof. reflexivity. Qed.

  (* label_ident_safe: PatchExpr emits the label as an identifier (needs_quoting = false)
     exactly when the scanner reads the whole label back as ONE identifier or keyword
     token with the same text and the label is neither a hidden (_x) nor a definition
     (#x) form *)
  Theorem label_ident_safe : forall s,
    needs_quoting s = false <->
    (exists t, scan_tok s = (t, s, []) /\ t <> TOther /\ has_prefix 95 s = false /\ has_prefix 35 s = false).
  Proof.
    intros [|ch r].
    - cbn. split; [discriminate|]. intros [t [H [Ht _]]]. injection H as <-. contradiction.
    - unfold needs_quoting. cbn [has_prefix].
      destruct (ch =? 35) eqn:E35.
      { cbn [orb]. split; [discriminate|]. intros [t [_ [_ [_ H]]]]. discriminate. }
      destruct (ch =? 95) eqn:E95.
      { cbn [orb]. split; [discriminate|]. intros [t [_ [_ [H _]]]]. discriminate. }
      cbn [orb]. unfold is_valid_ident, cut_prefix. rewrite E95, E35. cbn [negb andb].
      unfold scan_tok. rewrite E35, E95, !orb_false_r.
      destruct (ascii_digit ch) eqn:Ead.
      { assert (Hd : is_digit ch = true) by (unfold is_digit; rewrite Ead; reflexivity).
        rewrite Hd. cbn [negb]. split; [discriminate|]. intros [t [H [Ht _]]]. injection H as <- _ _. contradiction. }
      destruct (is_letter ch || (ch =? 36)) eqn:Els.
      + (* identifier start *)
        assert (Hd : is_digit ch = false).
        { apply orb_true_iff in Els. destruct Els as [H|H].
          - apply letter_digit_disjoint. exact H.
          - apply N.eqb_eq in H. subst ch. reflexivity. }
        rewrite Hd. unfold scan_field_ident. rewrite E35.
        destruct (span ident_part (ch :: r)) as [lit rest] eqn:Esp.
        split.
        * intro H. apply negb_false_iff in H. apply span_all in H. rewrite H in Esp. injection Esp as <- <-.
          destruct (1 <? N.of_nat (length (ch :: r))).
          -- destruct (is_keyword (ch :: r)); eexists; (split; [reflexivity|]); (split; [discriminate|]); split; reflexivity.
          -- cbn [negb orb]. exists TIdent. split; [reflexivity|]. split; [discriminate|]. split; reflexivity.
        * intros [t [H _]]. apply negb_false_iff. apply span_all.
          destruct (1 <? N.of_nat (length lit)).
          -- injection H as _ -> ->. exact Esp.
          -- cbn [negb orb] in H. injection H as _ -> ->. exact Esp.
      + (* neither digit, letter, $, # nor _ *)
        split.
        * intro H. exfalso.
          destruct (is_digit ch) eqn:Hd; [discriminate|]. cbn [negb] in H. apply negb_false_iff in H.
          cbn [forallb] in H. apply andb_true_iff in H. destruct H as [H _].
          unfold ident_part in H. rewrite Hd, E95 in H.
          apply orb_false_iff in Els. destruct Els as [El Es]. rewrite El, Es in H. discriminate.
        * intros [t [H [Ht _]]]. injection H as <- _ _. contradiction.
  Qed.

  (* consequences, as separate statements *)
  Corollary unquoted_label_is_regular : forall s,
    needs_quoting s = false -> s <> [] /\ has_prefix 95 s = false /\ has_prefix 35 s = false.
  Proof.
    intros s H. apply label_ident_safe in H. destruct H as [t [Hs [Ht [H1 H2]]]].
    split; [|split; assumption]. intros ->. cbn in Hs. injection Hs as <-. contradiction.
  Qed.

  Corollary hidden_definition_labels_stay_strings : forall c s,
    (c = 95 \/ c = 35) -> needs_quoting (c :: s) = true.
  Proof. intros c s [-> | ->]; reflexivity. Qed.
End Label.

(* ---- examples (ASCII: the oracles are never consulted below 0x80) ---- *)
Definition no_uni (_ : N) : bool := false.

Example label_examples :
  needs_quoting no_uni no_uni [97; 98] = false /\               (* ab *)
  needs_quoting no_uni no_uni [95; 97] = true /\                (* _a  hidden *)
  needs_quoting no_uni no_uni [35; 97] = true /\                (* #a  definition *)
  needs_quoting no_uni no_uni [97; 45; 98] = true /\            (* a-b *)
  needs_quoting no_uni no_uni [49; 97] = true /\                (* 1a *)
  needs_quoting no_uni no_uni [] = true /\
  needs_quoting no_uni no_uni [105; 102] = false /\             (* if: a keyword is emitted unquoted *)
  needs_quoting no_uni no_uni [36; 120] = false /\              (* $x *)
  is_valid_ident no_uni no_uni [35] = true /\                   (* "#" is a valid identifier for IsValidIdent *)
  is_valid_ident no_uni no_uni [95; 35; 48] = false /\          (* _#0 *)
  is_valid_ident no_uni no_uni [95; 48] = true /\               (* _0 *)
  scan_tok no_uni no_uni [105; 102] = (TKeyword, [105; 102], []) /\
  scan_tok no_uni no_uni [97; 45; 98] = (TIdent, [97], [45; 98]) /\
  scan_tok no_uni no_uni [95; 124; 95] = (TOther, [95; 124; 95], []) /\
  scan_tok no_uni no_uni [35; 48] = (TIdent, [35], [48]).
Proof. vm_compute. repeat split. Qed.
