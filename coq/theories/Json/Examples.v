(* C10 - non-vacuity: the hypotheses of the theorems are met by concrete,
   non-trivial values/texts, and the conclusions are what one expects. *)
From Verif Require Import Json.Model Json.Cue Json.Data Json.StringProofs Json.NumProofs Json.RoundTrip
  Json.CueStrProofs Json.CueNumProofs Json.FormatProofs Json.DataProofs Json.Reject Json.Refine.
From Coq Require Import String Ascii.

Definition b (s : string) : bytes := map N_of_ascii (list_ascii_of_string s).
Open Scope string_scope.

(* a value with every constructor, a repeated name, an empty name, U+2028, U+FEFF, a non-BMP
   code point, controls, -0 and a big exponent *)
Definition ex_value : jvalue :=
  JObj [([97], JArr [JNum {| jneg := true; jint := [48]; jfrac := []; jexp := None |};
                      JNum {| jneg := false; jint := [49]; jfrac := [53; 48]; jexp := Some (-400)%Z |};
                      JBool true; JBool false; JNull;
                      JStr [0; 9; 10; 34; 92; 47; 127; 233; 0x2028; 0xFEFF; 0x1F600; 0x10FFFF]]);
        ([], JObj []);
        ([97], JArr [])].

Example ex_value_wf : wf_value ex_value = true.
Proof. reflexivity. Qed.

Example ex_value_roundtrip : json_parse (json_print ex_value) = Some ex_value.
Proof. vm_compute. reflexivity. Qed.

Example ex_value_printed :
  json_print (JArr [JStr [9; 34; 0x2028; 60]; JNum {| jneg := true; jint := [49]; jfrac := []; jexp := Some 5%Z |}])
  = b "[""\t\""\u2028<"",-1e5]".
Proof. vm_compute. reflexivity. Qed.

(* white space, every escape form, a surrogate pair, nested containers *)
Example ex_parse :
  json_parse (b " { ""kA\n"" : [ 1 , -2.50E+3 , ""😀\/"" ] , """" : { } } ")
  = Some (JObj [([107; 65; 10], JArr [JNum {| jneg := false; jint := [49]; jfrac := []; jexp := None |};
                                      JNum {| jneg := true; jint := [50]; jfrac := [53; 48]; jexp := Some 3%Z |};
                                      JStr [0x1F600; 47]]);
                ([], JObj [])]).
Proof. vm_compute. reflexivity. Qed.

(* string theorem: the strict reader accepts this literal, so Unquote reads the same bytes *)
Example ex_string_hyp :
  json_unescape_gen Strict (b """a\n😀é\""\\\/""") = Some [97; 10; 0x1F600; 233; 34; 92; 47].
Proof. vm_compute. reflexivity. Qed.

Example ex_string_cue :
  cue_unquote (b """a\n😀é\""\\\/""") = UOk [97; 10; 0xF0; 0x9F; 0x98; 0x80; 0xC3; 0xA9; 34; 92; 47].
Proof. vm_compute. reflexivity. Qed.

(* the fast path of Unquote is exercised too *)
Example ex_string_simple : cue_unquote (b """plain text""") = UOk (b "plain text").
Proof. vm_compute. reflexivity. Qed.

(* CUE accepts more than JSON (\a), JSON accepts the lone surrogate CUE rejects *)
Example ex_string_cue_only : cue_unquote (b """\a""") = UOk [7] /\ json_unescape (b """\a""") = None.
Proof. split; vm_compute; reflexivity. Qed.

(* number theorem hypotheses *)
Example ex_number_hyp :
  exists n, parse_number (b "-12.50E+2") = Some (n, []) /\ num_in_range n = true /\
            jnum_is_int n = false /\ cue_dec_of n = {| dneg := true; dcoeff := 1250; dexp := 0 |}.
Proof. eexists. split; [vm_compute; reflexivity|]. repeat split; vm_compute; reflexivity. Qed.

Example ex_number_cue : cue_read_number (b "-12.50E+2") = Some (false, {| dneg := true; dcoeff := 1250; dexp := 0 |}).
Proof. vm_compute. reflexivity. Qed.

Example ex_number_big : cue_read_number (b "1e400") = Some (false, {| dneg := false; dcoeff := 1; dexp := 400 |}).
Proof. vm_compute. reflexivity. Qed.

Example ex_number_negzero : cue_read_number (b "-0") = Some (true, {| dneg := false; dcoeff := 0; dexp := 0 |}).
Proof. vm_compute. reflexivity. Qed.

(* outside apd's exponent range the literal is an error; the limit itself is accepted *)
Example ex_number_range :
  cue_read_number (b "1e100001") = None /\ cue_read_number (b "12e100000") = None /\
  cue_read_number (b "1e-2147483649") = None /\
  cue_read_number (b "1e100000") = Some (false, {| dneg := false; dcoeff := 1; dexp := 100000 |}) /\
  cue_read_number (b "1.5e-100000") = Some (false, {| dneg := false; dcoeff := 15; dexp := (-100001) |}).
Proof. repeat split; vm_compute; reflexivity. Qed.

(* CUE's grammar is larger: these are not JSON *)
Example ex_number_cue_only :
  parse_num (b "1_000") = PNOk 10 false (b "1000") /\ parse_num (b "0x1F") = PNOk 16 false (b "1F") /\
  parse_num (b ".5") = PNOk 10 true (b "0.5") /\ parse_num (b "1K") = PNOther /\
  parse_number (b "1_000") = Some ({| jneg := false; jint := [49]; jfrac := []; jexp := None |}, b "_000").
Proof. repeat split; vm_compute; reflexivity. Qed.

(* format G *)
Example ex_format :
  format_G {| dneg := true; dcoeff := 1500; dexp := (-2)%Z |} = b "-15.00" /\
  format_G {| dneg := false; dcoeff := 1; dexp := 400%Z |} = b "1E+400" /\
  format_G {| dneg := false; dcoeff := 123; dexp := (-10)%Z |} = b "1.23E-8" /\
  format_G {| dneg := false; dcoeff := 0; dexp := (-9)%Z |} = b "0.000000000" /\
  format_G {| dneg := false; dcoeff := 123; dexp := (-5)%Z |} = b "0.00123".
Proof. repeat split; vm_compute; reflexivity. Qed.

(* data: hypotheses of cue_data_spec_when *)
Definition ex_value2 : jvalue :=
  JObj [([97], JArr [JNum {| jneg := true; jint := [48]; jfrac := []; jexp := None |};
                      JNum {| jneg := false; jint := [49]; jfrac := [53; 48]; jexp := Some (-400)%Z |}; JStr [0xFEFF]]);
        ([], JObj [])].
Example ex_data_hyp : wf_value ex_value2 = true /\ dup_keys ex_value2 = false /\ nums_in_range ex_value2 = true.
Proof. repeat split; vm_compute; reflexivity. Qed.

(* rejection: instances of the classes *)
Example ex_rejects :
  json_parse (b "[1,]") = None /\ json_parse (b "{""a"":1,}") = None /\ json_parse (b "01") = None /\
  json_parse (b "1.") = None /\ json_parse (b "1e+") = None /\ json_parse (b "+1") = None /\
  json_parse (b """a") = None /\ json_parse (b """\x41""") = None /\ json_parse (b """\u12g4""") = None /\
  json_parse (34 :: 9 :: [34]) = None /\ json_parse (34 :: 0xFF :: [34]) = None /\
  json_parse (b "1 2") = None /\ json_parse (b "") = None /\ json_parse (b "{""a"" 1}") = None /\
  json_parse (b "{a:1}") = None /\ json_parse (b "nul") = None /\ json_parse (b "[1 2]") = None.
Proof. repeat split; vm_compute; reflexivity. Qed.

Example ex_bad_tail : bad_string_tail Std (b "\x41""") /\ bad_string_tail Std [9; 34] /\ plain 97 = true.
Proof.
  split; [|split; [|reflexivity]].
  - apply BT_escape; [discriminate|reflexivity].
  - apply BT_control. reflexivity.
Qed.
