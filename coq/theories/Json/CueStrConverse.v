(* C10 - converse of json_string_is_cue_string: among JSON string literals,
   literal.Unquote rejects exactly those with an unpaired surrogate escape. *)
From Verif Require Import Json.Model Json.Cue Json.Utf8Proofs Json.StringProofs Json.CueStrProofs.
From Coq Require Import Lia ZifyN ZifyNat ZifyBool.

Lemma scons_none : forall c o, scons c o = None -> o = None.
Proof. intros c [[l t]|] H; [discriminate|reflexivity]. Qed.

(* reading one raw (unescaped) scalar value *)
Lemma parse_str_raw_step : forall m f x r', is_scalar x = true -> 32 <= x -> x <> 34 -> x <> 92 ->
  (rej_bom m = true -> x <> 0xFEFF) ->
  parse_str m (S f) (utf8_encode x ++ r') = scons x (parse_str m f r').
Proof.
  intros m f x r' Hs H32 H34 H92 Hb.
  destruct (N.ltb_spec x 128) as [Lx|Gx].
  - rewrite encode_ascii by assumption. cbn [app parse_str].
    destruct (N.eqb_spec x 34); [contradiction|]. destruct (N.eqb_spec x 92); [contradiction|].
    destruct (N.ltb_spec x 32); [lia|]. destruct (N.ltb_spec x 128); [reflexivity|lia].
  - destruct (encode_high x Gx) as (b & t & Eb & Hb1 & Hb2).
    pose proof (decode_encode x r' Hs) as Hd. rewrite Eb in Hd |- *. cbn [app] in Hd |- *. cbn [parse_str].
    destruct (N.eqb_spec b 34); [lia|]. destruct (N.eqb_spec b 92); [lia|].
    destruct (N.ltb_spec b 32); [lia|]. destruct (N.ltb_spec b 128); [lia|]. rewrite Hd.
    destruct (rej_bom m) eqn:E; cbn [andb]; [|reflexivity].
    destruct (N.eqb_spec x 0xFEFF); [exfalso; apply Hb; auto|reflexivity].
Qed.

(* a simple body is accepted by the strict reader as well *)
Lemma simple_std_strict : forall f s v, parse_str Std f s = Some (v, []) ->
  forall f2, is_simple f2 (removelast s) = true -> (length s <= f2)%nat ->
  parse_str Strict f s = Some (v, []).
Proof.
  induction f as [|f IH]; intros s v H f2 Hs Hf; [discriminate|].
  destruct (parse_str_step_inv _ _ _ _ H) as [[-> ->]|(pre & r' & x & v' & -> & -> & Hp & Hnl & Hpre)].
  - reflexivity.
  - assert (Hr' : r' <> []) by (intros ->; apply (parse_str_nonempty _ _ _ Hp)).
    rewrite removelast_app_ne in Hs by assumption.
    destruct Hpre as [[t ->]|(-> & Hsc & H32 & H34 & H92)].
    + exfalso. cbn [app] in Hs. destruct f2; [cbn in Hf; lia|]. cbn [is_simple] in Hs.
      change (92 <? 128) with true in Hs. cbv iota in Hs.
      change ((92 =? 34) || (92 =? 92) || (92 =? 0)) with true in Hs. discriminate.
    + rewrite parse_str_raw_step by (assumption || discriminate).
      rewrite app_length in Hf. pose proof (encode_length x) as Hl.
      destruct f2 as [|f2']; [lia|].
      assert (Hs' : is_simple f2' (removelast r') = true).
      { destruct (N.ltb_spec x 128) as [Lx|Gx].
        - rewrite encode_ascii in Hs by assumption. cbn [app is_simple] in Hs.
          destruct (N.ltb_spec x 128); [|lia].
          destruct ((x =? 34) || (x =? 92) || (x =? 0)); [discriminate|]. exact Hs.
        - destruct (encode_high x Gx) as (b & t & Eb & Hb1 & Hb2).
          pose proof (decode_encode x (removelast r') Hsc) as Hd.
          rewrite Eb in Hs, Hd. cbn [app is_simple] in Hs, Hd.
          destruct (N.ltb_spec b 128); [lia|]. rewrite Hd in Hs.
          destruct (x =? 65533); [discriminate|]. exact Hs. }
      rewrite (IH _ _ Hp f2' Hs' ltac:(lia)). reflexivity.
Qed.

(* what follows an unpaired high surrogate cannot complete a pair *)
Lemma after_high_fails : forall f r2 v' acc f2 c1, parse_str Std f r2 = Some (v', []) -> low_escape r2 = None ->
  match r2 with
  | [] => UPanic
  | _ =>
    match unquote_char r2 with
    | UCOther => UOther
    | UCRune cl _ ss2 =>
      if is_low cl then cue_uq_loop f2 ss2 (acc ++ utf8_encode (combine_surr c1 cl)) else UErr
    | _ => UErr
    end
  end = UErr.
Proof.
  intros f r2 v' acc f2 c1 H Hl. destruct f as [|f]; [discriminate|].
  cbn [parse_str] in H. destruct r2 as [|c r]; [discriminate|].
  destruct (N.eqb_spec c 34) as [->|N34].
  { cbn [unquote_char]. change (34 =? 34) with true. cbv iota. destruct r; reflexivity. }
  destruct (N.eqb_spec c 92) as [->|N92].
  { destruct r as [|e r1]; [discriminate|].
    destruct (N.eqb_spec e 117) as [->|N117].
    - destruct (hex4 r1) as [[l r3]|] eqn:Eh; [|discriminate].
      rewrite (unquote_char_u r1 l r3 Eh).
      unfold low_escape in Hl. change ((92 =? 92) && (117 =? 117)) with true in Hl. cbv iota in Hl.
      rewrite Eh in Hl. destruct (is_low l); [discriminate|reflexivity].
    - destruct (simple_escape e) as [x|] eqn:Es; [|discriminate].
      destruct (simple_escape_cue e x r1 Es N117) as [-> Hx].
      assert (Hlow : is_low x = false) by (unfold is_low; lia). rewrite Hlow. reflexivity. }
  destruct (N.ltb_spec c 32) as [L32|G32]; [discriminate|].
  destruct (N.ltb_spec c 128) as [L128|G128].
  { cbn [unquote_char]. destruct (N.eqb_spec c 34); [contradiction|].
    destruct (N.leb_spec 128 c); [lia|]. destruct (N.eqb_spec c 92); [contradiction|]. cbn [negb].
    destruct (N.eqb_spec c 0); [lia|].
    assert (Hlow : is_low c = false) by (unfold is_low; lia). rewrite Hlow. reflexivity. }
  destruct (utf8_decode (c :: r)) as [[cp r']|] eqn:Ed; [|discriminate].
  cbn [unquote_char]. destruct (N.eqb_spec c 34); [contradiction|].
  destruct (N.leb_spec 128 c); [|lia]. rewrite Ed.
  destruct (decode_inv _ _ _ Ed) as [Hsc _].
  destruct (scalar_not_surr cp Hsc) as [_ ->]. reflexivity.
Qed.

Lemma cue_loop_fail : forall fuel s v, parse_str Std fuel s = Some (v, []) ->
  parse_str Strict fuel s = None ->
  forall fuel2 acc, (fuel <= fuel2)%nat -> cue_uq_loop fuel2 s acc = UErr.
Proof.
  induction fuel as [|f IH]; intros s v HS HF fuel2 acc Hf; [discriminate|].
  destruct fuel2 as [|f2]; [lia|]. assert (Hf' : (f <= f2)%nat) by lia.
  cbn [parse_str] in HS, HF. destruct s as [|c r]; [discriminate|].
  destruct (N.eqb_spec c 34) as [->|N34]; [discriminate|].
  destruct (N.eqb_spec c 92) as [->|N92].
  { destruct r as [|e r1]; [discriminate|].
    cbn [cue_uq_loop]. change (92 =? 13) with false. change (92 =? 10) with false. cbv iota.
    destruct (N.eqb_spec e 117) as [->|N117].
    - destruct (hex4 r1) as [[u r2]|] eqn:Eh; [|discriminate].
      rewrite (unquote_char_u r1 u r2 Eh).
      destruct (is_high u) eqn:Ehi.
      + cbn [orb]. rewrite (high_not_low u Ehi).
        destruct (low_escape r2) as [[l r3]|] eqn:El.
        * apply scons_inv in HS. destruct HS as (v' & -> & HS). apply scons_none in HF.
          apply low_escape_inv in El. destruct El as (r' & -> & Eh2 & Elow).
          rewrite (unquote_char_u r' l r3 Eh2). rewrite Elow. apply (IH _ _ HS HF f2 _ Hf').
        * cbn [rej_lone Std] in HS. apply scons_inv in HS. destruct HS as (v' & -> & HS).
          apply (after_high_fails f r2 v' acc f2 u HS El).
      + destruct (is_low u) eqn:Elo; [cbn [orb]; reflexivity|].
        apply scons_inv in HS. destruct HS as (v' & -> & HS). apply scons_none in HF. cbn [orb].
        apply (IH _ _ HS HF f2 _ Hf').
    - destruct (simple_escape e) as [x|] eqn:Es; [|discriminate].
      apply scons_inv in HS. destruct HS as (v' & -> & HS). apply scons_none in HF.
      destruct (simple_escape_cue e x r1 Es N117) as [-> Hx].
      assert (Hh : is_high x = false) by (unfold is_high; lia).
      assert (Hl : is_low x = false) by (unfold is_low; lia).
      rewrite Hh, Hl. cbn [orb]. apply (IH _ _ HS HF f2 _ Hf'). }
  destruct (N.ltb_spec c 32) as [L32|G32]; [discriminate|].
  destruct (N.ltb_spec c 128) as [L128|G128].
  { apply scons_inv in HS. destruct HS as (v' & -> & HS). apply scons_none in HF.
    cbn [cue_uq_loop].
    destruct (N.eqb_spec c 13); [lia|]. destruct (N.eqb_spec c 10); [lia|].
    cbn [unquote_char].
    destruct (N.eqb_spec c 34); [contradiction|].
    destruct (N.leb_spec 128 c); [lia|].
    destruct (N.eqb_spec c 92); [contradiction|]. cbn [negb].
    destruct (N.eqb_spec c 0); [lia|].
    assert (Hh : is_high c = false) by (unfold is_high; lia).
    assert (Hl : is_low c = false) by (unfold is_low; lia).
    rewrite Hh, Hl. cbn [orb]. apply (IH _ _ HS HF f2 _ Hf'). }
  destruct (utf8_decode (c :: r)) as [[cp r']|] eqn:Ed; [|discriminate].
  cbn [rej_bom Strict Std andb] in HS, HF.
  apply scons_inv in HS. destruct HS as (v' & -> & HS). apply scons_none in HF.
  cbn [cue_uq_loop].
  destruct (N.eqb_spec c 13); [lia|]. destruct (N.eqb_spec c 10); [lia|].
  cbn [unquote_char].
  destruct (N.eqb_spec c 34); [contradiction|].
  destruct (N.leb_spec 128 c); [|lia].
  rewrite Ed.
  destruct (decode_inv _ _ _ Ed) as [Hsc _].
  destruct (scalar_not_surr cp Hsc) as [-> ->]. cbn [orb].
  apply (IH _ _ HS HF f2 _ Hf').
Qed.

(* THEOREM: a valid JSON string literal that the strict reader refuses (it has an unpaired
   surrogate escape) is refused by literal.Unquote; together with json_string_is_cue_string:
   on JSON string literals, Unquote succeeds exactly on the strict reader's domain. *)
Theorem cue_unquote_rejects_lone : forall t v,
  json_unescape t = Some v -> json_unescape_gen Strict t = None -> cue_unquote t = UErr.
Proof.
  intros t v H HF. unfold json_unescape, json_unescape_gen in H, HF.
  destruct t as [|c s]; [discriminate|].
  destruct (N.eqb_spec c 34) as [->|]; [|discriminate].
  destruct (parse_str Std (length s) s) as [[v0 rest]|] eqn:Ep; [|discriminate].
  destruct rest; [|discriminate]. inversion H; subst v0; clear H.
  assert (HFs : parse_str Strict (length s) s = None).
  { destruct (parse_str Strict (length s) s) as [[v1 r1]|] eqn:Es; [|reflexivity].
    rewrite (strict_refines_std_str _ _ _ Es) in Ep. inversion Ep; subst. discriminate. }
  destruct (parse_str_shape _ _ _ _ Ep) as [[body Hbody] Hnl].
  assert (Hlast : last_is 34 (34 :: s) = true).
  { unfold last_is. rewrite Hbody. change (34 :: body ++ [34]) with ((34 :: body) ++ [34]).
    rewrite rev_app_distr. reflexivity. }
  assert (Hnonl : existsb (N.eqb 10) s = false).
  { destruct (existsb (N.eqb 10) s) eqn:E; [|reflexivity]. exfalso.
    apply existsb_exists in E. destruct E as (x & Hin & Hx). apply N.eqb_eq in Hx. subst.
    apply Hnl. assumption. }
  assert (Hfinal : (if is_simple (length s) (removelast s) then UOk (removelast s)
                    else cue_uq_loop (S (length s)) s []) = UErr).
  { destruct (is_simple (length s) (removelast s)) eqn:Es.
    - rewrite (simple_std_strict _ _ _ Ep (length s) Es ltac:(lia)) in HFs. discriminate.
    - apply (cue_loop_fail _ _ _ Ep HFs). lia. }
  unfold cue_unquote. change (34 =? 35) with false. change (34 =? 39) with false.
  change (negb (34 =? 34)) with false. cbv iota.
  destruct s as [|c1 [|c2 [|c3 s3]]].
  - exfalso. apply (parse_str_nonempty _ _ _ Ep).
  - rewrite Hlast. cbn [negb]. rewrite Hnonl. exact Hfinal.
  - rewrite Hlast. cbn [negb]. rewrite Hnonl. exact Hfinal.
  - assert (Hc1 : c1 =? 34 = false).
    { destruct (N.eqb_spec c1 34) as [->|]; [|reflexivity]. exfalso.
      cbn [length parse_str] in Ep. change (34 =? 34) with true in Ep. cbv iota in Ep. discriminate. }
    rewrite Hc1. cbn [andb]. rewrite Hlast. cbn [negb]. rewrite Hnonl. exact Hfinal.
Qed.
