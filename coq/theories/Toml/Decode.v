(* C12 - model of /repo/encoding/toml/decode.go: the decoder state machine over
   the top-level expressions the TOML parser delivers.

   Decoder.nextRootNode / decodeField / decodeExpr / decodeKey / findArray /
   findArrayPrefix / inlineFields are followed branch by branch.  The parser
   (github.com/pelletier/go-toml/v2/unstable) is abstracted to its events:
   KeyValue (dotted key, value), Table (dotted key), ArrayTable (dotted key).

   The decoder builds a CUE syntax tree in which a label may occur several
   times (foo: a: 1, foo: b: 2); it keeps pointers into that tree (currentTable,
   openTableArray.list / lastTable) and appends to the structs and lists they
   point to.  Here the tree is [otree] and a pointer is the list of child
   indices leading to the node ([ptr]); nodes are only ever appended to, so
   pointers stay valid.  [eval] is what CUE makes of the tree: declarations with
   the same label are unified.

   Rooted keys (rootedKey strings such as a.b.0."c d") are lists of segments:
   quoteLabelIfNeeded is injective and an index is never a valid unquoted
   label, so strings.HasPrefix(k, p+".") is the proper-prefix test on segment
   lists. *)
From Coq Require Export List NArith Bool Arith.
Export ListNotations.

Definition str := list N.

Fixpoint str_eqb (a b : str) : bool :=
  match a, b with
  | [], [] => true
  | x :: a', y :: b' => N.eqb x y && str_eqb a' b'
  | _, _ => false
  end.

Inductive seg := SName (s : str) | SIdx (n : nat).
Definition rkey := list seg.

Definition seg_eqb (a b : seg) : bool :=
  match a, b with
  | SName x, SName y => str_eqb x y
  | SIdx x, SIdx y => Nat.eqb x y
  | _, _ => false
  end.
Fixpoint rkey_eqb (a b : rkey) : bool :=
  match a, b with
  | [], [] => true
  | x :: a', y :: b' => seg_eqb x y && rkey_eqb a' b'
  | _, _ => false
  end.
(* strings.HasPrefix(k, p + ".") *)
Fixpoint proper_prefix (p k : rkey) : bool :=
  match p, k with
  | [], _ :: _ => true
  | x :: p', y :: k' => seg_eqb x y && proper_prefix p' k'
  | _, _ => false
  end.

(* TOML leaves (strings, integers, floats, booleans, dates and times).  The
   decoder copies the parser's text into a CUE literal (decodeExpr); the state
   machine never looks inside, so a leaf is an opaque identifier here.  The
   correspondence gives every leaf of a case its own identifier and compares
   through the implementation's decoding of the leaf on its own. *)
Definition leaf := N.

Inductive value :=
| VLeaf (l : leaf)
| VArray (vs : list value)
| VInline (fs : list (list str * value)).

Inductive event :=
| EKeyValue (p : list str) (v : value)
| ETable (p : list str)
| EArrayTable (p : list str).

(* the syntax tree being built *)
Inductive otree :=
| OLeaf (l : leaf)
| OList (es : list otree)
| OStruct (fs : list (str * otree)).

Definition ptr := list nat.

Inductive err := EDup | ERedeclArrayAsTable | ERedeclAsArray.
Inductive result (A : Type) := Ok (a : A) | Err (e : err).
Arguments Ok {A} a. Arguments Err {A} e.

(* inlineFields: foo: "bar.baz": zzz: <value> *)
Fixpoint chain (p : list str) (t : otree) : str * otree :=
  match p with
  | [] => ([], t)
  | [k] => (k, t)
  | k :: r => (k, OStruct [chain r t])
  end.

Fixpoint set_nth {A} (n : nat) (x : A) (l : list A) : list A :=
  match n, l with
  | O, _ :: r => x :: r
  | S n', y :: r => y :: set_nth n' x r
  | _, [] => []
  end.

(* x.Elts = append(x.Elts, decl) for the struct the pointer leads to *)
Fixpoint append_field (p : ptr) (f : str * otree) (t : otree) : otree :=
  match p with
  | [] => match t with OStruct fs => OStruct (fs ++ [f]) | _ => t end
  | i :: p' =>
    match t with
    | OStruct fs =>
      match nth_error fs i with
      | Some (k, sub) => OStruct (set_nth i (k, append_field p' f sub) fs)
      | None => t
      end
    | OList es =>
      match nth_error es i with
      | Some sub => OList (set_nth i (append_field p' f sub) es)
      | None => t
      end
    | OLeaf _ => t
    end
  end.

Fixpoint append_elem (p : ptr) (e : otree) (t : otree) : otree :=
  match p with
  | [] => match t with OList es => OList (es ++ [e]) | _ => t end
  | i :: p' =>
    match t with
    | OStruct fs =>
      match nth_error fs i with
      | Some (k, sub) => OStruct (set_nth i (k, append_elem p' e sub) fs)
      | None => t
      end
    | OList es =>
      match nth_error es i with
      | Some sub => OList (set_nth i (append_elem p' e sub) es)
      | None => t
      end
    | OLeaf _ => t
    end
  end.

Fixpoint node_at (p : ptr) (t : otree) : option otree :=
  match p with
  | [] => Some t
  | i :: p' =>
    match t with
    | OStruct fs => match nth_error fs i with Some (_, sub) => node_at p' sub | None => None end
    | OList es => match nth_error es i with Some sub => node_at p' sub | None => None end
    | OLeaf _ => None
    end
  end.

Definition width (p : ptr) (t : otree) : nat :=
  match node_at p t with
  | Some (OStruct fs) => length fs
  | Some (OList es) => length es
  | _ => O
  end.

(* openTableArray *)
Record oarr := mkArr { oa_key : rkey; oa_level : nat; oa_list : ptr; oa_last : ptr }.

Record state := mkState {
  st_out : otree;              (* topFile *)
  st_seen : list rkey;         (* seenTableKeys *)
  st_arrays : list oarr;       (* openTableArrays *)
  st_key : rkey;               (* currentTableKey *)
  st_tab : option ptr }.       (* currentTable; None: key-values go to topFile *)

Definition init : state := mkState (OStruct []) [] [] [] None.

Definition mem_key (k : rkey) (l : list rkey) : bool := existsb (rkey_eqb k) l.

(* findArray *)
Fixpoint find_array (k : rkey) (l : list oarr) : option oarr :=
  match l with
  | [] => None
  | a :: r => if rkey_eqb (oa_key a) k then Some a else find_array k r
  end.

Fixpoint find_array_idx (k : rkey) (l : list oarr) (i : nat) : option nat :=
  match l with
  | [] => None
  | a :: r => if rkey_eqb (oa_key a) k then Some i else find_array_idx k r (S i)
  end.

(* the longest open array whose key is a proper prefix of k (first one of maximal level) *)
Fixpoint longest_prefix (k : rkey) (l : list oarr) (i : nat) (best : option (nat * oarr))
  : option (nat * oarr) :=
  match l with
  | [] => best
  | a :: r =>
    let lvl := match best with Some (_, b) => oa_level b | None => O end in
    if proper_prefix (oa_key a) k && Nat.ltb lvl (oa_level a)
    then longest_prefix k r (S i) (Some (i, a)) else longest_prefix k r (S i) best
  end.

(* What findArrayPrefix returns: no array, or the array at index i of the
   (possibly pruned) slice openTableArrays.  On an exact match the arrays below
   the key are removed with slices.DeleteFunc, which moves the elements of the
   slice, and the matched array is then looked up again (findArray), so the
   result always is the array with that key. *)
Inductive found := FNone | FSome (i : nat) (a : oarr).

(* findArrayPrefix: on an exact match the arrays and the seen keys below it are forgotten *)
Definition find_array_prefix (k : rkey) (arrays : list oarr) (seen : list rkey)
  : found * list oarr * list rkey :=
  match find_array_idx k arrays O with
  | Some _ =>
    let arrays2 := filter (fun b => negb (proper_prefix k (oa_key b))) arrays in
    (match find_array_idx k arrays2 O with
     | Some j => match nth_error arrays2 j with Some a => FSome j a | None => FNone end
     | None => FNone
     end,
     arrays2,
     filter (fun s => negb (proper_prefix k s)) seen)
  | None =>
    (match longest_prefix k arrays O None with Some (i, a) => FSome i a | None => FNone end,
     arrays, seen)
  end.

Definition key_of (p : list str) : rkey := map SName p.

(* decodeExpr / decodeField *)
Fixpoint decode_expr (arrays : list oarr) (rk : rkey) (v : value) (seen : list rkey)
  : result (list rkey * otree) :=
  match v with
  | VLeaf l => Ok (seen, OLeaf l)
  | VArray vs =>
    (fix go (vs : list value) (i : nat) (seen : list rkey) (acc : list otree) :=
       match vs with
       | [] => Ok (seen, OList (rev acc))
       | x :: r =>
         match decode_expr arrays (rk ++ [SIdx i]) x seen with
         | Ok (s', t) => go r (S i) s' (t :: acc)
         | Err e => Err e
         end
       end) vs O seen []
  | VInline fs =>
    (fix go (fs : list (list str * value)) (seen : list rkey) (acc : list (str * otree)) :=
       match fs with
       | [] => Ok (seen, OStruct (rev acc))
       | (p, x) :: r =>
         let rk' := rk ++ key_of p in
         match find_array rk' arrays with
         | Some _ => Err ERedeclArrayAsTable
         | None =>
           if mem_key rk' seen then Err EDup
           else match decode_expr arrays rk' x (rk' :: seen) with
                | Ok (s', t) => go r s' (chain p t :: acc)
                | Err e => Err e
                end
         end
       end) fs seen []
  end.

Definition decode_field (arrays : list oarr) (rk : rkey) (p : list str) (v : value) (seen : list rkey)
  : result (list rkey * (str * otree)) :=
  let rk' := rk ++ key_of p in
  match find_array rk' arrays with
  | Some _ => Err ERedeclArrayAsTable
  | None =>
    if mem_key rk' seen then Err EDup
    else match decode_expr arrays rk' v (rk' :: seen) with
         | Ok (s', t) => Ok (s', chain p t)
         | Err e => Err e
         end
  end.

Definition tab_ptr (s : state) : ptr := match st_tab s with Some p => p | None => [] end.

(* pointer to the value of the leaf field of a chain appended to the struct at p *)
Definition chain_leaf_ptr (p : ptr) (w : nat) (len : nat) : ptr :=
  p ++ w :: repeat O (len - 1).

(* array.lastTable = d.currentTable, through the pointer into the slice *)
Definition update_arr (i : nat) (last : ptr) (l : list oarr) : list oarr :=
  match nth_error l i with
  | Some a => set_nth i (mkArr (oa_key a) (oa_level a) (oa_list a) last) l
  | None => l
  end.

(* nextRootNode *)
Definition step (s : state) (e : event) : result state :=
  match e with
  | EKeyValue p v =>
    match decode_field (st_arrays s) (st_key s) p v (st_seen s) with
    | Err e => Err e
    | Ok (seen2, f) =>
      Ok (mkState (append_field (tab_ptr s) f (st_out s)) seen2 (st_arrays s) (st_key s) (st_tab s))
    end
  | ETable p =>
    let key := key_of p in
    if mem_key key (st_seen s) then Err EDup else
    let seen1 := key :: st_seen s in
    match find_array_prefix key (st_arrays s) seen1 with
    | (FSome _ a, arrays2, seen2) =>
      if rkey_eqb (oa_key a) key then Err ERedeclArrayAsTable else
      let sub := skipn (oa_level a) p in
      let w := width (oa_last a) (st_out s) in
      Ok (mkState (append_field (oa_last a) (chain sub (OStruct [])) (st_out s))
                  seen2 arrays2 key (Some (chain_leaf_ptr (oa_last a) w (length sub))))
    | (FNone, arrays2, seen2) =>
      let w := width [] (st_out s) in
      Ok (mkState (append_field [] (chain p (OStruct [])) (st_out s))
                  seen2 arrays2 key (Some (chain_leaf_ptr [] w (length p))))
    end
  | EArrayTable p =>
    let key := key_of p in
    if mem_key key (st_seen s) then Err ERedeclAsArray else
    match find_array_prefix key (st_arrays s) (st_seen s) with
    | (FSome i a, arrays2, seen2) =>
      if Nat.eqb (oa_level a) (length p) then
        (* [[last_array]]: append an element *)
        let n := width (oa_list a) (st_out s) in
        let cur := oa_list a ++ [n] in
        Ok (mkState (append_elem (oa_list a) (OStruct []) (st_out s))
                    seen2 (update_arr i cur arrays2) (key ++ [SIdx n]) (Some cur))
      else
        (* [[last_array.new_array]] *)
        let sub := skipn (oa_level a) p in
        let w := width (oa_last a) (st_out s) in
        let lp := chain_leaf_ptr (oa_last a) w (length sub) in
        Ok (mkState (append_field (oa_last a) (chain sub (OList [OStruct []])) (st_out s))
                    seen2 (arrays2 ++ [mkArr key (length p) lp (lp ++ [O])])
                    (key ++ [SIdx O]) (Some (lp ++ [O])))
    | (FNone, arrays2, seen2) =>
      let w := width [] (st_out s) in
      let lp := chain_leaf_ptr [] w (length p) in
      Ok (mkState (append_field [] (chain p (OList [OStruct []])) (st_out s))
                  seen2 (arrays2 ++ [mkArr key (length p) lp (lp ++ [O])])
                  (key ++ [SIdx O]) (Some (lp ++ [O])))
    end
  end.

Fixpoint run (s : state) (es : list event) : result state :=
  match es with
  | [] => Ok s
  | e :: r => match step s e with Ok s' => run s' r | Err x => Err x end
  end.

Definition decode (es : list event) : result otree :=
  match run init es with Ok s => Ok (st_out s) | Err e => Err e end.

(* ------------------------------------------------------------------ *)
(* what CUE makes of the tree: declarations with equal labels unify    *)

Inductive data :=
| DLeaf (l : leaf)
| DList (es : list data)
| DStruct (fs : list (str * data)).

Definition leaf_eqb (a b : leaf) : bool := N.eqb a b.

(* unification of two concrete data values; None = conflict.  [fuel] bounds the depth. *)
Section Unify.
  Variable u : data -> data -> option data.

  Fixpoint unify_lists (xs ys : list data) : option (list data) :=
    match xs, ys with
    | [], [] => Some []
    | x :: xr, y :: yr =>
      match u x y, unify_lists xr yr with
      | Some z, Some zr => Some (z :: zr)
      | _, _ => None
      end
    | _, _ => None
    end.

  (* unify v into the field k of acc; Some None: no such field *)
  Fixpoint upd_field (k : str) (v : data) (acc : list (str * data)) : option (option (list (str * data))) :=
    match acc with
    | [] => Some None
    | (k2, v2) :: ar =>
      if str_eqb k2 k then
        match u v2 v with
        | Some z => Some (Some ((k2, z) :: ar))
        | None => None
        end
      else match upd_field k v ar with
           | Some (Some ar2) => Some (Some ((k2, v2) :: ar2))
           | Some None => Some None
           | None => None
           end
    end.

  Definition add_field (k : str) (v : data) (acc : list (str * data)) : option (list (str * data)) :=
    match upd_field k v acc with
    | None => None
    | Some (Some acc2) => Some acc2
    | Some None => Some (acc ++ [(k, v)])
    end.

  Fixpoint merge_fields (ys acc : list (str * data)) : option (list (str * data)) :=
    match ys with
    | [] => Some acc
    | (k, v) :: yr =>
      match add_field k v acc with
      | Some acc2 => merge_fields yr acc2
      | None => None
      end
    end.
End Unify.

Fixpoint unify (fuel : nat) (a b : data) : option data :=
  match fuel with
  | O => None
  | S f =>
    match a, b with
    | DLeaf x, DLeaf y => if leaf_eqb x y then Some a else None
    | DList xs, DList ys =>
      match unify_lists (unify f) xs ys with Some l => Some (DList l) | None => None end
    | DStruct xs, DStruct ys =>
      match merge_fields (unify f) ys xs with Some l => Some (DStruct l) | None => None end
    | _, _ => None
    end
  end.

Definition opt_map {A B} (f : A -> B) (o : option A) : option B :=
  match o with Some a => Some (f a) | None => None end.

(* evaluation of the syntax tree *)
Fixpoint eval (fuel : nat) (t : otree) : option data :=
  match t with
  | OLeaf l => Some (DLeaf l)
  | OList es =>
    opt_map DList
      ((fix go (es : list otree) : option (list data) :=
          match es with
          | [] => Some []
          | x :: r => match eval fuel x, go r with
                      | Some d, Some dr => Some (d :: dr)
                      | _, _ => None
                      end
          end) es)
  | OStruct fs =>
    opt_map DStruct
      ((fix go (fs : list (str * otree)) (acc : list (str * data)) : option (list (str * data)) :=
          match fs with
          | [] => Some acc
          | (k, x) :: r =>
            match eval fuel x with
            | Some d => match add_field (unify fuel) k d acc with
                        | Some acc2 => go r acc2
                        | None => None
                        end
            | None => None
            end
          end) fs [])
  end.
