(* C12: canonical event sequences of data trees (the layout TOML encoders
   write: key-values first, then [tables], then [[arrays of tables]]), and the
   proof that the decoder reads the flat fragment back. *)
From Verif Require Import Toml.Decode Toml.Proofs.
From Coq Require Import List NArith Bool Arith Lia.
Import ListNotations.

(* ------------------------------------------------------------------ *)
(* general canonical layout (used as documentation of what the structured
   generator of the harness produces; no theorem about the nested case) *)

Fixpoint to_value (d : data) : value :=
  match d with
  | DLeaf l => VLeaf l
  | DList es => VArray (map to_value es)
  | DStruct fs => VInline (map (fun f => ([fst f], to_value (snd f))) fs)
  end.

Definition is_struct (d : data) : bool := match d with DStruct _ => true | _ => false end.
Definition is_table_array (d : data) : bool :=
  match d with DList (e :: es) => forallb is_struct (e :: es) | _ => false end.

(* events of the table whose header path is [p]; [fuel] bounds the depth *)
Fixpoint emit_table (fuel : nat) (p : list str) (fs : list (str * data)) : list event :=
  match fuel with
  | O => []
  | S f =>
    flat_map (fun kv => if is_struct (snd kv) || is_table_array (snd kv) then []
                        else [EKeyValue [fst kv] (to_value (snd kv))]) fs ++
    flat_map (fun kv => match snd kv with
                        | DStruct sub => ETable (p ++ [fst kv]) :: emit_table f (p ++ [fst kv]) sub
                        | _ => []
                        end) fs ++
    flat_map (fun kv => if is_table_array (snd kv) then
                          match snd kv with
                          | DList es =>
                            flat_map (fun e => match e with
                                               | DStruct sub => EArrayTable (p ++ [fst kv]) :: emit_table f (p ++ [fst kv]) sub
                                               | _ => []
                                               end) es
                          | _ => []
                          end
                        else []) fs
  end.

Definition emit (fuel : nat) (d : data) : list event :=
  match d with DStruct fs => emit_table fuel [] fs | _ => [] end.

(* ------------------------------------------------------------------ *)
(* the flat fragment: root scalars, then tables of scalars             *)

Record flat_doc := mkFlat {
  fd_root : list (str * leaf);
  fd_tables : list (str * list (str * leaf)) }.

Definition kv_events (fs : list (str * leaf)) : list event :=
  map (fun f => EKeyValue [fst f] (VLeaf (snd f))) fs.

Definition emit_flat (d : flat_doc) : list event :=
  kv_events (fd_root d) ++ flat_map (fun t => ETable [fst t] :: kv_events (snd t)) (fd_tables d).

Definition leaf_fields (fs : list (str * leaf)) : list (str * otree) :=
  map (fun f => (fst f, OLeaf (snd f))) fs.

Definition tree_flat (d : flat_doc) : otree :=
  OStruct (leaf_fields (fd_root d) ++ map (fun t => (fst t, OStruct (leaf_fields (snd t)))) (fd_tables d)).

(* toml-safe: no key twice in a table, table names distinct from each other and from the root keys *)
Definition flat_safe (d : flat_doc) : Prop :=
  NoDup (map fst (fd_root d) ++ map fst (fd_tables d)) /\
  Forall (fun t => NoDup (map fst (snd t))) (fd_tables d).

(* ------------------------------------------------------------------ *)

Lemma rkey_snoc_neq : forall a x y, rkey_eqb (a ++ [SName x]) (a ++ [SName y]) = true -> x = y.
Proof.
  intros a x y H. apply rkey_eqb_eq in H. apply app_inv_head in H. injection H as ->. reflexivity.
Qed.

Lemma fold_append_root : forall fs F,
  fold_left (fun o f => append_field [] (fst f, OLeaf (snd f)) o) fs (OStruct F) =
  OStruct (F ++ leaf_fields fs).
Proof.
  induction fs as [|f fs IH]; intro F.
  - cbn. rewrite app_nil_r. reflexivity.
  - cbn [fold_left append_field leaf_fields map]. rewrite IH. rewrite <- app_assoc. reflexivity.
Qed.

Lemma nth_error_last : forall (A : Type) (F : list A) x, nth_error (F ++ [x]) (length F) = Some x.
Proof. induction F; intro x; cbn; auto. Qed.

Lemma set_nth_last : forall (A : Type) (F : list A) x y, set_nth (length F) y (F ++ [x]) = F ++ [y].
Proof. induction F; intros x y; cbn; [reflexivity|]. rewrite IHF. reflexivity. Qed.

Lemma append_field_last : forall F t fs0 f,
  append_field [length F] f (OStruct (F ++ [(t, OStruct fs0)])) = OStruct (F ++ [(t, OStruct (fs0 ++ [f]))]).
Proof.
  intros. cbn [append_field]. rewrite nth_error_last. rewrite set_nth_last. reflexivity.
Qed.

Lemma fold_append_last : forall fs F t fs0,
  fold_left (fun o f => append_field [length F] (fst f, OLeaf (snd f)) o) fs (OStruct (F ++ [(t, OStruct fs0)])) =
  OStruct (F ++ [(t, OStruct (fs0 ++ leaf_fields fs))]).
Proof.
  induction fs as [|f fs IH]; intros F t fs0.
  - cbn. rewrite app_nil_r. reflexivity.
  - cbn [fold_left leaf_fields map]. rewrite append_field_last. rewrite IH. rewrite <- app_assoc. reflexivity.
Qed.

(* key-values of leaves in the current table *)
Lemma run_kvs : forall fs s,
  st_arrays s = [] -> NoDup (map fst fs) ->
  (forall k, In k (map fst fs) -> mem_key (st_key s ++ [SName k]) (st_seen s) = false) ->
  run s (kv_events fs) =
  Ok (mkState (fold_left (fun o f => append_field (tab_ptr s) (fst f, OLeaf (snd f)) o) fs (st_out s))
              (rev (map (fun f => st_key s ++ [SName (fst f)]) fs) ++ st_seen s)
              [] (st_key s) (st_tab s)).
Proof.
  induction fs as [|[k l] fs IH]; intros s Ha Hnd Hfresh.
  - cbn. destruct s; cbn in *. subst. reflexivity.
  - inversion Hnd as [|? ? Hnotin Hnd2]; subst.
    cbn [kv_events map run step fst snd]. unfold decode_field. rewrite Ha. cbn [find_array key_of map].
    rewrite (Hfresh k) by (left; reflexivity).
    cbn [decode_expr chain].
    set (s1 := mkState (append_field (tab_ptr s) (k, OLeaf l) (st_out s))
                       ((st_key s ++ [SName k]) :: st_seen s) [] (st_key s) (st_tab s)).
    fold (kv_events fs).
    rewrite (IH s1); [| reflexivity | exact Hnd2 |].
    + unfold s1. cbn [st_out st_seen st_key st_tab tab_ptr fold_left map rev fst snd].
      unfold tab_ptr. rewrite <- app_assoc. reflexivity.
    + intros k2 Hin. unfold s1. cbn [st_key st_seen]. rewrite mem_key_cons.
      rewrite (Hfresh k2) by (right; exact Hin). rewrite orb_false_r.
      destruct (rkey_eqb (st_key s ++ [SName k2]) (st_key s ++ [SName k])) eqn:E; [|reflexivity].
      apply rkey_snoc_neq in E. subst k2. contradiction.
Qed.

(* every seen key starts with a name from [names] *)
Definition seen_under (names : list str) (S : list rkey) : Prop :=
  forall k, In k S -> exists x rest, In x names /\ k = SName x :: rest.

Lemma mem_key_in : forall k S, mem_key k S = true -> In k S.
Proof.
  intros k S H. unfold mem_key in H. apply existsb_exists in H. destruct H as [x [Hin He]].
  apply rkey_eqb_eq in He. subst. exact Hin.
Qed.

Lemma fresh_not_seen : forall names S t rest,
  seen_under names S -> ~ In t names -> mem_key (SName t :: rest) S = false.
Proof.
  intros names S t rest Hu Hn. destruct (mem_key (SName t :: rest) S) eqn:E; [|reflexivity].
  apply mem_key_in in E. destruct (Hu _ E) as [x [r2 [Hin Heq]]]. injection Heq as -> _. contradiction.
Qed.

(* the tables, one after the other *)
Lemma run_tables : forall tables F S names key tab,
  seen_under names S ->
  NoDup (names ++ map fst tables) ->
  Forall (fun t => NoDup (map fst (snd t))) tables ->
  exists S2 key2 tab2,
    run (mkState (OStruct F) S [] key tab)
        (flat_map (fun t => ETable [fst t] :: kv_events (snd t)) tables) =
    Ok (mkState (OStruct (F ++ map (fun t => (fst t, OStruct (leaf_fields (snd t)))) tables)) S2 [] key2 tab2).
Proof.
  induction tables as [|[t fs] tables IH]; intros F S names key tab Hu Hnd Hall.
  - cbn. rewrite app_nil_r. eauto.
  - inversion Hall as [|? ? Hfs Hall2]; subst. cbn [fst snd] in *.
    assert (Htfresh : ~ In t names).
    { intro Hin. apply NoDup_remove_2 in Hnd. apply Hnd. apply in_or_app. left. exact Hin. }
    cbn [flat_map fst snd]. rewrite <- app_comm_cons. cbn [run step st_seen st_arrays st_out].
    cbn [key_of map].
    rewrite (fresh_not_seen names S t [] Hu Htfresh).
    unfold find_array_prefix. cbn [find_array_idx longest_prefix].
    unfold width. cbn [node_at]. unfold chain_leaf_ptr. cbn [app length repeat Nat.sub chain append_field].
    rewrite run_app.
    rewrite (run_kvs fs); [| reflexivity | exact Hfs |].
    2:{ intros k Hin. cbn [st_key st_seen app]. rewrite mem_key_cons.
        cbn [rkey_eqb seg_eqb]. rewrite andb_false_r. cbn [orb].
        apply (fresh_not_seen names S t [SName k] Hu Htfresh). }
    cbn [st_out st_seen st_key st_tab tab_ptr].
    rewrite fold_append_last. cbn [app].
    edestruct (IH (F ++ [(t, OStruct (leaf_fields fs))])
                  (rev (map (fun f => [SName t] ++ [SName (fst f)]) fs) ++ [SName t] :: S)
                  (names ++ [t]) [SName t] (Some [length F])) as [S2 [key2 [tab2 Hrun]]].
    + intros k Hin. apply in_app_or in Hin. destruct Hin as [Hin|Hin].
      * apply in_rev in Hin. apply in_map_iff in Hin. destruct Hin as [f [<- _]].
        exists t, [SName (fst f)]. split; [apply in_or_app; right; left; reflexivity|reflexivity].
      * destruct Hin as [<-|Hin].
        -- exists t, []. split; [apply in_or_app; right; left; reflexivity|reflexivity].
        -- destruct (Hu _ Hin) as [x [r2 [Hx ->]]]. exists x, r2. split; [apply in_or_app; left; exact Hx|reflexivity].
    + rewrite <- app_assoc. exact Hnd.
    + exact Hall2.
    + exists S2, key2, tab2. rewrite <- app_assoc in Hrun. exact Hrun.
Qed.

Lemma NoDup_app_l : forall (A : Type) (a b : list A), NoDup (a ++ b) -> NoDup a.
Proof.
  induction a as [|x a IH]; intros b H; [constructor|].
  inversion H; subst. constructor.
  - intro Hin. apply H2. apply in_or_app. left. exact Hin.
  - eapply IH; eauto.
Qed.

(* the decoder reads a flat toml-safe document back as written *)
Theorem decode_emit_flat : forall d, flat_safe d -> decode (emit_flat d) = Ok (tree_flat d).
Proof.
  intros [root tables] [Hnd Hall]. cbn [fd_root fd_tables] in *.
  unfold decode, emit_flat. cbn [fd_root fd_tables]. rewrite run_app.
  rewrite (run_kvs root init); [| reflexivity | eapply NoDup_app_l; exact Hnd | intros; reflexivity].
  cbn [init st_out st_seen st_key st_tab tab_ptr]. rewrite fold_append_root. cbn [app].
  edestruct (run_tables tables (leaf_fields root)
              (rev (map (fun f => [] ++ [SName (fst f)]) root) ++ []) (map fst root) [] None)
    as [S2 [key2 [tab2 Hrun]]].
  - intros k Hin. rewrite app_nil_r in Hin. apply in_rev in Hin. apply in_map_iff in Hin.
    destruct Hin as [f [<- Hf]]. exists (fst f), []. split; [apply in_map; exact Hf|reflexivity].
  - exact Hnd.
  - exact Hall.
  - match goal with |- context [run ?s ?e] =>
      replace (run s e) with (Ok (mkState (OStruct (leaf_fields root ++ map (fun t => (fst t, OStruct (leaf_fields (snd t)))) tables)) S2 [] key2 tab2))
        by (symmetry; exact Hrun) end.
    reflexivity.
Qed.

Lemma flat_safe_example :
  flat_safe (mkFlat [(ka, 1%N); (kb, 2%N)] [(kc, [(ka, 3%N)]); (kx, [])]) /\
  decode (emit_flat (mkFlat [(ka, 1%N); (kb, 2%N)] [(kc, [(ka, 3%N)]); (kx, [])])) =
  Ok (OStruct [(ka, OLeaf 1%N); (kb, OLeaf 2%N); (kc, OStruct [(ka, OLeaf 3%N)]); (kx, OStruct [])]).
Proof.
  split; [|vm_compute; reflexivity].
  split.
  - cbn. repeat constructor; cbn; intuition discriminate.
  - repeat constructor; cbn; intuition.
Qed.
