(* C12: decode o emit for ALL documents of the modelled data type, inline layout.

   [emit_inline d] writes a document as root key-values whose values are TOML
   arrays and inline tables (to_value); [decode] reads it back as exactly the
   tree of the document, for every document whose tables have no repeated key
   ([wf], a boolean predicate), by induction on the document tree.  [eval] (what
   CUE makes of the tree) gives the document back.

   Also: root key-values are decoded exactly as one inline table
   ([root_kvs_as_inline], all event lists incl. the failing ones). *)
From Verif Require Import Toml.Decode Toml.Proofs Toml.Emit.
From Coq Require Import List NArith Bool Arith Lia.
Import ListNotations.

(* ------------------------------------------------------------------ *)
(* the syntax tree of a document                                        *)

Fixpoint to_otree (d : data) : otree :=
  match d with
  | DLeaf l => OLeaf l
  | DList es => OList (map to_otree es)
  | DStruct fs => OStruct (map (fun f => (fst f, to_otree (snd f))) fs)
  end.

Fixpoint nodup_keys (ks : list str) : bool :=
  match ks with
  | [] => true
  | k :: r => negb (existsb (str_eqb k) r) && nodup_keys r
  end.

(* toml-safe: no table has a key twice (hereditarily) *)
Fixpoint wf (d : data) : bool :=
  match d with
  | DLeaf _ => true
  | DList es => forallb wf es
  | DStruct fs => nodup_keys (map fst fs) && forallb (fun f => wf (snd f)) fs
  end.

Definition emit_inline (d : data) : list event :=
  match d with
  | DStruct fs => map (fun f => EKeyValue [fst f] (to_value (snd f))) fs
  | _ => []
  end.

Section DataInd.
  Variable P : data -> Prop.
  Hypothesis Hleaf : forall l, P (DLeaf l).
  Hypothesis Hlist : forall es, Forall P es -> P (DList es).
  Hypothesis Hstruct : forall fs, Forall (fun f => P (snd f)) fs -> P (DStruct fs).

  Fixpoint data_ind2 (d : data) : P d :=
    match d with
    | DLeaf l => Hleaf l
    | DList es =>
      Hlist es ((fix go (es : list data) : Forall P es :=
                   match es with
                   | [] => Forall_nil _
                   | x :: r => Forall_cons _ (data_ind2 x) (go r)
                   end) es)
    | DStruct fs =>
      Hstruct fs ((fix go (fs : list (str * data)) : Forall (fun f => P (snd f)) fs :=
                     match fs with
                     | [] => Forall_nil _
                     | (k, x) :: r => Forall_cons (k, x) (data_ind2 x) (go r)
                     end) fs)
    end.
End DataInd.

(* ------------------------------------------------------------------ *)
(* prefixes of rooted keys, as propositions                             *)

Definition pe (p k : rkey) : Prop := exists r, k = p ++ r.            (* prefix or equal *)
Definition pp (p k : rkey) : Prop := exists x r, k = p ++ x :: r.     (* proper prefix *)

Lemma proper_prefix_pp : forall p k, proper_prefix p k = true -> pp p k.
Proof.
  induction p as [|x p IH]; intros k H.
  - destruct k as [|y k]; [discriminate|]. exists y, k. reflexivity.
  - destruct k as [|y k]; [discriminate|]. cbn in H. apply andb_true_iff in H. destruct H as [E H].
    apply seg_eqb_eq in E. subst y. destruct (IH _ H) as [z [r ->]]. exists z, r. reflexivity.
Qed.

Lemma pp_proper_prefix : forall p k, pp p k -> proper_prefix p k = true.
Proof.
  intros p k [x [r ->]]. induction p as [|y p IH]; [reflexivity|].
  cbn. rewrite seg_eqb_refl. exact IH.
Qed.

Lemma pp_irrefl : forall k, ~ pp k k.
Proof.
  intros k [x [r H]]. apply (f_equal (@length seg)) in H. rewrite app_length in H. cbn in H. lia.
Qed.

Lemma pp_pe : forall p k, pp p k -> pe p k.
Proof. intros p k [x [r ->]]. exists (x :: r). reflexivity. Qed.

Lemma mem_key_In : forall k S, mem_key k S = true -> In k S.
Proof.
  intros k S H. unfold mem_key in H. apply existsb_exists in H. destruct H as [x [Hin He]].
  apply rkey_eqb_eq in He. subst. exact Hin.
Qed.

Lemma not_In_mem_key : forall k S, ~ In k S -> mem_key k S = false.
Proof. intros k S H. destruct (mem_key k S) eqn:E; [|reflexivity]. apply mem_key_In in E. contradiction. Qed.

Lemma find_array_In : forall k l a, find_array k l = Some a -> In a l /\ oa_key a = k.
Proof.
  induction l as [|b l IH]; intros a H; [discriminate|]. cbn in H.
  destruct (rkey_eqb (oa_key b) k) eqn:E.
  - injection H as <-. split; [left; reflexivity|]. apply rkey_eqb_eq. exact E.
  - destruct (IH _ H) as [Hin Hk]. split; [right; exact Hin|exact Hk].
Qed.

(* a key below rk ++ [y] is none of the keys seen before (none of them is below rk)
   and none of those added under other segments *)
Lemma fresh_below : forall (rk : rkey) (seen cur : list rkey) (done : list seg) (y : seg),
  (forall s, In s seen -> ~ pp rk s) ->
  (forall s, In s cur -> In s seen \/ exists x r, In x done /\ s = rk ++ x :: r) ->
  ~ In y done ->
  forall s, In s cur -> ~ pe (rk ++ [y]) s.
Proof.
  intros rk seen cur done y Hseen Hinv Hy s Hin [r Hs].
  destruct (Hinv s Hin) as [H0|[x [r1 [Hx Hs1]]]].
  - apply (Hseen s H0). exists y, r. rewrite Hs, <- app_assoc. reflexivity.
  - rewrite Hs1 in Hs. rewrite <- app_assoc in Hs. apply app_inv_head in Hs. cbn in Hs.
    injection Hs as -> _. contradiction.
Qed.

Definition expr_ok (d : data) : Prop :=
  forall arrays rk seen,
    wf d = true ->
    (forall s, In s seen -> ~ pp rk s) ->
    (forall a, In a arrays -> ~ pp rk (oa_key a)) ->
    exists seen2,
      decode_expr arrays rk (to_value d) seen = Ok (seen2, to_otree d) /\
      (forall s, In s seen2 -> In s seen \/ pp rk s).

Lemma pp_snoc_trans : forall rk y s, pp (rk ++ [y]) s -> pp rk s.
Proof. intros rk y s [x [r ->]]. exists y, (x :: r). rewrite <- app_assoc. reflexivity. Qed.

Lemma arr_loop_ok : forall arrays rk seen es,
  Forall expr_ok es -> forallb wf es = true ->
  (forall s, In s seen -> ~ pp rk s) ->
  (forall a, In a arrays -> ~ pp rk (oa_key a)) ->
  forall i cur acc,
    (forall s, In s cur -> In s seen \/ exists x r, In x (map SIdx (seq 0 i)) /\ s = rk ++ x :: r) ->
    exists seen2,
      arr_loop arrays rk (map to_value es) i cur acc = Ok (seen2, OList (rev acc ++ map to_otree es)) /\
      (forall s, In s seen2 -> In s seen \/ pp rk s).
Proof.
  intros arrays rk seen es IH. induction IH as [|d es Hd _ IHes]; intros Hwf Hseen Harr i cur acc Hinv.
  - cbn. exists cur. split; [rewrite app_nil_r; reflexivity|].
    intros s Hs. destruct (Hinv s Hs) as [H|[x [r [_ ->]]]]; [left; exact H|right; exists x, r; reflexivity].
  - cbn [forallb] in Hwf. apply andb_true_iff in Hwf. destruct Hwf as [Hwd Hwes].
    cbn [map arr_loop].
    assert (Hy : ~ In (SIdx i) (map SIdx (seq 0 i))).
    { intro H. apply in_map_iff in H. destruct H as [j [Hj Hin]]. injection Hj as ->. apply in_seq in Hin. lia. }
    pose proof (fresh_below rk seen cur _ (SIdx i) Hseen Hinv Hy) as Hfresh.
    destruct (Hd arrays (rk ++ [SIdx i]) cur Hwd) as [s2 [E Hpost]].
    + intros s Hs Hpp. apply (Hfresh s Hs). apply pp_pe. exact Hpp.
    + intros a Ha Hpp. apply (Harr a Ha). eapply pp_snoc_trans. exact Hpp.
    + rewrite E. destruct (IHes Hwes Hseen Harr (S i) s2 (to_otree d :: acc)) as [s3 [E3 Hpost3]].
      * intros s Hs. destruct (Hpost s Hs) as [Hc|[x [r ->]]].
        -- destruct (Hinv s Hc) as [H|[x [r [Hx ->]]]]; [left; exact H|].
           right. exists x, r. split; [|reflexivity].
           rewrite seq_S, map_app. apply in_or_app. left. exact Hx.
        -- right. exists (SIdx i), (x :: r). split; [|rewrite <- app_assoc; reflexivity].
           rewrite seq_S, map_app. apply in_or_app. right. left. reflexivity.
      * exists s3. split; [|exact Hpost3]. rewrite E3. cbn [rev]. rewrite <- app_assoc. reflexivity.
Qed.

Lemma nodup_keys_cons : forall k ks, nodup_keys (k :: ks) = true -> ~ In k ks /\ nodup_keys ks = true.
Proof.
  intros k ks H. cbn in H. apply andb_true_iff in H. destruct H as [H1 H2]. split; [|exact H2].
  intro Hin. apply negb_true_iff in H1. assert (existsb (str_eqb k) ks = true); [|congruence].
  apply existsb_exists. exists k. split; [exact Hin|apply str_eqb_refl].
Qed.

Lemma inl_loop_ok : forall arrays rk seen fs,
  Forall (fun f => expr_ok (snd f)) fs ->
  forallb (fun f => wf (snd f)) fs = true ->
  (forall s, In s seen -> ~ pp rk s) ->
  (forall a, In a arrays -> ~ pp rk (oa_key a)) ->
  forall done cur acc,
    nodup_keys (map fst fs) = true ->
    (forall k, In k (map fst fs) -> ~ In (SName k) done) ->
    (forall s, In s cur -> In s seen \/ exists x r, In x done /\ s = rk ++ x :: r) ->
    exists seen2,
      inl_loop arrays rk (map (fun f => ([fst f], to_value (snd f))) fs) cur acc =
      Ok (seen2, OStruct (rev acc ++ map (fun f => (fst f, to_otree (snd f))) fs)) /\
      (forall s, In s seen2 -> In s seen \/ pp rk s).
Proof.
  intros arrays rk seen fs IH. induction IH as [|[k d] fs Hd _ IHfs];
    intros Hwf Hseen Harr done cur acc Hnd Hdone Hinv.
  - cbn. exists cur. split; [rewrite app_nil_r; reflexivity|].
    intros s Hs. destruct (Hinv s Hs) as [H|[x [r [_ ->]]]]; [left; exact H|right; exists x, r; reflexivity].
  - cbn [forallb snd] in Hwf. apply andb_true_iff in Hwf. destruct Hwf as [Hwd Hwfs].
    cbn [map fst] in Hnd. apply nodup_keys_cons in Hnd. destruct Hnd as [Hk Hnd].
    cbn [map inl_loop fst snd key_of].
    assert (Hy : ~ In (SName k) done) by (apply Hdone; left; reflexivity).
    pose proof (fresh_below rk seen cur done (SName k) Hseen Hinv Hy) as Hfresh.
    destruct (find_array (rk ++ [SName k]) arrays) as [a|] eqn:Ef.
    { exfalso. apply find_array_In in Ef. destruct Ef as [Hin Hkey]. apply (Harr a Hin).
      rewrite Hkey. exists (SName k), []. reflexivity. }
    rewrite not_In_mem_key.
    2:{ intro Hin. apply (Hfresh _ Hin). exists []. rewrite app_nil_r. reflexivity. }
    cbn [snd] in Hd.
    destruct (Hd arrays (rk ++ [SName k]) ((rk ++ [SName k]) :: cur) Hwd) as [s2 [E Hpost]].
    + intros s [<-|Hs] Hpp; [exact (pp_irrefl _ Hpp)|]. apply (Hfresh s Hs). apply pp_pe. exact Hpp.
    + intros a Ha Hpp. apply (Harr a Ha). eapply pp_snoc_trans. exact Hpp.
    + rewrite E. cbn [chain].
      destruct (IHfs Hwfs Hseen Harr (SName k :: done) s2 ((k, to_otree d) :: acc) Hnd) as [s3 [E3 Hpost3]].
      * intros k2 Hk2 [Heq|Hin]; [injection Heq as ->; contradiction|].
        apply (Hdone k2); [right; exact Hk2|exact Hin].
      * intros s Hs. destruct (Hpost s Hs) as [[<-|Hc]|[x [r ->]]].
        -- right. exists (SName k), []. split; [left; reflexivity|reflexivity].
        -- destruct (Hinv s Hc) as [H|[x [r [Hx ->]]]]; [left; exact H|].
           right. exists x, r. split; [right; exact Hx|reflexivity].
        -- right. exists (SName k), (x :: r). split; [left; reflexivity|rewrite <- app_assoc; reflexivity].
      * exists s3. split; [|exact Hpost3]. rewrite E3. cbn [rev]. rewrite <- app_assoc. reflexivity.
Qed.

(* decodeExpr reads the value of every toml-safe document back as its tree, below any
   rooted key under which nothing has been seen yet; the keys it records are below rk *)
Theorem decode_expr_to_value : forall d, expr_ok d.
Proof.
  induction d as [l|es IH|fs IH] using data_ind2; intros arrays rk seen Hwf Hseen Harr.
  - exists seen. split; [reflexivity|]. intros s Hs. left. exact Hs.
  - cbn [to_value to_otree]. rewrite decode_expr_array.
    destruct (arr_loop_ok arrays rk seen es IH Hwf Hseen Harr O seen []) as [s2 [E Hp]].
    + intros s Hs. left. exact Hs.
    + exists s2. split; [exact E|exact Hp].
  - cbn [to_value to_otree wf] in *. apply andb_true_iff in Hwf. destruct Hwf as [Hnd Hwf].
    rewrite decode_expr_inline.
    destruct (inl_loop_ok arrays rk seen fs IH Hwf Hseen Harr [] seen [] Hnd) as [s2 [E Hp]].
    + intros k _ H. exact H.
    + intros s Hs. left. exact Hs.
    + exists s2. split; [exact E|exact Hp].
Qed.

(* ------------------------------------------------------------------ *)
(* root key-values are decoded exactly as one inline table              *)

Lemma run_root_kvs : forall fs seen acc,
  match inl_loop [] [] fs seen acc with
  | Ok (s2, t) => run (mkState (OStruct (rev acc)) seen [] [] None) (map (fun f => EKeyValue (fst f) (snd f)) fs)
                  = Ok (mkState t s2 [] [] None)
  | Err e => run (mkState (OStruct (rev acc)) seen [] [] None) (map (fun f => EKeyValue (fst f) (snd f)) fs) = Err e
  end.
Proof.
  induction fs as [|[p v] fs IH]; intros seen acc.
  - reflexivity.
  - cbn [inl_loop map run step fst snd st_arrays st_key st_seen st_out st_tab find_array app].
    unfold decode_field. cbn [find_array app].
    destruct (mem_key (key_of p) seen); [cbv beta iota; reflexivity|].
    destruct (decode_expr _ _ _ _) as [[s2 t]|e]; [|cbv beta iota zeta; reflexivity].
    specialize (IH s2 (chain p t :: acc)). cbn [rev] in IH.
    cbv beta iota zeta. cbn [tab_ptr st_tab append_field]. exact IH.
Qed.

Theorem root_kvs_as_inline : forall fs,
  decode (map (fun f => EKeyValue (fst f) (snd f)) fs) =
  match decode_expr [] [] (VInline fs) [] with
  | Ok (_, t) => Ok t
  | Err e => Err e
  end.
Proof.
  intro fs. unfold decode, init. rewrite decode_expr_inline.
  pose proof (run_root_kvs fs [] []) as H. cbn [rev] in H.
  revert H. destruct (inl_loop [] [] fs [] []) as [[s2 t]|e]; intro H; rewrite H; reflexivity.
Qed.

(* decode o emit, inline layout, all toml-safe documents *)
Theorem decode_emit_inline : forall fs,
  wf (DStruct fs) = true -> decode (emit_inline (DStruct fs)) = Ok (to_otree (DStruct fs)).
Proof.
  intros fs Hwf. cbn [emit_inline].
  replace (map (fun f => EKeyValue [fst f] (to_value (snd f))) fs)
    with (map (fun f : list str * value => EKeyValue (fst f) (snd f))
              (map (fun f => ([fst f], to_value (snd f))) fs))
    by (rewrite map_map; reflexivity).
  rewrite root_kvs_as_inline.
  destruct (decode_expr_to_value (DStruct fs) [] [] [] Hwf) as [s2 [E _]].
  - intros s [].
  - intros a [].
  - cbn [to_value] in E. rewrite E. reflexivity.
Qed.

(* ------------------------------------------------------------------ *)
(* what CUE makes of the tree of a toml-safe document is the document  *)

Lemma upd_field_fresh : forall u k v acc,
  ~ In k (map fst acc) -> upd_field u k v acc = Some None.
Proof.
  induction acc as [|[k2 v2] acc IH]; intro H; [reflexivity|].
  cbn [upd_field]. destruct (str_eqb k2 k) eqn:E.
  - apply str_eqb_eq in E. subst. exfalso. apply H. left. reflexivity.
  - rewrite IH; [reflexivity|]. intro Hin. apply H. right. exact Hin.
Qed.

Definition eval_fields (fuel : nat) :=
  fix go (fs : list (str * otree)) (acc : list (str * data)) : option (list (str * data)) :=
    match fs with
    | [] => Some acc
    | (k, x) :: r =>
      match eval fuel x with
      | Some d => match add_field (unify fuel) k d acc with
                  | Some acc2 => go r acc2
                  | None => None
                  end
      | None => None
      end
    end.

Definition eval_elems (fuel : nat) :=
  fix go (es : list otree) : option (list data) :=
    match es with
    | [] => Some []
    | x :: r => match eval fuel x, go r with
                | Some d, Some dr => Some (d :: dr)
                | _, _ => None
                end
    end.

Lemma eval_struct : forall fuel fs, eval fuel (OStruct fs) = opt_map DStruct (eval_fields fuel fs []).
Proof. reflexivity. Qed.
Lemma eval_list : forall fuel es, eval fuel (OList es) = opt_map DList (eval_elems fuel es).
Proof. reflexivity. Qed.

Theorem eval_to_otree : forall fuel d, wf d = true -> eval fuel (to_otree d) = Some d.
Proof.
  intros fuel d. induction d as [l|es IH|fs IH] using data_ind2; intro Hwf.
  - reflexivity.
  - cbn [to_otree]. rewrite eval_list.
    assert (H : eval_elems fuel (map to_otree es) = Some es).
    { cbn [wf] in Hwf. induction IH as [|d es Hd _ IHes]; [reflexivity|].
      cbn [forallb] in Hwf. apply andb_true_iff in Hwf. destruct Hwf as [H1 H2].
      cbn [map eval_elems]. rewrite (Hd H1).
      change (match eval_elems fuel (map to_otree es) with Some dr => Some (d :: dr) | None => None end = Some (d :: es)).
      rewrite (IHes H2). reflexivity. }
    rewrite H. reflexivity.
  - cbn [to_otree]. rewrite eval_struct. cbn [wf] in Hwf. apply andb_true_iff in Hwf. destruct Hwf as [Hnd Hwf].
    assert (H : forall acc, (forall k, In k (map fst fs) -> ~ In k (map fst acc)) ->
                eval_fields fuel (map (fun f => (fst f, to_otree (snd f))) fs) acc = Some (acc ++ fs)).
    { induction IH as [|[k d] fs Hd _ IHfs]; intros acc Hdisj.
      - cbn. rewrite app_nil_r. reflexivity.
      - cbn [forallb snd] in Hwf. apply andb_true_iff in Hwf. destruct Hwf as [H1 H2].
        cbn [map fst] in Hnd. apply nodup_keys_cons in Hnd. destruct Hnd as [Hk Hnd].
        cbn [map eval_fields fst snd]. cbn [snd] in Hd. rewrite (Hd H1).
        unfold add_field. rewrite upd_field_fresh by (apply Hdisj; left; reflexivity).
        rewrite (IHfs Hnd H2).
        + rewrite <- app_assoc. reflexivity.
        + intros k2 Hk2 Hin. rewrite map_app in Hin. apply in_app_or in Hin. destruct Hin as [Hin|[<-|[]]].
          * apply (Hdisj k2); [right; exact Hk2|exact Hin].
          * contradiction. }
    rewrite H by (intros k _ []). reflexivity.
Qed.

(* ------------------------------------------------------------------ *)
(* wf is a decidable, compositional predicate                           *)

Lemma wf_struct_cons : forall k d fs,
  wf (DStruct ((k, d) :: fs)) = negb (existsb (str_eqb k) (map fst fs)) && wf d && wf (DStruct fs).
Proof.
  intros. cbn [wf map fst snd nodup_keys forallb].
  destruct (negb (existsb (str_eqb k) (map fst fs))), (nodup_keys (map fst fs)), (wf d); reflexivity.
Qed.

Lemma wf_list_app : forall a b, wf (DList (a ++ b)) = wf (DList a) && wf (DList b).
Proof. intros. cbn [wf]. apply forallb_app. Qed.

Lemma wf_field : forall fs k d, wf (DStruct fs) = true -> In (k, d) fs -> wf d = true.
Proof.
  intros fs k d H Hin. cbn [wf] in H. apply andb_true_iff in H. destruct H as [_ H].
  rewrite forallb_forall in H. exact (H _ Hin).
Qed.

Lemma wf_elem : forall es d, wf (DList es) = true -> In d es -> wf d = true.
Proof. intros es d H Hin. cbn [wf] in H. rewrite forallb_forall in H. exact (H _ Hin). Qed.

Example decode_emit_inline_example :
  let d := [(ka, DLeaf 1%N); (kb, DList [DStruct [(ka, DLeaf 2%N); (kx, DList [])]; DStruct []]);
            (kc, DStruct [(ka, DStruct [(ka, DLeaf 3%N)])])] in
  wf (DStruct d) = true /\
  decode (emit_inline (DStruct d)) = Ok (to_otree (DStruct d)) /\
  eval 0 (to_otree (DStruct d)) = Some (DStruct d).
Proof. vm_compute. repeat split. Qed.

(* a repeated key is never merged silently *)
Example decode_emit_inline_dup_rejected :
  wf (DStruct [(ka, DLeaf 1%N); (ka, DLeaf 1%N)]) = false /\
  decode (emit_inline (DStruct [(ka, DLeaf 1%N); (ka, DLeaf 1%N)])) = Err EDup.
Proof. vm_compute. split; reflexivity. Qed.

(* ------------------------------------------------------------------ *)
(* whole histories: a key that has been seen stays seen until an array  *)
(* of tables ABOVE it starts a new element; so a table defined twice is  *)
(* an error wherever the second header comes, never a silent merge       *)

Definition purges (k : rkey) (e : event) : bool :=
  match e with
  | EArrayTable q | ETable q => proper_prefix (key_of q) k
  | EKeyValue _ _ => false
  end.

Lemma find_array_prefix_keeps : forall key arrays seen f arrays2 seen2 k,
  find_array_prefix key arrays seen = (f, arrays2, seen2) ->
  proper_prefix key k = false ->
  mem_key k seen = true -> mem_key k seen2 = true.
Proof.
  intros key arrays seen f arrays2 seen2 k H Hp Hm. unfold find_array_prefix in H.
  destruct (find_array_idx key arrays 0).
  - injection H as _ _ <-. apply mem_key_filter; auto. rewrite Hp. reflexivity.
  - injection H as _ _ <-. auto.
Qed.

Lemma step_seen_persist : forall s e s2 k,
  step s e = Ok s2 -> purges k e = false ->
  mem_key k (st_seen s) = true -> mem_key k (st_seen s2) = true.
Proof.
  intros s e s2 k H Hp Hm. destruct e as [p v|p|p]; cbn [step purges] in *.
  - unfold decode_field in H.
    destruct (find_array (st_key s ++ key_of p) (st_arrays s)); [discriminate|].
    destruct (mem_key (st_key s ++ key_of p) (st_seen s)); [discriminate|].
    destruct (decode_expr _ _ _ _) as [[s3 t]|e] eqn:E; [|discriminate].
    injection H as <-. cbn [st_seen].
    eapply decode_expr_seen_mono; [exact E|]. rewrite mem_key_cons, Hm. apply orb_true_r.
  - destruct (mem_key (key_of p) (st_seen s)); [discriminate|].
    destruct (find_array_prefix (key_of p) (st_arrays s) (key_of p :: st_seen s)) as [[f a2] seen2] eqn:F.
    assert (Hk : mem_key k seen2 = true).
    { eapply find_array_prefix_keeps; [exact F|exact Hp|]. rewrite mem_key_cons, Hm. apply orb_true_r. }
    destruct f as [|i a].
    + injection H as <-. exact Hk.
    + destruct (rkey_eqb (oa_key a) (key_of p)); [discriminate|]. injection H as <-. exact Hk.
  - destruct (mem_key (key_of p) (st_seen s)); [discriminate|].
    destruct (find_array_prefix (key_of p) (st_arrays s) (st_seen s)) as [[f a2] seen2] eqn:F.
    assert (Hk : mem_key k seen2 = true).
    { eapply find_array_prefix_keeps; [exact F|exact Hp|exact Hm]. }
    destruct f as [|i a].
    + injection H as <-. exact Hk.
    + destruct (Nat.eqb (oa_level a) (length p)); injection H as <-; exact Hk.
Qed.

Lemma run_seen_persist : forall es s s2 k,
  run s es = Ok s2 -> forallb (fun e => negb (purges k e)) es = true ->
  mem_key k (st_seen s) = true -> mem_key k (st_seen s2) = true.
Proof.
  induction es as [|e es IH]; intros s s2 k H Hp Hm.
  - cbn in H. injection H as <-. exact Hm.
  - cbn [run] in H. cbn [forallb] in Hp. apply andb_true_iff in Hp. destruct Hp as [Hp1 Hp2].
    apply negb_true_iff in Hp1.
    destruct (step s e) as [s1|x] eqn:E; [|discriminate].
    eapply IH; [exact H|exact Hp2|]. eapply step_seen_persist; eauto.
Qed.

(* [p] ... [p]: whatever comes before, between (no header of an array above p) and after,
   the document is never accepted *)
Theorem table_twice_never_accepted : forall es1 p es2 es3 (closing : event),
  (closing = ETable p \/ closing = EArrayTable p) ->
  forallb (fun e => negb (purges (key_of p) e)) es2 = true ->
  forall t, decode (es1 ++ ETable p :: es2 ++ closing :: es3) <> Ok t.
Proof.
  intros es1 p es2 es3 closing Hc Hp t. unfold decode. rewrite run_app.
  destruct (run init es1) as [s0|x]; [|discriminate].
  cbn [run]. destruct (step s0 (ETable p)) as [s1|x] eqn:E1; [|discriminate].
  rewrite run_app. destruct (run s1 es2) as [s2|x] eqn:E2; [|discriminate].
  assert (Hm : mem_key (key_of p) (st_seen s2) = true).
  { eapply run_seen_persist; [exact E2|exact Hp|]. eapply table_seen. exact E1. }
  cbn [run]. destruct Hc as [-> | ->]; cbn [step]; rewrite Hm; discriminate.
Qed.

(* the condition cannot be dropped: a new element of an array above p makes [p] fresh again *)
Example table_twice_in_two_elements_accepted :
  decode [EArrayTable [ka]; ETable [ka; kb]; EArrayTable [ka]; ETable [ka; kb]] =
  Ok (OStruct [(ka, OList [OStruct [(kb, OStruct [])]; OStruct [(kb, OStruct [])]])]).
Proof. vm_compute. reflexivity. Qed.
