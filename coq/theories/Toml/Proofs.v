(* Proofs about the C12 model (Toml/Decode.v). *)
From Verif Require Import Toml.Decode.
From Coq Require Import List NArith Bool Arith Lia.
Import ListNotations.

(* ------------------------------------------------------------------ *)
(* keys                                                               *)

Lemma str_eqb_refl : forall a, str_eqb a a = true.
Proof. induction a; simpl; auto. rewrite N.eqb_refl. auto. Qed.

Lemma str_eqb_eq : forall a b, str_eqb a b = true -> a = b.
Proof.
  induction a; destruct b; simpl; intro H; try discriminate; auto.
  apply andb_true_iff in H. destruct H as [H1 H2]. apply N.eqb_eq in H1. f_equal; auto.
Qed.

Lemma seg_eqb_refl : forall a, seg_eqb a a = true.
Proof. destruct a; simpl; [apply str_eqb_refl|apply Nat.eqb_refl]. Qed.

Lemma seg_eqb_eq : forall a b, seg_eqb a b = true -> a = b.
Proof.
  destruct a, b; simpl; intro H; try discriminate.
  - f_equal. apply str_eqb_eq; auto.
  - f_equal. apply Nat.eqb_eq; auto.
Qed.

Lemma rkey_eqb_refl : forall a, rkey_eqb a a = true.
Proof. induction a; simpl; auto. rewrite seg_eqb_refl. auto. Qed.

Lemma rkey_eqb_eq : forall a b, rkey_eqb a b = true -> a = b.
Proof.
  induction a; destruct b; simpl; intro H; try discriminate; auto.
  apply andb_true_iff in H. destruct H as [H1 H2]. f_equal; [apply seg_eqb_eq|]; auto.
Qed.

Lemma rkey_eqb_length : forall a b, rkey_eqb a b = true -> length a = length b.
Proof. intros a b H. apply rkey_eqb_eq in H. subst. reflexivity. Qed.

Lemma proper_prefix_irrefl : forall k, proper_prefix k k = false.
Proof. induction k; simpl; auto. rewrite seg_eqb_refl. auto. Qed.

Lemma proper_prefix_length : forall p k, proper_prefix p k = true -> (length p < length k)%nat.
Proof.
  induction p; destruct k; simpl; intro H; try discriminate; try lia.
  apply andb_true_iff in H. destruct H as [_ H]. apply IHp in H. lia.
Qed.

Lemma mem_key_cons : forall k x l, mem_key k (x :: l) = rkey_eqb k x || mem_key k l.
Proof. reflexivity. Qed.

Lemma mem_key_filter : forall k (f : rkey -> bool) l,
  f k = true -> mem_key k l = true -> mem_key k (filter f l) = true.
Proof.
  intros k f l Hf H. unfold mem_key in *. apply existsb_exists in H. destruct H as [x [Hin He]].
  apply rkey_eqb_eq in He. subst x. apply existsb_exists. exists k. split.
  - apply filter_In. auto.
  - apply rkey_eqb_refl.
Qed.

(* ------------------------------------------------------------------ *)
(* duplicate tables are rejected                                      *)

Lemma find_array_prefix_seen : forall key arrays seen f arrays2 seen2,
  find_array_prefix key arrays seen = (f, arrays2, seen2) ->
  mem_key key seen = true -> mem_key key seen2 = true.
Proof.
  intros key arrays seen f arrays2 seen2 H Hm. unfold find_array_prefix in H.
  destruct (find_array_idx key arrays 0).
  - injection H as _ _ <-. apply mem_key_filter; auto. rewrite proper_prefix_irrefl. reflexivity.
  - injection H as _ _ <-. auto.
Qed.

Lemma table_seen : forall s p s2, step s (ETable p) = Ok s2 -> mem_key (key_of p) (st_seen s2) = true.
Proof.
  intros s p s2 H. cbn [step] in H.
  destruct (mem_key (key_of p) (st_seen s)) eqn:E; [discriminate|].
  destruct (find_array_prefix (key_of p) (st_arrays s) (key_of p :: st_seen s)) as [[f arrays2] seen2] eqn:F.
  assert (Hs : mem_key (key_of p) seen2 = true).
  { eapply find_array_prefix_seen; eauto. rewrite mem_key_cons, rkey_eqb_refl. reflexivity. }
  destruct f as [|i a].
  - injection H as <-. exact Hs.
  - destruct (rkey_eqb (oa_key a) (key_of p)); [discriminate|].
    injection H as <-. exact Hs.
Qed.

(* a table header that has been accepted is rejected as a duplicate when it comes again,
   whatever the state was *)
Theorem duplicate_table_rejected : forall s p s2,
  step s (ETable p) = Ok s2 -> step s2 (ETable p) = Err EDup.
Proof.
  intros s p s2 H. apply table_seen in H. cbn [step]. rewrite H. reflexivity.
Qed.

(* ... and an array-of-tables header for the same key is rejected as well *)
Theorem table_then_array_rejected : forall s p s2,
  step s (ETable p) = Ok s2 -> step s2 (EArrayTable p) = Err ERedeclAsArray.
Proof.
  intros s p s2 H. apply table_seen in H. cbn [step]. rewrite H. reflexivity.
Qed.

(* ------------------------------------------------------------------ *)
(* induction over values                                              *)

Section ValueInd.
  Variable P : value -> Prop.
  Hypothesis Hleaf : forall l, P (VLeaf l).
  Hypothesis Harr : forall vs, Forall P vs -> P (VArray vs).
  Hypothesis Hinl : forall fs, Forall (fun pv => P (snd pv)) fs -> P (VInline fs).

  Fixpoint value_ind2 (v : value) : P v :=
    match v with
    | VLeaf l => Hleaf l
    | VArray vs =>
      Harr vs ((fix go (vs : list value) : Forall P vs :=
                  match vs with
                  | [] => Forall_nil _
                  | x :: r => Forall_cons _ (value_ind2 x) (go r)
                  end) vs)
    | VInline fs =>
      Hinl fs ((fix go (fs : list (list str * value)) : Forall (fun pv => P (snd pv)) fs :=
                  match fs with
                  | [] => Forall_nil _
                  | (p, x) :: r => Forall_cons (p, x) (value_ind2 x) (go r)
                  end) fs)
    end.
End ValueInd.

(* the loops of decode_expr, named *)
Fixpoint arr_loop (arrays : list oarr) (rk : rkey) (vs : list value) (i : nat) (seen : list rkey)
         (acc : list otree) : result (list rkey * otree) :=
  match vs with
  | [] => Ok (seen, OList (rev acc))
  | x :: r =>
    match decode_expr arrays (rk ++ [SIdx i]) x seen with
    | Ok (s2, t) => arr_loop arrays rk r (S i) s2 (t :: acc)
    | Err e => Err e
    end
  end.

Fixpoint inl_loop (arrays : list oarr) (rk : rkey) (fs : list (list str * value)) (seen : list rkey)
         (acc : list (str * otree)) : result (list rkey * otree) :=
  match fs with
  | [] => Ok (seen, OStruct (rev acc))
  | (p, x) :: r =>
    let rk2 := rk ++ key_of p in
    match find_array rk2 arrays with
    | Some _ => Err ERedeclArrayAsTable
    | None =>
      if mem_key rk2 seen then Err EDup
      else match decode_expr arrays rk2 x (rk2 :: seen) with
           | Ok (s2, t) => inl_loop arrays rk r s2 (chain p t :: acc)
           | Err e => Err e
           end
    end
  end.

Lemma decode_expr_array : forall arrays rk vs seen,
  decode_expr arrays rk (VArray vs) seen = arr_loop arrays rk vs O seen [].
Proof.
  intros. cbn [decode_expr]. generalize (@nil otree) as acc. generalize O as i. revert seen.
  induction vs as [|x r IH]; intros seen i acc; [reflexivity|].
  cbn [arr_loop]. destruct (decode_expr arrays (rk ++ [SIdx i]) x seen) as [[s2 t]|e]; [apply IH|reflexivity].
Qed.

Lemma decode_expr_inline : forall arrays rk fs seen,
  decode_expr arrays rk (VInline fs) seen = inl_loop arrays rk fs seen [].
Proof.
  intros. cbn [decode_expr]. generalize (@nil (str * otree)) as acc. revert seen.
  induction fs as [|[p x] r IH]; intros seen acc; [reflexivity|].
  cbn [inl_loop]. destruct (find_array (rk ++ key_of p) arrays); [reflexivity|].
  destruct (mem_key (rk ++ key_of p) seen); [reflexivity|].
  destruct (decode_expr arrays (rk ++ key_of p) x ((rk ++ key_of p) :: seen)) as [[s2 t]|e]; [apply IH|reflexivity].
Qed.

(* decodeExpr only adds to the seen keys *)
Lemma decode_expr_seen_mono : forall arrays v rk seen s2 t,
  decode_expr arrays rk v seen = Ok (s2, t) ->
  forall k, mem_key k seen = true -> mem_key k s2 = true.
Proof.
  intros arrays v. induction v as [l|vs IHvs|fs IHfs] using value_ind2; intros rk seen s2 t H k Hk.
  - cbn in H. injection H as <- _. exact Hk.
  - rewrite decode_expr_array in H. revert H. generalize (@nil otree) as acc. generalize O as i.
    revert seen Hk. induction vs as [|x r IH]; intros seen Hk i acc Hd.
    + cbn in Hd. injection Hd as <- _. exact Hk.
    + cbn [arr_loop] in Hd. inversion IHvs as [|? ? H3 H4]; subst.
      destruct (decode_expr arrays (rk ++ [SIdx i]) x seen) as [[s3 t3]|e] eqn:E; [|discriminate].
      eapply (IH H4 s3); [|exact Hd]. eapply H3; eauto.
  - rewrite decode_expr_inline in H. revert H. generalize (@nil (str * otree)) as acc.
    revert seen Hk. induction fs as [|[p x] r IH]; intros seen Hk acc Hd.
    + cbn in Hd. injection Hd as <- _. exact Hk.
    + cbn [inl_loop] in Hd. inversion IHfs as [|? ? H3 H4]; subst. cbn [snd] in *.
      destruct (find_array (rk ++ key_of p) arrays); [discriminate|].
      destruct (mem_key (rk ++ key_of p) seen); [discriminate|].
      destruct (decode_expr arrays (rk ++ key_of p) x ((rk ++ key_of p) :: seen)) as [[s3 t3]|e] eqn:E; [|discriminate].
      eapply (IH H4 s3); [|exact Hd]. eapply H3; eauto.
      rewrite mem_key_cons, Hk. apply orb_true_r.
Qed.

(* a key that has been assigned cannot be assigned again in the same table *)
Theorem duplicate_key_rejected : forall s p v v2 s2,
  step s (EKeyValue p v) = Ok s2 -> step s2 (EKeyValue p v2) = Err EDup.
Proof.
  intros s p v v2 s2 H. cbn [step] in *. unfold decode_field in *.
  destruct (find_array (st_key s ++ key_of p) (st_arrays s)) eqn:Ef; [discriminate|].
  destruct (mem_key (st_key s ++ key_of p) (st_seen s)) eqn:Em; [discriminate|].
  destruct (decode_expr (st_arrays s) (st_key s ++ key_of p) v ((st_key s ++ key_of p) :: st_seen s))
    as [[s3 t]|e] eqn:Ed; [|discriminate].
  injection H as <-. cbn [st_key st_arrays st_seen]. rewrite Ef.
  rewrite (decode_expr_seen_mono _ _ _ _ _ _ Ed); [reflexivity|].
  rewrite mem_key_cons, rkey_eqb_refl. reflexivity.
Qed.

(* ------------------------------------------------------------------ *)
(* chains and pointers                                                *)

Lemma run_app : forall a b s,
  run s (a ++ b) = match run s a with Ok s2 => run s2 b | Err e => Err e end.
Proof.
  induction a as [|e a IH]; intros b s; [reflexivity|].
  cbn [app run]. destruct (step s e); [apply IH|reflexivity].
Qed.

Lemma repeat_snoc : forall (A : Type) (x : A) n, repeat x (S n) = repeat x n ++ [x].
Proof. induction n; [reflexivity|]. cbn [repeat app] in *. rewrite <- IHn. reflexivity. Qed.

Definition lp (p : list str) : ptr := repeat O (length p).

Lemma lp_cons : forall k r, lp (k :: r) = O :: lp r.
Proof. reflexivity. Qed.

Lemma chain_leaf_ptr_root : forall p, p <> [] -> chain_leaf_ptr [] O (length p) = lp p.
Proof.
  intros p H. destruct p as [|k r]; [congruence|]. unfold chain_leaf_ptr, lp. cbn [length app repeat].
  replace (S (length r) - 1)%nat with (length r) by lia. reflexivity.
Qed.

Lemma chain_cons2 : forall k k2 r t, chain (k :: k2 :: r) t = (k, OStruct [chain (k2 :: r) t]).
Proof. reflexivity. Qed.

Lemma node_at_chain : forall p X, p <> [] -> node_at (lp p) (OStruct [chain p X]) = Some X.
Proof.
  induction p as [|k r IH]; intros X H; [congruence|].
  destruct r as [|k2 r2].
  - reflexivity.
  - rewrite chain_cons2, lp_cons. cbn [node_at nth_error]. apply IH. discriminate.
Qed.

Lemma append_elem_cons0 : forall q e k sub,
  append_elem (O :: q) e (OStruct [(k, sub)]) = OStruct [(k, append_elem q e sub)].
Proof. reflexivity. Qed.

Lemma append_field_cons0 : forall q f k sub,
  append_field (O :: q) f (OStruct [(k, sub)]) = OStruct [(k, append_field q f sub)].
Proof. reflexivity. Qed.

Lemma append_elem_chain : forall p e es, p <> [] ->
  append_elem (lp p) e (OStruct [chain p (OList es)]) = OStruct [chain p (OList (es ++ [e]))].
Proof.
  induction p as [|k r IH]; intros e es H; [congruence|].
  destruct r as [|k2 r2].
  - reflexivity.
  - rewrite !chain_cons2, lp_cons, append_elem_cons0. rewrite IH by discriminate. reflexivity.
Qed.

Lemma append_field_chain : forall p f fs, p <> [] ->
  append_field (lp p) f (OStruct [chain p (OStruct fs)]) = OStruct [chain p (OStruct (fs ++ [f]))].
Proof.
  induction p as [|k r IH]; intros f fs H; [congruence|].
  destruct r as [|k2 r2].
  - reflexivity.
  - rewrite !chain_cons2, lp_cons, append_field_cons0. rewrite IH by discriminate. reflexivity.
Qed.

Lemma chain_app : forall p q t, p <> [] -> q <> [] -> chain (p ++ q) t = chain p (OStruct [chain q t]).
Proof.
  induction p as [|k r IH]; intros q t Hp Hq; [congruence|].
  destruct r as [|k2 r2].
  - cbn [app]. destruct q as [|k3 q3]; [congruence|]. reflexivity.
  - change ((k :: k2 :: r2) ++ q) with (k :: k2 :: (r2 ++ q)). rewrite !chain_cons2.
    change (k2 :: r2 ++ q) with ((k2 :: r2) ++ q). rewrite IH by (auto; discriminate). reflexivity.
Qed.

Lemma key_of_app : forall p q, key_of (p ++ q) = key_of p ++ key_of q.
Proof. intros. unfold key_of. apply map_app. Qed.

Lemma key_of_length : forall p, length (key_of p) = length p.
Proof. intros. unfold key_of. apply map_length. Qed.

(* ------------------------------------------------------------------ *)
(* [[p]] repeated: every header appends one table to the same list    *)

Definition array_state (p : list str) (n : nat) : state :=
  mkState (OStruct [chain p (OList (repeat (OStruct []) (S n)))]) []
          [mkArr (key_of p) (length p) (lp p) (lp p ++ [n])]
          (key_of p ++ [SIdx n]) (Some (lp p ++ [n])).

Theorem array_table_append : forall p n, p <> [] ->
  run init (repeat (EArrayTable p) (S n)) = Ok (array_state p n).
Proof.
  intros p n Hp. induction n as [|n IH].
  - cbn [repeat run step init st_seen st_arrays st_out mem_key existsb find_array_prefix find_array_idx longest_prefix].
    unfold width. cbn [node_at length]. rewrite chain_leaf_ptr_root by auto. reflexivity.
  - rewrite repeat_snoc, run_app, IH. cbn [run].
    unfold array_state. cbn [step st_seen st_arrays st_out mem_key existsb].
    unfold find_array_prefix. cbn [find_array_idx oa_key]. rewrite rkey_eqb_refl.
    cbn [filter oa_key]. rewrite proper_prefix_irrefl. cbn [negb find_array_idx oa_key].
    rewrite rkey_eqb_refl. cbn [nth_error oa_level oa_list].
    rewrite Nat.eqb_refl.
    unfold width. rewrite node_at_chain by auto. rewrite repeat_length.
    rewrite append_elem_chain by auto. rewrite <- repeat_snoc.
    unfold update_arr. cbn [nth_error set_nth oa_key oa_level oa_list]. reflexivity.
Qed.

(* a key-value after the header lands in the table the header has just appended *)
Theorem array_table_current : forall p n k l, p <> [] ->
  step (array_state p n) (EKeyValue [k] (VLeaf l)) =
  Ok (mkState (append_field (lp p ++ [n]) (k, OLeaf l) (st_out (array_state p n)))
              [key_of p ++ [SIdx n; SName k]]
              (st_arrays (array_state p n)) (key_of p ++ [SIdx n]) (Some (lp p ++ [n]))).
Proof.
  intros p n k l Hp. unfold array_state. cbn [step st_key st_arrays st_seen st_tab st_out tab_ptr].
  unfold decode_field. cbn [find_array oa_key key_of map].
  replace (rkey_eqb (key_of p) ((key_of p ++ [SIdx n]) ++ [SName k])) with false.
  2:{ symmetry. destruct (rkey_eqb (key_of p) ((key_of p ++ [SIdx n]) ++ [SName k])) eqn:E; [|reflexivity].
      apply rkey_eqb_length in E. rewrite !app_length in E. cbn in E. lia. }
  cbn [mem_key existsb decode_expr chain]. rewrite <- app_assoc. reflexivity.
Qed.

(* ------------------------------------------------------------------ *)
(* findArrayPrefix returns an array at or above the key                 *)

Lemma find_array_idx_spec : forall k l i j,
  find_array_idx k l i = Some j -> exists a, nth_error l (j - i) = Some a /\ rkey_eqb (oa_key a) k = true /\ (i <= j)%nat.
Proof.
  induction l as [|a l IH]; intros i j H; [discriminate|].
  cbn [find_array_idx] in H. destruct (rkey_eqb (oa_key a) k) eqn:E.
  - injection H as <-. exists a. rewrite Nat.sub_diag. auto.
  - destruct (IH _ _ H) as [b [Hn [Hb Hle]]]. exists b.
    replace (j - i)%nat with (S (j - S i)) by lia. cbn. auto with arith.
Qed.

Lemma longest_prefix_spec : forall k l i best r,
  (forall j b, best = Some (j, b) -> proper_prefix (oa_key b) k = true) ->
  longest_prefix k l i best = Some r -> proper_prefix (oa_key (snd r)) k = true.
Proof.
  induction l as [|a l IH]; intros i best r Hb H.
  - cbn in H. destruct r as [j b]. eapply Hb. exact H.
  - cbn [longest_prefix] in H.
    destruct (proper_prefix (oa_key a) k && Nat.ltb match best with Some (_, b) => oa_level b | None => 0%nat end (oa_level a)) eqn:E.
    + eapply IH; [|exact H]. intros j b Hjb. injection Hjb as _ <-.
      apply andb_true_iff in E. tauto.
    + eapply IH; eauto.
Qed.

(* the array that findArrayPrefix hands out has the key itself or a proper prefix of it
   (before the fix of the slice aliasing it could be an unrelated array or a zeroed slot) *)
Theorem find_array_prefix_sound : forall k arrays seen i a arrays2 seen2,
  find_array_prefix k arrays seen = (FSome i a, arrays2, seen2) ->
  nth_error arrays2 i = Some a /\
  (rkey_eqb (oa_key a) k = true \/ proper_prefix (oa_key a) k = true).
Proof.
  intros k arrays seen i a arrays2 seen2 H. unfold find_array_prefix in H.
  destruct (find_array_idx k arrays 0).
  - set (f := filter (fun b => negb (proper_prefix k (oa_key b))) arrays) in *.
    destruct (find_array_idx k f 0) as [j|] eqn:E; [|discriminate].
    destruct (nth_error f j) as [b|] eqn:En; [|discriminate].
    injection H as <- <- <- _.
    destruct (find_array_idx_spec _ _ _ _ E) as [c [Hc [Hk _]]]. rewrite Nat.sub_0_r in Hc.
    rewrite En in Hc. injection Hc as <-. auto.
  - destruct (longest_prefix k arrays 0 None) as [[j b]|] eqn:E; [|discriminate].
    injection H as <- <- <- _. split.
    + (* the index: by induction over the search *)
      clear - E.
      assert (G : forall l i best jj bb,
                 (forall j0 b0, best = Some (j0, b0) -> (j0 < i)%nat) ->
                 longest_prefix k l i best = Some (jj, bb) ->
                 best = Some (jj, bb) \/ ((i <= jj)%nat /\ nth_error l (jj - i) = Some bb)).
      { induction l as [|a l IH]; intros i best jj bb Hb H.
        - cbn in H. left. exact H.
        - cbn [longest_prefix] in H.
          destruct (proper_prefix (oa_key a) k && Nat.ltb match best with Some (_, b0) => oa_level b0 | None => 0%nat end (oa_level a)).
          + destruct (IH (S i) (Some (i, a)) jj bb) as [Hx|[Hle Hn]].
            * intros j0 b0 Hj. injection Hj as <- <-. lia.
            * exact H.
            * injection Hx as <- <-. right. split; [lia|]. rewrite Nat.sub_diag. reflexivity.
            * right. split; [lia|]. replace (jj - i)%nat with (S (jj - S i)) by lia. exact Hn.
          + destruct (IH (S i) best jj bb) as [Hx|[Hle Hn]].
            * intros j0 b0 Hj. specialize (Hb _ _ Hj). lia.
            * exact H.
            * left. exact Hx.
            * right. split; [lia|]. replace (jj - i)%nat with (S (jj - S i)) by lia. exact Hn. }
      destruct (G arrays 0%nat None j b) as [Hx|[_ Hn]]; [intros; discriminate|exact E|discriminate|].
      rewrite Nat.sub_0_r in Hn. exact Hn.
    + right. apply (longest_prefix_spec k arrays 0%nat None (j, b)); [intros; discriminate|exact E].
Qed.

(* ------------------------------------------------------------------ *)
(* table arrays declared after one of their sub-arrays (invalid TOML the
   decoder does not detect itself; regression cases of C12-toml-decoder-panic) *)

Definition ka : str := [97%N]. Definition kb : str := [98%N]. Definition kc : str := [99%N].
Definition kx : str := [120%N].

(* [[a.b]] [[a]] [[a]] : a gets its second element; CUE then sees a table and a list for a *)
Theorem sub_array_first_appends :
  decode [EArrayTable [ka; kb]; EArrayTable [ka]; EArrayTable [ka]] =
  Ok (OStruct [(ka, OStruct [(kb, OList [OStruct []])]); (ka, OList [OStruct []; OStruct []])]) /\
  eval 8 (OStruct [(ka, OStruct [(kb, OList [OStruct []])]); (ka, OList [OStruct []; OStruct []])]) = None.
Proof. split; vm_compute; reflexivity. Qed.

(* [[a.b]] [[a]] [[c]] [[a]] x = 1 : the second [[a]] appends to a, and x lands there *)
Theorem sub_array_first_keeps_arrays_apart :
  decode [EArrayTable [ka; kb]; EArrayTable [ka]; EArrayTable [kc]; EArrayTable [ka];
          EKeyValue [kx] (VLeaf 1%N)] =
  Ok (OStruct [(ka, OStruct [(kb, OList [OStruct []])]);
               (ka, OList [OStruct []; OStruct [(kx, OLeaf 1%N)]]);
               (kc, OList [OStruct []])]).
Proof. vm_compute. reflexivity. Qed.

(* ------------------------------------------------------------------ *)
(* decodeExpr depends on the seen keys only below its own rooted key   *)

Fixpoint is_prefix (p k : rkey) : bool :=
  match p, k with
  | [], _ => true
  | x :: p2, y :: k2 => seg_eqb x y && is_prefix p2 k2
  | _ :: _, [] => false
  end.

Lemma is_prefix_app : forall a b, is_prefix a (a ++ b) = true.
Proof. induction a; intro b; simpl; auto. rewrite seg_eqb_refl. cbn. auto. Qed.

Lemma is_prefix_trans : forall a b c, is_prefix a b = true -> is_prefix b c = true -> is_prefix a c = true.
Proof.
  induction a; intros b c H1 H2; [reflexivity|].
  destruct b as [|y b]; [discriminate|]. destruct c as [|z c]; [discriminate|].
  cbn in *. apply andb_true_iff in H1. destruct H1 as [E1 H1]. apply andb_true_iff in H2. destruct H2 as [E2 H2].
  apply seg_eqb_eq in E1. apply seg_eqb_eq in E2. subst. rewrite seg_eqb_refl. cbn. eapply IHa; eauto.
Qed.

Lemma is_prefix_length : forall a b, is_prefix a b = true -> (length a <= length b)%nat.
Proof.
  induction a; intros b H; [cbn; lia|]. destruct b; [discriminate|].
  cbn in H. apply andb_true_iff in H. destruct H as [_ H]. apply IHa in H. cbn. lia.
Qed.

Definition agree (rk : rkey) (s1 s2 : list rkey) : Prop :=
  forall k, is_prefix rk k = true -> mem_key k s1 = mem_key k s2.

Lemma mem_key_app : forall k a b, mem_key k (a ++ b) = mem_key k a || mem_key k b.
Proof. intros. unfold mem_key. apply existsb_app. Qed.

Lemma agree_app : forall rk added s1 s2, agree rk s1 s2 -> agree rk (added ++ s1) (added ++ s2).
Proof. intros rk added s1 s2 H k Hk. rewrite !mem_key_app. rewrite (H k Hk). reflexivity. Qed.

Lemma agree_sub : forall rk rk2 s1 s2, is_prefix rk rk2 = true -> agree rk s1 s2 -> agree rk2 s1 s2.
Proof. intros rk rk2 s1 s2 Hp H k Hk. apply H. eapply is_prefix_trans; eauto. Qed.

Definition same_outcome (rk : rkey) (s1 s2 : list rkey) (r1 r2 : result (list rkey * otree)) : Prop :=
  match r1 with
  | Ok (s1b, t) => exists added, s1b = added ++ s1 /\ r2 = Ok (added ++ s2, t)
  | Err e => r2 = Err e
  end.

Lemma decode_expr_agree : forall arrays v rk s1 s2,
  agree rk s1 s2 ->
  same_outcome rk s1 s2 (decode_expr arrays rk v s1) (decode_expr arrays rk v s2).
Proof.
  intros arrays v. induction v as [l|vs IHvs|fs IHfs] using value_ind2; intros rk s1 s2 Ha.
  - cbn. exists []. split; reflexivity.
  - rewrite !decode_expr_array.
    assert (G : forall i acc added0,
               same_outcome rk s1 s2 (arr_loop arrays rk vs i (added0 ++ s1) acc)
                                      (arr_loop arrays rk vs i (added0 ++ s2) acc)).
    { induction vs as [|x r IH]; intros i acc added0.
      - cbn. exists added0. split; reflexivity.
      - inversion IHvs as [|? ? H3 H4]; subst. cbn [arr_loop].
        specialize (H3 (rk ++ [SIdx i]) (added0 ++ s1) (added0 ++ s2)).
        assert (Hag : agree (rk ++ [SIdx i]) (added0 ++ s1) (added0 ++ s2)).
        { apply agree_app. eapply agree_sub; [apply is_prefix_app|exact Ha]. }
        specialize (H3 Hag). unfold same_outcome in H3.
        destruct (decode_expr arrays (rk ++ [SIdx i]) x (added0 ++ s1)) as [[s3 t3]|e].
        + destruct H3 as [added [-> ->]]. rewrite !app_assoc. apply IH. exact H4.
        + rewrite H3. reflexivity. }
    apply (G O [] []).
  - rewrite !decode_expr_inline.
    assert (G : forall acc added0,
               same_outcome rk s1 s2 (inl_loop arrays rk fs (added0 ++ s1) acc)
                                      (inl_loop arrays rk fs (added0 ++ s2) acc)).
    { induction fs as [|[p x] r IH]; intros acc added0.
      - cbn. exists added0. split; reflexivity.
      - inversion IHfs as [|? ? H3 H4]; subst. cbn [snd] in H3. cbn [inl_loop].
        destruct (find_array (rk ++ key_of p) arrays); [reflexivity|].
        assert (Hag0 : agree rk (added0 ++ s1) (added0 ++ s2)) by (apply agree_app; exact Ha).
        rewrite (Hag0 (rk ++ key_of p) (is_prefix_app _ _)).
        destruct (mem_key (rk ++ key_of p) (added0 ++ s2)); [reflexivity|].
        specialize (H3 (rk ++ key_of p) ((rk ++ key_of p) :: added0 ++ s1) ((rk ++ key_of p) :: added0 ++ s2)).
        assert (Hag : agree (rk ++ key_of p) ((rk ++ key_of p) :: added0 ++ s1) ((rk ++ key_of p) :: added0 ++ s2)).
        { change ((rk ++ key_of p) :: added0 ++ s1) with (([rk ++ key_of p] ++ added0) ++ s1).
          change ((rk ++ key_of p) :: added0 ++ s2) with (([rk ++ key_of p] ++ added0) ++ s2).
          apply agree_app. eapply agree_sub; [apply is_prefix_app|exact Ha]. }
        specialize (H3 Hag). unfold same_outcome in H3.
        destruct (decode_expr arrays (rk ++ key_of p) x ((rk ++ key_of p) :: added0 ++ s1)) as [[s3 t3]|e].
        + destruct H3 as [added [-> ->]].
          change (added ++ (rk ++ key_of p) :: added0 ++ s1) with (added ++ [rk ++ key_of p] ++ added0 ++ s1).
          change (added ++ (rk ++ key_of p) :: added0 ++ s2) with (added ++ [rk ++ key_of p] ++ added0 ++ s2).
          rewrite !app_assoc. rewrite <- !app_assoc. rewrite !app_assoc.
          replace (((added ++ [rk ++ key_of p]) ++ added0) ++ s1) with ((added ++ [rk ++ key_of p] ++ added0) ++ s1)
            by (rewrite <- !app_assoc; reflexivity).
          replace (((added ++ [rk ++ key_of p]) ++ added0) ++ s2) with ((added ++ [rk ++ key_of p] ++ added0) ++ s2)
            by (rewrite <- !app_assoc; reflexivity).
          apply IH. exact H4.
        + rewrite H3. reflexivity. }
    apply (G [] []).
Qed.

(* ------------------------------------------------------------------ *)
(* dotted keys, table headers and inline tables                       *)

Definition tree_of (r : result state) : result otree :=
  match r with Ok s => Ok (st_out s) | Err e => Err e end.

(* a.b.c = v    ==    [a] b.c = v    ==    a = { b.c = v }
   The three spellings give the same syntax tree (or the same error). *)
Lemma dotted_form : forall p q v, p <> [] -> q <> [] ->
  decode [EKeyValue (p ++ q) v] =
  match decode_expr [] (key_of p ++ key_of q) v [key_of p ++ key_of q] with
  | Ok (_, t) => Ok (OStruct [chain p (OStruct [chain q t])])
  | Err e => Err e
  end.
Proof.
  intros p q v Hp Hq.
  unfold decode. cbn [run step init st_key st_arrays st_seen st_tab st_out tab_ptr].
  unfold decode_field. cbn [find_array app mem_key existsb]. rewrite key_of_app.
  unfold rkey in *.
  match goal with |- context [decode_expr ?a ?b ?c ?d] => destruct (decode_expr a b c d) as [[s3 t]|e] end;
    [|reflexivity].
  cbn [st_out append_field app]. rewrite chain_app by auto. reflexivity.
Qed.

Lemma table_form : forall p q v, p <> [] -> q <> [] ->
  decode [ETable p; EKeyValue q v] =
  match decode_expr [] (key_of p ++ key_of q) v [key_of p ++ key_of q; key_of p] with
  | Ok (_, t) => Ok (OStruct [chain p (OStruct [chain q t])])
  | Err e => Err e
  end.
Proof.
  intros p q v Hp Hq.
  assert (Hne : rkey_eqb (key_of p ++ key_of q) (key_of p) = false).
  { destruct (rkey_eqb (key_of p ++ key_of q) (key_of p)) eqn:E; [|reflexivity].
    apply rkey_eqb_length in E. rewrite app_length, !key_of_length in E.
    destruct q; [congruence|]. cbn in E. lia. }
  unfold decode.
  cbn [run step init st_key st_arrays st_seen st_tab st_out mem_key existsb].
  unfold find_array_prefix. cbn [find_array_idx longest_prefix filter].
  cbn [st_key st_arrays st_seen st_tab st_out tab_ptr].
  unfold decode_field. cbn [find_array].
  rewrite mem_key_cons, Hne. cbn [mem_key existsb orb].
  unfold width. cbn [node_at length]. rewrite chain_leaf_ptr_root by auto.
  unfold rkey in *.
  match goal with |- context [decode_expr ?a ?b ?c ?d] => destruct (decode_expr a b c d) as [[s3 t]|e] end;
    [|reflexivity].
  cbn [st_out append_field app]. rewrite append_field_chain by auto. reflexivity.
Qed.

Lemma inline_form : forall p q v, p <> [] -> q <> [] ->
  decode [EKeyValue p (VInline [(q, v)])] =
  match decode_expr [] (key_of p ++ key_of q) v [key_of p ++ key_of q; key_of p] with
  | Ok (_, t) => Ok (OStruct [chain p (OStruct [chain q t])])
  | Err e => Err e
  end.
Proof.
  intros p q v Hp Hq.
  assert (Hne : rkey_eqb (key_of p ++ key_of q) (key_of p) = false).
  { destruct (rkey_eqb (key_of p ++ key_of q) (key_of p)) eqn:E; [|reflexivity].
    apply rkey_eqb_length in E. rewrite app_length, !key_of_length in E.
    destruct q; [congruence|]. cbn in E. lia. }
  unfold decode. cbn [run step init st_key st_arrays st_seen st_tab st_out tab_ptr].
  unfold decode_field. cbn [find_array app mem_key existsb].
  rewrite decode_expr_inline. cbn [inl_loop find_array].
  rewrite mem_key_cons, Hne. cbn [mem_key existsb orb].
  unfold rkey in *.
  match goal with |- context [decode_expr ?a ?b ?c ?d] => destruct (decode_expr a b c d) as [[s3 t]|e] end;
    [|reflexivity].
  cbn [inl_loop rev app st_out append_field]. reflexivity.
Qed.

(* a.b.c = v    ==    [a] b.c = v    ==    a = { b.c = v }
   The three spellings give the same syntax tree (or the same error). *)
Theorem decode_dotted_equiv : forall p q v, p <> [] -> q <> [] ->
  decode [ETable p; EKeyValue q v] = decode [EKeyValue (p ++ q) v] /\
  decode [EKeyValue p (VInline [(q, v)])] = decode [EKeyValue (p ++ q) v].
Proof.
  intros p q v Hp Hq.
  assert (Hag : agree (key_of p ++ key_of q) [key_of p ++ key_of q] [key_of p ++ key_of q; key_of p]).
  { intros k Hk. rewrite !mem_key_cons. cbn [mem_key existsb]. rewrite orb_false_r.
    replace (rkey_eqb k (key_of p)) with false; [rewrite orb_false_r; reflexivity|].
    symmetry. destruct (rkey_eqb k (key_of p)) eqn:E; [|reflexivity].
    apply rkey_eqb_length in E. apply is_prefix_length in Hk.
    rewrite app_length, !key_of_length in Hk. rewrite key_of_length in E.
    destruct q; [congruence|]. cbn in Hk. lia. }
  pose proof (decode_expr_agree [] v (key_of p ++ key_of q) _ _ Hag) as Hsame.
  unfold same_outcome in Hsame.
  rewrite table_form, inline_form, dotted_form by auto.
  unfold rkey in *.
  destruct (decode_expr [] (key_of p ++ key_of q) v [key_of p ++ key_of q]) as [[s3 t]|e].
  - destruct Hsame as [added [_ ->]]. split; reflexivity.
  - rewrite Hsame. split; reflexivity.
Qed.
