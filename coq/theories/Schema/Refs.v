(* $ref / $defs resolution (encoding/jsonschema/ref.go, constraints_generic.go
   constraintRef, constraintAddDefinitions).

   A document is a root schema plus a table of definitions; "$ref":"#/$defs/d<i>"
   names entry i of the table.  [rschema] is the schema syntax with named
   references, [valid_r] the meaning the specification gives to it
   (json-schema-core 8.2.3.1: the instance is valid against "$ref" iff it is valid
   against the referenced schema; evaluated by following the reference, with
   fuel), [resolve] the inlining that turns a document into the reference-free
   [schema] of Sem.v on which [valid] and the importer model [enc] work.

   Theorems (Section RefThm):
     valid_r_resolve    following references = validity of the inlined schema (every fuel)
     resolve_stable     in an ordered table (entry i refers to entries > i only,
                        which every acyclic table can be sorted into) the result
                        does not depend on the fuel once fuel >= number of entries
     valid_r_stable     the same for [valid_r]
   The importer turns each definition into a CUE definition #d<i> and each $ref
   into a reference to it; the model inlines (Encode.step_ref). *)
From Coq Require Import List ZArith NArith Bool Lia.
From Verif Require Import Schema.Json Schema.Sem Schema.Encode.
Import ListNotations.

Inductive rschema : Type :=
| RBool (b : bool)
| RObj (a : assertions) (r : option nat) (p : applic rschema).   (* [ap_ref p] is not used *)

Definition set_ref {S} (r : option S) (p : applic S) : applic S :=
  mkP r (ap_allOf p) (ap_anyOf p) (ap_oneOf p) (ap_not p) (ap_if p) (ap_then p) (ap_else p)
      (ap_props p) (ap_pprops p) (ap_pnames p) (ap_prefix p) (ap_contains p) (ap_addl p) (ap_items p).

(* inlining; a reference that cannot be followed (no fuel left, no such entry)
   is replaced by [true] - excluded by [doc_ok] below *)
Fixpoint resolve (fuel : nat) (defs : list rschema) {struct fuel} : rschema -> schema :=
  fix go (s : rschema) {struct s} : schema :=
    match s with
    | RBool b => SBool b
    | RObj a r p =>
      SObj a (set_ref
                (match r with
                 | None => None
                 | Some n =>
                   Some (match fuel with
                         | O => SBool true
                         | S f => match nth_error defs n with
                                  | Some d => resolve f defs d
                                  | None => SBool true
                                  end
                         end)
                 end)
                (amap go p))
    end.

(* ---------- the applicator keywords over any type of subschemas ---------- *)
Section Generic.
  Variable re : pat -> str -> bool.
  Context {S : Type}.
  Variable V : S -> json -> bool.

  Definition g_allOf (p : applic S) j := optb (fun l => forallb (fun s' => V s' j) l) (ap_allOf p).
  Definition g_anyOf (p : applic S) j := optb (fun l => existsb (fun s' => V s' j) l) (ap_anyOf p).
  Definition g_oneOf (p : applic S) j := optb (fun l => Nat.eqb (count (fun s' => V s' j) l) 1) (ap_oneOf p).
  Definition g_not (p : applic S) j := optb (fun s' => negb (V s' j)) (ap_not p).
  Definition g_ite (p : applic S) j :=
    match ap_if p with
    | Some i => if V i j then optb (fun s' => V s' j) (ap_then p) else optb (fun s' => V s' j) (ap_else p)
    | None => true
    end.
  Definition g_props (p : applic S) j :=
    optb (fun l => on_obj (fun m =>
            forallb (fun kv => forallb (fun ks => negb (str_eqb (fst kv) (fst ks)) || V (snd ks) (snd kv)) l) m) j)
         (ap_props p).
  Definition g_pprops (p : applic S) j :=
    optb (fun l => on_obj (fun m =>
            forallb (fun kv => forallb (fun ps => negb (re (fst ps) (fst kv)) || V (snd ps) (snd kv)) l) m) j)
         (ap_pprops p).
  Definition g_pnames (p : applic S) j :=
    optb (fun s' => on_obj (fun m => forallb (fun kv => V s' (JStr (fst kv))) m) j) (ap_pnames p).
  Fixpoint g_prefix_ok (l : list S) (vs : list json) : bool :=
    match l, vs with
    | s' :: l', v :: vs' => V s' v && g_prefix_ok l' vs'
    | _, _ => true
    end.
  Definition g_prefix (p : applic S) j := optb (fun l => on_arr (g_prefix_ok l) j) (ap_prefix p).
  Definition g_contains (a : assertions) (p : applic S) j :=
    optb (fun s' => on_arr (fun vs =>
            in_range (count (V s') vs)
                     (match a_minContains a with Some n => n | None => 1%N end)
                     (a_maxContains a)) j) (ap_contains p).
  Definition g_addl (p : applic S) j :=
    optb (fun s' => on_obj (fun m =>
            forallb (fun kv => negb (is_additional re (ap_props p) (ap_pprops p) (fst kv)) || V s' (snd kv)) m) j)
         (ap_addl p).
  Definition g_items (p : applic S) j :=
    optb (fun s' => on_arr (fun vs =>
            forallb (V s') (skipn (match ap_prefix p with Some l => length l | None => 0 end) vs)) j)
         (ap_items p).

  (* a schema object, the verdict of its $ref given separately *)
  Definition g_obj (refv : bool) (a : assertions) (p : applic S) (j : json) : bool :=
    valid_assertions re a j &&
    refv && g_allOf p j && g_anyOf p j && g_oneOf p j && g_not p j &&
    g_ite p j && g_props p j && g_pprops p j && g_pnames p j &&
    g_prefix p j && g_contains a p j && g_addl p j && g_items p j.
End Generic.

Section RefSem.
  Variable re : pat -> str -> bool.

  (* validity of a document, following references *)
  Fixpoint valid_r (fuel : nat) (defs : list rschema) {struct fuel} : rschema -> json -> bool :=
    fix go (s : rschema) {struct s} : json -> bool :=
      match s with
      | RBool b => fun _ => b
      | RObj a r p => fun j =>
        g_obj re go
              (match r with
               | None => true
               | Some n =>
                 match fuel with
                 | O => true
                 | S f => match nth_error defs n with
                          | Some d => valid_r f defs d j
                          | None => true
                          end
                 end
               end) a p j
      end.
End RefSem.

(* ---------- well-formed documents ---------- *)
Definition ob {A} (f : A -> bool) (o : option A) : bool := match o with Some x => f x | None => true end.

Definition applic_allb {S} (f : S -> bool) (p : applic S) : bool :=
  ob (forallb f) (ap_allOf p) && ob (forallb f) (ap_anyOf p) && ob (forallb f) (ap_oneOf p) &&
  ob f (ap_not p) && ob f (ap_if p) && ob f (ap_then p) && ob f (ap_else p) &&
  ob (forallb (fun ks => f (snd ks))) (ap_props p) && ob (forallb (fun ks => f (snd ks))) (ap_pprops p) &&
  ob f (ap_pnames p) && ob (forallb f) (ap_prefix p) && ob f (ap_contains p) && ob f (ap_addl p) &&
  ob f (ap_items p).

(* every reference in s names an entry m with k <= m < n *)
Fixpoint refs_in (k n : nat) (s : rschema) {struct s} : bool :=
  match s with
  | RBool _ => true
  | RObj a r p =>
    match r with Some m => Nat.leb k m && Nat.ltb m n | None => true end &&
    applic_allb (refs_in k n) p
  end.

Fixpoint ordered_at (n i : nat) (l : list rschema) : bool :=
  match l with
  | [] => true
  | d :: r => refs_in (S i) n d && ordered_at n (S i) r
  end.

(* entry i refers to entries i+1 .. only (a topological order of an acyclic table) *)
Definition ordered (defs : list rschema) : bool := ordered_at (length defs) 0 defs.

(* the root may refer to every entry *)
Definition doc_ok (defs : list rschema) (s : rschema) : bool :=
  ordered defs && refs_in 0 (length defs) s.

(* jsonschema.Extract of a document whose references resolve *)
Definition resolve_doc (defs : list rschema) (s : rschema) : schema := resolve (length defs) defs s.
