(* Phase 2 of schemaState: $ref, allOf, anyOf, oneOf, not (constraints_combinator.go). *)
From Verif Require Import Schema.Json Schema.Sem Schema.Encode Schema.Proofs Schema.Invariant Schema.Steps1.
From Coq Require Import List NArith ZArith Bool Lia.
Import ListNotations.

Definition kind_witness (k : kind) : json :=
  match k with
  | KNull => JNull | KBool => JBool true | KInt => JNum 0 | KFloat => JNum 1
  | KStr => JStr [] | KList => JArr [] | KStruct => JObj []
  end.
Lemma kind_witness_kind : forall k, kind_of (kind_witness k) = k.
Proof. intros []; reflexivity. Qed.

Section Steps2.
  Variable re : pat -> str -> bool.

  (* what the result of schemaState(sub, T) guarantees *)
  Record Good (T : mask) (s : schema) (r : result) : Prop := mkGood {
    g_ev : forall v, T (kind_of v) = true -> ev (r_e r) v = valid re s v;
    g_snd : forall v, T (kind_of v) = true -> valid re s v = true -> r_A r (kind_of v) = true;
    g_K : forall v, ev (r_e r) v = true -> allows (r_K r) (ctype_of v) = true;
    g_AT : forall k, r_A r k = true -> T k = true;
    g_AK : forall k, r_A r k = true -> r_K r k = true;
    g_KA : mempty (r_A r) = false ->
           (forall k, r_K r k = true) \/ (forall k, r_K r k = true -> r_A r k = true);
    g_wfe : wfe (r_e r);
    g_H : r_hasC r = false ->
          (is_err (r_e r) = true /\ mempty (r_A r) = false) \/
          (relcc T (r_A r) /\ forall v, T (kind_of v) = true -> r_A r (kind_of v) = true -> valid re s v = true)
  }.

  Lemma good_top_full : forall T s r, Good T s r -> is_top (r_e r) = true ->
    (forall k, T k = true -> r_A r k = true) /\ (forall v, T (kind_of v) = true -> valid re s v = true).
  Proof.
    intros T s r G Ht.
    assert (V : forall v, T (kind_of v) = true -> valid re s v = true).
    { intros v Hv. rewrite <- (g_ev _ _ _ G v Hv). apply (proj1 (g_wfe _ _ _ G) Ht). }
    split; auto. intros k Hk.
    pose proof (g_snd _ _ _ G (kind_witness k)) as X. rewrite kind_witness_kind in X. apply X; auto.
    apply V. rewrite kind_witness_kind; auto.
  Qed.

  Variable T : mask.

  (* ---------- $ref ---------- *)
  Lemma inv_step_ref : forall s' r st VS,
    Inv T st VS -> Good mall s' r ->
    Inv T (step_ref r st) (fun v => VS v /\ valid re s' v = true).
  Proof.
    intros s' r st VS H G.
    assert (E : sem_eq (upd st (st_A st) (st_K st) (mkE (ev (r_e r)) ShOther false (cl (r_e r)) (op (r_e r)))) (step_ref r st)).
    { pose proof (sem_eq_absorb r st) as X.
      assert (Y : sem_eq st (if eager (r_e r) then set_poison (absorb r st) else absorb r st)).
      { destruct (eager (r_e r)); exact X. }
      unfold step_ref, upd, add_all. simpl.
      destruct Y as (a & b & c & d & e & f & g). repeat split; simpl; congruence. }
    eapply inv_sem_eq; [exact E|].
    apply inv_upd; try exact H; try (split; simpl; discriminate); auto.
    - apply (i_AK _ _ _ H).
    - intros v _ _ He _. simpl in He. rewrite <- (g_ev _ _ _ G v eq_refl). exact He.
    - intros v _ Hq. simpl. rewrite (g_ev _ _ _ G v eq_refl). exact Hq.
    - intros v Hv HVS _. apply (i_snd _ _ _ H v Hv HVS).
    - intros Hne v Hall _. apply (i_K _ _ _ H Hne v Hall).
  Qed.

  (* ---------- not ---------- *)
  Lemma inv_step_not : forall s' r st VS,
    Inv T st VS -> Good mall s' r ->
    Inv T (step_not r st) (fun v => VS v /\ negb (valid re s' v) = true).
  Proof.
    intros s' r st VS H G.
    assert (E : sem_eq (upd st (st_A st) (st_K st) (e_other (matchN_eq 0 [r_e r]))) (step_not r st)).
    { unfold step_not, upd. apply sem_eq_add_all.
      eapply sem_eq_trans; [apply sem_eq_setAK_id | apply sem_eq_absorb]. }
    eapply inv_sem_eq; [exact E|].
    assert (Hev : forall v, matchN_eq 0 [r_e r] v = negb (valid re s' v)).
    { intros v. unfold matchN_eq, cnt, count. simpl. rewrite (g_ev _ _ _ G v eq_refl).
      destruct (valid re s' v); reflexivity. }
    apply inv_upd; try exact H; try apply wfe_other; auto.
    - apply (i_AK _ _ _ H).
    - intros v _ _ He _. simpl in He. rewrite <- Hev. exact He.
    - intros v _ Hq. simpl. rewrite Hev. exact Hq.
    - intros v Hv HVS _. apply (i_snd _ _ _ H v Hv HVS).
    - intros Hne v Hall _. apply (i_K _ _ _ H Hne v Hall).
    - simpl. discriminate.
  Qed.

  (* ---------- allOf ---------- *)
  (* the members decoded one after the other, each under the mask left by the previous ones *)
  Inductive Run : mask -> list schema -> list result -> mask -> Prop :=
  | Run_nil : forall A, Run A [] [] A
  | Run_cons : forall A s l r rs A',
      Good A s r -> Run (mand A (r_A r)) l rs A' -> Run A (s :: l) (r :: rs) A'.

  Lemma run_sub : forall A l rs A', Run A l rs A' -> forall k, A' k = true -> A k = true.
  Proof.
    induction 1; intros k Hk; auto. apply IHRun in Hk. unfold mand in Hk. apply andb_true_iff in Hk. tauto.
  Qed.

  Lemma run_len : forall A l rs A', Run A l rs A' -> length rs = length l.
  Proof. induction 1; simpl; auto. Qed.

  (* a member is "transparent" when it has no constraints of its own or its expression is `_` *)
  Definition transparent (r : result) : Prop :=
    (r_hasC r = false /\ (is_err (r_e r) && negb (mempty (r_A r))) = false) \/ is_top (r_e r) = true.

  Lemma transparent_spec : forall A s r, Good A s r -> transparent r ->
    relcc A (r_A r) /\ forall v, A (kind_of v) = true -> r_A r (kind_of v) = true -> valid re s v = true.
  Proof.
    intros A s r G [[Hh Hne] | Ht].
    - destruct (g_H _ _ _ G Hh) as [[He Hm] | X]; auto.
      rewrite He, Hm in Hne. discriminate.
    - destruct (good_top_full _ _ _ G Ht) as [Hfull V]. split; auto.
      intros k k' _ Hk Hk'. rewrite !Hfull; auto.
  Qed.

  (* forward: validity of all members pushes the kind through every mask *)
  Lemma run_snd : forall A l rs A', Run A l rs A' ->
    forall v, A (kind_of v) = true -> forallb (fun s' => valid re s' v) l = true -> A' (kind_of v) = true.
  Proof.
    induction 1; intros v HA Hall; auto.
    simpl in Hall. apply andb_true_iff in Hall. destruct Hall as [H1 H2].
    apply IHRun; auto. unfold mand. rewrite HA. simpl. apply (g_snd _ _ _ H v HA H1).
  Qed.

  Lemma run_ev : forall A l rs A', Run A l rs A' ->
    forall v, A (kind_of v) = true -> forallb (fun s' => valid re s' v) l = true ->
              forallb (fun r => ev (r_e r) v) rs = true.
  Proof.
    induction 1; intros v HA Hall; auto.
    simpl in *. apply andb_true_iff in Hall. destruct Hall as [H1 H2].
    rewrite (g_ev _ _ _ H v HA), H1. simpl. apply IHRun; auto.
    unfold mand. rewrite HA. simpl. apply (g_snd _ _ _ H v HA H1).
  Qed.

  (* backward: when every member either holds as an expression or is transparent,
     a kind whose core type survives in the final mask satisfies every member *)
  Lemma run_back : forall A l rs A', Run A l rs A' ->
    forall v, A (kind_of v) = true -> allows A' (ctype_of v) = true ->
    (forall r, In r rs -> ev (r_e r) v = true \/ transparent r) ->
    forallb (fun s' => valid re s' v) l = true /\ A' (kind_of v) = true.
  Proof.
    induction 1; intros v HA Hal Hm; [split; auto|].
    assert (Hr : valid re s v = true /\ r_A r (kind_of v) = true).
    { destruct (Hm r (or_introl eq_refl)) as [He | Htr].
      - rewrite (g_ev _ _ _ H v HA) in He. split; auto. apply (g_snd _ _ _ H v HA He).
      - destruct (transparent_spec _ _ _ H Htr) as [Hcc Hv].
        assert (X : r_A r (kind_of v) = true).
        { apply allows_iff in Hal. destruct Hal as [k [Ek Hk]].
          apply (run_sub _ _ _ _ H0) in Hk. unfold mand in Hk. apply andb_true_iff in Hk. destruct Hk as [Hk1 Hk2].
          rewrite (Hcc (kind_of v) k); auto. }
        split; auto. }
    destruct Hr as [Hv HrA].
    destruct (IHRun v) as [H1 H2]; auto.
    - unfold mand. rewrite HA, HrA. reflexivity.
    - intros r' Hin. apply Hm. right; auto.
    - simpl. rewrite Hv, H1. auto.
  Qed.

  Lemma run_relcc : forall A l rs A', Run A l rs A' -> (forall r, In r rs -> transparent r) ->
    forall T0, relcc T0 A -> (forall k, A k = true -> T0 k = true) -> relcc T0 A'.
  Proof.
    induction 1; intros Htr T0 Hcc Hsub; auto.
    apply IHRun.
    - intros r' Hin. apply Htr. right; auto.
    - destruct (transparent_spec _ _ _ H (Htr r (or_introl eq_refl))) as [Hcr _].
      intros k k' E Hk Hk'. unfold mand. rewrite (Hcc k k' E Hk Hk').
      destruct (A k') eqn:EA; auto. simpl.
      apply Hcr; auto. rewrite (Hcc k k' E Hk Hk'). exact EA.
    - intros k Hk. unfold mand in Hk. apply andb_true_iff in Hk. apply Hsub. tauto.
  Qed.

  (* the expression added by constraintAllOf *)
  Definition allOf_e (nitems : nat) (rs : list result) : expr :=
    match map r_e (filter r_hasC rs) with
    | [] => e_top
    | [x] => x
    | a => e_other (matchN_eq (length a) a)
    end.
  Definition allOf_K (K : mask) (rs : list result) : mask :=
    match filter r_hasC rs with
    | [] => K
    | kept => mand K (fold_left (fun m r => mor m (r_K r)) kept mnone)
    end.

  Lemma step_allOf_eq : forall n rs A' st,
    sem_eq (upd st A' (allOf_K (st_K st) rs) (allOf_e n rs)) (step_allOf n rs A' st).
  Proof.
    intros n rs A' st. unfold step_allOf, allOf_e, allOf_K.
    set (s1 := if Nat.eqb n 0 then set_bad st else st).
    set (s2 := absorb_all rs s1).
    set (s4 := dev_if _ DEV_allOf_false s2).
    assert (E : sem_eq st s4).
    { eapply sem_eq_trans; [|apply sem_eq_dev_if].
      eapply sem_eq_trans; [|apply sem_eq_absorb_all]. unfold s1. destruct (Nat.eqb n 0); [apply sem_eq_set_bad|apply sem_eq_refl]. }
    destruct E as (a & b & c & d & e & f & g).
    unfold upd, add_all.
    destruct (map r_e (filter r_hasC rs)) as [|x [|y t]] eqn:Em.
    - destruct (filter r_hasC rs); [|discriminate]. simpl. repeat split; simpl; congruence.
    - destruct (filter r_hasC rs) as [|r0 [|r1 t0]]; try discriminate.
      destruct (is_top x); simpl; repeat split; simpl; congruence.
    - destruct (filter r_hasC rs) as [|r0 [|r1 t0]]; try discriminate.
      simpl. repeat split; simpl; congruence.
  Qed.

  Lemma dev_step_allOf : forall n rs A' st, st_dev (step_allOf n rs A' st) = [] ->
    st_dev st = [] /\ flat_map r_dev rs = [] /\
    existsb (fun r => is_err (r_e r) && negb (r_hasC r) && negb (mempty (r_A r))) rs = false.
  Proof.
    intros n rs A' st. unfold step_allOf.
    set (s1 := if Nat.eqb n 0 then set_bad st else st).
    assert (D1 : st_dev s1 = st_dev st) by (unfold s1; destruct (Nat.eqb n 0); reflexivity).
    set (c1 := existsb _ rs).
    set (s4 := dev_if c1 DEV_allOf_false (absorb_all rs s1)).
    assert (D4 : st_dev s4 = st_dev st ++ flat_map r_dev rs ++ (if c1 then [DEV_allOf_false] else [])).
    { unfold s4. rewrite !dev_dev_if, dev_absorb_all, D1. rewrite <- !app_assoc. reflexivity. }
    assert (D : st_dev (match map r_e (filter r_hasC rs) with
                        | [] => set_A s4 A'
                        | [x] => add_all (set_K (set_A s4 A') (mand (st_K (set_A s4 A')) (fold_left (fun m r => mor m (r_K r)) (filter r_hasC rs) mnone))) x
                        | _ => add_all (set_K (set_A s4 A') (mand (st_K (set_A s4 A')) (fold_left (fun m r => mor m (r_K r)) (filter r_hasC rs) mnone))) (e_other (matchN_eq (length (map r_e (filter r_hasC rs))) (map r_e (filter r_hasC rs))))
                        end) = st_dev s4).
    { destruct (map r_e (filter r_hasC rs)) as [|x [|y t]]; simpl; auto.
      unfold add_all. destruct (is_top x); reflexivity. }
    intros Hnil. change (st_dev (match map r_e (filter r_hasC rs) with
                        | [] => set_A s4 A'
                        | [x] => add_all (set_K (set_A s4 A') (mand (st_K (set_A s4 A')) (fold_left (fun m r => mor m (r_K r)) (filter r_hasC rs) mnone))) x
                        | _ => add_all (set_K (set_A s4 A') (mand (st_K (set_A s4 A')) (fold_left (fun m r => mor m (r_K r)) (filter r_hasC rs) mnone))) (e_other (matchN_eq (length (map r_e (filter r_hasC rs))) (map r_e (filter r_hasC rs))))
                        end) = []) in Hnil.
    rewrite D, D4 in Hnil.
    apply app_eq_nil in Hnil. destruct Hnil as [N1 N2].
    apply app_eq_nil in N2. destruct N2 as [N2 N3].
    repeat split; auto.
    destruct c1; [discriminate | reflexivity].
  Qed.

  Lemma run_in : forall A l rs A', Run A l rs A' -> forall r, In r rs ->
    exists s Ai, Good Ai s r /\ (forall k, Ai k = true -> A k = true) /\ (forall k, A' k = true -> r_A r k = true).
  Proof.
    induction 1; intros r0 Hin; [destruct Hin|].
    destruct Hin as [<- | Hin].
    - exists s, A. split; auto. split; auto. intros k Hk. apply (run_sub _ _ _ _ H0) in Hk.
      unfold mand in Hk. apply andb_true_iff in Hk. tauto.
    - destruct (IHRun r0 Hin) as (s0 & Ai & G & S1 & S2). exists s0, Ai. split; auto. split; auto.
      intros k Hk. apply S1 in Hk. unfold mand in Hk. apply andb_true_iff in Hk. tauto.
  Qed.

  Lemma known_spec : forall (kept : list result) k,
    fold_left (fun m r => mor m (r_K r)) kept mnone k = existsb (fun r => r_K r k) kept.
  Proof. intros. rewrite (fold_mor_acc (fun r => r_K r)). reflexivity. Qed.

  Lemma types_spec : forall (kept : list result) k,
    fold_left (fun m r => mor m (r_A r)) kept mnone k = existsb (fun r => r_A r k) kept.
  Proof. intros. rewrite (fold_mor_acc (fun r => r_A r)). reflexivity. Qed.

  (* knownTypes after a combinator: sound for an instance accepted by a kept member *)
  Lemma known_sound : forall (A A' K : mask) (kept : list result) x v,
    (forall k, A k = true -> K k = true) ->
    In x kept -> ev (r_e x) v = true ->
    (exists s Ai, Good Ai s x /\ (forall k, Ai k = true -> A k = true)) ->
    mempty (r_A x) = false ->
    allows K (ctype_of v) = true ->
    allows (mand K (fold_left (fun m r => mor m (r_K r)) kept mnone)) (ctype_of v) = true.
  Proof.
    intros A A' K kept x v HAK Hin He (s & Ai & G & Hsub) Hne HK.
    pose proof (g_K _ _ _ G v He) as Hk. apply allows_iff in Hk. destruct Hk as [k [Ek Hk]].
    destruct (g_KA _ _ _ G Hne) as [Hall | Hsubk].
    - apply allows_iff in HK. destruct HK as [k' [Ek' Hk']]. apply allows_iff. exists k'. split; auto.
      unfold mand. rewrite Hk', andb_true_l. rewrite known_spec. apply existsb_exists. exists x. split; auto.
    - apply allows_iff. exists k. split; auto. unfold mand.
      rewrite (HAK k) by (apply Hsub; apply (g_AT _ _ _ G); apply Hsubk; exact Hk). rewrite andb_true_l.
      rewrite known_spec. apply existsb_exists. exists x. split; auto.
  Qed.

  Lemma filter_nil_all : forall {X} (f : X -> bool) l, filter f l = [] -> forall x, In x l -> f x = false.
  Proof.
    intros X f l H x Hin. destruct (f x) eqn:E; auto.
    assert (In x (filter f l)) by (apply filter_In; auto). rewrite H in H0. destruct H0.
  Qed.

  Lemma inv_step_allOf : forall l rs A' st VS,
    Inv T st VS -> Run (st_A st) l rs A' ->
    existsb (fun r => is_err (r_e r) && negb (r_hasC r) && negb (mempty (r_A r))) rs = false ->
    Inv T (step_allOf (length l) rs A' st) (fun v => VS v /\ forallb (fun s' => valid re s' v) l = true).
  Proof.
    intros l rs A' st VS H R Hd1.
    eapply inv_sem_eq; [apply step_allOf_eq|].
    set (n := length l). set (kept := filter r_hasC rs).
    assert (Hkept : forall r, In r kept <-> In r rs /\ r_hasC r = true) by (intros; apply filter_In).
    assert (Htr : forall r, In r rs -> r_hasC r = false -> transparent r).
    { intros r Hin Hh. left. split; auto.
      pose proof (proj1 (existsb_false_iff _ _) Hd1 r Hin) as X. cbv beta in X. rewrite Hh in X. simpl in X.
      rewrite andb_true_r in X. exact X. }
    assert (Hwf : forall r, In r rs -> wfe (r_e r)).
    { intros r Hin. destruct (run_in _ _ _ _ R r Hin) as (s0 & Ai & G & _). apply (g_wfe _ _ _ G). }
    (* E1 *)
    assert (E1 : forall v, ev (allOf_e n rs) v = true -> forall r, In r rs -> ev (r_e r) v = true \/ transparent r).
    { intros v He r Hin. destruct (r_hasC r) eqn:Hh; [|right; apply Htr; auto]. left.
      assert (Hk : In (r_e r) (map r_e kept)) by (apply in_map; apply Hkept; auto).
      unfold allOf_e in He. fold kept in He.
      destruct (map r_e kept) as [|x [|y t]] eqn:Em.
      - destruct Hk.
      - destruct Hk as [<- | []]. exact He.
      - cbn [ev e_other] in He. unfold matchN_eq, cnt in He. apply Nat.eqb_eq in He.
        apply count_all in He.
        rewrite forallb_forall in He. apply He. exact Hk. }
    (* E2 *)
    assert (E2 : forall v, (forall r, In r rs -> ev (r_e r) v = true) -> ev (allOf_e n rs) v = true).
    { intros v Hall. unfold allOf_e. fold kept.
      assert (Hall' : forallb (fun e => ev e v) (map r_e kept) = true).
      { apply forallb_forall. intros e He. apply in_map_iff in He. destruct He as [r [<- Hr]]. apply Hall. apply Hkept in Hr. tauto. }
      destruct (map r_e kept) as [|x [|y t]] eqn:Em.
      - reflexivity.
      - simpl in Hall'. rewrite andb_true_r in Hall'. exact Hall'.
      - cbn [ev e_other]. unfold matchN_eq, cnt. apply Nat.eqb_eq.
        apply count_all. exact Hall'. }
    assert (Wf : wfe (allOf_e n rs)).
    { unfold allOf_e. fold kept. destruct (map r_e kept) as [|x [|y t]] eqn:Em.
      - apply wfe_top.
      - assert (In x (map r_e kept)) by (rewrite Em; left; auto). apply in_map_iff in H0.
        destruct H0 as [r [<- Hr]]. apply Hwf. apply Hkept in Hr. tauto.
      - apply wfe_other. }
    assert (Htop : is_top (allOf_e n rs) = true -> forall r, In r rs -> transparent r).
    { intros Ht r Hin. destruct (r_hasC r) eqn:Hh; [|apply Htr; auto]. right.
      assert (Hk : In (r_e r) (map r_e kept)) by (apply in_map; apply Hkept; auto).
      unfold allOf_e in Ht. fold kept in Ht. destruct (map r_e kept) as [|x [|y t]] eqn:Em.
      - destruct Hk.
      - destruct Hk as [<- | []]. exact Ht.
      - simpl in Ht. discriminate. }
    apply inv_upd; try exact H; try exact Wf.
    - apply (run_sub _ _ _ _ R).
    - (* A' <= K' *)
      intros k Hk. pose proof (run_sub _ _ _ _ R k Hk) as HA. pose proof (i_AK _ _ _ H k HA) as HK.
      unfold allOf_K. fold kept. destruct kept as [|x0 kept'] eqn:Ek; auto.
      unfold mand. rewrite HK, andb_true_l. rewrite known_spec. apply existsb_exists. exists x0. split; [left; auto|].
      assert (Hin0 : In x0 rs) by (apply (proj1 (Hkept x0)); left; auto).
      destruct (run_in _ _ _ _ R x0 Hin0) as (s0 & Ai & G & _ & S2). apply (g_AK _ _ _ G). apply S2. exact Hk.
    - (* c1g *)
      intros v HA _ He Hal. destruct (run_back _ _ _ _ R v HA Hal (E1 v He)) as [X _]. exact X.
    - (* c1h *)
      intros v HA HQ. apply E2. intros r Hin.
      pose proof (run_ev _ _ _ _ R v HA HQ) as X. rewrite forallb_forall in X. apply X. exact Hin.
    - (* c2 *)
      intros v Hv HVS HQ. apply (run_snd _ _ _ _ R v); auto. apply (i_snd _ _ _ H v Hv HVS).
    - (* c3 *)
      intros Hne v Hall He.
      assert (HneA : mempty (st_A st) = false).
      { apply mempty_false in Hne. destruct Hne as [k Hk]. apply mempty_false. exists k. apply (run_sub _ _ _ _ R k Hk). }
      pose proof (i_K _ _ _ H HneA v Hall) as HK.
      unfold allOf_K. fold kept. destruct kept as [|x0 kept'] eqn:Ek; auto.
      assert (Hin0 : In x0 rs /\ r_hasC x0 = true) by (apply (proj1 (Hkept x0)); left; auto).
      destruct Hin0 as [Hin0 Hh0].
      destruct (run_in _ _ _ _ R x0 Hin0) as (s0 & Ai & G & S1 & S2).
      apply (known_sound (st_A st) A' (st_K st) (x0 :: kept') x0 v); auto.
      + apply (i_AK _ _ _ H).
      + left; auto.
      + destruct (E1 v He x0 Hin0) as [X | [[X _] | X]]; auto.
        * congruence.
        * apply (proj1 (g_wfe _ _ _ G) X).
      + exists s0, Ai. split; auto.
      + apply mempty_false in Hne. destruct Hne as [k Hk]. apply mempty_false. exists k. apply S2. exact Hk.
    - (* cH *)
      intros Ht Hh. destruct (i_H _ _ _ H Hh) as [Hback Hcc]. split.
      + apply (run_relcc _ _ _ _ R (Htop Ht) T Hcc). apply (i_AT _ _ _ H).
      + intros v Hv HA'. pose proof (run_sub _ _ _ _ R _ HA') as HA. split; [apply Hback; auto|].
        assert (Hm : forall r, In r rs -> ev (r_e r) v = true \/ transparent r) by (intros r Hin; right; apply Htop; auto).
        destruct (run_back _ _ _ _ R v HA (allows_kind _ _ HA') Hm) as [X _]. exact X.
  Qed.

End Steps2.
