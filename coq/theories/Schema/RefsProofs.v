(* Proofs about $ref resolution (Schema/Refs.v). *)
From Coq Require Import List ZArith NArith Bool Lia.
From Verif Require Import Schema.Json Schema.Sem Schema.Encode Schema.Proofs Schema.Refs.
Import ListNotations.

(* ---------- induction principle for the nested inductive [rschema] ---------- *)
Definition gapplic_all {S} (P : S -> Prop) (p : applic S) : Prop :=
  optP (Forall P) (ap_allOf p) /\ optP (Forall P) (ap_anyOf p) /\
  optP (Forall P) (ap_oneOf p) /\ optP P (ap_not p) /\ optP P (ap_if p) /\ optP P (ap_then p) /\
  optP P (ap_else p) /\ optP (Forall (fun ks => P (snd ks))) (ap_props p) /\
  optP (Forall (fun ks => P (snd ks))) (ap_pprops p) /\ optP P (ap_pnames p) /\
  optP (Forall P) (ap_prefix p) /\ optP P (ap_contains p) /\ optP P (ap_addl p) /\ optP P (ap_items p).

Section RSchemaInd.
  Variable P : rschema -> Prop.
  Hypothesis Hb : forall b, P (RBool b).
  Hypothesis Ho : forall a r p, gapplic_all P p -> P (RObj a r p).

  Fixpoint rschema_ind' (s : rschema) : P s :=
    match s with
    | RBool b => Hb b
    | RObj a r p =>
      let fo (o : option rschema) : optP P o :=
          match o with Some x => rschema_ind' x | None => I end in
      let fl := fix fl (l : list rschema) : Forall P l :=
          match l with [] => Forall_nil _ | x :: r => Forall_cons _ (rschema_ind' x) (fl r) end in
      let fol (o : option (list rschema)) : optP (Forall P) o :=
          match o with Some l => fl l | None => I end in
      let fp := fun (K : Type) => fix fp (l : list (K * rschema)) : Forall (fun ks => P (snd ks)) l :=
          match l with [] => Forall_nil _ | x :: r => Forall_cons _ (rschema_ind' (snd x)) (fp r) end in
      let fop (K : Type) (o : option (list (K * rschema))) : optP (Forall (fun ks => P (snd ks))) o :=
          match o with Some l => fp K l | None => I end in
      Ho a r p
         (conj (fol (ap_allOf p)) (conj (fol (ap_anyOf p)) (conj (fol (ap_oneOf p))
         (conj (fo (ap_not p)) (conj (fo (ap_if p)) (conj (fo (ap_then p)) (conj (fo (ap_else p))
         (conj (fop _ (ap_props p)) (conj (fop _ (ap_pprops p)) (conj (fo (ap_pnames p))
         (conj (fol (ap_prefix p)) (conj (fo (ap_contains p)) (conj (fo (ap_addl p)) (fo (ap_items p)))))))))))))))
    end.
End RSchemaInd.

(* ---------- list lemmas ---------- *)
Lemma forallb_map' : forall {A B} (g : A -> B) (f : B -> bool) l, forallb f (map g l) = forallb (fun x => f (g x)) l.
Proof. induction l; simpl; congruence. Qed.
Lemma forallb_ext' : forall {A} (f g : A -> bool) l, (forall x, f x = g x) -> forallb f l = forallb g l.
Proof. induction l; simpl; intros; auto. rewrite H, IHl; auto. Qed.
Lemma existsb_map' : forall {A B} (g : A -> B) (f : B -> bool) l, existsb f (map g l) = existsb (fun x => f (g x)) l.
Proof. induction l; simpl; congruence. Qed.
Lemma forallb_ext_F : forall {A} (P : A -> Prop) (f g : A -> bool) l,
  Forall P l -> (forall x, P x -> f x = g x) -> forallb f l = forallb g l.
Proof. induction 1; simpl; intros; auto. rewrite H1, IHForall; auto. Qed.
Lemma existsb_ext_F : forall {A} (P : A -> Prop) (f g : A -> bool) l,
  Forall P l -> (forall x, P x -> f x = g x) -> existsb f l = existsb g l.
Proof. induction 1; simpl; intros; auto. rewrite H1, IHForall; auto. Qed.
Lemma count_ext_F : forall {A} (P : A -> Prop) (f g : A -> bool) l,
  Forall P l -> (forall x, P x -> f x = g x) -> count f l = count g l.
Proof.
  unfold count. induction 1; simpl; intros; auto. rewrite H1 by auto.
  destruct (g x); simpl; rewrite IHForall; auto.
Qed.
Lemma has_key_map : forall {A B} (f : A -> B) k (l : list (str * A)),
  has_key k (map (fun ks => (fst ks, f (snd ks))) l) = has_key k l.
Proof. unfold has_key. intros. rewrite existsb_map'. reflexivity. Qed.

(* ---------- the semantics of a schema object commutes with mapping the subschemas ---------- *)
Section Commute.
  Variable re : pat -> str -> bool.
  Context {S S' : Type}.
  Variable V : S' -> json -> bool.
  Variable W : S -> json -> bool.
  Variable f : S -> S'.
  Definition agree (s : S) : Prop := forall j, V (f s) j = W s j.

  Lemma prefix_ok_map : forall l, Forall agree l -> forall vs,
    g_prefix_ok V (map f l) vs = g_prefix_ok W l vs.
  Proof.
    induction 1; intros vs; simpl; auto. destruct vs; auto. rewrite H, IHForall. reflexivity.
  Qed.

  Lemma g_obj_amap : forall b a p j, gapplic_all agree p ->
    g_obj re V b a (amap f p) j = g_obj re W b a p j.
  Proof.
    intros b a p j H. destruct p as [rf al an on nt i t e pr pp pn pf ct ad it].
    destruct H as (Hal & Han & Hon & Hnt & Hi & Ht & He & Hpr & Hpp & Hpn & Hpf & Hct & Had & Hit).
    cbn [ap_allOf ap_anyOf ap_oneOf ap_not ap_if ap_then ap_else ap_props ap_pprops ap_pnames ap_prefix
         ap_contains ap_addl ap_items] in *.
    unfold g_obj.
    assert (E1 : g_allOf V (amap f (mkP rf al an on nt i t e pr pp pn pf ct ad it)) j
                 = g_allOf W (mkP rf al an on nt i t e pr pp pn pf ct ad it) j).
    { unfold g_allOf; cbn. destruct al as [l|]; cbn in *; auto.
      rewrite forallb_map'. apply (forallb_ext_F agree); auto. }
    assert (E2 : g_anyOf V (amap f (mkP rf al an on nt i t e pr pp pn pf ct ad it)) j
                 = g_anyOf W (mkP rf al an on nt i t e pr pp pn pf ct ad it) j).
    { unfold g_anyOf; cbn. destruct an as [l|]; cbn in *; auto.
      rewrite existsb_map'. apply (existsb_ext_F agree); auto. }
    assert (E3 : g_oneOf V (amap f (mkP rf al an on nt i t e pr pp pn pf ct ad it)) j
                 = g_oneOf W (mkP rf al an on nt i t e pr pp pn pf ct ad it) j).
    { unfold g_oneOf; cbn. destruct on as [l|]; cbn in *; auto.
      rewrite count_map. f_equal. apply (count_ext_F agree); auto. }
    assert (E4 : g_not V (amap f (mkP rf al an on nt i t e pr pp pn pf ct ad it)) j
                 = g_not W (mkP rf al an on nt i t e pr pp pn pf ct ad it) j).
    { unfold g_not; cbn. destruct nt; cbn in *; auto. rewrite Hnt. reflexivity. }
    assert (E5 : g_ite V (amap f (mkP rf al an on nt i t e pr pp pn pf ct ad it)) j
                 = g_ite W (mkP rf al an on nt i t e pr pp pn pf ct ad it) j).
    { unfold g_ite; cbn. destruct i; cbn in *; auto. rewrite Hi.
      destruct t, e; cbn in *; rewrite ?Ht, ?He; reflexivity. }
    assert (E6 : g_props V (amap f (mkP rf al an on nt i t e pr pp pn pf ct ad it)) j
                 = g_props W (mkP rf al an on nt i t e pr pp pn pf ct ad it) j).
    { unfold g_props; cbn. destruct pr as [l|]; cbn in *; auto. destruct j; cbn; auto.
      apply forallb_ext'. intros kv. rewrite forallb_map'. cbn.
      apply (forallb_ext_F (fun ks => agree (snd ks))); auto. intros x Hx. rewrite Hx. reflexivity. }
    assert (E7 : g_pprops re V (amap f (mkP rf al an on nt i t e pr pp pn pf ct ad it)) j
                 = g_pprops re W (mkP rf al an on nt i t e pr pp pn pf ct ad it) j).
    { unfold g_pprops; cbn. destruct pp as [l|]; cbn in *; auto. destruct j; cbn; auto.
      apply forallb_ext'. intros kv. rewrite forallb_map'. cbn.
      apply (forallb_ext_F (fun ks => agree (snd ks))); auto. intros x Hx. rewrite Hx. reflexivity. }
    assert (E8 : g_pnames V (amap f (mkP rf al an on nt i t e pr pp pn pf ct ad it)) j
                 = g_pnames W (mkP rf al an on nt i t e pr pp pn pf ct ad it) j).
    { unfold g_pnames; cbn. destruct pn; cbn in *; auto. destruct j; cbn; auto.
      apply forallb_ext'. intros kv. apply Hpn. }
    assert (E9 : g_prefix V (amap f (mkP rf al an on nt i t e pr pp pn pf ct ad it)) j
                 = g_prefix W (mkP rf al an on nt i t e pr pp pn pf ct ad it) j).
    { unfold g_prefix; cbn. destruct pf as [l|]; cbn in *; auto. destruct j; cbn; auto.
      apply prefix_ok_map; auto. }
    assert (E10 : g_contains V a (amap f (mkP rf al an on nt i t e pr pp pn pf ct ad it)) j
                 = g_contains W a (mkP rf al an on nt i t e pr pp pn pf ct ad it) j).
    { unfold g_contains; cbn. destruct ct; cbn in *; auto. destruct j; cbn; auto.
      f_equal. apply count_ext. intros x _. apply Hct. }
    assert (E11 : g_addl re V (amap f (mkP rf al an on nt i t e pr pp pn pf ct ad it)) j
                 = g_addl re W (mkP rf al an on nt i t e pr pp pn pf ct ad it) j).
    { unfold g_addl; cbn. destruct ad; cbn in *; auto. destruct j; cbn; auto.
      apply forallb_ext'. intros kv. rewrite Had. f_equal. f_equal.
      unfold is_additional. f_equal.
      - destruct pr; cbn; auto. rewrite has_key_map. reflexivity.
      - destruct pp; cbn; auto. rewrite existsb_map'. reflexivity. }
    assert (E12 : g_items V (amap f (mkP rf al an on nt i t e pr pp pn pf ct ad it)) j
                 = g_items W (mkP rf al an on nt i t e pr pp pn pf ct ad it) j).
    { unfold g_items; cbn. destruct it; cbn in *; auto. destruct j; cbn; auto.
      replace (match option_map (map f) pf with Some l0 => length l0 | None => 0 end)
        with (match pf with Some l0 => length l0 | None => 0 end)
        by (destruct pf; cbn; rewrite ?map_length; reflexivity).
      apply forallb_ext'. intros x. apply Hit. }
    rewrite E1, E2, E3, E4, E5, E6, E7, E8, E9, E10, E11, E12. reflexivity.
  Qed.
End Commute.

(* ---------- maps over applicators that agree on the subschemas ---------- *)
Section AmapExt.
  Context {S S' : Type}.
  Variable g : S -> bool.
  Variables f1 f2 : S -> S'.
  Definition Q (s : S) : Prop := g s = true -> f1 s = f2 s.

  Lemma omap_ext : forall o, optP Q o -> ob g o = true -> option_map f1 o = option_map f2 o.
  Proof. intros [x|] H G; cbn in *; auto. rewrite H; auto. Qed.
  Lemma map_ext_Q : forall l, Forall Q l -> forallb g l = true -> map f1 l = map f2 l.
  Proof.
    induction 1; cbn; intros G; auto. apply andb_true_iff in G as [G1 G2]. rewrite H, IHForall; auto.
  Qed.
  Lemma olmap_ext : forall o, optP (Forall Q) o -> ob (forallb g) o = true ->
    option_map (map f1) o = option_map (map f2) o.
  Proof. intros [l|] H G; cbn in *; auto. rewrite (map_ext_Q l); auto. Qed.
  Lemma opmap_ext : forall {K} (o : option (list (K * S))),
    optP (Forall (fun ks => Q (snd ks))) o -> ob (forallb (fun ks => g (snd ks))) o = true ->
    option_map (map (fun ks => (fst ks, f1 (snd ks)))) o = option_map (map (fun ks => (fst ks, f2 (snd ks)))) o.
  Proof.
    intros K [l|] H G; cbn in *; auto. f_equal.
    induction H; cbn in *; auto. apply andb_true_iff in G as [G1 G2]. rewrite H, IHForall; auto.
  Qed.

  Lemma set_ref_amap_ext : forall x p, gapplic_all Q p -> applic_allb g p = true ->
    set_ref x (amap f1 p) = set_ref x (amap f2 p).
  Proof.
    intros x p H G. destruct p as [rf al an on nt i t e pr pp pn pf ct ad it].
    destruct H as (Hal & Han & Hon & Hnt & Hi & Ht & He & Hpr & Hpp & Hpn & Hpf & Hct & Had & Hit).
    unfold applic_allb in G.
    cbn [ap_allOf ap_anyOf ap_oneOf ap_not ap_if ap_then ap_else ap_props ap_pprops ap_pnames ap_prefix
         ap_contains ap_addl ap_items] in *.
    repeat (apply andb_true_iff in G; destruct G as [G ?]).
    unfold set_ref, amap.
    cbn [ap_ref ap_allOf ap_anyOf ap_oneOf ap_not ap_if ap_then ap_else ap_props ap_pprops ap_pnames ap_prefix
         ap_contains ap_addl ap_items].
    rewrite (olmap_ext al), (olmap_ext an), (olmap_ext on), (omap_ext nt), (omap_ext i), (omap_ext t),
      (omap_ext e), (opmap_ext pr), (opmap_ext pp), (omap_ext pn), (olmap_ext pf), (omap_ext ct),
      (omap_ext ad), (omap_ext it); auto.
  Qed.
End AmapExt.

Section RefThm.
  Variable re : pat -> str -> bool.

  Definition refv (fuel : nat) (defs : list rschema) (r : option nat) (j : json) : bool :=
    match r with
    | None => true
    | Some n =>
      match fuel with
      | O => true
      | S f => match nth_error defs n with Some d => valid_r re f defs d j | None => true end
      end
    end.
  Definition rres (fuel : nat) (defs : list rschema) (r : option nat) : option schema :=
    match r with
    | None => None
    | Some n =>
      Some (match fuel with
            | O => SBool true
            | S f => match nth_error defs n with Some d => resolve f defs d | None => SBool true end
            end)
    end.

  Lemma valid_r_obj : forall fuel defs a r p j,
    valid_r re fuel defs (RObj a r p) j = g_obj re (valid_r re fuel defs) (refv fuel defs r j) a p j.
  Proof. destruct fuel; reflexivity. Qed.
  Lemma resolve_obj : forall fuel defs a r p,
    resolve fuel defs (RObj a r p) = SObj a (set_ref (rres fuel defs r) (amap (resolve fuel defs) p)).
  Proof. destruct fuel; reflexivity. Qed.
  Lemma valid_as_g_obj : forall a p j,
    valid re (SObj a p) j = g_obj re (valid re) (v_ref (valid re) p j) a p j.
  Proof. reflexivity. Qed.
  Lemma g_obj_set_ref : forall {S} (V : S -> json -> bool) b a x p j,
    g_obj re V b a (set_ref x p) j = g_obj re V b a p j.
  Proof. intros. destruct p; reflexivity. Qed.

  (* following references = validity of the inlined schema *)
  Lemma resolve_valid_r : forall fuel defs s,
    agree (valid re) (valid_r re fuel defs) (resolve fuel defs) s.
  Proof.
    induction fuel as [|f IHf]; intros defs s.
    - pattern s. apply rschema_ind'.
      + intros b j. reflexivity.
      + intros a r p IH j. rewrite valid_r_obj, resolve_obj, valid_as_g_obj, g_obj_set_ref.
        rewrite (g_obj_amap re (valid re) (valid_r re 0 defs) (resolve 0 defs)) by exact IH.
        f_equal. destruct r; reflexivity.
    - pattern s. apply rschema_ind'.
      + intros b j. reflexivity.
      + intros a r p IH j. rewrite valid_r_obj, resolve_obj, valid_as_g_obj, g_obj_set_ref.
        rewrite (g_obj_amap re (valid re) (valid_r re (S f) defs) (resolve (S f) defs)) by exact IH.
        f_equal. destruct r as [n|]; cbn; auto. destruct (nth_error defs n); cbn; auto.
        rewrite IHf. reflexivity.
  Qed.

  Theorem valid_r_resolve : forall fuel defs s j,
    valid_r re fuel defs s j = valid re (resolve fuel defs s) j.
  Proof. intros. symmetry. apply resolve_valid_r. Qed.
End RefThm.

(* ---------- the fuel suffices ---------- *)
Lemma nth_ordered : forall n l i m d,
  ordered_at n i l = true -> nth_error l m = Some d -> refs_in (S (i + m)) n d = true.
Proof.
  induction l as [|x l IH]; intros i m d O E.
  - destruct m; discriminate.
  - cbn in O. apply andb_true_iff in O as [O1 O2]. destruct m; cbn in E.
    + injection E as <-. rewrite Nat.add_0_r. exact O1.
    + replace (S (i + S m)) with (S (S i + m)) by lia. eapply IH; eauto.
Qed.

Theorem resolve_stable : forall defs, ordered defs = true ->
  forall f f' k s, refs_in k (length defs) s = true ->
  length defs - k <= f -> length defs - k <= f' ->
  resolve f defs s = resolve f' defs s.
Proof.
  intros defs O. induction f as [|g IHg]; intros f' k s.
  - pattern s. apply rschema_ind'.
    + intros b _ _ _. destruct f'; reflexivity.
    + intros a r p IH R L L'. rewrite !resolve_obj.
      cbn [refs_in] in R. apply andb_true_iff in R as [R1 R2].
      f_equal.
      replace (rres 0 defs r) with (rres f' defs r).
      * apply (set_ref_amap_ext (refs_in k (length defs))); auto.
        revert IH. unfold gapplic_all, Q. intros IH.
        repeat (destruct IH as [? IH]).
        repeat split;
          match goal with
          | H : optP _ ?o |- optP _ ?o =>
            destruct o; cbn in *; auto;
            try (eapply Forall_impl; [|exact H]; cbn; intros; auto); try (intros; auto)
          end.
      * destruct r as [m|]; cbn in *; auto.
        apply andb_true_iff in R1 as [A B]. apply Nat.leb_le in A. apply Nat.ltb_lt in B. lia.
  - pattern s. apply rschema_ind'.
    + intros b _ _ _. destruct f'; reflexivity.
    + intros a r p IH R L L'. rewrite !resolve_obj.
      cbn [refs_in] in R. apply andb_true_iff in R as [R1 R2].
      f_equal.
      replace (rres (S g) defs r) with (rres f' defs r).
      * apply (set_ref_amap_ext (refs_in k (length defs))); auto.
        revert IH. unfold gapplic_all, Q. intros IH.
        repeat (destruct IH as [? IH]).
        repeat split;
          match goal with
          | H : optP _ ?o |- optP _ ?o =>
            destruct o; cbn in *; auto;
            try (eapply Forall_impl; [|exact H]; cbn; intros; auto); try (intros; auto)
          end.
      * destruct r as [m|]; cbn in *; auto.
        apply andb_true_iff in R1 as [A B]. apply Nat.leb_le in A. apply Nat.ltb_lt in B.
        destruct f' as [|g']; [lia|]. f_equal.
        destruct (nth_error defs m) as [d|] eqn:E; auto.
        symmetry. apply (IHg g' (S m) d).
        -- apply (nth_ordered (length defs) defs 0 m d O E).
        -- lia.
        -- lia.
Qed.

Section RefThm2.
  Variable re : pat -> str -> bool.

  (* a well-formed document: any fuel >= the number of definitions gives the same inlined schema *)
  Theorem resolve_doc_stable : forall defs s, doc_ok defs s = true ->
    forall f, length defs <= f -> resolve f defs s = resolve_doc defs s.
  Proof.
    intros defs s D f L. unfold doc_ok in D. apply andb_true_iff in D as [O R].
    unfold resolve_doc. apply (resolve_stable defs O f (length defs) 0 s R); lia.
  Qed.

  Theorem valid_r_stable : forall defs s, doc_ok defs s = true ->
    forall f j, length defs <= f -> valid_r re f defs s j = valid re (resolve_doc defs s) j.
  Proof. intros defs s D f j L. rewrite valid_r_resolve, (resolve_doc_stable defs s D f L). reflexivity. Qed.
End RefThm2.
