(* JSON values for the C13 models.

   Numbers are kept exact and small: [JNum h] denotes the rational h/2, so the
   model has every integer (h even) and the non-integers x.5 (h odd).  This is
   the "integers and a few non-integers" fragment: it separates JSON Schema's
   "integer" from "number", exercises bounds between integers, and avoids the
   1.0-vs-1 spelling question (CUE keeps int and float apart; the vendored
   test-suite records that as a known skip).
   Strings are lists of Unicode code points (length = number of code points,
   which is what minLength/maxLength and strings.MinRunes/MaxRunes count).
   Objects are association lists; the harness only produces unique keys and
   [wf_json] states it. *)
From Coq Require Import List ZArith NArith Bool Lia.
Import ListNotations.

Definition str := list N.

Inductive json : Type :=
| JNull
| JBool (b : bool)
| JNum (h : Z)
| JStr (s : str)
| JArr (l : list json)
| JObj (m : list (str * json)).

Fixpoint str_eqb (a b : str) : bool :=
  match a, b with
  | [], [] => true
  | x :: a', y :: b' => N.eqb x y && str_eqb a' b'
  | _, _ => false
  end.

Lemma str_eqb_eq : forall a b, str_eqb a b = true <-> a = b.
Proof.
  induction a as [|x a IH]; destruct b as [|y b]; simpl; split; try congruence; auto.
  - rewrite andb_true_iff, N.eqb_eq, IH. intros [-> ->]; reflexivity.
  - intros [= -> ->]. rewrite N.eqb_refl. simpl. apply IH. reflexivity.
Qed.

Lemma str_eqb_refl : forall a, str_eqb a a = true.
Proof. intros; apply str_eqb_eq; reflexivity. Qed.

Fixpoint lookup {A} (k : str) (m : list (str * A)) : option A :=
  match m with
  | [] => None
  | (k', v) :: r => if str_eqb k k' then Some v else lookup k r
  end.

Definition has_key {A} (k : str) (m : list (str * A)) : bool :=
  existsb (fun kv => str_eqb k (fst kv)) m.

Definition mem_str (k : str) (l : list str) : bool := existsb (str_eqb k) l.

Fixpoint nodup_str (l : list str) : bool :=
  match l with
  | [] => true
  | x :: r => negb (mem_str x r) && nodup_str r
  end.

(* Equality of JSON values: numbers by value, objects as unordered maps
   (JSON Schema 2020-12, 4.2.2 "Instance equality"). *)
Fixpoint json_eqb (a b : json) {struct a} : bool :=
  match a, b with
  | JNull, JNull => true
  | JBool x, JBool y => Bool.eqb x y
  | JNum x, JNum y => Z.eqb x y
  | JStr x, JStr y => str_eqb x y
  | JArr la, JArr lb =>
    (fix go (la lb : list json) {struct la} : bool :=
       match la, lb with
       | [], [] => true
       | x :: la', y :: lb' => json_eqb x y && go la' lb'
       | _, _ => false
       end) la lb
  | JObj ma, JObj mb =>
    Nat.eqb (length ma) (length mb) &&
    (fix go (ma : list (str * json)) {struct ma} : bool :=
       match ma with
       | [] => true
       | (k, v) :: ma' =>
         match lookup k mb with
         | Some v' => json_eqb v v' && go ma'
         | None => false
         end
       end) ma
  | _, _ => false
  end.

(* unique keys, hereditarily *)
Fixpoint wf_json (j : json) : bool :=
  match j with
  | JArr l => forallb wf_json l
  | JObj m =>
    nodup_str (map fst m) &&
    (fix go (m : list (str * json)) : bool :=
       match m with [] => true | (_, v) :: r => wf_json v && go r end) m
  | _ => true
  end.

(* ---- the seven value kinds of cue.Kind that matter for JSON, and the six
        JSON Schema core types (decode.go: coreType, coreToCUE) ---- *)
Inductive kind := KNull | KBool | KInt | KFloat | KStr | KList | KStruct.
Inductive ctype := TNull | TBool | TNum | TStr | TArr | TObj.

Definition all_kinds : list kind := [KNull; KBool; KInt; KFloat; KStr; KList; KStruct].
Definition all_ctypes : list ctype := [TNull; TBool; TNum; TStr; TArr; TObj].

Definition kind_eqb (a b : kind) : bool :=
  match a, b with
  | KNull, KNull | KBool, KBool | KInt, KInt | KFloat, KFloat
  | KStr, KStr | KList, KList | KStruct, KStruct => true
  | _, _ => false
  end.

Definition ctype_eqb (a b : ctype) : bool :=
  match a, b with
  | TNull, TNull | TBool, TBool | TNum, TNum | TStr, TStr | TArr, TArr | TObj, TObj => true
  | _, _ => false
  end.

Definition is_int (h : Z) : bool := Z.even h.

Definition kind_of (j : json) : kind :=
  match j with
  | JNull => KNull
  | JBool _ => KBool
  | JNum h => if is_int h then KInt else KFloat
  | JStr _ => KStr
  | JArr _ => KList
  | JObj _ => KStruct
  end.

Definition ctype_of_kind (k : kind) : ctype :=
  match k with
  | KNull => TNull | KBool => TBool | KInt => TNum | KFloat => TNum
  | KStr => TStr | KList => TArr | KStruct => TObj
  end.

Definition ctype_of (j : json) : ctype := ctype_of_kind (kind_of j).
