(* Witnesses: every construct excluded from the fragment of encode_correct makes
   the importer's encoding differ from JSON Schema validity on a concrete
   (schema, instance) pair; and the named interactions inside the fragment. *)
From Verif Require Import Schema.Json Schema.Sem Schema.Encode Schema.Proofs Schema.Main.
From Coq Require Import List NArith ZArith Bool.
Import ListNotations.

(* a concrete oracle: every pattern means "starts with 'a'" *)
Definition re_a (p : pat) (s : str) : bool := match s with c :: _ => N.eqb c 97 | [] => false end.

(* builders *)
Definition A0 := no_assertions.
Definition P0 : applic schema := no_applic.
Definition a_with_type (tys : list tyname) : assertions :=
  mkA (Some tys) None None None None None None None None None None None None None None None None None None.
Definition a_with_minLength (n : N) : assertions :=
  mkA None None None None None None None (Some n) None None None None None None None None None None None.
Definition a_with_maxLength (n : N) : assertions :=
  mkA None None None None None None (Some n) None None None None None None None None None None None None.
Definition a_with_min (h : Z) : assertions :=
  mkA None None None None None None None None None None None None None None None None None (Some h) None.
Definition a_with_pattern (p : pat) : assertions :=
  mkA None None None None None None None None (Some p) None None None None None None None None None None.
Definition a_with_required (r : list str) : assertions :=
  mkA None None None None None None None None None None None None None None None None None None (Some r).
Definition a_type_min (tys : list tyname) (h : Z) : assertions :=
  mkA (Some tys) None None None None None None None None None None None None None None None None (Some h) None.

Definition p_allOf l : applic schema := mkP None (Some l) None None None None None None None None None None None None None.
Definition p_oneOf l : applic schema := mkP None None None (Some l) None None None None None None None None None None None.
Definition p_not s : applic schema := mkP None None None None (Some s) None None None None None None None None None None.
Definition p_ite i t e : applic schema := mkP None None None None None (Some i) t e None None None None None None None.
Definition p_pnames s : applic schema := mkP None None None None None None None None None None (Some s) None None None None.
Definition p_prefix l : applic schema := mkP None None None None None None None None None None None (Some l) None None None.
Definition p_obj props pprops addl : applic schema :=
  mkP None None None None None None None None props pprops None None None addl None.

Definition S_type tys := SObj (a_with_type tys) P0.
Definition sa := [97%N].     (* "a" *)
Definition sb := [98%N].     (* "b" *)
Definition sab := [97%N; 98%N].

(* ---------- refutations (known deviations of the pinned tree) ---------- *)

(* allOf:[{type:string},{minLength:1},{maxLength:3}] accepts "ab": the member without constraints
   is dropped and matchN counts the members that were kept (was C13-F1, fixed) *)
Definition w_allOf := SObj A0 (p_allOf [S_type [TyString]; SObj (a_with_minLength 1%N) P0; SObj (a_with_maxLength 3%N) P0]).
Lemma allOf_unconstrained_member_correct :
  valid re_a w_allOf (JStr sab) = true /\ encode re_a w_allOf (JStr sab) = true /\
  r_dev (enc re_a w_allOf mall) = [].
Proof. vm_compute. auto. Qed.

(* allOf:[true,false] accepts 1 *)
Definition w_allOf_false := SObj A0 (p_allOf [SBool true; SBool false]).
Lemma allOf_false_member_refuted :
  valid re_a w_allOf_false (JNum 2%Z) = false /\ encode re_a w_allOf_false (JNum 2%Z) = true /\
  r_dev (enc re_a w_allOf_false mall) = [DEV_allOf_false].
Proof. vm_compute. auto. Qed.

(* propertyNames:{pattern:"^a"} accepts {"b":1} *)
Definition w_pnames := SObj A0 (p_pnames (SObj (a_with_pattern 0%N) P0)).
Lemma propertyNames_refuted :
  valid re_a w_pnames (JObj [(sb, JNum 2%Z)]) = false /\ encode re_a w_pnames (JObj [(sb, JNum 2%Z)]) = true /\
  r_dev (enc re_a w_pnames mall) = [DEV_propertyNames].
Proof. vm_compute. auto. Qed.

(* properties:{a:{}}, additionalProperties:false, required:[b] accepts {"b":1} *)
Definition w_req := SObj (a_with_required [sb]) (p_obj (Some [(sa, SObj A0 P0)]) None (Some (SBool false))).
Lemma required_closed_refuted :
  valid re_a w_req (JObj [(sb, JNum 2%Z)]) = false /\ encode re_a w_req (JObj [(sb, JNum 2%Z)]) = true /\
  r_dev (enc re_a w_req mall) = [DEV_required_closed].
Proof. vm_compute. auto. Qed.

(* prefixItems:[{type:string}] rejects [] *)
Definition w_prefix := SObj A0 (p_prefix [S_type [TyString]]).
Lemma prefixItems_refuted :
  valid re_a w_prefix (JArr []) = true /\ encode re_a w_prefix (JArr []) = false /\
  r_dev (enc re_a w_prefix mall) = [DEV_prefixItems].
Proof. vm_compute. auto. Qed.

(* patternProperties:{"^a":{type:integer}}, additionalProperties:{type:string} rejects {"":1}
   (was C13-F6, fixed: no exclusion conjunct without property names, the empty name is not skipped) *)
Definition w_empty := SObj A0 (p_obj None (Some [(0%N, S_type [TyInteger])]) (Some (S_type [TyString]))).
Lemma empty_name_correct :
  valid re_a w_empty (JObj [([], JNum 2%Z)]) = false /\ encode re_a w_empty (JObj [([], JNum 2%Z)]) = false /\
  r_dev (enc re_a w_empty mall) = [].
Proof. vm_compute. auto. Qed.

(* properties:{p:{if:{type:string},then:false}} rejects {"p":1} *)
Definition w_ite := SObj A0 (p_obj (Some [(sa, SObj A0 (p_ite (S_type [TyString]) (Some (SBool false)) None))]) None None).
Lemma error_argument_refuted :
  valid re_a w_ite (JObj [(sa, JNum 2%Z)]) = true /\ encode re_a w_ite (JObj [(sa, JNum 2%Z)]) = false /\
  r_dev (enc re_a w_ite mall) = [DEV_error_argument].
Proof. vm_compute. auto. Qed.

(* oneOf:[false] accepts 1 *)
Definition w_oneOf := SObj A0 (p_oneOf [SBool false]).
Lemma oneOf_false_member_refuted :
  valid re_a w_oneOf (JNum 2%Z) = false /\ encode re_a w_oneOf (JNum 2%Z) = true /\
  r_dev (enc re_a w_oneOf mall) = [DEV_oneOf_false; DEV_error_member].
Proof. vm_compute. auto. Qed.

(* type:[integer,number] accepts 1.5 (was C13-F10, fixed: `int` is only added when "number" is not listed) *)
Definition w_intnum := S_type [TyInteger; TyNumber].
Lemma integer_and_number_correct :
  valid re_a w_intnum (JNum 3%Z) = true /\ encode re_a w_intnum (JNum 3%Z) = true /\
  r_dev (enc re_a w_intnum mall) = [].
Proof. vm_compute. auto. Qed.

(* the fragment hypothesis of encode_correct cannot be dropped *)
Theorem encode_correct_needs_fragment : exists re s j, encode re s j <> valid re s j.
Proof. exists re_a, w_pnames, (JObj [(sb, JNum 2%Z)]). vm_compute. discriminate. Qed.

(* ---------- the named interactions, inside the fragment ---------- *)
Section Named.
  Variable re : pat -> str -> bool.

  (* not next to a type list *)
  Theorem not_with_type_list : forall tys s',
    in_fragment re (SObj (a_with_type tys) (p_not s')) ->
    forall j, encode re (SObj (a_with_type tys) (p_not s')) j = existsb (ty_matches j) tys && negb (valid re s' j).
  Proof.
    intros tys s' F j. rewrite (encode_correct re _ F j). cbn. unfold valid_assertions, A0, no_assertions. cbn. rewrite ?andb_true_r. reflexivity.
  Qed.

  (* oneOf: exactly one member, whatever the overlap of the members *)
  Theorem oneOf_overlapping_members : forall l,
    in_fragment re (SObj A0 (p_oneOf l)) ->
    forall j, encode re (SObj A0 (p_oneOf l)) j = Nat.eqb (count (fun s' => valid re s' j) l) 1.
  Proof. intros l F j. rewrite (encode_correct re _ F j). cbn. unfold valid_assertions, A0, no_assertions. cbn. rewrite ?andb_true_r. reflexivity. Qed.

  (* if / then / else, including a branch that nothing satisfies *)
  Theorem if_then_else_correct : forall i t e,
    in_fragment re (SObj A0 (p_ite i (Some t) (Some e))) ->
    forall j, encode re (SObj A0 (p_ite i (Some t) (Some e))) j = if valid re i j then valid re t j else valid re e j.
  Proof. intros i t e F j. rewrite (encode_correct re _ F j). cbn. unfold valid_assertions, A0, no_assertions. cbn. rewrite ?andb_true_r. reflexivity. Qed.

  (* additionalProperties next to properties and patternProperties *)
  Theorem additional_vs_pattern_properties : forall lp lpp s',
    in_fragment re (SObj A0 (p_obj (Some lp) (Some lpp) (Some s'))) ->
    forall m, encode re (SObj A0 (p_obj (Some lp) (Some lpp) (Some s'))) (JObj m) =
      forallb (fun kv => forallb (fun ks => negb (str_eqb (fst kv) (fst ks)) || valid re (snd ks) (snd kv)) lp) m &&
      forallb (fun kv => forallb (fun ps => negb (re (fst ps) (fst kv)) || valid re (snd ps) (snd kv)) lpp) m &&
      forallb (fun kv => negb (negb (has_key (fst kv) lp) && negb (existsb (fun ps => re (fst ps) (fst kv)) lpp))
                         || valid re s' (snd kv)) m.
  Proof. intros lp lpp s' F m. rewrite (encode_correct re _ F (JObj m)). cbn. unfold valid_assertions, A0, no_assertions. cbn. rewrite ?andb_true_r. reflexivity. Qed.

  (* allOf: all members, when no deviation class is hit (e.g. every member constrained, or at most one) *)
  Theorem allOf_correct_when : forall l,
    in_fragment re (SObj A0 (p_allOf l)) ->
    forall j, encode re (SObj A0 (p_allOf l)) j = forallb (fun s' => valid re s' j) l.
  Proof. intros l F j. rewrite (encode_correct re _ F j). cbn. unfold valid_assertions, A0, no_assertions. cbn. rewrite ?andb_true_r. reflexivity. Qed.
End Named.

(* ---------- non-vacuity: concrete schemas inside the fragment ---------- *)
Definition ex_not_type := SObj (a_with_type [TyString; TyNumber]) (p_not (S_type [TyString])).
Definition ex_oneOf := SObj A0 (p_oneOf [S_type [TyInteger]; SObj (a_with_min 4%Z) P0]).
Definition ex_ite := SObj A0 (p_ite (S_type [TyString]) (Some (SObj (a_with_minLength 2%N) P0)) (Some (SObj (a_type_min [TyString] 6%Z) P0))).
Definition ex_obj := SObj A0 (p_obj (Some [(sa, S_type [TyInteger])]) (Some [(0%N, SObj (a_with_min 6%Z) P0)]) (Some (S_type [TyString]))).
Definition ex_allOf := SObj A0 (p_allOf [SObj (a_with_minLength 1%N) P0; SObj (a_with_maxLength 3%N) P0]).
Definition ex_nested := SObj A0 (p_obj (Some [(sa, ex_oneOf); (sb, ex_ite)]) None (Some (SBool false))).

Example fragment_examples :
  in_fragment re_a ex_not_type /\ in_fragment re_a ex_oneOf /\ in_fragment re_a ex_ite /\
  in_fragment re_a ex_obj /\ in_fragment re_a ex_allOf /\ in_fragment re_a ex_nested.
Proof. unfold in_fragment. vm_compute. auto 10. Qed.

Example verdict_examples :
  map (encode re_a ex_not_type) [JStr sa; JNum 2%Z; JNum 3%Z; JNull] = [false; true; true; false] /\
  map (encode re_a ex_oneOf) [JNum 2%Z; JNum 6%Z; JNum 5%Z; JStr sa] = [true; false; true; true] /\
  map (encode re_a ex_ite) [JStr sa; JStr sab; JNum 2%Z] = [false; true; false] /\
  map (encode re_a ex_obj) [JObj [(sa, JNum 2%Z)]; JObj [(sa, JNum 8%Z)]; JObj [(sab, JNum 8%Z)]; JObj [(sb, JNum 8%Z)]; JObj [(sb, JStr sa)]]
    = [false; true; true; false; true] /\
  map (encode re_a ex_nested) [JObj [(sa, JNum 2%Z)]; JObj [(sa, JNum 6%Z)]; JObj [(sb, JStr sab)]; JObj [(sab, JNull)]; JNull]
    = [true; false; true; false; true].
Proof. vm_compute. auto 10. Qed.
