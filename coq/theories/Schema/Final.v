(* finalize: the kind-indexed disjunction, and what result_of guarantees. *)
From Verif Require Import Schema.Json Schema.Sem Schema.Encode Schema.Proofs Schema.Invariant Schema.Steps1 Schema.Steps2.
From Coq Require Import List NArith ZArith Bool Lia.
Import ListNotations.

Section Final.
  Variable re : pat -> str -> bool.
  Variable T : mask.

  Definition ObjSem (st : state) (v : json) : bool :=
    match v, st_obj st with JObj m, Some o => struct_ok re o m | _, _ => true end.
  Definition ListSem (st : state) (v : json) : bool :=
    match v, st_prefix st with JArr l, Some ps => tuple_ok ps (st_rest st) l | _, _ => true end.

  Lemma final_C_sem : forall st v,
    conjp (final_C re st (ctype_of v)) v = cC st v && ObjSem st v && ListSem st v.
  Proof.
    intros st v. unfold final_C, cC, conjp, ObjSem, ListSem.
    destruct v; try rewrite ctype_num; simpl; rewrite ?forallb_app; simpl;
      try (destruct (st_prefix st)); try (destruct (st_obj st)); simpl; rewrite ?andb_true_r; reflexivity.
  Qed.

  Lemma final_C_typed : forall st VS t p, Inv T st VS -> In p (final_C re st t) -> forall v, p v = true -> ctype_of v = t.
  Proof.
    intros st VS t p H Hin v Hp. unfold final_C in Hin. apply in_app_or in Hin. destruct Hin as [Hin | Hin].
    - apply (i_Ct _ _ _ H t p Hin v Hp).
    - destruct t; try destruct Hin.
      + destruct (st_prefix st); [|destruct Hin]. destruct Hin as [<- | []]. destruct v; simpl in Hp; try discriminate. reflexivity.
      + destruct (st_obj st); [|destruct Hin]. destruct Hin as [<- | []]. destruct v; simpl in Hp; try discriminate. reflexivity.
  Qed.

  (* the value of one disjunct on an instance *)
  Definition dval (st : state) (t : ctype) (v : json) : bool :=
    match disjunct re st t with Some p => p v | None => false end.

  Lemma dval_spec : forall st VS t v, Inv T st VS ->
    dval st t v = ctype_eqb (ctype_of v) t && allows (st_A st) t && conjp (final_C re st t) v.
  Proof.
    intros st VS t v H. unfold dval, disjunct.
    destruct (final_C re st t) as [|c cs] eqn:E.
    - assert (HK : allows (st_A st) t = true -> allows (st_K st) t = true).
      { apply allows_mono. apply (i_AK _ _ _ H). }
      destruct (allows (st_A st) t) eqn:EA; simpl.
      + rewrite (HK eq_refl). simpl. unfold kind_pred, conjp. simpl. rewrite !andb_true_r. reflexivity.
      + rewrite andb_false_r. reflexivity.
    - destruct (allows (st_A st) t) eqn:EA; simpl.
      + rewrite andb_true_r. destruct (ctype_eqb (ctype_of v) t) eqn:Et; simpl; auto.
        destruct (conjp (c :: cs) v) eqn:Ec; auto. unfold conjp in Ec. simpl in Ec. apply andb_true_iff in Ec.
        destruct Ec as [Ec _]. assert (In c (final_C re st t)) by (rewrite E; left; auto).
        pose proof (final_C_typed st VS t c H H0 v Ec) as X. apply ctype_eqb_eq in X. congruence.
      + rewrite andb_false_r. reflexivity.
  Qed.

  Lemma disjuncts_ev : forall st VS v, Inv T st VS -> needs_disj re st = true ->
    existsb (fun d => d v) (disjuncts re st) = allows (st_A st) (ctype_of v) && conjp (final_C re st (ctype_of v)) v.
  Proof.
    intros st VS v H Hn. unfold disjuncts. rewrite Hn.
    assert (E : forall ts, existsb (fun d => d v)
                 (flat_map (fun t => match disjunct re st t with Some p => [p] | None => [] end) ts) =
               existsb (fun t => dval st t v) ts).
    { induction ts as [|t ts IH]; [reflexivity|].
      change (flat_map (fun t0 => match disjunct re st t0 with Some p => [p] | None => [] end) (t :: ts))
        with ((match disjunct re st t with Some p => [p] | None => [] end) ++
              flat_map (fun t0 => match disjunct re st t0 with Some p => [p] | None => [] end) ts).
      rewrite existsb_app.
      change (existsb (fun t0 => dval st t0 v) (t :: ts)) with (dval st t v || existsb (fun t0 => dval st t0 v) ts).
      f_equal; [|exact IH]. unfold dval.
      destruct (disjunct re st t); simpl; rewrite ?orb_false_r; reflexivity. }
    rewrite E.
    destruct (allows (st_A st) (ctype_of v) && conjp (final_C re st (ctype_of v)) v) eqn:R.
    - apply existsb_exists. exists (ctype_of v). split; [apply all_ctypes_complete|].
      rewrite (dval_spec st VS _ v H), ctype_eqb_refl. simpl. exact R.
    - apply existsb_false_iff. intros t _. rewrite (dval_spec st VS t v H).
      destruct (ctype_eqb (ctype_of v) t) eqn:Et; auto. apply ctype_eqb_eq in Et. subst t. simpl.
      exact R.
  Qed.

  Lemma disjuncts_nonempty : forall st VS, Inv T st VS -> needs_disj re st = true -> mempty (st_A st) = false ->
    disjuncts re st <> [].
  Proof.
    intros st VS H Hn Hne. apply mempty_false in Hne. destruct Hne as [k Hk].
    set (v := kind_witness k).
    assert (Hv : kind_of v = k) by apply kind_witness_kind.
    (* some instance of kind k satisfies the disjunct of its type or not; either way the disjunct exists *)
    intros E. unfold disjuncts in E. rewrite Hn in E.
    assert (X : disjunct re st (ctype_of v) <> None).
    { unfold disjunct. assert (HA : allows (st_A st) (ctype_of v) = true) by (apply allows_kind; rewrite Hv; exact Hk).
      rewrite HA. rewrite (allows_mono _ _ _ (i_AK _ _ _ H) HA). destruct (final_C re st (ctype_of v)); discriminate. }
    assert (In (ctype_of v) all_ctypes) by apply all_ctypes_complete.
    revert E X H0. generalize (ctype_of v). generalize all_ctypes.
    induction l as [|t ts IH]; simpl; intros c E X [].
    - subst t. destruct (disjunct re st c); [discriminate | congruence].
    - apply (IH c); auto. destruct (disjunct re st t); [discriminate | exact E].
  Qed.

  Lemma finalize_ev : forall st VS v, Inv T st VS -> mempty (st_A st) = false ->
    ev (finalize re st) v =
    allc st v && (if needs_disj re st then allows (st_A st) (ctype_of v) && conjp (final_C re st (ctype_of v)) v else true).
  Proof.
    intros st VS v H Hne. unfold finalize. rewrite Hne.
    destruct (needs_disj re st) eqn:Hn.
    - rewrite <- (disjuncts_ev st VS v H Hn).
      pose proof (disjuncts_nonempty st VS H Hn Hne) as Hd.
      unfold allc. destruct (st_all st) as [|c [|c' cs]]; destruct (disjuncts re st) as [|d ds]; try congruence; reflexivity.
    - assert (Ed : disjuncts re st = []) by (unfold disjuncts; rewrite Hn; reflexivity).
      rewrite Ed, andb_true_r. unfold allc. destruct (st_all st) as [|c [|c' cs]]; simpl; rewrite ?andb_true_r; reflexivity.
  Qed.

  (* core st v && ObjSem && ListSem *)
  Definition fin (st : state) (v : json) : bool := core st v && ObjSem st v && ListSem st v.

  Lemma finalize_sem : forall st VS v, Inv T st VS -> mempty (st_A st) = false -> ev (finalize re st) v = fin st v.
  Proof.
    intros st VS v H Hne. rewrite (finalize_ev st VS v H Hne). unfold fin, core.
    destruct (needs_disj re st) eqn:Hn.
    - rewrite final_C_sem. destruct (allc st v), (allows (st_A st) (ctype_of v)), (cC st v), (ObjSem st v), (ListSem st v); reflexivity.
    - rewrite andb_true_r. destruct (allc st v) eqn:Ea; auto. simpl.
      unfold needs_disj in Hn. apply orb_false_iff in Hn. destruct Hn as [Hm Hc].
      apply negb_false_iff in Hm. rewrite meq_true in Hm.
      pose proof (i_K _ _ _ H Hne v Ea) as HK. rewrite <- (allows_ext _ _ _ Hm) in HK. rewrite HK. simpl.
      assert (Hnil : final_C re st (ctype_of v) = []).
      { pose proof (proj1 (existsb_false_iff _ _) Hc (ctype_of v) (all_ctypes_complete _)) as X. cbv beta in X.
        destruct (final_C re st (ctype_of v)); auto. congruence. }
      rewrite <- final_C_sem, Hnil. reflexivity.
  Qed.

  Lemma finalize_allows : forall st VS v, Inv T st VS -> mempty (st_A st) = false ->
    ev (finalize re st) v = true -> allows (st_A st) (ctype_of v) = true.
  Proof.
    intros st VS v H Hne He. rewrite (finalize_ev st VS v H Hne) in He. apply andb_true_iff in He. destruct He as [Ha Hd].
    destruct (needs_disj re st) eqn:Hn.
    - apply andb_true_iff in Hd. tauto.
    - unfold needs_disj in Hn. apply orb_false_iff in Hn. destruct Hn as [Hm _].
      apply negb_false_iff in Hm. rewrite meq_true in Hm.
      rewrite (allows_ext _ _ _ Hm). apply (i_K _ _ _ H Hne v Ha).
  Qed.

  Lemma finalize_wfe : forall st VS, Inv T st VS -> wfe (finalize re st).
  Proof.
    intros st VS H. unfold finalize. destruct (mempty (st_A st)); [apply wfe_err|].
    destruct (st_all st) as [|c [|c' cs]] eqn:E; destruct (disjuncts re st) as [|d ds];
      try apply wfe_top; try (split; simpl; discriminate).
    apply (i_wf _ _ _ H). rewrite E. left; auto.
  Qed.

  Lemma has_constraints_split : forall st,
    has_constraints st = hasc0 st || (match st_obj st with Some _ => true | None => false end) ||
                         (match st_prefix st with Some _ => true | None => false end).
  Proof. intros st. unfold has_constraints, hasc0. reflexivity. Qed.

  (* from the invariant to the guarantees of the result *)
  Lemma good_of_inv : forall s st VS,
    Inv T st VS ->
    (forall v, T (kind_of v) = true -> (valid re s v = true <-> VS v /\ ObjSem st v = true /\ ListSem st v = true)) ->
    Good re T s (result_of re st).
  Proof.
    intros s st VS H Hval. unfold result_of.
    destruct (mempty (st_A st)) eqn:Hne.
    - (* nothing is allowed *)
      assert (Hfalse : forall v, T (kind_of v) = true -> valid re s v = false).
      { intros v Hv. destruct (valid re s v) eqn:E; auto. apply (Hval v Hv) in E. destruct E as [E _].
        pose proof (i_snd _ _ _ H v Hv E) as X. rewrite mempty_true in Hne. rewrite Hne in X. discriminate. }
      assert (Ef : finalize re st = e_err) by (unfold finalize; rewrite Hne; reflexivity).
      constructor; simpl; rewrite ?Ef; simpl.
      + intros v Hv. rewrite (Hfalse v Hv). reflexivity.
      + intros v Hv E. rewrite (Hfalse v Hv) in E. discriminate.
      + intros v E. discriminate.
      + apply (i_AT _ _ _ H).
      + apply (i_AK _ _ _ H).
      + rewrite Hne. discriminate.
      + apply wfe_err.
      + intros _. right. split.
        * intros k k' _ _ _. rewrite mempty_true in Hne. rewrite !Hne. reflexivity.
        * intros v _ X. rewrite mempty_true in Hne. rewrite Hne in X. discriminate.
    - constructor; simpl.
      + intros v Hv. rewrite (finalize_sem st VS v H Hne). unfold fin.
        destruct (valid re s v) eqn:E.
        * apply (Hval v Hv) in E. destruct E as (E1 & E2 & E3). rewrite (proj2 (i_M _ _ _ H v Hv) E1), E2, E3. reflexivity.
        * destruct (core st v && ObjSem st v && ListSem st v) eqn:R; auto.
          rewrite !andb_true_iff in R. destruct R as [[R1 R2] R3].
          assert (X : valid re s v = true) by (apply (Hval v Hv); split; [apply (i_M _ _ _ H v Hv); exact R1 | auto]).
          congruence.
      + intros v Hv E. apply (Hval v Hv) in E. destruct E as [E _]. apply (i_snd _ _ _ H v Hv E).
      + intros v E. apply (finalize_allows st VS v H Hne E).
      + apply (i_AT _ _ _ H).
      + auto.
      + intros _. right. auto.
      + apply (finalize_wfe st VS H).
      + intros Hh. right. rewrite has_constraints_split in Hh. apply orb_false_iff in Hh. destruct Hh as [Hh Hp].
        apply orb_false_iff in Hh. destruct Hh as [Hh Ho].
        destruct (i_H _ _ _ H Hh) as [Hback Hcc]. split; auto.
        intros v Hv HA. apply (Hval v Hv). split; [apply Hback; auto|].
        unfold ObjSem, ListSem. destruct (st_obj st); [discriminate|]. destruct (st_prefix st); [discriminate|].
        destruct v; auto.
  Qed.

End Final.
