(* if/then/else, contains, items, prefixItems, propertyNames, and the steps that
   only touch the struct / list under construction. *)
From Verif Require Import Schema.Json Schema.Sem Schema.Encode Schema.Proofs Schema.Invariant Schema.Steps1 Schema.Steps2.
From Coq Require Import List NArith ZArith Bool Lia.
Import ListNotations.

Section Steps4.
  Variable re : pat -> str -> bool.
  Variable T : mask.

  (* a subschema turned into  types |-> schemaState(sub, types) *)
  Definition GoodSub (s : schema) (f : mask -> result) : Prop :=
    forall M, r_dev (f M) = [] -> Good re M s (f M).
  Definition OGood (os : option schema) (of : option (mask -> result)) : Prop :=
    match os, of with
    | Some s, Some f => GoodSub s f
    | None, None => True
    | _, _ => False
    end.

  (* states that agree on what the invariant talks about *)
  Lemma inv_same_core : forall st st' VS,
    st_A st = st_A st' -> st_K st = st_K st' -> st_all st = st_all st' -> st_C st = st_C st' ->
    Inv T st VS -> Inv T st' VS.
  Proof.
    intros st st' VS EA EK Eall EC [h1 h2 h3 h4 h5 h6 h7 h8].
    assert (Ecore : forall v, core st' v = core st v).
    { intros v. unfold core, allc, cC. rewrite <- EA, <- Eall, <- EC. reflexivity. }
    constructor.
    - rewrite <- EA, <- EK. exact h1.
    - rewrite <- EA. exact h2.
    - rewrite <- EA. exact h3.
    - intros v Hv. rewrite Ecore. auto.
    - rewrite <- EA, <- EK. unfold allc in *. rewrite <- Eall. exact h5.
    - rewrite <- EC. exact h6.
    - unfold hasc0. rewrite <- EA, <- Eall, <- EC. exact h7.
    - rewrite <- Eall. exact h8.
  Qed.

  (* ---------- if / then / else ---------- *)
  Definition ite_valid (oi ot oe : option schema) (v : json) : bool :=
    match oi with
    | Some i => if valid re i v then optb (fun s' => valid re s' v) ot else optb (fun s' => valid re s' v) oe
    | None => true
    end.

  Lemma inv_step_ite : forall oi ot oe fi ft fe st VS,
    OGood oi fi -> OGood ot ft -> OGood oe fe ->
    Inv T st VS -> st_dev (step_ite fi ft fe st) = [] ->
    Inv T (step_ite fi ft fe st) (fun v => VS v /\ ite_valid oi ot oe v = true).
  Proof.
    intros oi ot oe fi ft fe st VS Gi Gt Ge H Hdev.
    unfold step_ite in *.
    destruct fi as [si|]; destruct oi as [i|]; simpl in Gi; try contradiction;
      [| eapply inv_ext; [|exact H]; intros; simpl; tauto].
    assert (Hnone : ft = None -> fe = None -> Inv T st (fun v => VS v /\ ite_valid (Some i) ot oe v = true)).
    { intros -> ->. destruct ot, oe; simpl in Gt, Ge; try contradiction.
      eapply inv_ext; [|exact H]. intros v _. simpl. destruct (valid re i v); tauto. }
    destruct ft as [st'|] eqn:Eft; destruct fe as [se|] eqn:Efe; try (apply Hnone; reflexivity);
      clear Hnone.
    all: set (ri := si (st_A st)) in *.
    all: set (s1 := absorb ri st) in *.
    (* the three remaining shapes are handled uniformly *)
    all: match type of Hdev with
         | st_dev (add_all (dev_if ?c _ ?s3) ?e) = [] =>
           set (ex := e) in *; set (sflags := s3) in *; set (cond := c) in *
         end.
    all: assert (Dd : st_dev (add_all (dev_if cond DEV_error_argument sflags) ex) = st_dev (dev_if cond DEV_error_argument sflags))
           by (unfold add_all; destruct (is_top ex); reflexivity).
    all: rewrite Dd, dev_dev_if in Hdev; apply app_eq_nil in Hdev; destruct Hdev as [Dfl Dc].
    all: assert (Hc : cond = false) by (destruct cond; [discriminate | reflexivity]); clear Dc.
    all: assert (Esem : sem_eq st (dev_if cond DEV_error_argument sflags)).
    1: { eapply sem_eq_trans; [|apply sem_eq_dev_if]. unfold sflags.
         eapply sem_eq_trans; [|apply sem_eq_absorb]. eapply sem_eq_trans; [|apply sem_eq_absorb]. apply sem_eq_absorb. }
    2: { eapply sem_eq_trans; [|apply sem_eq_dev_if]. unfold sflags.
         eapply sem_eq_trans; [|apply sem_eq_absorb]. apply sem_eq_absorb. }
    3: { eapply sem_eq_trans; [|apply sem_eq_dev_if]. unfold sflags.
         eapply sem_eq_trans; [|apply sem_eq_absorb]. apply sem_eq_absorb. }
    all: assert (E : sem_eq (upd st (st_A st) (st_K st) ex) (add_all (dev_if cond DEV_error_argument sflags) ex))
           by (unfold upd; apply sem_eq_add_all; eapply sem_eq_trans; [apply sem_eq_setAK_id | exact Esem]).
    all: eapply inv_sem_eq; [exact E|]; clear E Esem Dd.
    all: unfold sflags in Dfl; rewrite ?dev_absorb in Dfl.
    - (* then and else *)
      destruct ot as [t|], oe as [e|]; simpl in Gt, Ge; try contradiction.
      apply app_eq_nil in Dfl. destruct Dfl as [Dfl De]. apply app_eq_nil in Dfl. destruct Dfl as [Dfl Dt].
      apply app_eq_nil in Dfl. destruct Dfl as [_ Di].
      pose proof (Gi _ Di) as GI. pose proof (Gt _ Dt) as GT. pose proof (Ge _ De) as GE.
      fold ri in GI, GT.
      unfold cond in Hc. apply orb_false_iff in Hc. destruct Hc as [Hc He]. apply orb_false_iff in Hc. destruct Hc as [Hi Ht].
      assert (Hev : forall v, st_A st (kind_of v) = true -> ev ex v = ite_valid (Some i) (Some t) (Some e) v).
      { intros v HA. unfold ex. simpl. unfold matchIf. rewrite Hi, Ht, He. simpl.
        rewrite (g_ev _ _ _ _ GI v HA). destruct (valid re i v) eqn:Ei.
        - apply (g_ev _ _ _ _ GT v). unfold mand. rewrite HA. simpl. apply (g_snd _ _ _ _ GI v HA Ei).
        - apply (g_ev _ _ _ _ GE v HA). }
      apply inv_upd; try exact H; auto.
      + split; simpl; discriminate.
      + apply (i_AK _ _ _ H).
      + intros v HA _ Hx _. rewrite <- (Hev v HA). exact Hx.
      + intros v HA Hq. rewrite (Hev v HA). exact Hq.
      + intros v Hv HVS _. apply (i_snd _ _ _ H v Hv HVS).
      + intros Hn v Hall _. apply (i_K _ _ _ H Hn v Hall).
      + simpl. discriminate.
    - (* then only *)
      destruct ot as [t|], oe as [e|]; simpl in Gt, Ge; try contradiction.
      apply app_eq_nil in Dfl. destruct Dfl as [Dfl Dt]. apply app_eq_nil in Dfl. destruct Dfl as [_ Di].
      pose proof (Gi _ Di) as GI. pose proof (Gt _ Dt) as GT. fold ri in GI, GT.
      unfold cond in Hc. apply orb_false_iff in Hc. destruct Hc as [Hc _]. apply orb_false_iff in Hc. destruct Hc as [Hi Ht].
      assert (Hev : forall v, st_A st (kind_of v) = true -> ev ex v = ite_valid (Some i) (Some t) None v).
      { intros v HA. unfold ex. simpl. unfold matchIf. rewrite Hi, Ht. simpl.
        rewrite (g_ev _ _ _ _ GI v HA). destruct (valid re i v) eqn:Ei; auto.
        apply (g_ev _ _ _ _ GT v). unfold mand. rewrite HA. simpl. apply (g_snd _ _ _ _ GI v HA Ei). }
      apply inv_upd; try exact H; auto.
      + split; simpl; discriminate.
      + apply (i_AK _ _ _ H).
      + intros v HA _ Hx _. rewrite <- (Hev v HA). exact Hx.
      + intros v HA Hq. rewrite (Hev v HA). exact Hq.
      + intros v Hv HVS _. apply (i_snd _ _ _ H v Hv HVS).
      + intros Hn v Hall _. apply (i_K _ _ _ H Hn v Hall).
      + simpl. discriminate.
    - (* else only *)
      destruct ot as [t|], oe as [e|]; simpl in Gt, Ge; try contradiction.
      apply app_eq_nil in Dfl. destruct Dfl as [Dfl De]. apply app_eq_nil in Dfl. destruct Dfl as [_ Di].
      pose proof (Gi _ Di) as GI. pose proof (Ge _ De) as GE. fold ri in GI.
      unfold cond in Hc. apply orb_false_iff in Hc. destruct Hc as [Hc He]. apply orb_false_iff in Hc. destruct Hc as [Hi _].
      assert (Hev : forall v, st_A st (kind_of v) = true -> ev ex v = ite_valid (Some i) None (Some e) v).
      { intros v HA. unfold ex. simpl. unfold matchIf. rewrite Hi, He. simpl.
        rewrite (g_ev _ _ _ _ GI v HA). destruct (valid re i v) eqn:Ei; auto.
        apply (g_ev _ _ _ _ GE v HA). }
      apply inv_upd; try exact H; auto.
      + split; simpl; discriminate.
      + apply (i_AK _ _ _ H).
      + intros v HA _ Hx _. rewrite <- (Hev v HA). exact Hx.
      + intros v HA Hq. rewrite (Hev v HA). exact Hq.
      + intros v Hv HVS _. apply (i_snd _ _ _ H v Hv HVS).
      + intros Hn v Hall _. apply (i_K _ _ _ H Hn v Hall).
      + simpl. discriminate.
  Qed.

  (* ---------- contains ---------- *)
  Lemma inv_step_contains : forall lo hi s' r st VS,
    Inv T st VS -> Good re mall s' r ->
    Inv T (step_contains lo hi r st)
        (fun v => VS v /\ on_arr (fun vs => in_range (count (valid re s') vs) lo hi) v = true).
  Proof.
    intros lo hi s' r st VS H G. unfold step_contains.
    set (s0 := dev_if (is_err (r_e r)) DEV_error_argument (absorb r st)).
    assert (H' : Inv T s0 VS).
    { eapply inv_sem_eq; [|exact H]. eapply sem_eq_trans; [apply sem_eq_absorb | apply sem_eq_dev_if]. }
    pose proof (inv_arr T (fun vs => in_range (count (ev (r_e r)) vs) lo hi) s0 VS H') as X.
    eapply inv_ext; [|exact X].
    intros v _. destruct v; simpl; try tauto.
    rewrite (count_ext (ev (r_e r)) (valid re s')) by (intros x _; apply (g_ev _ _ _ _ G x eq_refl)). tauto.
  Qed.

  (* ---------- items ---------- *)
  Lemma inv_step_items : forall s' r st VS,
    Inv T st VS -> Good re mall s' r ->
    Inv T (step_items r st)
        (fun v => VS v /\ (st_prefix st = None -> on_arr (forallb (valid re s')) v = true)).
  Proof.
    intros s' r st VS H G. unfold step_items.
    assert (E0 : sem_eq st (absorb r st)) by apply sem_eq_absorb.
    assert (Ep : st_prefix (absorb r st) = st_prefix st) by (destruct E0 as (_ & _ & _ & _ & _ & e & _); congruence).
    rewrite Ep. destruct (st_prefix st) as [ps|] eqn:Eps.
    - (* only the list literal changes *)
      assert (H' : Inv T (absorb r st) VS) by (eapply inv_sem_eq; [exact E0 | exact H]).
      eapply inv_ext with (VS := VS); [intros v _; split; [intros; split; auto; discriminate | tauto]|].
      destruct (is_err (r_e r)); [|destruct (is_top (r_e r))]; try exact H';
        (eapply inv_same_core; [| | | | exact H']; reflexivity).
    - assert (H' : Inv T (absorb r st) VS) by (eapply inv_sem_eq; [exact E0 | exact H]).
      pose proof (inv_arr T (forallb (ev (r_e r))) _ VS H') as X.
      eapply inv_ext; [|exact X].
      intros v _. destruct v; simpl; try tauto.
      assert (Y : forallb (ev (r_e r)) l = forallb (valid re s') l).
      { induction l as [|x l IH]; simpl; auto. rewrite IH, (g_ev _ _ _ _ G x eq_refl). reflexivity. }
      rewrite Y. tauto.
  Qed.

  (* ---------- propertyNames, inside the fragment: the names schema is `_` ---------- *)
  Lemma inv_step_pnames : forall s' r st VS,
    Inv T st VS -> Good re (msingle KStr) s' r -> is_top (r_e r) = true ->
    Inv T (step_pnames r st) (fun v => VS v /\ on_obj (fun m => forallb (fun kv => valid re s' (JStr (fst kv))) m) v = true).
  Proof.
    intros s' r st VS H G Ht. unfold step_pnames. rewrite Ht.
    destruct (good_top_full _ _ _ _ G Ht) as [_ HV].
    eapply inv_ext with (VS := VS).
    - intros v _. split; [|tauto]. intros X. split; auto. destruct v; simpl; auto.
      apply forallb_forall. intros kv _. apply HV. reflexivity.
    - eapply inv_sem_eq; [|exact H]. eapply sem_eq_trans; [apply sem_eq_absorb | apply sem_eq_dev_if].
  Qed.

  (* ---------- maximum / minimum ---------- *)
  Lemma inv_phase2_bounds : forall a st VS,
    Inv T st VS ->
    Inv T (phase2_bounds a st)
        (fun v => (VS v /\ optP (fun b => on_num (fun h => Z.leb h b) v = true) (a_max a)) /\
                  optP (fun b => on_num (fun h => Z.leb b h) v = true) (a_min a)).
  Proof.
    intros a st VS H. unfold phase2_bounds.
    apply (inv_opt_step T); [intros x s0 V0 H0; apply inv_num; exact H0|].
    apply (inv_opt_step T); [intros x s0 V0 H0; apply inv_num; exact H0|]. exact H.
  Qed.

End Steps4.
