(* The compiler-correctness theorem of the encoding: encode_correct. *)
From Verif Require Import Schema.Json Schema.Sem Schema.Encode Schema.Proofs Schema.Invariant Schema.Steps1
     Schema.Steps2 Schema.Steps3 Schema.Steps4 Schema.ObjSem Schema.Final Schema.Track.
From Coq Require Import List NArith ZArith Bool Lia.
Import ListNotations.

Ltac dnil H := repeat (apply app_eq_nil in H; let H' := fresh in destruct H as [H H']; clear H').

Lemma optb_optP : forall {A} (f : A -> bool) o, optb f o = true <-> optP (fun x => f x = true) o.
Proof. intros A f [x|]; simpl; tauto. Qed.

Section Main.
  Variable re : pat -> str -> bool.

  Definition P (s : schema) : Prop := GoodSub re s (enc re s).
  Definition LGood (l : list schema) (fl : list sub) : Prop := Forall2 (GoodSub re) l fl.
  Definition OLGood (ol : option (list schema)) (o : option (list sub)) : Prop :=
    match ol, o with Some l, Some fl => LGood l fl | None, None => True | _, _ => False end.

  Lemma lgood_map : forall l, Forall P l -> LGood l (map (enc re) l).
  Proof. induction 1; simpl; constructor; auto. Qed.
  Lemma ogood_map : forall o, optP P o -> OGood re o (option_map (enc re) o).
  Proof. intros [s|] H; simpl; auto. Qed.
  Lemma olgood_map : forall o, optP (Forall P) o -> OLGood o (option_map (map (enc re)) o).
  Proof. intros [l|] H; simpl; auto. apply lgood_map; auto. Qed.

  Lemma good_bool : forall b M, Good re M (SBool b) (bool_result b M).
  Proof.
    intros b M. constructor; simpl; auto.
    - intros v _. destruct b; reflexivity.
    - intros v _. apply allows_iff. exists (kind_of v). split; auto.
    - destruct b; [apply wfe_top | apply wfe_err].
    - intros _. destruct b.
      + right. split; [intros k k' _ H1 H2; congruence | auto].
      + destruct (mempty M) eqn:E.
        * right. rewrite mempty_true in E. split; [intros k k' _ H1 _; rewrite E in H1; discriminate|].
          intros v Hv. rewrite E in Hv. discriminate.
        * left. auto.
  Qed.

  Variable T : mask.

  (* ---------- the loops ---------- *)
  Lemma allOf_loop_run : forall l fl, LGood l fl -> forall A rs A',
    allOf_loop fl A = (rs, A') -> flat_map r_dev rs = [] -> Run re A l rs A'.
  Proof.
    induction 1 as [|s f l fl G F IH]; intros A rs A' E D; simpl in E.
    - injection E as <- <-. constructor.
    - destruct (allOf_loop fl (mand A (r_A (f A)))) as [rs0 A0] eqn:E0. injection E as <- <-.
      simpl in D. apply app_eq_nil in D. destruct D as [D1 D2].
      constructor; [apply G; exact D1 | apply IH; auto].
  Qed.

  Lemma par_good : forall l fl, LGood l fl -> forall A,
    flat_map r_dev (map (fun f => f A) fl) = [] -> Forall2 (Good re A) l (map (fun f => f A) fl).
  Proof.
    induction 1 as [|s f l fl G F IH]; intros A D; simpl in *; constructor.
    - apply app_eq_nil in D. apply G. tauto.
    - apply IH. apply app_eq_nil in D. tauto.
  Qed.

  Lemma lgood_len : forall l fl, LGood l fl -> length fl = length l.
  Proof. induction 1; simpl; auto. Qed.

  (* ---------- every keyword step: deviation list, invariant ---------- *)
  Lemma do_ref_dev : forall o st, st_dev (do_ref o st) = [] -> st_dev st = [].
  Proof. intros [f|] st H; unfold do_ref in H; auto. rewrite dev_step_ref in H. dnil H. exact H. Qed.
  Lemma do_ref_inv : forall os o st VS, OGood re os o -> Inv T st VS -> st_dev (do_ref o st) = [] ->
    Inv T (do_ref o st) (fun v => VS v /\ optb (fun s' => valid re s' v) os = true).
  Proof.
    intros [s|] [f|] st VS G H D; unfold do_ref, OGood, OLGood in *; try contradiction; cbn [optb optP].
    - rewrite dev_step_ref in D. apply app_eq_nil in D. apply inv_step_ref; auto. apply G. tauto.
    - eapply inv_ext; [|exact H]. intros; tauto.
  Qed.

  Lemma do_allOf_dev : forall o st, st_dev (do_allOf o st) = [] -> st_dev st = [].
  Proof.
    intros [l|] st H; unfold do_allOf in H; auto. destruct (allOf_loop l (st_A st)) as [rs A'].
    rewrite dev_dev_if in H. apply app_eq_nil in H. destruct H as [H _].
    apply dev_step_allOf in H. tauto.
  Qed.
  Lemma do_allOf_inv : forall ol o st VS, OLGood ol o -> Inv T st VS -> st_dev (do_allOf o st) = [] ->
    Inv T (do_allOf o st) (fun v => VS v /\ optb (fun l => forallb (fun s' => valid re s' v) l) ol = true).
  Proof.
    intros [l|] [fl|] st VS G H D; unfold do_allOf, OGood, OLGood in *; try contradiction; cbn [optb optP].
    - destruct (allOf_loop fl (st_A st)) as [rs A'] eqn:E.
      rewrite dev_dev_if in D. apply app_eq_nil in D. destruct D as [D _].
      destruct (dev_step_allOf _ _ _ _ D) as (_ & D2 & D3).
      pose proof (allOf_loop_run _ _ G _ _ _ E D2) as R.
      eapply inv_sem_eq; [apply sem_eq_dev_if|].
      rewrite (lgood_len _ _ G) in *. apply inv_step_allOf; auto.
    - eapply inv_ext; [|exact H]. intros; tauto.
  Qed.

  Lemma do_anyOf_dev : forall o st, st_dev (do_anyOf o st) = [] -> st_dev st = [].
  Proof.
    intros [l|] st H; unfold do_anyOf in H; auto. rewrite dev_dev_if in H. apply app_eq_nil in H. destruct H as [H _].
    apply dev_step_anyOf in H. tauto.
  Qed.
  Lemma do_anyOf_inv : forall ol o st VS, OLGood ol o -> Inv T st VS -> st_dev (do_anyOf o st) = [] ->
    Inv T (do_anyOf o st) (fun v => VS v /\ optb (fun l => existsb (fun s' => valid re s' v) l) ol = true).
  Proof.
    intros [l|] [fl|] st VS G H D; unfold do_anyOf, OGood, OLGood in *; try contradiction; cbn [optb optP].
    - rewrite dev_dev_if in D. apply app_eq_nil in D. destruct D as [D _].
      destruct (dev_step_anyOf _ _ _ D) as (_ & D2).
      eapply inv_sem_eq; [apply sem_eq_dev_if|].
      rewrite (lgood_len _ _ G). apply inv_step_anyOf; auto. apply par_good; auto.
    - eapply inv_ext; [|exact H]. intros; tauto.
  Qed.

  Lemma do_oneOf_dev : forall o st, st_dev (do_oneOf o st) = [] -> st_dev st = [].
  Proof.
    intros [l|] st H; unfold do_oneOf in H; auto. rewrite dev_dev_if in H. apply app_eq_nil in H. destruct H as [H _].
    apply dev_step_oneOf in H. tauto.
  Qed.
  Lemma do_oneOf_inv : forall ol o st VS, OLGood ol o -> Inv T st VS -> st_dev (do_oneOf o st) = [] ->
    Inv T (do_oneOf o st)
        (fun v => VS v /\ optb (fun l => Nat.eqb (count (fun s' => valid re s' v) l) 1) ol = true).
  Proof.
    intros [l|] [fl|] st VS G H D; unfold do_oneOf, OGood, OLGood in *; try contradiction; cbn [optb optP].
    - rewrite dev_dev_if in D. apply app_eq_nil in D. destruct D as [D _].
      destruct (dev_step_oneOf _ _ _ D) as (_ & D2 & D3).
      eapply inv_sem_eq; [apply sem_eq_dev_if|].
      rewrite (lgood_len _ _ G). apply inv_step_oneOf; auto. apply par_good; auto.
    - eapply inv_ext; [|exact H]. intros; tauto.
  Qed.

  Lemma do_not_dev : forall o st, st_dev (do_not o st) = [] -> st_dev st = [].
  Proof. intros [f|] st H; unfold do_not in H; auto. rewrite dev_dev_if, dev_step_not in H. dnil H. exact H. Qed.
  Lemma do_not_inv : forall os o st VS, OGood re os o -> Inv T st VS -> st_dev (do_not o st) = [] ->
    Inv T (do_not o st) (fun v => VS v /\ optb (fun s' => negb (valid re s' v)) os = true).
  Proof.
    intros [s|] [f|] st VS G H D; unfold do_not, OGood, OLGood in *; try contradiction; cbn [optb optP].
    - rewrite dev_dev_if in D. apply app_eq_nil in D. destruct D as [D _].
      rewrite dev_step_not in D. apply app_eq_nil in D.
      eapply inv_sem_eq; [apply sem_eq_dev_if|]. apply inv_step_not; auto. apply G. tauto.
    - eapply inv_ext; [|exact H]. intros; tauto.
  Qed.

  (* steps that only touch the struct / list literal *)
  Lemma inv_set_obj : forall st o VS, Inv T st VS -> Inv T (set_obj st o) VS.
  Proof. intros. eapply inv_same_core; [| | | | exact H]; reflexivity. Qed.
  Lemma inv_set_list : forall st p r VS, Inv T st VS -> Inv T (set_list st p r) VS.
  Proof. intros. eapply inv_same_core; [| | | | exact H]; reflexivity. Qed.

  Lemma do_props_dev : forall o st, st_dev (do_props o st) = [] -> st_dev st = [].
  Proof. intros [l|] st H; unfold do_props in H; auto. rewrite dev_step_props in H. dnil H. exact H. Qed.
  Lemma do_props_inv : forall o st VS, Inv T st VS -> Inv T (do_props o st) VS.
  Proof.
    intros [l|] st VS H; simpl; auto. unfold step_props. apply inv_set_obj.
    eapply inv_sem_eq; [|exact H]. eapply sem_eq_trans; [apply sem_eq_absorb_all | apply sem_eq_dev_if].
  Qed.
  Lemma do_pprops_dev : forall o st, st_dev (do_pprops o st) = [] -> st_dev st = [].
  Proof. intros [l|] st H; unfold do_pprops in H; auto. rewrite dev_step_pprops in H. dnil H. exact H. Qed.
  Lemma do_pprops_inv : forall o st VS, Inv T st VS -> Inv T (do_pprops o st) VS.
  Proof.
    intros [l|] st VS H; simpl; auto. unfold step_pprops. apply inv_set_obj.
    eapply inv_sem_eq; [|exact H]. apply sem_eq_absorb_all.
  Qed.

  Lemma do_pnames_dev : forall o st, st_dev (do_pnames o st) = [] -> st_dev st = [].
  Proof. intros [f|] st H; unfold do_pnames in H; auto. rewrite dev_step_pnames in H. dnil H. exact H. Qed.
  Lemma do_pnames_inv : forall os o st VS, OGood re os o -> Inv T st VS -> st_dev (do_pnames o st) = [] ->
    Inv T (do_pnames o st)
        (fun v => VS v /\ optb (fun s' => on_obj (fun m => forallb (fun kv => valid re s' (JStr (fst kv))) m) v) os = true).
  Proof.
    intros [s|] [f|] st VS G H D; unfold do_pnames, OGood, OLGood in *; try contradiction; cbn [optb optP].
    - rewrite dev_step_pnames in D. apply app_eq_nil in D. destruct D as [_ D].
      apply app_eq_nil in D. destruct D as [D1 D2].
      apply inv_step_pnames; auto.
      destruct (is_top (r_e (f (msingle KStr)))); [reflexivity | discriminate].
    - eapply inv_ext; [|exact H]. intros; tauto.
  Qed.

  Lemma do_prefix_dev : forall o st, st_dev (do_prefix o st) = [] -> st_dev st = [].
  Proof. intros [l|] st H; unfold do_prefix in H; auto. rewrite dev_step_prefix in H. dnil H. exact H. Qed.
  Lemma do_prefix_inv : forall o st VS, Inv T st VS -> Inv T (do_prefix o st) VS.
  Proof.
    intros [l|] st VS H; simpl; auto. unfold step_prefix. apply inv_set_list.
    eapply inv_sem_eq; [|exact H]. eapply sem_eq_trans; [apply sem_eq_absorb_all | apply sem_eq_dev_if].
  Qed.

  Lemma do_contains_dev : forall a o st, st_dev (do_contains a o st) = [] -> st_dev st = [].
  Proof. intros a [f|] st H; unfold do_contains in H; auto. rewrite dev_step_contains in H. dnil H. exact H. Qed.
  Lemma do_contains_inv : forall a os o st VS, OGood re os o -> Inv T st VS -> st_dev (do_contains a o st) = [] ->
    Inv T (do_contains a o st)
        (fun v => VS v /\ optb (fun s' => on_arr (fun vs => in_range (count (valid re s') vs)
                                    (match a_minContains a with Some n => n | None => 1%N end) (a_maxContains a)) v) os = true).
  Proof.
    intros a [s|] [f|] st VS G H D; unfold do_contains, OGood, OLGood in *; try contradiction; cbn [optb optP].
    - rewrite dev_step_contains in D. apply app_eq_nil in D. destruct D as [_ D]. apply app_eq_nil in D.
      apply inv_step_contains; auto. apply G. tauto.
    - eapply inv_ext; [|exact H]. intros; tauto.
  Qed.

  Lemma do_addl_dev : forall syn o st, st_dev (do_addl syn o st) = [] -> st_dev st = [].
  Proof.
    intros [[b|a p]|] [f|] st H; unfold do_addl in H; auto.
    rewrite dev_step_addl_schema in H. dnil H. exact H.
  Qed.
  Lemma do_addl_inv : forall syn o st VS, Inv T st VS -> Inv T (do_addl syn o st) VS.
  Proof.
    intros [[b|a p]|] [f|] st VS H; simpl; auto; try (apply inv_set_obj; exact H).
    unfold step_addl_schema.
    assert (H' : Inv T (absorb (f mall) st) VS) by (eapply inv_sem_eq; [apply sem_eq_absorb | exact H]).
    destruct (ob_no_elts (the_obj (absorb (f mall) st))); apply inv_set_obj; exact H'.
  Qed.

  Lemma do_items_dev : forall o st, st_dev (do_items o st) = [] -> st_dev st = [].
  Proof. intros [f|] st H; unfold do_items in H; auto. rewrite dev_step_items in H. dnil H. exact H. Qed.
  Lemma do_items_inv : forall os o st VS, OGood re os o -> Inv T st VS -> st_dev (do_items o st) = [] ->
    Inv T (do_items o st)
        (fun v => VS v /\ optP (fun s' => st_prefix st = None -> on_arr (forallb (valid re s')) v = true) os).
  Proof.
    intros [s|] [f|] st VS G H D; unfold do_items, OGood, OLGood in *; try contradiction; cbn [optb optP].
    - rewrite dev_step_items in D. apply app_eq_nil in D. apply inv_step_items; auto. apply G. tauto.
    - eapply inv_ext; [|exact H]. intros; tauto.
  Qed.

  Lemma required_dev : forall o st, st_dev (opt_step step_required o st) = [] -> st_dev st = [].
  Proof. intros [req|] st H; unfold opt_step in H; auto. rewrite dev_step_required in H. dnil H. exact H. Qed.
  Lemma required_inv : forall o st VS, Inv T st VS -> Inv T (opt_step step_required o st) VS.
  Proof.
    intros [req|] st VS H; simpl; auto. unfold step_required. apply inv_set_obj.
    eapply inv_sem_eq; [apply sem_eq_dev_if|]. destruct (nodup_str req); auto.
    eapply inv_sem_eq; [apply sem_eq_set_bad | exact H].
  Qed.

  Lemma phase1_dev : forall a st, st_dev (phase1 re a st) = [] -> st_dev st = [].
  Proof. intros a st H. rewrite dev_phase1 in H. exact H. Qed.

  (* ---------- the struct literal as a whole ---------- *)
  Lemma forallb_andb : forall {X} (f g : X -> bool) l, forallb (fun x => f x && g x) l = forallb f l && forallb g l.
  Proof.
    induction l as [|x l IH]; simpl; auto. rewrite IH.
    destruct (f x), (g x), (forallb f l), (forallb g l); reflexivity.
  Qed.
  Lemma forallb_ext' : forall {X} (f g : X -> bool) l, (forall x, f x = g x) -> forallb f l = forallb g l.
  Proof. induction l as [|x l IH]; intros H; simpl; auto. rewrite H, IH; auto. Qed.
  Lemma forallb_true : forall {X} (l : list X), forallb (fun _ => true) l = true.
  Proof. induction l; simpl; auto. Qed.

  Definition olist {X} (o : option (list X)) : list X := match o with Some l => l | None => [] end.

  Lemma is_additional_norm : forall (o1 : option (list (str * schema))) (o2 : option (list (pat * schema))) k,
    is_additional re o1 o2 k = negb (has_key k (olist o1)) && negb (existsb (fun ps => re (fst ps) k) (olist o2)).
  Proof. intros [l1|] [l2|] k; reflexivity. Qed.

  Section Struct.
    Variable lp : list (str * schema).
    Variable lpp : list (pat * schema).
    Variable rp : list (str * expr).
    Variable rpp : list (pat * expr).
    Hypothesis Hp : Forall2 (fun ks kr => fst ks = fst kr /\ forall x, ev (snd kr) x = valid re (snd ks) x) lp rp.
    Hypothesis Hpp : Forall2 (fun ps pr => fst ps = fst pr /\ forall x, ev (snd pr) x = valid re (snd ps) x) lpp rpp.
    Variable req : list str.

    Definition sp_props (m : list (str * json)) : bool :=
      forallb (fun kv => forallb (fun ks => negb (str_eqb (fst kv) (fst ks)) || valid re (snd ks) (snd kv)) lp) m.
    Definition sp_pprops (m : list (str * json)) : bool :=
      forallb (fun kv => forallb (fun ps => negb (re (fst ps) (fst kv)) || valid re (snd ps) (snd kv)) lpp) m.
    Definition sp_req (m : list (str * json)) : bool := forallb (fun k => has_key k m) req.
    Definition is_add (k : str) : bool := negb (has_key k lp) && negb (existsb (fun ps => re (fst ps) k) lpp).

    Lemma struct_common : forall ad op m,
      struct_ok re (mkO (req_fold req (fields0 rp)) rpp ad op) m =
      sp_props m && sp_pprops m &&
      forallb (fun kv => match ad with
                         | Some a0 => match addl_applies re a0 (fst kv) with Some e => ev e (snd kv) | None => true end
                         | None => true
                         end) m &&
      forallb (fun kv => match op with
                         | ExplicitlyClosed => has_key (fst kv) lp || mem_str (fst kv) req || existsb (fun ps => re (fst ps) (fst kv)) lpp
                         | _ => true
                         end) m &&
      sp_req m.
    Proof.
      intros ad op m. unfold struct_ok. cbn [ob_fields ob_pats ob_addl ob_open].
      change (forallb (fun f => negb (f_req f) || has_key (f_name f) m) (req_fold req (fields0 rp)))
        with (forallb (freq_ok m) (req_fold req (fields0 rp))).
      rewrite req_fold_req, fields0_req. rewrite andb_true_l. f_equal.
      unfold sp_props, sp_pprops. rewrite <- !forallb_andb. apply forallb_ext'. intros [k v]. cbn [fst snd].
      change (forallb (fun f => negb (str_eqb k (f_name f)) || ev (f_val f) v) (req_fold req (fields0 rp)))
        with (forallb (fval_ok k v) (req_fold req (fields0 rp))).
      rewrite req_fold_vals, (fields0_vals lp (valid re) rp k v Hp).
      rewrite (pats_vals re lpp (valid re) rpp k v Hpp).
      f_equal. destruct op; auto.
      rewrite req_fold_names, (fields0_names lp (valid re) rp k Hp), (pats_names re lpp (valid re) rpp k Hpp). reflexivity.
    Qed.

    (* additionalProperties absent or true *)
    Lemma struct_open : forall op m, op <> ExplicitlyClosed ->
      struct_ok re (mkO (req_fold req (fields0 rp)) rpp None op) m = sp_props m && sp_pprops m && sp_req m.
    Proof.
      intros op m Hop. rewrite struct_common. rewrite forallb_true, andb_true_r.
      assert (E : forallb (fun kv : str * json => match op with ExplicitlyClosed =>
                    has_key (fst kv) lp || mem_str (fst kv) req || existsb (fun ps => re (fst ps) (fst kv)) lpp | _ => true end) m = true).
      { destruct op; try apply forallb_true. congruence. }
      rewrite E, andb_true_r. reflexivity.
    Qed.

    (* additionalProperties: false, every required name is a property *)
    Lemma struct_closed : forall m, (forall k, In k req -> has_key k lp = true) ->
      struct_ok re (mkO (req_fold req (fields0 rp)) rpp None ExplicitlyClosed) m =
      sp_props m && sp_pprops m && forallb (fun kv => negb (is_add (fst kv)) || false) m && sp_req m.
    Proof.
      intros m Hreq. rewrite struct_common. rewrite forallb_true, andb_true_r. f_equal. f_equal.
      apply forallb_ext'. intros [k v]. cbn [fst]. unfold is_add. rewrite orb_false_r, negb_andb, !negb_involutive.
      destruct (has_key k lp) eqn:E1; simpl; auto.
      destruct (mem_str k req) eqn:E2; simpl; auto.
      unfold mem_str in E2. apply existsb_exists in E2. destruct E2 as [k' [Hin Ek]]. apply str_eqb_eq in Ek. subst k'.
      rewrite (Hreq k Hin) in E1. discriminate.
    Qed.

    (* additionalProperties: a schema *)
    Lemma struct_addl : forall s' e m,
      (forall x, ev e x = valid re s' x) ->
      struct_ok re (mkO (req_fold req (fields0 rp)) rpp
                        (Some (match fields0 rp, rpp with
                               | [], [] => AddlAll e
                               | _, _ => AddlExcept (map fst rpp) (map f_name (fields0 rp)) e
                               end)) AllFieldsCovered) m =
      sp_props m && sp_pprops m && forallb (fun kv => negb (is_add (fst kv)) || valid re s' (snd kv)) m && sp_req m.
    Proof.
      intros s' e m He. rewrite struct_common. rewrite (forallb_true m), andb_true_r. f_equal. f_equal.
      apply forallb_ext'. intros [k v]. cbn [fst snd]. unfold is_add.
      assert (Eadd : addl_applies re (match fields0 rp, rpp with
                               | [], [] => AddlAll e
                               | _, _ => AddlExcept (map fst rpp) (map f_name (fields0 rp)) e
                               end) k =
                     if negb (existsb (fun pe => re (fst pe) k) rpp) && negb (mem_str k (map f_name (fields0 rp))) then Some e else None).
      { destruct (fields0 rp) as [|f0 fr] eqn:Ef; destruct rpp as [|p0 pr] eqn:Ep; try reflexivity;
          unfold addl_applies, excluded_by_names; rewrite pats_map_fst; reflexivity. }
      rewrite Eadd. rewrite mem_str_names, (fields0_names lp (valid re) rp k Hp), (pats_names re lpp (valid re) rpp k Hpp).
      rewrite andb_comm. destruct (negb (has_key k lp) && negb (existsb (fun ps => re (fst ps) k) lpp)); simpl; auto.
    Qed.
  End Struct.

End Main.

(* ---------- assembling one schema object ---------- *)
Section Thm.
  Variable re : pat -> str -> bool.

  Lemma the_obj_shape : forall a b, shape a = shape b -> the_obj a = the_obj b.
  Proof. intros a b H. unfold shape in H. unfold the_obj. injection H as -> _ _. reflexivity. Qed.

  Lemma struct_ok_empty : forall m, struct_ok re ob_empty m = true.
  Proof. intros m. unfold struct_ok. simpl. rewrite andb_true_r. induction m; simpl; auto. Qed.

  Lemma ObjSem_the_obj : forall st m, ObjSem re st (JObj m) = struct_ok re (the_obj st) m.
  Proof. intros st m. unfold ObjSem, the_obj. destruct (st_obj st); auto. rewrite struct_ok_empty. reflexivity. Qed.

  Definition lres {K} (o : option (list (K * sub))) : list (K * result) :=
    match o with Some l => map (fun ks => (fst ks, snd ks mall)) l | None => [] end.

  Lemma objb_eta : forall o, mkO (ob_fields o) (ob_pats o) (ob_addl o) (ob_open o) = o.
  Proof. intros []; reflexivity. Qed.

  Lemma the_obj_of_shape : forall s o p r, shape s = (Some o, p, r) -> the_obj s = o.
  Proof. intros s o p r H. unfold shape in H. unfold the_obj. injection H as H1 _ _. rewrite H1. reflexivity. Qed.

  Lemma the_obj_do_props : forall o st,
    the_obj (do_props o st) =
    mkO (ob_fields (the_obj st) ++ fields_of (lres o)) (ob_pats (the_obj st)) (ob_addl (the_obj st)) (ob_open (the_obj st)).
  Proof.
    intros [l|] st; unfold do_props.
    - apply (the_obj_of_shape _ _ _ _ (shape_step_props (map (fun ks => (fst ks, snd ks mall)) l) st)).
    - simpl. rewrite app_nil_r. symmetry. apply objb_eta.
  Qed.
  Lemma the_obj_do_pprops : forall o st,
    the_obj (do_pprops o st) =
    mkO (ob_fields (the_obj st)) (ob_pats (the_obj st) ++ pats_of (lres o)) (ob_addl (the_obj st)) (ob_open (the_obj st)).
  Proof.
    intros [l|] st; unfold do_pprops.
    - apply (the_obj_of_shape _ _ _ _ (shape_step_pprops (map (fun ks => (fst ks, snd ks mall)) l) st)).
    - simpl. rewrite app_nil_r. symmetry. apply objb_eta.
  Qed.
  Lemma the_obj_required : forall o st,
    the_obj (opt_step step_required o st) =
    mkO (req_fold (olist o) (ob_fields (the_obj st))) (ob_pats (the_obj st)) (ob_addl (the_obj st)) (ob_open (the_obj st)).
  Proof.
    intros [req|] st; unfold opt_step.
    - apply (the_obj_of_shape _ _ _ _ (shape_step_required req st)).
    - simpl. symmetry. apply objb_eta.
  Qed.

  (* ---------- validity as a conjunction of propositions ---------- *)
  Lemma valid_split : forall a p v,
    valid re (SObj a p) v = true <->
    (VA1 re a v /\
     optP (fun b => on_num (fun h => Z.leb h b) v = true) (a_max a) /\
     optP (fun b => on_num (fun h => Z.leb b h) v = true) (a_min a) /\
     optP (fun req => on_obj (fun m => forallb (fun k => has_key k m) req) v = true) (a_required a)) /\
    v_ref (valid re) p v = true /\ v_allOf (valid re) p v = true /\ v_anyOf (valid re) p v = true /\
    v_oneOf (valid re) p v = true /\ v_not (valid re) p v = true /\ v_ite (valid re) p v = true /\
    v_props (valid re) p v = true /\ v_pprops re (valid re) p v = true /\ v_pnames (valid re) p v = true /\
    v_prefix (valid re) p v = true /\ v_contains (valid re) a p v = true /\ v_addl re (valid re) p v = true /\
    v_items (valid re) p v = true.
  Proof.
    intros a p v. cbn [valid]. unfold valid_assertions, VA1.
    rewrite !andb_true_iff. rewrite !optb_optP. tauto.
  Qed.

  (* shape bookkeeping for the optional keyword steps *)
  Definition lsh (s : state) := (st_prefix s, st_rest s).
  Lemma shape_split : forall a b, shape a = shape b -> st_obj a = st_obj b /\ lsh a = lsh b.
  Proof. unfold shape, lsh. intros a b H. injection H as -> -> ->. auto. Qed.

  Lemma lsh_of_shape : forall s o p r, shape s = (o, p, r) -> lsh s = (p, r).
  Proof. intros s o p r H. unfold shape in H. unfold lsh. injection H as _ H2 H3. rewrite H2, H3. reflexivity. Qed.
  Lemma obj_of_shape : forall s o p r, shape s = (o, p, r) -> st_obj s = o.
  Proof. intros s o p r H. unfold shape in H. injection H as H1 _ _. exact H1. Qed.

  Lemma shape_do_ref : forall o st, shape (do_ref o st) = shape st.
  Proof. intros [f|] st; unfold do_ref; auto. apply shape_step_ref. Qed.
  Lemma shape_do_allOf : forall o st, shape (do_allOf o st) = shape st.
  Proof.
    intros [l|] st; unfold do_allOf; auto. destruct (allOf_loop l (st_A st)).
    rewrite <- (shape_sem_eq _ _ (sem_eq_dev_if _ _ _)). apply shape_step_allOf.
  Qed.
  Lemma shape_do_anyOf : forall o st, shape (do_anyOf o st) = shape st.
  Proof. intros [l|] st; unfold do_anyOf; auto. rewrite <- (shape_sem_eq _ _ (sem_eq_dev_if _ _ _)). apply shape_step_anyOf. Qed.
  Lemma shape_do_oneOf : forall o st, shape (do_oneOf o st) = shape st.
  Proof. intros [l|] st; unfold do_oneOf; auto. rewrite <- (shape_sem_eq _ _ (sem_eq_dev_if _ _ _)). apply shape_step_oneOf. Qed.
  Lemma shape_do_not : forall o st, shape (do_not o st) = shape st.
  Proof. intros [f|] st; unfold do_not; auto. rewrite <- (shape_sem_eq _ _ (sem_eq_dev_if _ _ _)). apply shape_step_not. Qed.
  Lemma shape_do_pnames : forall o st, shape (do_pnames o st) = shape st.
  Proof. intros [f|] st; unfold do_pnames; auto. apply shape_step_pnames. Qed.
  Lemma shape_do_contains : forall a o st, shape (do_contains a o st) = shape st.
  Proof. intros a [f|] st; unfold do_contains; auto. apply shape_step_contains. Qed.

  Lemma lsh_do_props : forall o st, lsh (do_props o st) = lsh st.
  Proof. intros [l|] st; unfold do_props; auto.
         apply (lsh_of_shape _ _ _ _ (shape_step_props (map (fun ks => (fst ks, snd ks mall)) l) st)). Qed.
  Lemma lsh_do_pprops : forall o st, lsh (do_pprops o st) = lsh st.
  Proof. intros [l|] st; unfold do_pprops; auto.
         apply (lsh_of_shape _ _ _ _ (shape_step_pprops (map (fun ks => (fst ks, snd ks mall)) l) st)). Qed.
  Lemma lsh_required : forall o st, lsh (opt_step step_required o st) = lsh st.
  Proof. intros [l|] st; unfold opt_step; auto. apply (lsh_of_shape _ _ _ _ (shape_step_required l st)). Qed.
  Lemma lsh_do_addl : forall syn o st, lsh (do_addl syn o st) = lsh st.
  Proof.
    intros [[b|a p]|] [f|] st; unfold do_addl; auto.
    apply (lsh_of_shape _ _ _ _ (shape_step_addl_schema (f mall) st)).
  Qed.
  Lemma obj_do_prefix : forall o st, st_obj (do_prefix o st) = st_obj st.
  Proof. intros [l|] st; unfold do_prefix; auto. apply (obj_of_shape _ _ _ _ (shape_step_prefix (map (fun f => f mall) l) st)). Qed.
  Lemma obj_do_items : forall o st, st_obj (do_items o st) = st_obj st.
  Proof. intros [f|] st; unfold do_items; auto. apply (obj_of_shape _ _ _ _ (shape_step_items (f mall) st)). Qed.

  Lemma the_obj_eq : forall a b, st_obj a = st_obj b -> the_obj a = the_obj b.
  Proof. intros a b H. unfold the_obj. rewrite H. reflexivity. Qed.

  (* additionalProperties on the struct under construction *)
  Definition addl_obj (syn : option schema) (o : option sub) (ob : objb) : objb :=
    match syn, o with
    | Some (SBool b), _ => mkO (ob_fields ob) (ob_pats ob) (ob_addl ob) (if b then ExplicitlyOpen else ExplicitlyClosed)
    | Some _, Some f =>
      mkO (ob_fields ob) (ob_pats ob)
          (Some (if ob_no_elts ob then AddlAll (r_e (f mall))
                 else AddlExcept (map fst (ob_pats ob)) (map f_name (ob_fields ob)) (r_e (f mall))))
          AllFieldsCovered
    | _, _ => ob
    end.
  Lemma the_obj_do_addl : forall syn o st, the_obj (do_addl syn o st) = addl_obj syn o (the_obj st).
  Proof.
    intros [[b|a p]|] [f|] st; unfold do_addl, addl_obj; auto.
    apply (the_obj_of_shape _ _ _ _ (shape_step_addl_schema (f mall) st)).
  Qed.

  (* ---------- semantics of the finished struct literal ---------- *)
  Definition addl_obj' (syn : option schema) (e : expr) (ob : objb) : objb :=
    match syn with
    | Some (SBool b) => mkO (ob_fields ob) (ob_pats ob) (ob_addl ob) (if b then ExplicitlyOpen else ExplicitlyClosed)
    | Some _ =>
      mkO (ob_fields ob) (ob_pats ob)
          (Some (if ob_no_elts ob then AddlAll e else AddlExcept (map fst (ob_pats ob)) (map f_name (ob_fields ob)) e))
          AllFieldsCovered
    | None => ob
    end.

  Definition final_obj (a : assertions) (p : applic schema) (rp : list (str * expr)) (rpp : list (pat * expr)) (e : expr) : objb :=
    let o12 := addl_obj' (ap_addl p) e (mkO (fields0 rp) rpp None ImplicitlyOpen) in
    mkO (req_fold (olist (a_required a)) (ob_fields o12)) (ob_pats o12) (ob_addl o12) (ob_open o12).

  Lemma obj_part : forall a p rp rpp e m,
    Forall2 (fun ks kr => fst ks = fst kr /\ forall x, ev (snd kr) x = valid re (snd ks) x) (olist (ap_props p)) rp ->
    Forall2 (fun ps pr => fst ps = fst pr /\ forall x, ev (snd pr) x = valid re (snd ps) x) (olist (ap_pprops p)) rpp ->
    (forall s', ap_addl p = Some s' -> forall x, ev e x = valid re s' x) ->
    (* no deviation: required names of a closed struct *)
    (ap_addl p = Some (SBool false) ->
       forall k, In k (olist (a_required a)) -> existsb (fun f => str_eqb k (f_name f)) (fields0 rp) = true) ->
    (struct_ok re (final_obj a p rp rpp e) m = true <->
     v_props (valid re) p (JObj m) = true /\ v_pprops re (valid re) p (JObj m) = true /\
     v_addl re (valid re) p (JObj m) = true /\
     optP (fun req => on_obj (fun m => forallb (fun k => has_key k m) req) (JObj m) = true) (a_required a)).
  Proof.
    intros a p rp rpp e m Hp Hpp He Hd2.
    set (lp := olist (ap_props p)) in *. set (lpp := olist (ap_pprops p)) in *. set (req := olist (a_required a)) in *.
    assert (Vp : v_props (valid re) p (JObj m) = sp_props re lp m).
    { unfold v_props, sp_props, lp. destruct (ap_props p); simpl; auto. symmetry. apply forallb_true. }
    assert (Vpp : v_pprops re (valid re) p (JObj m) = sp_pprops re lpp m).
    { unfold v_pprops, sp_pprops, lpp. destruct (ap_pprops p); simpl; auto. symmetry. apply forallb_true. }
    assert (Vr : optP (fun req => on_obj (fun m => forallb (fun k => has_key k m) req) (JObj m) = true) (a_required a) <->
                 sp_req req m = true).
    { unfold sp_req, req. destruct (a_required a); simpl; tauto. }
    rewrite Vp, Vpp, Vr. clear Vp Vpp Vr.
    unfold final_obj, addl_obj'. fold req.
    destruct (ap_addl p) as [[b|aa pa]|] eqn:Ead; cbn [ob_fields ob_pats ob_addl ob_open].
    - (* boolean *)
      destruct b.
      + rewrite (struct_open re lp lpp rp rpp Hp Hpp req ExplicitlyOpen m) by discriminate.
        assert (Va : v_addl re (valid re) p (JObj m) = true).
        { unfold v_addl. rewrite Ead. simpl. apply forallb_forall. intros kv _. apply orb_true_r. }
        rewrite Va, !andb_true_iff. tauto.
      + rewrite (struct_closed re lp lpp rp rpp Hp Hpp req m).
        * assert (Va : v_addl re (valid re) p (JObj m) = forallb (fun kv => negb (is_add re lp lpp (fst kv)) || false) m).
          { unfold v_addl. rewrite Ead. simpl. apply forallb_ext'. intros kv. rewrite is_additional_norm. reflexivity. }
          rewrite Va, !andb_true_iff. tauto.
        * intros k Hin. rewrite <- (fields0_names lp (valid re) rp k Hp). apply Hd2; auto.
    - (* schema *)
      assert (Eform : (if ob_no_elts (mkO (fields0 rp) rpp None ImplicitlyOpen) then AddlAll e
                       else AddlExcept (map fst rpp) (map f_name (fields0 rp)) e) =
                      match fields0 rp, rpp with [], [] => AddlAll e | _, _ => AddlExcept (map fst rpp) (map f_name (fields0 rp)) e end).
      { unfold ob_no_elts. simpl. destruct (fields0 rp), rpp; reflexivity. }
      rewrite Eform.
      rewrite (struct_addl re lp lpp rp rpp Hp Hpp req (SObj aa pa) e m (He _ eq_refl)).
      assert (Va : v_addl re (valid re) p (JObj m) =
                   forallb (fun kv => negb (is_add re lp lpp (fst kv)) || valid re (SObj aa pa) (snd kv)) m).
      { unfold v_addl. rewrite Ead. cbn [optb on_obj]. apply forallb_ext'. intros kv. rewrite is_additional_norm. reflexivity. }
      rewrite Va, !andb_true_iff. tauto.
    - (* absent *)
      rewrite (struct_open re lp lpp rp rpp Hp Hpp req ImplicitlyOpen m) by discriminate.
      assert (Va : v_addl re (valid re) p (JObj m) = true) by (unfold v_addl; rewrite Ead; reflexivity).
      rewrite Va, !andb_true_iff. tauto.
  Qed.

  (* results of the subschemas under properties / patternProperties *)
  Lemma sub_rel : forall {K} (l : list (K * schema)),
    Forall (fun ks => P re (snd ks)) l ->
    flat_map r_dev (map snd (map (fun ks : K * sub => (fst ks, snd ks mall)) (map (fun ks => (fst ks, enc re (snd ks))) l))) = [] ->
    Forall2 (fun ks kr => fst ks = fst kr /\ forall x, ev (snd kr) x = valid re (snd ks) x) l
            (map (fun kr : K * result => (fst kr, r_e (snd kr)))
                 (map (fun ks : K * sub => (fst ks, snd ks mall)) (map (fun ks => (fst ks, enc re (snd ks))) l))).
  Proof.
    intros K l. induction 1 as [|ks l Hk F IH]; intros D; simpl in *; constructor.
    - split; auto. intros x. apply app_eq_nil in D. destruct D as [D _].
      apply (g_ev _ _ _ _ (Hk mall D) x eq_refl).
    - apply IH. apply app_eq_nil in D. tauto.
  Qed.

  Lemma assemble_good : forall a p, applic_all (P re) p -> forall M,
    r_dev (enc re (SObj a p) M) = [] -> Good re M (SObj a p) (enc re (SObj a p) M).
  Proof.
    intros a p IH M D.
    change (enc re (SObj a p) M) with (assemble re a p (amap (enc re) p) M) in *.
    unfold assemble in *.
    set (p' := amap (enc re) p) in *.
    set (s0 := phase1 re a (init M)) in *.
    set (s1 := do_ref (ap_ref p') s0) in *.
    set (s2 := do_allOf (ap_allOf p') s1) in *.
    set (s3 := do_anyOf (ap_anyOf p') s2) in *.
    set (s4 := do_oneOf (ap_oneOf p') s3) in *.
    set (s5 := do_not (ap_not p') s4) in *.
    set (s6 := do_props (ap_props p') s5) in *.
    set (s7 := do_pprops (ap_pprops p') s6) in *.
    set (s8 := do_pnames (ap_pnames p') s7) in *.
    set (s9 := do_prefix (ap_prefix p') s8) in *.
    set (s10 := do_contains a (ap_contains p') s9) in *.
    set (s11 := phase2_bounds a s10) in *.
    set (s12 := do_addl (ap_addl p) (ap_addl p') s11) in *.
    set (s13 := do_items (ap_items p') s12) in *.
    set (s14 := opt_step step_required (a_required a) s13) in *.
    set (s15 := step_ite (ap_if p') (ap_then p') (ap_else p') s14) in *.
    assert (D15 : st_dev s15 = []).
    { unfold result_of in D. cbn [r_dev] in D. apply app_eq_nil in D. tauto. }
    pose proof (dev_step_ite_nil _ _ _ _ D15) as D14. fold s14 in D14.
    pose proof (required_dev _ _ D14) as D13. fold s13 in D13.
    pose proof (do_items_dev _ _ D13) as D12. fold s12 in D12.
    pose proof (do_addl_dev _ _ _ D12) as D11. fold s11 in D11.
    assert (D10 : st_dev s10 = []) by (unfold s11 in D11; rewrite dev_phase2_bounds in D11; exact D11).
    pose proof (do_contains_dev _ _ _ D10) as D9. fold s9 in D9.
    pose proof (do_prefix_dev _ _ D9) as D8. fold s8 in D8.
    pose proof (do_pnames_dev _ _ D8) as D7. fold s7 in D7.
    pose proof (do_pprops_dev _ _ D7) as D6. fold s6 in D6.
    pose proof (do_props_dev _ _ D6) as D5. fold s5 in D5.
    pose proof (do_not_dev _ _ D5) as D4. fold s4 in D4.
    pose proof (do_oneOf_dev _ _ D4) as D3. fold s3 in D3.
    pose proof (do_anyOf_dev _ _ D3) as D2. fold s2 in D2.
    pose proof (do_allOf_dev _ _ D2) as D1. fold s1 in D1.
    pose proof (do_ref_dev _ _ D1) as D0. fold s0 in D0.

    destruct IH as (I_ref & I_all & I_any & I_one & I_not & I_if & I_then & I_else & I_props & I_pprops &
                    I_pn & I_pre & I_con & I_addl & I_items).
    pose proof (inv_phase1 re M a) as H0. fold s0 in H0.
    pose proof (do_ref_inv re M (ap_ref p) (ap_ref p') s0 _ (ogood_map re _ I_ref) H0 D1) as H1. fold s1 in H1.
    pose proof (do_allOf_inv re M (ap_allOf p) (ap_allOf p') s1 _ (olgood_map re _ I_all) H1 D2) as H2. fold s2 in H2.
    pose proof (do_anyOf_inv re M (ap_anyOf p) (ap_anyOf p') s2 _ (olgood_map re _ I_any) H2 D3) as H3. fold s3 in H3.
    pose proof (do_oneOf_inv re M (ap_oneOf p) (ap_oneOf p') s3 _ (olgood_map re _ I_one) H3 D4) as H4. fold s4 in H4.
    pose proof (do_not_inv re M (ap_not p) (ap_not p') s4 _ (ogood_map re _ I_not) H4 D5) as H5. fold s5 in H5.
    pose proof (do_props_inv M (ap_props p') s5 _ H5) as H6. fold s6 in H6.
    pose proof (do_pprops_inv M (ap_pprops p') s6 _ H6) as H7. fold s7 in H7.
    pose proof (do_pnames_inv re M (ap_pnames p) (ap_pnames p') s7 _ (ogood_map re _ I_pn) H7 D8) as H8. fold s8 in H8.
    pose proof (do_prefix_inv M (ap_prefix p') s8 _ H8) as H9. fold s9 in H9.
    pose proof (do_contains_inv re M a (ap_contains p) (ap_contains p') s9 _ (ogood_map re _ I_con) H9 D10) as H10. fold s10 in H10.
    pose proof (inv_phase2_bounds M a s10 _ H10) as H11. fold s11 in H11.
    pose proof (do_addl_inv M (ap_addl p) (ap_addl p') s11 _ H11) as H12. fold s12 in H12.
    pose proof (do_items_inv re M (ap_items p) (ap_items p') s12 _ (ogood_map re _ I_items) H12 D13) as H13. fold s13 in H13.
    pose proof (required_inv M (a_required a) s13 _ H13) as H14. fold s14 in H14.
    pose proof (inv_step_ite re M (ap_if p) (ap_then p) (ap_else p) (ap_if p') (ap_then p') (ap_else p') s14 _
                  (ogood_map re _ I_if) (ogood_map re _ I_then) (ogood_map re _ I_else) H14 D15) as H15. fold s15 in H15.
    apply (good_of_inv re M (SObj a p) s15 _ H15).
    intros v Hv.
    rewrite valid_split.
    assert (Sh5 : shape s5 = shape (init M)).
    { unfold s5, s4, s3, s2, s1, s0.
      rewrite shape_do_not, shape_do_oneOf, shape_do_anyOf, shape_do_allOf, shape_do_ref, shape_phase1. reflexivity. }
    assert (O5 : the_obj s5 = ob_empty).
    { unfold the_obj. rewrite (proj1 (shape_split _ _ Sh5)). reflexivity. }
    assert (L5 : lsh s5 = (None, RAny)) by (rewrite (proj2 (shape_split _ _ Sh5)); reflexivity).
    set (rp := map (fun kr : str * result => (fst kr, r_e (snd kr))) (lres (ap_props p'))).
    set (rpp := pats_of (lres (ap_pprops p'))).
    set (e := match ap_addl p' with Some f => r_e (f mall) | None => e_top end).
    assert (EF : fields_of (lres (ap_props p')) = fields0 rp).
    { unfold fields_of, fields0, rp. rewrite map_map. reflexivity. }
    assert (O7 : the_obj s7 = mkO (fields0 rp) rpp None ImplicitlyOpen).
    { unfold s7. rewrite the_obj_do_pprops. unfold s6. rewrite the_obj_do_props, O5, EF. reflexivity. }
    assert (O11 : the_obj s11 = mkO (fields0 rp) rpp None ImplicitlyOpen).
    { rewrite <- O7. apply the_obj_eq. unfold s11. rewrite (proj1 (shape_split _ _ (shape_phase2_bounds a s10))).
      unfold s10. rewrite (proj1 (shape_split _ _ (shape_do_contains a _ s9))). unfold s9. rewrite obj_do_prefix.
      unfold s8. apply (proj1 (shape_split _ _ (shape_do_pnames _ s7))). }
    assert (O13 : the_obj s13 = addl_obj' (ap_addl p) e (mkO (fields0 rp) rpp None ImplicitlyOpen)).
    { assert (X : the_obj s13 = the_obj s12) by (apply the_obj_eq; unfold s13; apply obj_do_items).
      rewrite X. unfold s12. rewrite the_obj_do_addl, O11. unfold addl_obj, addl_obj', e, p'. cbn [amap ap_addl].
      destruct (ap_addl p) as [[b|aa pa]|]; reflexivity. }
    assert (O15 : the_obj s15 = final_obj a p rp rpp e).
    { assert (X : the_obj s15 = the_obj s14) by (apply the_obj_shape; unfold s15; apply shape_step_ite).
      rewrite X. unfold s14. rewrite the_obj_required, O13. reflexivity. }
    (* ---- the struct literal ---- *)
    assert (HObj : ObjSem re s15 v = true <->
                   (v_props (valid re) p v = true /\ v_pprops re (valid re) p v = true /\
                    v_addl re (valid re) p v = true /\
                    optP (fun req => on_obj (fun m => forallb (fun k => has_key k m) req) v = true) (a_required a))).
    { destruct v; try (unfold ObjSem, v_props, v_pprops, v_addl;
                       destruct (ap_props p), (ap_pprops p), (ap_addl p), (a_required a); simpl; tauto).
      rewrite ObjSem_the_obj, O15. apply obj_part.
      - (* properties *)
        unfold rp, p'. cbn [amap ap_props]. destruct (ap_props p) as [l|] eqn:El; [|constructor].
        simpl in I_props. cbn [olist lres option_map]. apply sub_rel; auto.
        assert (X : st_dev s6 = []) by exact D6. unfold s6, p' in X. cbn [amap ap_props] in X. rewrite El in X.
        cbn [option_map do_props] in X. rewrite dev_step_props in X.
        apply app_eq_nil in X. destruct X as [_ X]. apply app_eq_nil in X. tauto.
      - (* patternProperties *)
        unfold rpp, pats_of, p'. cbn [amap ap_pprops]. destruct (ap_pprops p) as [l|] eqn:El; [|constructor].
        simpl in I_pprops. cbn [olist lres option_map]. apply sub_rel; auto.
        assert (X : st_dev s7 = []) by exact D7. unfold s7, p' in X. cbn [amap ap_pprops] in X. rewrite El in X.
        cbn [option_map do_pprops] in X. rewrite dev_step_pprops in X.
        apply app_eq_nil in X. tauto.
      - (* additionalProperties: the expression *)
        intros s' Es' x. unfold e, p'. cbn [amap ap_addl]. rewrite Es'. cbn [option_map].
        destruct s' as [b|aa pa].
        + apply (g_ev _ _ _ _ (good_bool re b mall) x eq_refl).
        + assert (X : st_dev s12 = []) by exact D12. unfold s12, p' in X. cbn [amap ap_addl] in X. rewrite Es' in X.
          cbn [option_map do_addl] in X. rewrite dev_step_addl_schema in X.
          apply app_eq_nil in X. destruct X as [_ X].
          rewrite Es' in I_addl. simpl in I_addl. apply (g_ev _ _ _ _ (I_addl mall X) x eq_refl).
      - (* no deviation: required names of a closed struct *)
        intros Es' k Hin. destruct (a_required a) as [req|] eqn:Er; [|destruct Hin].
        assert (X : st_dev s14 = []) by exact D14. unfold s14 in X. try rewrite Er in X. cbn [opt_step] in X.
        rewrite dev_step_required in X. apply app_eq_nil in X. destruct X as [_ X].
        rewrite O13, Es' in X. unfold req_dev_cond, addl_obj' in X. cbn [ob_open ob_fields] in X.
        match type of X with (if ?c then _ else _) = [] => destruct c eqn:Ec; [discriminate|] end.
        pose proof (proj1 (existsb_false_iff _ _) Ec k Hin) as Y. cbv beta in Y. apply negb_false_iff in Y. exact Y. }
    (* ---- the list literal ---- *)
    assert (L8 : lsh s8 = (None, RAny)).
    { unfold s8. rewrite (proj2 (shape_split _ _ (shape_do_pnames _ s7))). unfold s7. rewrite lsh_do_pprops.
      unfold s6. rewrite lsh_do_props. exact L5. }
    assert (Lkeep : forall st, lsh s9 = lsh st -> lsh s12 = lsh st).
    { intros st E. rewrite <- E. unfold s12. rewrite lsh_do_addl. unfold s11.
      rewrite (proj2 (shape_split _ _ (shape_phase2_bounds a s10))). unfold s10.
      apply (proj2 (shape_split _ _ (shape_do_contains a _ s9))). }
    assert (L15 : lsh s15 = lsh s13).
    { unfold s15. rewrite (proj2 (shape_split _ _ (shape_step_ite _ _ _ s14))). unfold s14. apply lsh_required. }
    assert (HList : (optP (fun s' => st_prefix s12 = None -> on_arr (forallb (valid re s')) v = true) (ap_items p) /\
                     ListSem s15 v = true) <->
                    (v_prefix (valid re) p v = true /\ v_items (valid re) p v = true)).
    { unfold ListSem, v_prefix, v_items.
      assert (E15 : st_prefix s15 = st_prefix s13 /\ st_rest s15 = st_rest s13).
      { unfold lsh in L15. injection L15 as -> ->. auto. }
      destruct E15 as [-> ->].
      destruct (ap_prefix p) as [lpre|] eqn:Epre.
      - (* prefixItems: [] *)
        assert (X : st_dev s9 = []) by exact D9. unfold s9, p' in X. cbn [amap ap_prefix] in X. rewrite Epre in X.
        cbn [option_map do_prefix] in X. rewrite dev_step_prefix in X.
        apply app_eq_nil in X. destruct X as [_ X]. apply app_eq_nil in X. destruct X as [_ X].
        assert (lpre = []).
        { destruct lpre; auto. simpl in X. discriminate. }
        subst lpre. clear X.
        assert (L9 : lsh s9 = (Some [], RAny)).
        { unfold s9, p'. cbn [amap ap_prefix]. rewrite Epre. cbn [option_map do_prefix map].
          apply (lsh_of_shape _ _ _ _ (shape_step_prefix [] s8)). }
        pose proof (Lkeep _ eq_refl) as L12. rewrite L9 in L12.
        assert (P12 : st_prefix s12 = Some [] /\ st_rest s12 = RAny) by (unfold lsh in L12; injection L12; auto).
        destruct P12 as [P12 R12].
        cbn [optb]. destruct (ap_items p) as [si|] eqn:Eit.
        + assert (X : st_dev s13 = []) by exact D13. unfold s13, p' in X. cbn [amap ap_items] in X. rewrite Eit in X.
          cbn [option_map do_items] in X. rewrite dev_step_items in X. apply app_eq_nil in X. destruct X as [_ X].
          simpl in I_items. pose proof (I_items mall X) as G.
          pose proof (shape_step_items (enc re si mall) s12) as Sh. rewrite P12, R12 in Sh.
          assert (E13 : st_prefix s13 = Some [] /\
                        st_rest s13 = (if is_err (r_e (enc re si mall)) then RNone
                                       else if is_top (r_e (enc re si mall)) then RAny else RType (r_e (enc re si mall)))).
          { unfold s13, p'. cbn [amap ap_items]. rewrite Eit. cbn [option_map do_items].
            unfold shape in Sh. injection Sh as _ Hs2 Hs3. auto. }
          destruct E13 as [-> ->]. cbn [optP]. rewrite P12.
          destruct (g_wfe _ _ _ _ G) as [Wt We].
          destruct v; try solve [simpl; split; [intros; auto | intros; split; [discriminate | auto]]].
          assert (Hall : forallb (valid re si) l = forallb (ev (r_e (enc re si mall))) l).
          { apply forallb_ext'. intros x. symmetry. apply (g_ev _ _ _ _ G x eq_refl). }
          assert (Htuple : tuple_ok [] (if is_err (r_e (enc re si mall)) then RNone
                                        else if is_top (r_e (enc re si mall)) then RAny else RType (r_e (enc re si mall))) l =
                           forallb (ev (r_e (enc re si mall))) l).
          { destruct (is_err (r_e (enc re si mall))) eqn:Ee; [|destruct (is_top (r_e (enc re si mall))) eqn:Et]; simpl.
            - destruct l as [|j l']; simpl; auto. rewrite (We eq_refl j). reflexivity.
            - symmetry. apply forallb_forall. intros x _. apply (Wt eq_refl x).
            - reflexivity. }
          cbn [on_arr]. rewrite Htuple.
          change (prefix_ok (valid re) [] l) with true.
          change (skipn (length (@nil schema)) l) with l. cbn [optb]. rewrite Hall.
          split; intros [_ X0]; split; auto; intros Y; discriminate Y.
        + assert (E13 : st_prefix s13 = Some [] /\ st_rest s13 = RAny).
          { unfold s13, p'. cbn [amap ap_items]. rewrite Eit. cbn [option_map do_items]. auto. }
          destruct E13 as [-> ->]. cbn [optP]. destruct v; simpl; tauto.
      - (* no prefixItems *)
        assert (L9 : lsh s9 = (None, RAny)).
        { unfold s9, p'. cbn [amap ap_prefix]. rewrite Epre. cbn [option_map do_prefix]. exact L8. }
        pose proof (Lkeep _ eq_refl) as L12. rewrite L9 in L12.
        assert (P12 : st_prefix s12 = None /\ st_rest s12 = RAny) by (unfold lsh in L12; injection L12; auto).
        destruct P12 as [P12 R12].
        assert (E13 : st_prefix s13 = None).
        { unfold s13. destruct (ap_items p') as [f|]; cbn [do_items]; auto.
          pose proof (shape_step_items (f mall) s12) as Sh. unfold shape in Sh. injection Sh as _ Hs2 _. congruence. }
        rewrite E13. cbn [optb]. rewrite P12.
        destruct (ap_items p) as [si|]; cbn [optb optP]; destruct v; simpl; tauto. }
    unfold v_ref, v_allOf, v_anyOf, v_oneOf, v_not, v_pnames, v_contains, v_ite, ite_valid in *.
    tauto.
  Qed.

  (* every schema, under every mask: schemaState(s, types) is exact on the kinds in types *)
  Theorem enc_good : forall s M, r_dev (enc re s M) = [] -> Good re M s (enc re s M).
  Proof.
    intros s. change (P re s). apply schema_ind'.
    - intros b M _. apply good_bool.
    - intros a p IH M D. apply assemble_good; auto.
  Qed.

  (* in_fragment: the schema uses none of the deviating constructs (the DEV classes of Encode.v) *)
  Definition in_fragment (s : schema) : Prop := r_dev (enc re s mall) = [].

  Theorem encode_correct : forall s, in_fragment s -> forall j, encode re s j = valid re s j.
  Proof. intros s D j. unfold encode. apply (g_ev _ _ _ _ (enc_good s mall D) j eq_refl). Qed.

  (* the allowedTypes mask of the result is sound: valid instances have an allowed kind *)
  Theorem allowed_types_sound : forall s, in_fragment s -> forall j,
    valid re s j = true -> r_A (enc re s mall) (kind_of j) = true.
  Proof. intros s D j H. apply (g_snd _ _ _ _ (enc_good s mall D) j eq_refl H). Qed.

  (* a schema whose import is "not possible to satisfy" has no valid instance *)
  Theorem unsatisfiable_root_sound : forall s, in_fragment s ->
    mempty (r_A (enc re s mall)) = true -> forall j, valid re s j = false.
  Proof.
    intros s D E j. destruct (valid re s j) eqn:V; auto.
    pose proof (allowed_types_sound s D j V) as X. rewrite mempty_true in E. rewrite E in X. discriminate.
  Qed.

End Thm.
