(* The encoding strategy of encoding/jsonschema (decode.go, constraints_*.go),
   as semantic combinators over JSON values.

   A CUE expression produced by the importer is represented by what it accepts
   ([ev : json -> bool], the verdict of  instance & expr  validated as concrete)
   together with the one bit of syntax the Go code inspects afterwards
   ([sh]: is it literally `_`, literally `error("disallowed")`, or anything else:
   isTop / isErrorCall in decode.go).

   [enc s T] follows state.schemaState(n, types=T): the keywords are processed
   in phase order (constraints_gen.go: p1 .. p4; inside one phase in the order
   the harness writes the keys, which is the order used below), each keyword
   function updates the state exactly like its Go counterpart
   (allowedTypes / knownTypes masks, s.all, s.types[t].constraints, s.obj,
   s.patterns, s.list), constraintIfThenElse runs last, and [finalize] builds
   the kind-indexed disjunction.  The known deviations of the pinned tree are
   modelled as they are (see the comments marked QUIRK). *)
From Coq Require Import List ZArith NArith Bool Lia.
From Verif Require Import Schema.Json Schema.Sem.
Import ListNotations.

(* ---------- kind masks (cue.Kind restricted to the JSON kinds) ---------- *)
Definition mask := kind -> bool.
Definition mall : mask := fun _ => true.
Definition mnone : mask := fun _ => false.
Definition mand (a b : mask) : mask := fun k => a k && b k.
Definition mor (a b : mask) : mask := fun k => a k || b k.
Definition msingle (k0 : kind) : mask := fun k => kind_eqb k k0.
Definition mempty (a : mask) : bool := negb (existsb a all_kinds).
Definition meq (a b : mask) : bool := forallb (fun k => Bool.eqb (a k) (b k)) all_kinds.
Definition moverlap (a b : mask) : bool := existsb (fun k => a k && b k) all_kinds.

(* coreToCUE: numType is NumberKind = IntKind|FloatKind *)
Definition kinds_of_ctype (t : ctype) : list kind :=
  match t with
  | TNull => [KNull] | TBool => [KBool] | TNum => [KInt; KFloat]
  | TStr => [KStr] | TArr => [KList] | TObj => [KStruct]
  end.
(* s.allowedTypes & coreToCUE[t] != 0 *)
Definition allows (a : mask) (t : ctype) : bool := existsb a (kinds_of_ctype t).

Definition mask_of_tyname (t : tyname) : mask :=
  match t with
  | TyNull => msingle KNull
  | TyBoolean => msingle KBool
  | TyInteger => msingle KInt
  | TyNumber => mor (msingle KInt) (msingle KFloat)
  | TyString => msingle KStr
  | TyArray => msingle KList
  | TyObject => msingle KStruct
  end.

(* ---------- expressions ---------- *)
Definition pred := json -> bool.
Inductive shape := ShTop | ShErr | ShOther.
(* [eager]: evaluating the expression itself (not one of its fields, list
   elements or validator arguments) raises the error, so a generated file whose
   root contains it does not compile.
   [cl] / [op]: the expression has a struct alternative that is closed
   (close({..})) / open (a struct with `...`, or the bare kind {...}); used
   only to recognise conjunctions in which the evaluator of the pinned tree
   loses the closedness (DEV_closed_open). *)
Record expr := mkE { ev : pred; sh : shape; eager : bool; cl : bool; op : bool }.

Definition e_top : expr := mkE (fun _ => true) ShTop false false false.      (* top() *)
Definition e_err : expr := mkE (fun _ => false) ShErr true false false.      (* errorDisallowed() *)
Definition e_other (p : pred) : expr := mkE p ShOther false false false.
Definition is_top (e : expr) : bool := match sh e with ShTop => true | _ => false end.
Definition is_err (e : expr) : bool := match sh e with ShErr => true | _ => false end.

(* kindToAST *)
Definition kind_pred (t : ctype) : pred := fun j => ctype_eqb (ctype_of j) t.

(* matchN(n, [...]) / matchN(>=1, [...])  (internal/core/compile/validator.go) *)
Definition cnt (es : list expr) (j : json) : nat := count (fun e => ev e j) es.
Definition matchN_eq (n : nat) (es : list expr) : pred := fun j => Nat.eqb (cnt es j) n.
Definition matchN_ge1 (es : list expr) : pred := fun j => Nat.leb 1 (cnt es j).
(* matchIf(if, then, else).  An argument that is an error value makes the
   call itself fail for every instance (observed; such schemas are outside
   the fragment of the theorem). *)
Definition matchIf (i t e : expr) : pred :=
  fun j => if is_err i || is_err t || is_err e then false
           else if ev i j then ev t j else ev e j.

(* per-type constraints; each one only accepts values of its own core type *)
Definition num_pred (f : Z -> bool) : pred := fun j => match j with JNum h => f h | _ => false end.
Definition str_pred (f : str -> bool) : pred := fun j => match j with JStr s => f s | _ => false end.
Definition arr_pred (f : list json -> bool) : pred := fun j => match j with JArr l => f l | _ => false end.
Definition obj_pred (f : list (str * json) -> bool) : pred := fun j => match j with JObj m => f m | _ => false end.

(* list literal  [e1, ..., en, ...rest]  *)
Inductive lrest := RAny | RNone | RType (e : expr).
Fixpoint tuple_ok (ps : list expr) (r : lrest) (vs : list json) : bool :=
  match ps, vs with
  | [], _ => match r with
             | RAny => true
             | RNone => match vs with [] => true | _ => false end
             | RType e => forallb (ev e) vs
             end
  | _ :: _, [] => false                        (* QUIRK: a CUE list [a, b, ...] needs both elements *)
  | p :: ps', v :: vs' => ev p v && tuple_ok ps' r vs'
  end.

(* ---------- struct under construction (s.obj, s.patterns, s.openness) ---------- *)
Record field := mkF { f_name : str; f_req : bool; f_val : expr }.
Inductive openness := ImplicitlyOpen | ExplicitlyOpen | ExplicitlyClosed | AllFieldsCovered.
Inductive addl :=
| AddlAll (e : expr)                                       (* [string]: e *)
| AddlExcept (pats : list pat) (names : list str) (e : expr).  (* [!~p1 & .. & !~"^(n1|..)$"]: e *)
Record objb := mkO {
  ob_fields : list field;
  ob_pats : list (pat * expr);     (* {[=~p]: e} embeddings; s.patterns is map fst *)
  ob_addl : option addl;
  ob_open : openness
}.
Definition ob_empty : objb := mkO [] [] None ImplicitlyOpen.
(* len(obj.Elts) == 0 at the time additionalProperties runs (phase 3) *)
Definition ob_no_elts (o : objb) : bool :=
  match ob_fields o, ob_pats o with [], [] => true | _, _ => false end.

Section Enc.
  Variable re : pat -> str -> bool.

  (* !~"^(n1|n2|..)$" built by excludeFields from the names of the properties
     (no such conjunct at all when there are no names) *)
  Definition excluded_by_names (names : list str) (k : str) : bool := mem_str k names.

  Definition addl_applies (a : addl) (k : str) : option expr :=
    match a with
    | AddlAll e => Some e
    | AddlExcept pats names e =>
      if forallb (fun p => negb (re p k)) pats && negb (excluded_by_names names k) then Some e else None
    end.

  (* what the finished struct literal accepts *)
  Definition struct_ok (o : objb) (m : list (str * json)) : bool :=
    forallb (fun kv =>
      let k := fst kv in let v := snd kv in
      forallb (fun f => negb (str_eqb k (f_name f)) || ev (f_val f) v) (ob_fields o) &&
      forallb (fun pe => negb (re (fst pe) k) || ev (snd pe) v) (ob_pats o) &&
      match ob_addl o with
      | Some a => match addl_applies a k with Some e => ev e v | None => true end
      | None => true
      end &&
      match ob_open o with
      | ExplicitlyClosed =>                       (* close({...}) *)
        existsb (fun f => str_eqb k (f_name f)) (ob_fields o) ||
        existsb (fun pe => re (fst pe) k) (ob_pats o)
      | _ => true
      end) m &&
    forallb (fun f => negb (f_req f) || has_key (f_name f) m) (ob_fields o).

  (* ---------- decoding state ---------- *)
  Record state := mkS {
    st_A : mask;                       (* allowedTypes *)
    st_K : mask;                       (* knownTypes *)
    st_all : list expr;                (* s.all.constraints *)
    st_C : ctype -> list pred;         (* s.types[t].constraints *)
    st_obj : option objb;
    st_prefix : option (list expr);    (* s.list elements *)
    st_rest : lrest;                   (* its ellipsis *)
    st_bad : bool;                     (* an error was recorded (d.errs) *)
    st_poison : bool;                  (* a definition (#name at the file root) is an error value *)
    st_dev : list nat                  (* the known deviations (QUIRK classes) exercised here or below *)
  }.

  Definition init (T : mask) : state := mkS T mall [] (fun _ => []) None None RAny false false [].

  Definition set_A (s : state) (a : mask) := mkS a (st_K s) (st_all s) (st_C s) (st_obj s) (st_prefix s) (st_rest s) (st_bad s) (st_poison s) (st_dev s).
  Definition set_K (s : state) (k : mask) := mkS (st_A s) k (st_all s) (st_C s) (st_obj s) (st_prefix s) (st_rest s) (st_bad s) (st_poison s) (st_dev s).
  Definition set_bad (s : state) := mkS (st_A s) (st_K s) (st_all s) (st_C s) (st_obj s) (st_prefix s) (st_rest s) true (st_poison s) (st_dev s).
  Definition set_poison (s : state) := mkS (st_A s) (st_K s) (st_all s) (st_C s) (st_obj s) (st_prefix s) (st_rest s) (st_bad s) true (st_dev s).
  Definition add_dev (cls : list nat) (s : state) :=
    mkS (st_A s) (st_K s) (st_all s) (st_C s) (st_obj s) (st_prefix s) (st_rest s) (st_bad s) (st_poison s) (st_dev s ++ cls).
  (* deviation classes *)
  (* class 1 (matchN(len(items), kept members)) is fixed in the tree: constraintAllOf counts len(a) *)
  Definition DEV_allOf_false := 2%nat.       (* `false` dropped from allOf *)
  Definition DEV_propertyNames := 3%nat.     (* {[names]: _} does not restrict names *)
  Definition DEV_required_closed := 4%nat.   (* close({.. name!: _}) admits a non-property *)
  Definition DEV_prefixItems := 5%nat.       (* [a, b, ...] needs the whole prefix *)
  (* class 6 (exclusion regexp of additionalProperties and the empty property name) is fixed in the tree *)
  Definition DEV_error_argument := 7%nat.    (* matchIf / list.MatchN called on an error value *)
  Definition DEV_duplicate_property := 8%nat.
  Definition DEV_oneOf_false := 9%nat.
  Definition DEV_closed_open := 12%nat.      (* close({..}) & {...}: closedness lost by the evaluator *)
  Definition DEV_error_member := 11%nat.     (* an error value inside a matchN list (evaluator interactions) *)
  (* class 10 (type list with "integer" and "number") is fixed in the tree *)
  Definition dev_if (b : bool) (cls : nat) (s : state) := if b then add_dev [cls] s else s.
  (* constraintInfo.add on s.all: `_` is dropped *)
  Definition add_all (s : state) (e : expr) :=
    if is_top e then s
    else mkS (st_A s) (st_K s) (st_all s ++ [e]) (st_C s) (st_obj s) (st_prefix s) (st_rest s) (st_bad s) (st_poison s) (st_dev s).
  Definition add_C (s : state) (t : ctype) (p : pred) :=
    mkS (st_A s) (st_K s) (st_all s)
        (fun t' => if ctype_eqb t' t then st_C s t' ++ [p] else st_C s t')
        (st_obj s) (st_prefix s) (st_rest s) (st_bad s) (st_poison s) (st_dev s).
  Definition set_obj (s : state) (o : objb) :=
    mkS (st_A s) (st_K s) (st_all s) (st_C s) (Some o) (st_prefix s) (st_rest s) (st_bad s) (st_poison s) (st_dev s).
  Definition set_list (s : state) (p : option (list expr)) (r : lrest) :=
    mkS (st_A s) (st_K s) (st_all s) (st_C s) (st_obj s) p r (st_bad s) (st_poison s) (st_dev s).
  (* s.object(n) *)
  Definition the_obj (s : state) : objb := match st_obj s with Some o => o | None => ob_empty end.

  (* result of schemaState: expression + schemaInfo *)
  Record result := mkR { r_e : expr; r_A : mask; r_K : mask; r_hasC : bool; r_bad : bool; r_poison : bool; r_dev : list nat }.

  (* errors of a subschema are errors of the whole import *)
  Definition absorb (r : result) (s : state) : state :=
    let s := if r_bad r then set_bad s else s in
    let s := if r_poison r then set_poison s else s in
    add_dev (r_dev r) s.
  Definition absorb_all (rs : list result) (s : state) : state := fold_left (fun s r => absorb r s) rs s.

  (* ---------- phase 1 ---------- *)
  Definition has_ty (t : tyname) (tys : list tyname) : bool :=
    existsb (fun t' => match t, t' with
                       | TyInteger, TyInteger | TyNumber, TyNumber => true
                       | _, _ => false end) tys.

  (* "integer" restricts numbers to int unless "number" is listed as well *)
  Definition int_only (tys : list tyname) : bool := has_ty TyInteger tys && negb (has_ty TyNumber tys).
  Definition step_type (tys : list tyname) (s : state) : state :=
    let s1 := if int_only tys then add_C s TNum (num_pred is_int) else s in
    set_A s1 (mand (st_A s1) (fold_left (fun m t => mor m (mask_of_tyname t)) tys mnone)).

  Definition const_pred (c : json) : expr := e_other (fun j => json_eqb j c).

  Definition step_enum (vs : list json) (s : state) : state :=
    let a := filter (fun x => st_A s (kind_of x)) vs in
    let types := fold_left (fun m x => mor m (msingle (kind_of x))) a mnone in
    let s1 := set_A (set_K s (mand (st_K s) types)) (mand (st_A s) types) in
    match a with
    | [] => s1
    | _ => add_all s1 (e_other (fun j => existsb (json_eqb j) a))
    end.

  Definition step_const (c : json) (s : state) : state :=
    let s1 := add_all s (const_pred c) in
    set_K (set_A s1 (mand (st_A s1) (msingle (kind_of c)))) (mand (st_K s1) (msingle (kind_of c))).

  Definition opt_step {A} (f : A -> state -> state) (o : option A) (s : state) : state :=
    match o with Some x => f x s | None => s end.

  Definition step_multipleOf (k : Z) (s : state) : state :=
    let s1 := if Z.leb k 0 then set_bad s else s in
    add_C s1 TNum (num_pred (multiple_of k)).

  Definition phase1 (a : assertions) (s : state) : state :=
    let s := opt_step step_type (a_type a) s in
    let s := opt_step step_enum (a_enum a) s in
    let s := opt_step step_const (a_const a) s in
    let s := opt_step step_multipleOf (a_multipleOf a) s in
    let s := opt_step (fun b s => add_C s TNum (num_pred (fun h => Z.ltb h b))) (a_xmax a) s in
    let s := opt_step (fun b s => add_C s TNum (num_pred (fun h => Z.ltb b h))) (a_xmin a) s in
    let s := opt_step (fun n s => add_C s TStr (str_pred (fun x => N.leb (N_len x) n))) (a_maxLength a) s in
    let s := opt_step (fun n s => add_C s TStr (str_pred (fun x => N.leb n (N_len x)))) (a_minLength a) s in
    let s := opt_step (fun p s => add_C s TStr (str_pred (re p))) (a_pattern a) s in
    let s := opt_step (fun n s => add_C s TObj (obj_pred (fun m => N.leb (N_len m) n))) (a_maxProps a) s in
    let s := opt_step (fun n s => add_C s TObj (obj_pred (fun m => N.leb n (N_len m)))) (a_minProps a) s in
    let s := opt_step (fun n s => add_C s TArr (arr_pred (fun l => N.leb (N_len l) n))) (a_maxItems a) s in
    let s := opt_step (fun n s => add_C s TArr (arr_pred (fun l => N.leb n (N_len l)))) (a_minItems a) s in
    let s := opt_step (fun (u : bool) s => if u then add_C s TArr (arr_pred unique_items) else s) (a_unique a) s in
    s.

  (* ---------- phase 2: combinators (constraints_combinator.go) ---------- *)
  Definition step_ref (r : result) (s : state) : state :=
    (* s.all.add(n, refExpr): a reference is never literally `_`.  The
       definition #name becomes a field at the root of the generated file; if
       its value is an error the whole file is. *)
    let s := absorb r s in
    let s := if eager (r_e r) then set_poison s else s in
    mkS (st_A s) (st_K s) (st_all s ++ [mkE (ev (r_e r)) ShOther false (cl (r_e r)) (op (r_e r))])
        (st_C s) (st_obj s) (st_prefix s) (st_rest s) (st_bad s) (st_poison s) (st_dev s).

  (* the loop of constraintAllOf: every member is decoded under the allowed
     types narrowed by the members before it *)
  Fixpoint allOf_loop (l : list (mask -> result)) (A : mask) : list result * mask :=
    match l with
    | [] => ([], A)
    | x :: l' =>
      let r := x A in
      let '(rs, A') := allOf_loop l' (mand A (r_A r)) in
      (r :: rs, A')
    end.

  Definition step_allOf (nitems : nat) (rs : list result) (A' : mask) (s : state) : state :=
    let s := if Nat.eqb nitems 0 then set_bad s else s in
    let s := absorb_all rs s in
    let kept := filter r_hasC rs in
    let a := map r_e kept in
    let known := fold_left (fun m r => mor m (r_K r)) kept mnone in
    (* QUIRK: a member `false` has no constraints and is dropped *)
    let s := dev_if (existsb (fun r => is_err (r_e r) && negb (r_hasC r) && negb (mempty (r_A r))) rs) DEV_allOf_false s in
    let s := set_A s A' in
    match a with
    | [] => s
    | [x] => add_all (set_K s (mand (st_K s) known)) x
    | _ =>
      (* the count is the number of members that were kept: len(a) *)
      add_all (set_K s (mand (st_K s) known)) (e_other (matchN_eq (length a) a))
    end.

  Definition step_anyOf (nitems : nat) (rs : list result) (s : state) : state :=
    let s := if Nat.eqb nitems 0 then set_bad s else s in
    let s := absorb_all rs s in
    let kept := filter (fun r => negb (mempty (r_A r))) rs in
    let a := map r_e kept in
    let types := fold_left (fun m r => mor m (r_A r)) kept mnone in
    let known := fold_left (fun m r => mor m (r_K r)) kept mnone in
    match a with
    | [] => set_A s mnone
    | [x] => add_all s x
    | _ => add_all (set_K (set_A s (mand (st_A s) types)) (mand (st_K s) known)) (e_other (matchN_ge1 a))
    end.

  (* needsConstraint of constraintOneOf *)
  Fixpoint oneOf_needs (kept : list result) (types : mask) : bool :=
    match kept with
    | [] => false
    | r :: rest =>
      (if r_hasC r then true else moverlap types (r_A r)) || oneOf_needs rest (mor types (r_A r))
    end.

  Definition step_oneOf (nitems : nat) (rs : list result) (s : state) : state :=
    let s := if Nat.eqb nitems 0 then set_bad s else s in
    let s := absorb_all rs s in
    let kept := filter (fun r => negb (mempty (r_A r))) rs in
    let a := map r_e kept in
    let types := fold_left (fun m r => mor m (r_A r)) kept mnone in
    let known := fold_left (fun m r => mor m (r_K r)) kept mnone in
    let s := set_A s (mand (st_A s) types) in
    let s := dev_if (negb (oneOf_needs kept mnone) && existsb (fun r => is_err (r_e r)) kept) DEV_oneOf_false s in
    if oneOf_needs kept mnone then
      match a with
      | [] => s
      | [x] => add_all (set_K s (mand (st_K s) known)) x
      | _ => add_all (set_K s (mand (st_K s) known)) (e_other (matchN_eq 1 a))
      end
    else s.

  Definition step_not (r : result) (s : state) : state :=
    let s := absorb r s in
    add_all s (e_other (matchN_eq 0 [r_e r])).

  (* ---------- phase 2: object / array applicators ---------- *)
  Definition step_props (l : list (str * result)) (s : state) : state :=
    let s := absorb_all (map snd l) s in
    let s := dev_if (negb (nodup_str (map fst l))) DEV_duplicate_property s in
    let o := the_obj s in
    set_obj s (mkO (ob_fields o ++ map (fun kr => mkF (fst kr) false (r_e (snd kr))) l)
                   (ob_pats o) (ob_addl o) (ob_open o)).

  Definition step_pprops (l : list (pat * result)) (s : state) : state :=
    let s := absorb_all (map snd l) s in
    let o := the_obj s in
    set_obj s (mkO (ob_fields o) (ob_pats o ++ map (fun pr => (fst pr, r_e (snd pr))) l)
                   (ob_addl o) (ob_open o)).

  (* constraintPropertyNames: {[names]: _} is a pattern constraint with value
     top, so it only demands a struct (QUIRK: names are not restricted) *)
  Definition step_pnames (r : result) (s : state) : state :=
    let s := absorb r s in
    let s := dev_if (negb (is_top (r_e r))) DEV_propertyNames s in
    if is_top (r_e r) then s
    else if is_err (r_e r) then add_C s TObj (obj_pred (fun _ => false))   (* {[error(..)]: _} *)
    else add_C s TObj (obj_pred (fun _ => true)).

  Definition step_prefix (rs : list result) (s : state) : state :=
    let s := absorb_all rs s in
    let s := dev_if (match rs with [] => false | _ => true end) DEV_prefixItems s in
    set_list s (Some (map r_e rs)) RAny.

  Definition step_contains (lo : N) (hi : option N) (r : result) (s : state) : state :=
    let s := absorb r s in
    let s := dev_if (is_err (r_e r)) DEV_error_argument s in     (* list.MatchN(.., error(..)) fails for every list *)
    add_C s TArr (arr_pred (fun vs => in_range (count (ev (r_e r)) vs) lo hi)).

  (* ---------- phase 3 ---------- *)
  Definition step_addl_bool (b : bool) (s : state) : state :=
    let o := the_obj s in
    set_obj s (mkO (ob_fields o) (ob_pats o) (ob_addl o) (if b then ExplicitlyOpen else ExplicitlyClosed)).

  Definition step_addl_schema (r : result) (s : state) : state :=
    let s := absorb r s in
    let o := the_obj s in
    if ob_no_elts o then
      set_obj s (mkO (ob_fields o) (ob_pats o) (Some (AddlAll (r_e r))) AllFieldsCovered)
    else
      set_obj s (mkO (ob_fields o) (ob_pats o)
                     (Some (AddlExcept (map fst (ob_pats o)) (map f_name (ob_fields o)) (r_e r)))
                     AllFieldsCovered).

  (* setAdditionalItems / constraintItems *)
  Definition step_items (r : result) (s : state) : state :=
    let s := absorb r s in
    let e := r_e r in
    match st_prefix s with
    | Some ps =>
      if is_err e then set_list s (Some ps) RNone
      else if is_top e then s
      else set_list s (Some ps) (RType e)
    | None => add_C s TArr (arr_pred (forallb (ev e)))
    end.

  (* ---------- phase 4: required ---------- *)
  Fixpoint mark_required (k : str) (fs : list field) : list field :=
    match fs with
    | [] => []
    | f :: r => if str_eqb k (f_name f) then mkF (f_name f) true (f_val f) :: mark_required k r
                else f :: mark_required k r
    end.

  Definition step_required (req : list str) (s : state) : state :=
    let s := if nodup_str req then s else set_bad s in
    let o := the_obj s in
    (* QUIRK: close({.. name!: _}) admits a required name that is not a property *)
    let s := dev_if (match ob_open o with
                     | ExplicitlyClosed => existsb (fun k => negb (existsb (fun f => str_eqb k (f_name f)) (ob_fields o))) req
                     | _ => false
                     end) DEV_required_closed s in
    let fs := fold_left (fun fs k =>
                 if existsb (fun f => str_eqb k (f_name f)) fs then mark_required k fs
                 else fs ++ [mkF k true e_top]) req (ob_fields o) in
    set_obj s (mkO fs (ob_pats o) (ob_addl o) (ob_open o)).

  (* ---------- finalize ---------- *)
  Definition conjp (ps : list pred) : pred := fun j => forallb (fun p => p j) ps.

  (* finalizeObject + the list literal of prefixItems, as the object / array constraint *)
  Definition final_C (s : state) (t : ctype) : list pred :=
    st_C s t ++
    match t with
    | TObj => match st_obj s with Some o => [obj_pred (struct_ok o)] | None => [] end
    | TArr => match st_prefix s with Some ps => [arr_pred (tuple_ok ps (st_rest s))] | None => [] end
    | _ => []
    end.

  Definition needs_disj (s : state) : bool :=
    negb (meq (st_A s) (st_K s)) ||
    existsb (fun t => match final_C s t with [] => false | _ => allows (st_A s) t end) all_ctypes.

  (* the disjuncts, one per core type *)
  Definition disjunct (s : state) (t : ctype) : option pred :=
    match final_C s t with
    | [] => if allows (st_A s) t && allows (st_K s) t then Some (kind_pred t) else None
    | cs => if allows (st_A s) t then Some (conjp cs) else None
    end.

  Definition disjuncts (s : state) : list pred :=
    if needs_disj s then
      flat_map (fun t => match disjunct s t with Some p => [p] | None => [] end) all_ctypes
    else [].

  (* struct alternatives of the type disjunction *)
  Definition objcl (s : state) : bool :=
    allows (st_A s) TObj &&
    match st_obj s with
    | Some o => match ob_open o with ExplicitlyClosed => true | _ => false end
    | None => false
    end.
  Definition objop (s : state) : bool :=
    allows (st_A s) TObj &&
    match st_obj s with
    | Some o => match ob_open o with ExplicitlyClosed => false | _ => true end
    | None => match final_C s TObj with [] => true | _ => false end
    end.

  Definition finalize (s : state) : expr :=
    if mempty (st_A s) then e_err
    else
      let ds := disjuncts s in
      match st_all s, ds with
      | [], [] => e_top
      | [c], [] => c                              (* NewBinExpr(AND, [c]) is c itself *)
      | cs, [] => mkE (fun j => forallb (fun c => ev c j) cs) ShOther (existsb eager cs) (existsb cl cs) (existsb op cs)
      | cs, _ => mkE (fun j => forallb (fun c => ev c j) cs && existsb (fun d => d j) ds) ShOther
                     (existsb eager cs) (existsb cl cs || objcl s) (existsb op cs || objop s)
      end.

  (* a closed struct alternative in one conjunct and an open one in another *)
  Fixpoint cross (seen_op : bool) (l : list (bool * bool)) : bool :=
    match l with
    | [] => false
    | (c, o) :: r => (c && (seen_op || existsb snd r)) || cross (seen_op || o) r
    end.
  Definition closed_open_conflict (s : state) : bool :=
    negb (mempty (st_A s)) &&
    cross false (map (fun c => (cl c, op c)) (st_all s) ++
                 match disjuncts s with [] => [] | _ => [(objcl s, objop s)] end).

  Definition has_constraints (s : state) : bool :=
    match st_all s with [] => false | _ => true end ||
    existsb (fun t => match st_C s t with [] => false | _ => true end) all_ctypes ||
    match st_obj s with Some _ => true | None => false end ||
    match st_prefix s with Some _ => true | None => false end.

  Definition result_of (s : state) : result :=
    mkR (finalize s) (st_A s) (if mempty (st_A s) then st_K s else st_A s) (has_constraints s) (st_bad s) (st_poison s)
        (st_dev s ++ (if closed_open_conflict s then [DEV_closed_open] else [])).

  (* constraintIfThenElse *)
  Definition step_ite (i t e : option (mask -> result)) (s : state) : state :=
    match i with
    | None => s
    | Some si =>
      match t, e with
      | None, None => s
      | _, _ =>
        let ri := si (st_A s) in
        let rt := match t with Some st => Some (st (mand (st_A s) (r_A ri))) | None => None end in
        let re' := match e with Some se => Some (se (st_A s)) | None => None end in
        let s := absorb ri s in
        let s := match rt with Some r => absorb r s | None => s end in
        let s := match re' with Some r => absorb r s | None => s end in
        let et := match rt with Some r => r_e r | None => e_top end in
        let ee := match re' with Some r => r_e r | None => e_top end in
        let s := dev_if (is_err (r_e ri) || is_err et || is_err ee) DEV_error_argument s in
        add_all s (mkE (matchIf (r_e ri) et ee) ShOther (is_err (r_e ri) || is_err et || is_err ee) false false)
      end
    end.

  Definition bool_result (b : bool) (T : mask) : result :=
    mkR (if b then e_top else e_err) T mall false false false [].

  Definition opt_res {A} (f : A -> state -> state) (o : option A) (s : state) : state :=
    match o with Some x => f x s | None => s end.

  (* The recursion is separated from the state threading: [enc] first turns
     every subschema into the function  types |-> schemaState(sub, types)  and
     [assemble] (not recursive) runs the keyword functions in phase order. *)
  Definition sub := mask -> result.

  Definition amap {S S'} (f : S -> S') (p : applic S) : applic S' :=
    mkP (option_map f (ap_ref p))
        (option_map (map f) (ap_allOf p))
        (option_map (map f) (ap_anyOf p))
        (option_map (map f) (ap_oneOf p))
        (option_map f (ap_not p))
        (option_map f (ap_if p)) (option_map f (ap_then p)) (option_map f (ap_else p))
        (option_map (map (fun ks => (fst ks, f (snd ks)))) (ap_props p))
        (option_map (map (fun ks => (fst ks, f (snd ks)))) (ap_pprops p))
        (option_map f (ap_pnames p))
        (option_map (map f) (ap_prefix p))
        (option_map f (ap_contains p))
        (option_map f (ap_addl p))
        (option_map f (ap_items p)).

  Definition do_ref (o : option sub) (st : state) : state :=
    match o with Some f => step_ref (f mall) st | None => st end.
  (* An error value as a member of a matchN list is evaluated correctly on its
     own, but the evaluator of the pinned tree mishandles it next to a second
     validator on list / struct instances (observed); such schemas are kept
     out of the fragment (DEV_error_member). *)
  Definition err_kept (rs : list result) : bool :=
    existsb (fun r => is_err (r_e r) && negb (mempty (r_A r))) rs.
  Definition do_allOf (o : option (list sub)) (st : state) : state :=
    match o with
    | Some l => let '(rs, A') := allOf_loop l (st_A st) in
                dev_if (existsb (fun r => is_err (r_e r) && r_hasC r) rs) DEV_error_member (step_allOf (length l) rs A' st)
    | None => st end.
  Definition do_anyOf (o : option (list sub)) (st : state) : state :=
    match o with
    | Some l => dev_if (err_kept (map (fun f => f (st_A st)) l)) DEV_error_member
                       (step_anyOf (length l) (map (fun f => f (st_A st)) l) st)
    | None => st end.
  Definition do_oneOf (o : option (list sub)) (st : state) : state :=
    match o with
    | Some l => dev_if (err_kept (map (fun f => f (st_A st)) l)) DEV_error_member
                       (step_oneOf (length l) (map (fun f => f (st_A st)) l) st)
    | None => st end.
  Definition do_not (o : option sub) (st : state) : state :=
    match o with
    | Some f => dev_if (is_err (r_e (f mall))) DEV_error_member (step_not (f mall) st)
    | None => st end.
  Definition do_props (o : option (list (str * sub))) (st : state) : state :=
    match o with Some l => step_props (map (fun ks => (fst ks, snd ks mall)) l) st | None => st end.
  Definition do_pprops (o : option (list (pat * sub))) (st : state) : state :=
    match o with Some l => step_pprops (map (fun ps => (fst ps, snd ps mall)) l) st | None => st end.
  Definition do_pnames (o : option sub) (st : state) : state :=
    match o with Some f => step_pnames (f (msingle KStr)) st | None => st end.
  Definition do_prefix (o : option (list sub)) (st : state) : state :=
    match o with Some l => step_prefix (map (fun f => f mall) l) st | None => st end.
  Definition do_contains (a : assertions) (o : option sub) (st : state) : state :=
    match o with
    | Some f => step_contains (match a_minContains a with Some n => n | None => 1%N end)
                              (a_maxContains a) (f mall) st
    | None => st end.
  (* constraintAdditionalProperties switches on the JSON kind of the value *)
  Definition do_addl (syn : option schema) (o : option sub) (st : state) : state :=
    match syn, o with
    | Some (SBool b), _ => step_addl_bool b st
    | Some _, Some f => step_addl_schema (f mall) st
    | _, _ => st end.
  Definition do_items (o : option sub) (st : state) : state :=
    match o with Some f => step_items (f mall) st | None => st end.
  Definition phase2_bounds (a : assertions) (st : state) : state :=
    opt_step (fun b s => add_C s TNum (num_pred (fun h => Z.leb b h))) (a_min a)
      (opt_step (fun b s => add_C s TNum (num_pred (fun h => Z.leb h b))) (a_max a) st).

  Definition assemble (a : assertions) (syn : applic schema) (p : applic sub) (T : mask) : result :=
    let st := phase1 a (init T) in
    (* phase 2 *)
    let st := do_ref (ap_ref p) st in
    let st := do_allOf (ap_allOf p) st in
    let st := do_anyOf (ap_anyOf p) st in
    let st := do_oneOf (ap_oneOf p) st in
    let st := do_not (ap_not p) st in
    let st := do_props (ap_props p) st in
    let st := do_pprops (ap_pprops p) st in
    let st := do_pnames (ap_pnames p) st in
    let st := do_prefix (ap_prefix p) st in
    let st := do_contains a (ap_contains p) st in
    let st := phase2_bounds a st in
    (* phase 3 *)
    let st := do_addl (ap_addl syn) (ap_addl p) st in
    let st := do_items (ap_items p) st in
    (* phase 4 *)
    let st := opt_step step_required (a_required a) st in
    (* constraintIfThenElse, then finalize *)
    let st := step_ite (ap_if p) (ap_then p) (ap_else p) st in
    result_of st.

  Fixpoint enc (s : schema) : mask -> result :=
    match s with
    | SBool b => bool_result b
    | SObj a p => assemble a p (amap enc p)
    end.

  (* jsonschema.Extract of a whole document: root schema under allTypes *)
  Definition encode (s : schema) : json -> bool := ev (r_e (enc s mall)).

  (* does the schema (through any keyword) use a constraint that is imported
     from a CUE package (strings, math, list, struct) *)
  Definition a_mentions_pkg (a : assertions) : bool :=
    match a_multipleOf a, a_maxLength a, a_minLength a, a_maxProps a, a_minProps a, a_maxItems a, a_unique a with
    | None, None, None, None, None, None, None => false
    | _, _, _, _, _, _, _ => true
    end.
  Fixpoint mentions_pkg (s : schema) : bool :=
    match s with
    | SBool _ => false
    | SObj a p =>
      a_mentions_pkg a ||
      let o (x : option schema) := match x with Some s' => mentions_pkg s' | None => false end in
      let ol (x : option (list schema)) := match x with Some l => existsb mentions_pkg l | None => false end in
      o (ap_ref p) || ol (ap_allOf p) || ol (ap_anyOf p) || ol (ap_oneOf p) || o (ap_not p) ||
      o (ap_if p) || o (ap_then p) || o (ap_else p) ||
      match ap_props p with Some l => existsb (fun ks => mentions_pkg (snd ks)) l | None => false end ||
      match ap_pprops p with Some l => existsb (fun ks => mentions_pkg (snd ks)) l | None => false end ||
      o (ap_pnames p) || ol (ap_prefix p) ||
      match ap_contains p with Some _ => true | None => false end ||
      o (ap_addl p) || o (ap_items p)
    end.

  (* Import-time failures.
     [unsupported]: jsonschema.Extract returns an error - an error was recorded
     while decoding (anywhere in the document), or the root cannot be satisfied
     by any type ("constraints are not possible to satisfy").
     [poisoned]: Extract succeeds but the generated file is an error value as a
     whole (reported by Value.Err() of the compiled file, and every instance
     is rejected): the root expression raises an error as soon as it is
     evaluated, a definition at the file root is an error value, or the root
     struct has a propertyNames label expression that refers to an imported
     package. *)
  Definition unsupported (s : schema) : bool :=
    let r := enc s mall in r_bad r || mempty (r_A r).

  Definition poisoned (s : schema) : bool :=
    let r := enc s mall in
    r_poison r || eager (r_e r) ||
    match s with
    | SObj a p => match ap_pnames p with
                  | Some s' => mentions_pkg s' && allows (r_A r) TObj
                  | None => false
                  end
    | SBool _ => false
    end.

End Enc.
